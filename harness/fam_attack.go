package main

// Attack-enumeration families of the token layer:
//   forge (C01), discharge (C04), bind (C06), attest (C07), proof (C08), attenuate (C02).
// Each candidate goes to the real Decode+Verify and to the model's verify; next to it a
// declarative oracle line (spec.*) states what the property demands of the implementation's
// answer, computed by the harness from how the candidate was assembled.

import (
	"bytes"
	"context"
	"crypto/sha256"
	"encoding/base64"
	"encoding/hex"
	"fmt"
	"math/big"
	mrand "math/rand"
	"regexp"
	"strings"
	"sync"
	"time"

	"github.com/superfly/macaroon"
	"github.com/superfly/macaroon/auth"
	"github.com/superfly/macaroon/bundle"
	"github.com/superfly/macaroon/flyio"
	"github.com/superfly/macaroon/resset"
)

func init() {
	families["forge"] = famForge
	families["discharge"] = famDischarge
	families["bind"] = famBind
	families["attest"] = famAttest
	families["proof"] = famProof
	families["attenuate"] = famAttenuate
}

// ---------------------------------------------------------------- helpers

type honest struct {
	bytes  []byte
	nonce  []byte   // encoded nonce
	cavs   [][]byte // encoded caveats (each NewCaveatSet(c) encoding)
	parent int
}

func tokParts(b []byte) (nonce []byte, cavs [][]byte, ok bool) {
	m, err := macaroon.Decode(b)
	if err != nil {
		return nil, nil, false
	}
	nonce = m.Nonce.MustEncode()
	for _, c := range m.UnsafeCaveats.Caveats {
		e, err := encOne(c)
		if err != nil {
			return nil, nil, false
		}
		cavs = append(cavs, e)
	}
	return nonce, cavs, true
}

// extendsHonest: the candidate's (nonce, caveats) extend some honest token of the family
func extendsHonest(cand []byte, hs []honest) bool {
	n, cs, ok := tokParts(cand)
	if !ok {
		return false
	}
	for _, h := range hs {
		if !bytes.Equal(h.nonce, n) || len(h.cavs) > len(cs) {
			continue
		}
		match := true
		for i := range h.cavs {
			if !bytes.Equal(h.cavs[i], cs[i]) {
				match = false
				break
			}
		}
		if match {
			return true
		}
	}
	return false
}

// handAppend appends a caveat and MACs it by hand (what a bearer who knows the tail can always do),
// bypassing the checks of Add.  On a fresh (unfinalised) proof the later Encode finalises as usual.
func handAppend(m *macaroon.Macaroon, c macaroon.Caveat) {
	ce, err := encOne(c)
	if err != nil {
		return
	}
	m.UnsafeCaveats.Caveats = append(m.UnsafeCaveats.Caveats, c)
	m.Tail = hmacSum(m.Tail, ce)
}

func finalizeSig(t []byte) []byte { return hmacSum([]byte("proof-signature-finalization"), t) }

func sha(b []byte) []byte { s := sha256.Sum256(b); return s[:] }

// growTree: a family of honest tokens: the root and attenuations by holders working from bytes
func growTree(r *Rng, root *macaroon.Macaroon, depth, fan int) []honest {
	rb := mustEnc(root)
	n, cs, _ := tokParts(rb)
	out := []honest{{rb, n, cs, -1}}
	frontier := []int{0}
	for d := 0; d < depth; d++ {
		var next []int
		for _, pi := range frontier {
			for f, ff := 0, 1+r.Intn(fan); f < ff; f++ {
				m, err := macaroon.Decode(out[pi].bytes)
				if err != nil {
					continue
				}
				var cavs []macaroon.Caveat
				for k, kk := 0, 1+r.Intn(2); k < kk; k++ {
					cavs = append(cavs, r.plainCav(1))
				}
				if m.Add(cavs...) != nil {
					continue
				}
				b := mustEnc(m)
				nn, cc, _ := tokParts(b)
				out = append(out, honest{b, nn, cc, pi})
				next = append(next, len(out)-1)
			}
		}
		frontier = next
	}
	return out
}

// isDescendant: node is anc or a further attenuation of it — by content (same nonce, anc's caveats a
// prefix of node's), since re-adding an identical caveat or identical sibling attenuations give equal tokens
func isDescendant(hs []honest, node, anc int) bool {
	a, n := hs[anc], hs[node]
	if !bytes.Equal(a.nonce, n.nonce) || len(a.cavs) > len(n.cavs) {
		return false
	}
	for i := range a.cavs {
		if !bytes.Equal(a.cavs[i], n.cavs[i]) {
			return false
		}
	}
	return true
}

// rebuild a token from parts with an explicit nonce encoding (lets the attacker change the nonce version)
func assemble(nonceEnc []byte, loc string, cavEncs [][]byte, tail []byte) []byte {
	out := append([]byte{0x94}, nonceEnc...)
	out = append(out, mpEnc(mpStrNode(loc))...)
	n := len(cavEncs) * 2
	switch {
	case n < 16:
		out = append(out, 0x90+byte(n))
	default:
		out = append(out, 0xdc, byte(n>>8), byte(n))
	}
	for _, ce := range cavEncs {
		out = append(out, ce[1:]...) // strip the 0x92 of the one-element set
	}
	out = append(out, mpEnc(&mpNode{Kind: mpBin, S: tail})...)
	return out
}

func emitVerify(o *Out, key, cand []byte, ds [][]byte, trusted map[string][]macaroon.EncryptionKey) string {
	obs := verifyObs(key, cand, ds, trusted)
	if !comparable(cand, ds) {
		o.count("skipped.unmodelled-nil")
		return "err:unmodelled"
	}
	o.emit(verifyOp(key, cand, ds, trusted), obs)
	if strings.HasPrefix(obs, "ok") {
		o.count("verify.accept")
	} else {
		o.count("verify." + strings.SplitN(strings.TrimPrefix(obs, "err:"), "(", 2)[0])
	}
	return obs
}

// ---------------------------------------------------------------- C01 forge

// value pools of the forge family (family-local: wider than the pools of gen.go)
var forgeKeyLens = []int{32, 32, 32, 32, 0, 1, 16, 31, 33, 64, 65, 100}
var forgeKidLens = []int{8, 8, 8, 0, 1, 16, 40, 300}
var forgeLocs = []string{"https://api.fly.io/v1", "https://api.fly.io/v1", "", "loc", "HTTPS://API.FLY.IO/v1/", "https://api.fly.io/v1?x=1&y=%2F#frag",
	"https://\u00fc.example/\u03c0/\U0001F511", "a b\tc\n", strings.Repeat("https://long.example/", 16)}

func locClass(l string) string {
	switch {
	case l == "":
		return "empty"
	case len(l) > 255:
		return "long"
	case strings.ContainsAny(l, " \t\n"):
		return "space"
	case strings.IndexFunc(l, func(c rune) bool { return c > 127 }) >= 0:
		return "unicode"
	case strings.ContainsAny(l, "?#"):
		return "query"
	case l != strings.ToLower(l):
		return "upper"
	}
	return "plain"
}

// hmacKeyEquivalent: HMAC pads keys shorter than its block (64 bytes) with zero bytes and hashes longer ones, so
// two different byte strings can be ONE key; such a pair is not "another key"
func hmacKeyEquivalent(a, b []byte) bool {
	norm := func(k []byte) []byte {
		if len(k) > 64 {
			k = sha(k)
		}
		return append(append([]byte{}, k...), make([]byte, 64-len(k))...)
	}
	return bytes.Equal(norm(a), norm(b))
}

// loosenToken: the same token value in another msgpack spelling (what the library's decoder accepts for the same Go
// value); bodies that pass through verification verbatim (unregistered caveats) are left alone
func loosenToken(r *Rng, tree *mpNode) {
	mpLoosen(r, tree.Kids[0])
	mpLoosen(r, tree.Kids[1])
	mpLoosen(r, tree.Kids[3])
	cv := tree.Kids[2]
	if cv.Kind != mpArr {
		return
	}
	if r.Bool() {
		cv.Code = pick(r, []byte{0xdc, 0xdd})
	}
	for i := 0; i+1 < len(cv.Kids); i += 2 {
		mpLoosen(r, cv.Kids[i])
		one := mpEnc(&mpNode{Kind: mpArr, Kids: []*mpNode{cv.Kids[i], cv.Kids[i+1]}})
		if cs, err := macaroon.DecodeCaveats(one); err == nil && len(cs.Caveats) == 1 && !cavHasUnregistered(cs.Caveats[0]) {
			mpLoosen(r, cv.Kids[i+1])
		}
	}
}

func cavHasUnregistered(c macaroon.Caveat) bool {
	if _, ok := c.(*macaroon.UnregisteredCaveat); ok {
		return true
	}
	if w, ok := c.(macaroon.WrapperCaveat); ok && w.Unwrap() != nil {
		for _, x := range w.Unwrap().Caveats {
			if cavHasUnregistered(x) {
				return true
			}
		}
	}
	return false
}

func famForge(r *Rng, o *Out, tier string) {
	n := 40
	if tier == "thorough" {
		n = 800
	}
	for fam := 0; fam < n; fam++ {
		// issuer key, key-id and location range over what New accepts: any byte strings (the empty ones included),
		// any text (empty, upper case, query/fragment, non-ASCII, longer than a one-byte length header)
		key := r.Bytes(pick(r, forgeKeyLens))
		kid := r.Bytes(pick(r, forgeKidLens))
		loc := pick(r, forgeLocs)
		o.count(fmt.Sprintf("root.keylen.%d", len(key)))
		o.count(fmt.Sprintf("root.kidlen.%d", len(kid)))
		o.count("root.loc." + locClass(loc))
		var root *macaroon.Macaroon
		oldFormat := r.Chance(1, 4)
		if oldFormat {
			// a token minted in the old two-field nonce format
			root, _ = macaroon.Decode(oldFormatToken(key, kid, r.Bytes(16), loc))
			o.count("root.v0")
		} else {
			root, _ = macaroon.New(kid, loc, key)
		}
		// half of the families carry a third-party caveat (at a random position among the issuer's caveats)
		// and are presented with its unbound discharge: caveats AFTER it must be as protected as those before
		var ds [][]byte
		var trusted map[string][]macaroon.EncryptionKey
		tpAt := -1
		nroot := r.Intn(4)
		// one family in eight has a LONG caveat list (the list header changes format at 8 caveats; an edit far from
		// both ends): its tree is kept small and the drop positions are sampled, so that the line count stays put
		long := r.Chance(1, 8)
		if long {
			nroot = 9 + r.Intn(16)
			o.count("root.long")
		}
		if r.Bool() {
			tpAt = r.Intn(nroot + 1)
		}
		var boundDs *macaroon.Macaroon
		for k := 0; k <= nroot; k++ {
			if k == tpAt {
				ka := r.Bytes(32)
				tpl := pick(r, []string{"https://auth.example", "https://auth.example", "", "HTTPS://AUTH.EXAMPLE/"})
				it, _ := newTP(ka, tpl)
				if root.Add(it.cav) == nil {
					_, d, _ := macaroon.DischargeTicket(ka, tpl, it.tp.ticket)
					ds = append(ds, mustEnc(d))
					_, boundDs, _ = macaroon.DischargeTicket(ka, tpl, it.tp.ticket) // (bound below, once the root is complete)
					o.count("root.with3p")
					// the verifier may have been told to trust the third party (right key, a wrong key, both): what is
					// accepted does not depend on it
					switch r.Intn(4) {
					case 0:
						trusted = map[string][]macaroon.EncryptionKey{tpl: {ka}}
						o.count("root.trust.right")
					case 1:
						trusted = map[string][]macaroon.EncryptionKey{tpl: {r.Bytes(32), ka}, "https://elsewhere": {ka}}
						o.count("root.trust.several")
					case 2:
						trusted = map[string][]macaroon.EncryptionKey{tpl: {r.Bytes(32)}}
						o.count("root.trust.wrong")
					}
				}
			}
			if k < nroot {
				root.Add(r.plainCav(1))
			}
		}
		if boundDs != nil && r.Chance(1, 4) && boundDs.Bind(mustEnc(root)) == nil {
			// the discharge bound to the root: works with the root and everything attenuated from it
			ds = [][]byte{mustEnc(boundDs)}
			o.count("root.with3p.boundDischarge")
		}
		var hs []honest
		if long {
			hs = growTree(r, root, 1, 1)
		} else {
			hs = growTree(r, root, 2, 2)
		}
		// what the attacker holds: a random non-empty subset
		var held []int
		for i := range hs {
			if r.Bool() {
				held = append(held, i)
			}
		}
		if len(held) == 0 {
			held = []int{r.Intn(len(hs))}
		}
		var heldTails [][]byte
		for _, i := range held {
			m, _ := macaroon.Decode(hs[i].bytes)
			heldTails = append(heldTails, m.Tail)
		}
		try := func(kind string, cand []byte) {
			o.count("cand." + kind)
			obs := emitVerify(o, key, cand, ds, trusted)
			if obs == "err:unmodelled" {
				return
			}
			if strings.HasPrefix(obs, "ok") {
				o.count("accepted." + kind)
			}
			if strings.HasPrefix(obs, "ok") && !extendsHonest(cand, hs) {
				o.emit("(const sound)", "forgery:"+kind)
			} else {
				o.emit("(const sound)", "sound")
			}
		}
		for _, hi := range held {
			h := hs[hi]
			m, _ := macaroon.Decode(h.bytes)
			nEnc := h.nonce
			// tails the attacker can try for a given caveat list
			tailsFor := func(cavEncs [][]byte) [][]byte {
				ts := [][]byte{m.Tail, make([]byte, 32), r.Bytes(32), sha(m.Tail), finalizeSig(m.Tail), m.Tail[:16], {}}
				// (a tail that is LONGER than a MAC and starts / ends with the held one, or one byte short of it)
				ts = append(ts, pick(r, [][]byte{append(append([]byte{}, m.Tail...), 0), append(append([]byte{}, m.Tail...), m.Tail...),
					append([]byte{0}, m.Tail...), m.Tail[:31], m.Tail[1:]}))
				ts = append(ts, pick(r, heldTails))
				// the honest continuation from this held tail over a suffix (valid only if cavEncs extends h)
				if len(cavEncs) >= len(h.cavs) {
					t := m.Tail
					for _, ce := range cavEncs[len(h.cavs):] {
						t = hmacSum(t, ce)
					}
					ts = append(ts, t)
				}
				// the chain restarted from a held tail over ALL caveats
				t := pick(r, heldTails)
				for _, ce := range cavEncs {
					t = hmacSum(t, ce)
				}
				return append(ts, t)
			}
			// caveat edits
			var edits [][][]byte
			names := []string{}
			cs := h.cavs
			add := func(name string, e [][]byte) { edits = append(edits, e); names = append(names, name) }
			add("same", cs)
			for i := range cs {
				if len(cs) > 7 && i != 0 && i != len(cs)-1 && !r.Chance(2, len(cs)) {
					continue
				}
				add("drop", append(append([][]byte{}, cs[:i]...), cs[i+1:]...))
			}
			if len(cs) >= 3 {
				// two caveats at once, and everything but one
				i := r.Intn(len(cs) - 1)
				add("drop2", append(append([][]byte{}, cs[:i]...), cs[i+2:]...))
				j := r.Intn(len(cs))
				add("keep1", [][]byte{cs[j]})
			}
			if len(cs) >= 2 {
				// neighbours exchanged, the list rotated, the list reversed
				i := r.Intn(len(cs) - 1)
				sw := append([][]byte{}, cs...)
				sw[i], sw[i+1] = sw[i+1], sw[i]
				add("swap.adjacent", sw)
				add("rotate", append(append([][]byte{}, cs[1:]...), cs[0]))
			}
			if len(cs) >= 2 {
				i, j := r.Intn(len(cs)), r.Intn(len(cs))
				if i != j {
					sw := append([][]byte{}, cs...)
					sw[i], sw[j] = sw[j], sw[i]
					add("swap", sw)
				}
			}
			if len(cs) >= 1 {
				i := r.Intn(len(cs))
				rep := append([][]byte{}, cs...)
				ne, _ := encOne(r.plainCav(1))
				rep[i] = ne
				add("replace", rep)
				add("truncate", cs[:r.Intn(len(cs))])
				// one caveat altered in place: a single bit of its encoding (mostly the last field's value)
				alt := append([][]byte{}, cs...)
				ai := r.Intn(len(cs))
				ab := append([]byte{}, cs[ai]...)
				ab[len(ab)-1-r.Intn(min(3, len(ab)-1))] ^= byte(1 << uint(r.Intn(8)))
				alt[ai] = ab
				add("alter", alt)
				dup := append(append([][]byte{}, cs...), cs[r.Intn(len(cs))])
				add("duplicate", dup)
			}
			ne, _ := encOne(r.plainCav(1))
			add("append", append(append([][]byte{}, cs...), ne))
			// splice in caveats of the kinds verification treats specially (binding, third-party, attestation,
			// unknown type, wrapper) at any position, tail kept: none of them may escape the MAC chain
			{
				bnd := macaroon.BindToParentToken(r.Bytes(pick(r, []int{0, 1, 4, 16, 32})))
				uid := auth.FlyioUserID(r.id())
				special := map[string]macaroon.Caveat{
					"bind":   &bnd,
					"3p":     &macaroon.Caveat3P{Location: "https://x.example", VerifierKey: r.Bytes(pick(r, []int{0, 12, 60})), Ticket: r.Bytes(pick(r, []int{0, 8, 40}))},
					"attest": &uid,
					"unreg":  &macaroon.UnregisteredCaveat{Type: macaroon.CaveatType(1 << 33), RawMsgpack: []byte{0xc0}},
					"wrap":   &resset.IfPresent{Ifs: macaroon.NewCaveatSet(r.plainCav(0)), Else: resset.ActionAll},
				}
				for _, name := range []string{"bind", "3p", "attest", "unreg", "wrap"} {
					se, err := encOne(special[name])
					if err != nil {
						continue
					}
					at := r.Intn(len(cs) + 1)
					ins := append(append(append([][]byte{}, cs[:at]...), se), cs[at:]...)
					add("insert."+name, ins)
				}
			}
			for ei, e := range edits {
				for _, t := range tailsFor(e) {
					try(names[ei], assemble(nEnc, loc, e, t))
				}
			}
			// nonce edits (kid, rnd, proof flag, 2<->3 fields) with the held tail and with the honest chain
			nt, _, _ := mpParse(nEnc)
			nonceVariants := map[string][]byte{}
			if nt != nil && nt.Kind == mpArr && len(nt.Kids) >= 2 {
				flip := func(b []byte) []byte {
					c := append([]byte{}, b...)
					if len(c) == 0 {
						return []byte{1}
					}
					c[r.Intn(len(c))] ^= 0x40
					return c
				}
				mk := func(kid, rnd []byte, extra ...*mpNode) []byte {
					kids := []*mpNode{{Kind: mpBin, S: kid}, {Kind: mpBin, S: rnd}}
					return mpEnc(&mpNode{Kind: mpArr, Kids: append(kids, extra...)})
				}
				kid, rnd := nt.Kids[0].S, nt.Kids[1].S
				nonceVariants["kid"] = mk(flip(kid), rnd, nt.Kids[2:]...)
				nonceVariants["rnd"] = mk(kid, flip(rnd), nt.Kids[2:]...)
				nonceVariants["v0"] = mk(kid, rnd)
				nonceVariants["proof"] = mk(kid, rnd, &mpNode{Kind: mpBool, B: true})
				nonceVariants["v1false"] = mk(kid, rnd, &mpNode{Kind: mpBool, B: false})
				// the boundary between key-id and random part moved (the same bytes, cut elsewhere), either part
				// shortened, lengthened or emptied
				if len(rnd) > 0 {
					nonceVariants["shift.kid+1"] = mk(append(append([]byte{}, kid...), rnd[0]), rnd[1:], nt.Kids[2:]...)
					nonceVariants["rnd.short"] = mk(kid, rnd[:len(rnd)-1], nt.Kids[2:]...)
					nonceVariants["rnd.empty"] = mk(kid, []byte{}, nt.Kids[2:]...)
				}
				if len(kid) > 0 {
					nonceVariants["shift.kid-1"] = mk(kid[:len(kid)-1], append([]byte{kid[len(kid)-1]}, rnd...), nt.Kids[2:]...)
					nonceVariants["kid.empty"] = mk([]byte{}, rnd, nt.Kids[2:]...)
					nonceVariants["kid.upper"] = mk(bytes.ToUpper(kid), rnd, nt.Kids[2:]...)
				}
				nonceVariants["rnd.long"] = mk(kid, append(append([]byte{}, rnd...), 0), nt.Kids[2:]...)
				nonceVariants["kid.long"] = mk(append(append([]byte{}, kid...), 0), rnd, nt.Kids[2:]...)
				nonceVariants["swapped"] = mk(rnd, kid, nt.Kids[2:]...)
				// a proof flag that is not a boolean, a fourth field
				nonceVariants["proof.int1"] = mk(kid, rnd, &mpNode{Kind: mpInt, U: 1, I: 1})
				nonceVariants["proof.nil"] = mk(kid, rnd, &mpNode{Kind: mpNil})
				nonceVariants["fields4"] = mk(kid, rnd, &mpNode{Kind: mpBool, B: false}, &mpNode{Kind: mpBool, B: false})
				// the SAME nonce in another spelling (text instead of bytes, wider headers): the token is the minted one
				{
					same := &mpNode{Kind: mpArr, Code: 0xdc, Kids: append([]*mpNode{{Kind: mpStr, S: kid}, {Kind: mpBin, S: rnd, Code: 0xc5}}, nt.Kids[2:]...)}
					nonceVariants["respelled"] = mpEnc(same)
				}
				for name, v := range nonceVariants {
					if bytes.Equal(v, nEnc) {
						delete(nonceVariants, name) // (an upper-cased key-id without letters, ...: not a variant)
					}
				}
			}
			var nvNames []string
			for name := range nonceVariants {
				nvNames = append(nvNames, name)
			}
			sortStrings(nvNames)
			for _, name := range nvNames {
				ne := nonceVariants[name]
				for _, t := range [][]byte{m.Tail, finalizeSig(m.Tail), pick(r, heldTails)} {
					try("nonce."+name, assemble(ne, loc, cs, t))
				}
			}
			// the held token, and the held token with a caveat dropped, in NON-CANONICAL spellings of the same values
			// (wider length headers and integers, text for bytes, the token struct as a map with its fields in another
			// order and an unknown field): the first is the minted token - nothing new -, the second stays a forgery
			for k := 0; k < 3; k++ {
				variants := [][][]byte{cs}
				vnames := []string{"same"}
				if len(cs) > 0 {
					i := r.Intn(len(cs))
					variants = append(variants, append(append([][]byte{}, cs[:i]...), cs[i+1:]...))
					vnames = append(vnames, "drop")
				}
				for vi, e := range variants {
					tree, rest, err := mpParse(assemble(nEnc, loc, e, m.Tail))
					if err != nil || len(rest) != 0 || tree.Kind != mpArr || len(tree.Kids) != 4 {
						continue
					}
					loosenToken(r, tree)
					if k == 2 {
						f := []*mpNode{mpStrNode("Tail"), tree.Kids[3], mpStrNode("Nonce"), tree.Kids[0], mpStrNode("UnsafeCaveats"), tree.Kids[2], mpStrNode("Location"), tree.Kids[1]}
						for i := 3; i > 0; i-- {
							j := r.Intn(i + 1)
							f[2*i], f[2*i+1], f[2*j], f[2*j+1] = f[2*j], f[2*j+1], f[2*i], f[2*i+1]
						}
						if r.Bool() {
							f = append(f, mpStrNode("Junk"), &mpNode{Kind: mpInt, U: 7, I: 7})
						}
						tree = &mpNode{Kind: mpMap, Kids: f}
					}
					try(fmt.Sprintf("respell.%s.map=%v", vnames[vi], k == 2), mpEnc(tree))
				}
			}
			// a map-encoded token that names the Nonce field twice: a three-field nonce claiming "proof", then
			// the real one.  The proof flag of the accepted token must be the minted one (for an old-format
			// token: not a proof), so the finalised tail must not be accepted.
			if nt != nil && nt.Kind == mpArr && len(nt.Kids) >= 2 {
				kid, rnd := nt.Kids[0].S, nt.Kids[1].S
				claim := &mpNode{Kind: mpArr, Kids: []*mpNode{{Kind: mpBin, S: kid}, {Kind: mpBin, S: rnd}, {Kind: mpBool, B: true}}}
				cavsTree, _, _ := mpParse(assemble(nEnc, loc, cs, m.Tail)[1+len(nEnc)+len(mpEnc(mpStrNode(loc))):])
				for _, t := range [][]byte{finalizeSig(m.Tail), m.Tail} {
					for _, order := range [][2]*mpNode{{claim, nt}, {nt, claim}} {
						if cavsTree == nil {
							continue
						}
						tokm := &mpNode{Kind: mpMap, Kids: []*mpNode{mpStrNode("Nonce"), order[0], mpStrNode("Nonce"), order[1],
							mpStrNode("Location"), mpStrNode(loc), mpStrNode("UnsafeCaveats"), cavsTree, mpStrNode("Tail"), {Kind: mpBin, S: t}}}
						cand := mpEnc(tokm)
						o.count("cand.dupnonce")
						obs := emitVerify(o, key, cand, ds, nil)
						if obs == "err:unmodelled" {
							continue
						}
						// accepted with the finalised tail = accepted as a proof although minted as a non-proof
						if strings.HasPrefix(obs, "ok") && bytes.Equal(t, finalizeSig(m.Tail)) {
							o.emit("(const sound)", "forgery:proof-flag-changed-by-duplicate-nonce-field")
						} else {
							o.emit("(const sound)", "sound")
						}
					}
				}
			}
			// location is not authenticated: changing it must not matter (accepted, and still extends h)
			try("location", assemble(nEnc, "https://elsewhere", cs, m.Tail))
			try("location", assemble(nEnc, pick(r, forgeLocs), cs, m.Tail))
			// the held token under keys the issuer does not use: a bit of the key flipped, the empty key, the key
			// doubled, the token's own tail / key-id / nonce as key
			{
				wk := [][]byte{{}, append(append([]byte{}, key...), key...), m.Tail, m.Nonce.KID, nEnc}
				if len(key) > 0 {
					fk := append([]byte{}, key...)
					fk[r.Intn(len(fk))] ^= byte(1 << uint(r.Intn(8)))
					wk = append(wk, fk, key[:len(key)-1], key[1:])
				}
				k2 := pick(r, wk)
				if !hmacKeyEquivalent(k2, key) {
					o.count("cand.wrongkey")
					if obs := emitVerify(o, k2, h.bytes, ds, trusted); obs != "err:unmodelled" {
						if strings.HasPrefix(obs, "ok") {
							o.emit("(const sound)", "forgery:accepted-under-another-key")
						} else {
							o.emit("(const sound)", "sound")
						}
					}
				}
			}
			// byte-level mutations of the held token
			for k := 0; k < 12; k++ {
				c := append([]byte{}, h.bytes...)
				switch r.Intn(5) {
				case 0:
					c[r.Intn(len(c))] ^= byte(1 << uint(r.Intn(8)))
				case 1:
					i := r.Intn(len(c))
					c = append(c[:i], append([]byte{byte(r.U64())}, c[i:]...)...)
				case 2:
					i := r.Intn(len(c))
					c = append(c[:i], c[i+1:]...)
				case 3:
					c = c[:r.Intn(len(c))]
				default:
					other := hs[pick(r, held)].bytes
					i, j := r.Intn(len(c)), r.Intn(len(other))
					c = append(append([]byte{}, c[:i]...), other[j:]...)
				}
				try("bytes", c)
			}
		}
		// nonces of independently minted tokens never coincide
		seen := map[string]bool{}
		dup := false
		for k := 0; k < 50; k++ {
			t, _ := macaroon.New([]byte("kid"), loc, key)
			s := string(t.Nonce.Rnd)
			if seen[s] || len(t.Nonce.Rnd) != 16 {
				dup = true
			}
			seen[s] = true
		}
		if dup {
			o.emit("(const sound)", "nonce-reuse")
		} else {
			o.emit("(const sound)", "sound")
		}
	}
	// issuer keys of every length (the API takes any byte string; HMAC hashes keys longer than its block): a token
	// verifies under the key it was minted with and under no sibling key - one sharing the first 32 bytes and
	// differing later, the 32-byte prefix alone, one differing in its first byte
	for _, L := range []int{1, 2, 16, 31, 32, 33, 54, 63, 64, 65, 100, 128, 129, 200, 1000} {
		K := r.Bytes(L)
		K[L-1] |= 1 // (a key and the same key with zero bytes appended are one HMAC key below the block size)
		mint := func(k []byte) []byte {
			t, err := macaroon.New(r.Bytes(8), "https://api.fly.io/v1", k)
			if err != nil {
				return nil
			}
			t.Add(r.plainCav(1))
			return mustEnc(t)
		}
		tokK := mint(K)
		if tokK == nil {
			continue
		}
		o.count(fmt.Sprintf("keylen.%d", L))
		if obs := emitVerify(o, K, tokK, nil, nil); obs != "err:unmodelled" {
			if strings.HasPrefix(obs, "ok") {
				o.emit("(const sound)", "sound")
			} else {
				o.emit("(const sound)", fmt.Sprintf("own-token-rejected:keylen=%d", L))
			}
		}
		var sibs [][]byte
		tailFlip := append([]byte{}, K...)
		tailFlip[L-1] ^= 0x5a
		headFlip := append([]byte{}, K...)
		headFlip[0] ^= 0x80
		sibs = append(sibs, tailFlip, headFlip)
		if L > 32 {
			sibs = append(sibs, append([]byte{}, K[:32]...))
			mid := append([]byte{}, K...)
			mid[32] ^= 0x01
			sibs = append(sibs, mid)
		}
		for si, S := range sibs {
			tokS := mint(S)
			if tokS == nil {
				continue
			}
			for _, tc := range []struct{ k, t []byte }{{K, tokS}, {S, tokK}} {
				obs := emitVerify(o, tc.k, tc.t, nil, nil)
				if obs == "err:unmodelled" {
					continue
				}
				if strings.HasPrefix(obs, "ok") {
					o.emit("(const sound)", fmt.Sprintf("forgery:accepted-under-a-sibling-key:keylen=%d,sibling=%d", L, si))
				} else {
					o.emit("(const sound)", "sound")
				}
			}
		}
	}
	// the same protection for the DISCHARGES of a token with two third-party caveats: the first caveat's discharge is
	// genuine, the second's has a caveat removed, reordered or altered (nonce and tail kept), or is signed under
	// another key; presented in either order the token is refused - and the genuine pair returns every caveat
	for fam := 0; fam < n; fam++ {
		key, ka, kb := r.Bytes(32), r.Bytes(32), r.Bytes(32)
		root, _ := macaroon.New(r.Bytes(8), "https://api.fly.io/v1", key)
		ita, _ := newTP(ka, "https://auth.example")
		itb, _ := newTP(kb, "https://other.example")
		root.Add(r.plainCav(1))
		root.Add(ita.cav)
		if r.Bool() {
			root.Add(r.plainCav(1))
		}
		root.Add(itb.cav)
		tok := mustEnc(root)
		_, da, _ := macaroon.DischargeTicket(ka, "https://auth.example", ita.tp.ticket)
		da.Add(r.plainCav(1))
		_, db, _ := macaroon.DischargeTicket(kb, "https://other.example", itb.tp.ticket)
		c1, c2 := r.plainCav(1), r.plainCav(1)
		db.Add(c1)
		db.Add(c2)
		daB, dbB := mustEnc(da), mustEnc(db)
		if obs := emitVerify(o, key, tok, [][]byte{daB, dbB}, nil); obs != "err:unmodelled" {
			if strings.HasPrefix(obs, "ok") {
				o.emit("(const sound)", "sound")
			} else {
				o.emit("(const sound)", "genuine-discharge-pair-rejected")
			}
		}
		mut := func(kind string, f func(d *macaroon.Macaroon) bool) {
			d, err := macaroon.Decode(dbB)
			if err != nil || !f(d) {
				return
			}
			cand, err := d.Encode()
			if err != nil || bytes.Equal(cand, dbB) {
				return
			}
			for _, ds := range [][][]byte{{daB, cand}, {cand, daB}} {
				obs := emitVerify(o, key, tok, ds, nil)
				o.count("twoTP.discharge." + kind)
				if obs == "err:unmodelled" {
					continue
				}
				if strings.HasPrefix(obs, "ok") {
					o.emit("(const sound)", "forgery:second-discharge-"+kind)
				} else {
					o.emit("(const sound)", "sound")
				}
			}
		}
		mut("stripped", func(d *macaroon.Macaroon) bool { d.UnsafeCaveats.Caveats = nil; return true })
		mut("lastRemoved", func(d *macaroon.Macaroon) bool {
			cs := d.UnsafeCaveats.Caveats
			if len(cs) == 0 {
				return false
			}
			d.UnsafeCaveats.Caveats = cs[:len(cs)-1]
			return true
		})
		mut("reordered", func(d *macaroon.Macaroon) bool {
			cs := d.UnsafeCaveats.Caveats
			if len(cs) < 2 {
				return false
			}
			cs[0], cs[1] = cs[1], cs[0]
			return true
		})
		mut("altered", func(d *macaroon.Macaroon) bool {
			if len(d.UnsafeCaveats.Caveats) == 0 {
				return false
			}
			d.UnsafeCaveats.Caveats[0] = r.plainCav(1)
			return true
		})
		mut("rekeyed", func(d *macaroon.Macaroon) bool {
			f, err := macaroon.New(itb.tp.ticket, "https://other.example", r.Bytes(32))
			if err != nil {
				return false
			}
			*d = *f
			return true
		})
		// the same second discharge BOUND to the token ([c1, c2, Bind], what a client presents): a binding caveat is a
		// caveat like any other - moved to the front or between the others under the held tail it must be refused
		// (a verifier that chains bindings in a pass of their own accepts every such move)
		if _, bd, err := macaroon.DischargeTicket(kb, "https://other.example", itb.tp.ticket); err == nil && bd.Add(c1) == nil && bd.Add(c2) == nil && bd.Bind(tok) == nil {
			boundB := mustEnc(bd)
			if obs := emitVerify(o, key, tok, [][]byte{daB, boundB}, nil); obs != "err:unmodelled" {
				if strings.HasPrefix(obs, "ok") {
					o.emit("(const sound)", "sound")
				} else {
					o.emit("(const sound)", "genuine-bound-discharge-rejected")
				}
			}
			for _, order := range [][]int{{2, 0, 1}, {0, 2, 1}, {2, 1, 0}, {1, 0, 2}} {
				d, err := macaroon.Decode(boundB)
				if err != nil || len(d.UnsafeCaveats.Caveats) != 3 {
					break
				}
				cs := d.UnsafeCaveats.Caveats
				d.UnsafeCaveats.Caveats = []macaroon.Caveat{cs[order[0]], cs[order[1]], cs[order[2]]}
				cand, err := d.Encode()
				if err != nil || bytes.Equal(cand, boundB) {
					continue
				}
				for _, ds := range [][][]byte{{daB, cand}, {cand, daB}} {
					obs := emitVerify(o, key, tok, ds, nil)
					o.count("twoTP.discharge.bound.moved")
					if obs == "err:unmodelled" {
						continue
					}
					if strings.HasPrefix(obs, "ok") {
						o.emit("(const sound)", fmt.Sprintf("forgery:bound-discharge-caveats-moved-%v", order))
					} else {
						o.emit("(const sound)", "sound")
					}
				}
			}
		}
	}
	// the REFUSAL must not hand the forger what it lacks: whatever 32-byte value (64 hex digits) the error text of a
	// refused forgery contains - for the token, or for a discharge - is tried as the tail; it must stay refused (a
	// "better diagnostics" message that prints the tail the verifier computed is a signing oracle)
	{
		verdict := "sound"
		hexRun := regexp.MustCompile(`[0-9a-fA-F]{64}`)
		for i := 0; i < 12 && verdict == "sound"; i++ {
			key := r.Bytes(32)
			m, _ := macaroon.New(r.Bytes(8), "https://api.fly.io/v1", key)
			m.Add(r.plainCav(1))
			m.Add(r.plainCav(1))
			forged, err := macaroon.Decode(mustEnc(m))
			if err != nil {
				continue
			}
			forged.UnsafeCaveats.Caveats = forged.UnsafeCaveats.Caveats[1:] // the first caveat dropped
			forged.Tail = make([]byte, 32)
			for round := 0; round < 3 && verdict == "sound"; round++ {
				f2, err := macaroon.Decode(mustEnc(forged))
				if err != nil {
					break
				}
				_, verr := f2.Verify(key, nil, nil)
				if verr == nil {
					verdict = "forgery:tail-learnt-from-the-refusal-text-accepted"
					break
				}
				cands := hexRun.FindAllString(verr.Error(), -1)
				if len(cands) == 0 {
					break
				}
				progressed := false
				for _, c := range cands {
					if t, derr := hex.DecodeString(c); derr == nil && !bytes.Equal(t, forged.Tail) {
						forged.Tail = t
						f3, _ := macaroon.Decode(mustEnc(forged))
						if f3 != nil {
							if _, e := f3.Verify(key, nil, nil); e == nil {
								verdict = "forgery:tail-learnt-from-the-refusal-text-accepted"
							}
						}
						progressed = true
					}
				}
				if !progressed {
					break
				}
			}
			o.count("refusal-text-oracle")
		}
		o.emit("(const sound)", verdict)
	}
	// through the bundle layer (bundle.WithKey / WithKeys, the observation point the property names): a token under a
	// key-id the authority holds NO key for, its chain started from the empty key or from 32 zero bytes (HMAC pads
	// both to the same block: what a resolver hands to verification if it looks the key up without checking it is
	// there), alone and next to a genuine token. Nothing of it may be accepted.
	{
		key, kid := r.Bytes(32), []byte("kid-the-authority-knows")
		loc := "https://api.fly.io/v1"
		genuine, _ := macaroon.New(kid, loc, key)
		genuine.Add(r.plainCav(1))
		gs, _ := genuine.String()
		verdict := "sound"
		for _, fk := range [][]byte{nil, {}, make([]byte, 32), make([]byte, 64)} {
			for _, fkid := range [][]byte{[]byte("kid-nobody-knows"), {}, append(append([]byte{}, kid...), 0), kid[:len(kid)-1]} {
				f, err := macaroon.New(fkid, loc, fk)
				if err != nil {
					continue
				}
				f.Add(r.plainCav(1))
				fs, err := f.String()
				if err != nil {
					continue
				}
				for _, hdr := range []string{"FlyV1 " + fs, "FlyV1 " + gs + "," + fs, "FlyV1 " + fs + "," + gs} {
					for vi, v := range []bundle.Verifier{
						bundle.WithKey(kid, key, nil),
						bundle.WithKeys(map[string]macaroon.SigningKey{string(kid): key, "other": r.Bytes(32)}, nil),
						bundle.NewVerificationCache(bundle.WithKey(kid, key, nil), time.Minute, 10),
					} {
						b, err := bundle.ParseBundle(loc, hdr)
						if err != nil {
							continue
						}
						sets, _ := b.Verify(context.Background(), v)
						o.count("unknown-kid-under-the-empty-key")
						want := strings.Count(hdr, gs)
						if len(sets) != want && verdict == "sound" {
							verdict = fmt.Sprintf("forgery:token-under-an-unknown-key-id-accepted-by-the-bundle-verifier:keylen=%d,kidlen=%d,verifier=%d", len(fk), len(fkid), vi)
						}
					}
				}
			}
		}
		o.emit("(const sound)", verdict)
	}
	// "independently minted tokens never share a nonce" whatever the host program does with ITS pseudo-random
	// generator: the same math/rand seed before two mints (a host seeding for reproducible runs) must not make
	// nonces, keys, tickets or sealed verifier keys repeat
	{
		key, ka := r.Bytes(32), r.Bytes(32)
		type draw struct{ rnd, sk, ek, ticket, vk string }
		mint := func() draw {
			mrand.Seed(20260930) //nolint:staticcheck // deliberately the deprecated global seeding
			t, _ := macaroon.New([]byte("kid"), "loc", key)
			sk, ek := macaroon.NewSigningKey(), macaroon.NewEncryptionKey()
			t.Add3P(ka, "https://auth.example")
			c3 := macaroon.GetCaveats[*macaroon.Caveat3P](&t.UnsafeCaveats)[0]
			return draw{string(t.Nonce.Rnd), string(sk), string(ek), string(c3.Ticket), string(c3.VerifierKey)}
		}
		a, b := mint(), mint()
		switch {
		case a.rnd == b.rnd:
			o.emit("(const sound)", "nonce-follows-the-host-prng")
		case a.sk == b.sk || a.ek == b.ek:
			o.emit("(const sound)", "fresh-keys-follow-the-host-prng")
		case a.ticket == b.ticket || a.vk == b.vk:
			o.emit("(const sound)", "seal-follows-the-host-prng")
		default:
			o.emit("(const sound)", "sound")
		}
	}
	// ... and whatever goroutines mint at the same moment: "independently" includes "concurrently". Goroutines
	// released together mint tokens, fresh keys and third-party caveats; no random part, key, ticket or sealed
	// verifier key may come out twice, and no mint may panic (a shared, unlocked buffer in front of the system
	// generator does both)
	{
		rounds, workers, per := 400, 8, 16
		if tier == "thorough" {
			rounds = 4000
		}
		key, ka := r.Bytes(32), r.Bytes(32)
		verdict := "sound"
		seen := map[string]string{}
		for round := 0; round < rounds && verdict == "sound"; round++ {
			start := make(chan struct{})
			outs := make([][]string, workers)
			panicked := make([]bool, workers)
			var wg sync.WaitGroup
			for w := 0; w < workers; w++ {
				wg.Add(1)
				go func(w int) {
					defer wg.Done()
					defer func() {
						if recover() != nil {
							panicked[w] = true
						}
					}()
					<-start
					for i := 0; i < per; i++ {
						t, err := macaroon.New([]byte("kid"), "loc", key)
						if err != nil {
							continue
						}
						outs[w] = append(outs[w], "n"+string(t.Nonce.Rnd))
						if i%4 == 0 {
							outs[w] = append(outs[w], "k"+string(macaroon.NewSigningKey()), "e"+string(macaroon.NewEncryptionKey()))
							if t.Add3P(ka, "https://auth.example") == nil {
								c3 := macaroon.GetCaveats[*macaroon.Caveat3P](&t.UnsafeCaveats)[0]
								outs[w] = append(outs[w], "t"+string(c3.Ticket), "v"+string(c3.VerifierKey))
							}
						}
					}
				}(w)
			}
			close(start)
			wg.Wait()
			for w := 0; w < workers; w++ {
				if panicked[w] {
					verdict = "concurrent-mint-panicked"
				}
				for _, x := range outs[w] {
					if _, dup := seen[x]; dup && verdict == "sound" {
						switch x[0] {
						case 'n':
							verdict = "concurrent-mints-share-a-nonce"
						case 'k', 'e':
							verdict = "concurrent-mints-share-a-fresh-key"
						default:
							verdict = "concurrent-mints-share-a-seal"
						}
					}
					seen[x] = ""
				}
			}
		}
		o.emit("(const sound)", verdict)
	}
}

// ---------------------------------------------------------------- C04 discharge

type dcand struct {
	b       []byte
	genuine bool // minted from the caveat's ticket under its rn (possibly with extra caveats, unbound or correctly bound)
	kind    string
	ticket  []byte // the ticket it is a genuine discharge OF (nil: the ticket of the pool it sits in)
}

// sealTwiceRun: "sealing the same content twice never yields the same bytes", at the API.  One third-party caveat VALUE
// (one discharge secret) added to several copies of one token - decoded twice, cloned - is sealed under the same key (the
// copies' equal tails) with the same plaintext: the sealed verifier keys must differ pairwise, every copy must still
// verify with a genuine discharge, and two tickets made for the same party with the same conditions must differ.
// (round 34: a seal nonce derived from key and plaintext gave byte-identical copies.)
func sealTwiceRun(r *Rng) string {
	for i := 0; i < 6; i++ {
		key, ka := r.Bytes(32), r.Bytes(32)
		tpLoc := pick(r, []string{"https://auth.example", "", "tp3"})
		root, _ := macaroon.New(r.Bytes(8), "https://api.fly.io/v1", key)
		if i%2 == 1 {
			root.Add(r.plainCav(1))
		}
		rootB := mustEnc(root)
		var conds []macaroon.Caveat
		if i%3 == 0 {
			conds = append(conds, r.plainCav(0))
		}
		cav, err := macaroon.NewCaveat3P(ka, tpLoc, conds...)
		if err != nil {
			return "harness-error"
		}
		seenVK := map[string]bool{}
		for j := 0; j < 4; j++ {
			var m *macaroon.Macaroon
			if j == 3 {
				m0, _ := macaroon.Decode(rootB)
				m, err = m0.Clone()
			} else {
				m, err = macaroon.Decode(rootB)
			}
			if err != nil || m.Add(cav) != nil {
				return "harness-error(add)"
			}
			c3s := macaroon.GetCaveats[*macaroon.Caveat3P](&m.UnsafeCaveats)
			if len(c3s) != 1 {
				return "harness-error(3p)"
			}
			vk := string(c3s[0].VerifierKey)
			if seenVK[vk] {
				return "same-secret-sealed-twice-under-one-key-gives-the-same-bytes"
			}
			seenVK[vk] = true
			b := mustEnc(m)
			_, dm, err := macaroon.DischargeTicket(ka, tpLoc, c3s[0].Ticket)
			if err != nil || dm.Bind(b) != nil {
				return "harness-error(discharge)"
			}
			vm, _ := macaroon.Decode(b)
			if _, err := vm.Verify(key, [][]byte{mustEnc(dm)}, nil); err != nil {
				return "copy-with-resealed-key-refused"
			}
		}
		cav2, err := macaroon.NewCaveat3P(ka, tpLoc, conds...)
		if err != nil || string(cav2.Ticket) == string(cav.Ticket) {
			return "two-tickets-with-the-same-content-are-the-same-bytes"
		}
	}
	return "sound"
}

func famDischarge(r *Rng, o *Out, tier string) {
	o.emit("(const sound)", sealTwiceRun(r))
	n := 250
	if tier == "thorough" {
		n = 4000
	}
	// third-party locations: distinct parties, and look-alikes of one of them (Add tells locations apart as exact
	// strings: trailing slash, case, the empty location and a path are other parties)
	parties := []tpParty{{"https://auth.example", nil}, {"https://other.example", nil}, {"tp3", nil},
		{"https://auth.example/", nil}, {"HTTPS://AUTH.EXAMPLE", nil}, {"", nil}, {"https://auth.example/v1?x=1", nil}}
	for fam := 0; fam < n; fam++ {
		key := r.Bytes(pick(r, []int{32, 32, 32, 0, 1, 33, 64}))
		for i := range parties {
			parties[i].ka = r.Bytes(32)
		}
		if r.Chance(1, 4) {
			// two look-alike parties share ONE key (a deployment re-using a key): tickets still tell them apart
			parties[3].ka = parties[0].ka
			o.count("parties.sharedkey")
		}
		loc := pick(r, []string{"https://api.fly.io/v1", "https://api.fly.io/v1", "", "https://auth.example"})
		tok, _ := macaroon.New(r.Bytes(pick(r, []int{8, 8, 0, 1, 40})), loc, key)
		ntp := r.Intn(4)
		if r.Chance(1, 6) {
			ntp = 4 + r.Intn(2)
		}
		type tpu struct {
			p      tpParty
			ticket []byte
			rn     []byte
			snap   []byte // the token right after this caveat was added (an ancestor of the final token)
		}
		var tps []tpu
		perm := []int{0, 1, 2, 3, 4, 5, 6}
		for i := len(perm) - 1; i > 0; i-- {
			j := r.Intn(i + 1)
			perm[i], perm[j] = perm[j], perm[i]
		}
		for i := 0; i < ntp; i++ {
			for k, kk := 0, r.Intn(2); k < kk; k++ {
				tok.Add(r.plainCav(1))
			}
			p := parties[perm[i]]
			// the author's conditions: none, one, several, the same one twice, and kinds that mean something special
			// on a token (a binding, a third-party caveat, an attestation, a wrapper) - in a ticket they are just data
			var conds []macaroon.Caveat
			for k, kk := 0, pick(r, []int{0, 1, 1, 1, 2, 3}); k < kk; k++ {
				conds = append(conds, r.ticketCond(conds))
			}
			o.count(fmt.Sprintf("ticket.conds.%d", len(conds)))
			it, err := newTP(p.ka, p.loc, conds...)
			if err != nil {
				panic(err)
			}
			if tok.Add(it.cav) != nil {
				continue
			}
			o.count("party." + locClass(p.loc))
			tps = append(tps, tpu{p, it.tp.ticket, it.tp.rn, mustEnc(tok)})
		}
		for k, kk := 0, r.Intn(2); k < kk; k++ {
			tok.Add(r.plainCav(1))
		}
		final := mustEnc(tok)
		// another token (for "discharge for another token")
		otherTok, _ := macaroon.New(r.Bytes(8), loc, key)
		oit, _ := newTP(parties[0].ka, parties[0].loc)
		otherTok.Add(oit.cav)
		var pool [][]dcand
		for _, u := range tps {
			var cs []dcand
			mk := func(kind string, genuine bool, f func() *macaroon.Macaroon) {
				d := f()
				if d == nil {
					return
				}
				b, err := d.Encode()
				if err != nil {
					return
				}
				cs = append(cs, dcand{b: b, genuine: genuine, kind: kind})
			}
			proofD := func() *macaroon.Macaroon {
				_, d, err := macaroon.DischargeTicket(u.p.ka, u.p.loc, u.ticket)
				if err != nil {
					panic(err)
				}
				return d
			}
			mk("genuine", true, proofD)
			mk("genuine+caveats", true, func() *macaroon.Macaroon { d := proofD(); d.Add(r.plainCav(1)); return d })
			mk("genuine.bound", true, func() *macaroon.Macaroon { d := proofD(); d.Bind(final); return d })
			mk("genuine.nonproof", true, func() *macaroon.Macaroon { d, _ := macaroon.New(u.ticket, u.p.loc, u.rn); return d })
			mk("rekeyed", false, func() *macaroon.Macaroon { d, _ := macaroon.New(u.ticket, u.p.loc, r.Bytes(32)); return d })
			mk("reticketed", false, func() *macaroon.Macaroon { d, _ := macaroon.New(r.Bytes(len(u.ticket)), u.p.loc, u.rn); return d })
			mk("othertoken", false, func() *macaroon.Macaroon {
				_, d, _ := macaroon.DischargeTicket(parties[0].ka, parties[0].loc, oit.tp.ticket)
				return d
			})
			mk("nested", false, func() *macaroon.Macaroon {
				d, _ := macaroon.New(u.ticket, u.p.loc, u.rn)
				d.Add3P(r.Bytes(32), "https://deeper.example")
				return d
			})
			mk("wrongbound", false, func() *macaroon.Macaroon { d := proofD(); d.Bind(mustEnc(otherTok)); return d })
			mk("tampered", false, func() *macaroon.Macaroon {
				d := proofD()
				b := mustEnc(d)
				b[len(b)-1-r.Intn(20)] ^= 1
				dd, err := macaroon.Decode(b)
				if err != nil {
					return nil
				}
				return dd
			})
			mk("extended-by-hand", false, func() *macaroon.Macaroon {
				// take the published proof and append a caveat, MACing from the published (finalised) tail
				d := proofD()
				b := mustEnc(d)
				dd, _ := macaroon.Decode(b)
				c := r.plainCav(0)
				ce, _ := encOne(c)
				dd.UnsafeCaveats.Caveats = append(dd.UnsafeCaveats.Caveats, c)
				dd.Tail = pick(r, [][]byte{hmacSum(dd.Tail, ce), finalizeSig(hmacSum(dd.Tail, ce))})
				return dd
			})
			// genuine ones the third party is free to mint: under another location string (the location of a discharge
			// is not what ties it to its caveat), in the old two-field nonce format, bound to an ANCESTOR of the token
			mk("genuine.otherloc", true, func() *macaroon.Macaroon {
				_, d, err := macaroon.DischargeTicket(u.p.ka, pick(r, []string{"", u.p.loc + "/", strings.ToUpper(u.p.loc), "https://elsewhere", loc}), u.ticket)
				if err != nil {
					return nil
				}
				return d
			})
			mk("genuine.v0", true, func() *macaroon.Macaroon {
				d, err := macaroon.Decode(oldFormatToken(u.rn, u.ticket, r.Bytes(16), u.p.loc))
				if err != nil {
					return nil
				}
				if r.Bool() {
					d.Add(r.plainCav(1))
				}
				return d
			})
			mk("genuine.boundAncestor", true, func() *macaroon.Macaroon { d := proofD(); d.Bind(u.snap); return d })
			mk("genuine.bound+caveats", true, func() *macaroon.Macaroon {
				d := proofD()
				d.Add(r.plainCav(1))
				d.Bind(final)
				d.Add(r.plainCav(1))
				return d
			})
			// a genuine discharge in a non-canonical spelling of the same values
			if tree, rest, err := mpParse(mustEnc(proofD())); err == nil && len(rest) == 0 && tree.Kind == mpArr && len(tree.Kids) == 4 {
				loosenToken(r, tree)
				cs = append(cs, dcand{b: mpEnc(tree), genuine: true, kind: "genuine.respelled"})
			}
			// key-ids that are NEARLY the ticket (a prefix, an extension, one bit off, the empty one), signed with the
			// right secret: they name another ticket
			mk("ticket.prefix", false, func() *macaroon.Macaroon { d, _ := macaroon.New(u.ticket[:len(u.ticket)-1], u.p.loc, u.rn); return d })
			mk("ticket.extended", false, func() *macaroon.Macaroon {
				d, _ := macaroon.New(append(append([]byte{}, u.ticket...), 0), u.p.loc, u.rn)
				return d
			})
			mk("ticket.bitflip", false, func() *macaroon.Macaroon {
				t := append([]byte{}, u.ticket...)
				t[r.Intn(len(t))] ^= byte(1 << uint(r.Intn(8)))
				d, _ := macaroon.New(t, u.p.loc, u.rn)
				return d
			})
			mk("ticket.empty", false, func() *macaroon.Macaroon { d, _ := macaroon.New([]byte{}, u.p.loc, u.rn); return d })
			// finalisation applied where it does not belong: a non-proof with a finalised tail, a proof finalised twice,
			// a proof whose nonce says "not a proof"
			mk("nonproof.finalized", false, func() *macaroon.Macaroon {
				d, _ := macaroon.New(u.ticket, u.p.loc, u.rn)
				d.Tail = finalizeSig(d.Tail)
				return d
			})
			mk("proof.refinalized", false, func() *macaroon.Macaroon {
				dd, err := macaroon.Decode(mustEnc(proofD()))
				if err != nil {
					return nil
				}
				dd.Tail = finalizeSig(dd.Tail)
				return dd
			})
			mk("proof.flagcleared", false, func() *macaroon.Macaroon {
				dd, err := macaroon.Decode(mustEnc(proofD()))
				if err != nil {
					return nil
				}
				dd.Nonce.Proof = false
				return dd
			})
			// signed under keys related to the secret: the third party's key, the issuer's... (the attacker has neither;
			// a verifier that looked the secret up in the wrong place would accept them)
			mk("signed.with-ka", false, func() *macaroon.Macaroon { d, _ := macaroon.New(u.ticket, u.p.loc, u.p.ka); return d })
			mk("signed.with-ticket", false, func() *macaroon.Macaroon { d, _ := macaroon.New(u.ticket, u.p.loc, u.ticket[:32]); return d })
			mk("signed.with-emptykey", false, func() *macaroon.Macaroon { d, _ := macaroon.New(u.ticket, u.p.loc, []byte{}); return d })
			// the genuine discharge of ANOTHER caveat of this very token
			if len(tps) > 1 {
				v := tps[r.Intn(len(tps))]
				if !bytes.Equal(v.ticket, u.ticket) {
					_, d, _ := macaroon.DischargeTicket(v.p.ka, v.p.loc, v.ticket)
					cs = append(cs, dcand{mustEnc(d), true, "sibling-caveat", v.ticket})
				}
			}
			cs = append(cs, dcand{b: r.Bytes(20), kind: "junk"})
			cs = append(cs, dcand{b: []byte{}, kind: "empty"})
			cs = append(cs, dcand{b: final, kind: "the-token-itself"})
			pool = append(pool, cs)
		}
		// assemblies: per ticket a random multiset of candidates (<= 3 each), all shuffled together
		reps := 12
		for rep := 0; rep < reps; rep++ {
			var ds [][]byte
			var kinds []string
			have := map[string]bool{} // tickets with a genuine discharge among the presented ones
			for pi, cs := range pool {
				for k, kk := 0, r.Intn(4); k < kk; k++ {
					c := pick(r, cs)
					ds = append(ds, c.b)
					kinds = append(kinds, c.kind)
					if c.genuine {
						t := c.ticket
						if t == nil {
							t = tps[pi].ticket
						}
						have[string(t)] = true
					}
				}
			}
			satisfiable := true
			for _, u := range tps {
				satisfiable = satisfiable && have[string(u.ticket)]
			}
			if r.Chance(1, 3) { // a duplicate and a discharge for a ticket the token does not have
				if len(ds) > 0 {
					ds = append(ds, ds[r.Intn(len(ds))])
				}
				_, extra, _ := macaroon.DischargeTicket(parties[0].ka, parties[0].loc, oit.tp.ticket)
				ds = append(ds, mustEnc(extra))
			}
			for i := len(ds) - 1; i > 0; i-- {
				j := r.Intn(i + 1)
				ds[i], ds[j] = ds[j], ds[i]
			}
			// what the verifier was told to trust does not change what is accepted: nothing, every party under its right
			// key, wrong keys (also of unusable sizes) in front of the right one, keys under look-alike locations
			var trusted map[string][]macaroon.EncryptionKey
			switch r.Intn(5) {
			case 0:
				trusted = map[string][]macaroon.EncryptionKey{}
				o.count("trust.empty")
			case 1:
				trusted = map[string][]macaroon.EncryptionKey{}
				for _, u := range tps {
					trusted[u.p.loc] = append(trusted[u.p.loc], u.p.ka)
				}
				o.count("trust.right")
			case 2:
				trusted = map[string][]macaroon.EncryptionKey{}
				for _, u := range tps {
					trusted[u.p.loc] = append(trusted[u.p.loc], r.Bytes(32), r.Bytes(pick(r, []int{0, 7, 33})), u.p.ka)
					trusted[u.p.loc+"/"] = append(trusted[u.p.loc+"/"], u.p.ka)
				}
				o.count("trust.several")
			case 3:
				trusted = map[string][]macaroon.EncryptionKey{}
				for _, u := range tps {
					trusted[u.p.loc] = append(trusted[u.p.loc], r.Bytes(32))
					trusted[""] = append(trusted[""], u.p.ka)
				}
				o.count("trust.wrong")
			default:
				o.count("trust.nil")
			}
			for _, k := range kinds {
				o.count("cand." + k)
			}
			obs := emitVerify(o, key, final, ds, trusted)
			if obs == "err:unmodelled" {
				continue
			}
			accepted := strings.HasPrefix(obs, "ok")
			o.count(fmt.Sprintf("tps.%d", len(tps)))
			// oracle: accepted iff every third-party caveat has a genuine candidate among the presented ones
			switch {
			case accepted && !satisfiable:
				o.emit("(const sound)", "accepted-without-own-discharge:"+strings.Join(kinds, ","))
			case !accepted && satisfiable:
				o.emit("(const sound)", "rejected-despite-genuine-discharge:"+strings.Join(kinds, ",")+":"+strings.ReplaceAll(obs, " ", "_"))
			default:
				o.emit("(const sound)", "sound")
			}
		}
		// TWINS: copies of one genuine discharge that share its nonce (key-id AND random part) but do not verify - a stale
		// or corrupted copy a client still holds: tail bit flipped, a caveat appended or removed under the old tail - in
		// front of, behind and around the genuine one. "Extra, malformed or duplicate discharges do not change the
		// outcome": the genuine one is found wherever it stands (a verifier that de-duplicates candidates by nonce keeps
		// whichever twin came first)
		if len(tps) > 0 {
			u := tps[r.Intn(len(tps))]
			var others [][]byte // genuine discharges for the other tickets
			for _, v := range tps {
				if string(v.ticket) != string(u.ticket) {
					_, d, _ := macaroon.DischargeTicket(v.p.ka, v.p.loc, v.ticket)
					others = append(others, mustEnc(d))
				}
			}
			_, g, err := macaroon.DischargeTicket(u.p.ka, u.p.loc, u.ticket)
			if err == nil {
				g.Add(r.plainCav(1))
				gb := mustEnc(g)
				twin := func(f func(d *macaroon.Macaroon)) []byte {
					d, err := macaroon.Decode(gb)
					if err != nil {
						return nil
					}
					f(d)
					b, err := d.Encode()
					if err != nil || bytes.Equal(b, gb) {
						return nil
					}
					return b
				}
				bads := [][]byte{
					twin(func(d *macaroon.Macaroon) { d.Tail[r.Intn(len(d.Tail))] ^= 1 }),
					twin(func(d *macaroon.Macaroon) { d.UnsafeCaveats.Caveats = append(d.UnsafeCaveats.Caveats, r.plainCav(0)) }),
					twin(func(d *macaroon.Macaroon) { d.UnsafeCaveats.Caveats = nil }),
					// tails that are no HMAC-SHA256 output at all: truncated, lengthened, empty (a verifier that skips such
					// candidates "cheaply" and silently ends up with no error to report)
					twin(func(d *macaroon.Macaroon) { d.Tail = d.Tail[:16] }),
					twin(func(d *macaroon.Macaroon) { d.Tail = d.Tail[:31] }),
					twin(func(d *macaroon.Macaroon) { d.Tail = append(append([]byte{}, d.Tail...), 0) }),
					twin(func(d *macaroon.Macaroon) { d.Tail = []byte{} }),
				}
				// ... and the same for a candidate under the attacker's own key
				if jd, err := macaroon.New(u.ticket, u.p.loc, r.Bytes(32)); err == nil {
					for _, n := range []int{0, 16, 33} {
						jd.Tail = append([]byte{}, r.Bytes(64)[:n]...)
						if jb, err := jd.Encode(); err == nil {
							bads = append(bads, jb)
						}
					}
				}
				for bi, bad := range bads {
					if bad == nil {
						continue
					}
					for pi, pres := range [][][]byte{{bad, gb}, {gb, bad}, {bad, bad, gb}, {bad, gb, gb}, {bad}} {
						ds := append(append([][]byte{}, pres...), others...)
						if pi%2 == 1 {
							ds = append(append([][]byte{}, others...), pres...)
						}
						obs := emitVerify(o, key, final, ds, nil)
						o.count("twins")
						if obs == "err:unmodelled" {
							continue
						}
						accepted := strings.HasPrefix(obs, "ok")
						switch want := pi != 4; {
						case accepted && !want:
							o.emit("(const sound)", fmt.Sprintf("accepted-with-only-a-broken-twin:%d", bi))
						case !accepted && want:
							o.emit("(const sound)", fmt.Sprintf("rejected-despite-genuine-discharge:twin%d.presentation%d:%s", bi, pi, strings.ReplaceAll(obs, " ", "_")))
						default:
							o.emit("(const sound)", "sound")
						}
					}
				}
			}
		}
		// a discharge that itself demands a further discharge never satisfies its caveat - also when that further
		// discharge is presented alongside (genuine, any order, duplicates)
		for ui, u := range tps {
			kc := r.Bytes(32)
			mkOuter := []func() *macaroon.Macaroon{
				func() *macaroon.Macaroon { _, d, _ := macaroon.DischargeTicket(u.p.ka, u.p.loc, u.ticket); return d },
				func() *macaroon.Macaroon { d, _ := macaroon.New(u.ticket, u.p.loc, u.rn); return d },
			}[r.Intn(2)]
			outer := mkOuter()
			if outer == nil || outer.Add3P(kc, "https://deeper.example") != nil {
				continue
			}
			innerTickets, err := outer.ThirdPartyTickets()
			if err != nil || len(innerTickets["https://deeper.example"]) == 0 {
				continue
			}
			_, inner, err := macaroon.DischargeTicket(kc, "https://deeper.example", innerTickets["https://deeper.example"])
			if err != nil {
				continue
			}
			if r.Bool() {
				inner.Bind(mustEnc(outer))
			}
			ds := [][]byte{mustEnc(outer), mustEnc(inner)}
			if r.Chance(1, 3) {
				ds = append(ds, ds[1])
			}
			for vi, v := range tps {
				if vi != ui {
					_, d, _ := macaroon.DischargeTicket(v.p.ka, v.p.loc, v.ticket)
					ds = append(ds, mustEnc(d))
				}
			}
			for i := len(ds) - 1; i > 0; i-- {
				j := r.Intn(i + 1)
				ds[i], ds[j] = ds[j], ds[i]
			}
			obs := emitVerify(o, key, final, ds, nil)
			o.count("nested.withinner")
			if obs != "err:unmodelled" {
				if strings.HasPrefix(obs, "ok") {
					o.emit("(const sound)", "accepted-with-discharge-that-demands-a-further-discharge")
				} else {
					o.emit("(const sound)", "sound")
				}
			}
		}
		// discharges handed over as live objects (VerifyParsed): a proof that was never encoded is not final and
		// satisfies nothing; once encoded, the same object does
		if len(tps) > 0 {
			var dms []*macaroon.Macaroon
			for _, v := range tps[1:] {
				_, d, _ := macaroon.DischargeTicket(v.p.ka, v.p.loc, v.ticket)
				if dd, err := macaroon.Decode(mustEnc(d)); err == nil {
					dms = append(dms, dd)
				}
			}
			_, live, _ := macaroon.DischargeTicket(tps[0].p.ka, tps[0].p.loc, tps[0].ticket)
			if r.Bool() {
				live.Add(r.plainCav(1))
			}
			dms = append(dms, live)
			res := guard(func() string {
				m, err := macaroon.Decode(final)
				if err != nil {
					return "decode"
				}
				if _, err := m.VerifyParsed(key, dms, nil); err == nil {
					return "accepted-with-a-proof-that-was-never-finalised"
				}
				if _, err := live.Encode(); err != nil {
					return "encode"
				}
				if _, err := m.VerifyParsed(key, dms, nil); err != nil {
					return "rejected-with-genuine-live-discharges:" + verifyClass(err)
				}
				return "sound"
			})
			o.count("liveobjects")
			o.emit("(const sound)", res)
		}
		// a holder appends an own third-party caveat that re-uses the ISSUER's ticket (own secret, own location)
		// and presents only a discharge signed under the own secret: the issuer's caveat is still undischarged
		if len(tps) > 0 {
			u := tps[0]
			own := r.Bytes(32)
			c3, err := macaroon.NewCaveat3P(own, "https://attacker-loc.example")
			if err == nil {
				rnOwn, _ := ticketKey(own, c3.Ticket)
				c3.Ticket = u.ticket
				t2, _ := macaroon.Decode(final)
				if t2.Add(c3) == nil {
					forged, _ := macaroon.New(u.ticket, u.p.loc, rnOwn)
					cand := mustEnc(t2)
					// every other third-party caveat gets its genuine discharge
					ds := [][]byte{mustEnc(forged)}
					for _, v := range tps[1:] {
						_, d, _ := macaroon.DischargeTicket(v.p.ka, v.p.loc, v.ticket)
						ds = append(ds, mustEnc(d))
					}
					obs := emitVerify(o, key, cand, ds, nil)
					o.count("dupticket")
					if obs != "err:unmodelled" {
						if strings.HasPrefix(obs, "ok") {
							o.emit("(const sound)", "accepted-with-rekeyed-discharge-via-duplicate-ticket")
						} else {
							o.emit("(const sound)", "sound")
						}
					}
				}
			}
		}
		// a third-party caveat WRAPPED in another caveat is not handled by verification (no discharge is looked up for
		// it); it reaches clearing, where it refuses every request. So a token that carries one - or whose discharge
		// carries one - authorises nothing: with no discharge, a forged one or a genuine one for the wrapped ticket
		{
			kw := r.Bytes(32)
			wit, err := newTP(kw, "https://wrapped.example")
			if err == nil {
				// (Add seals a verifier key into top-level third-party caveats only: a wrapped one keeps a nil key, which
				// the wire form writes as nil. The model's byte fields do not tell nil from empty, so that variant is
				// judged by the oracle line alone; the variant with a key goes to the model too.)
				nilKey := r.Bool()
				if !nilKey {
					wit.cav.(*macaroon.Caveat3P).VerifierKey = r.Bytes(pick(r, []int{0, 1, 72}))
				}
				wrapped := &resset.IfPresent{Ifs: macaroon.NewCaveatSet(wit.cav), Else: resset.ActionAll}
				dq := r.Dyn()
				dq.WF = ""
				acc, sx := dq.As("full"), dq.Sx("full")
				_, wd, _ := macaroon.DischargeTicket(kw, "https://wrapped.example", wit.tp.ticket)
				forged, _ := macaroon.New(wit.tp.ticket, "https://wrapped.example", r.Bytes(32))
				cands := [][][]byte{nil, {mustEnc(wd)}, {mustEnc(forged)}}
				var tokB []byte
				var base [][]byte
				kind := "permission"
				if r.Bool() || len(tps) == 0 {
					t2, _ := macaroon.New(r.Bytes(8), loc, key)
					if t2.Add(wrapped) == nil {
						tokB = mustEnc(t2)
					}
				} else {
					// the genuine discharge of a top-level caveat carries the wrapped one
					kind = "discharge"
					t2, _ := macaroon.New(r.Bytes(8), loc, key)
					it, _ := newTP(tps[0].p.ka, tps[0].p.loc)
					t2.Add(it.cav)
					_, d, _ := macaroon.DischargeTicket(tps[0].p.ka, tps[0].p.loc, it.tp.ticket)
					if d.Add(wrapped) == nil {
						tokB, base = mustEnc(t2), [][]byte{mustEnc(d)}
					}
				}
				if tokB != nil {
					for ci, c := range cands {
						ds := append(append([][]byte{}, base...), c...)
						co := clearObs(key, tokB, ds, []macaroon.Access{acc})
						o.count(fmt.Sprintf("wrapped3p.%s.nilkey=%v.cand%d.%s", kind, nilKey, ci, co))
						if !nilKey {
							o.emit(fmt.Sprintf("(clear %s %s %s (trust) (%s))", hx(key), hx(tokB), sxHexList(ds), sx), co)
						}
						if co == "permit" {
							o.emit("(const sound)", "wrapped-third-party-caveat-ignored:"+kind)
						} else {
							o.emit("(const sound)", "sound")
						}
					}
				}
			}
		}
		// tickets: wrong key, flipped bytes, truncation
		for ui, u := range tps {
			run := func(kind string, ka, ticket []byte) {
				res := guard(func() string {
					cs, dm, err := macaroon.DischargeTicket(ka, u.p.loc, ticket)
					if err != nil {
						if strings.Contains(err.Error(), "ticket decrypt") {
							return "err:cannotOpen"
						}
						return "err:badPlaintext"
					}
					rnd := dm.Nonce.Rnd
					_ = rnd
					return "ok " + sxCavs(cs) + " " + hx(mustEnc(dm)) + " " + hx(dm.Nonce.Rnd)
				})
				o.count("ticket." + kind)
				o.count("ticket.result." + strings.SplitN(res, " ", 2)[0])
				if strings.HasPrefix(res, "ok ") {
					parts := strings.Split(res, " ")
					rnd := parts[len(parts)-1]
					o.emit(fmt.Sprintf("(tok.discharge %s %s %s %s 1)", hx(ka), hs(u.p.loc), hx(ticket), rnd), strings.Join(parts[:len(parts)-1], " "))
				} else {
					o.emit(fmt.Sprintf("(tok.discharge %s %s %s %s 1)", hx(ka), hs(u.p.loc), hx(ticket), hx(make([]byte, 16))), res)
				}
			}
			run("right", u.p.ka, u.ticket)
			run("wrongkey", r.Bytes(32), u.ticket)
			run("shortkey", r.Bytes(16), u.ticket)
			run("truncated", u.p.ka, u.ticket[:r.Intn(len(u.ticket))])
			// keys of the sizes next to the right one (the right key cut / extended), the empty key; the empty ticket,
			// one just too short to hold a nonce, the ticket with a byte appended / without its last byte
			run("key.31", u.p.ka[:31], u.ticket)
			run("key.33", append(append([]byte{}, u.p.ka...), 0), u.ticket)
			run("key.empty", []byte{}, u.ticket)
			run("key.otherparty", parties[(perm[0]+1)%len(parties)].ka, u.ticket)
			run("ticket.empty", u.p.ka, []byte{})
			run("ticket.len12", u.p.ka, u.ticket[:12])
			run("ticket.len13", u.p.ka, u.ticket[:13])
			run("ticket.extended", u.p.ka, append(append([]byte{}, u.ticket...), 0))
			run("ticket.lastcut", u.p.ka, u.ticket[:len(u.ticket)-1])
			// content sealed under the RIGHT key that is not what the author wrote: the plaintext with bytes after it,
			// as a map, with a secret of another size, and things that are no ticket at all
			if pt, ok := aeadOpen(u.p.ka, u.ticket); ok && (ui < 2 || tier == "thorough") {
				reseal := func(kind string, plain []byte) { run(kind, u.p.ka, aeadSeal(u.p.ka, r.Bytes(12), plain)) }
				reseal("resealed.same", pt)
				reseal("resealed.trailing", append(append([]byte{}, pt...), r.Bytes(1+r.Intn(4))...))
				if tree, rest, err := mpParse(pt); err == nil && len(rest) == 0 && tree.Kind == mpArr && len(tree.Kids) == 2 {
					reseal("resealed.map", mpEnc(&mpNode{Kind: mpMap, Kids: []*mpNode{mpStrNode("Caveats"), tree.Kids[1], mpStrNode("DischargeKey"), tree.Kids[0]}}))
					for _, L := range []int{0, 16, 33} {
						reseal(fmt.Sprintf("resealed.secretlen%d", L), mpEnc(&mpNode{Kind: mpArr, Kids: []*mpNode{{Kind: mpBin, S: r.Bytes(L)}, tree.Kids[1]}}))
					}
					reseal("resealed.3fields", mpEnc(&mpNode{Kind: mpArr, Kids: []*mpNode{tree.Kids[0], tree.Kids[1], {Kind: mpBool, B: true}}}))
					reseal("resealed.1field", mpEnc(&mpNode{Kind: mpArr, Kids: []*mpNode{tree.Kids[0]}}))
					reseal("resealed.swapped", mpEnc(&mpNode{Kind: mpArr, Kids: []*mpNode{tree.Kids[1], tree.Kids[0]}}))
				}
				reseal("resealed.junk", r.Bytes(1+r.Intn(40)))
				reseal("resealed.emptyplain", []byte{})
				reseal("resealed.truncatedplain", pt[:r.Intn(len(pt))])
			}
			flips := 6
			if tier == "thorough" {
				flips = len(u.ticket)
			}
			if flips > 128 {
				flips = 128 // (tickets with several conditions are long: evenly spaced positions)
			}
			for k := 0; k < flips; k++ {
				t := append([]byte{}, u.ticket...)
				i := k * len(t) / flips
				if tier != "thorough" {
					i = r.Intn(len(t))
				}
				t[i] ^= byte(1 << uint(r.Intn(8)))
				run("flipped", u.p.ka, t)
			}
		}
	}
	// long condition lists: the third party recovers EVERY condition the author attached, also beyond any
	// internal pre-allocation bound of the decoder (1024), with the decisive condition last
	for _, nc := range []int{1023, 1024, 1025, 1500} {
		kb := r.Bytes(32)
		cs := make([]macaroon.Caveat, nc)
		for i := range cs {
			cs[i] = &macaroon.ValidityWindow{NotBefore: int64(i), NotAfter: int64(1) << 40}
		}
		cs[nc-1] = &macaroon.ValidityWindow{NotBefore: 0, NotAfter: 1}
		c3, err := macaroon.NewCaveat3P(kb, "https://long.example", cs...)
		if err != nil {
			continue
		}
		res := guard(func() string {
			got, dm, err := macaroon.DischargeTicket(kb, "https://long.example", c3.Ticket)
			if err != nil {
				return "err:" + err.Error()
			}
			return "ok " + sxCavs(got) + " " + hx(mustEnc(dm)) + " " + hx(dm.Nonce.Rnd)
		})
		o.count(fmt.Sprintf("ticket.long.%d", nc))
		if strings.HasPrefix(res, "ok ") {
			parts := strings.Split(res, " ")
			o.emit(fmt.Sprintf("(tok.discharge %s %s %s %s 1)", hx(kb), hs("https://long.example"), hx(c3.Ticket), parts[len(parts)-1]), strings.Join(parts[:len(parts)-1], " "))
		} else {
			o.emit(fmt.Sprintf("(tok.discharge %s %s %s %s 1)", hx(kb), hs("https://long.example"), hx(c3.Ticket), hx(make([]byte, 16))), res)
		}
	}
	// conditions attached through Add3P (the convenience entry point) reach the third party exactly as attached -
	// also when one of them equals a caveat the token already carries, or is attached twice
	for i := 0; i < n/5; i++ {
		key, kb := r.Bytes(32), r.Bytes(32)
		tok, _ := macaroon.New(r.Bytes(8), "https://api.fly.io/v1", key)
		own := []macaroon.Caveat{r.plainCav(1), r.plainCav(1)}
		tok.Add(own...)
		var conds []macaroon.Caveat
		for k, kk := 0, 1+r.Intn(3); k < kk; k++ {
			switch r.Intn(3) {
			case 0:
				conds = append(conds, own[r.Intn(len(own))]) // equal to a caveat of the token
			case 1:
				if len(conds) > 0 {
					conds = append(conds, conds[r.Intn(len(conds))]) // attached twice
				} else {
					conds = append(conds, r.plainCav(1))
				}
			default:
				conds = append(conds, r.plainCav(1))
			}
		}
		if tok.Add3P(kb, "https://conds.example", conds...) != nil {
			continue
		}
		tickets, err := tok.ThirdPartyTickets()
		ticket := tickets["https://conds.example"]
		if err != nil || len(ticket) == 0 {
			o.emit("(const sound)", "add3p:no-ticket")
			continue
		}
		res := guard(func() string {
			got, dm, err := macaroon.DischargeTicket(kb, "https://conds.example", ticket)
			if err != nil {
				return "err:" + err.Error()
			}
			return "ok " + sxCavs(got) + " " + hx(mustEnc(dm)) + " " + hx(dm.Nonce.Rnd)
		})
		o.count(fmt.Sprintf("add3p.conds.%d", len(conds)))
		if strings.HasPrefix(res, "ok ") {
			parts := strings.Split(res, " ")
			o.emit(fmt.Sprintf("(tok.discharge %s %s %s %s 1)", hx(kb), hs("https://conds.example"), hx(ticket), parts[len(parts)-1]), strings.Join(parts[:len(parts)-1], " "))
			if strings.HasPrefix(res, "ok "+sxCavs(conds)+" ") {
				o.emit("(const sound)", "sound")
			} else {
				o.emit("(const sound)", "add3p:third-party-recovers-other-conditions-than-attached")
			}
		} else {
			o.emit("(const sound)", "add3p:ticket-does-not-open")
		}
	}
	// sealing the same content twice never yields the same bytes
	ka := r.Bytes(32)
	seen := map[string]bool{}
	dup := false
	for i := 0; i < 2000; i++ {
		c, _ := macaroon.NewCaveat3P(ka, "loc")
		if seen[string(c.Ticket)] {
			dup = true
		}
		seen[string(c.Ticket)] = true
	}
	if dup {
		o.emit("(const sound)", "seal-repeats")
	} else {
		o.emit("(const sound)", "sound")
	}
}

// ticketCond: a condition an author may attach to a ticket - any caveat at all
func (r *Rng) ticketCond(earlier []macaroon.Caveat) macaroon.Caveat {
	switch r.Intn(8) {
	case 0:
		if len(earlier) > 0 {
			return earlier[r.Intn(len(earlier))] // the same condition twice
		}
	case 1:
		b := macaroon.BindToParentToken(r.Bytes(pick(r, []int{0, 1, 16, 32})))
		return &b
	case 2:
		return &macaroon.Caveat3P{Location: pick(r, []string{"", "https://deeper.example"}), VerifierKey: r.Bytes(pick(r, []int{0, 60})), Ticket: r.Bytes(pick(r, []int{0, 8, 70}))}
	case 3:
		u := auth.FlyioUserID(r.id())
		if r.Bool() {
			return &resset.IfPresent{Ifs: macaroon.NewCaveatSet(&u, r.plainCav(0)), Else: r.mask()}
		}
		return &u
	case 4:
		return r.plainCav(2)
	}
	return r.plainCav(0)
}

// clearObs: verify, then clear the requests against the returned caveats
func clearObs(key, tok []byte, ds [][]byte, accs []macaroon.Access) string {
	return guard(func() string {
		m, err := macaroon.Decode(tok)
		if err != nil {
			return "err:decode"
		}
		cs, err := m.Verify(key, ds, nil)
		if err != nil {
			return "reject"
		}
		if cs.Validate(accs...) == nil {
			return "permit"
		}
		return "deny"
	})
}

// ---------------------------------------------------------------- C06 bind

func famBind(r *Rng, o *Out, tier string) {
	n := 70
	if tier == "thorough" {
		n = 1200
	}
	for fam := 0; fam < n; fam++ {
		key := r.Bytes(pick(r, []int{32, 32, 32, 0, 1, 33, 64}))
		ka := r.Bytes(32)
		loc := pick(r, []string{"https://api.fly.io/v1", "https://api.fly.io/v1", "", "HTTPS://API.FLY.IO/v1/"})
		tpLoc := pick(r, []string{"https://auth.example", "https://auth.example", "", "https://auth.example/login?next=%2F", "HTTPS://AUTH.EXAMPLE"})
		o.count("tploc." + locClass(tpLoc))
		root, _ := macaroon.New(r.Bytes(pick(r, []int{8, 8, 0, 1, 40})), loc, key)
		bare := mustEnc(root) // the token before any caveat: its tail is the first binding id of every token of the tree
		for k, kk := 0, r.Intn(3); k < kk; k++ {
			root.Add(r.plainCav(1))
		}
		it, _ := newTP(ka, tpLoc)
		// what the verifier was told to trust plays no part in binding
		var trusted map[string][]macaroon.EncryptionKey
		switch r.Intn(3) {
		case 0:
			trusted = map[string][]macaroon.EncryptionKey{tpLoc: {ka}}
			o.count("trust.right")
		case 1:
			trusted = map[string][]macaroon.EncryptionKey{tpLoc: {r.Bytes(32), ka}, tpLoc + "/": {r.Bytes(32)}}
			o.count("trust.several")
		}
		// half of the families: a second third party on the same token, before or after the one whose discharge
		// gets bound; its own (unbound, genuine) discharge accompanies every presentation
		var otherDis []byte
		var otherKB, otherTicket []byte
		twoTP := fam%2 == 1
		otherFirst := r.Bool()
		addOther := func() {
			kb := r.Bytes(32)
			ot, _ := newTP(kb, "https://other.example")
			root.Add(ot.cav)
			_, od, err := macaroon.DischargeTicket(kb, "https://other.example", ot.tp.ticket)
			if err != nil {
				panic(err)
			}
			otherDis = mustEnc(od)
			otherKB, otherTicket = kb, ot.tp.ticket
		}
		if twoTP && otherFirst {
			addOther()
		}
		root.Add(it.cav)
		if twoTP && !otherFirst {
			addOther()
		}
		if twoTP {
			o.count(fmt.Sprintf("twoTP.otherFirst=%v", otherFirst))
		}
		with := func(d []byte) [][]byte {
			if otherDis == nil {
				return [][]byte{d}
			}
			if r.Bool() {
				return [][]byte{otherDis, d}
			}
			return [][]byte{d, otherDis}
		}
		hs := growTree(r, root, 3, 2)
		// an unrelated tree with its own third-party caveat for the same third party
		root2, _ := macaroon.New(r.Bytes(8), loc, key)
		it2, _ := newTP(ka, tpLoc)
		root2.Add(it2.cav)
		hs2 := growTree(r, root2, 1, 2)
		// the discharge that gets bound: a proof, a proof minted under another location string, an old-style non-proof
		// discharge, one in the two-field nonce format; with the third party's (or the holder's) own caveats before,
		// between and after the bindings
		newDis := func() *macaroon.Macaroon {
			switch r.Intn(6) {
			case 0:
				d, _ := macaroon.New(it.tp.ticket, tpLoc, it.tp.rn)
				o.count("discharge.nonproof")
				return d
			case 1:
				d, err := macaroon.Decode(oldFormatToken(it.tp.rn, it.tp.ticket, r.Bytes(16), tpLoc))
				if err == nil {
					o.count("discharge.v0")
					return d
				}
			case 2:
				_, d, err := macaroon.DischargeTicket(ka, pick(r, []string{"", tpLoc + "/", "https://elsewhere"}), it.tp.ticket)
				if err == nil {
					o.count("discharge.otherloc")
					return d
				}
			}
			_, d, err := macaroon.DischargeTicket(ka, tpLoc, it.tp.ticket)
			if err != nil {
				panic(err)
			}
			o.count("discharge.proof")
			return d
		}
		mkDis := func(bindTo [][]byte, bogus bool) []byte {
			d := newDis()
			plain := func() {
				if r.Chance(1, 3) {
					d.Add(r.plainCav(1))
					o.count("discharge.plainCaveatAroundBinding")
				}
			}
			plain()
			for _, p := range bindTo {
				if d.Bind(p) != nil {
					return nil
				}
				plain()
			}
			if bogus {
				b := macaroon.BindToParentToken(r.Bytes(16))
				d.Add(&b)
			}
			return mustEnc(d)
		}
		// single binding: every (bound-to, presented-with) pair of the tree
		for bi := range hs {
			d := mkDis([][]byte{hs[bi].bytes}, false)
			for pi := range hs {
				obs := emitVerify(o, key, hs[pi].bytes, with(d), trusted)
				if obs == "err:unmodelled" {
					continue
				}
				want := isDescendant(hs, pi, bi)
				o.count(fmt.Sprintf("pair.want%v", want))
				if strings.HasPrefix(obs, "ok") != want {
					o.emit("(const sound)", fmt.Sprintf("binding-wrong:bound=%d,presented=%d,accepted=%v", bi, pi, !want))
				} else {
					o.emit("(const sound)", "sound")
				}
			}
			// presented with an unrelated token (its own caveat has another ticket: no discharge at all) - rejected
			for pi := range hs2 {
				obs := emitVerify(o, key, hs2[pi].bytes, [][]byte{d}, trusted)
				if obs == "err:unmodelled" {
					continue
				}
				if strings.HasPrefix(obs, "ok") {
					o.emit("(const sound)", "accepted-with-unrelated-token")
				} else {
					o.emit("(const sound)", "sound")
				}
			}
		}
		// bound to the token as it was BEFORE any caveat (the tail over the nonce alone is the first binding id of every
		// token of the tree): works with every node, and with no token of another tree
		{
			d := mkDis([][]byte{bare}, false)
			for pi := range hs {
				obs := emitVerify(o, key, hs[pi].bytes, with(d), trusted)
				if obs == "err:unmodelled" {
					continue
				}
				o.count("boundToBare")
				if !strings.HasPrefix(obs, "ok") {
					o.emit("(const sound)", fmt.Sprintf("bound-to-the-bare-token-rejected:presented=%d:%s", pi, obs))
				} else {
					o.emit("(const sound)", "sound")
				}
			}
		}
		// ANOTHER token of the same issuer that carries the very same third-party caveat (one caveat value added to two
		// tokens: same ticket, same secret): the unbound discharge works with both - that is what binding is for -, a
		// discharge bound to a node of the first tree works with no node of the second
		{
			root3, _ := macaroon.New(r.Bytes(8), loc, key)
			if r.Bool() {
				root3.Add(r.plainCav(1))
			}
			if root3.Add(it.cav) == nil {
				hs3 := growTree(r, root3, 1, 2)
				unbound := mkDis(nil, false)
				toBare := mkDis([][]byte{bare}, false)
				for pi := range hs3 {
					obs := emitVerify(o, key, hs3[pi].bytes, [][]byte{unbound}, trusted)
					if obs != "err:unmodelled" {
						if strings.HasPrefix(obs, "ok") {
							o.emit("(const sound)", "sound")
						} else {
							o.emit("(const sound)", "unbound-discharge-rejected-with-a-second-token-carrying-the-caveat:"+obs)
						}
					}
					for _, d := range [][]byte{toBare, mkDis([][]byte{hs[r.Intn(len(hs))].bytes}, false)} {
						obs := emitVerify(o, key, hs3[pi].bytes, [][]byte{d}, trusted)
						o.count("sameTicketOtherToken")
						if obs == "err:unmodelled" {
							continue
						}
						if strings.HasPrefix(obs, "ok") {
							o.emit("(const sound)", "bound-discharge-accepted-with-another-token-carrying-the-same-ticket")
						} else {
							o.emit("(const sound)", "sound")
						}
					}
				}
			}
		}
		// two candidates for the one caveat, bound to different nodes (or one of them unbound / junk), in either order:
		// accepted exactly when one of them works with the presented token
		for k := 0; k < 6; k++ {
			b1, b2, pi := r.Intn(len(hs)), r.Intn(len(hs)), r.Intn(len(hs))
			d1 := mkDis([][]byte{hs[b1].bytes}, false)
			d2 := mkDis([][]byte{hs[b2].bytes}, false)
			want := isDescendant(hs, pi, b1) || isDescendant(hs, pi, b2)
			switch r.Intn(4) {
			case 0:
				d2 = r.Bytes(30)
				want = isDescendant(hs, pi, b1)
			case 1:
				d2 = mkDis([][]byte{hs[b2].bytes}, true)
				want = isDescendant(hs, pi, b1)
			}
			ds := [][]byte{d1, d2}
			if r.Bool() {
				ds[0], ds[1] = ds[1], ds[0]
			}
			if otherDis != nil {
				ds = append(ds, otherDis)
			}
			obs := emitVerify(o, key, hs[pi].bytes, ds, trusted)
			if obs == "err:unmodelled" {
				continue
			}
			o.count(fmt.Sprintf("twoCandidates.want%v", want))
			if strings.HasPrefix(obs, "ok") != want {
				o.emit("(const sound)", fmt.Sprintf("two-candidates-wrong:%d,%d,presented=%d,accepted=%v", b1, b2, pi, !want))
			} else {
				o.emit("(const sound)", "sound")
			}
		}
		// a discharge that already carries a SHORTER binding caveat (a prefix binding: the empty one matches every
		// token, one byte of the root's id matches the whole tree) and is then bound to a node with Bind: the full
		// binding must still be added and must still hold
		for k := 0; k < 6; k++ {
			bi, pi := r.Intn(len(hs)), r.Intn(len(hs))
			_, d, err := macaroon.DischargeTicket(ka, tpLoc, it.tp.ticket)
			if err != nil {
				panic(err)
			}
			rootM, _ := macaroon.Decode(hs[0].bytes)
			rootID := sha256.Sum256(rootM.Tail)
			pre := macaroon.BindToParentToken(rootID[:r.Intn(3)])
			if r.Chance(1, 2) {
				nodeM, _ := macaroon.Decode(hs[bi].bytes)
				nodeID := sha256.Sum256(nodeM.Tail)
				pre = macaroon.BindToParentToken(nodeID[:1+r.Intn(32)]) // a prefix of the node's digest: shorter or LONGER than the 16 bytes Bind will add
			}
			if d.Add(&pre) != nil || d.Bind(hs[bi].bytes) != nil {
				continue
			}
			obs := emitVerify(o, key, hs[pi].bytes, with(mustEnc(d)), trusted)
			if obs == "err:unmodelled" {
				continue
			}
			want := isDescendant(hs, pi, bi)
			o.count(fmt.Sprintf("prebound.len%d.want%v", len(pre), want))
			if strings.HasPrefix(obs, "ok") != want {
				o.emit("(const sound)", fmt.Sprintf("prefix-prebound-wrong:bound=%d,presented=%d,accepted=%v", bi, pi, !want))
			} else {
				o.emit("(const sound)", "sound")
			}
		}
		// a hand-written binding LONGER than the 16 bytes Bind writes, right in its first 16 bytes and wrong after
		// them (one extra byte, or the tail of another node's digest): it is the prefix of no token's id, so the
		// discharge works with no node - alone, or next to a correct Bind to the same node
		for k := 0; k < 6; k++ {
			bi := r.Intn(len(hs))
			nodeM, _ := macaroon.Decode(hs[bi].bytes)
			nodeID := sha256.Sum256(nodeM.Tail)
			otherM, _ := macaroon.Decode(hs[r.Intn(len(hs))].bytes)
			otherID := sha256.Sum256(append([]byte("x"), otherM.Tail...))
			ln := pick(r, []int{17, 20, 32})
			bad := append(append([]byte{}, nodeID[:16]...), otherID[16:ln]...)
			if bytes.Equal(bad, nodeID[:ln]) {
				continue
			}
			_, d, err := macaroon.DischargeTicket(ka, tpLoc, it.tp.ticket)
			if err != nil {
				panic(err)
			}
			withBind := r.Bool()
			if withBind && d.Bind(hs[bi].bytes) != nil {
				continue
			}
			bb := macaroon.BindToParentToken(bad)
			if d.Add(&bb) != nil {
				continue
			}
			dB := mustEnc(d)
			o.count(fmt.Sprintf("longbinding.len%d.withBind=%v", ln, withBind))
			for pi := range hs {
				obs := emitVerify(o, key, hs[pi].bytes, with(dB), trusted)
				if obs == "err:unmodelled" {
					continue
				}
				if strings.HasPrefix(obs, "ok") {
					o.emit("(const sound)", fmt.Sprintf("long-binding-with-wrong-suffix-accepted:bound=%d,presented=%d", bi, pi))
				} else {
					o.emit("(const sound)", "sound")
				}
			}
		}
		// a binding NESTED in a wrapper is not examined by verification; it reaches clearing, where a binding caveat
		// refuses every request - so a discharge carrying one, or a permission token carrying one, authorises nothing,
		// with the node it names, its descendants, ancestors and siblings alike
		for k := 0; k < 4; k++ {
			bi, pi := r.Intn(len(hs)), r.Intn(len(hs))
			nodeM, _ := macaroon.Decode(hs[bi].bytes)
			nodeID := sha256.Sum256(nodeM.Tail)
			nb := macaroon.BindToParentToken(nodeID[:pick(r, []int{0, 1, 16, 16, 32})]) // (the empty binding matches every token - and still clears nothing)
			wrapped := &resset.IfPresent{Ifs: macaroon.NewCaveatSet(&nb), Else: resset.ActionAll}
			dq := r.Dyn()
			dq.WF = ""
			acc, sx := dq.As("full"), dq.Sx("full")
			var tokB []byte
			var dsB [][]byte
			if r.Bool() {
				_, d, err := macaroon.DischargeTicket(ka, tpLoc, it.tp.ticket)
				if err != nil || d.Add(wrapped) != nil {
					continue
				}
				tokB, dsB = hs[pi].bytes, with(mustEnc(d))
				o.count("nestedbinding.discharge")
			} else {
				pm, _ := macaroon.Decode(hs[pi].bytes)
				if pm.Add(wrapped) != nil {
					continue
				}
				tokB, dsB = mustEnc(pm), with(mkDis(nil, false))
				o.count("nestedbinding.permission")
			}
			co := clearObs(key, tokB, dsB, []macaroon.Access{acc})
			o.emit(fmt.Sprintf("(clear %s %s %s (trust) (%s))", hx(key), hx(tokB), sxHexList(dsB), sx), co)
			if co == "permit" {
				o.emit("(const sound)", "nested-binding-ignored")
			} else {
				o.emit("(const sound)", "sound")
			}
		}
		// binding to a PARSED parent object that is attenuated between two binds (BindToParentMacaroon): each bind
		// names the parent as it is at that moment
		for k := 0; k < 3; k++ {
			pi := r.Intn(len(hs))
			pm, err := macaroon.Decode(hs[pi].bytes)
			if err != nil {
				continue
			}
			_, d1, _ := macaroon.DischargeTicket(ka, tpLoc, it.tp.ticket)
			_, d2, _ := macaroon.DischargeTicket(ka, tpLoc, it.tp.ticket)
			if d1.BindToParentMacaroon(pm) != nil || pm.Add(r.plainCav(1)) != nil || d2.BindToParentMacaroon(pm) != nil {
				continue
			}
			child := mustEnc(pm)
			if bytes.Equal(child, hs[pi].bytes) {
				continue // the added caveat was already present: Add was a no-op, parent and child are the same token
			}
			o.count("bind.parsedParentMutated")
			for _, tc := range []struct {
				tok  []byte
				d    *macaroon.Macaroon
				want bool
				what string
			}{{hs[pi].bytes, d1, true, "first-bind/parent"}, {child, d1, true, "first-bind/child"},
				{child, d2, true, "second-bind/child"}, {hs[pi].bytes, d2, false, "second-bind/parent-before-add"}} {
				obs := emitVerify(o, key, tc.tok, with(mustEnc(tc.d)), trusted)
				if obs == "err:unmodelled" {
					continue
				}
				if strings.HasPrefix(obs, "ok") != tc.want {
					o.emit("(const sound)", "parsed-parent-binding-wrong:"+tc.what)
				} else {
					o.emit("(const sound)", "sound")
				}
			}
		}
		// BOTH third parties' discharges bound: two candidates for the first caveat (one bound to another node, tried
		// first or second, one bound to the presented node) and a single candidate for the second caveat, bound to that
		// same other node - so it fails with the very same error text as the first candidate did. Every third-party
		// caveat needs a discharge of its own that holds: accepted exactly when the other node is an ancestor.
		if twoTP && otherTicket != nil {
			for k := 0; k < 6; k++ {
				bi, pi := r.Intn(len(hs)), r.Intn(len(hs))
				aOther, aRight := mkDis([][]byte{hs[bi].bytes}, false), mkDis([][]byte{hs[pi].bytes}, false)
				_, ob, err := macaroon.DischargeTicket(otherKB, "https://other.example", otherTicket)
				if err != nil || aOther == nil || aRight == nil || ob.Bind(hs[bi].bytes) != nil {
					continue
				}
				ds := [][]byte{aOther, aRight, mustEnc(ob)}
				if r.Bool() {
					ds[0], ds[1] = ds[1], ds[0]
				}
				if r.Chance(1, 3) {
					ds[1], ds[2] = ds[2], ds[1]
				}
				obs := emitVerify(o, key, hs[pi].bytes, ds, nil)
				if obs == "err:unmodelled" {
					continue
				}
				want := isDescendant(hs, pi, bi)
				o.count(fmt.Sprintf("bothBound.want%v", want))
				switch {
				case strings.HasPrefix(obs, "ok") != want:
					o.emit("(const sound)", fmt.Sprintf("both-bound-wrong:other=%d,presented=%d,accepted=%v", bi, pi, !want))
				default:
					o.emit("(const sound)", "sound")
				}
			}
		}
		// several bindings: all must hold
		for k := 0; k < 10; k++ {
			b1, b2 := r.Intn(len(hs)), r.Intn(len(hs))
			bogus := r.Chance(1, 4)
			d := mkDis([][]byte{hs[b1].bytes, hs[b2].bytes}, bogus)
			if d == nil {
				continue
			}
			pi := r.Intn(len(hs))
			obs := emitVerify(o, key, hs[pi].bytes, with(d), trusted)
			if obs == "err:unmodelled" {
				continue
			}
			want := isDescendant(hs, pi, b1) && isDescendant(hs, pi, b2) && !bogus
			o.count("multi")
			if strings.HasPrefix(obs, "ok") != want {
				o.emit("(const sound)", fmt.Sprintf("multi-binding-wrong:%d,%d,bogus=%v,presented=%d", b1, b2, bogus, pi))
			} else {
				o.emit("(const sound)", "sound")
			}
		}
		// a token that carries a binding, presented as a permission token
		// (the binding Bind would write, or one written by hand: the empty one - a prefix of every id -, one byte,
		// a prefix of the token's own id, 32 bytes; alone or next to a discharge bound to that very token)
		for k := 0; k < 4; k++ {
			pm, _ := macaroon.Decode(hs[r.Intn(len(hs))].bytes)
			kind := "bind"
			if k == 0 {
				pm.BindToParentMacaroon(root)
			} else {
				ownID := sha256.Sum256(pm.Tail)
				ln := pick(r, []int{0, 0, 1, 16, 32})
				hb := macaroon.BindToParentToken(ownID[:ln])
				if r.Chance(1, 4) {
					hb = macaroon.BindToParentToken(r.Bytes(ln))
				}
				kind = fmt.Sprintf("hand.len%d", ln)
				if pm.Add(&hb) != nil {
					continue
				}
			}
			pmB := mustEnc(pm)
			ds := with(mkDis(nil, false))
			if r.Bool() {
				ds = with(mkDis([][]byte{pmB}, false))
				kind += ".boundDischarge"
			}
			o.count("boundPermission." + kind)
			obs := emitVerify(o, key, pmB, ds, trusted)
			if obs == "err:unmodelled" {
				continue
			}
			if strings.HasPrefix(obs, "ok") {
				o.emit("(const sound)", "bound-permission-token-accepted:"+kind)
			} else {
				o.emit("(const sound)", "sound")
			}
		}
	}
}

// ---------------------------------------------------------------- C07 attest

func attestObs(key []byte, tok []byte, ds [][]byte, trusted map[string][]macaroon.EncryptionKey) string {
	return guard(func() string {
		m, err := macaroon.Decode(tok)
		if err != nil {
			return "err:decode"
		}
		cs, err := m.Verify(key, ds, trusted)
		if err != nil {
			return "err:" + verifyClass(err)
		}
		// everything typed lookup can find: the three attestation types, in GetCaveats order per type
		var found []macaroon.Caveat
		var walk func(cs []macaroon.Caveat)
		walk = func(cs []macaroon.Caveat) {
			for _, c := range cs {
				if macaroon.IsAttestation(c) {
					found = append(found, c)
				}
				if w, ok := c.(macaroon.WrapperCaveat); ok && w.Unwrap() != nil {
					walk(w.Unwrap().Caveats)
				}
			}
		}
		walk(cs.Caveats)
		// cross-check with the library's own typed lookup
		n := len(macaroon.GetCaveats[*auth.FlyioUserID](cs)) + len(macaroon.GetCaveats[*auth.GitHubUserID](cs)) + len(macaroon.GetCaveats[*auth.GoogleUserID](cs))
		if n != len(found) {
			return fmt.Sprintf("lookup-mismatch:%d,%d", n, len(found))
		}
		return "ok " + sxCavs(found)
	})
}

// harnessClaim: an attestation type of the APPLICATION (the exported macaroon.Attestation interface, a type number in
// the user-defined range): every rule about attestations holds for it as for the three built-in ones
type harnessClaim struct {
	ID uint64 `json:"id"`
}

var cavHarnessClaim = macaroon.CaveatType(uint64(macaroon.CavMinUserDefined) + 0x7a7a01)

func init() { macaroon.RegisterCaveatType(&harnessClaim{}) }

func (c *harnessClaim) CaveatType() macaroon.CaveatType   { return cavHarnessClaim }
func (c *harnessClaim) Name() string                      { return "ZZHarnessClaim" }
func (c *harnessClaim) Prohibits(a macaroon.Access) error { return macaroon.ErrBadCaveat }
func (c *harnessClaim) IsAttestation() bool               { return true }

func appAttestationRun(r *Rng) string {
	key, kaTrusted, kaOwn := r.Bytes(32), r.Bytes(32), r.Bytes(32)
	loc, tpLoc := "https://api.fly.io/v1", "https://auth.example"
	claim := &harnessClaim{ID: 42}
	if !macaroon.IsAttestation(claim) {
		return "application-defined-attestation-not-recognised-as-one"
	}
	root, _ := macaroon.New(r.Bytes(8), loc, key)
	root.Add(r.plainCav(1))
	// a bearer adds it to a non-proof token
	if m, err := macaroon.Decode(mustEnc(root)); err == nil {
		if m.Add(claim) == nil {
			if cs, err := m.Verify(key, nil, nil); err == nil && len(macaroon.GetCaveats[*harnessClaim](cs)) > 0 {
				return "application-defined-attestation-added-by-a-bearer-was-returned"
			}
			return "application-defined-attestation-accepted-by-Add-on-a-non-proof-token"
		}
		if m.Add(&resset.IfPresent{Ifs: macaroon.NewCaveatSet(claim), Else: resset.ActionAll}) == nil {
			return "wrapped-application-defined-attestation-accepted-by-Add"
		}
	}
	// a bearer adds an own third-party caveat naming the TRUSTED location and discharges it with a proof of its own
	// that carries the claim: whatever the verifier trusts (nothing, the real party's key, several keys), it is not returned
	m, _ := macaroon.Decode(mustEnc(root))
	if m.Add3P(kaOwn, tpLoc) != nil {
		return "harness-error"
	}
	c3 := macaroon.GetCaveats[*macaroon.Caveat3P](&m.UnsafeCaveats)[0]
	_, dm, err := macaroon.DischargeTicket(kaOwn, tpLoc, c3.Ticket)
	if err != nil || dm.Add(claim) != nil {
		return "harness-error(discharge)"
	}
	db := mustEnc(dm)
	for _, trusted := range []map[string][]macaroon.EncryptionKey{nil, {}, {tpLoc: {kaTrusted}}, {tpLoc: {r.Bytes(32), kaTrusted}}} {
		mm, _ := macaroon.Decode(mustEnc(m))
		cs, err := mm.Verify(key, [][]byte{db}, trusted)
		if err == nil && len(macaroon.GetCaveats[*harnessClaim](cs)) > 0 {
			return "application-defined-attestation-from-an-untrusted-discharge-was-returned"
		}
	}
	// sanity: from a discharge under a key the verifier does trust it IS returned
	mm, _ := macaroon.Decode(mustEnc(m))
	if cs, err := mm.Verify(key, [][]byte{db}, map[string][]macaroon.EncryptionKey{tpLoc: {kaOwn}}); err != nil || len(macaroon.GetCaveats[*harnessClaim](cs)) != 1 {
		return "application-defined-attestation-from-a-trusted-discharge-was-not-returned"
	}
	return "sound"
}

// Add's guards judge the caveats it APPENDS: an attestation (bare or wrapped) behind arguments that de-duplication
// drops - a caveat the token already carries, the same caveat twice - is refused like one that stands alone, on a
// token and through Bundle.Attenuate on a verified bundle
func dedupThenAttestationRun(r *Rng) string {
	key := r.Bytes(32)
	loc := "https://api.fly.io/v1"
	have := &flyio.Organization{ID: 7, Mask: resset.ActionAll}
	root, _ := macaroon.New([]byte("kid"), loc, key)
	root.Add(have)
	uid := auth.FlyioUserID(666)
	wrapped := &resset.IfPresent{Ifs: macaroon.NewCaveatSet(&uid), Else: resset.ActionAll}
	fresh := &macaroon.ValidityWindow{NotBefore: 0, NotAfter: 1 << 40}
	lists := [][]macaroon.Caveat{{have, &uid}, {have, wrapped}, {fresh, fresh, &uid}, {have, have, fresh, &uid}, {&uid}, {fresh, &uid}}
	for i, cs := range lists {
		m, err := macaroon.Decode(mustEnc(root))
		if err != nil {
			return "harness-error"
		}
		if m.Add(cs...) == nil {
			return fmt.Sprintf("attestation-behind-dropped-duplicates-accepted-by-Add:%d", i)
		}
		s, _ := root.String()
		b, err := bundle.ParseBundle(loc, "FlyV1 "+s)
		if err != nil {
			return "harness-error(bundle)"
		}
		v := bundle.WithKey([]byte("kid"), key, nil)
		if _, err := b.Verify(context.Background(), v); err != nil {
			return "harness-error(verify)"
		}
		aerr := b.Attenuate(cs...)
		got := 0
		bundle.ForEach(b, func(vm *bundle.VerifiedMacaroon) { got += len(macaroon.GetCaveats[*auth.FlyioUserID](vm.Caveats)) })
		if aerr == nil || got != 0 {
			return fmt.Sprintf("attestation-behind-dropped-duplicates-accepted-by-Attenuate:%d:obtainable=%d", i, got)
		}
	}
	return "sound"
}

func famAttest(r *Rng, o *Out, tier string) {
	o.emit("(const sound)", appAttestationRun(r))
	o.emit("(const sound)", dedupThenAttestationRun(r))
	n := 40
	if tier == "thorough" {
		n = 600
	}
	tpLoc := "https://auth.example"
	for fam := 0; fam < n; fam++ {
		key := r.Bytes(32)
		kaTrusted := r.Bytes(32)
		kaAttacker := r.Bytes(32)
		loc := "https://api.fly.io/v1"
		// the honest identity: each of the three attestation types, ordinary and boundary values (zero, 2^63, a Google
		// id beyond 64 bits); forged identities are uid+500000
		uid := auth.FlyioUserID(pick(r, []uint64{1000 + uint64(fam), 1000 + uint64(fam), 0, 1 << 63}))
		attKind := fam % 3
		mkAtt := func(id uint64, kind int) macaroon.Caveat {
			switch kind {
			case 1:
				u := auth.GitHubUserID(id)
				return &u
			case 2:
				b := new(big.Int).SetUint64(id)
				if id == uint64(uid) && fam%2 == 0 {
					b.Add(b, new(big.Int).Lsh(big.NewInt(1), 70))
				}
				u := auth.GoogleUserID(*b)
				return &u
			}
			u := auth.FlyioUserID(id)
			return &u
		}
		att := func() macaroon.Caveat { return mkAtt(uint64(uid), attKind) }
		forgedAtt := func() macaroon.Caveat { return mkAtt(uint64(uid)+500000, attKind) }
		o.count(fmt.Sprintf("att.kind%d", attKind))
		wrap := func(c macaroon.Caveat, depth int) macaroon.Caveat {
			for i := 0; i < depth; i++ {
				c = &resset.IfPresent{Ifs: macaroon.NewCaveatSet(c), Else: resset.ActionAll}
			}
			return c
		}
		// wrappers whose inner set holds a CLEAN wrapper (or plain caveats) in front of the attestation / of the
		// wrapper that holds it: the scan for wrapped attestations must look at every sibling
		cleanW := func() macaroon.Caveat {
			return &resset.IfPresent{Ifs: macaroon.NewCaveatSet(&flyio.Apps{Apps: resset.ResourceSet[uint64, resset.Action]{7: resset.ActionRead}}), Else: resset.ActionAll}
		}
		wrapSib := func(c macaroon.Caveat, shape int) macaroon.Caveat {
			switch shape {
			case 0:
				return &resset.IfPresent{Ifs: macaroon.NewCaveatSet(cleanW(), c), Else: resset.ActionAll}
			case 1:
				return &resset.IfPresent{Ifs: macaroon.NewCaveatSet(cleanW(), wrap(c, 1)), Else: resset.ActionAll}
			case 2:
				return &resset.IfPresent{Ifs: macaroon.NewCaveatSet(&flyio.Organization{ID: 1, Mask: resset.ActionAll}, cleanW(), cleanW(), c), Else: resset.ActionAll}
			default:
				return &resset.IfPresent{Ifs: macaroon.NewCaveatSet(&resset.IfPresent{Ifs: macaroon.NewCaveatSet(cleanW(), c), Else: resset.ActionAll}), Else: resset.ActionAll}
			}
		}
		trustMaps := map[string]map[string][]macaroon.EncryptionKey{
			"nil":      nil,
			"empty":    {},
			"wrongloc": {"https://elsewhere": {kaTrusted}},
			"wrongkey": {tpLoc: {r.Bytes(32)}},
			"several":  {tpLoc: {r.Bytes(32), kaTrusted, r.Bytes(32)}},
			"right":    {tpLoc: {kaTrusted}},
			"shortkey": {tpLoc: {r.Bytes(7), kaTrusted}},
			// keys of unusable sizes (empty, 33 bytes) in front of the right one; the right key listed twice
			"emptykeyfirst": {tpLoc: {{}, append(append([]byte{}, kaTrusted...), 0), kaTrusted}},
			"dupright":      {tpLoc: {kaTrusted, kaTrusted}},
			// the right key under OTHER spellings of the location only (trailing slash, upper case, empty)
			"otherspelling": {tpLoc + "/": {kaTrusted}, strings.ToUpper(tpLoc): {kaTrusted}, "": {kaTrusted}},
			// a wrong key for the location, the right key for another one
			"elsewhereonly": {tpLoc: {r.Bytes(32)}, "https://elsewhere": {kaTrusted}},
		}
		// the permission token with a 3P caveat for the trusted party
		tok, _ := macaroon.New(r.Bytes(8), loc, key)
		it, _ := newTP(kaTrusted, tpLoc)
		tok.Add(it.cav)
		final := mustEnc(tok)
		// a token whose 3P caveat is the attacker's own (own key, own location claim)
		tokA, _ := macaroon.New(r.Bytes(8), loc, key)
		itA, _ := newTP(kaAttacker, tpLoc)
		tokA.Add(itA.cav)
		finalA := mustEnc(tokA)

		type cas struct {
			name    string
			tok     []byte
			ds      [][]byte
			honest  bool // the attestation, if obtained, was placed by the trusted party or the verifier's own key
			trustOK func(tm string) bool
		}
		var cases []cas
		always := func(string) bool { return true }
		never := func(string) bool { return false }
		trusting := func(tm string) bool {
			return tm == "right" || tm == "several" || tm == "shortkey" || tm == "emptykeyfirst" || tm == "dupright"
		}
		// 1. trusted third party attests in a proof discharge (top level, wrapped 1..3)
		for depth := 0; depth <= 3; depth++ {
			_, d, _ := macaroon.DischargeTicket(kaTrusted, tpLoc, it.tp.ticket)
			if depth == 0 {
				d.Add(att())
			} else {
				handAppend(d, wrap(att(), depth)) // Add refuses wrappers around attestations: the third party (or a thief of rn) MACs it by hand
			}
			ok := trusting
			if depth > 0 {
				ok = never
			}
			cases = append(cases, cas{fmt.Sprintf("trusted.proof.depth%d", depth), final, [][]byte{mustEnc(d)}, true, ok})
		}
		// 2. non-proof discharge by the right key carrying an attestation (bearer-built: Add refuses, so by hand)
		{
			d, _ := macaroon.New(it.tp.ticket, tpLoc, it.tp.rn)
			c := att()
			ce, _ := encOne(c)
			d.UnsafeCaveats.Caveats = append(d.UnsafeCaveats.Caveats, c)
			d.Tail = hmacSum(d.Tail, ce)
			cases = append(cases, cas{"nonproof.byhand", final, [][]byte{mustEnc(d)}, false, never})
			for depth := 1; depth <= 2; depth++ {
				d2, _ := macaroon.New(it.tp.ticket, tpLoc, it.tp.rn)
				handAppend(d2, wrap(att(), depth))
				cases = append(cases, cas{fmt.Sprintf("nonproof.wrapped%d", depth), final, [][]byte{mustEnc(d2)}, false, never})
			}
		}
		// 3. bearer adds to the permission token itself: plain (refused) and wrapped
		{
			t2, _ := macaroon.Decode(final)
			t2.Add(att())
			cases = append(cases, cas{"root.add.plain", mustEnc(t2), nil, false, never})
			t3, _ := macaroon.Decode(final)
			handAppend(t3, wrap(att(), 1))
			_, d, _ := macaroon.DischargeTicket(kaTrusted, tpLoc, it.tp.ticket)
			cases = append(cases, cas{"root.add.wrapped", mustEnc(t3), [][]byte{mustEnc(d)}, false, never})
			// by hand: append an attestation to a non-proof root and MAC it
			t4, _ := macaroon.Decode(final)
			c := att()
			ce, _ := encOne(c)
			t4.UnsafeCaveats.Caveats = append(t4.UnsafeCaveats.Caveats, c)
			t4.Tail = hmacSum(t4.Tail, ce)
			cases = append(cases, cas{"root.byhand", mustEnc(t4), [][]byte{mustEnc(d)}, false, never})
		}
		// 4. attacker's own third party naming the trusted location
		{
			_, d, _ := macaroon.DischargeTicket(kaAttacker, tpLoc, itA.tp.ticket)
			d.Add(att())
			cases = append(cases, cas{"attacker.own3p.spoofloc", finalA, [][]byte{mustEnc(d)}, false, never})
			// the same with the attestation wrapped (hand-appended to the attacker's own proof before it is finalised)
			for depth := 1; depth <= 2; depth++ {
				_, dw, _ := macaroon.DischargeTicket(kaAttacker, tpLoc, itA.tp.ticket)
				handAppend(dw, wrap(att(), depth))
				cases = append(cases, cas{fmt.Sprintf("attacker.own3p.wrapped%d", depth), finalA, [][]byte{mustEnc(dw)}, false, never})
			}
		}
		// 4b. the same three carriers (trusted proof, bearer-extended root, attacker's own third party) with the
		// attestation behind clean siblings
		for shape := 0; shape < 4; shape++ {
			_, d, _ := macaroon.DischargeTicket(kaTrusted, tpLoc, it.tp.ticket)
			handAppend(d, wrapSib(att(), shape))
			cases = append(cases, cas{fmt.Sprintf("trusted.proof.sibling%d", shape), final, [][]byte{mustEnc(d)}, true, never})
			t3, _ := macaroon.Decode(final)
			handAppend(t3, wrapSib(att(), shape))
			_, d0, _ := macaroon.DischargeTicket(kaTrusted, tpLoc, it.tp.ticket)
			cases = append(cases, cas{fmt.Sprintf("root.add.sibling%d", shape), mustEnc(t3), [][]byte{mustEnc(d0)}, false, never})
			_, dw, _ := macaroon.DischargeTicket(kaAttacker, tpLoc, itA.tp.ticket)
			handAppend(dw, wrapSib(att(), shape))
			cases = append(cases, cas{fmt.Sprintf("attacker.own3p.sibling%d", shape), finalA, [][]byte{mustEnc(dw)}, false, never})
		}
		// 5. attacker re-uses a copied trusted ticket as key-id but signs with an own secret
		{
			d, _ := macaroon.New(it.tp.ticket, tpLoc, r.Bytes(32))
			cases = append(cases, cas{"attacker.copiedticket", final, [][]byte{mustEnc(d)}, false, never})
		}
		// 6. a proof signed with the verifier's own key carrying an attestation (own-key proof)
		{
			// mint a proof under the verifier's key via a ticket sealed to that key
			own, _ := macaroon.NewCaveat3P(key, loc)
			rn, _ := ticketKey(key, own.Ticket)
			_, p, _ := macaroon.DischargeTicket(key, loc, own.Ticket)
			p.Add(att())
			cases = append(cases, cas{"ownkey.proof", mustEnc(p), nil, true, always})
			_ = rn
		}
		// 7. two third parties: the trusted one attests honestly (uid), the bearer appends an own third-party
		// caveat under an own key (own location, or naming the trusted location is impossible twice) and
		// discharges it with a proof carrying a forged identity (uid+500000): trust must not carry over
		for _, attackerFirst := range []bool{false, true} {
			t2, _ := macaroon.New(r.Bytes(8), loc, key)
			var itT, itX addItem
			if attackerFirst {
				itX, _ = newTP(kaAttacker, "https://attacker.example")
				t2.Add(itX.cav)
				itT, _ = newTP(kaTrusted, tpLoc)
				t2.Add(itT.cav)
			} else {
				itT, _ = newTP(kaTrusted, tpLoc)
				t2.Add(itT.cav)
				itX, _ = newTP(kaAttacker, "https://attacker.example")
				t2.Add(itX.cav)
			}
			_, dT, _ := macaroon.DischargeTicket(kaTrusted, tpLoc, itT.tp.ticket)
			dT.Add(att())
			_, dX, _ := macaroon.DischargeTicket(kaAttacker, "https://attacker.example", itX.tp.ticket)
			forged := auth.FlyioUserID(uint64(uid) + 500000)
			dX.Add(&forged)
			gh := auth.GitHubUserID(uint64(uid) + 500000)
			dX.Add(&gh)
			ds := [][]byte{mustEnc(dT), mustEnc(dX)}
			if r.Bool() {
				ds[0], ds[1] = ds[1], ds[0]
			}
			cases = append(cases, cas{fmt.Sprintf("two3p.attackerFirst=%v", attackerFirst), mustEnc(t2), ds, true, trusting})
		}
		// 8. the trusted party's ticket re-used NEXT TO the genuine caveat: the bearer appends a second third-party
		// caveat that copies the ticket bytes but whose VerifierKey seals a key the bearer knows (none), presents the
		// genuine discharge (own honest identity) AND a hand-signed proof with the same key-id carrying a forged
		// identity; whether a discharge is trusted depends on the caveat it discharges, not on the ticket alone
		for _, evilLoc := range []string{"https://attacker.example", tpLoc} {
			t2, _ := macaroon.New(r.Bytes(8), loc, key)
			itT, _ := newTP(kaTrusted, tpLoc)
			t2.Add(itT.cav)
			t2b, _ := macaroon.Decode(mustEnc(t2))
			if t2b.Add(&macaroon.Caveat3P{Location: evilLoc, Ticket: append([]byte{}, itT.tp.ticket...)}) != nil {
				continue // (a second caveat for the same location is refused by Add)
			}
			_, dT, _ := macaroon.DischargeTicket(kaTrusted, tpLoc, itT.tp.ticket)
			dT.Add(att())
			// a proof nonce for the same key-id: take a fresh genuine proof's nonce, sign by hand under the empty key
			_, shell, _ := macaroon.DischargeTicket(kaTrusted, tpLoc, itT.tp.ticket)
			d2, _ := macaroon.Decode(mustEnc(shell))
			d2.Location = pick(r, []string{tpLoc, evilLoc})
			forged := auth.FlyioUserID(uint64(uid) + 500000)
			fe, _ := encOne(&forged)
			d2.UnsafeCaveats.Caveats = []macaroon.Caveat{&forged}
			d2.Tail = finalizeSig(hmacSum(hmacSum(nil, d2.Nonce.MustEncode()), fe))
			ds := [][]byte{mustEnc(dT), mustEnc(d2)}
			if r.Bool() {
				ds[0], ds[1] = ds[1], ds[0]
			}
			cases = append(cases, cas{"copiedticket.nextToGenuine." + map[bool]string{true: "sameloc", false: "otherloc"}[evilLoc == tpLoc], mustEnc(t2b), ds, false, trusting})
			// (under a trusting map the genuine discharge's honest identity may surface - or the whole verification is
			// refused because the copied caveat's key does not match the ticket's, when the forged discharge names the
			// trusted location; the forged identity must never surface: that is the uid+500000 test below)
		}
		// 9. the trusted party hands out a CLONE of the proof it is still building (Clone before any Encode or String):
		// the clone is as final as an encoding - it verifies, its honest identity surfaces under a trusting map, and a
		// bearer who appends a forged identity by hand (MAC continued from the published tail, finalised again or not)
		// gets nothing
		{
			_, d, _ := macaroon.DischargeTicket(kaTrusted, tpLoc, it.tp.ticket)
			d.Add(att())
			if cl, err := d.Clone(); err == nil {
				issued := mustEnc(cl)
				cases = append(cases, cas{"trusted.proof.issuedClone", final, [][]byte{issued}, true, trusting})
				for _, refinal := range []bool{true, false} {
					dd, err := macaroon.Decode(issued)
					if err != nil {
						continue
					}
					forged := auth.FlyioUserID(uint64(uid) + 500000)
					fe, _ := encOne(&forged)
					dd.UnsafeCaveats.Caveats = append(dd.UnsafeCaveats.Caveats, &forged)
					dd.Tail = hmacSum(dd.Tail, fe)
					if refinal {
						dd.Tail = finalizeSig(dd.Tail)
					}
					cases = append(cases, cas{fmt.Sprintf("trusted.proof.issuedClone.extended.refinal=%v", refinal), final, [][]byte{mustEnc(dd)}, false, never})
				}
			}
		}
		// 10. a LEGACY discharge (two-field nonce: no proof flag, none signed) that the trusted party issued for the
		// ticket; the bearer appends a forged identity by hand, finalises the tail himself (the finalisation key is
		// public) and writes the token as a map naming the Nonce field twice - a three-field nonce claiming "proof"
		// and the genuine one, in either order. A token minted as a non-proof never yields an attestation.
		{
			legacy, err := macaroon.Decode(oldFormatToken(it.tp.rn, it.tp.ticket, r.Bytes(16), tpLoc))
			if err == nil {
				forged := auth.FlyioUserID(uint64(uid) + 500000)
				fe, _ := encOne(&forged)
				legacy.UnsafeCaveats.Caveats = append(legacy.UnsafeCaveats.Caveats, &forged)
				legacy.Tail = finalizeSig(hmacSum(legacy.Tail, fe))
				if tree, rest, perr := mpParse(mustEnc(legacy)); perr == nil && len(rest) == 0 && tree.Kind == mpArr && len(tree.Kids) == 4 && len(tree.Kids[0].Kids) >= 2 {
					nt := tree.Kids[0]
					claim := &mpNode{Kind: mpArr, Kids: []*mpNode{nt.Kids[0], nt.Kids[1], {Kind: mpBool, B: true}}}
					for oi, order := range [][2]*mpNode{{claim, nt}, {nt, claim}} {
						tokm := &mpNode{Kind: mpMap, Kids: []*mpNode{mpStrNode("Nonce"), order[0], mpStrNode("Nonce"), order[1],
							mpStrNode("Location"), tree.Kids[1], mpStrNode("UnsafeCaveats"), tree.Kids[2], mpStrNode("Tail"), tree.Kids[3]}}
						cases = append(cases, cas{fmt.Sprintf("legacy.dupnonce.order%d", oi), final, [][]byte{mpEnc(tokm)}, false, never})
					}
				}
			}
		}
		// 11. the honest discharge under another location string: minted there by the third party (trusted only by a
		// verifier that lists the key under THAT string), or re-labelled by the bearer (the location is not signed) -
		// trust follows the location the discharge names, never a look-alike of it
		{
			_, d, err := macaroon.DischargeTicket(kaTrusted, tpLoc+"/", it.tp.ticket)
			if err == nil && d.Add(att()) == nil {
				cases = append(cases, cas{"trusted.proof.otherloc", final, [][]byte{mustEnc(d)}, true, func(tm string) bool { return tm == "otherspelling" }})
			}
			_, d2, _ := macaroon.DischargeTicket(kaTrusted, tpLoc, it.tp.ticket)
			d2.Add(att())
			if dd, err := macaroon.Decode(mustEnc(d2)); err == nil {
				dd.Location = "https://elsewhere"
				cases = append(cases, cas{"trusted.proof.relabelled", final, [][]byte{mustEnc(dd)}, false, func(tm string) bool { return tm == "wrongloc" || tm == "elsewhereonly" }})
			}
			// the attacker's own third party under the look-alike location the verifier lists
			_, dA, _ := macaroon.DischargeTicket(kaAttacker, tpLoc+"/", itA.tp.ticket)
			dA.Add(att())
			cases = append(cases, cas{"attacker.own3p.lookalikeloc", finalA, [][]byte{mustEnc(dA)}, false, never})
		}
		// 12. the trusted party's discharge as it usually looks: the identity between other caveats, a second identity of
		// another type next to it, the discharge bound to the token
		{
			_, d, _ := macaroon.DischargeTicket(kaTrusted, tpLoc, it.tp.ticket)
			d.Add(r.plainCav(1))
			d.Add(att())
			d.Add(r.plainCav(1))
			d.Add(mkAtt(uint64(uid), (attKind+1)%3))
			if r.Bool() {
				d.Bind(final)
			}
			cases = append(cases, cas{"trusted.proof.mixed", final, [][]byte{mustEnc(d)}, true, trusting})
			_, db, _ := macaroon.DischargeTicket(kaTrusted, tpLoc, it.tp.ticket)
			db.Bind(final)
			db.Add(att())
			cases = append(cases, cas{"trusted.proof.bound", final, [][]byte{mustEnc(db)}, true, trusting})
		}
		// 13. the published honest discharge extended by the bearer with a forged identity (MAC continued from the
		// published tail, finalised again or not), alone or in front of the untouched honest one
		{
			_, d, _ := macaroon.DischargeTicket(kaTrusted, tpLoc, it.tp.ticket)
			d.Add(att())
			issued := mustEnc(d)
			for _, refinal := range []bool{true, false} {
				dd, err := macaroon.Decode(issued)
				if err != nil {
					continue
				}
				f := forgedAtt()
				fe, _ := encOne(f)
				dd.UnsafeCaveats.Caveats = append(dd.UnsafeCaveats.Caveats, f)
				dd.Tail = hmacSum(dd.Tail, fe)
				if refinal {
					dd.Tail = finalizeSig(dd.Tail)
				}
				cases = append(cases, cas{fmt.Sprintf("trusted.proof.extended.refinal=%v", refinal), final, [][]byte{mustEnc(dd)}, false, never})
				cases = append(cases, cas{fmt.Sprintf("trusted.proof.behindForged.refinal=%v", refinal), final, [][]byte{mustEnc(dd), issued}, true, trusting})
			}
		}
		// 14. deeper wrappers around the identity, on the trusted proof and on the bearer-extended permission token
		for _, depth := range map[bool][]int{false: {8}, true: {8, 40, 150}}[tier == "thorough"] {
			_, d, _ := macaroon.DischargeTicket(kaTrusted, tpLoc, it.tp.ticket)
			handAppend(d, wrap(att(), depth))
			cases = append(cases, cas{fmt.Sprintf("trusted.proof.depth%d", depth), final, [][]byte{mustEnc(d)}, true, never})
			t3, _ := macaroon.Decode(final)
			handAppend(t3, wrap(forgedAtt(), depth))
			_, d0, _ := macaroon.DischargeTicket(kaTrusted, tpLoc, it.tp.ticket)
			cases = append(cases, cas{fmt.Sprintf("root.add.wrapped.depth%d", depth), mustEnc(t3), [][]byte{mustEnc(d0)}, false, never})
		}
		// 15. a proof under the verifier's own key: a wrapped identity appended before it is published; a forged identity
		// appended by the bearer afterwards
		{
			own, _ := macaroon.NewCaveat3P(key, loc)
			_, p, _ := macaroon.DischargeTicket(key, loc, own.Ticket)
			handAppend(p, wrap(att(), 1))
			cases = append(cases, cas{"ownkey.proof.wrapped", mustEnc(p), nil, false, never})
			_, p2, _ := macaroon.DischargeTicket(key, loc, own.Ticket)
			p2.Add(att())
			if dd, err := macaroon.Decode(mustEnc(p2)); err == nil {
				f := forgedAtt()
				fe, _ := encOne(f)
				dd.UnsafeCaveats.Caveats = append(dd.UnsafeCaveats.Caveats, f)
				dd.Tail = pick(r, [][]byte{hmacSum(dd.Tail, fe), finalizeSig(hmacSum(dd.Tail, fe)), dd.Tail})
				cases = append(cases, cas{"ownkey.proof.extended", mustEnc(dd), nil, false, never})
			}
		}
		for _, c := range cases {
			tms := []string{"nil", "empty", "wrongloc", "wrongkey", "several", "right", "shortkey"}
			extra := []string{"emptykeyfirst", "dupright", "otherspelling", "elsewhereonly"}
			if strings.Contains(c.name, "loc") || strings.Contains(c.name, "relabelled") {
				tms = append(tms, extra...)
			} else {
				// (two of the four further maps per case: the line count stays within twice the old one)
				i := r.Intn(4)
				tms = append(tms, extra[i], extra[(i+1+r.Intn(3))%4])
			}
			for _, tm := range tms {
				key2 := key
				if strings.HasPrefix(c.name, "ownkey.proof") {
					// verified under the discharge key of its own ticket
					own, _ := macaroon.Decode(c.tok)
					rn, ok := ticketKey(key, own.Nonce.KID)
					if !ok {
						continue
					}
					key2 = rn
				}
				obs := attestObs(key2, c.tok, c.ds, trustMaps[tm])
				o.emit(fmt.Sprintf("(attest %s %s %s %s)", hx(key2), hx(c.tok), sxHexList(c.ds), sxTrust(trustMaps[tm])), obs)
				got := strings.HasPrefix(obs, "ok ((")
				o.count("case." + c.name)
				if got {
					o.count("obtained")
				}
				switch {
				case strings.Contains(obs, fmt.Sprintf("%d", uint64(uid)+500000)):
					o.emit("(const sound)", "forged-attestation-obtained:"+c.name+":trust="+tm)
				case got && !c.trustOK(tm):
					o.emit("(const sound)", "attestation-obtained:"+c.name+":trust="+tm)
				case !got && c.honest && c.trustOK(tm):
					o.emit("(const sound)", "honest-attestation-lost:"+c.name+":trust="+tm+":"+strings.ReplaceAll(obs, " ", "_"))
				default:
					o.emit("(const sound)", "sound")
				}
			}
		}
		_ = flyio.LocationPermission
	}
}

// ---------------------------------------------------------------- C08 proof

// a proof whose ENCODED form carries the raw, unfinalised chain value (the exported fields of a never-encoded proof
// copied into a fresh Macaroon value, which Encode does not finalise) is no finalised proof: refused as a root under
// its own key, refused as a discharge of its caveat, and so is a copy extended by hand from that raw tail
func rawTailProofRun(r *Rng) string {
	for i := 0; i < 6; i++ {
		key, ka := r.Bytes(32), r.Bytes(32)
		loc, tpLoc := "https://api.fly.io/v1", "https://auth.example"
		root, _ := macaroon.New(r.Bytes(8), loc, key)
		c3, err := macaroon.NewCaveat3P(ka, tpLoc)
		if err != nil || root.Add(c3) != nil {
			return "harness-error"
		}
		rootB := mustEnc(root)
		rn, _ := ticketKey(ka, c3.Ticket)
		_, dm, err := macaroon.DischargeTicket(ka, tpLoc, c3.Ticket)
		if err != nil {
			return "harness-error(discharge)"
		}
		if i%2 == 1 {
			dm.Add(r.plainCav(1))
		}
		raw := &macaroon.Macaroon{Nonce: dm.Nonce, Location: dm.Location, UnsafeCaveats: dm.UnsafeCaveats, Tail: append([]byte{}, dm.Tail...)}
		rawB, err := raw.Encode()
		if err != nil {
			return "harness-error(encode)"
		}
		try := func(b []byte) string {
			if d, err := macaroon.Decode(b); err == nil {
				if _, err := d.Verify(rn, nil, nil); err == nil {
					return "unfinalised-tail-verified-as-a-root"
				}
			}
			if m, err := macaroon.Decode(rootB); err == nil {
				if _, err := m.Verify(key, [][]byte{b}, nil); err == nil {
					return "unfinalised-tail-accepted-as-a-discharge"
				}
			}
			return ""
		}
		if v := try(rawB); v != "" {
			return v
		}
		// extended by hand from the raw tail
		ext, err := macaroon.Decode(rawB)
		if err != nil {
			continue
		}
		c := r.plainCav(0)
		ce, _ := encOne(c)
		ext.UnsafeCaveats.Caveats = append(ext.UnsafeCaveats.Caveats, c)
		ext.Tail = hmacSum(ext.Tail, ce)
		if eb, err := ext.Encode(); err == nil {
			if v := try(eb); v != "" {
				return v + "(hand-extended)"
			}
		}
		// sanity: the genuine, finalised proof is accepted
		if m, err := macaroon.Decode(rootB); err == nil {
			if _, err := m.Verify(key, [][]byte{mustEnc(dm)}, nil); err != nil {
				return "finalised-proof-refused"
			}
		}
	}
	return "sound"
}

// publishedTailExtensionRun: a FINALISED proof as it is published (encoded), then extended by hand on a decoded copy
// with one more caveat of every kind - an ordinary one, a third-party caveat, a binding caveat - under every tail a holder
// can derive from the encoded form (the published tail kept, chained from it, chained and finalised again).  No such
// extension may verify, neither as a root under the discharge key nor as a discharge of the parent token.
// (round 33: a verify that skips third-party caveats of a discharge - and with them the MAC step - accepted the
// kept-tail extension by a third-party caveat when presented as a discharge.)
func publishedTailExtensionRun(r *Rng) string {
	for i := 0; i < 8; i++ {
		key, ka := r.Bytes(32), r.Bytes(32)
		loc, tpLoc := "https://api.fly.io/v1", "https://auth.example"
		root, _ := macaroon.New(r.Bytes(8), loc, key)
		c3, err := macaroon.NewCaveat3P(ka, tpLoc)
		if err != nil || root.Add(c3) != nil {
			return "harness-error"
		}
		if i%4 >= 2 {
			root.Add(r.plainCav(1))
		}
		rootB := mustEnc(root)
		rn, _ := ticketKey(ka, c3.Ticket)
		_, dm, err := macaroon.DischargeTicket(ka, tpLoc, c3.Ticket)
		if err != nil {
			return "harness-error(discharge)"
		}
		if i%2 == 1 {
			dm.Add(r.plainCav(1))
		}
		bound := i%3 == 0
		if bound {
			dm.Bind(rootB)
		}
		pub := mustEnc(dm) // finalised here
		if m, err := macaroon.Decode(rootB); err == nil {
			if _, err := m.Verify(key, [][]byte{pub}, nil); err != nil {
				return "finalised-proof-refused"
			}
		}
		other3, _ := macaroon.NewCaveat3P(r.Bytes(32), pick(r, []string{"https://other.example", tpLoc, ""}))
		exts := []struct {
			kind string
			c    macaroon.Caveat
		}{
			{"plain", r.plainCav(0)},
			{"3p", other3},
			{"3p-same-ticket", &macaroon.Caveat3P{Location: tpLoc, VerifierKey: append([]byte{}, c3.VerifierKey...), Ticket: append([]byte{}, c3.Ticket...)}},
			{"bind", &macaroon.BindToParentToken{}},
			{"bind16", func() macaroon.Caveat { b := macaroon.BindToParentToken(r.Bytes(16)); return &b }()},
		}
		for _, e := range exts {
			ce, err := encOne(e.c)
			if err != nil {
				continue
			}
			for _, tk := range []string{"kept", "chained", "chained-finalised", "finalised-again"} {
				ext, err := macaroon.Decode(pub)
				if err != nil {
					return "harness-error(decode)"
				}
				ext.UnsafeCaveats.Caveats = append(ext.UnsafeCaveats.Caveats, e.c)
				switch tk {
				case "chained":
					ext.Tail = hmacSum(ext.Tail, ce)
				case "chained-finalised":
					ext.Tail = finalizeSig(hmacSum(ext.Tail, ce))
				case "finalised-again":
					ext.Tail = finalizeSig(ext.Tail)
				}
				eb, err := ext.Encode()
				if err != nil {
					continue
				}
				if d, err := macaroon.Decode(eb); err == nil {
					if _, err := d.Verify(rn, nil, nil); err == nil {
						return "published-proof-extension-verified-as-a-root(" + e.kind + "," + tk + ")"
					}
				}
				for _, ds := range [][][]byte{{eb}, {eb, pub}, {pub, eb}} {
					if m, err := macaroon.Decode(rootB); err == nil {
						cs, err := m.Verify(key, ds, nil)
						if err != nil {
							continue
						}
						// with the genuine proof alongside, the parent may verify THROUGH the genuine one; the extension
						// itself must not be what was accepted: its extra caveat must not be among the results
						if len(ds) == 1 {
							return "published-proof-extension-accepted-as-a-discharge(" + e.kind + "," + tk + ")"
						}
						if e.kind == "plain" {
							for _, c := range cs.Caveats {
								if cb, err := encOne(c); err == nil && string(cb) == string(ce) {
									dup := false
									for _, own := range append(append([]macaroon.Caveat{}, root.UnsafeCaveats.Caveats...), dm.UnsafeCaveats.Caveats...) {
										if ob, err := encOne(own); err == nil && string(ob) == string(ce) {
											dup = true
										}
									}
									if !dup {
										return "published-proof-extension-caveat-returned(" + tk + ")"
									}
								}
							}
						}
					}
				}
			}
		}
	}
	return "sound"
}

func famProof(r *Rng, o *Out, tier string) {
	o.emit("(const sound)", rawTailProofRun(r))
	o.emit("(const sound)", publishedTailExtensionRun(r))
	n := 600
	if tier == "thorough" {
		n = 6000
	}
	for i := 0; i < n; i++ {
		ka := r.Bytes(32)
		loc := pick(r, []string{"https://auth.example", "https://auth.example", "", "HTTPS://AUTH.EXAMPLE/?x=1"})
		// (the ticket may carry conditions: they are the third party's business, the proof starts without caveats)
		var conds []macaroon.Caveat
		if r.Chance(1, 4) {
			conds = append(conds, r.plainCav(0))
		}
		c3, _ := macaroon.NewCaveat3P(ka, loc, conds...)
		rn, _ := ticketKey(ka, c3.Ticket)
		_, dm, err := macaroon.DischargeTicket(ka, loc, c3.Ticket)
		if err != nil {
			panic(err)
		}
		var ops, outs []string
		encoded := false
		var lastEnc []byte
		bound := false
		pkid, pkey := r.Bytes(6), r.Bytes(32)
		parentTok, _ := macaroon.New(pkid, "https://api.fly.io/v1", pkey)
		parentTok.Add(c3)
		parentBytes := mustEnc(parentTok)
		for s, ss := 0, 1+r.Intn(10); s < ss; s++ {
			switch r.Intn(10) {
			case 9:
				// printed: String() encodes (and so finalises) like Encode; the token inside the text is the encoded form
				str, err := dm.String()
				ops = append(ops, "string")
				if err != nil {
					outs = append(outs, "str:err")
				} else {
					raw, derr := base64.StdEncoding.DecodeString(strings.TrimPrefix(str, "fm2_"))
					if derr != nil || !strings.HasPrefix(str, "fm2_") {
						outs = append(outs, "str:unreadable")
					} else {
						outs = append(outs, "str:"+hx(raw))
						if encoded && lastEnc != nil && !bytes.Equal(raw, lastEnc) {
							o.emit("(const sound)", "printed-form-differs-from-encoded-form")
						}
						lastEnc = raw
					}
				}
				encoded = true
				o.count("op.string")
			case 8:
				// ONE Add call with no caveat at all, with several, with the same caveat twice, with a caveat the proof
				// already carries: all refused once the proof is final
				var cs []macaroon.Caveat
				for k, kk := 0, pick(r, []int{0, 0, 2, 3}); k < kk; k++ {
					switch {
					case len(cs) > 0 && r.Chance(1, 3):
						cs = append(cs, cs[r.Intn(len(cs))])
					case len(dm.UnsafeCaveats.Caveats) > 0 && r.Chance(1, 3):
						if c := pick(r, dm.UnsafeCaveats.Caveats); isPlainKind(c) {
							cs = append(cs, c)
							break
						}
						fallthrough
					default:
						cs = append(cs, r.plainCav(1))
					}
				}
				err := dm.Add(cs...)
				parts := make([]string, len(cs))
				for k, c := range cs {
					parts[k] = sxCav(c)
				}
				ops = append(ops, strings.TrimSpace("(addn "+strings.Join(parts, " "))+")")
				if err != nil {
					outs = append(outs, "addn:"+addClass(err))
				} else {
					outs = append(outs, "addn:ok")
					if encoded {
						o.emit("(const sound)", fmt.Sprintf("add-of-%d-caveats-accepted-after-encode", len(cs)))
					}
				}
				o.count(fmt.Sprintf("op.addn.%d.encoded=%v", len(cs), encoded))
			case 7:
				// binding adds a caveat too: refused once the proof is final (on the object and on decoded copies)
				target := dm
				onCopy := encoded && r.Bool()
				if onCopy {
					if cp, err := macaroon.Decode(mustEnc(dm)); err == nil {
						target = cp
					}
				}
				err := target.Bind(parentBytes)
				if onCopy {
					ops = append(ops, "(bindcopy "+hx(parentBytes)+")")
				} else {
					ops = append(ops, "(bind "+hx(parentBytes)+")")
				}
				if err != nil {
					outs = append(outs, "bind:"+addClass(err))
				} else {
					outs = append(outs, "bind:ok")
					if encoded {
						o.emit("(const sound)", "bind-accepted-after-encode")
					}
					if !onCopy {
						bound = true
					}
				}
				o.count(fmt.Sprintf("bind.encoded=%v.copy=%v", encoded, onCopy))
			case 6:
				// an Encode that FAILS (a caveat that stopped being serialisable after it was added): the proof is
				// finalised by that call all the same, exactly once - later encodings must not finalise again
				var uc *macaroon.UnregisteredCaveat
				for _, c := range dm.UnsafeCaveats.Caveats {
					if u, ok := c.(*macaroon.UnregisteredCaveat); ok {
						uc = u
					}
				}
				if uc == nil {
					continue
				}
				saved := uc.RawMsgpack
				uc.RawMsgpack = nil
				_, err := dm.Encode()
				uc.RawMsgpack = saved
				ops = append(ops, "encfail")
				if err != nil {
					outs = append(outs, "encfail:err")
				} else {
					outs = append(outs, "encfail:ok")
				}
				o.count("encfail")
				encoded = true
				lastEnc = nil
			case 0, 1:
				c := r.plainCav(1)
				if r.Chance(1, 4) {
					c = &macaroon.UnregisteredCaveat{Type: macaroon.CaveatType(1<<40 + uint64(r.Intn(3))), RawMsgpack: []byte{0xa1, byte('a' + r.Intn(3))}}
				}
				if r.Chance(1, 5) {
					u := auth.FlyioUserID(7)
					c = &u
				}
				if len(dm.UnsafeCaveats.Caveats) > 0 && r.Chance(1, 6) {
					// a caveat the proof already carries (before the proof is final: a no-op; afterwards: refused)
					if x := pick(r, dm.UnsafeCaveats.Caveats); isPlainKind(x) || macaroon.IsAttestation(x) {
						c = x
						o.count(fmt.Sprintf("op.readd.encoded=%v", encoded))
					}
				}
				err := dm.Add(c)
				ops = append(ops, "(add "+sxCav(c)+")")
				if err != nil {
					outs = append(outs, "add:"+addClass(err))
					if !encoded {
						o.count("add.err.before.encode")
					}
				} else {
					outs = append(outs, "add:ok")
					if encoded {
						o.emit("(const sound)", "add-accepted-after-encode")
					}
				}
			case 2:
				b, err := dm.Encode()
				ops = append(ops, "encode")
				if err != nil {
					outs = append(outs, "enc:err")
				} else {
					outs = append(outs, "enc:"+hx(b))
					if encoded && lastEnc != nil && !bytes.Equal(b, lastEnc) {
						o.emit("(const sound)", "encoded-form-changed")
					}
					lastEnc = b
				}
				encoded = true
			case 3:
				c, err := dm.Clone()
				ops = append(ops, "clone")
				if err != nil {
					outs = append(outs, "clone:err")
				} else {
					cb, _ := c.Encode()
					outs = append(outs, "clone:"+hx(cb))
					if encoded && lastEnc != nil && !bytes.Equal(cb, lastEnc) {
						o.emit("(const sound)", "clone-differs")
					}
					lastEnc = cb
				}
				encoded = true
			case 4:
				cs, err := dm.VerifyParsed(rn, nil, nil)
				ops = append(ops, "verify")
				if err != nil {
					outs = append(outs, "verify:"+verifyClass(err))
					if encoded && !bound { // (a bound proof does not verify on its own: it carries a binding caveat)
						o.emit("(const sound)", "finalised-proof-not-verifiable:"+verifyClass(err))
					}
				} else {
					outs = append(outs, "verify:ok"+sxCavs(cs.Caveats))
					if !encoded {
						o.emit("(const sound)", "unfinalised-proof-verified")
					}
				}
				// ... and as a LIVE discharge object of its root (VerifyParsed): never encoded, it satisfies nothing, and
				// the attempt leaves the caller's object as it was (a verifier working on clones of what it is given
				// finalises them on the way: Clone encodes)
				if !encoded && !bound {
					if pm, err := macaroon.Decode(parentBytes); err == nil {
						before := append([]byte{}, dm.Tail...)
						_, perr := pm.VerifyParsed(pkey, []*macaroon.Macaroon{dm}, nil)
						o.count("live-discharge-unfinalised")
						switch {
						case perr == nil:
							o.emit("(const sound)", "unfinalised-proof-accepted-as-a-live-discharge")
						case !bytes.Equal(before, dm.Tail):
							o.emit("(const sound)", "verification-changed-the-callers-unfinalised-proof")
						default:
							o.emit("(const sound)", "sound")
						}
					}
				}
			default:
				c, err := dm.Clone()
				ops = append(ops, "cloneadd")
				if err != nil {
					outs = append(outs, "cloneadd:err")
				} else {
					a := resset.Action(1)
					if err := c.Add(&a); err != nil {
						outs = append(outs, "cloneadd:"+addClass(err))
					} else {
						outs = append(outs, "cloneadd:ok")
						o.emit("(const sound)", "decoded-proof-extended")
					}
					if !encoded {
						lastEnc = mustEnc(dm)
					}
				}
				encoded = true
			}
		}
		o.count(fmt.Sprintf("len.%d", len(ops)))
		o.emit(fmt.Sprintf("(proof.run %s %s %s %s %s (%s))", hx(ka), hs(loc), hx(c3.Ticket), hx(dm.Nonce.Rnd), hx(rn), strings.Join(ops, " ")), strings.Join(outs, " "))
		// hand-built extensions from the published form
		pub := mustEnc(dm)
		// the published form itself: verifies from bytes (unless it carries a binding: then only next to its parent), a
		// decoded copy re-encodes to the same bytes, and every way of adding is refused on the object and on the copy
		{
			obs := emitVerify(o, rn, pub, nil, nil)
			if obs != "err:unmodelled" {
				if !strings.HasPrefix(obs, "ok") && !bound {
					o.emit("(const sound)", "published-proof-does-not-verify:"+obs)
				} else {
					o.emit("(const sound)", "sound")
				}
			}
			res := guard(func() string {
				cp, err := macaroon.Decode(pub)
				if err != nil {
					return "published-proof-does-not-decode"
				}
				if again, err := cp.Encode(); err != nil || !bytes.Equal(again, pub) {
					return "decoded-copy-re-encodes-differently"
				}
				if again, err := dm.Encode(); err != nil || !bytes.Equal(again, pub) {
					return "encoded-form-changed"
				}
				for _, target := range []*macaroon.Macaroon{dm, cp} {
					n := len(target.UnsafeCaveats.Caveats)
					tail := append([]byte{}, target.Tail...)
					if target.Add3P(r.Bytes(32), "https://late.example") == nil {
						return "third-party-caveat-added-to-final-proof"
					}
					if target.BindToParentMacaroon(parentTok) == nil {
						return "binding-added-to-final-proof"
					}
					if target.Add() == nil {
						return "empty-add-accepted-on-final-proof"
					}
					if len(target.UnsafeCaveats.Caveats) != n || !bytes.Equal(target.Tail, tail) {
						return "refused-add-changed-the-proof"
					}
				}
				return "sound"
			})
			o.emit("(const sound)", res)
		}
		// shortened instead of extended: the last caveat taken away, every tail the bearer can compute
		if dd, err := macaroon.Decode(pub); err == nil && len(dd.UnsafeCaveats.Caveats) > 0 {
			dd.UnsafeCaveats.Caveats = dd.UnsafeCaveats.Caveats[:len(dd.UnsafeCaveats.Caveats)-1]
			dd.Tail = pick(r, [][]byte{dd.Tail, finalizeSig(dd.Tail), sha(dd.Tail), make([]byte, 32)})
			o.count("handcut")
			if obs := emitVerify(o, rn, mustEnc(dd), nil, nil); obs != "err:unmodelled" {
				if strings.HasPrefix(obs, "ok") {
					o.emit("(const sound)", "hand-shortened-proof-accepted")
				} else {
					o.emit("(const sound)", "sound")
				}
			}
		}
		for k := 0; k < 9; k++ {
			dd, _ := macaroon.Decode(pub)
			// what is appended: a plain caveat, or one of the kinds verification treats specially (an attestation,
			// a wrapper around plain caveats or around an attestation, a binding, a third-party caveat)
			var c macaroon.Caveat = r.plainCav(0)
			switch k {
			case 4:
				u := auth.FlyioUserID(r.id())
				c = &u
			case 5:
				c = &resset.IfPresent{Ifs: macaroon.NewCaveatSet(r.plainCav(0)), Else: resset.ActionAll}
			case 6:
				u := auth.FlyioUserID(r.id())
				c = &resset.IfPresent{Ifs: macaroon.NewCaveatSet(&u), Else: resset.ActionAll}
			case 7:
				b := macaroon.BindToParentToken(r.Bytes(pick(r, []int{0, 16})))
				c = &b
			case 8:
				c = &macaroon.Caveat3P{Location: "https://deeper.example", VerifierKey: r.Bytes(72), Ticket: r.Bytes(40)}
			}
			o.count(fmt.Sprintf("handext.%T", c))
			ce, _ := encOne(c)
			dd.UnsafeCaveats.Caveats = append(dd.UnsafeCaveats.Caveats, c)
			t := hmacSum(dd.Tail, ce)
			dd.Tail = pick(r, [][]byte{t, finalizeSig(t), dd.Tail, sha(dd.Tail), finalizeSig(dd.Tail), t[:16], {}, append(append([]byte{}, dd.Tail...), t...)})
			// (also with the nonce saying "not a proof", in the three-field and in the old two-field form: the chain then
			// starts elsewhere, and a non-proof is never finalised)
			switch r.Intn(6) {
			case 0:
				dd.Nonce.Proof = false
				o.count("handext.flagcleared")
			case 1:
				if nn, err := macaroon.DecodeNonce(oldFormatToken(nil, dd.Nonce.KID, dd.Nonce.Rnd, "")); err == nil {
					dd.Nonce = nn
					o.count("handext.nonce-v0")
				}
			}
			cand := mustEnc(dd)
			obs := emitVerify(o, rn, cand, nil, nil)
			if obs == "err:unmodelled" {
				continue
			}
			if strings.HasPrefix(obs, "ok") {
				o.emit("(const sound)", "hand-extended-proof-accepted")
			} else {
				o.emit("(const sound)", "sound")
			}
		}
	}
}

// ---------------------------------------------------------------- C02 attenuate

// a caveat the token carries only INSIDE a conditional is not a caveat the token carries: adding it at top level is an
// attenuation like any other (the conditional lets a request through that does not name the resource; the added
// caveat refuses it). A de-duplication that looks inside wrappers drops it silently.
func attenuateNestedDuplicate(r *Rng, o *Out, n int) {
	for i := 0; i < n; i++ {
		key := r.Bytes(32)
		org, app := uint64(1+r.Intn(3)), uint64(5+r.Intn(4))
		var inner macaroon.Caveat
		var named, unnamed *Dyn
		base := func() *Dyn {
			d := r.Dyn()
			d.WF = ""
			d.Org = p64(org)
			d.Action = resset.ActionRead
			d.App = nil
			d.Volume = nil
			return d
		}
		switch r.Intn(3) {
		case 0:
			inner = &flyio.Apps{Apps: resset.ResourceSet[uint64, resset.Action]{app: resset.ActionAll}}
			named, unnamed = base(), base()
			named.App = p64(app)
		case 1:
			v := fmt.Sprintf("vol_%d", app)
			inner = &flyio.Volumes{Volumes: resset.ResourceSet[string, resset.Action]{v: resset.ActionAll}}
			named, unnamed = base(), base()
			named.Volume = &v
		default:
			inner = &flyio.Apps{Apps: resset.ResourceSet[uint64, resset.Action]{app: resset.ActionRead, app + 1: resset.ActionAll}}
			named, unnamed = base(), base()
			named.App = p64(app + 1)
		}
		m, err := macaroon.New(r.Bytes(8), "https://api.fly.io/v1", key)
		if err != nil {
			continue
		}
		m.Add(&flyio.Organization{ID: org, Mask: resset.ActionAll})
		if r.Bool() {
			m.Add(&resset.IfPresent{Ifs: macaroon.NewCaveatSet(inner), Else: resset.ActionRead})
		} else { // two levels down
			m.Add(&resset.IfPresent{Ifs: macaroon.NewCaveatSet(&resset.IfPresent{Ifs: macaroon.NewCaveatSet(inner), Else: resset.ActionRead}), Else: resset.ActionRead})
		}
		pb := mustEnc(m)
		child, err := macaroon.Decode(pb)
		if err != nil || doAdd(o, child, []addItem{{cav: inner}}) != nil {
			continue
		}
		cb := mustEnc(child)
		o.count("nested-duplicate")
		for _, d := range []*Dyn{named, unnamed} {
			acc, sx := d.As("full"), d.Sx("full")
			for _, tok := range [][]byte{pb, cb} {
				co := clearObs(key, tok, nil, []macaroon.Access{acc})
				o.emit(fmt.Sprintf("(clear %s %s %s (trust) (%s))", hx(key), hx(tok), sxHexList(nil), sx), co)
			}
		}
		// the request that names no resource: the parent clears it (else-branch), the child must not
		acc := unnamed.As("full")
		if clearObs(key, pb, nil, []macaroon.Access{acc}) == "ok" && clearObs(key, cb, nil, []macaroon.Access{acc}) == "ok" {
			o.emit("(const sound)", "caveat-added-at-top-level-lost-because-a-conditional-holds-the-same-one")
		} else {
			o.emit("(const sound)", "sound")
		}
	}
}

func famAttenuate(r *Rng, o *Out, tier string) {
	attenuateNestedDuplicate(r, o, 60)
	n := 120
	if tier == "thorough" {
		n = 2000
	}
	lateLocs := []string{"https://auth.example/", "HTTPS://AUTH.EXAMPLE", ""} // (look-alikes of the root's third party: other parties)
	for fam := 0; fam < n; fam++ {
		key := r.Bytes(pick(r, []int{32, 32, 32, 0, 1, 64}))
		ka := r.Bytes(32)
		loc := pick(r, []string{"https://api.fly.io/v1", "https://api.fly.io/v1", "", "HTTPS://API.FLY.IO/v1/"})
		root, _ := macaroon.New(r.Bytes(pick(r, []int{8, 8, 0, 40})), loc, key)
		root.Add(&flyio.Organization{ID: 1, Mask: resset.ActionAll})
		var ds [][]byte
		var legacy *tpInfo // the root's third party, when its discharge is an old-style (non-proof) one a holder can attenuate
		if r.Bool() {
			it, _ := newTP(ka, "https://auth.example")
			root.Add(it.cav)
			switch r.Intn(4) {
			case 0:
				// an old-style discharge (not a proof): holders can attenuate it too
				d, _ := macaroon.New(it.tp.ticket, "https://auth.example", it.tp.rn)
				if r.Bool() {
					d.Add(r.clearCav())
				}
				ds = append(ds, mustEnc(d))
				legacy = it.tp
				o.count("rootDischarge.nonproof")
			case 1:
				// bound to the root: usable with the root and everything attenuated from it
				_, d, _ := macaroon.DischargeTicket(ka, "https://auth.example", it.tp.ticket)
				d.Bind(mustEnc(root))
				if r.Bool() {
					d.Add(r.clearCav())
				}
				ds = append(ds, mustEnc(d))
				o.count("rootDischarge.boundToRoot")
			default:
				_, d, _ := macaroon.DischargeTicket(ka, "https://auth.example", it.tp.ticket)
				if r.Bool() {
					d.Add(r.clearCav())
				}
				ds = append(ds, mustEnc(d)) // unbound: usable with parent and child
				o.count("rootDischarge.unbound")
			}
		}
		// the attenuation tree: holders work from bytes; a step is ONE Add call with one caveat, with several (among them
		// the same one twice, or one the token already carries), or with a third-party caveat of the holder's choosing
		// (whose discharge - possibly carrying restrictions of its own - then belongs to the child's presentation)
		rb := mustEnc(root)
		n0, c0, _ := tokParts(rb)
		hs := []honest{{rb, n0, c0, -1}}
		nds := [][][]byte{ds}    // per node: the discharges that go with it
		demand := map[int]bool{} // nodes whose last step added a third-party caveat
		frontier := []int{0}
		for d := 0; d < 3; d++ {
			var next []int
			for _, pi := range frontier {
				for f, ff := 0, 1+r.Intn(2); f < ff; f++ {
					m, err := macaroon.Decode(hs[pi].bytes)
					if err != nil {
						continue
					}
					cds := nds[pi]
					is3p := false
					switch r.Intn(6) {
					case 0:
						kb := r.Bytes(32)
						var conds []macaroon.Caveat
						if r.Bool() {
							conds = append(conds, r.plainCav(0))
						}
						tl := lateLocs[d]
						if r.Chance(1, 4) {
							// a location the token may already have a third-party caveat for (the root's, an earlier step's):
							// then Add refuses - it never drops the caveat silently - and the token stays as it was
							tl = pick(r, append([]string{"https://auth.example"}, lateLocs[:d]...))
							o.count("step.thirdparty.locationAgain")
						}
						it, err := newTP(kb, tl, conds...)
						if err != nil {
							continue
						}
						before := mustEnc(m)
						if doAdd(o, m, []addItem{it}) != nil {
							if !bytes.Equal(mustEnc(m), before) {
								o.emit("(const sound)", "refused-third-party-caveat-changed-the-token")
							} else {
								o.emit("(const sound)", "sound")
							}
							continue
						}
						_, dd, _ := macaroon.DischargeTicket(kb, tl, it.tp.ticket)
						if r.Bool() {
							dd.Add(r.clearCav())
						}
						cds = append(append([][]byte{}, cds...), mustEnc(dd))
						is3p = true
						o.count("step.thirdparty")
					case 1, 2:
						var items []addItem
						for k, kk := 0, 2+r.Intn(2); k < kk; k++ {
							switch {
							case len(items) > 0 && r.Chance(1, 3):
								items = append(items, items[r.Intn(len(items))])
							case r.Chance(1, 4):
								if x := pick(r, m.UnsafeCaveats.Caveats); isPlainKind(x) {
									items = append(items, addItem{cav: x})
									break
								}
								fallthrough
							default:
								items = append(items, addItem{cav: r.clearCav()})
							}
						}
						if doAdd(o, m, items) != nil {
							continue
						}
						o.count(fmt.Sprintf("step.multi.%d", len(items)))
					default:
						if doAdd(o, m, []addItem{{cav: r.clearCav()}}) != nil {
							continue
						}
						o.count("step.single")
					}
					b := mustEnc(m)
					nn, cc, _ := tokParts(b)
					hs = append(hs, honest{b, nn, cc, pi})
					nds = append(nds, cds)
					if is3p {
						demand[len(hs)-1] = true
					}
					next = append(next, len(hs)-1)
				}
			}
			frontier = next
		}
		for ci := range hs {
			pi := hs[ci].parent
			if pi < 0 {
				continue
			}
			// against the token it was derived from: the parent, or (as often) an earlier ancestor
			anc := pi
			for anc > 0 && r.Bool() {
				anc = hs[anc].parent
			}
			if anc != pi {
				o.count("ancestor.further")
			}
			for q := 0; q < 6; q++ {
				d := r.Dyn()
				d.WF = ""
				d.Org = p64(1)
				kind := "full"
				acc := d.As(kind)
				co := clearObs(key, hs[ci].bytes, nds[ci], []macaroon.Access{acc})
				// (the implication only says something when the child permits: half of the requests are drawn until the
				// child permits one, at most 16 draws)
				for k := 0; q%2 == 0 && co != "permit" && k < 16; k++ {
					d = r.Dyn()
					d.WF = ""
					d.Org = p64(1)
					acc = d.As(kind)
					co = clearObs(key, hs[ci].bytes, nds[ci], []macaroon.Access{acc})
				}
				sx := d.Sx(kind)
				po := clearObs(key, hs[anc].bytes, nds[anc], []macaroon.Access{acc})
				o.emit(fmt.Sprintf("(clear %s %s %s (trust) (%s))", hx(key), hx(hs[ci].bytes), sxHexList(nds[ci]), sx), co)
				o.emit(fmt.Sprintf("(clear %s %s %s (trust) (%s))", hx(key), hx(hs[anc].bytes), sxHexList(nds[anc]), sx), po)
				o.count("child." + co)
				if co == "permit" && po != "permit" {
					o.emit("(const sound)", "attenuation-enlarged-authority")
				} else {
					o.emit("(const sound)", "sound")
				}
			}
			// an added third-party caveat makes the token demand its discharge: presented with what sufficed for the
			// parent, the child is refused whatever the request
			if demand[ci] {
				d := r.Dyn()
				d.WF = ""
				d.Org = p64(1)
				acc, sx := d.As("full"), d.Sx("full")
				co := clearObs(key, hs[ci].bytes, nds[pi], []macaroon.Access{acc})
				o.emit(fmt.Sprintf("(clear %s %s %s (trust) (%s))", hx(key), hx(hs[ci].bytes), sxHexList(nds[pi]), sx), co)
				o.count("thirdparty.demanded." + co)
				if co != "reject" {
					o.emit("(const sound)", "added-third-party-caveat-does-not-demand-its-discharge:"+co)
				} else {
					o.emit("(const sound)", "sound")
				}
				// ... and a candidate that merely NAMES the added caveat's ticket (anyone can mint one under a key of
				// their own) is no discharge of it, wherever it stands among the genuine discharges of the earlier
				// third-party caveats (per-caveat state of the verifier must not leak from one caveat to the next)
				if cm, err := macaroon.Decode(hs[ci].bytes); err == nil {
					c3s := macaroon.GetCaveats[*macaroon.Caveat3P](&cm.UnsafeCaveats)
					if len(c3s) > 0 {
						last := c3s[len(c3s)-1]
						if junk, err := macaroon.New(last.Ticket, last.Location, r.Bytes(32)); err == nil {
							jb, _ := junk.Encode()
							for _, front := range []bool{false, true} {
								var pres [][]byte
								if front {
									pres = append(append(pres, jb), nds[pi]...)
								} else {
									pres = append(append(pres, nds[pi]...), jb)
								}
								co := clearObs(key, hs[ci].bytes, pres, []macaroon.Access{acc})
								o.emit(fmt.Sprintf("(clear %s %s %s (trust) (%s))", hx(key), hx(hs[ci].bytes), sxHexList(pres), sx), co)
								o.count("thirdparty.demanded.junk-candidate." + co)
								if co != "reject" {
									o.emit("(const sound)", "a-junk-candidate-discharged-the-added-third-party-caveat:"+co)
								} else {
									o.emit("(const sound)", "sound")
								}
							}
						}
					}
				}
			}
		}
		// a holder attenuates the (old-style, non-proof) DISCHARGE instead of the token: that restricts as well
		if legacy != nil {
			for k := 0; k < 2; k++ {
				dm, err := macaroon.Decode(ds[0])
				if err != nil || dm.Add(r.clearCav()) != nil {
					continue
				}
				ds2 := [][]byte{mustEnc(dm)}
				ti := r.Intn(len(hs))
				if len(nds[ti]) != 1 {
					continue // (a node with further third parties: its own discharges would have to come along)
				}
				for q := 0; q < 3; q++ {
					d := r.Dyn()
					d.WF = ""
					d.Org = p64(1)
					acc, sx := d.As("full"), d.Sx("full")
					co := clearObs(key, hs[ti].bytes, ds2, []macaroon.Access{acc})
					po := clearObs(key, hs[ti].bytes, ds, []macaroon.Access{acc})
					o.emit(fmt.Sprintf("(clear %s %s %s (trust) (%s))", hx(key), hx(hs[ti].bytes), sxHexList(ds2), sx), co)
					o.emit(fmt.Sprintf("(clear %s %s %s (trust) (%s))", hx(key), hx(hs[ti].bytes), sxHexList(ds), sx), po)
					o.count("dischargeAttenuated." + co)
					if co == "permit" && po != "permit" {
						o.emit("(const sound)", "attenuating-the-discharge-enlarged-authority")
					} else {
						o.emit("(const sound)", "sound")
					}
				}
			}
		}
		// an added caveat is enforced; a byte-identical re-add leaves the token unchanged
		for k := 0; k < 4; k++ {
			hi := r.Intn(len(hs))
			h := hs[hi]
			ds := nds[hi]
			m, _ := macaroon.Decode(h.bytes)
			c := r.clearCav()
			before := mustEnc(m)
			doAdd(o, m, []addItem{{cav: c}})
			after := mustEnc(m)
			m2, _ := macaroon.Decode(after)
			doAdd(o, m2, []addItem{{cav: c}})
			if !bytes.Equal(mustEnc(m2), after) {
				o.emit("(const sound)", "readd-changed-token")
			} else {
				o.emit("(const sound)", "sound")
			}
			// re-adding a caveat the token carries ANYWHERE (the first, one in the middle, one a parent added), alone or
			// inside a longer Add call next to a new caveat given twice: the carried one is never appended again, the new
			// one exactly once
			if mm, err := macaroon.Decode(after); err == nil && len(mm.UnsafeCaveats.Caveats) > 0 {
				xi := r.Intn(len(mm.UnsafeCaveats.Caveats))
				if x := mm.UnsafeCaveats.Caveats[xi]; isPlainKind(x) {
					doAdd(o, mm, []addItem{{cav: x}})
					o.count("readd.existing")
					if !bytes.Equal(mustEnc(mm), after) {
						o.emit("(const sound)", fmt.Sprintf("readd-of-carried-caveat-changed-token:position=%d", xi))
					} else {
						o.emit("(const sound)", "sound")
					}
					fresh := r.clearCav()
					fe, _ := encOne(fresh)
					count := func(b []byte) int {
						k := 0
						if _, cs, ok := tokParts(b); ok {
							for _, e := range cs {
								if bytes.Equal(e, fe) {
									k++
								}
							}
						}
						return k
					}
					had := count(after)
					mm2, _ := macaroon.Decode(after)
					doAdd(o, mm2, []addItem{{cav: fresh}, {cav: x}, {cav: fresh}})
					got := mustEnc(mm2)
					want := 1
					if had > 0 {
						want = had
					}
					o.count("readd.insideLongerAdd")
					_, csA, _ := tokParts(after)
					_, csG, _ := tokParts(got)
					if count(got) != want || len(csG) != len(csA)+want-had {
						o.emit("(const sound)", "longer-add-with-duplicates-wrong")
					} else {
						o.emit("(const sound)", "sound")
					}
				}
			}
			// near-duplicate: differs in one field -> must be kept
			if c2 := nearDup(r, c); c2 != nil {
				o.count(fmt.Sprintf("neardup.%T", c))
				m3, _ := macaroon.Decode(after)
				doAdd(o, m3, []addItem{{cav: c2}})
				c2e, _ := encOne(c2)
				present := false
				if _, cs, ok := tokParts(after); ok {
					for _, e := range cs {
						present = present || bytes.Equal(e, c2e)
					}
				}
				if bytes.Equal(mustEnc(m3), after) && !present {
					o.emit("(const sound)", "near-duplicate-dropped")
				} else {
					o.emit("(const sound)", "sound")
				}
			}
			// caveats of DIFFERENT types whose bodies encode to the same bytes are different caveats:
			// adding the second must not be taken for a re-add of the first
			{
				n := pick(r, smallIDs) + 5
				set := resset.ResourceSet[string, resset.Action]{pick(r, smallStrs): r.mask()}
				gh, mv := auth.ConfineGitHubOrg(n), auth.MaxValidity(n)
				act, roles := resset.Action(n), flyio.AllowedRoles(n)
				pairs := [][2]macaroon.Caveat{
					{&auth.ConfineUser{ID: n}, &flyio.IsUser{ID: n}},
					{&auth.ConfineOrganization{ID: n}, &auth.ConfineUser{ID: n}},
					{&flyio.Machines{Machines: set}, &flyio.Volumes{Volumes: set}},
					{&flyio.FeatureSet{Features: set}, &flyio.MachineFeatureSet{Features: set}},
					{&gh, &mv},
					{&act, &roles},
				}
				pr := pick(r, pairs)
				if r.Bool() {
					pr[0], pr[1] = pr[1], pr[0]
				}
				m4, _ := macaroon.Decode(after)
				doAdd(o, m4, []addItem{{cav: pr[0]}})
				n1 := len(m4.UnsafeCaveats.Caveats)
				mid := mustEnc(m4)
				m5, _ := macaroon.Decode(mid)
				doAdd(o, m5, []addItem{{cav: pr[1]}})
				e1, _ := encOne(pr[1])
				already := false
				if _, cs, ok := tokParts(mid); ok {
					for _, e := range cs {
						already = already || bytes.Equal(e, e1)
					}
				}
				o.count("samebody.pair")
				if len(m5.UnsafeCaveats.Caveats) == n1 && !already {
					o.emit("(const sound)", fmt.Sprintf("attenuation-silently-lost:%T-after-%T", pr[1], pr[0]))
				} else {
					o.emit("(const sound)", "sound")
				}
			}
			// requests the new caveat prohibits are prohibited by the resulting token
			for q := 0; q < 4; q++ {
				d := r.Dyn()
				d.WF = ""
				acc := d.As("full")
				if c.Prohibits(acc) != nil && !bytes.Equal(before, after) {
					co := clearObs(key, after, ds, []macaroon.Access{acc})
					o.emit(fmt.Sprintf("(clear %s %s %s (trust) (%s))", hx(key), hx(after), sxHexList(ds), d.Sx("full")), co)
					if co == "permit" {
						o.emit("(const sound)", "added-caveat-not-enforced")
					} else {
						o.emit("(const sound)", "sound")
					}
				}
			}
		}
	}
}

// nearDup: a caveat of the same type that differs from c in one place (one field, one map entry, one list element,
// one bit of a mask); nil when none can be made.  Typed for the kinds clearing distinguishes, otherwise by changing one
// byte of the encoding and reading the result back.
func nearDup(r *Rng, c macaroon.Caveat) macaroon.Caveat {
	ce, err := encOne(c)
	if err != nil {
		return nil
	}
	differs := func(d macaroon.Caveat) macaroon.Caveat {
		de, err := encOne(d)
		if err != nil || bytes.Equal(de, ce) {
			return nil
		}
		return d
	}
	switch v := c.(type) {
	case *flyio.Organization:
		if r.Bool() {
			return differs(&flyio.Organization{ID: v.ID, Mask: v.Mask ^ 1})
		}
		return differs(&flyio.Organization{ID: v.ID + 1, Mask: v.Mask})
	case *flyio.Apps:
		m := resset.ResourceSet[uint64, resset.Action]{}
		for k, x := range v.Apps {
			m[k] = x
		}
		if len(m) > 0 && r.Bool() {
			for k := range m {
				m[k] ^= 1 // (every entry: the choice must not depend on map order)
			}
		} else {
			m[1<<40] = resset.ActionRead // one more entry
		}
		return differs(&flyio.Apps{Apps: m})
	case *resset.Action:
		a := *v ^ pick(r, []resset.Action{1, 2, 0x8000})
		return differs(&a)
	case *macaroon.ValidityWindow:
		if r.Bool() {
			return differs(&macaroon.ValidityWindow{NotBefore: v.NotBefore, NotAfter: v.NotAfter + 1})
		}
		return differs(&macaroon.ValidityWindow{NotBefore: v.NotBefore - 1, NotAfter: v.NotAfter})
	case *resset.IfPresent:
		if r.Bool() {
			return differs(&resset.IfPresent{Ifs: v.Ifs, Else: v.Else ^ 1})
		}
		inner := append([]macaroon.Caveat{}, v.Ifs.Caveats...)
		a := resset.Action(1)
		inner = append(inner, &a) // the same wrapper with one more inner caveat
		return differs(&resset.IfPresent{Ifs: macaroon.NewCaveatSet(inner...), Else: v.Else})
	case *flyio.Mutations:
		if len(v.Mutations) >= 2 && v.Mutations[0] != v.Mutations[1] {
			ms := append([]string{}, v.Mutations...)
			ms[0], ms[1] = ms[1], ms[0] // the same elements in another order
			return differs(&flyio.Mutations{Mutations: ms})
		}
	}
	// any other type: one bit of the last bytes of the encoding (mostly the last field's value)
	for try := 0; try < 8; try++ {
		b := append([]byte{}, ce...)
		b[len(b)-1-r.Intn(min(3, len(b)-1))] ^= byte(1 << uint(r.Intn(8)))
		cs, err := macaroon.DecodeCaveats(b)
		if err != nil || len(cs.Caveats) != 1 || cs.Caveats[0].CaveatType() != c.CaveatType() || cavsHaveNil(cs.Caveats) {
			continue
		}
		if b2, err := cs.MarshalMsgpack(); err != nil || !bytes.Equal(b2, b) {
			continue
		}
		if d := differs(cs.Caveats[0]); d != nil {
			return d
		}
	}
	return nil
}

// clearCav: caveats that can clear some requests of the harness (so permit/deny both occur)
func (r *Rng) clearCav() macaroon.Caveat {
	switch r.Intn(6) {
	case 0:
		return &flyio.Organization{ID: pick(r, []uint64{0, 1, 1, 2}), Mask: r.mask()}
	case 1:
		return &flyio.Apps{Apps: resset.ResourceSet[uint64, resset.Action]{pick(r, smallIDs): r.mask()}}
	case 2:
		a := r.mask()
		return &a
	case 3:
		return &macaroon.ValidityWindow{NotBefore: baseNow - 5, NotAfter: baseNow + int64(r.Intn(10)) - 3}
	case 4:
		return &resset.IfPresent{Ifs: macaroon.NewCaveatSet(&flyio.Apps{Apps: resset.ResourceSet[uint64, resset.Action]{pick(r, smallIDs): r.mask()}}), Else: r.mask()}
	default:
		return r.plainCav(1)
	}
}

func growTreeWith(r *Rng, root *macaroon.Macaroon, depth, fan int, gen func() macaroon.Caveat) []honest {
	rb := mustEnc(root)
	n, cs, _ := tokParts(rb)
	out := []honest{{rb, n, cs, -1}}
	frontier := []int{0}
	for d := 0; d < depth; d++ {
		var next []int
		for _, pi := range frontier {
			for f, ff := 0, 1+r.Intn(fan); f < ff; f++ {
				m, err := macaroon.Decode(out[pi].bytes)
				if err != nil {
					continue
				}
				if m.Add(gen()) != nil {
					continue
				}
				b := mustEnc(m)
				nn, cc, _ := tokParts(b)
				out = append(out, honest{b, nn, cc, pi})
				next = append(next, len(out)-1)
			}
		}
		frontier = next
	}
	return out
}
