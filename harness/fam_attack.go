package main

// Attack-enumeration families of the token layer:
//   forge (C01), discharge (C04), bind (C06), attest (C07), proof (C08), attenuate (C02).
// Each candidate goes to the real Decode+Verify and to the model's verify; next to it a
// declarative oracle line (spec.*) states what the property demands of the implementation's
// answer, computed by the harness from how the candidate was assembled.

import (
	"bytes"
	"crypto/sha256"
	"fmt"
	mrand "math/rand"
	"strings"

	"github.com/superfly/macaroon"
	"github.com/superfly/macaroon/auth"
	"github.com/superfly/macaroon/flyio"
	"github.com/superfly/macaroon/resset"
)

func init() {
	families["forge"] = famForge
	families["discharge"] = famDischarge
	families["bind"] = famBind
	families["attest"] = famAttest
	families["proof"] = famProof
	families["attenuate"] = famAttenuate
}

// ---------------------------------------------------------------- helpers

type honest struct {
	bytes  []byte
	nonce  []byte   // encoded nonce
	cavs   [][]byte // encoded caveats (each NewCaveatSet(c) encoding)
	parent int
}

func tokParts(b []byte) (nonce []byte, cavs [][]byte, ok bool) {
	m, err := macaroon.Decode(b)
	if err != nil {
		return nil, nil, false
	}
	nonce = m.Nonce.MustEncode()
	for _, c := range m.UnsafeCaveats.Caveats {
		e, err := encOne(c)
		if err != nil {
			return nil, nil, false
		}
		cavs = append(cavs, e)
	}
	return nonce, cavs, true
}

// extendsHonest: the candidate's (nonce, caveats) extend some honest token of the family
func extendsHonest(cand []byte, hs []honest) bool {
	n, cs, ok := tokParts(cand)
	if !ok {
		return false
	}
	for _, h := range hs {
		if !bytes.Equal(h.nonce, n) || len(h.cavs) > len(cs) {
			continue
		}
		match := true
		for i := range h.cavs {
			if !bytes.Equal(h.cavs[i], cs[i]) {
				match = false
				break
			}
		}
		if match {
			return true
		}
	}
	return false
}

// handAppend appends a caveat and MACs it by hand (what a bearer who knows the tail can always do),
// bypassing the checks of Add.  On a fresh (unfinalised) proof the later Encode finalises as usual.
func handAppend(m *macaroon.Macaroon, c macaroon.Caveat) {
	ce, err := encOne(c)
	if err != nil {
		return
	}
	m.UnsafeCaveats.Caveats = append(m.UnsafeCaveats.Caveats, c)
	m.Tail = hmacSum(m.Tail, ce)
}

func finalizeSig(t []byte) []byte { return hmacSum([]byte("proof-signature-finalization"), t) }

func sha(b []byte) []byte { s := sha256.Sum256(b); return s[:] }

// growTree: a family of honest tokens: the root and attenuations by holders working from bytes
func growTree(r *Rng, root *macaroon.Macaroon, depth, fan int) []honest {
	rb := mustEnc(root)
	n, cs, _ := tokParts(rb)
	out := []honest{{rb, n, cs, -1}}
	frontier := []int{0}
	for d := 0; d < depth; d++ {
		var next []int
		for _, pi := range frontier {
			for f, ff := 0, 1+r.Intn(fan); f < ff; f++ {
				m, err := macaroon.Decode(out[pi].bytes)
				if err != nil {
					continue
				}
				var cavs []macaroon.Caveat
				for k, kk := 0, 1+r.Intn(2); k < kk; k++ {
					cavs = append(cavs, r.plainCav(1))
				}
				if m.Add(cavs...) != nil {
					continue
				}
				b := mustEnc(m)
				nn, cc, _ := tokParts(b)
				out = append(out, honest{b, nn, cc, pi})
				next = append(next, len(out)-1)
			}
		}
		frontier = next
	}
	return out
}

// isDescendant: node is anc or a further attenuation of it — by content (same nonce, anc's caveats a
// prefix of node's), since re-adding an identical caveat or identical sibling attenuations give equal tokens
func isDescendant(hs []honest, node, anc int) bool {
	a, n := hs[anc], hs[node]
	if !bytes.Equal(a.nonce, n.nonce) || len(a.cavs) > len(n.cavs) {
		return false
	}
	for i := range a.cavs {
		if !bytes.Equal(a.cavs[i], n.cavs[i]) {
			return false
		}
	}
	return true
}

// rebuild a token from parts with an explicit nonce encoding (lets the attacker change the nonce version)
func assemble(nonceEnc []byte, loc string, cavEncs [][]byte, tail []byte) []byte {
	out := append([]byte{0x94}, nonceEnc...)
	out = append(out, mpEnc(mpStrNode(loc))...)
	n := len(cavEncs) * 2
	switch {
	case n < 16:
		out = append(out, 0x90+byte(n))
	default:
		out = append(out, 0xdc, byte(n>>8), byte(n))
	}
	for _, ce := range cavEncs {
		out = append(out, ce[1:]...) // strip the 0x92 of the one-element set
	}
	out = append(out, mpEnc(&mpNode{Kind: mpBin, S: tail})...)
	return out
}

func emitVerify(o *Out, key, cand []byte, ds [][]byte, trusted map[string][]macaroon.EncryptionKey) string {
	obs := verifyObs(key, cand, ds, trusted)
	if !comparable(cand, ds) {
		o.count("skipped.unmodelled-nil")
		return "err:unmodelled"
	}
	o.emit(verifyOp(key, cand, ds, trusted), obs)
	if strings.HasPrefix(obs, "ok") {
		o.count("verify.accept")
	} else {
		o.count("verify." + strings.SplitN(strings.TrimPrefix(obs, "err:"), "(", 2)[0])
	}
	return obs
}

// ---------------------------------------------------------------- C01 forge

func famForge(r *Rng, o *Out, tier string) {
	n := 40
	if tier == "thorough" {
		n = 800
	}
	for fam := 0; fam < n; fam++ {
		key := r.Bytes(32)
		loc := "https://api.fly.io/v1"
		var root *macaroon.Macaroon
		oldFormat := r.Chance(1, 4)
		if oldFormat {
			// a token minted in the old two-field nonce format
			root, _ = macaroon.Decode(oldFormatToken(key, r.Bytes(8), r.Bytes(16), loc))
			o.count("root.v0")
		} else {
			root, _ = macaroon.New(r.Bytes(8), loc, key)
		}
		// half of the families carry a third-party caveat (at a random position among the issuer's caveats)
		// and are presented with its unbound discharge: caveats AFTER it must be as protected as those before
		var ds [][]byte
		tpAt := -1
		nroot := r.Intn(4)
		if r.Bool() {
			tpAt = r.Intn(nroot + 1)
		}
		for k := 0; k <= nroot; k++ {
			if k == tpAt {
				ka := r.Bytes(32)
				it, _ := newTP(ka, "https://auth.example")
				if root.Add(it.cav) == nil {
					_, d, _ := macaroon.DischargeTicket(ka, "https://auth.example", it.tp.ticket)
					ds = append(ds, mustEnc(d))
					o.count("root.with3p")
				}
			}
			if k < nroot {
				root.Add(r.plainCav(1))
			}
		}
		hs := growTree(r, root, 2, 2)
		// what the attacker holds: a random non-empty subset
		var held []int
		for i := range hs {
			if r.Bool() {
				held = append(held, i)
			}
		}
		if len(held) == 0 {
			held = []int{r.Intn(len(hs))}
		}
		var heldTails [][]byte
		for _, i := range held {
			m, _ := macaroon.Decode(hs[i].bytes)
			heldTails = append(heldTails, m.Tail)
		}
		try := func(kind string, cand []byte) {
			o.count("cand." + kind)
			obs := emitVerify(o, key, cand, ds, nil)
			if obs == "err:unmodelled" {
				return
			}
			if strings.HasPrefix(obs, "ok") && !extendsHonest(cand, hs) {
				o.emit("(const sound)", "forgery:"+kind)
			} else {
				o.emit("(const sound)", "sound")
			}
		}
		for _, hi := range held {
			h := hs[hi]
			m, _ := macaroon.Decode(h.bytes)
			nEnc := h.nonce
			// tails the attacker can try for a given caveat list
			tailsFor := func(cavEncs [][]byte) [][]byte {
				ts := [][]byte{m.Tail, make([]byte, 32), r.Bytes(32), sha(m.Tail), finalizeSig(m.Tail), m.Tail[:16], {}}
				ts = append(ts, pick(r, heldTails))
				// the honest continuation from this held tail over a suffix (valid only if cavEncs extends h)
				if len(cavEncs) >= len(h.cavs) {
					t := m.Tail
					for _, ce := range cavEncs[len(h.cavs):] {
						t = hmacSum(t, ce)
					}
					ts = append(ts, t)
				}
				// the chain restarted from a held tail over ALL caveats
				t := pick(r, heldTails)
				for _, ce := range cavEncs {
					t = hmacSum(t, ce)
				}
				return append(ts, t)
			}
			// caveat edits
			var edits [][][]byte
			names := []string{}
			cs := h.cavs
			add := func(name string, e [][]byte) { edits = append(edits, e); names = append(names, name) }
			add("same", cs)
			for i := range cs {
				add("drop", append(append([][]byte{}, cs[:i]...), cs[i+1:]...))
			}
			if len(cs) >= 2 {
				i, j := r.Intn(len(cs)), r.Intn(len(cs))
				if i != j {
					sw := append([][]byte{}, cs...)
					sw[i], sw[j] = sw[j], sw[i]
					add("swap", sw)
				}
			}
			if len(cs) >= 1 {
				i := r.Intn(len(cs))
				rep := append([][]byte{}, cs...)
				ne, _ := encOne(r.plainCav(1))
				rep[i] = ne
				add("replace", rep)
				add("truncate", cs[:r.Intn(len(cs))])
				dup := append(append([][]byte{}, cs...), cs[r.Intn(len(cs))])
				add("duplicate", dup)
			}
			ne, _ := encOne(r.plainCav(1))
			add("append", append(append([][]byte{}, cs...), ne))
			// splice in caveats of the kinds verification treats specially (binding, third-party, attestation,
			// unknown type, wrapper) at any position, tail kept: none of them may escape the MAC chain
			{
				bnd := macaroon.BindToParentToken(r.Bytes(pick(r, []int{0, 1, 4, 16, 32})))
				uid := auth.FlyioUserID(r.id())
				special := map[string]macaroon.Caveat{
					"bind":   &bnd,
					"3p":     &macaroon.Caveat3P{Location: "https://x.example", VerifierKey: r.Bytes(pick(r, []int{0, 12, 60})), Ticket: r.Bytes(pick(r, []int{0, 8, 40}))},
					"attest": &uid,
					"unreg":  &macaroon.UnregisteredCaveat{Type: macaroon.CaveatType(1 << 33), RawMsgpack: []byte{0xc0}},
					"wrap":   &resset.IfPresent{Ifs: macaroon.NewCaveatSet(r.plainCav(0)), Else: resset.ActionAll},
				}
				for _, name := range []string{"bind", "3p", "attest", "unreg", "wrap"} {
					se, err := encOne(special[name])
					if err != nil {
						continue
					}
					at := r.Intn(len(cs) + 1)
					ins := append(append(append([][]byte{}, cs[:at]...), se), cs[at:]...)
					add("insert."+name, ins)
				}
			}
			for ei, e := range edits {
				for _, t := range tailsFor(e) {
					try(names[ei], assemble(nEnc, loc, e, t))
				}
			}
			// nonce edits (kid, rnd, proof flag, 2<->3 fields) with the held tail and with the honest chain
			nt, _, _ := mpParse(nEnc)
			nonceVariants := map[string][]byte{}
			if nt != nil && nt.Kind == mpArr && len(nt.Kids) >= 2 {
				flip := func(b []byte) []byte {
					c := append([]byte{}, b...)
					if len(c) == 0 {
						return []byte{1}
					}
					c[r.Intn(len(c))] ^= 0x40
					return c
				}
				mk := func(kid, rnd []byte, extra ...*mpNode) []byte {
					kids := []*mpNode{{Kind: mpBin, S: kid}, {Kind: mpBin, S: rnd}}
					return mpEnc(&mpNode{Kind: mpArr, Kids: append(kids, extra...)})
				}
				kid, rnd := nt.Kids[0].S, nt.Kids[1].S
				nonceVariants["kid"] = mk(flip(kid), rnd, nt.Kids[2:]...)
				nonceVariants["rnd"] = mk(kid, flip(rnd), nt.Kids[2:]...)
				nonceVariants["v0"] = mk(kid, rnd)
				nonceVariants["proof"] = mk(kid, rnd, &mpNode{Kind: mpBool, B: true})
				nonceVariants["v1false"] = mk(kid, rnd, &mpNode{Kind: mpBool, B: false})
			}
			for name, ne := range nonceVariants {
				for _, t := range [][]byte{m.Tail, finalizeSig(m.Tail), pick(r, heldTails)} {
					try("nonce."+name, assemble(ne, loc, cs, t))
				}
			}
			// a map-encoded token that names the Nonce field twice: a three-field nonce claiming "proof", then
			// the real one.  The proof flag of the accepted token must be the minted one (for an old-format
			// token: not a proof), so the finalised tail must not be accepted.
			if nt != nil && nt.Kind == mpArr && len(nt.Kids) >= 2 {
				kid, rnd := nt.Kids[0].S, nt.Kids[1].S
				claim := &mpNode{Kind: mpArr, Kids: []*mpNode{{Kind: mpBin, S: kid}, {Kind: mpBin, S: rnd}, {Kind: mpBool, B: true}}}
				cavsTree, _, _ := mpParse(assemble(nEnc, loc, cs, m.Tail)[1+len(nEnc)+len(mpEnc(mpStrNode(loc))):])
				for _, t := range [][]byte{finalizeSig(m.Tail), m.Tail} {
					for _, order := range [][2]*mpNode{{claim, nt}, {nt, claim}} {
						if cavsTree == nil {
							continue
						}
						tokm := &mpNode{Kind: mpMap, Kids: []*mpNode{mpStrNode("Nonce"), order[0], mpStrNode("Nonce"), order[1],
							mpStrNode("Location"), mpStrNode(loc), mpStrNode("UnsafeCaveats"), cavsTree, mpStrNode("Tail"), {Kind: mpBin, S: t}}}
						cand := mpEnc(tokm)
						o.count("cand.dupnonce")
						obs := emitVerify(o, key, cand, ds, nil)
						if obs == "err:unmodelled" {
							continue
						}
						// accepted with the finalised tail = accepted as a proof although minted as a non-proof
						if strings.HasPrefix(obs, "ok") && bytes.Equal(t, finalizeSig(m.Tail)) {
							o.emit("(const sound)", "forgery:proof-flag-changed-by-duplicate-nonce-field")
						} else {
							o.emit("(const sound)", "sound")
						}
					}
				}
			}
			// location is not authenticated: changing it must not matter (accepted, and still extends h)
			try("location", assemble(nEnc, "https://elsewhere", cs, m.Tail))
			// byte-level mutations of the held token
			for k := 0; k < 12; k++ {
				c := append([]byte{}, h.bytes...)
				switch r.Intn(5) {
				case 0:
					c[r.Intn(len(c))] ^= byte(1 << uint(r.Intn(8)))
				case 1:
					i := r.Intn(len(c))
					c = append(c[:i], append([]byte{byte(r.U64())}, c[i:]...)...)
				case 2:
					i := r.Intn(len(c))
					c = append(c[:i], c[i+1:]...)
				case 3:
					c = c[:r.Intn(len(c))]
				default:
					other := hs[pick(r, held)].bytes
					i, j := r.Intn(len(c)), r.Intn(len(other))
					c = append(append([]byte{}, c[:i]...), other[j:]...)
				}
				try("bytes", c)
			}
		}
		// nonces of independently minted tokens never coincide
		seen := map[string]bool{}
		dup := false
		for k := 0; k < 50; k++ {
			t, _ := macaroon.New([]byte("kid"), loc, key)
			s := string(t.Nonce.Rnd)
			if seen[s] || len(t.Nonce.Rnd) != 16 {
				dup = true
			}
			seen[s] = true
		}
		if dup {
			o.emit("(const sound)", "nonce-reuse")
		} else {
			o.emit("(const sound)", "sound")
		}
	}
	// issuer keys of every length (the API takes any byte string; HMAC hashes keys longer than its block): a token
	// verifies under the key it was minted with and under no sibling key - one sharing the first 32 bytes and
	// differing later, the 32-byte prefix alone, one differing in its first byte
	for _, L := range []int{1, 16, 31, 33, 54, 64, 65, 100, 200} {
		K := r.Bytes(L)
		K[L-1] |= 1 // (a key and the same key with zero bytes appended are one HMAC key below the block size)
		mint := func(k []byte) []byte {
			t, err := macaroon.New(r.Bytes(8), "https://api.fly.io/v1", k)
			if err != nil {
				return nil
			}
			t.Add(r.plainCav(1))
			return mustEnc(t)
		}
		tokK := mint(K)
		if tokK == nil {
			continue
		}
		o.count(fmt.Sprintf("keylen.%d", L))
		if obs := emitVerify(o, K, tokK, nil, nil); obs != "err:unmodelled" {
			if strings.HasPrefix(obs, "ok") {
				o.emit("(const sound)", "sound")
			} else {
				o.emit("(const sound)", fmt.Sprintf("own-token-rejected:keylen=%d", L))
			}
		}
		var sibs [][]byte
		tailFlip := append([]byte{}, K...)
		tailFlip[L-1] ^= 0x5a
		headFlip := append([]byte{}, K...)
		headFlip[0] ^= 0x80
		sibs = append(sibs, tailFlip, headFlip)
		if L > 32 {
			sibs = append(sibs, append([]byte{}, K[:32]...))
			mid := append([]byte{}, K...)
			mid[32] ^= 0x01
			sibs = append(sibs, mid)
		}
		for si, S := range sibs {
			tokS := mint(S)
			if tokS == nil {
				continue
			}
			for _, tc := range []struct{ k, t []byte }{{K, tokS}, {S, tokK}} {
				obs := emitVerify(o, tc.k, tc.t, nil, nil)
				if obs == "err:unmodelled" {
					continue
				}
				if strings.HasPrefix(obs, "ok") {
					o.emit("(const sound)", fmt.Sprintf("forgery:accepted-under-a-sibling-key:keylen=%d,sibling=%d", L, si))
				} else {
					o.emit("(const sound)", "sound")
				}
			}
		}
	}
	// the same protection for the DISCHARGES of a token with two third-party caveats: the first caveat's discharge is
	// genuine, the second's has a caveat removed, reordered or altered (nonce and tail kept), or is signed under
	// another key; presented in either order the token is refused - and the genuine pair returns every caveat
	for fam := 0; fam < n; fam++ {
		key, ka, kb := r.Bytes(32), r.Bytes(32), r.Bytes(32)
		root, _ := macaroon.New(r.Bytes(8), "https://api.fly.io/v1", key)
		ita, _ := newTP(ka, "https://auth.example")
		itb, _ := newTP(kb, "https://other.example")
		root.Add(r.plainCav(1))
		root.Add(ita.cav)
		if r.Bool() {
			root.Add(r.plainCav(1))
		}
		root.Add(itb.cav)
		tok := mustEnc(root)
		_, da, _ := macaroon.DischargeTicket(ka, "https://auth.example", ita.tp.ticket)
		da.Add(r.plainCav(1))
		_, db, _ := macaroon.DischargeTicket(kb, "https://other.example", itb.tp.ticket)
		c1, c2 := r.plainCav(1), r.plainCav(1)
		db.Add(c1)
		db.Add(c2)
		daB, dbB := mustEnc(da), mustEnc(db)
		if obs := emitVerify(o, key, tok, [][]byte{daB, dbB}, nil); obs != "err:unmodelled" {
			if strings.HasPrefix(obs, "ok") {
				o.emit("(const sound)", "sound")
			} else {
				o.emit("(const sound)", "genuine-discharge-pair-rejected")
			}
		}
		mut := func(kind string, f func(d *macaroon.Macaroon) bool) {
			d, err := macaroon.Decode(dbB)
			if err != nil || !f(d) {
				return
			}
			cand, err := d.Encode()
			if err != nil || bytes.Equal(cand, dbB) {
				return
			}
			for _, ds := range [][][]byte{{daB, cand}, {cand, daB}} {
				obs := emitVerify(o, key, tok, ds, nil)
				o.count("twoTP.discharge." + kind)
				if obs == "err:unmodelled" {
					continue
				}
				if strings.HasPrefix(obs, "ok") {
					o.emit("(const sound)", "forgery:second-discharge-"+kind)
				} else {
					o.emit("(const sound)", "sound")
				}
			}
		}
		mut("stripped", func(d *macaroon.Macaroon) bool { d.UnsafeCaveats.Caveats = nil; return true })
		mut("lastRemoved", func(d *macaroon.Macaroon) bool {
			cs := d.UnsafeCaveats.Caveats
			if len(cs) == 0 {
				return false
			}
			d.UnsafeCaveats.Caveats = cs[:len(cs)-1]
			return true
		})
		mut("reordered", func(d *macaroon.Macaroon) bool {
			cs := d.UnsafeCaveats.Caveats
			if len(cs) < 2 {
				return false
			}
			cs[0], cs[1] = cs[1], cs[0]
			return true
		})
		mut("altered", func(d *macaroon.Macaroon) bool {
			if len(d.UnsafeCaveats.Caveats) == 0 {
				return false
			}
			d.UnsafeCaveats.Caveats[0] = r.plainCav(1)
			return true
		})
		mut("rekeyed", func(d *macaroon.Macaroon) bool {
			f, err := macaroon.New(itb.tp.ticket, "https://other.example", r.Bytes(32))
			if err != nil {
				return false
			}
			*d = *f
			return true
		})
	}
	// "independently minted tokens never share a nonce" whatever the host program does with ITS pseudo-random
	// generator: the same math/rand seed before two mints (a host seeding for reproducible runs) must not make
	// nonces, keys, tickets or sealed verifier keys repeat
	{
		key, ka := r.Bytes(32), r.Bytes(32)
		type draw struct{ rnd, sk, ek, ticket, vk string }
		mint := func() draw {
			mrand.Seed(20260930) //nolint:staticcheck // deliberately the deprecated global seeding
			t, _ := macaroon.New([]byte("kid"), "loc", key)
			sk, ek := macaroon.NewSigningKey(), macaroon.NewEncryptionKey()
			t.Add3P(ka, "https://auth.example")
			c3 := macaroon.GetCaveats[*macaroon.Caveat3P](&t.UnsafeCaveats)[0]
			return draw{string(t.Nonce.Rnd), string(sk), string(ek), string(c3.Ticket), string(c3.VerifierKey)}
		}
		a, b := mint(), mint()
		switch {
		case a.rnd == b.rnd:
			o.emit("(const sound)", "nonce-follows-the-host-prng")
		case a.sk == b.sk || a.ek == b.ek:
			o.emit("(const sound)", "fresh-keys-follow-the-host-prng")
		case a.ticket == b.ticket || a.vk == b.vk:
			o.emit("(const sound)", "seal-follows-the-host-prng")
		default:
			o.emit("(const sound)", "sound")
		}
	}
}

// ---------------------------------------------------------------- C04 discharge

type dcand struct {
	b       []byte
	genuine bool // minted from the caveat's ticket under its rn (possibly with extra caveats, unbound or correctly bound)
	kind    string
}

func famDischarge(r *Rng, o *Out, tier string) {
	n := 250
	if tier == "thorough" {
		n = 4000
	}
	parties := []tpParty{{"https://auth.example", nil}, {"https://other.example", nil}, {"tp3", nil}}
	for fam := 0; fam < n; fam++ {
		key := r.Bytes(32)
		for i := range parties {
			parties[i].ka = r.Bytes(32)
		}
		loc := "https://api.fly.io/v1"
		tok, _ := macaroon.New(r.Bytes(8), loc, key)
		ntp := r.Intn(4)
		type tpu struct {
			p      tpParty
			ticket []byte
			rn     []byte
		}
		var tps []tpu
		perm := []int{0, 1, 2}
		for i := 2; i > 0; i-- {
			j := r.Intn(i + 1)
			perm[i], perm[j] = perm[j], perm[i]
		}
		for i := 0; i < ntp; i++ {
			for k, kk := 0, r.Intn(2); k < kk; k++ {
				tok.Add(r.plainCav(1))
			}
			p := parties[perm[i]]
			it, err := newTP(p.ka, p.loc, r.plainCav(0))
			if err != nil {
				panic(err)
			}
			if tok.Add(it.cav) != nil {
				continue
			}
			tps = append(tps, tpu{p, it.tp.ticket, it.tp.rn})
		}
		for k, kk := 0, r.Intn(2); k < kk; k++ {
			tok.Add(r.plainCav(1))
		}
		final := mustEnc(tok)
		// another token (for "discharge for another token")
		otherTok, _ := macaroon.New(r.Bytes(8), loc, key)
		oit, _ := newTP(parties[0].ka, parties[0].loc)
		otherTok.Add(oit.cav)
		var pool [][]dcand
		for _, u := range tps {
			var cs []dcand
			mk := func(kind string, genuine bool, f func() *macaroon.Macaroon) {
				d := f()
				if d == nil {
					return
				}
				b, err := d.Encode()
				if err != nil {
					return
				}
				cs = append(cs, dcand{b, genuine, kind})
			}
			proofD := func() *macaroon.Macaroon {
				_, d, err := macaroon.DischargeTicket(u.p.ka, u.p.loc, u.ticket)
				if err != nil {
					panic(err)
				}
				return d
			}
			mk("genuine", true, proofD)
			mk("genuine+caveats", true, func() *macaroon.Macaroon { d := proofD(); d.Add(r.plainCav(1)); return d })
			mk("genuine.bound", true, func() *macaroon.Macaroon { d := proofD(); d.Bind(final); return d })
			mk("genuine.nonproof", true, func() *macaroon.Macaroon { d, _ := macaroon.New(u.ticket, u.p.loc, u.rn); return d })
			mk("rekeyed", false, func() *macaroon.Macaroon { d, _ := macaroon.New(u.ticket, u.p.loc, r.Bytes(32)); return d })
			mk("reticketed", false, func() *macaroon.Macaroon { d, _ := macaroon.New(r.Bytes(len(u.ticket)), u.p.loc, u.rn); return d })
			mk("othertoken", false, func() *macaroon.Macaroon {
				_, d, _ := macaroon.DischargeTicket(parties[0].ka, parties[0].loc, oit.tp.ticket)
				return d
			})
			mk("nested", false, func() *macaroon.Macaroon {
				d, _ := macaroon.New(u.ticket, u.p.loc, u.rn)
				d.Add3P(r.Bytes(32), "https://deeper.example")
				return d
			})
			mk("wrongbound", false, func() *macaroon.Macaroon { d := proofD(); d.Bind(mustEnc(otherTok)); return d })
			mk("tampered", false, func() *macaroon.Macaroon {
				d := proofD()
				b := mustEnc(d)
				b[len(b)-1-r.Intn(20)] ^= 1
				dd, err := macaroon.Decode(b)
				if err != nil {
					return nil
				}
				return dd
			})
			mk("extended-by-hand", false, func() *macaroon.Macaroon {
				// take the published proof and append a caveat, MACing from the published (finalised) tail
				d := proofD()
				b := mustEnc(d)
				dd, _ := macaroon.Decode(b)
				c := r.plainCav(0)
				ce, _ := encOne(c)
				dd.UnsafeCaveats.Caveats = append(dd.UnsafeCaveats.Caveats, c)
				dd.Tail = pick(r, [][]byte{hmacSum(dd.Tail, ce), finalizeSig(hmacSum(dd.Tail, ce))})
				return dd
			})
			cs = append(cs, dcand{r.Bytes(20), false, "junk"})
			pool = append(pool, cs)
		}
		// assemblies: per ticket a random multiset of candidates (<= 3 each), all shuffled together
		reps := 12
		for rep := 0; rep < reps; rep++ {
			var ds [][]byte
			satisfiable := true
			var kinds []string
			for _, cs := range pool {
				any := false
				for k, kk := 0, r.Intn(4); k < kk; k++ {
					c := pick(r, cs)
					ds = append(ds, c.b)
					kinds = append(kinds, c.kind)
					any = any || c.genuine
				}
				if !any {
					satisfiable = false
				}
			}
			if r.Chance(1, 3) { // a duplicate and a discharge for a ticket the token does not have
				if len(ds) > 0 {
					ds = append(ds, ds[r.Intn(len(ds))])
				}
				_, extra, _ := macaroon.DischargeTicket(parties[0].ka, parties[0].loc, oit.tp.ticket)
				ds = append(ds, mustEnc(extra))
			}
			for i := len(ds) - 1; i > 0; i-- {
				j := r.Intn(i + 1)
				ds[i], ds[j] = ds[j], ds[i]
			}
			obs := emitVerify(o, key, final, ds, nil)
			if obs == "err:unmodelled" {
				continue
			}
			accepted := strings.HasPrefix(obs, "ok")
			o.count(fmt.Sprintf("tps.%d", len(tps)))
			// oracle: accepted iff every third-party caveat has a genuine candidate among the presented ones
			switch {
			case accepted && !satisfiable:
				o.emit("(const sound)", "accepted-without-own-discharge:"+strings.Join(kinds, ","))
			case !accepted && satisfiable:
				o.emit("(const sound)", "rejected-despite-genuine-discharge:"+strings.Join(kinds, ",")+":"+strings.ReplaceAll(obs, " ", "_"))
			default:
				o.emit("(const sound)", "sound")
			}
		}
		// a discharge that itself demands a further discharge never satisfies its caveat - also when that further
		// discharge is presented alongside (genuine, any order, duplicates)
		for ui, u := range tps {
			kc := r.Bytes(32)
			mkOuter := []func() *macaroon.Macaroon{
				func() *macaroon.Macaroon { _, d, _ := macaroon.DischargeTicket(u.p.ka, u.p.loc, u.ticket); return d },
				func() *macaroon.Macaroon { d, _ := macaroon.New(u.ticket, u.p.loc, u.rn); return d },
			}[r.Intn(2)]
			outer := mkOuter()
			if outer == nil || outer.Add3P(kc, "https://deeper.example") != nil {
				continue
			}
			innerTickets, err := outer.ThirdPartyTickets()
			if err != nil || len(innerTickets["https://deeper.example"]) == 0 {
				continue
			}
			_, inner, err := macaroon.DischargeTicket(kc, "https://deeper.example", innerTickets["https://deeper.example"])
			if err != nil {
				continue
			}
			if r.Bool() {
				inner.Bind(mustEnc(outer))
			}
			ds := [][]byte{mustEnc(outer), mustEnc(inner)}
			if r.Chance(1, 3) {
				ds = append(ds, ds[1])
			}
			for vi, v := range tps {
				if vi != ui {
					_, d, _ := macaroon.DischargeTicket(v.p.ka, v.p.loc, v.ticket)
					ds = append(ds, mustEnc(d))
				}
			}
			for i := len(ds) - 1; i > 0; i-- {
				j := r.Intn(i + 1)
				ds[i], ds[j] = ds[j], ds[i]
			}
			obs := emitVerify(o, key, final, ds, nil)
			o.count("nested.withinner")
			if obs != "err:unmodelled" {
				if strings.HasPrefix(obs, "ok") {
					o.emit("(const sound)", "accepted-with-discharge-that-demands-a-further-discharge")
				} else {
					o.emit("(const sound)", "sound")
				}
			}
		}
		// a holder appends an own third-party caveat that re-uses the ISSUER's ticket (own secret, own location)
		// and presents only a discharge signed under the own secret: the issuer's caveat is still undischarged
		if len(tps) > 0 {
			u := tps[0]
			own := r.Bytes(32)
			c3, err := macaroon.NewCaveat3P(own, "https://attacker-loc.example")
			if err == nil {
				rnOwn, _ := ticketKey(own, c3.Ticket)
				c3.Ticket = u.ticket
				t2, _ := macaroon.Decode(final)
				if t2.Add(c3) == nil {
					forged, _ := macaroon.New(u.ticket, u.p.loc, rnOwn)
					cand := mustEnc(t2)
					// every other third-party caveat gets its genuine discharge
					ds := [][]byte{mustEnc(forged)}
					for _, v := range tps[1:] {
						_, d, _ := macaroon.DischargeTicket(v.p.ka, v.p.loc, v.ticket)
						ds = append(ds, mustEnc(d))
					}
					obs := emitVerify(o, key, cand, ds, nil)
					o.count("dupticket")
					if obs != "err:unmodelled" {
						if strings.HasPrefix(obs, "ok") {
							o.emit("(const sound)", "accepted-with-rekeyed-discharge-via-duplicate-ticket")
						} else {
							o.emit("(const sound)", "sound")
						}
					}
				}
			}
		}
		// a third-party caveat WRAPPED in another caveat is not handled by verification (no discharge is looked up for
		// it); it reaches clearing, where it refuses every request. So a token that carries one - or whose discharge
		// carries one - authorises nothing: with no discharge, a forged one or a genuine one for the wrapped ticket
		{
			kw := r.Bytes(32)
			wit, err := newTP(kw, "https://wrapped.example")
			if err == nil {
				// (Add seals a verifier key into top-level third-party caveats only: a wrapped one keeps a nil key, which
				// the wire form writes as nil. The model's byte fields do not tell nil from empty, so that variant is
				// judged by the oracle line alone; the variant with a key goes to the model too.)
				nilKey := r.Bool()
				if !nilKey {
					wit.cav.(*macaroon.Caveat3P).VerifierKey = r.Bytes(pick(r, []int{0, 1, 72}))
				}
				wrapped := &resset.IfPresent{Ifs: macaroon.NewCaveatSet(wit.cav), Else: resset.ActionAll}
				dq := r.Dyn()
				dq.WF = ""
				acc, sx := dq.As("full"), dq.Sx("full")
				_, wd, _ := macaroon.DischargeTicket(kw, "https://wrapped.example", wit.tp.ticket)
				forged, _ := macaroon.New(wit.tp.ticket, "https://wrapped.example", r.Bytes(32))
				cands := [][][]byte{nil, {mustEnc(wd)}, {mustEnc(forged)}}
				var tokB []byte
				var base [][]byte
				kind := "permission"
				if r.Bool() || len(tps) == 0 {
					t2, _ := macaroon.New(r.Bytes(8), loc, key)
					if t2.Add(wrapped) == nil {
						tokB = mustEnc(t2)
					}
				} else {
					// the genuine discharge of a top-level caveat carries the wrapped one
					kind = "discharge"
					t2, _ := macaroon.New(r.Bytes(8), loc, key)
					it, _ := newTP(tps[0].p.ka, tps[0].p.loc)
					t2.Add(it.cav)
					_, d, _ := macaroon.DischargeTicket(tps[0].p.ka, tps[0].p.loc, it.tp.ticket)
					if d.Add(wrapped) == nil {
						tokB, base = mustEnc(t2), [][]byte{mustEnc(d)}
					}
				}
				if tokB != nil {
					for ci, c := range cands {
						ds := append(append([][]byte{}, base...), c...)
						co := clearObs(key, tokB, ds, []macaroon.Access{acc})
						o.count(fmt.Sprintf("wrapped3p.%s.nilkey=%v.cand%d.%s", kind, nilKey, ci, co))
						if !nilKey {
							o.emit(fmt.Sprintf("(clear %s %s %s (trust) (%s))", hx(key), hx(tokB), sxHexList(ds), sx), co)
						}
						if co == "permit" {
							o.emit("(const sound)", "wrapped-third-party-caveat-ignored:"+kind)
						} else {
							o.emit("(const sound)", "sound")
						}
					}
				}
			}
		}
		// tickets: wrong key, flipped bytes, truncation
		for _, u := range tps {
			run := func(kind string, ka, ticket []byte) {
				res := guard(func() string {
					cs, dm, err := macaroon.DischargeTicket(ka, u.p.loc, ticket)
					if err != nil {
						if strings.Contains(err.Error(), "ticket decrypt") {
							return "err:cannotOpen"
						}
						return "err:badPlaintext"
					}
					rnd := dm.Nonce.Rnd
					_ = rnd
					return "ok " + sxCavs(cs) + " " + hx(mustEnc(dm)) + " " + hx(dm.Nonce.Rnd)
				})
				o.count("ticket." + kind)
				if strings.HasPrefix(res, "ok ") {
					parts := strings.Split(res, " ")
					rnd := parts[len(parts)-1]
					o.emit(fmt.Sprintf("(tok.discharge %s %s %s %s 1)", hx(ka), hs(u.p.loc), hx(ticket), rnd), strings.Join(parts[:len(parts)-1], " "))
				} else {
					o.emit(fmt.Sprintf("(tok.discharge %s %s %s %s 1)", hx(ka), hs(u.p.loc), hx(ticket), hx(make([]byte, 16))), res)
				}
			}
			run("right", u.p.ka, u.ticket)
			run("wrongkey", r.Bytes(32), u.ticket)
			run("shortkey", r.Bytes(16), u.ticket)
			run("truncated", u.p.ka, u.ticket[:r.Intn(len(u.ticket))])
			flips := 6
			if tier == "thorough" {
				flips = len(u.ticket)
			}
			for k := 0; k < flips; k++ {
				t := append([]byte{}, u.ticket...)
				i := k
				if tier != "thorough" {
					i = r.Intn(len(t))
				}
				t[i] ^= byte(1 << uint(r.Intn(8)))
				run("flipped", u.p.ka, t)
			}
		}
	}
	// long condition lists: the third party recovers EVERY condition the author attached, also beyond any
	// internal pre-allocation bound of the decoder (1024), with the decisive condition last
	for _, nc := range []int{1023, 1024, 1025, 1500} {
		kb := r.Bytes(32)
		cs := make([]macaroon.Caveat, nc)
		for i := range cs {
			cs[i] = &macaroon.ValidityWindow{NotBefore: int64(i), NotAfter: int64(1) << 40}
		}
		cs[nc-1] = &macaroon.ValidityWindow{NotBefore: 0, NotAfter: 1}
		c3, err := macaroon.NewCaveat3P(kb, "https://long.example", cs...)
		if err != nil {
			continue
		}
		res := guard(func() string {
			got, dm, err := macaroon.DischargeTicket(kb, "https://long.example", c3.Ticket)
			if err != nil {
				return "err:" + err.Error()
			}
			return "ok " + sxCavs(got) + " " + hx(mustEnc(dm)) + " " + hx(dm.Nonce.Rnd)
		})
		o.count(fmt.Sprintf("ticket.long.%d", nc))
		if strings.HasPrefix(res, "ok ") {
			parts := strings.Split(res, " ")
			o.emit(fmt.Sprintf("(tok.discharge %s %s %s %s 1)", hx(kb), hs("https://long.example"), hx(c3.Ticket), parts[len(parts)-1]), strings.Join(parts[:len(parts)-1], " "))
		} else {
			o.emit(fmt.Sprintf("(tok.discharge %s %s %s %s 1)", hx(kb), hs("https://long.example"), hx(c3.Ticket), hx(make([]byte, 16))), res)
		}
	}
	// conditions attached through Add3P (the convenience entry point) reach the third party exactly as attached -
	// also when one of them equals a caveat the token already carries, or is attached twice
	for i := 0; i < n/5; i++ {
		key, kb := r.Bytes(32), r.Bytes(32)
		tok, _ := macaroon.New(r.Bytes(8), "https://api.fly.io/v1", key)
		own := []macaroon.Caveat{r.plainCav(1), r.plainCav(1)}
		tok.Add(own...)
		var conds []macaroon.Caveat
		for k, kk := 0, 1+r.Intn(3); k < kk; k++ {
			switch r.Intn(3) {
			case 0:
				conds = append(conds, own[r.Intn(len(own))]) // equal to a caveat of the token
			case 1:
				if len(conds) > 0 {
					conds = append(conds, conds[r.Intn(len(conds))]) // attached twice
				} else {
					conds = append(conds, r.plainCav(1))
				}
			default:
				conds = append(conds, r.plainCav(1))
			}
		}
		if tok.Add3P(kb, "https://conds.example", conds...) != nil {
			continue
		}
		tickets, err := tok.ThirdPartyTickets()
		ticket := tickets["https://conds.example"]
		if err != nil || len(ticket) == 0 {
			o.emit("(const sound)", "add3p:no-ticket")
			continue
		}
		res := guard(func() string {
			got, dm, err := macaroon.DischargeTicket(kb, "https://conds.example", ticket)
			if err != nil {
				return "err:" + err.Error()
			}
			return "ok " + sxCavs(got) + " " + hx(mustEnc(dm)) + " " + hx(dm.Nonce.Rnd)
		})
		o.count(fmt.Sprintf("add3p.conds.%d", len(conds)))
		if strings.HasPrefix(res, "ok ") {
			parts := strings.Split(res, " ")
			o.emit(fmt.Sprintf("(tok.discharge %s %s %s %s 1)", hx(kb), hs("https://conds.example"), hx(ticket), parts[len(parts)-1]), strings.Join(parts[:len(parts)-1], " "))
			if strings.HasPrefix(res, "ok "+sxCavs(conds)+" ") {
				o.emit("(const sound)", "sound")
			} else {
				o.emit("(const sound)", "add3p:third-party-recovers-other-conditions-than-attached")
			}
		} else {
			o.emit("(const sound)", "add3p:ticket-does-not-open")
		}
	}
	// sealing the same content twice never yields the same bytes
	ka := r.Bytes(32)
	seen := map[string]bool{}
	dup := false
	for i := 0; i < 2000; i++ {
		c, _ := macaroon.NewCaveat3P(ka, "loc")
		if seen[string(c.Ticket)] {
			dup = true
		}
		seen[string(c.Ticket)] = true
	}
	if dup {
		o.emit("(const sound)", "seal-repeats")
	} else {
		o.emit("(const sound)", "sound")
	}
}

// clearObs: verify, then clear the requests against the returned caveats
func clearObs(key, tok []byte, ds [][]byte, accs []macaroon.Access) string {
	return guard(func() string {
		m, err := macaroon.Decode(tok)
		if err != nil {
			return "err:decode"
		}
		cs, err := m.Verify(key, ds, nil)
		if err != nil {
			return "reject"
		}
		if cs.Validate(accs...) == nil {
			return "permit"
		}
		return "deny"
	})
}

// ---------------------------------------------------------------- C06 bind

func famBind(r *Rng, o *Out, tier string) {
	n := 70
	if tier == "thorough" {
		n = 1200
	}
	for fam := 0; fam < n; fam++ {
		key := r.Bytes(32)
		ka := r.Bytes(32)
		loc := "https://api.fly.io/v1"
		root, _ := macaroon.New(r.Bytes(8), loc, key)
		for k, kk := 0, r.Intn(3); k < kk; k++ {
			root.Add(r.plainCav(1))
		}
		it, _ := newTP(ka, "https://auth.example")
		// half of the families: a second third party on the same token, before or after the one whose discharge
		// gets bound; its own (unbound, genuine) discharge accompanies every presentation
		var otherDis []byte
		twoTP := fam%2 == 1
		otherFirst := r.Bool()
		addOther := func() {
			kb := r.Bytes(32)
			ot, _ := newTP(kb, "https://other.example")
			root.Add(ot.cav)
			_, od, err := macaroon.DischargeTicket(kb, "https://other.example", ot.tp.ticket)
			if err != nil {
				panic(err)
			}
			otherDis = mustEnc(od)
		}
		if twoTP && otherFirst {
			addOther()
		}
		root.Add(it.cav)
		if twoTP && !otherFirst {
			addOther()
		}
		if twoTP {
			o.count(fmt.Sprintf("twoTP.otherFirst=%v", otherFirst))
		}
		with := func(d []byte) [][]byte {
			if otherDis == nil {
				return [][]byte{d}
			}
			if r.Bool() {
				return [][]byte{otherDis, d}
			}
			return [][]byte{d, otherDis}
		}
		hs := growTree(r, root, 3, 2)
		// an unrelated tree with its own third-party caveat for the same third party
		root2, _ := macaroon.New(r.Bytes(8), loc, key)
		it2, _ := newTP(ka, "https://auth.example")
		root2.Add(it2.cav)
		hs2 := growTree(r, root2, 1, 2)
		mkDis := func(bindTo [][]byte, bogus bool) []byte {
			_, d, err := macaroon.DischargeTicket(ka, "https://auth.example", it.tp.ticket)
			if err != nil {
				panic(err)
			}
			for _, p := range bindTo {
				if d.Bind(p) != nil {
					return nil
				}
			}
			if bogus {
				b := macaroon.BindToParentToken(r.Bytes(16))
				d.Add(&b)
			}
			return mustEnc(d)
		}
		// single binding: every (bound-to, presented-with) pair of the tree
		for bi := range hs {
			d := mkDis([][]byte{hs[bi].bytes}, false)
			for pi := range hs {
				obs := emitVerify(o, key, hs[pi].bytes, with(d), nil)
				if obs == "err:unmodelled" {
					continue
				}
				want := isDescendant(hs, pi, bi)
				o.count(fmt.Sprintf("pair.want%v", want))
				if strings.HasPrefix(obs, "ok") != want {
					o.emit("(const sound)", fmt.Sprintf("binding-wrong:bound=%d,presented=%d,accepted=%v", bi, pi, !want))
				} else {
					o.emit("(const sound)", "sound")
				}
			}
			// presented with an unrelated token (its own caveat has another ticket: no discharge at all) - rejected
			for pi := range hs2 {
				obs := emitVerify(o, key, hs2[pi].bytes, [][]byte{d}, nil)
				if obs == "err:unmodelled" {
					continue
				}
				if strings.HasPrefix(obs, "ok") {
					o.emit("(const sound)", "accepted-with-unrelated-token")
				} else {
					o.emit("(const sound)", "sound")
				}
			}
		}
		// a discharge that already carries a SHORTER binding caveat (a prefix binding: the empty one matches every
		// token, one byte of the root's id matches the whole tree) and is then bound to a node with Bind: the full
		// binding must still be added and must still hold
		for k := 0; k < 6; k++ {
			bi, pi := r.Intn(len(hs)), r.Intn(len(hs))
			_, d, err := macaroon.DischargeTicket(ka, "https://auth.example", it.tp.ticket)
			if err != nil {
				panic(err)
			}
			rootM, _ := macaroon.Decode(hs[0].bytes)
			rootID := sha256.Sum256(rootM.Tail)
			pre := macaroon.BindToParentToken(rootID[:r.Intn(3)])
			if r.Chance(1, 2) {
				nodeM, _ := macaroon.Decode(hs[bi].bytes)
				nodeID := sha256.Sum256(nodeM.Tail)
				pre = macaroon.BindToParentToken(nodeID[:1+r.Intn(32)]) // a prefix of the node's digest: shorter or LONGER than the 16 bytes Bind will add
			}
			if d.Add(&pre) != nil || d.Bind(hs[bi].bytes) != nil {
				continue
			}
			obs := emitVerify(o, key, hs[pi].bytes, with(mustEnc(d)), nil)
			if obs == "err:unmodelled" {
				continue
			}
			want := isDescendant(hs, pi, bi)
			o.count(fmt.Sprintf("prebound.len%d.want%v", len(pre), want))
			if strings.HasPrefix(obs, "ok") != want {
				o.emit("(const sound)", fmt.Sprintf("prefix-prebound-wrong:bound=%d,presented=%d,accepted=%v", bi, pi, !want))
			} else {
				o.emit("(const sound)", "sound")
			}
		}
		// a hand-written binding LONGER than the 16 bytes Bind writes, right in its first 16 bytes and wrong after
		// them (one extra byte, or the tail of another node's digest): it is the prefix of no token's id, so the
		// discharge works with no node - alone, or next to a correct Bind to the same node
		for k := 0; k < 6; k++ {
			bi := r.Intn(len(hs))
			nodeM, _ := macaroon.Decode(hs[bi].bytes)
			nodeID := sha256.Sum256(nodeM.Tail)
			otherM, _ := macaroon.Decode(hs[r.Intn(len(hs))].bytes)
			otherID := sha256.Sum256(append([]byte("x"), otherM.Tail...))
			ln := pick(r, []int{17, 20, 32})
			bad := append(append([]byte{}, nodeID[:16]...), otherID[16:ln]...)
			if bytes.Equal(bad, nodeID[:ln]) {
				continue
			}
			_, d, err := macaroon.DischargeTicket(ka, "https://auth.example", it.tp.ticket)
			if err != nil {
				panic(err)
			}
			withBind := r.Bool()
			if withBind && d.Bind(hs[bi].bytes) != nil {
				continue
			}
			bb := macaroon.BindToParentToken(bad)
			if d.Add(&bb) != nil {
				continue
			}
			dB := mustEnc(d)
			o.count(fmt.Sprintf("longbinding.len%d.withBind=%v", ln, withBind))
			for pi := range hs {
				obs := emitVerify(o, key, hs[pi].bytes, with(dB), nil)
				if obs == "err:unmodelled" {
					continue
				}
				if strings.HasPrefix(obs, "ok") {
					o.emit("(const sound)", fmt.Sprintf("long-binding-with-wrong-suffix-accepted:bound=%d,presented=%d", bi, pi))
				} else {
					o.emit("(const sound)", "sound")
				}
			}
		}
		// a binding NESTED in a wrapper is not examined by verification; it reaches clearing, where a binding caveat
		// refuses every request - so a discharge carrying one, or a permission token carrying one, authorises nothing,
		// with the node it names, its descendants, ancestors and siblings alike
		for k := 0; k < 4; k++ {
			bi, pi := r.Intn(len(hs)), r.Intn(len(hs))
			nodeM, _ := macaroon.Decode(hs[bi].bytes)
			nodeID := sha256.Sum256(nodeM.Tail)
			nb := macaroon.BindToParentToken(nodeID[:pick(r, []int{0, 1, 16, 16, 32})]) // (the empty binding matches every token - and still clears nothing)
			wrapped := &resset.IfPresent{Ifs: macaroon.NewCaveatSet(&nb), Else: resset.ActionAll}
			dq := r.Dyn()
			dq.WF = ""
			acc, sx := dq.As("full"), dq.Sx("full")
			var tokB []byte
			var dsB [][]byte
			if r.Bool() {
				_, d, err := macaroon.DischargeTicket(ka, "https://auth.example", it.tp.ticket)
				if err != nil || d.Add(wrapped) != nil {
					continue
				}
				tokB, dsB = hs[pi].bytes, with(mustEnc(d))
				o.count("nestedbinding.discharge")
			} else {
				pm, _ := macaroon.Decode(hs[pi].bytes)
				if pm.Add(wrapped) != nil {
					continue
				}
				tokB, dsB = mustEnc(pm), with(mkDis(nil, false))
				o.count("nestedbinding.permission")
			}
			co := clearObs(key, tokB, dsB, []macaroon.Access{acc})
			o.emit(fmt.Sprintf("(clear %s %s %s (trust) (%s))", hx(key), hx(tokB), sxHexList(dsB), sx), co)
			if co == "permit" {
				o.emit("(const sound)", "nested-binding-ignored")
			} else {
				o.emit("(const sound)", "sound")
			}
		}
		// binding to a PARSED parent object that is attenuated between two binds (BindToParentMacaroon): each bind
		// names the parent as it is at that moment
		for k := 0; k < 3; k++ {
			pi := r.Intn(len(hs))
			pm, err := macaroon.Decode(hs[pi].bytes)
			if err != nil {
				continue
			}
			_, d1, _ := macaroon.DischargeTicket(ka, "https://auth.example", it.tp.ticket)
			_, d2, _ := macaroon.DischargeTicket(ka, "https://auth.example", it.tp.ticket)
			if d1.BindToParentMacaroon(pm) != nil || pm.Add(r.plainCav(1)) != nil || d2.BindToParentMacaroon(pm) != nil {
				continue
			}
			child := mustEnc(pm)
			if bytes.Equal(child, hs[pi].bytes) {
				continue // the added caveat was already present: Add was a no-op, parent and child are the same token
			}
			o.count("bind.parsedParentMutated")
			for _, tc := range []struct {
				tok  []byte
				d    *macaroon.Macaroon
				want bool
				what string
			}{{hs[pi].bytes, d1, true, "first-bind/parent"}, {child, d1, true, "first-bind/child"},
				{child, d2, true, "second-bind/child"}, {hs[pi].bytes, d2, false, "second-bind/parent-before-add"}} {
				obs := emitVerify(o, key, tc.tok, with(mustEnc(tc.d)), nil)
				if obs == "err:unmodelled" {
					continue
				}
				if strings.HasPrefix(obs, "ok") != tc.want {
					o.emit("(const sound)", "parsed-parent-binding-wrong:"+tc.what)
				} else {
					o.emit("(const sound)", "sound")
				}
			}
		}
		// several bindings: all must hold
		for k := 0; k < 10; k++ {
			b1, b2 := r.Intn(len(hs)), r.Intn(len(hs))
			bogus := r.Chance(1, 4)
			d := mkDis([][]byte{hs[b1].bytes, hs[b2].bytes}, bogus)
			if d == nil {
				continue
			}
			pi := r.Intn(len(hs))
			obs := emitVerify(o, key, hs[pi].bytes, with(d), nil)
			if obs == "err:unmodelled" {
				continue
			}
			want := isDescendant(hs, pi, b1) && isDescendant(hs, pi, b2) && !bogus
			o.count("multi")
			if strings.HasPrefix(obs, "ok") != want {
				o.emit("(const sound)", fmt.Sprintf("multi-binding-wrong:%d,%d,bogus=%v,presented=%d", b1, b2, bogus, pi))
			} else {
				o.emit("(const sound)", "sound")
			}
		}
		// a token that carries a binding, presented as a permission token
		// (the binding Bind would write, or one written by hand: the empty one - a prefix of every id -, one byte,
		// a prefix of the token's own id, 32 bytes; alone or next to a discharge bound to that very token)
		for k := 0; k < 4; k++ {
			pm, _ := macaroon.Decode(hs[r.Intn(len(hs))].bytes)
			kind := "bind"
			if k == 0 {
				pm.BindToParentMacaroon(root)
			} else {
				ownID := sha256.Sum256(pm.Tail)
				ln := pick(r, []int{0, 0, 1, 16, 32})
				hb := macaroon.BindToParentToken(ownID[:ln])
				if r.Chance(1, 4) {
					hb = macaroon.BindToParentToken(r.Bytes(ln))
				}
				kind = fmt.Sprintf("hand.len%d", ln)
				if pm.Add(&hb) != nil {
					continue
				}
			}
			pmB := mustEnc(pm)
			ds := with(mkDis(nil, false))
			if r.Bool() {
				ds = with(mkDis([][]byte{pmB}, false))
				kind += ".boundDischarge"
			}
			o.count("boundPermission." + kind)
			obs := emitVerify(o, key, pmB, ds, nil)
			if obs == "err:unmodelled" {
				continue
			}
			if strings.HasPrefix(obs, "ok") {
				o.emit("(const sound)", "bound-permission-token-accepted:"+kind)
			} else {
				o.emit("(const sound)", "sound")
			}
		}
	}
}

// ---------------------------------------------------------------- C07 attest

func attestObs(key []byte, tok []byte, ds [][]byte, trusted map[string][]macaroon.EncryptionKey) string {
	return guard(func() string {
		m, err := macaroon.Decode(tok)
		if err != nil {
			return "err:decode"
		}
		cs, err := m.Verify(key, ds, trusted)
		if err != nil {
			return "err:" + verifyClass(err)
		}
		// everything typed lookup can find: the three attestation types, in GetCaveats order per type
		var found []macaroon.Caveat
		var walk func(cs []macaroon.Caveat)
		walk = func(cs []macaroon.Caveat) {
			for _, c := range cs {
				if macaroon.IsAttestation(c) {
					found = append(found, c)
				}
				if w, ok := c.(macaroon.WrapperCaveat); ok && w.Unwrap() != nil {
					walk(w.Unwrap().Caveats)
				}
			}
		}
		walk(cs.Caveats)
		// cross-check with the library's own typed lookup
		n := len(macaroon.GetCaveats[*auth.FlyioUserID](cs)) + len(macaroon.GetCaveats[*auth.GitHubUserID](cs)) + len(macaroon.GetCaveats[*auth.GoogleUserID](cs))
		if n != len(found) {
			return fmt.Sprintf("lookup-mismatch:%d,%d", n, len(found))
		}
		return "ok " + sxCavs(found)
	})
}

func famAttest(r *Rng, o *Out, tier string) {
	n := 40
	if tier == "thorough" {
		n = 600
	}
	tpLoc := "https://auth.example"
	for fam := 0; fam < n; fam++ {
		key := r.Bytes(32)
		kaTrusted := r.Bytes(32)
		kaAttacker := r.Bytes(32)
		loc := "https://api.fly.io/v1"
		uid := auth.FlyioUserID(1000 + uint64(fam))
		att := func() macaroon.Caveat { u := uid; return &u }
		wrap := func(c macaroon.Caveat, depth int) macaroon.Caveat {
			for i := 0; i < depth; i++ {
				c = &resset.IfPresent{Ifs: macaroon.NewCaveatSet(c), Else: resset.ActionAll}
			}
			return c
		}
		// wrappers whose inner set holds a CLEAN wrapper (or plain caveats) in front of the attestation / of the
		// wrapper that holds it: the scan for wrapped attestations must look at every sibling
		cleanW := func() macaroon.Caveat {
			return &resset.IfPresent{Ifs: macaroon.NewCaveatSet(&flyio.Apps{Apps: resset.ResourceSet[uint64, resset.Action]{7: resset.ActionRead}}), Else: resset.ActionAll}
		}
		wrapSib := func(c macaroon.Caveat, shape int) macaroon.Caveat {
			switch shape {
			case 0:
				return &resset.IfPresent{Ifs: macaroon.NewCaveatSet(cleanW(), c), Else: resset.ActionAll}
			case 1:
				return &resset.IfPresent{Ifs: macaroon.NewCaveatSet(cleanW(), wrap(c, 1)), Else: resset.ActionAll}
			case 2:
				return &resset.IfPresent{Ifs: macaroon.NewCaveatSet(&flyio.Organization{ID: 1, Mask: resset.ActionAll}, cleanW(), cleanW(), c), Else: resset.ActionAll}
			default:
				return &resset.IfPresent{Ifs: macaroon.NewCaveatSet(&resset.IfPresent{Ifs: macaroon.NewCaveatSet(cleanW(), c), Else: resset.ActionAll}), Else: resset.ActionAll}
			}
		}
		trustMaps := map[string]map[string][]macaroon.EncryptionKey{
			"nil":      nil,
			"empty":    {},
			"wrongloc": {"https://elsewhere": {kaTrusted}},
			"wrongkey": {tpLoc: {r.Bytes(32)}},
			"several":  {tpLoc: {r.Bytes(32), kaTrusted, r.Bytes(32)}},
			"right":    {tpLoc: {kaTrusted}},
			"shortkey": {tpLoc: {r.Bytes(7), kaTrusted}},
		}
		// the permission token with a 3P caveat for the trusted party
		tok, _ := macaroon.New(r.Bytes(8), loc, key)
		it, _ := newTP(kaTrusted, tpLoc)
		tok.Add(it.cav)
		final := mustEnc(tok)
		// a token whose 3P caveat is the attacker's own (own key, own location claim)
		tokA, _ := macaroon.New(r.Bytes(8), loc, key)
		itA, _ := newTP(kaAttacker, tpLoc)
		tokA.Add(itA.cav)
		finalA := mustEnc(tokA)

		type cas struct {
			name    string
			tok     []byte
			ds      [][]byte
			honest  bool // the attestation, if obtained, was placed by the trusted party or the verifier's own key
			trustOK func(tm string) bool
		}
		var cases []cas
		always := func(string) bool { return true }
		never := func(string) bool { return false }
		trusting := func(tm string) bool { return tm == "right" || tm == "several" || tm == "shortkey" }
		// 1. trusted third party attests in a proof discharge (top level, wrapped 1..3)
		for depth := 0; depth <= 3; depth++ {
			_, d, _ := macaroon.DischargeTicket(kaTrusted, tpLoc, it.tp.ticket)
			if depth == 0 {
				d.Add(att())
			} else {
				handAppend(d, wrap(att(), depth)) // Add refuses wrappers around attestations: the third party (or a thief of rn) MACs it by hand
			}
			ok := trusting
			if depth > 0 {
				ok = never
			}
			cases = append(cases, cas{fmt.Sprintf("trusted.proof.depth%d", depth), final, [][]byte{mustEnc(d)}, true, ok})
		}
		// 2. non-proof discharge by the right key carrying an attestation (bearer-built: Add refuses, so by hand)
		{
			d, _ := macaroon.New(it.tp.ticket, tpLoc, it.tp.rn)
			c := att()
			ce, _ := encOne(c)
			d.UnsafeCaveats.Caveats = append(d.UnsafeCaveats.Caveats, c)
			d.Tail = hmacSum(d.Tail, ce)
			cases = append(cases, cas{"nonproof.byhand", final, [][]byte{mustEnc(d)}, false, never})
			for depth := 1; depth <= 2; depth++ {
				d2, _ := macaroon.New(it.tp.ticket, tpLoc, it.tp.rn)
				handAppend(d2, wrap(att(), depth))
				cases = append(cases, cas{fmt.Sprintf("nonproof.wrapped%d", depth), final, [][]byte{mustEnc(d2)}, false, never})
			}
		}
		// 3. bearer adds to the permission token itself: plain (refused) and wrapped
		{
			t2, _ := macaroon.Decode(final)
			t2.Add(att())
			cases = append(cases, cas{"root.add.plain", mustEnc(t2), nil, false, never})
			t3, _ := macaroon.Decode(final)
			handAppend(t3, wrap(att(), 1))
			_, d, _ := macaroon.DischargeTicket(kaTrusted, tpLoc, it.tp.ticket)
			cases = append(cases, cas{"root.add.wrapped", mustEnc(t3), [][]byte{mustEnc(d)}, false, never})
			// by hand: append an attestation to a non-proof root and MAC it
			t4, _ := macaroon.Decode(final)
			c := att()
			ce, _ := encOne(c)
			t4.UnsafeCaveats.Caveats = append(t4.UnsafeCaveats.Caveats, c)
			t4.Tail = hmacSum(t4.Tail, ce)
			cases = append(cases, cas{"root.byhand", mustEnc(t4), [][]byte{mustEnc(d)}, false, never})
		}
		// 4. attacker's own third party naming the trusted location
		{
			_, d, _ := macaroon.DischargeTicket(kaAttacker, tpLoc, itA.tp.ticket)
			d.Add(att())
			cases = append(cases, cas{"attacker.own3p.spoofloc", finalA, [][]byte{mustEnc(d)}, false, never})
			// the same with the attestation wrapped (hand-appended to the attacker's own proof before it is finalised)
			for depth := 1; depth <= 2; depth++ {
				_, dw, _ := macaroon.DischargeTicket(kaAttacker, tpLoc, itA.tp.ticket)
				handAppend(dw, wrap(att(), depth))
				cases = append(cases, cas{fmt.Sprintf("attacker.own3p.wrapped%d", depth), finalA, [][]byte{mustEnc(dw)}, false, never})
			}
		}
		// 4b. the same three carriers (trusted proof, bearer-extended root, attacker's own third party) with the
		// attestation behind clean siblings
		for shape := 0; shape < 4; shape++ {
			_, d, _ := macaroon.DischargeTicket(kaTrusted, tpLoc, it.tp.ticket)
			handAppend(d, wrapSib(att(), shape))
			cases = append(cases, cas{fmt.Sprintf("trusted.proof.sibling%d", shape), final, [][]byte{mustEnc(d)}, true, never})
			t3, _ := macaroon.Decode(final)
			handAppend(t3, wrapSib(att(), shape))
			_, d0, _ := macaroon.DischargeTicket(kaTrusted, tpLoc, it.tp.ticket)
			cases = append(cases, cas{fmt.Sprintf("root.add.sibling%d", shape), mustEnc(t3), [][]byte{mustEnc(d0)}, false, never})
			_, dw, _ := macaroon.DischargeTicket(kaAttacker, tpLoc, itA.tp.ticket)
			handAppend(dw, wrapSib(att(), shape))
			cases = append(cases, cas{fmt.Sprintf("attacker.own3p.sibling%d", shape), finalA, [][]byte{mustEnc(dw)}, false, never})
		}
		// 5. attacker re-uses a copied trusted ticket as key-id but signs with an own secret
		{
			d, _ := macaroon.New(it.tp.ticket, tpLoc, r.Bytes(32))
			cases = append(cases, cas{"attacker.copiedticket", final, [][]byte{mustEnc(d)}, false, never})
		}
		// 6. a proof signed with the verifier's own key carrying an attestation (own-key proof)
		{
			// mint a proof under the verifier's key via a ticket sealed to that key
			own, _ := macaroon.NewCaveat3P(key, loc)
			rn, _ := ticketKey(key, own.Ticket)
			_, p, _ := macaroon.DischargeTicket(key, loc, own.Ticket)
			p.Add(att())
			cases = append(cases, cas{"ownkey.proof", mustEnc(p), nil, true, always})
			_ = rn
		}
		// 7. two third parties: the trusted one attests honestly (uid), the bearer appends an own third-party
		// caveat under an own key (own location, or naming the trusted location is impossible twice) and
		// discharges it with a proof carrying a forged identity (uid+500000): trust must not carry over
		for _, attackerFirst := range []bool{false, true} {
			t2, _ := macaroon.New(r.Bytes(8), loc, key)
			var itT, itX addItem
			if attackerFirst {
				itX, _ = newTP(kaAttacker, "https://attacker.example")
				t2.Add(itX.cav)
				itT, _ = newTP(kaTrusted, tpLoc)
				t2.Add(itT.cav)
			} else {
				itT, _ = newTP(kaTrusted, tpLoc)
				t2.Add(itT.cav)
				itX, _ = newTP(kaAttacker, "https://attacker.example")
				t2.Add(itX.cav)
			}
			_, dT, _ := macaroon.DischargeTicket(kaTrusted, tpLoc, itT.tp.ticket)
			dT.Add(att())
			_, dX, _ := macaroon.DischargeTicket(kaAttacker, "https://attacker.example", itX.tp.ticket)
			forged := auth.FlyioUserID(uint64(uid) + 500000)
			dX.Add(&forged)
			gh := auth.GitHubUserID(uint64(uid) + 500000)
			dX.Add(&gh)
			ds := [][]byte{mustEnc(dT), mustEnc(dX)}
			if r.Bool() {
				ds[0], ds[1] = ds[1], ds[0]
			}
			cases = append(cases, cas{fmt.Sprintf("two3p.attackerFirst=%v", attackerFirst), mustEnc(t2), ds, true, trusting})
		}
		// 8. the trusted party's ticket re-used NEXT TO the genuine caveat: the bearer appends a second third-party
		// caveat that copies the ticket bytes but whose VerifierKey seals a key the bearer knows (none), presents the
		// genuine discharge (own honest identity) AND a hand-signed proof with the same key-id carrying a forged
		// identity; whether a discharge is trusted depends on the caveat it discharges, not on the ticket alone
		for _, evilLoc := range []string{"https://attacker.example", tpLoc} {
			t2, _ := macaroon.New(r.Bytes(8), loc, key)
			itT, _ := newTP(kaTrusted, tpLoc)
			t2.Add(itT.cav)
			t2b, _ := macaroon.Decode(mustEnc(t2))
			if t2b.Add(&macaroon.Caveat3P{Location: evilLoc, Ticket: append([]byte{}, itT.tp.ticket...)}) != nil {
				continue // (a second caveat for the same location is refused by Add)
			}
			_, dT, _ := macaroon.DischargeTicket(kaTrusted, tpLoc, itT.tp.ticket)
			dT.Add(att())
			// a proof nonce for the same key-id: take a fresh genuine proof's nonce, sign by hand under the empty key
			_, shell, _ := macaroon.DischargeTicket(kaTrusted, tpLoc, itT.tp.ticket)
			d2, _ := macaroon.Decode(mustEnc(shell))
			d2.Location = pick(r, []string{tpLoc, evilLoc})
			forged := auth.FlyioUserID(uint64(uid) + 500000)
			fe, _ := encOne(&forged)
			d2.UnsafeCaveats.Caveats = []macaroon.Caveat{&forged}
			d2.Tail = finalizeSig(hmacSum(hmacSum(nil, d2.Nonce.MustEncode()), fe))
			ds := [][]byte{mustEnc(dT), mustEnc(d2)}
			if r.Bool() {
				ds[0], ds[1] = ds[1], ds[0]
			}
			cases = append(cases, cas{"copiedticket.nextToGenuine." + map[bool]string{true: "sameloc", false: "otherloc"}[evilLoc == tpLoc], mustEnc(t2b), ds, false, trusting})
			// (under a trusting map the genuine discharge's honest identity may surface - or the whole verification is
			// refused because the copied caveat's key does not match the ticket's, when the forged discharge names the
			// trusted location; the forged identity must never surface: that is the uid+500000 test below)
		}
		// 9. the trusted party hands out a CLONE of the proof it is still building (Clone before any Encode or String):
		// the clone is as final as an encoding - it verifies, its honest identity surfaces under a trusting map, and a
		// bearer who appends a forged identity by hand (MAC continued from the published tail, finalised again or not)
		// gets nothing
		{
			_, d, _ := macaroon.DischargeTicket(kaTrusted, tpLoc, it.tp.ticket)
			d.Add(att())
			if cl, err := d.Clone(); err == nil {
				issued := mustEnc(cl)
				cases = append(cases, cas{"trusted.proof.issuedClone", final, [][]byte{issued}, true, trusting})
				for _, refinal := range []bool{true, false} {
					dd, err := macaroon.Decode(issued)
					if err != nil {
						continue
					}
					forged := auth.FlyioUserID(uint64(uid) + 500000)
					fe, _ := encOne(&forged)
					dd.UnsafeCaveats.Caveats = append(dd.UnsafeCaveats.Caveats, &forged)
					dd.Tail = hmacSum(dd.Tail, fe)
					if refinal {
						dd.Tail = finalizeSig(dd.Tail)
					}
					cases = append(cases, cas{fmt.Sprintf("trusted.proof.issuedClone.extended.refinal=%v", refinal), final, [][]byte{mustEnc(dd)}, false, never})
				}
			}
		}
		// 10. a LEGACY discharge (two-field nonce: no proof flag, none signed) that the trusted party issued for the
		// ticket; the bearer appends a forged identity by hand, finalises the tail himself (the finalisation key is
		// public) and writes the token as a map naming the Nonce field twice - a three-field nonce claiming "proof"
		// and the genuine one, in either order. A token minted as a non-proof never yields an attestation.
		{
			legacy, err := macaroon.Decode(oldFormatToken(it.tp.rn, it.tp.ticket, r.Bytes(16), tpLoc))
			if err == nil {
				forged := auth.FlyioUserID(uint64(uid) + 500000)
				fe, _ := encOne(&forged)
				legacy.UnsafeCaveats.Caveats = append(legacy.UnsafeCaveats.Caveats, &forged)
				legacy.Tail = finalizeSig(hmacSum(legacy.Tail, fe))
				if tree, rest, perr := mpParse(mustEnc(legacy)); perr == nil && len(rest) == 0 && tree.Kind == mpArr && len(tree.Kids) == 4 && len(tree.Kids[0].Kids) >= 2 {
					nt := tree.Kids[0]
					claim := &mpNode{Kind: mpArr, Kids: []*mpNode{nt.Kids[0], nt.Kids[1], {Kind: mpBool, B: true}}}
					for oi, order := range [][2]*mpNode{{claim, nt}, {nt, claim}} {
						tokm := &mpNode{Kind: mpMap, Kids: []*mpNode{mpStrNode("Nonce"), order[0], mpStrNode("Nonce"), order[1],
							mpStrNode("Location"), tree.Kids[1], mpStrNode("UnsafeCaveats"), tree.Kids[2], mpStrNode("Tail"), tree.Kids[3]}}
						cases = append(cases, cas{fmt.Sprintf("legacy.dupnonce.order%d", oi), final, [][]byte{mpEnc(tokm)}, false, never})
					}
				}
			}
		}
		for _, c := range cases {
			tms := []string{"nil", "empty", "wrongloc", "wrongkey", "several", "right", "shortkey"}
			for _, tm := range tms {
				key2 := key
				if c.name == "ownkey.proof" {
					// verified under the discharge key of its own ticket
					own, _ := macaroon.Decode(c.tok)
					rn, ok := ticketKey(key, own.Nonce.KID)
					if !ok {
						continue
					}
					key2 = rn
				}
				obs := attestObs(key2, c.tok, c.ds, trustMaps[tm])
				o.emit(fmt.Sprintf("(attest %s %s %s %s)", hx(key2), hx(c.tok), sxHexList(c.ds), sxTrust(trustMaps[tm])), obs)
				got := strings.HasPrefix(obs, "ok ((")
				o.count("case." + c.name)
				if got {
					o.count("obtained")
				}
				switch {
				case strings.Contains(obs, fmt.Sprintf("%d", uint64(uid)+500000)):
					o.emit("(const sound)", "forged-attestation-obtained:"+c.name+":trust="+tm)
				case got && !c.trustOK(tm):
					o.emit("(const sound)", "attestation-obtained:"+c.name+":trust="+tm)
				case !got && c.honest && c.trustOK(tm):
					o.emit("(const sound)", "honest-attestation-lost:"+c.name+":trust="+tm+":"+strings.ReplaceAll(obs, " ", "_"))
				default:
					o.emit("(const sound)", "sound")
				}
			}
		}
		_ = flyio.LocationPermission
	}
}

// ---------------------------------------------------------------- C08 proof

func famProof(r *Rng, o *Out, tier string) {
	n := 600
	if tier == "thorough" {
		n = 6000
	}
	for i := 0; i < n; i++ {
		ka := r.Bytes(32)
		loc := "https://auth.example"
		c3, _ := macaroon.NewCaveat3P(ka, loc)
		rn, _ := ticketKey(ka, c3.Ticket)
		_, dm, err := macaroon.DischargeTicket(ka, loc, c3.Ticket)
		if err != nil {
			panic(err)
		}
		var ops, outs []string
		encoded := false
		var lastEnc []byte
		bound := false
		parentTok, _ := macaroon.New(r.Bytes(6), "https://api.fly.io/v1", r.Bytes(32))
		parentTok.Add(c3)
		parentBytes := mustEnc(parentTok)
		for s, ss := 0, 1+r.Intn(10); s < ss; s++ {
			switch r.Intn(8) {
			case 7:
				// binding adds a caveat too: refused once the proof is final (on the object and on decoded copies)
				target := dm
				onCopy := encoded && r.Bool()
				if onCopy {
					if cp, err := macaroon.Decode(mustEnc(dm)); err == nil {
						target = cp
					}
				}
				err := target.Bind(parentBytes)
				if onCopy {
					ops = append(ops, "(bindcopy "+hx(parentBytes)+")")
				} else {
					ops = append(ops, "(bind "+hx(parentBytes)+")")
				}
				if err != nil {
					outs = append(outs, "bind:"+addClass(err))
				} else {
					outs = append(outs, "bind:ok")
					if encoded {
						o.emit("(const sound)", "bind-accepted-after-encode")
					}
					if !onCopy {
						bound = true
					}
				}
				o.count(fmt.Sprintf("bind.encoded=%v.copy=%v", encoded, onCopy))
			case 6:
				// an Encode that FAILS (a caveat that stopped being serialisable after it was added): the proof is
				// finalised by that call all the same, exactly once - later encodings must not finalise again
				var uc *macaroon.UnregisteredCaveat
				for _, c := range dm.UnsafeCaveats.Caveats {
					if u, ok := c.(*macaroon.UnregisteredCaveat); ok {
						uc = u
					}
				}
				if uc == nil {
					continue
				}
				saved := uc.RawMsgpack
				uc.RawMsgpack = nil
				_, err := dm.Encode()
				uc.RawMsgpack = saved
				ops = append(ops, "encfail")
				if err != nil {
					outs = append(outs, "encfail:err")
				} else {
					outs = append(outs, "encfail:ok")
				}
				o.count("encfail")
				encoded = true
				lastEnc = nil
			case 0, 1:
				c := r.plainCav(1)
				if r.Chance(1, 4) {
					c = &macaroon.UnregisteredCaveat{Type: macaroon.CaveatType(1<<40 + uint64(r.Intn(3))), RawMsgpack: []byte{0xa1, byte('a' + r.Intn(3))}}
				}
				if r.Chance(1, 5) {
					u := auth.FlyioUserID(7)
					c = &u
				}
				err := dm.Add(c)
				ops = append(ops, "(add "+sxCav(c)+")")
				if err != nil {
					outs = append(outs, "add:"+addClass(err))
					if !encoded {
						o.count("add.err.before.encode")
					}
				} else {
					outs = append(outs, "add:ok")
					if encoded {
						o.emit("(const sound)", "add-accepted-after-encode")
					}
				}
			case 2:
				b, err := dm.Encode()
				ops = append(ops, "encode")
				if err != nil {
					outs = append(outs, "enc:err")
				} else {
					outs = append(outs, "enc:"+hx(b))
					if encoded && lastEnc != nil && !bytes.Equal(b, lastEnc) {
						o.emit("(const sound)", "encoded-form-changed")
					}
					lastEnc = b
				}
				encoded = true
			case 3:
				c, err := dm.Clone()
				ops = append(ops, "clone")
				if err != nil {
					outs = append(outs, "clone:err")
				} else {
					cb, _ := c.Encode()
					outs = append(outs, "clone:"+hx(cb))
					if encoded && lastEnc != nil && !bytes.Equal(cb, lastEnc) {
						o.emit("(const sound)", "clone-differs")
					}
					lastEnc = cb
				}
				encoded = true
			case 4:
				cs, err := dm.VerifyParsed(rn, nil, nil)
				ops = append(ops, "verify")
				if err != nil {
					outs = append(outs, "verify:"+verifyClass(err))
					if encoded && !bound { // (a bound proof does not verify on its own: it carries a binding caveat)
						o.emit("(const sound)", "finalised-proof-not-verifiable:"+verifyClass(err))
					}
				} else {
					outs = append(outs, "verify:ok"+sxCavs(cs.Caveats))
					if !encoded {
						o.emit("(const sound)", "unfinalised-proof-verified")
					}
				}
			default:
				c, err := dm.Clone()
				ops = append(ops, "cloneadd")
				if err != nil {
					outs = append(outs, "cloneadd:err")
				} else {
					a := resset.Action(1)
					if err := c.Add(&a); err != nil {
						outs = append(outs, "cloneadd:"+addClass(err))
					} else {
						outs = append(outs, "cloneadd:ok")
						o.emit("(const sound)", "decoded-proof-extended")
					}
					if !encoded {
						lastEnc = mustEnc(dm)
					}
				}
				encoded = true
			}
		}
		o.count(fmt.Sprintf("len.%d", len(ops)))
		o.emit(fmt.Sprintf("(proof.run %s %s %s %s %s (%s))", hx(ka), hs(loc), hx(c3.Ticket), hx(dm.Nonce.Rnd), hx(rn), strings.Join(ops, " ")), strings.Join(outs, " "))
		// hand-built extensions from the published form
		pub := mustEnc(dm)
		for k := 0; k < 9; k++ {
			dd, _ := macaroon.Decode(pub)
			// what is appended: a plain caveat, or one of the kinds verification treats specially (an attestation,
			// a wrapper around plain caveats or around an attestation, a binding, a third-party caveat)
			var c macaroon.Caveat = r.plainCav(0)
			switch k {
			case 4:
				u := auth.FlyioUserID(r.id())
				c = &u
			case 5:
				c = &resset.IfPresent{Ifs: macaroon.NewCaveatSet(r.plainCav(0)), Else: resset.ActionAll}
			case 6:
				u := auth.FlyioUserID(r.id())
				c = &resset.IfPresent{Ifs: macaroon.NewCaveatSet(&u), Else: resset.ActionAll}
			case 7:
				b := macaroon.BindToParentToken(r.Bytes(pick(r, []int{0, 16})))
				c = &b
			case 8:
				c = &macaroon.Caveat3P{Location: "https://deeper.example", VerifierKey: r.Bytes(72), Ticket: r.Bytes(40)}
			}
			o.count(fmt.Sprintf("handext.%T", c))
			ce, _ := encOne(c)
			dd.UnsafeCaveats.Caveats = append(dd.UnsafeCaveats.Caveats, c)
			t := hmacSum(dd.Tail, ce)
			dd.Tail = pick(r, [][]byte{t, finalizeSig(t), dd.Tail, sha(dd.Tail), finalizeSig(dd.Tail)})
			cand := mustEnc(dd)
			obs := emitVerify(o, rn, cand, nil, nil)
			if obs == "err:unmodelled" {
				continue
			}
			if strings.HasPrefix(obs, "ok") {
				o.emit("(const sound)", "hand-extended-proof-accepted")
			} else {
				o.emit("(const sound)", "sound")
			}
		}
	}
}

// ---------------------------------------------------------------- C02 attenuate

func famAttenuate(r *Rng, o *Out, tier string) {
	n := 120
	if tier == "thorough" {
		n = 2000
	}
	for fam := 0; fam < n; fam++ {
		key := r.Bytes(32)
		ka := r.Bytes(32)
		loc := "https://api.fly.io/v1"
		root, _ := macaroon.New(r.Bytes(8), loc, key)
		root.Add(&flyio.Organization{ID: 1, Mask: resset.ActionAll})
		var ds [][]byte
		if r.Bool() {
			it, _ := newTP(ka, "https://auth.example")
			root.Add(it.cav)
			_, d, _ := macaroon.DischargeTicket(ka, "https://auth.example", it.tp.ticket)
			if r.Bool() {
				d.Add(r.clearCav())
			}
			ds = append(ds, mustEnc(d)) // unbound: usable with parent and child
		}
		hs := growTreeWith(r, root, 3, 2, func() macaroon.Caveat { return r.clearCav() })
		for ci := range hs {
			pi := hs[ci].parent
			if pi < 0 {
				continue
			}
			for q := 0; q < 6; q++ {
				d := r.Dyn()
				d.WF = ""
				d.Org = p64(1)
				kind := "full"
				acc := d.As(kind)
				sx := d.Sx(kind)
				co := clearObs(key, hs[ci].bytes, ds, []macaroon.Access{acc})
				po := clearObs(key, hs[pi].bytes, ds, []macaroon.Access{acc})
				o.emit(fmt.Sprintf("(clear %s %s %s (trust) (%s))", hx(key), hx(hs[ci].bytes), sxHexList(ds), sx), co)
				o.emit(fmt.Sprintf("(clear %s %s %s (trust) (%s))", hx(key), hx(hs[pi].bytes), sxHexList(ds), sx), po)
				o.count("child." + co)
				if co == "permit" && po != "permit" {
					o.emit("(const sound)", "attenuation-enlarged-authority")
				} else {
					o.emit("(const sound)", "sound")
				}
			}
		}
		// an added caveat is enforced; a byte-identical re-add leaves the token unchanged
		for k := 0; k < 4; k++ {
			h := hs[r.Intn(len(hs))]
			m, _ := macaroon.Decode(h.bytes)
			c := r.clearCav()
			before := mustEnc(m)
			doAdd(o, m, []addItem{{cav: c}})
			after := mustEnc(m)
			m2, _ := macaroon.Decode(after)
			doAdd(o, m2, []addItem{{cav: c}})
			if !bytes.Equal(mustEnc(m2), after) {
				o.emit("(const sound)", "readd-changed-token")
			} else {
				o.emit("(const sound)", "sound")
			}
			// near-duplicate: differs in one field -> must be kept
			if org, ok := c.(*flyio.Organization); ok {
				c2 := &flyio.Organization{ID: org.ID, Mask: org.Mask ^ 1}
				m3, _ := macaroon.Decode(after)
				doAdd(o, m3, []addItem{{cav: c2}})
				c2e, _ := encOne(c2)
				present := false
				if _, cs, ok := tokParts(after); ok {
					for _, e := range cs {
						present = present || bytes.Equal(e, c2e)
					}
				}
				if bytes.Equal(mustEnc(m3), after) && !present {
					o.emit("(const sound)", "near-duplicate-dropped")
				} else {
					o.emit("(const sound)", "sound")
				}
			}
			// caveats of DIFFERENT types whose bodies encode to the same bytes are different caveats:
			// adding the second must not be taken for a re-add of the first
			{
				n := pick(r, smallIDs) + 5
				set := resset.ResourceSet[string, resset.Action]{pick(r, smallStrs): r.mask()}
				gh, mv := auth.ConfineGitHubOrg(n), auth.MaxValidity(n)
				act, roles := resset.Action(n), flyio.AllowedRoles(n)
				pairs := [][2]macaroon.Caveat{
					{&auth.ConfineUser{ID: n}, &flyio.IsUser{ID: n}},
					{&auth.ConfineOrganization{ID: n}, &auth.ConfineUser{ID: n}},
					{&flyio.Machines{Machines: set}, &flyio.Volumes{Volumes: set}},
					{&flyio.FeatureSet{Features: set}, &flyio.MachineFeatureSet{Features: set}},
					{&gh, &mv},
					{&act, &roles},
				}
				pr := pick(r, pairs)
				if r.Bool() {
					pr[0], pr[1] = pr[1], pr[0]
				}
				m4, _ := macaroon.Decode(after)
				doAdd(o, m4, []addItem{{cav: pr[0]}})
				n1 := len(m4.UnsafeCaveats.Caveats)
				mid := mustEnc(m4)
				m5, _ := macaroon.Decode(mid)
				doAdd(o, m5, []addItem{{cav: pr[1]}})
				e1, _ := encOne(pr[1])
				already := false
				if _, cs, ok := tokParts(mid); ok {
					for _, e := range cs {
						already = already || bytes.Equal(e, e1)
					}
				}
				o.count("samebody.pair")
				if len(m5.UnsafeCaveats.Caveats) == n1 && !already {
					o.emit("(const sound)", fmt.Sprintf("attenuation-silently-lost:%T-after-%T", pr[1], pr[0]))
				} else {
					o.emit("(const sound)", "sound")
				}
			}
			// requests the new caveat prohibits are prohibited by the resulting token
			for q := 0; q < 4; q++ {
				d := r.Dyn()
				d.WF = ""
				acc := d.As("full")
				if c.Prohibits(acc) != nil && !bytes.Equal(before, after) {
					co := clearObs(key, after, ds, []macaroon.Access{acc})
					o.emit(fmt.Sprintf("(clear %s %s %s (trust) (%s))", hx(key), hx(after), sxHexList(ds), d.Sx("full")), co)
					if co == "permit" {
						o.emit("(const sound)", "added-caveat-not-enforced")
					} else {
						o.emit("(const sound)", "sound")
					}
				}
			}
		}
	}
}

// clearCav: caveats that can clear some requests of the harness (so permit/deny both occur)
func (r *Rng) clearCav() macaroon.Caveat {
	switch r.Intn(6) {
	case 0:
		return &flyio.Organization{ID: pick(r, []uint64{0, 1, 1, 2}), Mask: r.mask()}
	case 1:
		return &flyio.Apps{Apps: resset.ResourceSet[uint64, resset.Action]{pick(r, smallIDs): r.mask()}}
	case 2:
		a := r.mask()
		return &a
	case 3:
		return &macaroon.ValidityWindow{NotBefore: baseNow - 5, NotAfter: baseNow + int64(r.Intn(10)) - 3}
	case 4:
		return &resset.IfPresent{Ifs: macaroon.NewCaveatSet(&flyio.Apps{Apps: resset.ResourceSet[uint64, resset.Action]{pick(r, smallIDs): r.mask()}}), Else: r.mask()}
	default:
		return r.plainCav(1)
	}
}

func growTreeWith(r *Rng, root *macaroon.Macaroon, depth, fan int, gen func() macaroon.Caveat) []honest {
	rb := mustEnc(root)
	n, cs, _ := tokParts(rb)
	out := []honest{{rb, n, cs, -1}}
	frontier := []int{0}
	for d := 0; d < depth; d++ {
		var next []int
		for _, pi := range frontier {
			for f, ff := 0, 1+r.Intn(fan); f < ff; f++ {
				m, err := macaroon.Decode(out[pi].bytes)
				if err != nil {
					continue
				}
				if m.Add(gen()) != nil {
					continue
				}
				b := mustEnc(m)
				nn, cc, _ := tokParts(b)
				out = append(out, honest{b, nn, cc, pi})
				next = append(next, len(out)-1)
			}
		}
		frontier = next
	}
	return out
}
