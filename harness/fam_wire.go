package main

// Family wire (C11, basis of C05/C12): canonical encoding (bytes equal to the model's, independent of
// map insertion order), decoding of canonical and of loosened (non-canonical but accepted) encodings,
// re-encoding to the canonical bytes, unknown-type pass-through, token and nonce codecs.

import (
	"bytes"
	"encoding/hex"
	"fmt"
	"math/big"
	"reflect"
	"strings"

	"github.com/superfly/macaroon"
	"github.com/superfly/macaroon/auth"
	"github.com/superfly/macaroon/flyio"
	"github.com/superfly/macaroon/resset"
)

func init() { families["wire"] = famWire }

func hexb(b []byte) string { return "x" + hex.EncodeToString(b) }

// wide-valued generators (boundary integers, arbitrary byte strings, nil vs empty, larger maps)
func (r *Rng) wU64() uint64 {
	if r.Chance(1, 4) {
		return r.U64() >> uint(r.Intn(64))
	}
	return pick(r, boundaryU64)
}
func (r *Rng) wStr() string {
	switch r.Intn(8) {
	case 0:
		return ""
	case 1:
		return string(r.Bytes(31 + r.Intn(3)))
	case 2:
		return string(r.Bytes(255 + r.Intn(3)))
	case 3:
		return string(r.Bytes(r.Intn(8)))
	default:
		return pick(r, smallStrs)
	}
}
func (r *Rng) wMask() resset.Action {
	return resset.Action(pick(r, []uint64{0, 1, 31, 127, 128, 255, 256, 65535, r.U64()}))
}
func (r *Rng) wStrSet() resset.ResourceSet[string, resset.Action] {
	n := pick(r, []int{0, 1, 2, 3, 5, 15, 16, 17})
	m := resset.ResourceSet[string, resset.Action]{}
	for i := 0; i < n; i++ {
		m[r.wStr()+fmt.Sprint(i%3)] = r.wMask()
	}
	return m
}
func (r *Rng) wI64() int64 {
	return pick(r, []int64{0, 1, -1, -32, -33, -128, -129, -32768, -32769, -2147483648, -2147483649, -1 << 63, 1<<63 - 1, 127, 128, 1 << 31, 1 << 32, int64(r.U64())})
}

func (r *Rng) WireCav(depth int) macaroon.Caveat {
	switch k := r.Intn(nCavKinds); k {
	case 0:
		return &flyio.Organization{ID: r.wU64(), Mask: r.wMask()}
	case 1:
		n := pick(r, []int{0, 1, 2, 3, 16, 17})
		m := resset.ResourceSet[uint64, resset.Action]{}
		for i := 0; i < n; i++ {
			m[r.wU64()+uint64(i)] = r.wMask()
		}
		return &flyio.Apps{Apps: m}
	case 2:
		return &flyio.Volumes{Volumes: r.wStrSet()}
	case 3:
		return &flyio.Machines{Machines: r.wStrSet()}
	case 4:
		return &flyio.FeatureSet{Features: r.wStrSet()}
	case 5:
		return &flyio.MachineFeatureSet{Features: r.wStrSet()}
	case 6:
		return &flyio.AppFeatureSet{Features: r.wStrSet()}
	case 7:
		return &flyio.Clusters{Clusters: r.wStrSet()}
	case 8:
		m := resset.ResourceSet[resset.Prefix, resset.Action]{}
		for k, v := range r.wStrSet() {
			m[resset.Prefix(k)] = v
		}
		return &flyio.StorageObjects{Prefixes: m}
	case 9:
		return &macaroon.ValidityWindow{NotBefore: r.wI64(), NotAfter: r.wI64()}
	case 10:
		switch r.Intn(3) {
		case 0:
			return &flyio.Mutations{}
		case 1:
			return &flyio.Mutations{Mutations: []string{}}
		}
		n := pick(r, []int{1, 2, 16})
		ms := make([]string, n)
		for i := range ms {
			ms[i] = r.wStr()
		}
		return &flyio.Mutations{Mutations: ms}
	case 11:
		return &auth.ConfineUser{ID: r.wU64()}
	case 12:
		return &auth.ConfineOrganization{ID: r.wU64()}
	case 13:
		return &flyio.IsUser{ID: r.wU64()}
	case 14:
		return &macaroon.Caveat3P{Location: r.wStr(), VerifierKey: r.Bytes(pick(r, []int{0, 1, 60, 255, 256})), Ticket: r.Bytes(pick(r, []int{0, 1, 100, 300}))}
	case 15:
		b := macaroon.BindToParentToken(r.Bytes(pick(r, []int{0, 1, 16, 32})))
		return &b
	case 16:
		if depth <= 0 {
			a := r.wMask()
			return &a
		}
		n := pick(r, []int{0, 1, 2, 3, 8})
		cs := make([]macaroon.Caveat, n)
		for i := range cs {
			cs[i] = r.WireCav(depth - 1)
		}
		return &resset.IfPresent{Ifs: macaroon.NewCaveatSet(cs...), Else: r.wMask()}
	case 17:
		return &flyio.FromMachine{ID: r.wStr()}
	case 18:
		h := auth.ConfineGoogleHD(r.wStr())
		return &h
	case 19:
		o := auth.ConfineGitHubOrg(r.wU64())
		return &o
	case 20:
		v := auth.MaxValidity(r.wU64())
		return &v
	case 21:
		return &flyio.IsMember{}
	case 22:
		u := auth.FlyioUserID(r.wU64())
		return &u
	case 23:
		u := auth.GitHubUserID(r.wU64())
		return &u
	case 24:
		u := auth.GoogleUserID(*new(big.Int).SetBytes(r.Bytes(pick(r, []int{0, 1, 8, 9, 21}))))
		return &u
	case 25:
		a := r.wMask()
		return &a
	case 26:
		switch r.Intn(4) {
		case 0:
			var c flyio.Commands
			return &c
		case 1:
			c := flyio.Commands{}
			return &c
		}
		n := 1 + r.Intn(3)
		cs := make(flyio.Commands, n)
		for i := range cs {
			switch r.Intn(3) {
			case 0:
				cs[i] = flyio.Command{Exact: r.Bool()}
			case 1:
				cs[i] = flyio.Command{Args: []string{}, Exact: r.Bool()}
			default:
				args := make([]string, 1+r.Intn(3))
				for j := range args {
					args[j] = r.wStr()
				}
				cs[i] = flyio.Command{Args: args, Exact: r.Bool()}
			}
		}
		return &cs
	case 27:
		ar := flyio.AllowedRoles(uint32(r.wU64()))
		return &ar
	case 28:
		return &flyio.FlySrc{Organization: r.wStr(), App: r.wStr(), Instance: r.wStr()}
	default:
		typ := pick(r, []uint64{1, 17, 18, 32, 127, 128, 1000, 1 << 16, 1 << 32, 1 << 48, 1<<64 - 2, 1<<64 - 1})
		body := mpEnc(r.mpTree(2, false))
		return &macaroon.UnregisteredCaveat{Type: macaroon.CaveatType(typ), RawMsgpack: body}
	}
}

// mpTree: an arbitrary well-formed msgpack value; hostile=false keeps map keys hashable and avoids
// extension types the generic decoder does not know.
func (r *Rng) mpTree(depth int, hostile bool) *mpNode {
	k := r.Intn(10)
	if depth <= 0 && k >= 6 {
		k = r.Intn(6)
	}
	switch k {
	case 0:
		return &mpNode{Kind: mpNil}
	case 1:
		return &mpNode{Kind: mpBool, B: r.Bool()}
	case 2:
		u := r.wU64()
		n := &mpNode{Kind: mpInt, U: u, I: int64(u)}
		if r.Chance(1, 3) {
			n.Code = pick(r, []byte{0xcf, 0xce, 0xcd, 0xcc})
			switch n.Code {
			case 0xce:
				n.U &= 0xffffffff
			case 0xcd:
				n.U &= 0xffff
			case 0xcc:
				n.U &= 0xff
			}
		}
		return n
	case 3:
		i := r.wI64()
		if i >= 0 {
			i = -i - 1
		}
		return &mpNode{Kind: mpInt, Neg: true, I: i, U: uint64(i)}
	case 4:
		return &mpNode{Kind: mpStr, S: []byte(r.wStr())}
	case 5:
		switch r.Intn(4) {
		case 0:
			return &mpNode{Kind: mpRaw, Raw: append([]byte{0xca}, r.Bytes(4)...)}
		case 1:
			return &mpNode{Kind: mpRaw, Raw: append([]byte{0xcb}, r.Bytes(8)...)}
		case 2:
			return &mpNode{Kind: mpRaw, Raw: append([]byte{0xd6, 0xff}, r.Bytes(4)...)} // timestamp 32
		default:
			return &mpNode{Kind: mpBin, S: r.Bytes(r.Intn(5))}
		}
	case 6, 7:
		n := &mpNode{Kind: mpArr}
		for i, m := 0, r.Intn(4); i < m; i++ {
			n.Kids = append(n.Kids, r.mpTree(depth-1, hostile))
		}
		return n
	default:
		n := &mpNode{Kind: mpMap}
		for i, m := 0, r.Intn(3); i < m; i++ {
			var key *mpNode
			if hostile && r.Chance(1, 2) {
				key = r.mpTree(depth-1, hostile)
			} else {
				switch r.Intn(3) {
				case 0:
					key = &mpNode{Kind: mpStr, S: []byte(r.wStr())}
				case 1:
					u := r.wU64()
					key = &mpNode{Kind: mpInt, U: u, I: int64(u)}
				default:
					key = &mpNode{Kind: mpBool, B: r.Bool()}
				}
			}
			n.Kids = append(n.Kids, key, r.mpTree(depth-1, hostile))
		}
		return n
	}
}

// rebuild: the same caveat value with its maps re-built in a fresh random insertion order
func (r *Rng) rebuild(c macaroon.Caveat) macaroon.Caveat {
	shuf := func(m resset.ResourceSet[string, resset.Action]) resset.ResourceSet[string, resset.Action] {
		keys := make([]string, 0, len(m))
		for k := range m {
			keys = append(keys, k)
		}
		for i := len(keys) - 1; i > 0; i-- {
			j := r.Intn(i + 1)
			keys[i], keys[j] = keys[j], keys[i]
		}
		out := resset.ResourceSet[string, resset.Action]{}
		for _, k := range keys {
			out[k] = m[k]
		}
		return out
	}
	switch v := c.(type) {
	case *flyio.Volumes:
		return &flyio.Volumes{Volumes: shuf(v.Volumes)}
	case *flyio.Machines:
		return &flyio.Machines{Machines: shuf(v.Machines)}
	case *flyio.FeatureSet:
		return &flyio.FeatureSet{Features: shuf(v.Features)}
	case *flyio.Clusters:
		return &flyio.Clusters{Clusters: shuf(v.Clusters)}
	case *flyio.Apps:
		out := resset.ResourceSet[uint64, resset.Action]{}
		keys := make([]uint64, 0, len(v.Apps))
		for k := range v.Apps {
			keys = append(keys, k)
		}
		for i := len(keys) - 1; i > 0; i-- {
			j := r.Intn(i + 1)
			keys[i], keys[j] = keys[j], keys[i]
		}
		for _, k := range keys {
			out[k] = v.Apps[k]
		}
		return &flyio.Apps{Apps: out}
	}
	return c
}

func encOne(c macaroon.Caveat) ([]byte, error) { return macaroon.NewCaveatSet(c).MarshalMsgpack() }

func decCavsObs(b []byte) string {
	return guard(func() string {
		cs, err := macaroon.DecodeCaveats(b)
		if err != nil {
			return "err"
		}
		return "ok " + sxCavs(cs.Caveats)
	})
}

func reencObs(b []byte) string {
	return guard(func() string {
		cs, err := macaroon.DecodeCaveats(b)
		if err != nil {
			return "err"
		}
		out, err := cs.MarshalMsgpack()
		if err != nil {
			return "err-encode"
		}
		return "ok " + hexb(out)
	})
}

// structToMap: rewrite the body of a struct-typed caveat from array form to map form (Go field names),
// shuffled, with an unknown key added
func structToMap(r *Rng, c macaroon.Caveat, body *mpNode) *mpNode {
	t := reflect.TypeOf(c)
	if t.Kind() != reflect.Pointer || t.Elem().Kind() != reflect.Struct || body.Kind != mpArr {
		return body
	}
	var names []string
	for i := 0; i < t.Elem().NumField(); i++ {
		f := t.Elem().Field(i)
		if f.IsExported() {
			names = append(names, f.Name)
		}
	}
	if len(names) != len(body.Kids) || len(names) == 0 {
		return body
	}
	idx := make([]int, len(names))
	for i := range idx {
		idx[i] = i
	}
	for i := len(idx) - 1; i > 0; i-- {
		j := r.Intn(i + 1)
		idx[i], idx[j] = idx[j], idx[i]
	}
	m := &mpNode{Kind: mpMap}
	if r.Bool() {
		m.Kids = append(m.Kids, mpStrNode("Unknown"), &mpNode{Kind: mpArr, Kids: []*mpNode{{Kind: mpNil}}})
	}
	for _, i := range idx {
		m.Kids = append(m.Kids, mpStrNode(names[i]), body.Kids[i])
	}
	return m
}

func sxNonce(n macaroon.Nonce) string {
	ver := 0
	if n.MustEncode()[0] == 0x93 {
		ver = 1
	}
	p := 0
	if n.Proof {
		p = 1
	}
	return fmt.Sprintf("(nonce %s %s %d %d)", hx(n.KID), hx(n.Rnd), ver, p)
}

func sxMac(m *macaroon.Macaroon) string {
	return fmt.Sprintf("(mac %s %s %s %s)", sxNonce(m.Nonce), hs(m.Location), sxCavs(m.UnsafeCaveats.Caveats), hx(m.Tail))
}

func decMacObs(b []byte) string {
	return guard(func() string {
		m, err := macaroon.Decode(b)
		if err != nil {
			return "err"
		}
		return "ok " + sxMac(m)
	})
}

func famWire(r *Rng, o *Out, tier string) {
	n := 2500
	if tier == "thorough" {
		n = 60000
	}
	for i := 0; i < n; i++ {
		c := r.WireCav(3)
		o.count(fmt.Sprintf("cav.%T", c))
		b, err := encOne(c)
		if err != nil {
			o.count("enc.err")
			continue
		}
		// determinism: re-encode from maps rebuilt in fresh insertion orders
		det := "x" + hex.EncodeToString(b)
		for k := 0; k < 4; k++ {
			b2, _ := encOne(r.rebuild(c))
			if string(b2) != string(b) {
				det = "nondeterministic"
			}
		}
		o.emit("(enc.cav "+sxCav(c)+")", det)
		o.emit("(dec.cavs "+hexb(b)+")", decCavsObs(b))
		// loosened re-encoding of the same value
		tree, rest, perr := mpParse(b)
		if perr != nil || len(rest) != 0 {
			o.count("mpparse.fail")
			continue
		}
		if r.Chance(1, 3) && len(tree.Kids) == 2 {
			tree.Kids[1] = structToMap(r, c, tree.Kids[1])
			o.count("loosen.structmap")
		}
		if _, isUnreg := c.(*macaroon.UnregisteredCaveat); isUnreg {
			mpLoosen(r, tree.Kids[0]) // only the type number: the body passes through verbatim
		} else {
			mpLoosen(r, tree)
		}
		nb := mpEnc(tree)
		if string(nb) != string(b) {
			o.count("loosen.changed")
		}
		o.emit("(dec.cavs "+hexb(nb)+")", decCavsObs(nb))
		o.emit("(reenc.cavs "+hexb(nb)+")", reencObs(nb))
	}
	// whole caveat sets and tokens
	for i := 0; i < n/5; i++ {
		m := r.Intn(5)
		if i%400 == 7 {
			m = []int{1025, 1300, 1024, 1023}[(i/400)%4] // around and beyond the decoder's pre-allocation bound
			o.count("cavs.long")
		}
		cs := make([]macaroon.Caveat, m)
		for j := range cs {
			if m > 100 {
				cs[j] = &macaroon.ValidityWindow{NotBefore: int64(j), NotAfter: int64(j) + 5}
				continue
			}
			cs[j] = r.WireCav(2)
		}
		b, err := macaroon.NewCaveatSet(cs...).MarshalMsgpack()
		if err != nil {
			continue
		}
		o.emit("(enc.cavs "+sxCavs(cs)+")", hexb(b))
		o.emit("(dec.cavs "+hexb(b)+")", decCavsObs(b))
		// "encoding a token is deterministic": a freshly issued proof and a clone of it taken before its first
		// encoding are the same token and encode to the same bytes, which verify (every sixth round)
		if i%6 == 0 {
			ka := r.Bytes(32)
			if c3, err := macaroon.NewCaveat3P(ka, "https://wire.example"); err == nil {
				if rn, ok := ticketKey(ka, c3.Ticket); ok {
					if _, dm, err := macaroon.DischargeTicket(ka, "https://wire.example", c3.Ticket); err == nil {
						var ops, outs []string
						for k, kk := 0, r.Intn(4); k < kk; k++ {
							c := r.plainCav(2) // (values that survive a hop: Clone is an encode and a decode)
							ops = append(ops, "(add "+sxCav(c)+")")
							if err := dm.Add(c); err != nil {
								outs = append(outs, "add:"+addClass(err))
							} else {
								outs = append(outs, "add:ok")
							}
						}
						ops = append(ops, "clone")
						if cl, err := dm.Clone(); err != nil {
							outs = append(outs, "clone:err")
						} else if cb, err := cl.Encode(); err != nil {
							outs = append(outs, "clone:err")
						} else {
							outs = append(outs, "clone:"+hx(cb))
						}
						ops = append(ops, "encode")
						if eb, err := dm.Encode(); err != nil {
							outs = append(outs, "enc:err")
						} else {
							outs = append(outs, "enc:"+hx(eb))
						}
						o.count("proof.cloneThenEncode")
						o.emit(fmt.Sprintf("(proof.run %s %s %s %s %s (%s))", hx(ka), hs("https://wire.example"), hx(c3.Ticket), hx(dm.Nonce.Rnd), hx(rn), strings.Join(ops, " ")), strings.Join(outs, " "))
					}
				}
			}
		}
		// a token carrying them, minted by the library (attestations are refused on non-proofs: skip those)
		key := macaroon.NewSigningKey()
		tok, err := macaroon.New(r.Bytes(pick(r, []int{0, 1, 16, 40})), r.wStr(), key)
		if err != nil {
			continue
		}
		ok := true
		for _, c := range cs {
			if macaroon.IsAttestation(c) {
				ok = false
			}
		}
		if !ok || tok.Add(cs...) != nil {
			o.count("token.skipped")
			continue
		}
		tb, err := tok.Encode()
		if err != nil {
			continue
		}
		o.count("token")
		o.emit("(dec.mac "+hexb(tb)+")", decMacObs(tb))
		o.emit("(reenc.mac "+hexb(tb)+")", guard(func() string {
			mm, err := macaroon.Decode(tb)
			if err != nil {
				return "err"
			}
			out, err := mm.Encode()
			if err != nil {
				return "err-encode"
			}
			return "ok " + hexb(out)
		}))
		tree, _, perr := mpParse(tb)
		if perr == nil {
			mpLoosen(r, tree.Kids[0])
			mpLoosen(r, tree.Kids[1])
			mpLoosen(r, tree.Kids[3])
			if r.Chance(1, 3) {
				m := &mpNode{Kind: mpMap, Kids: []*mpNode{mpStrNode("Tail"), tree.Kids[3], mpStrNode("Nonce"), tree.Kids[0],
					mpStrNode("junk"), {Kind: mpNil}, mpStrNode("UnsafeCaveats"), tree.Kids[2], mpStrNode("Location"), tree.Kids[1]}}
				tree = m
			}
			nb := mpEnc(tree)
			o.emit("(dec.mac "+hexb(nb)+")", decMacObs(nb))
			o.emit("(reenc.mac "+hexb(nb)+")", guard(func() string {
				mm, err := macaroon.Decode(nb)
				if err != nil {
					return "err"
				}
				out, err := mm.Encode()
				if err != nil {
					return "err-encode"
				}
				return "ok " + hexb(out)
			}))
		}
	}
	// nonces: both versions
	for i := 0; i < 200; i++ {
		kid, rnd := r.Bytes(pick(r, []int{0, 1, 16, 300})), r.Bytes(pick(r, []int{0, 16}))
		var raw []byte
		if r.Bool() {
			raw = mpEnc(&mpNode{Kind: mpArr, Kids: []*mpNode{{Kind: mpBin, S: kid}, {Kind: mpBin, S: rnd}}})
		} else {
			raw = mpEnc(&mpNode{Kind: mpArr, Kids: []*mpNode{{Kind: mpBin, S: kid}, {Kind: mpBin, S: rnd}, {Kind: mpBool, B: r.Bool()}}})
		}
		tokb := append([]byte{0x94}, raw...)
		tokb = append(tokb, mpEnc(mpStrNode("loc"))...)
		tokb = append(tokb, 0x90)
		tokb = append(tokb, mpEnc(&mpNode{Kind: mpBin, S: r.Bytes(32)})...)
		o.count("nonce")
		o.emit("(dec.mac "+hexb(tokb)+")", decMacObs(tokb))
		o.emit("(reenc.mac "+hexb(tokb)+")", guard(func() string {
			mm, err := macaroon.Decode(tokb)
			if err != nil {
				return "err"
			}
			out, _ := mm.Encode()
			return "ok " + hexb(out)
		}))
	}
	// accepted non-canonical TOKENS, judged without the model (struct fields named twice are outside its wire
	// domain): a token written as a map, with one field given twice (another value first or last). Whatever the
	// decoder makes of it, the decoded token is a fixed point of encode/decode - same nonce (key-id, random part,
	// version, proof flag), location, caveats, tail - and verification of the accepted bytes and of their canonical
	// re-encoding agree: both refused, or both accepted with the same caveats.
	for i := 0; i < n/10; i++ {
		key := r.Bytes(32)
		var m *macaroon.Macaroon
		proofTok := r.Chance(1, 3)
		if proofTok {
			c3, err := macaroon.NewCaveat3P(key, "https://wire.example")
			if err != nil {
				continue
			}
			rn, ok := ticketKey(key, c3.Ticket)
			if !ok {
				continue
			}
			_, dm, err := macaroon.DischargeTicket(key, "https://wire.example", c3.Ticket)
			if err != nil {
				continue
			}
			m, key = dm, rn
		} else {
			m, _ = macaroon.New(r.Bytes(pick(r, []int{0, 1, 8})), "https://wire.example", key)
		}
		for k, kk := 0, r.Intn(3); k < kk; k++ {
			m.Add(r.plainCav(1))
		}
		b, err := m.Encode()
		if err != nil {
			continue
		}
		tree, rest, perr := mpParse(b)
		if perr != nil || len(rest) != 0 || tree.Kind != mpArr || len(tree.Kids) != 4 {
			continue
		}
		nt, lt, ct, tt := tree.Kids[0], tree.Kids[1], tree.Kids[2], tree.Kids[3]
		if nt.Kind != mpArr || len(nt.Kids) < 2 {
			continue
		}
		kidN, rndN := nt.Kids[0], nt.Kids[1]
		type alt struct {
			field string
			node  *mpNode
		}
		alts := []alt{
			{"Nonce", &mpNode{Kind: mpArr, Kids: []*mpNode{kidN, rndN, {Kind: mpBool, B: true}}}},
			{"Nonce", &mpNode{Kind: mpArr, Kids: []*mpNode{kidN, rndN, {Kind: mpBool, B: false}}}},
			{"Nonce", &mpNode{Kind: mpArr, Kids: []*mpNode{kidN, rndN}}},
			{"Location", mpStrNode("https://elsewhere.example")},
			{"Tail", &mpNode{Kind: mpBin, S: r.Bytes(32)}},
			{"Tail", &mpNode{Kind: mpBin, S: finalizeSig(m.Tail)}},
			{"UnsafeCaveats", &mpNode{Kind: mpArr}},
		}
		a := pick(r, alts)
		first := r.Bool()
		// (also the token in the old two-field nonce format, for the proof-flag alternatives)
		own := map[string]*mpNode{"Nonce": nt, "Location": lt, "UnsafeCaveats": ct, "Tail": tt}
		if a.field == "Nonce" && r.Bool() {
			own["Nonce"] = &mpNode{Kind: mpArr, Kids: []*mpNode{kidN, rndN}}
		}
		var kids []*mpNode
		for _, f := range []string{"Nonce", "Location", "UnsafeCaveats", "Tail"} {
			if f == a.field && first {
				kids = append(kids, mpStrNode(f), a.node)
			}
			kids = append(kids, mpStrNode(f), own[f])
			if f == a.field && !first {
				kids = append(kids, mpStrNode(f), a.node)
			}
		}
		x := mpEnc(&mpNode{Kind: mpMap, Kids: kids})
		res := guard(func() string {
			m1, err := macaroon.Decode(x)
			if err != nil {
				return "canon" // refused outright
			}
			e1, err := m1.Encode()
			if err != nil {
				return "canon"
			}
			m2, err := macaroon.Decode(e1)
			if err != nil {
				return "accepted-token-does-not-re-decode"
			}
			e2, _ := m2.Encode()
			if !bytes.Equal(e1, e2) || sxMac(m1) != sxMac(m2) {
				return fmt.Sprintf("accepted-token-is-no-fixed-point(field=%s,first=%v):%s:%s", a.field, first, sxNonce(m1.Nonce), sxNonce(m2.Nonce))
			}
			v := func(tok []byte) string {
				mm, err := macaroon.Decode(tok)
				if err != nil {
					return "reject"
				}
				cs, err := mm.Verify(key, nil, nil)
				if err != nil {
					return "reject"
				}
				return "ok " + sxCavs(cs.Caveats)
			}
			if vx, ve := v(x), v(e1); vx != ve {
				return fmt.Sprintf("verdict-differs(field=%s,first=%v): accepted bytes %s, canonical re-encoding %s", a.field, first, vx, ve)
			}
			return "canon"
		})
		o.count("dupfield." + a.field)
		o.emit("(const canon)", res)
	}
	_ = strings.Join
}
