package main

// Family wire (C11, basis of C05/C12): canonical encoding (bytes equal to the model's, independent of
// map insertion order), decoding of canonical and of loosened (non-canonical but accepted) encodings,
// re-encoding to the canonical bytes, unknown-type pass-through, token and nonce codecs.
//
// Blocks of famWire (each choice is counted in meta.json):
//   per caveat     WireCav (narrow pools, shared with other families) and wideCav (zero id, case variants, ids that
//                  are prefixes of each other, bytes >= 0x80, NFC/NFD, exact map sizes 15/16/17/40, app id 0 next to
//                  others, nil / nil-slice / long / repetitive conditionals, negative and huge big.Int, array16
//                  command / argument / mutation lists, unknown types at every registry and integer-format
//                  boundary with non-minimal body headers, URL-shaped locations, odd binding lengths, zero values):
//                  enc.cav (same object twice + every map rebuilt four times, all nine resource-set kinds, also
//                  inside conditionals; an encoder error is an observable too), dec.cavs, then the loosened form
//                  (struct as map, wire nil for zero integers / Go strings / bools, wider / signed integers,
//                  str<->bin, longer headers, trailing bytes after the value): dec.cavs, reenc.cavs
//   matrix         every type number 0..33 and five beyond x 17 small bodies, the type position, the container
//                  (nil, empty, odd counts, every header width, map, scalars, empty input)
//   sets / tokens  0..4 caveats (a quarter from the wide pools), 1023..1300 caveats; one pointer at two places, an
//                  equal copy, one map object in three caveats; literal set vs NewCaveatSet; proofs: clone, encode,
//                  then encode / clone / verify in any order; minted tokens with key-ids of 0..256 (65535/65536
//                  in the thorough tier) and URL-shaped locations, loosened also inside the caveat list
//   nonces         both formats; key-id 0..300, random part 0..32, tail 0..64 bytes
//   nil fields     (const canon): values holding a nil map / nil []byte - outside the model's value space
//   dupfield       (const canon): map-encoded tokens naming a field twice

import (
	"bytes"
	"encoding/hex"
	"fmt"
	"math/big"
	"reflect"
	"strings"

	"github.com/superfly/macaroon"
	"github.com/superfly/macaroon/auth"
	"github.com/superfly/macaroon/flyio"
	"github.com/superfly/macaroon/resset"
)

func init() { families["wire"] = famWire }

func hexb(b []byte) string { return "x" + hex.EncodeToString(b) }

// wide-valued generators (boundary integers, arbitrary byte strings, nil vs empty, larger maps)
func (r *Rng) wU64() uint64 {
	if r.Chance(1, 4) {
		return r.U64() >> uint(r.Intn(64))
	}
	return pick(r, boundaryU64)
}
func (r *Rng) wStr() string {
	switch r.Intn(8) {
	case 0:
		return ""
	case 1:
		return string(r.Bytes(31 + r.Intn(3)))
	case 2:
		return string(r.Bytes(255 + r.Intn(3)))
	case 3:
		return string(r.Bytes(r.Intn(8)))
	default:
		return pick(r, smallStrs)
	}
}
func (r *Rng) wMask() resset.Action {
	return resset.Action(pick(r, []uint64{0, 1, 31, 127, 128, 255, 256, 65535, r.U64()}))
}
func (r *Rng) wStrSet() resset.ResourceSet[string, resset.Action] {
	n := pick(r, []int{0, 1, 2, 3, 5, 15, 16, 17})
	m := resset.ResourceSet[string, resset.Action]{}
	for i := 0; i < n; i++ {
		m[r.wStr()+fmt.Sprint(i%3)] = r.wMask()
	}
	return m
}
func (r *Rng) wI64() int64 {
	return pick(r, []int64{0, 1, -1, -32, -33, -128, -129, -32768, -32769, -2147483648, -2147483649, -1 << 63, 1<<63 - 1, 127, 128, 1 << 31, 1 << 32, int64(r.U64())})
}

func (r *Rng) WireCav(depth int) macaroon.Caveat {
	switch k := r.Intn(nCavKinds); k {
	case 0:
		return &flyio.Organization{ID: r.wU64(), Mask: r.wMask()}
	case 1:
		n := pick(r, []int{0, 1, 2, 3, 16, 17})
		m := resset.ResourceSet[uint64, resset.Action]{}
		for i := 0; i < n; i++ {
			m[r.wU64()+uint64(i)] = r.wMask()
		}
		return &flyio.Apps{Apps: m}
	case 2:
		return &flyio.Volumes{Volumes: r.wStrSet()}
	case 3:
		return &flyio.Machines{Machines: r.wStrSet()}
	case 4:
		return &flyio.FeatureSet{Features: r.wStrSet()}
	case 5:
		return &flyio.MachineFeatureSet{Features: r.wStrSet()}
	case 6:
		return &flyio.AppFeatureSet{Features: r.wStrSet()}
	case 7:
		return &flyio.Clusters{Clusters: r.wStrSet()}
	case 8:
		m := resset.ResourceSet[resset.Prefix, resset.Action]{}
		for k, v := range r.wStrSet() {
			m[resset.Prefix(k)] = v
		}
		return &flyio.StorageObjects{Prefixes: m}
	case 9:
		return &macaroon.ValidityWindow{NotBefore: r.wI64(), NotAfter: r.wI64()}
	case 10:
		switch r.Intn(3) {
		case 0:
			return &flyio.Mutations{}
		case 1:
			return &flyio.Mutations{Mutations: []string{}}
		}
		n := pick(r, []int{1, 2, 16})
		ms := make([]string, n)
		for i := range ms {
			ms[i] = r.wStr()
		}
		return &flyio.Mutations{Mutations: ms}
	case 11:
		return &auth.ConfineUser{ID: r.wU64()}
	case 12:
		return &auth.ConfineOrganization{ID: r.wU64()}
	case 13:
		return &flyio.IsUser{ID: r.wU64()}
	case 14:
		return &macaroon.Caveat3P{Location: r.wStr(), VerifierKey: r.Bytes(pick(r, []int{0, 1, 60, 255, 256})), Ticket: r.Bytes(pick(r, []int{0, 1, 100, 300}))}
	case 15:
		b := macaroon.BindToParentToken(r.Bytes(pick(r, []int{0, 1, 16, 32})))
		return &b
	case 16:
		if depth <= 0 {
			a := r.wMask()
			return &a
		}
		n := pick(r, []int{0, 1, 2, 3, 8})
		cs := make([]macaroon.Caveat, n)
		for i := range cs {
			cs[i] = r.WireCav(depth - 1)
		}
		return &resset.IfPresent{Ifs: macaroon.NewCaveatSet(cs...), Else: r.wMask()}
	case 17:
		return &flyio.FromMachine{ID: r.wStr()}
	case 18:
		h := auth.ConfineGoogleHD(r.wStr())
		return &h
	case 19:
		o := auth.ConfineGitHubOrg(r.wU64())
		return &o
	case 20:
		v := auth.MaxValidity(r.wU64())
		return &v
	case 21:
		return &flyio.IsMember{}
	case 22:
		u := auth.FlyioUserID(r.wU64())
		return &u
	case 23:
		u := auth.GitHubUserID(r.wU64())
		return &u
	case 24:
		u := auth.GoogleUserID(*new(big.Int).SetBytes(r.Bytes(pick(r, []int{0, 1, 8, 9, 21}))))
		return &u
	case 25:
		a := r.wMask()
		return &a
	case 26:
		switch r.Intn(4) {
		case 0:
			var c flyio.Commands
			return &c
		case 1:
			c := flyio.Commands{}
			return &c
		}
		n := 1 + r.Intn(3)
		cs := make(flyio.Commands, n)
		for i := range cs {
			switch r.Intn(3) {
			case 0:
				cs[i] = flyio.Command{Exact: r.Bool()}
			case 1:
				cs[i] = flyio.Command{Args: []string{}, Exact: r.Bool()}
			default:
				args := make([]string, 1+r.Intn(3))
				for j := range args {
					args[j] = r.wStr()
				}
				cs[i] = flyio.Command{Args: args, Exact: r.Bool()}
			}
		}
		return &cs
	case 27:
		ar := flyio.AllowedRoles(uint32(r.wU64()))
		return &ar
	case 28:
		return &flyio.FlySrc{Organization: r.wStr(), App: r.wStr(), Instance: r.wStr()}
	default:
		typ := pick(r, []uint64{1, 17, 18, 32, 127, 128, 1000, 1 << 16, 1 << 32, 1 << 48, 1<<64 - 2, 1<<64 - 1})
		body := mpEnc(r.mpTree(2, false))
		return &macaroon.UnregisteredCaveat{Type: macaroon.CaveatType(typ), RawMsgpack: body}
	}
}

// mpTree: an arbitrary well-formed msgpack value; hostile=false keeps map keys hashable and avoids
// extension types the generic decoder does not know.
func (r *Rng) mpTree(depth int, hostile bool) *mpNode {
	k := r.Intn(10)
	if depth <= 0 && k >= 6 {
		k = r.Intn(6)
	}
	switch k {
	case 0:
		return &mpNode{Kind: mpNil}
	case 1:
		return &mpNode{Kind: mpBool, B: r.Bool()}
	case 2:
		u := r.wU64()
		n := &mpNode{Kind: mpInt, U: u, I: int64(u)}
		if r.Chance(1, 3) {
			n.Code = pick(r, []byte{0xcf, 0xce, 0xcd, 0xcc})
			switch n.Code {
			case 0xce:
				n.U &= 0xffffffff
			case 0xcd:
				n.U &= 0xffff
			case 0xcc:
				n.U &= 0xff
			}
		}
		return n
	case 3:
		i := r.wI64()
		if i >= 0 {
			i = -i - 1
		}
		return &mpNode{Kind: mpInt, Neg: true, I: i, U: uint64(i)}
	case 4:
		return &mpNode{Kind: mpStr, S: []byte(r.wStr())}
	case 5:
		switch r.Intn(4) {
		case 0:
			return &mpNode{Kind: mpRaw, Raw: append([]byte{0xca}, r.Bytes(4)...)}
		case 1:
			return &mpNode{Kind: mpRaw, Raw: append([]byte{0xcb}, r.Bytes(8)...)}
		case 2:
			return &mpNode{Kind: mpRaw, Raw: append([]byte{0xd6, 0xff}, r.Bytes(4)...)} // timestamp 32
		default:
			return &mpNode{Kind: mpBin, S: r.Bytes(r.Intn(5))}
		}
	case 6, 7:
		n := &mpNode{Kind: mpArr}
		for i, m := 0, r.Intn(4); i < m; i++ {
			n.Kids = append(n.Kids, r.mpTree(depth-1, hostile))
		}
		return n
	default:
		n := &mpNode{Kind: mpMap}
		for i, m := 0, r.Intn(3); i < m; i++ {
			var key *mpNode
			if hostile && r.Chance(1, 2) {
				key = r.mpTree(depth-1, hostile)
			} else {
				switch r.Intn(3) {
				case 0:
					key = &mpNode{Kind: mpStr, S: []byte(r.wStr())}
				case 1:
					u := r.wU64()
					key = &mpNode{Kind: mpInt, U: u, I: int64(u)}
				default:
					key = &mpNode{Kind: mpBool, B: r.Bool()}
				}
			}
			n.Kids = append(n.Kids, key, r.mpTree(depth-1, hostile))
		}
		return n
	}
}

// rebuild: the same caveat value with its maps re-built in a fresh random insertion order
func (r *Rng) rebuild(c macaroon.Caveat) macaroon.Caveat {
	shuf := func(m resset.ResourceSet[string, resset.Action]) resset.ResourceSet[string, resset.Action] {
		keys := make([]string, 0, len(m))
		for k := range m {
			keys = append(keys, k)
		}
		for i := len(keys) - 1; i > 0; i-- {
			j := r.Intn(i + 1)
			keys[i], keys[j] = keys[j], keys[i]
		}
		out := resset.ResourceSet[string, resset.Action]{}
		for _, k := range keys {
			out[k] = m[k]
		}
		return out
	}
	switch v := c.(type) {
	case *flyio.Volumes:
		return &flyio.Volumes{Volumes: shuf(v.Volumes)}
	case *flyio.Machines:
		return &flyio.Machines{Machines: shuf(v.Machines)}
	case *flyio.FeatureSet:
		return &flyio.FeatureSet{Features: shuf(v.Features)}
	case *flyio.Clusters:
		return &flyio.Clusters{Clusters: shuf(v.Clusters)}
	case *flyio.Apps:
		out := resset.ResourceSet[uint64, resset.Action]{}
		keys := make([]uint64, 0, len(v.Apps))
		for k := range v.Apps {
			keys = append(keys, k)
		}
		for i := len(keys) - 1; i > 0; i-- {
			j := r.Intn(i + 1)
			keys[i], keys[j] = keys[j], keys[i]
		}
		for _, k := range keys {
			out[k] = v.Apps[k]
		}
		return &flyio.Apps{Apps: out}
	}
	return c
}

// ---------------------------------------------------------------------------------------------
// Widened pools (generator audit): used by famWire only.  WireCav / wStr / wStrSet / mpTree /
// rebuild above are shared with other families (token, attack, hostile) and keep their streams.
// ---------------------------------------------------------------------------------------------

// wideKeys: resource ids and text fields the narrow pools never held: the zero id "", letter-case
// variants, ids that are prefixes of each other, separators, leading/trailing blanks, NUL, bytes
// >= 0x80 (a signed byte comparison sorts them first), composed vs decomposed accents, code points
// whose UTF-16 order differs from their byte order, decimal look-alikes (9 < 10 < "09"), and the
// length-header boundaries of str (31/32, 255/256).
var wideKeys = []string{"", "a", "A", "ab", "aB", "Ab", "AB", "b", "B", "a/", "a/b", "a/b/", "/", " a", "a ", " ",
	"a\x00", "a\x00b", "\x00", "\x7f", "\x80", "\xff", "\xc3\xa9", "e\xcc\x81", "\xc3\x89", "\xe2\x84\xaa", "k", "K",
	"10", "9", "09", "0", "*", "zz", "Zz", "\xef\xbf\xbf", "\xf0\x90\x80\x80", "\xed\x9f\xbf",
	strings.Repeat("k", 31), strings.Repeat("k", 32), strings.Repeat("k", 255), strings.Repeat("k", 256)}

var wideIDs = []uint64{0, 1, 9, 10, 11, 99, 100, 127, 128, 255, 256, 1<<15 - 1, 1 << 15, 65535, 65536, 1<<31 - 1, 1 << 31,
	1<<32 - 1, 1 << 32, 1<<53 + 1, 1<<63 - 1, 1 << 63, 1<<63 + 1, 1<<64 - 2, 1<<64 - 1}

var wideLocs = []string{"", "https://auth.example", "https://auth.example/", "https://Auth.Example", "HTTPS://AUTH.EXAMPLE/",
	"https://auth.example/path", "https://auth.example/path/", "https://auth.example:443", "https://auth.example/?q=1",
	"https://auth.example#f", "https://user@auth.example", "https://[::1]:8443/", "//auth.example", "auth.example", " https://auth.example",
	"https://\xc3\xa9.example", "https://xn--9ca.example", "https://auth.example\x00", "\xff\xfe"}

func (r *Rng) wKey(o *Out, tier string) string {
	if tier == "thorough" && r.Chance(1, 6000) {
		o.count("wide.bigstring")
		return strings.Repeat("K", pick(r, []int{65535, 65536})) // str16 / str32 header (rare: 130 KB per line)
	}
	return pick(r, wideKeys)
}

// wKeySet: ids straight from wideKeys (no distinguishing suffix: the zero id, case variants and prefixes
// of each other meet in one map); sizes around the fixmap/map16 boundary
func (r *Rng) wKeySet(o *Out, tier string) resset.ResourceSet[string, resset.Action] {
	n := pick(r, []int{1, 2, 2, 3, 4, 8, 15, 16, 17, 40})
	var m resset.ResourceSet[string, resset.Action]
	if r.Bool() {
		m = resset.ResourceSet[string, resset.Action]{}
	} else {
		m = make(resset.ResourceSet[string, resset.Action], pick(r, []int{0, 1, 64})) // capacity hint: another bucket layout
	}
	for tries := 0; len(m) < n && tries < 40*n; tries++ { // exactly n distinct ids (the pool holds 42)
		m[r.wKey(o, tier)] = r.wMask()
	}
	if _, ok := m[""]; ok {
		o.count("wide.keyset.zero-id")
	}
	if r.Chance(1, 4) {
		// churn: entries inserted and deleted again leave the map's layout different, its content equal
		for i := 0; i < 20; i++ {
			k := fmt.Sprintf("churn%d", i)
			m[k] = 1
		}
		for i := 0; i < 20; i++ {
			delete(m, fmt.Sprintf("churn%d", i))
		}
		o.count("wide.keyset.churned")
	}
	o.count(fmt.Sprintf("wide.keyset.len%d", len(m)))
	return m
}

const nWideKinds = 13

// wideCav: caveat values of shapes and pools WireCav does not draw
func (r *Rng) wideCav(o *Out, depth int, tier string) macaroon.Caveat {
	k := r.Intn(nWideKinds)
	switch k {
	case 0, 1:
		s := r.wKeySet(o, tier)
		switch r.Intn(8) {
		case 0:
			return &flyio.Volumes{Volumes: s}
		case 1:
			return &flyio.Machines{Machines: s}
		case 2:
			return &flyio.FeatureSet{Features: s}
		case 3:
			return &flyio.MachineFeatureSet{Features: s}
		case 4:
			return &flyio.AppFeatureSet{Features: s}
		case 5:
			return &flyio.Clusters{Clusters: s}
		default:
			m := make(resset.ResourceSet[resset.Prefix, resset.Action])
			for k, v := range s {
				m[resset.Prefix(k)] = v
			}
			return &flyio.StorageObjects{Prefixes: m}
		}
	case 2:
		// app ids without a distinguishing offset: the wildcard 0 next to others, decimal look-alikes, 2^63 and up
		n := pick(r, []int{1, 2, 3, 4, 15, 16, 17, 25})
		m := resset.ResourceSet[uint64, resset.Action]{}
		for i := 0; i < n; i++ {
			m[pick(r, wideIDs)] = r.wMask()
		}
		if _, ok := m[0]; ok && len(m) > 1 {
			o.count("wide.apps.zero-with-others")
		}
		o.count("wide.apps")
		return &flyio.Apps{Apps: m}
	case 3:
		// a conditional whose set pointer is nil / whose set holds a nil slice / a long or repetitive inner set
		switch r.Intn(4) {
		case 0:
			o.count("wide.ifs.nilptr")
			return &resset.IfPresent{Else: r.wMask()}
		case 1:
			o.count("wide.ifs.nilslice")
			return &resset.IfPresent{Ifs: &macaroon.CaveatSet{}, Else: r.wMask()}
		case 2:
			n := pick(r, []int{7, 8, 9, 15, 16, 17})
			cs := make([]macaroon.Caveat, n)
			for i := range cs {
				cs[i] = &flyio.IsUser{ID: pick(r, wideIDs)}
			}
			o.count("wide.ifs.long")
			return &resset.IfPresent{Ifs: macaroon.NewCaveatSet(cs...), Else: r.wMask()}
		default:
			// the same inner caveat value twice (one pointer), and once more as an equal copy
			var in macaroon.Caveat
			if depth > 0 {
				in = r.wideCav(o, depth-1, tier)
			} else {
				in = &flyio.FromMachine{ID: r.wKey(o, tier)}
			}
			cs := []macaroon.Caveat{in, in}
			if b, err := encOne(in); err == nil {
				if d, err := macaroon.DecodeCaveats(b); err == nil && len(d.Caveats) == 1 {
					cs = append(cs, d.Caveats[0])
				}
			}
			o.count("wide.ifs.repeated")
			return &resset.IfPresent{Ifs: macaroon.NewCaveatSet(cs...), Else: r.wMask()}
		}
	case 4:
		// big.Int values the narrow pool never built: negative (the wire carries the magnitude only), 2^64 and around
		var z *big.Int
		switch r.Intn(4) {
		case 0:
			z = new(big.Int).Neg(new(big.Int).SetBytes(r.Bytes(pick(r, []int{1, 8, 9}))))
			o.count("wide.google.negative")
		case 1:
			z = new(big.Int).Lsh(big.NewInt(1), uint(pick(r, []int{7, 8, 63, 64, 65, 255, 256, 2047})))
			if r.Bool() {
				z.Sub(z, big.NewInt(1))
			}
			o.count("wide.google.pow2")
		case 2:
			z = new(big.Int).SetBytes(append([]byte{0, 0}, r.Bytes(3)...)) // leading zero bytes vanish
			o.count("wide.google.leadingzero")
		default:
			z, _ = new(big.Int).SetString(pick(r, []string{"0", "-0", "100000000000000000000", "115792089237316195423570985008687907853269984665640564039457584007913129639935"}), 10)
			o.count("wide.google.decimal")
		}
		u := auth.GoogleUserID(*z)
		return &u
	case 5:
		// long command lists / long argument lists (array16 headers), repeated commands
		switch r.Intn(3) {
		case 0:
			n := pick(r, []int{15, 16, 17})
			cs := make(flyio.Commands, n)
			for i := range cs {
				cs[i] = flyio.Command{Args: []string{r.wKey(o, tier)}, Exact: r.Bool()}
			}
			o.count("wide.commands.long")
			return &cs
		case 1:
			n := pick(r, []int{15, 16, 17})
			args := make([]string, n)
			for i := range args {
				args[i] = r.wKey(o, tier)
			}
			cs := flyio.Commands{{Args: args, Exact: r.Bool()}}
			o.count("wide.commands.longargs")
			return &cs
		default:
			c := flyio.Command{Args: []string{r.wKey(o, tier), r.wKey(o, tier)}, Exact: r.Bool()}
			cs := flyio.Commands{c, c, {Args: c.Args, Exact: !c.Exact}, c}
			o.count("wide.commands.repeated")
			return &cs
		}
	case 6:
		// mutation lists: repeated elements, descending order, lengths around the array16 header
		n := pick(r, []int{2, 3, 15, 16, 17})
		ms := make([]string, n)
		for i := range ms {
			ms[i] = r.wKey(o, tier)
		}
		switch r.Intn(3) {
		case 0:
			ms[len(ms)-1] = ms[0]
			o.count("wide.mutations.repeated")
		case 1:
			sortStrings(ms)
			for i, j := 0, len(ms)-1; i < j; i, j = i+1, j-1 {
				ms[i], ms[j] = ms[j], ms[i]
			}
			o.count("wide.mutations.descending")
		default:
			o.count("wide.mutations.long")
		}
		return &flyio.Mutations{Mutations: ms}
	case 7:
		// unknown types next to every boundary of the registry and of the integer formats; bodies with
		// non-minimal headers everywhere (they must come back byte for byte)
		typ := pick(r, []uint64{1, 17, 18, 32, 33, 100, 255, 256, 65535, 65536, 65536 + 255, 1<<17 - 1, 1 << 17, 1<<32 - 1, 1<<32 + 1, 1<<48 - 1, 1<<48 + 1, 1<<63 - 1, 1 << 63})
		t := r.mpTree(3, false)
		mpLoosenHeaders(r, t)
		o.count("wide.unreg")
		return &macaroon.UnregisteredCaveat{Type: macaroon.CaveatType(typ), RawMsgpack: mpEnc(t)}
	case 8:
		c := &macaroon.Caveat3P{Location: pick(r, wideLocs), VerifierKey: r.Bytes(pick(r, []int{11, 12, 13, 28, 59, 61})), Ticket: r.Bytes(pick(r, []int{12, 28, 29, 255, 256}))}
		if tier == "thorough" && r.Chance(1, 400) {
			c.Ticket = r.Bytes(pick(r, []int{65535, 65536})) // bin16 / bin32 header
			o.count("wide.tp.bigticket")
		}
		o.count("wide.tp")
		return c
	case 9:
		o.count("wide.textfield")
		switch r.Intn(3) {
		case 0:
			return &flyio.FromMachine{ID: r.wKey(o, tier)}
		case 1:
			h := auth.ConfineGoogleHD(pick(r, []string{"example.com", "Example.com", "EXAMPLE.COM", "example.com.", " example.com", "ex\xc3\xa4mple.com", "xn--exmple-cua.com", "\xe2\x84\xaa.example", "k.example", ""}))
			return &h
		default:
			return &flyio.FlySrc{Organization: r.wKey(o, tier), App: r.wKey(o, tier), Instance: r.wKey(o, tier)}
		}
	case 10:
		b := macaroon.BindToParentToken(r.Bytes(pick(r, []int{15, 17, 31, 33, 255, 256})))
		o.count("wide.bind")
		return &b
	case 11:
		// windows that are empty, inverted, or a single instant
		t := pick(r, []int64{0, 1, -1, baseNow, 1<<63 - 1, -1 << 63})
		o.count("wide.window")
		switch r.Intn(3) {
		case 0:
			return &macaroon.ValidityWindow{NotBefore: t, NotAfter: t}
		case 1:
			return &macaroon.ValidityWindow{NotBefore: t, NotAfter: t - 1}
		default:
			return &macaroon.ValidityWindow{}
		}
	default:
		// zero values of every struct-bodied kind
		o.count("wide.zero")
		return pick(r, []macaroon.Caveat{&flyio.Organization{}, &auth.ConfineUser{}, &auth.ConfineOrganization{}, &flyio.IsUser{},
			&flyio.FromMachine{}, &flyio.FlySrc{}, &flyio.IsMember{}, &flyio.Mutations{}, &macaroon.ValidityWindow{},
			&flyio.Apps{Apps: resset.ResourceSet[uint64, resset.Action]{}}, &flyio.Volumes{Volumes: resset.ResourceSet[string, resset.Action]{}}})
	}
}

// mpLoosenHeaders: non-minimal length headers and integer widths everywhere, kinds untouched (so a
// str stays a str: map keys of a generic body stay hashable)
func mpLoosenHeaders(r *Rng, n *mpNode) {
	switch n.Kind {
	case mpInt:
		if n.Code == 0 && !n.Neg && r.Chance(1, 3) {
			n.Code = 0xcf
		}
	case mpStr:
		if r.Chance(1, 2) {
			opts := []byte{0xdb, 0xda}
			if len(n.S) < 256 {
				opts = append(opts, 0xd9)
			}
			n.Code = pick(r, opts)
		}
	case mpBin:
		if r.Chance(1, 2) {
			n.Code = pick(r, []byte{0xc6, 0xc5})
		}
	case mpArr, mpMap:
		if r.Chance(1, 2) {
			if n.Kind == mpArr {
				n.Code = pick(r, []byte{0xdc, 0xdd})
			} else {
				n.Code = pick(r, []byte{0xde, 0xdf})
			}
		}
		for _, k := range n.Kids {
			mpLoosenHeaders(r, k)
		}
	}
}

// mpNilZero: the decoder reads wire nil as the zero value of an integer, a Go string, a bool (str nodes
// of a CANONICAL tree are Go strings; []byte fields are bin and are left alone: a nil []byte is outside
// the modelled domain).  Returns how many nodes were rewritten.
func mpNilZero(r *Rng, n *mpNode) int {
	hits := 0
	switch n.Kind {
	case mpArr, mpMap:
		for i, k := range n.Kids {
			zero := (k.Kind == mpInt && !k.Neg && k.U == 0) || (k.Kind == mpStr && len(k.S) == 0) || (k.Kind == mpBool && !k.B)
			if zero && r.Chance(1, 2) {
				n.Kids[i] = &mpNode{Kind: mpNil}
				hits++
				continue
			}
			hits += mpNilZero(r, k)
		}
	}
	return hits
}

// rebuildDeep: the same caveat value with EVERY map (all nine resource-set kinds, also inside
// conditionals) built afresh in a random insertion order, with a random capacity hint
func (r *Rng) rebuildDeep(c macaroon.Caveat) macaroon.Caveat {
	switch v := c.(type) {
	case *flyio.Apps:
		return &flyio.Apps{Apps: jShuf(r, v.Apps)}
	case *flyio.Volumes:
		return &flyio.Volumes{Volumes: jShuf(r, v.Volumes)}
	case *flyio.Machines:
		return &flyio.Machines{Machines: jShuf(r, v.Machines)}
	case *flyio.FeatureSet:
		return &flyio.FeatureSet{Features: jShuf(r, v.Features)}
	case *flyio.MachineFeatureSet:
		return &flyio.MachineFeatureSet{Features: jShuf(r, v.Features)}
	case *flyio.AppFeatureSet:
		return &flyio.AppFeatureSet{Features: jShuf(r, v.Features)}
	case *flyio.Clusters:
		return &flyio.Clusters{Clusters: jShuf(r, v.Clusters)}
	case *flyio.StorageObjects:
		return &flyio.StorageObjects{Prefixes: jShuf(r, v.Prefixes)}
	case *resset.IfPresent:
		if v.Ifs == nil {
			return c
		}
		cs := make([]macaroon.Caveat, len(v.Ifs.Caveats))
		for i, x := range v.Ifs.Caveats {
			cs[i] = r.rebuildDeep(x)
		}
		return &resset.IfPresent{Ifs: &macaroon.CaveatSet{Caveats: cs}, Else: v.Else}
	}
	return c
}

func hasMap(c macaroon.Caveat) bool {
	switch v := c.(type) {
	case *flyio.Apps, *flyio.Volumes, *flyio.Machines, *flyio.FeatureSet, *flyio.MachineFeatureSet, *flyio.AppFeatureSet, *flyio.Clusters, *flyio.StorageObjects:
		return true
	case *resset.IfPresent:
		if v.Ifs != nil {
			for _, x := range v.Ifs.Caveats {
				if hasMap(x) {
					return true
				}
			}
		}
	}
	return false
}

func encOne(c macaroon.Caveat) ([]byte, error) { return macaroon.NewCaveatSet(c).MarshalMsgpack() }

func decCavsObs(b []byte) string {
	return guard(func() string {
		cs, err := macaroon.DecodeCaveats(b)
		if err != nil {
			return "err"
		}
		return "ok " + sxCavs(cs.Caveats)
	})
}

func reencObs(b []byte) string {
	return guard(func() string {
		cs, err := macaroon.DecodeCaveats(b)
		if err != nil {
			return "err"
		}
		out, err := cs.MarshalMsgpack()
		if err != nil {
			return "err-encode"
		}
		return "ok " + hexb(out)
	})
}

// structToMap: rewrite the body of a struct-typed caveat from array form to map form (Go field names),
// shuffled, with an unknown key added
func structToMap(r *Rng, c macaroon.Caveat, body *mpNode) *mpNode {
	t := reflect.TypeOf(c)
	if t.Kind() != reflect.Pointer || t.Elem().Kind() != reflect.Struct || body.Kind != mpArr {
		return body
	}
	var names []string
	for i := 0; i < t.Elem().NumField(); i++ {
		f := t.Elem().Field(i)
		if f.IsExported() {
			names = append(names, f.Name)
		}
	}
	if len(names) != len(body.Kids) || len(names) == 0 {
		return body
	}
	idx := make([]int, len(names))
	for i := range idx {
		idx[i] = i
	}
	for i := len(idx) - 1; i > 0; i-- {
		j := r.Intn(i + 1)
		idx[i], idx[j] = idx[j], idx[i]
	}
	m := &mpNode{Kind: mpMap}
	if r.Bool() {
		m.Kids = append(m.Kids, mpStrNode("Unknown"), &mpNode{Kind: mpArr, Kids: []*mpNode{{Kind: mpNil}}})
	}
	for _, i := range idx {
		m.Kids = append(m.Kids, mpStrNode(names[i]), body.Kids[i])
	}
	return m
}

func sxNonce(n macaroon.Nonce) string {
	ver := 0
	if n.MustEncode()[0] == 0x93 {
		ver = 1
	}
	p := 0
	if n.Proof {
		p = 1
	}
	return fmt.Sprintf("(nonce %s %s %d %d)", hx(n.KID), hx(n.Rnd), ver, p)
}

func sxMac(m *macaroon.Macaroon) string {
	return fmt.Sprintf("(mac %s %s %s %s)", sxNonce(m.Nonce), hs(m.Location), sxCavs(m.UnsafeCaveats.Caveats), hx(m.Tail))
}

func decMacObs(b []byte) string {
	return guard(func() string {
		m, err := macaroon.Decode(b)
		if err != nil {
			return "err"
		}
		return "ok " + sxMac(m)
	})
}

func reencMacObs(b []byte) string {
	return guard(func() string {
		mm, err := macaroon.Decode(b)
		if err != nil {
			return "err"
		}
		out, err := mm.Encode()
		if err != nil {
			return "err-encode"
		}
		return "ok " + hexb(out)
	})
}

// wTrailing: bytes after the first MessagePack value (the decoder reads one value and stops)
func (r *Rng) wTrailing(own []byte) []byte {
	switch r.Intn(4) {
	case 0:
		return []byte{0xc1} // the one code MessagePack never uses
	case 1:
		return append([]byte{}, own...) // a second copy of the value itself
	case 2:
		return []byte{0x91} // an array header announcing an element that never comes
	default:
		return r.Bytes(1 + r.Intn(4))
	}
}

func famWire(r *Rng, o *Out, tier string) {
	n := 2500
	if tier == "thorough" {
		n = 60000
	}
	oneCav := func(c macaroon.Caveat) {
		o.count(fmt.Sprintf("cav.%T", c))
		b, err := encOne(c)
		if err != nil {
			// (the model knows which values cannot be written: an encoder that starts refusing a legal value shows here)
			o.count("enc.err")
			o.emit("(enc.cav "+sxCav(c)+")", "err-encode")
			return
		}
		// determinism: the same object encoded again, then re-encoded from maps (every resource-set kind, also
		// inside conditionals) rebuilt in fresh insertion orders and with other capacity hints
		det := "x" + hex.EncodeToString(b)
		if b2, _ := encOne(c); string(b2) != string(b) {
			det = "nondeterministic"
		}
		for k := 0; k < 4; k++ {
			b2, _ := encOne(r.rebuildDeep(c))
			if string(b2) != string(b) {
				det = "nondeterministic"
			}
		}
		if hasMap(c) {
			o.count("det.with-maps")
		}
		o.emit("(enc.cav "+sxCav(c)+")", det)
		o.emit("(dec.cavs "+hexb(b)+")", decCavsObs(b))
		// loosened re-encoding of the same value
		tree, rest, perr := mpParse(b)
		if perr != nil || len(rest) != 0 {
			o.count("mpparse.fail")
			return
		}
		if r.Chance(1, 3) && len(tree.Kids) == 2 {
			tree.Kids[1] = structToMap(r, c, tree.Kids[1])
			o.count("loosen.structmap")
		}
		// wire nil for the zero value of integers, Go strings and bools (decided on the canonical tree, where
		// str nodes are Go strings and []byte fields are bin)
		if r.Chance(1, 4) {
			if h := mpNilZero(r, tree); h > 0 {
				o.count("loosen.nilzero")
			}
		}
		if _, isUnreg := c.(*macaroon.UnregisteredCaveat); isUnreg {
			mpLoosen(r, tree.Kids[0]) // only the type number: the body passes through verbatim
		} else {
			mpLoosen(r, tree)
		}
		nb := mpEnc(tree)
		if string(nb) != string(b) {
			o.count("loosen.changed")
		}
		if r.Chance(1, 6) {
			nb = append(nb, r.wTrailing(b)...)
			o.count("loosen.trailing")
		}
		o.emit("(dec.cavs "+hexb(nb)+")", decCavsObs(nb))
		o.emit("(reenc.cavs "+hexb(nb)+")", reencObs(nb))
	}
	for i := 0; i < n; i++ {
		oneCav(r.WireCav(3))
	}
	// values of the widened pools (about a third as many again)
	for i := 0; i < n/3; i++ {
		oneCav(r.wideCav(o, 2, tier))
	}

	// every type number x small body shapes, the type position and the container itself: what the decoder
	// accepts for zero values (nil, empty array, empty map for a struct; nil for a scalar), what it refuses
	// (odd containers, wrong field counts), and that whatever it accepts re-encodes as the model says.
	// A decoded value holding a nil map / nil []byte re-encodes as nil where the model writes an empty
	// map / bin (DESIGN 9.2: outside the modelled domain): its value line is compared, its re-encoding is not.
	{
		bodies := [][]byte{{0xc0}, {0x90}, {0x80}, {0x00}, {0xa0}, {0xc4, 0x00}, {0xc2}, {0x91, 0xc0}, {0x91, 0x00}, {0x92, 0xc0, 0xc0},
			{0x92, 0x90, 0x00}, {0x93, 0x00, 0x00, 0x00}, {0x81, 0xa0, 0xc0}, {0x81, 0xa2, 'I', 'D', 0x07}, {0xcc, 0x07}, {0xd0, 0xff}, {0xa1, 'r'}}
		types := []uint64{}
		for t := uint64(0); t <= 33; t++ {
			types = append(types, t)
		}
		types = append(types, 255, 256, 65536, 1<<32, 1<<64-1)
		cell := func(tag string, b []byte) {
			o.count("matrix." + tag)
			o.emit("(dec.cavs "+hexb(b)+")", decCavsObs(b))
			skip := false
			func() {
				defer func() { _ = recover() }()
				if cs, err := macaroon.DecodeCaveats(b); err == nil && cavsHaveNil(cs.Caveats) {
					skip = true
				}
			}()
			if skip {
				o.count("matrix.reenc-skipped.nil-field")
				return
			}
			o.emit("(reenc.cavs "+hexb(b)+")", reencObs(b))
		}
		for _, t := range types {
			tn := mpEnc(&mpNode{Kind: mpInt, U: t, I: int64(t)})
			for _, body := range bodies {
				b := append(append([]byte{0x92}, tn...), body...)
				cell("type-x-body", b)
			}
		}
		// the type-number position
		for _, tn := range [][]byte{{0xc0}, {0xc2}, {0xa0}, {0xa1, '4'}, {0x90}, {0xd0, 0x04}, {0xd3, 0xff, 0xff, 0xff, 0xff, 0xff, 0xff, 0xff, 0xff}, {0xff}, {0xca, 0, 0, 0, 0}} {
			cell("type-position", append(append([]byte{0x92}, tn...), 0x92, 0x01, 0x1f))
		}
		// the container: nil, empty, odd counts, every header width, a map, scalars
		pair := []byte{0x1a, 0x1f} // Action(31)
		for _, top := range [][]byte{{0xc0}, {0x90}, {0x91, 0x1a}, append([]byte{0x93}, append(append([]byte{}, pair...), 0x1a)...), {0x80}, {0xa0}, {0x00}, {0xc2},
			append([]byte{0xdc, 0x00, 0x02}, pair...), append([]byte{0xdd, 0x00, 0x00, 0x00, 0x02}, pair...), {0xdc, 0x00, 0x00}, {0xdd, 0, 0, 0, 0},
			append([]byte{0xdc, 0x00, 0x03}, append(append([]byte{}, pair...), 0x1a)...), append([]byte{0x82}, append(append([]byte{}, pair...), pair...)...), {0x92, 0x1a}, {}} {
			cell("container", top)
		}
	}

	// whole caveat sets and tokens
	for i := 0; i < n/5; i++ {
		m := r.Intn(5)
		if i%400 == 7 {
			m = []int{1025, 1300, 1024, 1023}[(i/400)%4] // around and beyond the decoder's pre-allocation bound
			o.count("cavs.long")
		}
		cs := make([]macaroon.Caveat, m)
		for j := range cs {
			if m > 100 {
				cs[j] = &macaroon.ValidityWindow{NotBefore: int64(j), NotAfter: int64(j) + 5}
				continue
			}
			if r.Chance(1, 4) {
				cs[j] = r.wideCav(o, 1, tier)
			} else {
				cs[j] = r.WireCav(2)
			}
		}
		if m <= 100 {
			// repeated elements and shared parts: one caveat value (one pointer) at two places of the set, an
			// equal copy of an element, two caveats holding ONE map object
			switch r.Intn(8) {
			case 0:
				if m > 0 {
					j := r.Intn(m)
					at := r.Intn(m + 1)
					cs = append(cs[:at], append([]macaroon.Caveat{cs[j]}, cs[at:]...)...)
					o.count("cavs.same-pointer-twice")
					if at == j || at == j+1 {
						o.count("cavs.same-pointer-adjacent")
					}
				}
			case 1:
				if m > 0 {
					j := r.Intn(m)
					if b, err := encOne(cs[j]); err == nil {
						if d, err := macaroon.DecodeCaveats(b); err == nil && len(d.Caveats) == 1 {
							cs = append(cs, d.Caveats[0])
							o.count("cavs.equal-copy")
						}
					}
				}
			case 2:
				sh := r.wKeySet(o, tier)
				cs = append(cs, &flyio.Volumes{Volumes: sh}, &flyio.Machines{Machines: sh}, &flyio.Volumes{Volumes: sh})
				o.count("cavs.shared-map")
			}
		}
		b, err := macaroon.NewCaveatSet(cs...).MarshalMsgpack()
		if err != nil {
			o.count("enc.err")
			o.emit("(enc.cavs "+sxCavs(cs)+")", "err-encode")
			continue
		}
		o.emit("(enc.cavs "+sxCavs(cs)+")", hexb(b))
		o.emit("(dec.cavs "+hexb(b)+")", decCavsObs(b))
		// the set literal (slice not copied by NewCaveatSet) and the set by value encode to the same bytes
		if i%4 == 1 {
			lit := macaroon.CaveatSet{Caveats: cs}
			res := "same"
			if b2, err := lit.MarshalMsgpack(); err != nil || !bytes.Equal(b2, b) {
				res = "literal-set-encodes-differently"
			}
			if b3, err := (&lit).MarshalMsgpack(); err != nil || !bytes.Equal(b3, b) {
				res = "pointer-set-encodes-differently"
			}
			o.count("cavs.literal")
			o.emit("(const same)", res)
		}
		// "encoding a token is deterministic": a freshly issued proof and a clone of it taken before its first
		// encoding are the same token and encode to the same bytes, which verify (every sixth round); encoding
		// again gives the same bytes again, and the verifier recomputes the holder's signature
		if i%6 == 0 {
			ka := r.Bytes(32)
			ploc := "https://wire.example"
			if i%12 == 6 {
				ploc = pick(r, wideLocs)
			}
			if c3, err := macaroon.NewCaveat3P(ka, ploc); err == nil {
				if rn, ok := ticketKey(ka, c3.Ticket); ok {
					if _, dm, err := macaroon.DischargeTicket(ka, ploc, c3.Ticket); err == nil {
						var ops, outs []string
						for k, kk := 0, r.Intn(4); k < kk; k++ {
							c := r.plainCav(2) // (values that survive a hop: Clone is an encode and a decode)
							ops = append(ops, "(add "+sxCav(c)+")")
							if err := dm.Add(c); err != nil {
								outs = append(outs, "add:"+addClass(err))
							} else {
								outs = append(outs, "add:ok")
							}
						}
						step := func(op string) {
							ops = append(ops, op)
							switch op {
							case "clone":
								if cl, err := dm.Clone(); err != nil {
									outs = append(outs, "clone:err")
								} else if cb, err := cl.Encode(); err != nil {
									outs = append(outs, "clone:err")
								} else {
									outs = append(outs, "clone:"+hx(cb))
								}
							case "encode":
								if eb, err := dm.Encode(); err != nil {
									outs = append(outs, "enc:err")
								} else {
									outs = append(outs, "enc:"+hx(eb))
								}
							case "verify":
								if vcs, err := dm.VerifyParsed(rn, nil, nil); err != nil {
									outs = append(outs, "verify:"+verifyClass(err))
								} else {
									outs = append(outs, "verify:ok"+sxCavs(vcs.Caveats))
								}
							}
						}
						step("clone")
						step("encode")
						o.count("proof.cloneThenEncode")
						// then, in any order: encode again, clone again, verify
						for k, kk := 0, r.Intn(4); k < kk; k++ {
							op := pick(r, []string{"encode", "clone", "verify"})
							o.count("proof.then." + op)
							step(op)
						}
						o.emit(fmt.Sprintf("(proof.run %s %s %s %s %s (%s))", hx(ka), hs(ploc), hx(c3.Ticket), hx(dm.Nonce.Rnd), hx(rn), strings.Join(ops, " ")), strings.Join(outs, " "))
					}
				}
			}
		}
		// a token carrying them, minted by the library (attestations are refused on non-proofs: skip those)
		key := macaroon.NewSigningKey()
		kidLen := pick(r, []int{0, 1, 16, 40, 255, 256})
		if tier == "thorough" && r.Chance(1, 1500) {
			kidLen = pick(r, []int{65535, 65536})
		}
		o.count(fmt.Sprintf("token.kid%d", kidLen))
		tloc := r.wStr()
		if r.Chance(1, 4) {
			tloc = pick(r, wideLocs)
			o.count("token.wideloc")
		}
		tok, err := macaroon.New(r.Bytes(kidLen), tloc, key)
		if err != nil {
			continue
		}
		ok := true
		for _, c := range cs {
			if macaroon.IsAttestation(c) {
				ok = false
			}
		}
		if !ok || tok.Add(cs...) != nil {
			o.count("token.skipped")
			continue
		}
		tb, err := tok.Encode()
		if err != nil {
			continue
		}
		o.count("token")
		o.emit("(dec.mac "+hexb(tb)+")", decMacObs(tb))
		o.emit("(reenc.mac "+hexb(tb)+")", reencMacObs(tb))
		tree, _, perr := mpParse(tb)
		if perr == nil {
			if r.Chance(1, 4) {
				// wire nil for zero values outside the caveat list (empty location, false proof flag)
				if h := mpNilZero(r, &mpNode{Kind: mpArr, Kids: []*mpNode{tree.Kids[0]}}); h > 0 {
					o.count("token.nilzero.proof")
				}
				if len(tree.Kids[1].S) == 0 && tree.Kids[1].Kind == mpStr && r.Bool() {
					tree.Kids[1] = &mpNode{Kind: mpNil}
					o.count("token.nilzero.location")
				}
			}
			mpLoosen(r, tree.Kids[0])
			mpLoosen(r, tree.Kids[1])
			mpLoosen(r, tree.Kids[3])
			if r.Bool() {
				// the caveat list too: nil for zero values first (decided on the canonical tree), then widths and kinds
				if r.Chance(1, 3) {
					if h := mpNilZero(r, tree.Kids[2]); h > 0 {
						o.count("token.nilzero.cavs")
					}
				}
				mpLoosen(r, tree.Kids[2])
				o.count("token.loosen-cavs")
			}
			if r.Chance(1, 3) {
				m := &mpNode{Kind: mpMap, Kids: []*mpNode{mpStrNode("Tail"), tree.Kids[3], mpStrNode("Nonce"), tree.Kids[0],
					mpStrNode("junk"), {Kind: mpNil}, mpStrNode("UnsafeCaveats"), tree.Kids[2], mpStrNode("Location"), tree.Kids[1]}}
				tree = m
			}
			nb := mpEnc(tree)
			if r.Chance(1, 6) {
				nb = append(nb, r.wTrailing(tb)...)
				o.count("token.trailing")
			}
			o.emit("(dec.mac "+hexb(nb)+")", decMacObs(nb))
			o.emit("(reenc.mac "+hexb(nb)+")", reencMacObs(nb))
		}
	}
	// nonces: both versions; key-ids, random parts and tails of other lengths than the library mints
	for i := 0; i < 300; i++ {
		kl, rl, tl := pick(r, []int{0, 1, 16, 255, 256, 300}), pick(r, []int{0, 16, 16, 15, 17, 32}), pick(r, []int{32, 32, 0, 1, 31, 33, 64})
		o.count(fmt.Sprintf("nonce.kid%d", kl))
		o.count(fmt.Sprintf("nonce.rnd%d", rl))
		o.count(fmt.Sprintf("nonce.tail%d", tl))
		kid, rnd := r.Bytes(kl), r.Bytes(rl)
		var nt *mpNode
		if r.Bool() {
			nt = &mpNode{Kind: mpArr, Kids: []*mpNode{{Kind: mpBin, S: kid}, {Kind: mpBin, S: rnd}}}
		} else {
			nt = &mpNode{Kind: mpArr, Kids: []*mpNode{{Kind: mpBin, S: kid}, {Kind: mpBin, S: rnd}, {Kind: mpBool, B: r.Bool()}}}
		}
		if r.Chance(1, 3) {
			mpNilZero(r, nt)
			mpLoosen(r, nt)
			o.count("nonce.loosened")
		}
		raw := mpEnc(nt)
		tokb := append([]byte{0x94}, raw...)
		tokb = append(tokb, mpEnc(mpStrNode(pick(r, []string{"loc", "loc", "", "LOC", "loc/"})))...)
		tokb = append(tokb, 0x90)
		tokb = append(tokb, mpEnc(&mpNode{Kind: mpBin, S: r.Bytes(tl)})...)
		o.count("nonce")
		o.emit("(dec.mac "+hexb(tokb)+")", decMacObs(tokb))
		o.emit("(reenc.mac "+hexb(tokb)+")", guard(func() string {
			mm, err := macaroon.Decode(tokb)
			if err != nil {
				return "err"
			}
			out, _ := mm.Encode()
			return "ok " + hexb(out)
		}))
	}
	wireNilFields(r, o, tier, n/12)
	// accepted non-canonical TOKENS, judged without the model (struct fields named twice are outside its wire
	// domain): a token written as a map, with one field given twice (another value first or last). Whatever the
	// decoder makes of it, the decoded token is a fixed point of encode/decode - same nonce (key-id, random part,
	// version, proof flag), location, caveats, tail - and verification of the accepted bytes and of their canonical
	// re-encoding agree: both refused, or both accepted with the same caveats.
	for i := 0; i < n/10; i++ {
		key := r.Bytes(32)
		var m *macaroon.Macaroon
		proofTok := r.Chance(1, 3)
		if proofTok {
			c3, err := macaroon.NewCaveat3P(key, "https://wire.example")
			if err != nil {
				continue
			}
			rn, ok := ticketKey(key, c3.Ticket)
			if !ok {
				continue
			}
			_, dm, err := macaroon.DischargeTicket(key, "https://wire.example", c3.Ticket)
			if err != nil {
				continue
			}
			m, key = dm, rn
		} else {
			m, _ = macaroon.New(r.Bytes(pick(r, []int{0, 1, 8})), "https://wire.example", key)
		}
		for k, kk := 0, r.Intn(3); k < kk; k++ {
			m.Add(r.plainCav(1))
		}
		b, err := m.Encode()
		if err != nil {
			continue
		}
		tree, rest, perr := mpParse(b)
		if perr != nil || len(rest) != 0 || tree.Kind != mpArr || len(tree.Kids) != 4 {
			continue
		}
		nt, lt, ct, tt := tree.Kids[0], tree.Kids[1], tree.Kids[2], tree.Kids[3]
		if nt.Kind != mpArr || len(nt.Kids) < 2 {
			continue
		}
		kidN, rndN := nt.Kids[0], nt.Kids[1]
		type alt struct {
			field string
			node  *mpNode
		}
		other, _, _ := mpParse([]byte{0x92, 0x1a, 0x01}) // [Action(read)]
		alts := []alt{
			{"Nonce", &mpNode{Kind: mpArr, Kids: []*mpNode{kidN, rndN, {Kind: mpBool, B: true}}}},
			{"Nonce", &mpNode{Kind: mpArr, Kids: []*mpNode{kidN, rndN, {Kind: mpBool, B: false}}}},
			{"Nonce", &mpNode{Kind: mpArr, Kids: []*mpNode{kidN, rndN}}},
			{"Location", mpStrNode("https://elsewhere.example")},
			{"Tail", &mpNode{Kind: mpBin, S: r.Bytes(32)}},
			{"Tail", &mpNode{Kind: mpBin, S: finalizeSig(m.Tail)}},
			{"UnsafeCaveats", &mpNode{Kind: mpArr}},
			{"UnsafeCaveats", other}, // (a second, non-empty list: the decoder appends to the first)
			{"UnsafeCaveats", ct},    // (the token's own list once more)
		}
		a := pick(r, alts)
		first := r.Bool()
		// (also the token in the old two-field nonce format, for the proof-flag alternatives)
		own := map[string]*mpNode{"Nonce": nt, "Location": lt, "UnsafeCaveats": ct, "Tail": tt}
		if a.field == "Nonce" && r.Bool() {
			own["Nonce"] = &mpNode{Kind: mpArr, Kids: []*mpNode{kidN, rndN}}
		}
		var kids []*mpNode
		for _, f := range []string{"Nonce", "Location", "UnsafeCaveats", "Tail"} {
			if f == a.field && first {
				kids = append(kids, mpStrNode(f), a.node)
			}
			kids = append(kids, mpStrNode(f), own[f])
			if f == a.field && !first {
				kids = append(kids, mpStrNode(f), a.node)
			}
		}
		x := mpEnc(&mpNode{Kind: mpMap, Kids: kids})
		res := guard(func() string {
			m1, err := macaroon.Decode(x)
			if err != nil {
				return "canon" // refused outright
			}
			e1, err := m1.Encode()
			if err != nil {
				return "canon"
			}
			m2, err := macaroon.Decode(e1)
			if err != nil {
				return "accepted-token-does-not-re-decode"
			}
			e2, _ := m2.Encode()
			if !bytes.Equal(e1, e2) || sxMac(m1) != sxMac(m2) {
				return fmt.Sprintf("accepted-token-is-no-fixed-point(field=%s,first=%v):%s:%s", a.field, first, sxNonce(m1.Nonce), sxNonce(m2.Nonce))
			}
			v := func(tok []byte) string {
				mm, err := macaroon.Decode(tok)
				if err != nil {
					return "reject"
				}
				cs, err := mm.Verify(key, nil, nil)
				if err != nil {
					return "reject"
				}
				return "ok " + sxCavs(cs.Caveats)
			}
			if vx, ve := v(x), v(e1); vx != ve {
				return fmt.Sprintf("verdict-differs(field=%s,first=%v): accepted bytes %s, canonical re-encoding %s", a.field, first, vx, ve)
			}
			return "canon"
		})
		o.count("dupfield." + a.field)
		o.emit("(const canon)", res)
	}
	_ = strings.Join
}

// wireNilFields: caveat values holding a nil map or a nil []byte (legal Go values: `&flyio.Volumes{}`, the
// caveat NewCaveat3P returns before Add sealed its key, a zero BindToParentToken).  The library writes wire
// nil for them, the model's value space has no nil map / nil byte string (DESIGN 9.2), so they are judged
// without the model: the encoding is the same every time, decoding and re-encoding reproduces it byte for
// byte, the value that comes back prints like the one that went in and is again a fixed point; and a token
// that carries the value verifies under its key, returning caveats whose encoding is the one that was signed.
func wireNilFields(r *Rng, o *Out, tier string, rounds int) {
	nilVal := func() (macaroon.Caveat, string) {
		switch r.Intn(12) {
		case 0:
			return &flyio.Apps{}, "apps"
		case 1:
			return &flyio.Volumes{}, "volumes"
		case 2:
			return &flyio.Machines{}, "machines"
		case 3:
			return &flyio.FeatureSet{}, "featureSet"
		case 4:
			return &flyio.MachineFeatureSet{}, "machineFeatureSet"
		case 5:
			return &flyio.AppFeatureSet{}, "appFeatureSet"
		case 6:
			return &flyio.Clusters{}, "clusters"
		case 7:
			return &flyio.StorageObjects{}, "storageObjects"
		case 8:
			var b macaroon.BindToParentToken
			return &b, "bind"
		case 9:
			return &macaroon.Caveat3P{Location: pick(r, wideLocs), Ticket: r.Bytes(40)}, "tp.nil-verifierkey"
		case 10:
			return &macaroon.Caveat3P{Location: pick(r, wideLocs), VerifierKey: r.Bytes(60)}, "tp.nil-ticket"
		default:
			return &macaroon.Caveat3P{}, "tp.zero"
		}
	}
	for i := 0; i < rounds; i++ {
		c, tag := nilVal()
		cs := []macaroon.Caveat{c}
		switch r.Intn(4) {
		case 0:
			cs = []macaroon.Caveat{&resset.IfPresent{Ifs: macaroon.NewCaveatSet(c, r.plainCav(0)), Else: r.wMask()}}
			tag += ".wrapped"
		case 1:
			c2, _ := nilVal()
			cs = []macaroon.Caveat{r.plainCav(1), c, c2}
			tag += ".in-set"
		}
		o.count("nilfield." + tag)
		res := guard(func() string {
			set := macaroon.NewCaveatSet(cs...)
			b1, err := set.MarshalMsgpack()
			if err != nil {
				return "canon" // (an unencodable neighbour: nothing to compare)
			}
			if b2, err := set.MarshalMsgpack(); err != nil || !bytes.Equal(b1, b2) {
				return "encoding-changes-between-calls"
			}
			d1, err := macaroon.DecodeCaveats(b1)
			if err != nil {
				return "own-encoding-refused"
			}
			if sxCavs(d1.Caveats) != sxCavs(cs) {
				return "value-changed:" + sxCavs(cs) + ":" + sxCavs(d1.Caveats)
			}
			e1, err := d1.MarshalMsgpack()
			if err != nil {
				return "decoded-value-does-not-encode"
			}
			if !bytes.Equal(e1, b1) {
				return "re-encoding-differs:" + hexb(b1) + ":" + hexb(e1)
			}
			d2, err := macaroon.DecodeCaveats(e1)
			if err != nil || sxCavs(d2.Caveats) != sxCavs(d1.Caveats) {
				return "no-fixed-point"
			}
			// carried by a token (third-party caveats need their keys: Add would re-seal them; they are hand-
			// chained instead, as a holder working from bytes would)
			key := r.Bytes(32)
			tok, err := macaroon.New([]byte("kid"), "https://wire.example", key)
			if err != nil {
				return "canon"
			}
			for _, x := range cs {
				xb, err := encOne(x)
				if err != nil {
					return "canon"
				}
				tok.UnsafeCaveats.Caveats = append(tok.UnsafeCaveats.Caveats, x)
				tok.Tail = hmacSum(tok.Tail, xb)
			}
			tb, err := tok.Encode()
			if err != nil {
				return "token-does-not-encode"
			}
			t2, err := macaroon.Decode(tb)
			if err != nil {
				return "own-token-refused"
			}
			tb2, err := t2.Encode()
			if err != nil || !bytes.Equal(tb, tb2) {
				return "token-re-encoding-differs"
			}
			if !has3POrBind(cs) {
				// (verification looks for a discharge per third-party caveat and checks top-level bindings
				// against the parent: such tokens are not meant to verify on their own)
				vcs, err := t2.Verify(key, nil, nil)
				if err != nil {
					return "signed-token-does-not-verify:" + verifyClass(err)
				}
				vb, err := vcs.MarshalMsgpack()
				if err != nil || !bytes.Equal(vb, b1) {
					return "cleared-caveats-are-not-the-signed-ones"
				}
			}
			return "canon"
		})
		o.emit("(const canon)", res)
	}
}

func has3POrBind(cs []macaroon.Caveat) bool {
	for _, c := range cs {
		switch c.(type) {
		case *macaroon.Caveat3P, *macaroon.BindToParentToken:
			return true
		}
	}
	return false
}
