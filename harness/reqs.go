package main

// Request ("Access") types of the harness.  The library's caveats look at a
// request through optional interfaces; these types implement chosen subsets of
// them, with a harness-controlled clock and Validate() result.

import (
	"fmt"
	"strings"
	"time"

	"github.com/superfly/macaroon"
	"github.com/superfly/macaroon/auth"
	"github.com/superfly/macaroon/flyio"
	"github.com/superfly/macaroon/resset"
)

// Dyn holds every value a request can expose.
type Dyn struct {
	NowSec   int64
	NowNsec  int64
	WF       string // "" = Validate() returns nil; else a leaf name
	Action   resset.Action
	Org      *uint64
	App      *uint64
	AppFeat  *string
	Feature  *string
	Volume   *string
	Machine  *string
	MachFeat *string
	Cluster  *string
	Storage  *resset.Prefix
	Mutation *string
	SrcMach  *string
	SrcApp   *string
	SrcOrg   *string
	Command  []string
	HasCmd   bool // Command is non-nil (possibly empty)
	Roles    []flyio.Role
}

type core struct{ d *Dyn }

func (c core) Now() time.Time { return time.Unix(c.d.NowSec, c.d.NowNsec) }
func (c core) Validate() error {
	switch c.d.WF {
	case "":
		return nil
	case "other":
		return errForeign
	case "invalidAccess":
		return fmt.Errorf("%w: harness", macaroon.ErrInvalidAccess)
	case "resUnspecified":
		return fmt.Errorf("%w harness", resset.ErrResourceUnspecified)
	case "resMutEx":
		return fmt.Errorf("%w harness", resset.ErrResourcesMutuallyExclusive)
	case "unauthorized":
		return fmt.Errorf("%w harness", macaroon.ErrUnauthorized)
	}
	panic("bad WF " + c.d.WF)
}

type mAction struct{ d *Dyn }
type mOrg struct{ d *Dyn }
type mApp struct{ d *Dyn }
type mAppFeat struct{ d *Dyn }
type mFeature struct{ d *Dyn }
type mVolume struct{ d *Dyn }
type mMachine struct{ d *Dyn }
type mMachFeat struct{ d *Dyn }
type mCluster struct{ d *Dyn }
type mStorage struct{ d *Dyn }
type mMutation struct{ d *Dyn }
type mSrcMach struct{ d *Dyn }
type mSrcApp struct{ d *Dyn }
type mSrcOrg struct{ d *Dyn }
type mCommand struct{ d *Dyn }
type mRoles struct{ d *Dyn }

func (m mAction) GetAction() resset.Action          { return m.d.Action }
func (m mOrg) GetOrgID() *uint64                    { return m.d.Org }
func (m mApp) GetAppID() *uint64                    { return m.d.App }
func (m mAppFeat) GetAppFeature() *string           { return m.d.AppFeat }
func (m mFeature) GetFeature() *string              { return m.d.Feature }
func (m mVolume) GetVolume() *string                { return m.d.Volume }
func (m mMachine) GetMachine() *string              { return m.d.Machine }
func (m mMachFeat) GetMachineFeature() *string      { return m.d.MachFeat }
func (m mCluster) GetCluster() *string              { return m.d.Cluster }
func (m mStorage) GetStorageObject() *resset.Prefix { return m.d.Storage }
func (m mMutation) GetMutation() *string            { return m.d.Mutation }
func (m mSrcMach) GetSourceMachine() *string        { return m.d.SrcMach }
func (m mSrcApp) GetSourceApp() *string             { return m.d.SrcApp }
func (m mSrcOrg) GetSourceOrganization() *string    { return m.d.SrcOrg }
func (m mCommand) GetCommand() []string {
	if !m.d.HasCmd {
		return nil
	}
	if m.d.Command == nil {
		return []string{}
	}
	return m.d.Command
}
func (m mRoles) GetPermittedRoles() []flyio.Role { return m.d.Roles }

// the menu of request types: which getters each implements
type tBare struct{ core }
type tAction struct {
	core
	mAction
}
type tFull struct {
	core
	mAction
	mOrg
	mApp
	mAppFeat
	mFeature
	mVolume
	mMachine
	mMachFeat
	mCluster
	mStorage
	mMutation
	mSrcMach
	mSrcApp
	mSrcOrg
	mCommand
	mRoles
}
type tFullNoAction struct {
	core
	mOrg
	mApp
	mAppFeat
	mFeature
	mVolume
	mMachine
	mMachFeat
	mCluster
	mStorage
	mMutation
	mSrcMach
	mSrcApp
	mSrcOrg
	mCommand
	mRoles
}
type tOrg struct {
	core
	mAction
	mOrg
}
type tApp struct {
	core
	mAction
	mApp
}
type tAppFeat struct {
	core
	mAction
	mAppFeat
}
type tFeature struct {
	core
	mAction
	mFeature
}
type tVolume struct {
	core
	mAction
	mVolume
}
type tMachine struct {
	core
	mAction
	mMachine
}
type tMachFeat struct {
	core
	mAction
	mMachFeat
}
type tCluster struct {
	core
	mAction
	mCluster
}
type tStorage struct {
	core
	mAction
	mStorage
}
type tMutation struct {
	core
	mMutation
}
type tSrc struct {
	core
	mSrcMach
	mSrcApp
	mSrcOrg
}
type tSrcMachOnly struct {
	core
	mSrcMach
}
type tCommand struct {
	core
	mCommand
}
type tRoles struct {
	core
	mRoles
}
type tOrgApp struct {
	core
	mAction
	mOrg
	mApp
	mRoles
}

var dynKinds = []string{"bare", "action", "full", "fullNoAction", "org", "app", "appFeat", "feature",
	"volume", "machine", "machFeat", "cluster", "storage", "mutation", "src", "srcMachOnly", "command",
	"roles", "orgApp"}

// implemented getters per kind, in the order the printer uses
var dynImpl = map[string][]string{
	"bare":         {},
	"action":       {"action"},
	"full":         {"action", "org", "app", "appFeature", "feature", "volume", "machine", "machineFeature", "cluster", "storageObject", "mutation", "sourceMachine", "sourceApp", "sourceOrg", "command", "roles"},
	"fullNoAction": {"org", "app", "appFeature", "feature", "volume", "machine", "machineFeature", "cluster", "storageObject", "mutation", "sourceMachine", "sourceApp", "sourceOrg", "command", "roles"},
	"org":          {"action", "org"},
	"app":          {"action", "app"},
	"appFeat":      {"action", "appFeature"},
	"feature":      {"action", "feature"},
	"volume":       {"action", "volume"},
	"machine":      {"action", "machine"},
	"machFeat":     {"action", "machineFeature"},
	"cluster":      {"action", "cluster"},
	"storage":      {"action", "storageObject"},
	"mutation":     {"mutation"},
	"src":          {"sourceMachine", "sourceApp", "sourceOrg"},
	"srcMachOnly":  {"sourceMachine"},
	"command":      {"command"},
	"roles":        {"roles"},
	"orgApp":       {"action", "org", "app", "roles"},
}

func (d *Dyn) As(kind string) macaroon.Access {
	c := core{d}
	switch kind {
	case "bare":
		return tBare{c}
	case "action":
		return tAction{c, mAction{d}}
	case "full":
		return tFull{c, mAction{d}, mOrg{d}, mApp{d}, mAppFeat{d}, mFeature{d}, mVolume{d}, mMachine{d}, mMachFeat{d}, mCluster{d}, mStorage{d}, mMutation{d}, mSrcMach{d}, mSrcApp{d}, mSrcOrg{d}, mCommand{d}, mRoles{d}}
	case "fullNoAction":
		return tFullNoAction{c, mOrg{d}, mApp{d}, mAppFeat{d}, mFeature{d}, mVolume{d}, mMachine{d}, mMachFeat{d}, mCluster{d}, mStorage{d}, mMutation{d}, mSrcMach{d}, mSrcApp{d}, mSrcOrg{d}, mCommand{d}, mRoles{d}}
	case "org":
		return tOrg{c, mAction{d}, mOrg{d}}
	case "app":
		return tApp{c, mAction{d}, mApp{d}}
	case "appFeat":
		return tAppFeat{c, mAction{d}, mAppFeat{d}}
	case "feature":
		return tFeature{c, mAction{d}, mFeature{d}}
	case "volume":
		return tVolume{c, mAction{d}, mVolume{d}}
	case "machine":
		return tMachine{c, mAction{d}, mMachine{d}}
	case "machFeat":
		return tMachFeat{c, mAction{d}, mMachFeat{d}}
	case "cluster":
		return tCluster{c, mAction{d}, mCluster{d}}
	case "storage":
		return tStorage{c, mAction{d}, mStorage{d}}
	case "mutation":
		return tMutation{c, mMutation{d}}
	case "src":
		return tSrc{c, mSrcMach{d}, mSrcApp{d}, mSrcOrg{d}}
	case "srcMachOnly":
		return tSrcMachOnly{c, mSrcMach{d}}
	case "command":
		return tCommand{c, mCommand{d}}
	case "roles":
		return tRoles{c, mRoles{d}}
	case "orgApp":
		return tOrgApp{c, mAction{d}, mOrg{d}, mApp{d}, mRoles{d}}
	}
	panic("bad kind " + kind)
}

func optU64(name string, p *uint64) string {
	if p == nil {
		return "(" + name + ")"
	}
	return fmt.Sprintf("(%s %d)", name, *p)
}
func optStr(name string, p *string) string {
	if p == nil {
		return "(" + name + ")"
	}
	return fmt.Sprintf("(%s %s)", name, hs(*p))
}

func (d *Dyn) field(name string) string {
	switch name {
	case "action":
		return fmt.Sprintf("(action %d)", uint16(d.Action))
	case "org":
		return optU64("org", d.Org)
	case "app":
		return optU64("app", d.App)
	case "appFeature":
		return optStr("appFeature", d.AppFeat)
	case "feature":
		return optStr("feature", d.Feature)
	case "volume":
		return optStr("volume", d.Volume)
	case "machine":
		return optStr("machine", d.Machine)
	case "machineFeature":
		return optStr("machineFeature", d.MachFeat)
	case "cluster":
		return optStr("cluster", d.Cluster)
	case "storageObject":
		if d.Storage == nil {
			return "(storageObject)"
		}
		return fmt.Sprintf("(storageObject %s)", hs(string(*d.Storage)))
	case "mutation":
		return optStr("mutation", d.Mutation)
	case "sourceMachine":
		return optStr("sourceMachine", d.SrcMach)
	case "sourceApp":
		return optStr("sourceApp", d.SrcApp)
	case "sourceOrg":
		return optStr("sourceOrg", d.SrcOrg)
	case "command":
		if !d.HasCmd {
			return "(command)"
		}
		parts := []string{"args"}
		for _, a := range d.Command {
			parts = append(parts, hs(a))
		}
		return "(command (" + strings.Join(parts, " ") + "))"
	case "roles":
		parts := []string{"roles"}
		for _, r := range d.Roles {
			parts = append(parts, fmt.Sprint(uint32(r)))
		}
		return "(" + strings.Join(parts, " ") + ")"
	}
	panic(name)
}

// Sx prints the request as the kind sees it: only implemented getters appear.
// (name) = implemented, returns nil; (name v) = implemented with a value.
func (d *Dyn) Sx(kind string) string {
	wf := d.WF
	if wf == "" {
		wf = "ok"
	}
	parts := []string{"dyn", fmt.Sprint(d.NowSec), fmt.Sprint(d.NowNsec), wf}
	for _, f := range dynImpl[kind] {
		parts = append(parts, d.field(f))
	}
	return "(" + strings.Join(parts, " ") + ")"
}

// FlyioAccess builds the library's own request type from the same values.
func (d *Dyn) FlyioAccess() *flyio.Access {
	a := &flyio.Access{Action: d.Action, OrgID: d.Org, AppID: d.App, AppFeature: d.AppFeat, Feature: d.Feature,
		Volume: d.Volume, Machine: d.Machine, MachineFeature: d.MachFeat, Mutation: d.Mutation,
		SourceMachine: d.SrcMach, SourceApp: d.SrcApp, SourceOrganization: d.SrcOrg, Cluster: d.Cluster,
		StorageObject: d.Storage}
	if d.HasCmd {
		a.Command = d.Command
		if a.Command == nil {
			a.Command = []string{}
		}
	}
	return a
}

// SxFlyio prints a *flyio.Access: absent field = nil pointer. now is the wall clock bracket
// chosen by the caller (flyio.Access.Now() is time.Now()).
func (d *Dyn) SxFlyio(nowSec, nowNsec int64) string {
	parts := []string{"flyio", fmt.Sprint(nowSec), fmt.Sprint(nowNsec), fmt.Sprint(uint16(d.Action))}
	add := func(name string, p *string) {
		if p != nil {
			parts = append(parts, fmt.Sprintf("(%s %s)", name, hs(*p)))
		}
	}
	if d.Org != nil {
		parts = append(parts, fmt.Sprintf("(org %d)", *d.Org))
	}
	if d.App != nil {
		parts = append(parts, fmt.Sprintf("(app %d)", *d.App))
	}
	add("appFeature", d.AppFeat)
	add("feature", d.Feature)
	add("volume", d.Volume)
	add("machine", d.Machine)
	add("machineFeature", d.MachFeat)
	add("mutation", d.Mutation)
	add("sourceMachine", d.SrcMach)
	add("sourceApp", d.SrcApp)
	add("sourceOrg", d.SrcOrg)
	add("cluster", d.Cluster)
	if d.HasCmd {
		ps := []string{"args"}
		for _, a := range d.Command {
			ps = append(ps, hs(a))
		}
		parts = append(parts, "(command ("+strings.Join(ps, " ")+"))")
	}
	if d.Storage != nil {
		parts = append(parts, fmt.Sprintf("(storageObject %s)", hs(string(*d.Storage))))
	}
	return "(" + strings.Join(parts, " ") + ")"
}

// discharge requests
func sxDR(dr *auth.DischargeRequest, nowSec, nowNsec int64) string {
	var sb strings.Builder
	fmt.Fprintf(&sb, "(dr %d %d (flyio", nowSec, nowNsec)
	for _, f := range dr.Flyio {
		fmt.Fprintf(&sb, " (%d", f.UserID)
		for _, o := range f.OrganizationIDs {
			fmt.Fprintf(&sb, " %d", o)
		}
		sb.WriteString(")")
	}
	sb.WriteString(") (google")
	for _, g := range dr.Google {
		sb.WriteString(" " + hs(g.HD))
	}
	sb.WriteString(") (github")
	for _, g := range dr.GitHub {
		sb.WriteString(" (orgs")
		for _, o := range g.OrgIDs {
			fmt.Fprintf(&sb, " %d", o)
		}
		sb.WriteString(")")
	}
	fmt.Fprintf(&sb, ") (expiry %d %d))", dr.Expiry.Unix(), dr.Expiry.Nanosecond())
	return sb.String()
}
