#!/bin/sh
# Build the framework once from files on disk (offline): Lean project (model, theorems, driver) and Go tools.
set -e
cd "$(dirname "$0")"
export GOFLAGS=-mod=mod GOPROXY=off GOSUMDB=off GOTOOLCHAIN=local
mkdir -p work/bin evidence
if [ -f extract/READY ]; then
  (cd extract && go build -o ../work/bin/extract . && ../work/bin/extract -repo /repo -out ../lean/Macaroon/Generated)
fi
(cd lean && lake build)
cp /repo/go.sum harness/go.sum
(cd harness && go build -tags verif -o ../work/bin/harness .)
echo setup done
