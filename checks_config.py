# Per-property configuration shared by ./check and tools/mkmanifest.py.
#
# props      : Lean module holding the property theorems (Macaroon/Props/<id>.lean)
# families   : Go harness scenario families whose operations are replayed on the model
# pobs       : how the P-observable (what the property statement constrains) is cut out of
#              an output line; everything else on the line is a fidelity observable
# generated  : True if the property's theorems are stated over tables regenerated from /repo

TRUSTED_BASE = [
    "Lean 4.33 kernel (thorough tier re-checks the compiled modules with leanchecker)",
    "axioms: at most propext, Classical.choice, Quot.sound (audited from #print axioms on every run); no native_decide, no bv_decide, no user axioms, no sorry",
    "hand-written Lean model tied to /repo by differential execution (Go harness vs compiled model driver) on generated inputs: as strong as its generators, whose distribution is in this file",
    "Lean compiler/runtime executing the model definitions as defined; the S-expression line protocol (Driver/*.lean, harness/sx.go)",
    "Go runtime and standard library, vmihailenco/msgpack, golang-lru, x/crypto are modelled, not verified",
]

CHECKS = {
    "C03": {
        "props": "Macaroon.Props.C03",
        "families": ["clear"],
        "pobs": "okdeny",
        "technique": "Lean 4 proof (refinement of Validate to a conjunction spec; exhaustive case analysis on caveat kinds) + differential correspondence model/Go",
        "design_ref": "DESIGN.md §3 C03",
        "text": "validate_iff, single_prohibition_denies, single_malformed_request_denies, validate_perm, unevaluable_denies, missing_information_denies are proved in Lean for all caveat sets (nested wrappers included), all request lists and orders over the registered caveat universe; the model functions are executed against CaveatSet.Validate/Prohibits on generated sets x request types and the kind x request-type product",
        "note": "model is hand-written; tie is differential (family clear). Caveat types registered by downstream users are outside the model. Decoding side of 'unknown types deny' (unknown numbers decode to UnregisteredCaveat) is covered by the wire model (C11).",
    },
    "C09": {
        "props": "Macaroon.Props.C09",
        "families": ["resset"],
        "pobs": "okdeny_unspec",
        "technique": "Lean 4 proof (iff characterisations; mutual structural induction over nested caveat trees for monotonicity) + differential correspondence model/Go, exhaustive over a small universe",
        "design_ref": "DESIGN.md §3 C09",
        "text": "resset_permits_iff (named / prefix-covered / lone wildcard, action within the intersection of all matching masks), resset_unspecified, resset_mixed_denies, resset_error_classes, action_iff, ifPresent_semantics, ifPresent_never_unspecified and permit_antitone_in_action (every caveat tree of the registered universe, any nesting depth, every request) are proved in Lean; the model is run against the real Prohibits methods exhaustively over sets of <=2 entries x ids x masks x requests and on random conditionals of depth <=4",
        "note": "tie is differential (family resset); P-observable = permit/deny and the ErrResourceUnspecified bit; full error-leaf sequence compared as fidelity observable.",
    },
    "C10": {
        "props": "Macaroon.Props.C10",
        "families": ["flyio"],
        "pobs": "okdeny",
        "technique": "Lean 4 proof (one iff per caveat kind, well-formedness iff by exhaustive case split) + differential correspondence model/Go incl. all 2^13 presence patterns; declarative validity-window rule evaluated against the implementation",
        "design_ref": "DESIGN.md §3 C10",
        "text": "organization_iff, resource_caveats_iff (8 kinds, instances of C09), mutations_iff, commands_iff (prefix / exact), allowedRoles_iff, isMember_iff, permittedRoles_spec, fromMachine_iff, flySrc_iff, isUser_permits, access_wf_iff are proved for all values; validityWindow_iff_partial is proved for bounds whose absolute time is representable, with validityWindow_overflow_witness recording what the int64 wrap-around does beyond; the exact-instant rule (Spec.inWindow) is executed against the implementation at and around the bounds, extreme bounds included",
        "note": "tie is differential (family flyio); flyio.Access.Now() is the wall clock, used only far from any generated bound; MemberFeatures table cross-checked against the regenerated constants.",
    },
    "C15": {
        "props": "Macaroon.Props.C15",
        "families": ["conc"],
        "pobs": "conc",
        "generated": True,
        "technique": "Lean 4 proof over all thread counts and schedules of an RWMutex model (invariant + progress), instantiated on lock traces regenerated from /repo/bundle by a go/ast+go/types extractor; stress runner under watchdog (and -race in the thorough tier) as search/validation",
        "design_ref": "DESIGN.md §3 C15",
        "text": "flat_deadlock_free, flat_race_free, flat_all_finish (Lemmas/RWMutex.lean: any number of threads, any schedule, writer-preferring RWMutex) are instantiated by bundle_entry_points_flat (decide over the regenerated table of every exported Bundle entry point and path) to bundle_deadlock_free / bundle_race_free / bundle_all_return for goroutines running arbitrary call sequences, incl. Select-derived bundles (derived_bundles_share_guard). Partial: Go memory model, runtime mutex and pointee races via UnsafeMacaroon() are outside the model; callbacks assumed not to re-enter the bundle.",
        "note": "tie = regenerated lock traces (extractor fails closed on constructs it does not understand; reader/writer classification of the tokens methods is computed from the source plus a one-entry expectation table) + stress runs of every (entry, writer) pair with a watchdog and an all-added-tokens-present post-condition.",
    },
    "C18": {
        "props": "Macaroon.Props.C18",
        "families": ["authcav"],
        "pobs": "okdeny",
        "technique": "Lean 4 proof (one iff per condition; 64-bit arithmetic of duration()/Time.Sub by reduction to linear integer arithmetic; mutual structural induction over nested caveat trees for GetCaveats) + differential correspondence model/Go with the wall clock bracketed",
        "design_ref": "DESIGN.md §3 C18",
        "text": "confineUser_iff, confineOrganization_iff, confineGoogleHD_iff, confineGitHubOrg_iff (membership in the union over ALL presented identities), no_identity_denies, other_request_denied (all five kinds -> ErrInvalidAccess) are proved for all values and requests; maxValidity_iff_wrapped (permits iff exact lifetime <= the wrapped int64 duration), maxValidity_sound (permitted => exact lifetime <= secs*10^9 in unbounded integers, for every uint64 limit), maxValidity_exact (iff when secs*10^9 < 2^63), getMaxValidity_min (minimum over all limits at any nesting depth; <= every true limit; the true minimum when none overflows; flag iff a limit exists), getMaxValidity_order_independent; the model is executed against Prohibits on discharge requests with 0-3 identities per provider and boundary limits, and against GetMaxValidity on sets with limits nested to depth 3",
        "note": "tie is differential (family authcav); DischargeRequest.Now() is the wall clock: the request time is read just before the call, MaxValidity cases with expiry == now are discarded and counted, all other expiries are >= 2 s from the decision boundary. Limits whose true duration is not representable (secs > 9223372036) deny more than the author asked: allowed by the property text (wrapped_limit). Confine* errors wrap nothing (errors.Is(err, ErrUnauthorized) is false): modelled as leaf `confine`.",
    },
    "C17": {
        "props": "Macaroon.Props.C17",
        "families": ["scope"],
        "pobs": "scope",
        "technique": "Lean 4 proof (GetCaveats = caveats nested anywhere; a definite denial propagates through any depth of conditionals; refinement of each helper to a declarative spec over all caveat sets) + differential correspondence model/Go + brute-force CaveatSet.Validate oracle over the id universe",
        "design_ref": "DESIGN.md §3 C17",
        "text": "getCaveats_finds_nested, nested_denial_denies_set, orgScope_sound, appScope_sound, clusterScope_sound (full, after the repair of F11; preFix_clusterScope_left_out_may_clear is the old code's counterexample), appsAllowing_sound (the list is exactly the app ids whose request clears; nil => every id clears), expiration_is_window_end, expiration_is_earliest, expiration_sound / verifiedExpiration_sound, window_in_conditional_always_applies are proved for every caveat set of the registered universe (wrappers nested arbitrarily), every request type and action. Helper results are compared with the model; spec.scope.* lines compare each helper answer with brute-force Validate over ids x actions x request shapes (observable sound / unsound:<clause>:<id>).",
        "note": "tie is differential (family scope); P-observable = the oracle verdict of the spec.scope.* lines, helper results are fidelity observables. AppsAllowing reads the wall clock through flyio.Access.Now(): it is an explicit model input, generated windows stay >= 1h from it. Order independence of the sorted results is exercised, not proved.",
    },
    "C16": {
        "props": "Macaroon.Props.C16",
        "families": ["tp"],
        "pobs": "tp",
        "technique": "Lean 4 proof (invariants by induction over arbitrary action lists for the handler-level state machine, and over arbitrary schedules for the store-operation semantics in which concurrent handlers interleave at every store call) + differential correspondence against the real tp.TP/MemoryStore driven in-process through httptest, with a wrapping tp.Store that parks every store operation so that the exact interleaving is replayed on the model",
        "design_ref": "DESIGN.md §3 C16",
        "text": "discharge_only_after_approval, not_ready_before_decision, abort_delivers_error, approve_delivers_discharge, gone_after_collection, unknown_secret_not_found, cross_used_secret_not_found, bad_ticket_short_circuits, not_found_is_silent are proved for every history (any number of flows, any secrets presented, arbitrary LRU evictions); il_discharge_only_after_approval, il_unknown_secret_not_found, il_cross_used_not_inserted and il_gone_after_collection_hb (happens-before form: handlers that start after a delivering poll returned) are proved for every interleaving of store operations; sequential_schedule_refines ties the two semantics; racing_polls_both_answered records (decide) that two polls racing on one secret can both be answered because DeleteByPollSecret is get-then-remove - not a violation, the property speaks about polls after collection. Partial: the concurrent half rests on every store operation being atomic (LRU lock, per-record RWMutex), Delete split in two.",
        "note": "tie is differential (family tp): random histories (<=20 actions, 1-4 flows) with real tickets (valid, bit-flipped, foreign-key, empty, garbage, unparsable request) and right/wrong/swapped/never-issued/empty secrets; every returned discharge is verified against every pool token; sched lines replay the exact store-operation interleaving incl. the store-operation log; LRU evictions are observed after each Insert and fed to the model. Idealised: BLAKE2b injective, 128-bit secrets fresh and unguessable, discharge cryptography abstracted (C04/C05), one responder call per init request.",
    },
    "C20": {
        "props": "Macaroon.Props.C20",
        "families": ["client"],
        "pobs": "line",
        "technique": "Lean 4 proof (closed form of the option fold; induction over scripted third-party answers; transliteration of net/url go1.23.5 with a component-wise host lemma) + differential correspondence model/Go against an in-process recording RoundTripper, all permutations of <=5 options",
        "design_ref": "DESIGN.md §3 C20",
        "text": "attach_iff, hostname_of_built_url (+ built_url_host, port_scheme_path_ignored, trusted_name_elsewhere_is_not_the_host, subdomain_superdomain_get_nothing, other_hosts_get_nothing), init_request_gets_credential, options_order_irrelevant, inner_transport, every_request_through_attach, credential_only_to_its_host, ignored_never_contacted, ignored_iff, result_header are proved for all option lists, URLs over the net/url component alphabets, and all scripted third parties; in_place_header_leaks_to_subdomain is the negative witness for RoundTrip writing into the caller's request (F13, repaired)",
        "note": "tie is differential (family client). net/url outside the modelled shapes ('%' in the authority zone, invalid UTF-8, relative redirect Locations) is skipped-and-counted on both sides; net/http redirect handling (fresh RoundTrip per hop, header copy rule, 10-request limit, Basic from userinfo) is modelled, exercised, not verified. The collected-discharge order is compared as a multiset.",
    },
    "C11": {
        "props": "Macaroon.Props.C11",
        "families": ["wire"],
        "pobs": "line",
        "technique": "Lean 4 proof (byte-level msgpack round trip dec/enc in both directions by mutual structural recursion; typed codec round trip, injectivity, re-encode fixed point for every accepted byte string, order-independence of the resource-set normal form) + differential correspondence model/Go on canonical and loosened encodings",
        "design_ref": "DESIGN.md §3 C11",
        "text": "decode_encode_cavs / _mac / _ticket (every well-formed value of every registered kind, nested wrappers, unknown types), encCav_injective, encCavSet_injective, encNonce_injective, reencode_fixed_point (for EVERY accepted byte string: the decoded caveats are canonical and re-decoding their encoding is the identity, with fuel+2 since the canonical form can nest two levels deeper), reencode_stable, encode_order_independent (lookup, permutation and bytes forms: the encoding factors through the final Go map, not the insertion order), unregistered_passthrough (byte for byte), unknown_type_is_kept are proved in Lean on top of the byte-level theorems dec_enc / enc_dec (Lemmas/Msgpack.lean). signed_is_cleared is the structural fact verify_returns_carried/verify_char of C01/C04 (the values returned are the values MACed). JSON half: not modelled yet (partial).",
        "note": "tie is differential (family wire): Go encoder bytes == model encoder bytes for every generated value with maps rebuilt in random insertion orders; Go decode / re-encode == model on canonical bytes and on loosened encodings (wider/signed ints, str<->bin, longer length headers, map-encoded structs with shuffled and unknown keys). Not modelled (excluded from the theorems' domain and from the generators): ext headers in front of map lengths, wire nil for []byte fields (read as empty), duplicate fields in map-encoded structs merging Go maps. JSON rendering (encoding/json) is outside the model: partial.",
    },
    "C19": {
        "props": "Macaroon.Props.C19",
        "families": ["header"],
        "pobs": "line",
        "generated": True,
        "technique": "Lean 4 proof (structural induction over header text: trim/cut/split lemmas, unfolding equation and idempotence of scheme stripping, base64 round trip and alphabet, refinement of Parse to a declarative entry grammar) + differential correspondence model/Go incl. a corruption stream; constants checked against regenerated Consts",
        "design_ref": "DESIGN.md §3 C19",
        "text": "parse_format / parse_toAuthorizationHeader / parse_decorated_toAuthorizationHeader / parse_format_labels_oauth (every non-empty list of non-empty tokens, every decoration = Unicode white space + any number of FlyV1/Bearer words in any case each followed by white space containing a U+0020, any of the three labels, OAuth entries interleaved), format_injective, parse_rejects (no separator, unknown label, bad base64, empty payload, no macaroon entry -> ErrUnrecognizedToken; every Parse failure is in that class), parse_accepts_only (converse), split_by_location, permission_and_discharge_ok_iff / _error_class, parseToks_total_classification, header_parseToks, tokeniser_agrees_with_parse, strip_idempotent are proved for all inputs; roundtrip_fails_without_hypotheses records the boundary (no token / empty token).",
        "note": "tie is differential (family header); P-observable = the whole line (returned token list, error class, printed header). Headers are modelled as code points of valid UTF-8 (harness sends only such); macaroon.Decode is an oracle passed per token; consts_match ties labels/schemes/flyio location to Generated.Consts.",
    },
}

# reasons for properties not claimed yet (MANIFEST.not_applicable)
PENDING = {}
