# Per-property configuration shared by ./check and tools/mkmanifest.py.
#
# props      : Lean module holding the property theorems (Macaroon/Props/<id>.lean)
# families   : Go harness scenario families whose operations are replayed on the model
# pobs       : how the P-observable (what the property statement constrains) is cut out of
#              an output line; everything else on the line is a fidelity observable
# generated  : True if the property's theorems are stated over tables regenerated from /repo

TRUSTED_BASE = [
    "Lean 4.33 kernel (thorough tier re-checks the compiled modules with leanchecker)",
    "axioms: at most propext, Classical.choice, Quot.sound (audited from #print axioms on every run); no native_decide, no bv_decide, no user axioms, no sorry",
    "hand-written Lean model tied to /repo by differential execution (Go harness vs compiled model driver) on generated inputs: as strong as its generators, whose distribution is in this file",
    "Lean compiler/runtime executing the model definitions as defined; the S-expression line protocol (Driver/*.lean, harness/sx.go)",
    "Go runtime and standard library, vmihailenco/msgpack, golang-lru, x/crypto are modelled, not verified",
]

CHECKS = {
    "C03": {
        "props": "Macaroon.Props.C03",
        "families": ["clear"],
        "pobs": "okdeny",
        "technique": "Lean 4 proof (refinement of Validate to a conjunction spec; exhaustive case analysis on caveat kinds) + differential correspondence model/Go",
        "design_ref": "DESIGN.md §3 C03",
        "text": "validate_iff, single_prohibition_denies, single_malformed_request_denies, validate_perm, unevaluable_denies, missing_information_denies are proved in Lean for all caveat sets (nested wrappers included), all request lists and orders over the registered caveat universe; the model functions are executed against CaveatSet.Validate/Prohibits on generated sets x request types and the kind x request-type product",
        "note": "model is hand-written; tie is differential (family clear). Caveat types registered by downstream users are outside the model. Decoding side of 'unknown types deny' (unknown numbers decode to UnregisteredCaveat) is covered by the wire model (C11).",
    },
}

# reasons for properties not claimed yet (MANIFEST.not_applicable)
PENDING = {}
