package main

import (
	"go/ast"
	"go/token"
	"go/types"
)

type pstate uint8

const (
	stLive pstate = iota
	stReturn
	stBreak
	stContinue
)

// path is one control-flow path through a function body.
type path struct {
	ev     []Ev
	defers []Ev // deferred mutex operations, in order of the defer statements
	st     pstate
}

func (p path) add(t []Ev) path {
	return path{ev: concat(p.ev, t), defers: p.defers, st: p.st}
}

func pathKey(p path) string {
	return evString(p.ev) + "|" + evString(p.defers) + "|" + string(rune('0'+p.st))
}

func (fr *frame) norm(pos token.Pos, ps []path) []path {
	seen := map[string]bool{}
	out := ps[:0:0]
	for _, p := range ps {
		k := pathKey(p)
		if !seen[k] {
			seen[k] = true
			out = append(out, p)
		}
	}
	if len(out) > maxPaths {
		failf(pos, "more than %d control-flow paths in %s (while analysing %s)", maxPaths, fr.name, fr.a.curRoot)
	}
	return out
}

// apply appends the alternatives a to every live path.
func (fr *frame) apply(pos token.Pos, ps []path, a alts) []path {
	if len(a) == 1 && len(a[0]) == 0 {
		return ps
	}
	var out []path
	for _, p := range ps {
		if p.st != stLive {
			out = append(out, p)
			continue
		}
		for _, t := range a {
			out = append(out, p.add(t))
		}
	}
	return fr.norm(pos, out)
}

func split(ps []path) (live, rest []path) {
	for _, p := range ps {
		if p.st == stLive {
			live = append(live, p)
		} else {
			rest = append(rest, p)
		}
	}
	return
}

// funcTraces returns the complete traces (deferred operations included) of decl.
func (a *analyzer) funcTraces(decl *ast.FuncDecl, binds map[types.Object]*closure, _ *frame) [][]Ev {
	if binds == nil {
		if t, ok := a.memo[decl]; ok {
			return t
		}
	}
	if a.inProg[decl] {
		failf(decl.Pos(), "recursion through %s is not understood", decl.Name.Name)
	}
	a.inProg[decl] = true
	defer delete(a.inProg, decl)

	name := decl.Name.Name
	if decl.Recv != nil {
		name = recvTypeName(decl) + "." + name
	}
	fr := &frame{a: a, name: name, bundle: a.bundleParam(decl), binds: binds}
	ps := fr.block([]path{{}}, decl.Body.List)
	var out [][]Ev
	for _, p := range ps {
		switch p.st {
		case stBreak, stContinue:
			failf(decl.Pos(), "break/continue escaping the body of %s", name)
		}
		t := p.ev
		for i := len(p.defers) - 1; i >= 0; i-- {
			d := p.defers[i]
			switch d {
			case evRUnlock:
				d = evRUnlockDeferred
			case evUnlock:
				d = evUnlockDeferred
			}
			t = concat(t, []Ev{d})
		}
		out = append(out, t)
	}
	if binds == nil {
		a.rawCnt[decl] = len(out)
	}
	out = dedupAlts(out)
	if len(out) > maxPaths {
		failf(decl.Pos(), "more than %d paths in %s", maxPaths, name)
	}
	if binds == nil {
		a.memo[decl] = out
	}
	return out
}

// literal analyses a callback literal (bound to a parameter of an inlined
// callee) and returns the event alternatives of one invocation.
func (fr *frame) literal(lit *ast.FuncLit) alts {
	child := &frame{a: fr.a, name: fr.name + " (callback literal)", parent: fr}
	ps := child.block([]path{{}}, lit.Body.List)
	var out alts
	for _, p := range ps {
		if p.st == stBreak || p.st == stContinue {
			failf(lit.Pos(), "break/continue escaping a function literal")
		}
		if len(p.defers) > 0 {
			failf(lit.Pos(), "defer inside a callback literal is not understood")
		}
		out = append(out, p.ev)
	}
	out = dedupAlts(out)
	if len(out) > maxPaths {
		failf(lit.Pos(), "more than %d paths in a callback literal", maxPaths)
	}
	return out
}

func (fr *frame) block(ps []path, list []ast.Stmt) []path {
	for _, s := range list {
		if live, _ := split(ps); len(live) == 0 {
			break // unreachable code
		}
		ps = fr.stmt(ps, s)
	}
	return ps
}

// branch runs f on copies of the live paths only and returns the result.
func (fr *frame) branch(ps []path, f func([]path) []path) []path {
	live, _ := split(ps)
	return f(append([]path(nil), live...))
}

func (fr *frame) stmt(ps []path, s ast.Stmt) []path {
	a := fr.a
	switch s := s.(type) {
	case nil, *ast.EmptyStmt:
		return ps

	case *ast.ExprStmt:
		if call, ok := s.X.(*ast.CallExpr); ok && isIdentNamed(call.Fun, "panic") {
			if _, isB := a.inf.Uses[call.Fun.(*ast.Ident)].(*types.Builtin); isB {
				ps = fr.apply(s.Pos(), ps, fr.exprs(call.Args))
				return fr.mark(ps, stReturn) // deferred calls run when panicking
			}
		}
		return fr.apply(s.Pos(), ps, fr.expr(s.X))

	case *ast.DeclStmt:
		gd, ok := s.Decl.(*ast.GenDecl)
		if !ok {
			failf(s.Pos(), "declaration statement not understood")
		}
		for _, sp := range gd.Specs {
			if vs, ok := sp.(*ast.ValueSpec); ok && gd.Tok == token.VAR {
				fr.checkAlias(vs.Values)
				ps = fr.apply(s.Pos(), ps, fr.exprs(vs.Values))
			}
		}
		return ps

	case *ast.AssignStmt:
		if len(s.Lhs) == len(s.Rhs) {
			for i, r := range s.Rhs {
				if !isIdentNamed(s.Lhs[i], "_") { // `_ = b.ts` creates no alias
					fr.checkAlias([]ast.Expr{r})
				}
			}
		} else {
			fr.checkAlias(s.Rhs)
		}
		ev := fr.exprs(s.Rhs)
		for _, l := range s.Lhs {
			ev = a.seq(l.Pos(), ev, fr.lhs(l, s.Tok != token.ASSIGN && s.Tok != token.DEFINE))
		}
		return fr.apply(s.Pos(), ps, ev)

	case *ast.IncDecStmt:
		return fr.apply(s.Pos(), ps, fr.lhs(s.X, true))

	case *ast.ReturnStmt:
		ps = fr.apply(s.Pos(), ps, fr.exprs(s.Results))
		return fr.mark(ps, stReturn)

	case *ast.BlockStmt:
		return fr.block(ps, s.List)

	case *ast.IfStmt:
		ps = fr.stmt(ps, s.Init)
		ps = fr.apply(s.Cond.Pos(), ps, fr.expr(s.Cond))
		_, rest := split(ps)
		thenPs := fr.branch(ps, func(l []path) []path { return fr.block(l, s.Body.List) })
		var elsePs []path
		if s.Else != nil {
			elsePs = fr.branch(ps, func(l []path) []path { return fr.stmt(l, s.Else) })
		} else {
			elsePs, _ = split(ps)
		}
		return fr.norm(s.Pos(), append(append(rest, thenPs...), elsePs...))

	case *ast.ForStmt:
		ps = fr.stmt(ps, s.Init)
		head := fr.expr(s.Cond)
		var post alts = noEvents
		if s.Post != nil {
			pp := fr.stmt([]path{{}}, s.Post)
			post = nil
			for _, p := range pp {
				post = append(post, p.ev)
			}
		}
		return fr.loop(s.Pos(), ps, head, s.Body, post)

	case *ast.RangeStmt:
		for _, kx := range []ast.Expr{s.Key, s.Value} {
			if kx != nil && fr.mentionsBundle(kx) {
				failf(kx.Pos(), "range assigns into bundle state: not understood")
			}
		}
		return fr.loop(s.Pos(), ps, fr.expr(s.X), s.Body, noEvents)

	case *ast.SwitchStmt:
		ps = fr.stmt(ps, s.Init)
		ps = fr.apply(s.Pos(), ps, fr.expr(s.Tag))
		return fr.clauses(s.Pos(), ps, s.Body)

	case *ast.TypeSwitchStmt:
		ps = fr.stmt(ps, s.Init)
		var x ast.Expr
		switch as := s.Assign.(type) {
		case *ast.ExprStmt:
			x = as.X
		case *ast.AssignStmt:
			if len(as.Rhs) == 1 {
				x = as.Rhs[0]
			}
		}
		ta, ok := x.(*ast.TypeAssertExpr)
		if !ok {
			failf(s.Pos(), "type switch guard not understood")
		}
		ps = fr.apply(s.Pos(), ps, fr.expr(ta.X))
		return fr.clauses(s.Pos(), ps, s.Body)

	case *ast.DeferStmt:
		if fr.inLoop > 0 {
			failf(s.Pos(), "defer inside a loop is not understood")
		}
		ev, ok := fr.deferredMutexOp(s.Call)
		if !ok {
			failf(s.Pos(), "defer of anything but b.%s.RUnlock()/Unlock()/… is not understood", a.mField.Name())
		}
		var out []path
		for _, p := range ps {
			if p.st == stLive {
				p.defers = append(append([]Ev(nil), p.defers...), ev)
			}
			out = append(out, p)
		}
		return out

	case *ast.BranchStmt:
		if s.Label != nil {
			failf(s.Pos(), "labeled %s is not understood", s.Tok)
		}
		switch s.Tok {
		case token.BREAK:
			return fr.mark(ps, stBreak)
		case token.CONTINUE:
			return fr.mark(ps, stContinue)
		}
		failf(s.Pos(), "%s is not understood", s.Tok)

	case *ast.GoStmt:
		failf(s.Pos(), "go statement is not understood")
	case *ast.SelectStmt:
		failf(s.Pos(), "select statement is not understood")
	case *ast.LabeledStmt:
		failf(s.Pos(), "labeled statement is not understood")
	case *ast.SendStmt:
		failf(s.Pos(), "channel send is not understood")
	}
	failf(s.Pos(), "statement of kind %T is not understood", s)
	return nil
}

func (fr *frame) mark(ps []path, st pstate) []path {
	out := make([]path, len(ps))
	for i, p := range ps {
		if p.st == stLive {
			p.st = st
		}
		out[i] = p
	}
	return out
}

// checkAlias fails closed when bundle state is copied into a variable: later
// uses of the copy would not be seen as reads of b.ts / uses of b.m.
func (fr *frame) checkAlias(rhs []ast.Expr) {
	for _, r := range rhs {
		x := unparen(r)
		if u, ok := x.(*ast.UnaryExpr); ok && u.Op == token.AND {
			x = unparen(u.X)
		}
		if sl, ok := x.(*ast.SliceExpr); ok {
			x = unparen(sl.X)
		}
		if sel, ok := x.(*ast.SelectorExpr); ok && fr.isBundleIdent(sel.X) {
			n := sel.Sel.Name
			if n == fr.a.mField.Name() || n == fr.a.tsField.Name() {
				failf(r.Pos(), "b.%s is copied into a variable (alias of guarded state): not understood", n)
			}
		}
		if fr.isBundleIdent(x) {
			failf(r.Pos(), "the *Bundle is copied into another variable: not understood")
		}
	}
}

// lhs returns the events of assigning to l.
func (fr *frame) lhs(l ast.Expr, compound bool) alts {
	a := fr.a
	l = unparen(l)
	if sel, ok := l.(*ast.SelectorExpr); ok && fr.isBundleIdent(sel.X) {
		if sel.Sel.Name != a.tsField.Name() {
			failf(l.Pos(), "assignment to Bundle field %s is not understood", sel.Sel.Name)
		}
		if compound {
			return one(evRead, evWrite)
		}
		return one(evWrite)
	}
	if ix, ok := l.(*ast.IndexExpr); ok {
		if sel, ok := unparen(ix.X).(*ast.SelectorExpr); ok && fr.isBundleIdent(sel.X) && sel.Sel.Name == a.tsField.Name() {
			return a.seq(l.Pos(), a.seq(l.Pos(), one(evRead), fr.expr(ix.Index)), one(evWrite)) // b.ts[i] = x
		}
	}
	if fr.mentionsBundle(l) {
		// e.g. m[b.ts[0]] = v — evaluate operands, but anything that stores into bundle state is out
		switch x := l.(type) {
		case *ast.IndexExpr:
			if !fr.mentionsBundle(x.X) {
				return fr.expr(x.Index)
			}
		}
		failf(l.Pos(), "assignment target involving bundle state is not understood")
	}
	if _, ok := l.(*ast.Ident); ok {
		return noEvents
	}
	return fr.expr(l)
}

func (fr *frame) deferredMutexOp(call *ast.CallExpr) (Ev, bool) {
	f, ok := unparen(call.Fun).(*ast.SelectorExpr)
	if !ok || len(call.Args) != 0 {
		return 0, false
	}
	inner, ok := unparen(f.X).(*ast.SelectorExpr)
	if !ok || !fr.isBundleIdent(inner.X) || inner.Sel.Name != fr.a.mField.Name() {
		return 0, false
	}
	ev, ok := mutexMethods[f.Sel.Name]
	return ev, ok
}

// loop analyses a loop whose header (range operand / condition) has events
// `head`, executing the body exactly once.
//
// Loop bodies may not contain lock events or defers. Because of that, and
// because the body repeats 0..n times anyway, an alternative through the body
// whose events are a subsequence of another alternative's events adds nothing
// for a checker that looks at each event under the current lock state; such
// alternatives (including "zero iterations") are merged into the larger one.
func (fr *frame) loop(pos token.Pos, ps []path, head alts, body *ast.BlockStmt, post alts) []path {
	fr.inLoop++
	bodyPs := fr.block([]path{{}}, body.List)
	fr.inLoop--

	normal := alts{nil} // zero iterations
	var returning alts
	for _, p := range bodyPs {
		if len(p.defers) > 0 {
			failf(pos, "defer inside a loop is not understood")
		}
		switch p.st {
		case stReturn:
			returning = append(returning, p.ev)
		case stLive, stContinue:
			for _, t := range post {
				normal = append(normal, concat(p.ev, t))
			}
		case stBreak:
			normal = append(normal, p.ev)
		}
	}
	for _, set := range []alts{head, normal, returning, post} {
		for _, t := range set {
			for _, e := range t {
				if e.isLockEvent() {
					failf(pos, "lock/unlock event inside a loop (in %s, reached from %s) is not understood", fr.name, fr.a.curRoot)
				}
			}
		}
	}
	normal = dedupAlts(normal)
	var kept alts
	for i, x := range normal {
		sub := false
		for j, y := range normal {
			if i != j && len(y) > len(x) && isSubseq(x, y) {
				sub = true
				break
			}
		}
		if !sub {
			kept = append(kept, x)
		}
	}
	returning = dedupAlts(returning)

	ps = fr.apply(pos, ps, head)
	live, rest := split(ps)
	out := rest
	for _, p := range live {
		for _, t := range returning {
			q := p.add(t)
			q.st = stReturn
			out = append(out, q)
		}
		for _, t := range kept {
			out = append(out, p.add(t))
		}
	}
	return fr.norm(pos, out)
}

// clauses analyses the body of a switch / type switch: one path per clause,
// plus an implicit empty default.
func (fr *frame) clauses(pos token.Pos, ps []path, body *ast.BlockStmt) []path {
	live, rest := split(ps)
	out := rest
	hasDefault := false
	for _, cs := range body.List {
		cc, ok := cs.(*ast.CaseClause)
		if !ok {
			failf(cs.Pos(), "switch clause not understood")
		}
		if cc.List == nil {
			hasDefault = true
		}
		for _, x := range cc.List {
			if tv, ok := fr.a.inf.Types[x]; ok && tv.IsType() {
				continue
			}
			if fr.mentionsBundle(x) || hasEvents(fr.expr(x)) {
				failf(x.Pos(), "case expression with lock/read/callout events is not understood")
			}
		}
		for _, st := range cc.Body {
			if b, ok := st.(*ast.BranchStmt); ok && b.Tok == token.FALLTHROUGH {
				failf(b.Pos(), "fallthrough is not understood")
			}
		}
		cp := fr.block(append([]path(nil), live...), cc.Body)
		for _, p := range cp {
			if p.st == stBreak {
				p.st = stLive
			}
			out = append(out, p)
		}
	}
	if !hasDefault {
		out = append(out, live...)
	}
	return fr.norm(pos, out)
}
