package main

func genBundleLocks(ld *loader) []byte { return []byte("-- stub\n") }
