package main

import (
	"go/ast"
	"go/token"
	"go/types"
)

// ===========================================================================
// EXPECTATION TABLE for methods on `tokens` (the type of Bundle.ts)
//
// A call b.ts.M(...) always emits `read`; if M is a WRITER it additionally
// emits `write` (after the `callout`, if a user value is passed in).
//
// M is a WRITER iff
//
//	(1) it has a pointer receiver            (func (ts *tokens) Discharge), or
//	(2) its body assigns to an element of
//	    the receiver                         (ts[i] = resT  in Verify), or
//	(3) it calls a WRITER on its receiver    (transitive), or
//	(4) it is listed below: methods that mutate the pointed-to tokens in place
//	    without assigning to the slice. This cannot be seen syntactically, so it
//	    is an explicit expectation. A name listed here that does not exist as a
//	    method fails closed (stale table).
//
// Every other method is a READER, but only if every use of its receiver has one
// of the read-only shapes checked by scanRecvUses below (range, len/cap,
// element read, method call on the receiver, `append(other, ts...)`, or
// `F(ts...)` into a package-local function whose variadic parameter is itself
// only used in these shapes). Anything else (passing ts to a filter, reslicing,
// converting, taking an element's address, …) is NOT CLASSIFIABLE → exit 2.
var tokensInPlaceMutators = map[string]string{
	"Attenuate": "write", // rewrites Str/UnsafeMac/Caveats of the *UnverifiedMacaroon etc. it finds
}

// ===========================================================================

type tokMethod struct {
	decl   *ast.FuncDecl
	writer bool
	why    string
	done   bool
	busy   bool
}

func (a *analyzer) classifyTokens() {
	a.tokClass = map[string]*tokMethod{}
	for _, f := range a.p.Files {
		for _, d := range f.Decls {
			fd, ok := d.(*ast.FuncDecl)
			if !ok || fd.Recv == nil || len(fd.Recv.List) != 1 {
				continue
			}
			rt := a.inf.Types[fd.Recv.List[0].Type].Type
			if rt == nil {
				continue
			}
			base := rt
			if pt, ok := rt.(*types.Pointer); ok {
				base = pt.Elem()
			}
			if !types.Identical(base, a.tokensT) {
				continue
			}
			if fd.Body == nil {
				failf(fd.Pos(), "method %s on tokens has no body", fd.Name.Name)
			}
			a.tokClass[fd.Name.Name] = &tokMethod{decl: fd}
		}
	}
	for name, v := range tokensInPlaceMutators {
		if v != "write" {
			failPath(a.p.Dir, "expectation table: unknown class %q for %s", v, name)
		}
		if a.tokClass[name] == nil {
			failPath(a.p.Dir, "expectation table lists tokens.%s, which does not exist (stale table)", name)
		}
	}
	for _, m := range a.tokClass {
		a.classifyTokMethod(m)
	}
}

func (a *analyzer) classifyTokMethod(m *tokMethod) {
	if m.done {
		return
	}
	if m.busy {
		failf(m.decl.Pos(), "recursive methods on tokens are not classifiable")
	}
	m.busy = true
	defer func() { m.busy, m.done = false, true }()

	fd := m.decl
	recv := fd.Recv.List[0]
	if _, ptr := a.inf.Types[recv.Type].Type.(*types.Pointer); ptr {
		m.writer, m.why = true, "pointer receiver"
		return
	}
	if _, listed := tokensInPlaceMutators[fd.Name.Name]; listed {
		m.writer, m.why = true, "expectation table: mutates pointed-to tokens in place"
		return
	}
	if len(recv.Names) == 0 || recv.Names[0].Name == "_" {
		m.why = "value receiver, receiver unused"
		return
	}
	obj := a.inf.Defs[recv.Names[0]]
	w, why := a.scanRecvUses(fd.Body, obj, 0)
	m.writer = w
	if w {
		m.why = why
	} else {
		m.why = "value receiver, read-only uses"
	}
}

// scanRecvUses checks every use of obj (a tokens-typed receiver or variadic
// parameter) inside body. It returns writer=true if an element is assigned or a
// writer method is called; it fails closed on any use that is not understood.
func (a *analyzer) scanRecvUses(body ast.Node, obj types.Object, depth int) (writer bool, why string) {
	if depth > 6 {
		failf(body.Pos(), "call chain too deep while classifying tokens methods")
	}
	var stack []ast.Node
	ast.Inspect(body, func(n ast.Node) bool {
		if n == nil {
			stack = stack[:len(stack)-1]
			return true
		}
		stack = append(stack, n)
		id, ok := n.(*ast.Ident)
		if !ok || a.inf.Uses[id] != obj {
			return true
		}
		parent := stack[len(stack)-2]
		var grand ast.Node
		if len(stack) >= 3 {
			grand = stack[len(stack)-3]
		}
		switch p := parent.(type) {
		case *ast.RangeStmt:
			if p.X == ast.Expr(id) {
				return true
			}
		case *ast.IndexExpr:
			if p.X == ast.Expr(id) {
				switch g := grand.(type) {
				case *ast.AssignStmt:
					for _, l := range g.Lhs {
						if l == ast.Expr(p) {
							writer, why = true, "assigns to an element of its receiver"
							return true
						}
					}
					return true
				case *ast.IncDecStmt:
					writer, why = true, "assigns to an element of its receiver"
					return true
				case *ast.UnaryExpr:
					if g.Op == token.AND {
						failf(g.Pos(), "address of a tokens element taken: method not classifiable")
					}
				}
				return true // element read
			}
		case *ast.SelectorExpr:
			if p.X == ast.Expr(id) {
				call, ok := grand.(*ast.CallExpr)
				if ok && call.Fun == ast.Expr(p) {
					callee := a.tokClass[p.Sel.Name]
					if callee == nil {
						failf(p.Pos(), "call of unknown method %s on tokens: not classifiable", p.Sel.Name)
					}
					a.classifyTokMethod(callee)
					if callee.writer {
						writer, why = true, "calls writer "+p.Sel.Name+" on its receiver"
					}
					return true
				}
			}
		case *ast.CallExpr:
			if fn, ok := p.Fun.(*ast.Ident); ok {
				if _, isB := a.inf.Uses[fn].(*types.Builtin); isB {
					switch fn.Name {
					case "len", "cap":
						return true
					case "append":
						last := len(p.Args) - 1
						if last >= 1 && p.Ellipsis.IsValid() && p.Args[last] == ast.Expr(id) && !a.mentions(p.Args[0], obj) {
							return true // copies the elements into another slice
						}
					}
					failf(id.Pos(), "tokens value passed to builtin %s in a shape that is not understood", fn.Name)
				}
			}
			// F(ts...) into a package-local function
			last := len(p.Args) - 1
			if last >= 0 && p.Ellipsis.IsValid() && p.Args[last] == ast.Expr(id) {
				if decl, param := a.variadicParamOf(p); decl != nil {
					w, _ := a.scanRecvUses(decl.Body, param, depth+1)
					if w {
						writer, why = true, "passes its receiver to "+decl.Name.Name+", which assigns to its elements"
					}
					return true
				}
			}
		}
		failf(id.Pos(), "use of a tokens value in a shape that is not understood: method not classifiable")
		return true
	})
	return
}

// mentions reports whether e contains an identifier resolving to obj.
func (a *analyzer) mentions(e ast.Node, obj types.Object) bool {
	found := false
	ast.Inspect(e, func(n ast.Node) bool {
		if id, ok := n.(*ast.Ident); ok && a.inf.Uses[id] == obj {
			found = true
		}
		return !found
	})
	return found
}

// variadicParamOf resolves a call F(..., x...) to the declaration of the
// package-local function F and the object of its variadic parameter.
func (a *analyzer) variadicParamOf(call *ast.CallExpr) (*ast.FuncDecl, types.Object) {
	fun := call.Fun
	switch x := fun.(type) {
	case *ast.IndexExpr:
		fun = x.X
	case *ast.IndexListExpr:
		fun = x.X
	}
	id, ok := fun.(*ast.Ident)
	if !ok {
		return nil, nil
	}
	fn, ok := a.inf.Uses[id].(*types.Func)
	if !ok {
		return nil, nil
	}
	decl := a.p.funcDecls[fn]
	if decl == nil || decl.Body == nil || decl.Recv != nil {
		return nil, nil
	}
	ps := decl.Type.Params.List
	if len(ps) == 0 {
		return nil, nil
	}
	lastF := ps[len(ps)-1]
	if _, ok := lastF.Type.(*ast.Ellipsis); !ok || len(lastF.Names) != 1 {
		return nil, nil
	}
	return decl, a.inf.Defs[lastF.Names[0]]
}
