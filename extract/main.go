// Command extract reads the Go source of github.com/superfly/macaroon and writes
// three Lean 4 files (BundleLocks.lean, Registry.lean, Consts.lean).
//
// It FAILS CLOSED: on any construct it does not understand it prints
// "extract: file:line: message" and exits with status 2. Exit status 0 means
// all three files were (re)generated.
package main

import (
	"bytes"
	"flag"
	"fmt"
	"go/token"
	"os"
	"path/filepath"
	"strings"
	"unicode/utf8"
)

// modulePath is the only module this tool understands.
const modulePath = "github.com/superfly/macaroon"

// scannedPkgs are the packages (relative to -repo) that are extracted from.
var scannedPkgs = []string{"", "resset", "auth", "flyio", "bundle", "tp", "internal/merr"}

// ignoredDirs are directories with non-test Go files that are deliberately
// NOT scanned. Any other directory with non-test Go files makes the tool fail
// closed (a new package could register caveats or touch a Bundle).
var ignoredDirs = map[string]string{
	"internal/test-vectors": "generator for test vectors; registers test-only caveats",
	"flyio/machinesapi":     "API-specific helpers; no caveat registrations, uses Bundle only through its exported API",
	"flyio/examples":        "example program",
}

var fset = token.NewFileSet()

// failf reports a construct the tool does not understand and exits with status 2.
func failf(pos token.Pos, format string, args ...interface{}) {
	where := "?"
	if pos.IsValid() {
		p := fset.Position(pos)
		where = fmt.Sprintf("%s:%d", p.Filename, p.Line)
	}
	fmt.Fprintf(os.Stderr, "extract: %s: %s\n", where, fmt.Sprintf(format, args...))
	os.Exit(2)
}

// failPath is failf for problems that have a path but no token position.
func failPath(path string, format string, args ...interface{}) {
	fmt.Fprintf(os.Stderr, "extract: %s:1: %s\n", path, fmt.Sprintf(format, args...))
	os.Exit(2)
}

func main() {
	repo := flag.String("repo", "/repo", "path of the macaroon source tree")
	out := flag.String("out", "/verif/lean/Macaroon/Generated", "output directory for the generated Lean files")
	flag.Parse()
	if flag.NArg() != 0 {
		fmt.Fprintf(os.Stderr, "extract: unexpected arguments %v\n", flag.Args())
		os.Exit(2)
	}

	ld := newLoader(*repo)
	ld.checkTreeShape()
	for _, rel := range scannedPkgs {
		ld.load(rel)
	}

	files := []struct {
		name string
		data []byte
	}{
		{"BundleLocks.lean", genBundleLocks(ld)},
		{"Registry.lean", genRegistry(ld)},
		{"Consts.lean", genConsts(ld)},
	}

	// Everything was understood: only now touch the output directory.
	if err := os.MkdirAll(*out, 0o755); err != nil {
		fmt.Fprintf(os.Stderr, "extract: %v\n", err)
		os.Exit(2)
	}
	for _, f := range files {
		p := filepath.Join(*out, f.name)
		if old, err := os.ReadFile(p); err == nil && bytes.Equal(old, f.data) {
			continue // unchanged: keep mtime so Lake does not rebuild
		}
		tmp := p + ".tmp"
		if err := os.WriteFile(tmp, f.data, 0o644); err != nil {
			fmt.Fprintf(os.Stderr, "extract: %v\n", err)
			os.Exit(2)
		}
		if err := os.Rename(tmp, p); err != nil {
			fmt.Fprintf(os.Stderr, "extract: %v\n", err)
			os.Exit(2)
		}
	}
}

// ---------------------------------------------------------------------------
// Lean output helpers

// leanString renders s as a Lean 4 string literal.
func leanString(pos token.Pos, s string) string {
	if !utf8.ValidString(s) {
		failf(pos, "string constant is not valid UTF-8; cannot be rendered as a Lean string")
	}
	var sb strings.Builder
	sb.WriteByte('"')
	for _, r := range s {
		switch {
		case r == '\\':
			sb.WriteString(`\\`)
		case r == '"':
			sb.WriteString(`\"`)
		case r == '\n':
			sb.WriteString(`\n`)
		case r == '\t':
			sb.WriteString(`\t`)
		case r == '\r':
			sb.WriteString(`\r`)
		case r < 0x20 || r == 0x7f:
			fmt.Fprintf(&sb, `\x%02x`, r)
		default:
			sb.WriteRune(r)
		}
	}
	sb.WriteByte('"')
	return sb.String()
}

// leanList writes `def name : typ := [ items ]` with one item per line.
func leanList(sb *strings.Builder, name, typ string, items []string) {
	if len(items) == 0 {
		fmt.Fprintf(sb, "def %s : %s := []\n", name, typ)
		return
	}
	fmt.Fprintf(sb, "def %s : %s := [\n", name, typ)
	for i, it := range items {
		sep := ","
		if i == len(items)-1 {
			sep = ""
		}
		fmt.Fprintf(sb, "  %s%s\n", it, sep)
	}
	sb.WriteString("]\n")
}

func leanBool(b bool) string {
	if b {
		return "true"
	}
	return "false"
}

func leanStringList(pos token.Pos, ss []string) string {
	parts := make([]string, len(ss))
	for i, s := range ss {
		parts[i] = leanString(pos, s)
	}
	return "[" + strings.Join(parts, ", ") + "]"
}
