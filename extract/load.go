package main

import (
	"bytes"
	"go/ast"
	"go/constant"
	"go/parser"
	"go/token"
	"go/types"
	"os"
	gopath "path"
	"path/filepath"
	"regexp"
	"sort"
	"strings"
)

// Pkg is one type-checked package of the library.
type Pkg struct {
	Rel   string // directory relative to the repo root ("" for the root package)
	Path  string // import path
	Dir   string
	Name  string
	Files []*ast.File // sorted by file name, _test.go excluded
	Types *types.Package
	Info  *types.Info

	funcDecls map[*types.Func]*ast.FuncDecl
	valSpecs  map[types.Object]*ast.ValueSpec
}

// loader type-checks the library's packages from source. Imports inside the
// module are resolved to directories under the repo; every other import is an
// empty fake package (type errors are ignored, see types.Config.Error below).
type loader struct {
	repo    string
	pkgs    map[string]*Pkg // by import path
	fakes   map[string]*types.Package
	loading map[string]bool
}

func newLoader(repo string) *loader {
	abs, err := filepath.Abs(repo)
	if err != nil {
		failPath(repo, "%v", err)
	}
	ld := &loader{repo: abs, pkgs: map[string]*Pkg{}, fakes: map[string]*types.Package{}, loading: map[string]bool{}}

	gomod := filepath.Join(abs, "go.mod")
	data, err := os.ReadFile(gomod)
	if err != nil {
		failPath(gomod, "cannot read: %v", err)
	}
	mod := ""
	for _, line := range strings.Split(string(data), "\n") {
		f := strings.Fields(line)
		if len(f) == 2 && f[0] == "module" {
			mod = f[1]
			break
		}
	}
	if mod != modulePath {
		failPath(gomod, "module path is %q, expected %q", mod, modulePath)
	}
	return ld
}

// checkTreeShape fails closed if the repo contains a directory with non-test Go
// files that is neither scanned nor explicitly ignored.
func (ld *loader) checkTreeShape() {
	scanned := map[string]bool{}
	for _, r := range scannedPkgs {
		scanned[r] = true
	}
	err := filepath.WalkDir(ld.repo, func(p string, d os.DirEntry, err error) error {
		if err != nil {
			return err
		}
		if d.IsDir() {
			n := d.Name()
			if p != ld.repo && (strings.HasPrefix(n, ".") || strings.HasPrefix(n, "_") || n == "testdata" || n == "vendor") {
				return filepath.SkipDir
			}
			return nil
		}
		if !strings.HasSuffix(p, ".go") || strings.HasSuffix(p, "_test.go") {
			return nil
		}
		rel, _ := filepath.Rel(ld.repo, filepath.Dir(p))
		rel = filepath.ToSlash(rel)
		if rel == "." {
			rel = ""
		}
		if scanned[rel] {
			return nil
		}
		if _, ok := ignoredDirs[rel]; ok {
			return nil
		}
		failPath(p, "Go package directory %q is neither scanned nor in the ignore list of /verif/extract/main.go", rel)
		return nil
	})
	if err != nil {
		failPath(ld.repo, "walking the tree: %v", err)
	}
}

func (ld *loader) importPathOf(rel string) string {
	if rel == "" {
		return modulePath
	}
	return modulePath + "/" + rel
}

// byRel returns an already loaded package.
func (ld *loader) byRel(rel string) *Pkg {
	p := ld.pkgs[ld.importPathOf(rel)]
	if p == nil {
		failPath(filepath.Join(ld.repo, rel), "package not loaded")
	}
	return p
}

var versionElem = regexp.MustCompile(`^v[0-9]+$`)

// Import implements types.Importer.
func (ld *loader) Import(ipath string) (*types.Package, error) {
	if ipath == modulePath || strings.HasPrefix(ipath, modulePath+"/") {
		rel := strings.TrimPrefix(strings.TrimPrefix(ipath, modulePath), "/")
		return ld.load(rel).Types, nil
	}
	if ipath == "unsafe" {
		return types.Unsafe, nil
	}
	if p, ok := ld.fakes[ipath]; ok {
		return p, nil
	}
	name := gopath.Base(ipath)
	if versionElem.MatchString(name) {
		name = gopath.Base(gopath.Dir(ipath))
	}
	name = strings.TrimPrefix(name, "go-")
	p := types.NewPackage(ipath, name)
	if ipath == "crypto/sha256" {
		// The only standard-library constants the library's own constants depend on.
		p.Scope().Insert(types.NewConst(token.NoPos, p, "Size", types.Typ[types.UntypedInt], constant.MakeInt64(32)))
		p.Scope().Insert(types.NewConst(token.NoPos, p, "BlockSize", types.Typ[types.UntypedInt], constant.MakeInt64(64)))
	}
	p.MarkComplete()
	ld.fakes[ipath] = p
	return p, nil
}

// load parses and type-checks the package in directory rel (cached).
func (ld *loader) load(rel string) *Pkg {
	ipath := ld.importPathOf(rel)
	if p, ok := ld.pkgs[ipath]; ok {
		return p
	}
	dir := filepath.Join(ld.repo, filepath.FromSlash(rel))
	if ld.loading[ipath] {
		failPath(dir, "import cycle through %s", ipath)
	}
	ld.loading[ipath] = true
	defer delete(ld.loading, ipath)

	ents, err := os.ReadDir(dir)
	if err != nil {
		failPath(dir, "cannot read package directory: %v", err)
	}
	var names []string
	for _, e := range ents {
		n := e.Name()
		if e.IsDir() || !strings.HasSuffix(n, ".go") || strings.HasSuffix(n, "_test.go") {
			continue
		}
		names = append(names, n)
	}
	sort.Strings(names)
	if len(names) == 0 {
		failPath(dir, "no Go source files")
	}

	p := &Pkg{Rel: rel, Path: ipath, Dir: dir,
		funcDecls: map[*types.Func]*ast.FuncDecl{}, valSpecs: map[types.Object]*ast.ValueSpec{}}
	for _, n := range names {
		full := filepath.Join(dir, n)
		src, err := os.ReadFile(full)
		if err != nil {
			failPath(full, "%v", err)
		}
		if bytes.Contains(src, []byte("//go:build")) || bytes.Contains(src, []byte("// +build")) {
			failPath(full, "build constraints are not understood")
		}
		f, err := parser.ParseFile(fset, full, src, parser.SkipObjectResolution)
		if err != nil {
			failPath(full, "parse error: %v", err)
		}
		if p.Name == "" {
			p.Name = f.Name.Name
		} else if p.Name != f.Name.Name {
			failf(f.Name.Pos(), "package name %q differs from %q in the same directory", f.Name.Name, p.Name)
		}
		for _, imp := range f.Imports {
			if imp.Path.Value == `"C"` {
				failf(imp.Pos(), "cgo is not understood")
			}
		}
		p.Files = append(p.Files, f)
	}

	p.Info = &types.Info{
		Types:      map[ast.Expr]types.TypeAndValue{},
		Defs:       map[*ast.Ident]types.Object{},
		Uses:       map[*ast.Ident]types.Object{},
		Selections: map[*ast.SelectorExpr]*types.Selection{},
		Implicits:  map[ast.Node]types.Object{},
	}
	conf := types.Config{
		Importer: ld,
		// Third-party and standard-library packages are empty fakes, so there are
		// many "undefined" errors. They are irrelevant for what is extracted
		// (constants, and identifier resolution inside the module).
		Error:                    func(error) {},
		DisableUnusedImportCheck: true,
	}
	p.Types, _ = conf.Check(ipath, fset, p.Files, p.Info)
	if p.Types == nil {
		failPath(dir, "type checking produced no package")
	}

	for _, f := range p.Files {
		for _, d := range f.Decls {
			switch d := d.(type) {
			case *ast.FuncDecl:
				if fn, ok := p.Info.Defs[d.Name].(*types.Func); ok {
					p.funcDecls[fn] = d
				}
			case *ast.GenDecl:
				for _, s := range d.Specs {
					if vs, ok := s.(*ast.ValueSpec); ok {
						for _, n := range vs.Names {
							if o := p.Info.Defs[n]; o != nil {
								p.valSpecs[o] = vs
							}
						}
					}
				}
			}
		}
	}
	ld.pkgs[ipath] = p
	return p
}

// fileOf returns the base name of the file containing pos.
func fileOf(pos token.Pos) string {
	return filepath.Base(fset.Position(pos).Filename)
}
