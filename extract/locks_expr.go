package main

import (
	"go/ast"
	"go/token"
	"go/types"
)

// frame is the analysis context of one function body (a FuncDecl being
// analysed/inlined, or a callback literal spliced into an inlined callee).
type frame struct {
	a      *analyzer
	name   string
	bundle *types.Var                // the *Bundle receiver/parameter of this function (nil in literals)
	binds  map[types.Object]*closure // func-typed parameters bound to literals of the caller
	parent *frame                    // lexical parent (for callback literals)
	inLoop int
}

type closure struct {
	lit *ast.FuncLit
	fr  *frame
}

func (fr *frame) isBundleObj(o types.Object) bool {
	for f := fr; f != nil; f = f.parent {
		if f.bundle != nil && o == types.Object(f.bundle) {
			return true
		}
	}
	return false
}

func (fr *frame) isBundleIdent(e ast.Expr) bool {
	id, ok := unparen(e).(*ast.Ident)
	return ok && fr.isBundleObj(fr.a.inf.Uses[id])
}

func (fr *frame) lookupBind(o types.Object) *closure {
	for f := fr; f != nil; f = f.parent {
		if c := f.binds[o]; c != nil {
			return c
		}
	}
	return nil
}

func unparen(e ast.Expr) ast.Expr {
	for {
		p, ok := e.(*ast.ParenExpr)
		if !ok {
			return e
		}
		e = p.X
	}
}

// mentionsBundle reports whether n contains a use of a bundle variable.
func (fr *frame) mentionsBundle(n ast.Node) bool {
	found := false
	ast.Inspect(n, func(n ast.Node) bool {
		if id, ok := n.(*ast.Ident); ok && fr.isBundleObj(fr.a.inf.Uses[id]) {
			found = true
		}
		return !found
	})
	return found
}

// isUserKind: func-typed, or a named type of package bundle whose underlying
// type is an interface (Filter, Verifier, …) or a func (Predicate, Discharger).
func (fr *frame) isUserKind(t types.Type) bool {
	if t == nil {
		return false
	}
	if _, ok := t.(*types.Signature); ok {
		return true
	}
	if n, ok := t.(*types.Named); ok {
		switch n.Underlying().(type) {
		case *types.Signature:
			return true
		case *types.Interface:
			return n.Obj().Pkg() == fr.a.p.Types
		}
	}
	return false
}

// userValueArg reports whether e is an identifier naming a function-scoped
// variable (parameter or local) of user kind: a value supplied by the caller.
func (fr *frame) userValueArg(e ast.Expr) bool {
	id, ok := unparen(e).(*ast.Ident)
	if !ok {
		return false
	}
	v, ok := fr.a.inf.Uses[id].(*types.Var)
	if !ok || v.IsField() || v.Parent() == fr.a.p.Types.Scope() || fr.isBundleObj(v) {
		return false
	}
	return fr.isUserKind(v.Type())
}

func (fr *frame) seq(pos token.Pos, xs ...alts) alts {
	out := noEvents
	for _, x := range xs {
		out = fr.a.seq(pos, out, x)
	}
	return out
}

func (fr *frame) exprs(es []ast.Expr) alts {
	out := noEvents
	for _, e := range es {
		out = fr.a.seq(e.Pos(), out, fr.expr(e))
	}
	return out
}

func hasEvents(a alts) bool {
	for _, t := range a {
		if len(t) > 0 {
			return true
		}
	}
	return false
}

// expr returns the events of evaluating e, in evaluation order.
func (fr *frame) expr(e ast.Expr) alts {
	switch e := e.(type) {
	case nil:
		return noEvents
	case *ast.BasicLit:
		return noEvents
	case *ast.Ident:
		if fr.isBundleObj(fr.a.inf.Uses[e]) {
			failf(e.Pos(), "the *Bundle value escapes (used other than as b.m.X(), b.ts, b.Method(...), F(b, ...)): not understood")
		}
		return noEvents
	case *ast.ParenExpr:
		return fr.expr(e.X)
	case *ast.SelectorExpr:
		return fr.selector(e)
	case *ast.StarExpr:
		return fr.expr(e.X)
	case *ast.UnaryExpr:
		if e.Op == token.ARROW {
			failf(e.Pos(), "channel receive is not understood")
		}
		if e.Op == token.AND && fr.mentionsBundle(e.X) {
			if _, isLit := unparen(e.X).(*ast.CompositeLit); !isLit {
				failf(e.Pos(), "address of bundle state taken: not understood")
			}
		}
		return fr.expr(e.X)
	case *ast.BinaryExpr:
		l, r := fr.expr(e.X), fr.expr(e.Y)
		if (e.Op == token.LAND || e.Op == token.LOR) && hasEvents(r) {
			r = dedupAlts(append(append(alts{}, r...), nil)) // right operand may be skipped
		}
		return fr.seq(e.Pos(), l, r)
	case *ast.IndexExpr:
		return fr.seq(e.Pos(), fr.expr(e.X), fr.expr(e.Index))
	case *ast.SliceExpr:
		return fr.seq(e.Pos(), fr.expr(e.X), fr.expr(e.Low), fr.expr(e.High), fr.expr(e.Max))
	case *ast.TypeAssertExpr:
		return fr.expr(e.X)
	case *ast.KeyValueExpr:
		return fr.seq(e.Pos(), fr.expr(e.Key), fr.expr(e.Value))
	case *ast.CompositeLit:
		out := noEvents
		isB := fr.a.isBundleLit(e)
		for _, el := range e.Elts {
			if kvx, ok := el.(*ast.KeyValueExpr); ok {
				if isB {
					// `m: b.m` in a Bundle literal shares the mutex: no event, reported in bundleSharesMutex.
					if sel, ok := unparen(kvx.Value).(*ast.SelectorExpr); ok && fr.isBundleIdent(sel.X) && sel.Sel.Name == fr.a.mField.Name() {
						continue
					}
					out = fr.a.seq(el.Pos(), out, fr.expr(kvx.Value))
					continue
				}
				if _, isId := kvx.Key.(*ast.Ident); isId && !fr.isBundleIdent(kvx.Key) {
					out = fr.a.seq(el.Pos(), out, fr.expr(kvx.Value)) // struct field name or constant key
					continue
				}
			}
			out = fr.a.seq(el.Pos(), out, fr.expr(el))
		}
		return out
	case *ast.FuncLit:
		failf(e.Pos(), "function literal outside a callback position of an inlined function: not understood")
	case *ast.CallExpr:
		return fr.call(e)
	case *ast.ArrayType, *ast.MapType, *ast.FuncType, *ast.InterfaceType, *ast.StructType, *ast.ChanType, *ast.Ellipsis:
		return noEvents
	}
	failf(e.Pos(), "expression of kind %T is not understood", e)
	return nil
}

func (fr *frame) selector(e *ast.SelectorExpr) alts {
	a := fr.a
	if fr.isBundleIdent(e.X) {
		switch e.Sel.Name {
		case a.tsField.Name():
			return one(evRead)
		case a.mField.Name():
			failf(e.Pos(), "the bundle's mutex is used other than by b.%s.RLock/RUnlock/Lock/Unlock() or in a Bundle literal: not understood", e.Sel.Name)
		}
		s := a.inf.Selections[e]
		if s == nil || s.Kind() != types.FieldVal {
			failf(e.Pos(), "b.%s is not a field read (method value?): not understood", e.Sel.Name)
		}
		return noEvents // func-typed field such as IsPermissionToken: not guarded by the mutex
	}
	if id, ok := e.X.(*ast.Ident); ok {
		if _, isPkg := a.inf.Uses[id].(*types.PkgName); isPkg {
			return noEvents
		}
	}
	if s := a.inf.Selections[e]; s != nil && s.Kind() != types.FieldVal && fr.mentionsBundle(e.X) {
		failf(e.Pos(), "method value on bundle state: not understood")
	}
	return fr.expr(e.X)
}

// allowedBuiltins only evaluate their arguments.
var allowedBuiltins = map[string]bool{"len": true, "cap": true, "append": true, "make": true, "new": true, "panic": true, "min": true, "max": true}

func (fr *frame) call(e *ast.CallExpr) alts {
	a := fr.a
	fun := unparen(e.Fun)

	// conversion
	if tv, ok := a.inf.Types[e.Fun]; ok && tv.IsType() {
		return fr.exprs(e.Args)
	}
	// explicit instantiation F[T](...)
	switch x := fun.(type) {
	case *ast.IndexExpr:
		if fr.isFuncRef(x.X) {
			fun = x.X
		}
	case *ast.IndexListExpr:
		if fr.isFuncRef(x.X) {
			fun = x.X
		}
	}

	switch f := fun.(type) {
	case *ast.Ident:
		switch obj := a.inf.Uses[f].(type) {
		case *types.Builtin:
			if !allowedBuiltins[f.Name] {
				if fr.mentionsBundle(e) {
					failf(e.Pos(), "builtin %s applied to bundle state is not understood", f.Name)
				}
			}
			return fr.exprs(e.Args)
		case *types.TypeName:
			return fr.exprs(e.Args)
		case *types.Func:
			return fr.staticCall(obj, nil, e)
		case *types.Var:
			args := fr.exprs(e.Args)
			if c := fr.lookupBind(obj); c != nil {
				return fr.seq(e.Pos(), args, c.fr.literal(c.lit))
			}
			if fr.isBundleObj(obj) {
				failf(e.Pos(), "call of the bundle value: not understood")
			}
			return fr.seq(e.Pos(), args, one(evCallout)) // dynamic call of a func value
		default:
			failf(f.Pos(), "callee %s could not be resolved", f.Name)
		}

	case *ast.SelectorExpr:
		if inner, ok := unparen(f.X).(*ast.SelectorExpr); ok && fr.isBundleIdent(inner.X) {
			switch inner.Sel.Name {
			case a.mField.Name():
				ev, ok := mutexMethods[f.Sel.Name]
				if !ok || len(e.Args) != 0 {
					failf(e.Pos(), "mutex operation %s is not understood", f.Sel.Name)
				}
				if fr.inLoop > 0 {
					failf(e.Pos(), "lock operation inside a loop body is not understood")
				}
				return one(ev)
			case a.tsField.Name():
				return fr.tokensCall(f, e)
			}
		}
		if fr.isBundleIdent(f.X) {
			s := a.inf.Selections[f]
			if s == nil {
				failf(f.Pos(), "b.%s could not be resolved", f.Sel.Name)
			}
			if s.Kind() == types.FieldVal {
				return fr.seq(e.Pos(), fr.exprs(e.Args), one(evCallout)) // b.IsPermissionToken(t)
			}
			fn, _ := s.Obj().(*types.Func)
			decl := a.p.funcDecls[fn]
			if decl == nil || decl.Body == nil {
				failf(f.Pos(), "declaration of Bundle.%s not found", f.Sel.Name)
			}
			return fr.inline(decl, e, e.Args, nil)
		}
		if id, ok := f.X.(*ast.Ident); ok {
			if _, isPkg := a.inf.Uses[id].(*types.PkgName); isPkg {
				if fn, ok := a.inf.Uses[f.Sel].(*types.Func); ok {
					return fr.staticCall(fn, nil, e)
				}
				return fr.externalCall(e, e.Args)
			}
		}
		s := a.inf.Selections[f]
		if s == nil {
			failf(f.Pos(), "method call %s on a value whose type is outside the module cannot be resolved: not understood", f.Sel.Name)
		}
		recv := fr.expr(f.X)
		if s.Kind() == types.FieldVal {
			return fr.seq(e.Pos(), recv, fr.exprs(e.Args), one(evCallout)) // x.fn(...)
		}
		if _, isIface := s.Recv().Underlying().(*types.Interface); isIface {
			return fr.seq(e.Pos(), recv, fr.exprs(e.Args), one(evCallout)) // dynamic dispatch: f.Apply, v.Verify
		}
		if tp, ok := s.Recv().(*types.TypeParam); ok {
			_ = tp
			return fr.seq(e.Pos(), recv, fr.exprs(e.Args), one(evCallout))
		}
		rt := s.Recv()
		if pt, ok := rt.(*types.Pointer); ok {
			rt = pt.Elem()
		}
		if types.Identical(rt, a.bundleT) {
			failf(e.Pos(), "Bundle method called on something other than the function's *Bundle receiver/parameter: not understood")
		}
		fn, _ := s.Obj().(*types.Func)
		return fr.seq(e.Pos(), recv, fr.staticCall(fn, f.X, e))

	case *ast.FuncLit:
		failf(e.Pos(), "immediately invoked function literal is not understood")
	}
	failf(e.Pos(), "call through an expression of kind %T is not understood", fun)
	return nil
}

func (fr *frame) isFuncRef(e ast.Expr) bool {
	switch x := unparen(e).(type) {
	case *ast.Ident:
		_, ok := fr.a.inf.Uses[x].(*types.Func)
		return ok
	case *ast.SelectorExpr:
		_, ok := fr.a.inf.Uses[x.Sel].(*types.Func)
		return ok
	}
	return false
}

// tokensCall handles b.ts.M(args...).
func (fr *frame) tokensCall(f *ast.SelectorExpr, e *ast.CallExpr) alts {
	m := fr.a.tokClass[f.Sel.Name]
	if m == nil {
		failf(f.Pos(), "method %s on the token list is not declared in package bundle: not classifiable", f.Sel.Name)
	}
	out := one(evRead)
	callout := false
	for _, arg := range e.Args {
		if _, isLit := unparen(arg).(*ast.FuncLit); isLit {
			failf(arg.Pos(), "function literal passed into a tokens method is not understood")
		}
		if fr.userValueArg(arg) {
			callout = true
			continue
		}
		out = fr.a.seq(arg.Pos(), out, fr.expr(arg))
	}
	if callout {
		out = fr.a.seq(e.Pos(), out, one(evCallout))
	}
	if m.writer {
		out = fr.a.seq(e.Pos(), out, one(evWrite))
	}
	return out
}

// externalCall: a call into another package. Only the arguments are evaluated.
func (fr *frame) externalCall(e *ast.CallExpr, args []ast.Expr) alts {
	for _, arg := range args {
		if fr.userValueArg(arg) {
			failf(arg.Pos(), "user-supplied value passed to a function outside package bundle: not understood")
		}
	}
	return fr.exprs(args)
}

// staticCall: a statically resolved function or (non-Bundle, non-b.ts) method.
func (fr *frame) staticCall(fn *types.Func, recv ast.Expr, e *ast.CallExpr) alts {
	a := fr.a
	if fn == nil {
		failf(e.Pos(), "callee could not be resolved")
	}
	if fn.Pkg() != a.p.Types {
		return fr.externalCall(e, e.Args)
	}
	decl := a.p.funcDecls[fn]
	if decl == nil {
		// method of an interface declared in this package etc. — dynamic
		return fr.seq(e.Pos(), fr.exprs(e.Args), one(evCallout))
	}
	if decl.Body == nil {
		failf(e.Pos(), "%s has no body", fn.Name())
	}
	if a.bundleParam(decl) != nil {
		return fr.inline(decl, e, e.Args, recv)
	}
	// Library function that does not take the bundle. A user value handed to it
	// counts as a callout if the callee uses the parameter outside a function
	// literal (i.e. may call it right away), and as nothing if it only captures it.
	out := noEvents
	params := flatParams(decl)
	callout := false
	for i, arg := range e.Args {
		if fr.userValueArg(arg) {
			if i >= len(params) || params[i] == nil {
				callout = true
				continue
			}
			if a.usedOutsideFuncLit(decl, a.inf.Defs[params[i]]) {
				callout = true
			}
			continue
		}
		out = a.seq(arg.Pos(), out, fr.expr(arg))
	}
	if callout {
		out = a.seq(e.Pos(), out, one(evCallout))
	}
	return out
}

// flatParams lists the parameter identifiers of decl by position (nil for
// unnamed ones); the variadic parameter, if any, is the last element.
func flatParams(decl *ast.FuncDecl) []*ast.Ident {
	var out []*ast.Ident
	for _, f := range decl.Type.Params.List {
		if len(f.Names) == 0 {
			out = append(out, nil)
		}
		for _, n := range f.Names {
			out = append(out, n)
		}
	}
	return out
}

func (a *analyzer) usedOutsideFuncLit(decl *ast.FuncDecl, obj types.Object) bool {
	used := false
	ast.Inspect(decl.Body, func(n ast.Node) bool {
		if _, ok := n.(*ast.FuncLit); ok {
			return false
		}
		if id, ok := n.(*ast.Ident); ok && a.inf.Uses[id] == obj {
			used = true
		}
		return !used
	})
	return used
}

// inline splices the traces of decl (a function/method that takes the bundle)
// at the call position. Function literals passed for func-typed parameters are
// bound as callbacks and analysed where the callee calls them.
func (fr *frame) inline(decl *ast.FuncDecl, call *ast.CallExpr, args []ast.Expr, recv ast.Expr) alts {
	a := fr.a
	calleeB := a.bundleParam(decl)
	params := flatParams(decl)
	variadic := false
	if n := len(decl.Type.Params.List); n > 0 {
		_, variadic = decl.Type.Params.List[n-1].Type.(*ast.Ellipsis)
	}
	if !variadic && len(args) != len(params) {
		failf(call.Pos(), "argument count does not match %s", decl.Name.Name)
	}
	recvIsBundle := decl.Recv != nil && len(decl.Recv.List[0].Names) == 1 &&
		a.inf.Defs[decl.Recv.List[0].Names[0]] == types.Object(calleeB)
	if decl.Recv != nil && !recvIsBundle {
		failf(call.Pos(), "call of a method of another type that takes the bundle: not understood")
	}

	out := noEvents
	var binds map[types.Object]*closure
	sawBundle := recvIsBundle
	for i, arg := range args {
		var pid *ast.Ident
		if i < len(params) && !(variadic && i >= len(params)-1) {
			pid = params[i]
		}
		if pid != nil && a.inf.Defs[pid] == types.Object(calleeB) {
			if !fr.isBundleIdent(arg) {
				failf(arg.Pos(), "%s is called with a *Bundle other than the function's own receiver/parameter: not understood", decl.Name.Name)
			}
			sawBundle = true
			continue
		}
		if lit, ok := unparen(arg).(*ast.FuncLit); ok {
			if pid == nil {
				failf(arg.Pos(), "function literal passed to an unnamed or variadic parameter: not understood")
			}
			if binds == nil {
				binds = map[types.Object]*closure{}
			}
			binds[a.inf.Defs[pid]] = &closure{lit, fr}
			continue
		}
		out = a.seq(arg.Pos(), out, fr.expr(arg))
	}
	if !sawBundle {
		failf(call.Pos(), "could not match the bundle argument of %s", decl.Name.Name)
	}
	body := a.funcTraces(decl, binds, fr)
	return a.seq(call.Pos(), out, alts(body))
}
