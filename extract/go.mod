module extract

go 1.20
