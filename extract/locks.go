package main

// BundleLocks.lean: event traces of package bundle's entry points on the
// bundle's RWMutex and token list. Setup, discovery and output live here; the
// tokens-method classifier is in locks_tokens.go, the expression walker in
// locks_expr.go and the statement walker in locks_stmt.go.

import (
	"fmt"
	"go/ast"
	"go/token"
	"go/types"
	"sort"
	"strings"
)

// Ev mirrors Macaroon.Conc.Ev.
type Ev uint8

const (
	evRLock Ev = iota
	evRUnlock
	evLock
	evUnlock
	evRead
	evWrite
	evCallout
	// the two release events when they come from a `defer` (appended at the end of the function's trace): printed
	// like the plain ones - the lock model does not tell them apart - and looked at by calloutsUnderDeferredUnlock
	evRUnlockDeferred
	evUnlockDeferred
)

var evNames = [...]string{"rlock", "runlock", "lock", "unlock", "read", "write", "callout", "runlock", "unlock"}

func (e Ev) isLockEvent() bool { return e <= evUnlock || e == evRUnlockDeferred || e == evUnlockDeferred }

// calloutsUnderDeferredUnlock: in trace t, is every critical section that contains a call to user code (a callout:
// a filter, a callback, a verifier, a discharger - code that may panic) closed by a DEFERRED release? A section
// closed by an explicit RUnlock/Unlock keeps its lock when the callout panics and the caller recovers.
func calloutsUnderDeferredUnlock(t []Ev) bool {
	open, sawCallout := false, false
	for _, e := range t {
		switch e {
		case evRLock, evLock:
			open, sawCallout = true, false
		case evCallout:
			if open {
				sawCallout = true
			}
		case evRUnlock, evUnlock:
			if open && sawCallout {
				return false
			}
			open = false
		case evRUnlockDeferred, evUnlockDeferred:
			open = false
		}
	}
	return true
}

// mutexMethods maps the methods of sync.RWMutex that are understood to events.
var mutexMethods = map[string]Ev{"RLock": evRLock, "RUnlock": evRUnlock, "Lock": evLock, "Unlock": evUnlock}

// maxPaths is the cap on simultaneously live control-flow paths per function.
const maxPaths = 16

// alts is a non-empty set of alternative event sequences.
type alts [][]Ev

var noEvents = alts{nil}

func one(evs ...Ev) alts { return alts{evs} }

func evString(t []Ev) string {
	parts := make([]string, len(t))
	for i, e := range t {
		parts[i] = evNames[e]
	}
	return "[" + strings.Join(parts, ", ") + "]"
}

func dedupAlts(a alts) alts {
	seen := map[string]bool{}
	out := a[:0:0]
	for _, t := range a {
		k := evString(t)
		if !seen[k] {
			seen[k] = true
			out = append(out, t)
		}
	}
	return out
}

func concat(a, b []Ev) []Ev {
	out := make([]Ev, 0, len(a)+len(b))
	return append(append(out, a...), b...)
}

func isSubseq(x, y []Ev) bool {
	i := 0
	for _, e := range y {
		if i < len(x) && x[i] == e {
			i++
		}
	}
	return i == len(x)
}

// analyzer holds the package-wide facts.
type analyzer struct {
	ld  *loader
	p   *Pkg
	inf *types.Info

	bundleT  *types.Named
	mField   *types.Var // the *sync.RWMutex field
	tsField  *types.Var // the token-list field
	tokensT  *types.Named
	tokClass map[string]*tokMethod // classification of methods on tokens

	memo    map[*ast.FuncDecl][][]Ev
	inProg  map[*ast.FuncDecl]bool
	rawCnt  map[*ast.FuncDecl]int
	curRoot string
}

func (a *analyzer) seq(pos token.Pos, x, y alts) alts {
	if len(y) == 1 && len(y[0]) == 0 {
		return x
	}
	if len(x) == 1 && len(x[0]) == 0 {
		return y
	}
	out := make(alts, 0, len(x)*len(y))
	for _, s := range x {
		for _, t := range y {
			out = append(out, concat(s, t))
		}
	}
	out = dedupAlts(out)
	if len(out) > maxPaths {
		failf(pos, "more than %d alternative event sequences in %s", maxPaths, a.curRoot)
	}
	return out
}

// setup discovers Bundle, its mutex and token-list fields.
func newAnalyzer(ld *loader) *analyzer {
	p := ld.byRel("bundle")
	a := &analyzer{ld: ld, p: p, inf: p.Info, memo: map[*ast.FuncDecl][][]Ev{}, inProg: map[*ast.FuncDecl]bool{}, rawCnt: map[*ast.FuncDecl]int{}}
	tn, ok := p.Types.Scope().Lookup("Bundle").(*types.TypeName)
	if !ok {
		failPath(p.Dir, "type Bundle not found")
	}
	a.bundleT, _ = tn.Type().(*types.Named)
	if a.bundleT == nil {
		failf(tn.Pos(), "Bundle is not a defined type")
	}

	// Find the struct declaration to inspect field type syntax (sync is a fake package).
	var st *ast.StructType
	for _, f := range p.Files {
		ast.Inspect(f, func(n ast.Node) bool {
			if ts, ok := n.(*ast.TypeSpec); ok && p.Info.Defs[ts.Name] == types.Object(tn) {
				st, _ = ts.Type.(*ast.StructType)
				if ts.TypeParams != nil {
					failf(ts.Pos(), "generic Bundle is not understood")
				}
			}
			return true
		})
	}
	if st == nil {
		failf(tn.Pos(), "Bundle is not a struct type")
	}
	for _, fld := range st.Fields.List {
		if len(fld.Names) == 0 {
			failf(fld.Pos(), "embedded field in Bundle is not understood")
		}
		for _, n := range fld.Names {
			v, _ := p.Info.Defs[n].(*types.Var)
			if v == nil {
				failf(n.Pos(), "Bundle field %s not resolved", n.Name)
			}
			switch {
			case isRWMutexPtr(fld.Type):
				if a.mField != nil {
					failf(n.Pos(), "Bundle has more than one *sync.RWMutex field")
				}
				a.mField = v
			case isLocalSliceType(p, v.Type()) != nil:
				if a.tsField != nil {
					failf(n.Pos(), "Bundle has more than one token-list field")
				}
				a.tsField = v
				a.tokensT = isLocalSliceType(p, v.Type())
			default:
				if _, isFunc := v.Type().Underlying().(*types.Signature); !isFunc {
					failf(n.Pos(), "Bundle field %s (type %s) is neither the mutex, the token list, nor func-typed: accesses to it would go untracked", n.Name, v.Type())
				}
			}
		}
	}
	if a.mField == nil || a.tsField == nil {
		failf(st.Pos(), "Bundle lacks a *sync.RWMutex field or a token-list field")
	}
	for _, f := range p.Files {
		for _, imp := range f.Imports {
			if imp.Path.Value == `"sync"` && imp.Name != nil {
				failf(imp.Pos(), "renamed import of sync is not understood")
			}
		}
	}
	a.checkFieldSelections()
	a.classifyTokens()
	return a
}

func isRWMutexPtr(e ast.Expr) bool {
	st, ok := e.(*ast.StarExpr)
	if !ok {
		return false
	}
	sel, ok := st.X.(*ast.SelectorExpr)
	return ok && sel.Sel.Name == "RWMutex" && isIdentNamed(sel.X, "sync")
}

func isLocalSliceType(p *Pkg, t types.Type) *types.Named {
	n, ok := t.(*types.Named)
	if !ok || n.Obj().Pkg() != p.Types {
		return nil
	}
	if _, ok := n.Underlying().(*types.Slice); !ok {
		return nil
	}
	return n
}

// isBundlePtr reports whether t is *Bundle.
func (a *analyzer) isBundlePtr(t types.Type) bool {
	pt, ok := t.(*types.Pointer)
	return ok && types.Identical(pt.Elem(), a.bundleT)
}

// bundleParam returns the single receiver/parameter of type *Bundle of decl (nil if none).
func (a *analyzer) bundleParam(decl *ast.FuncDecl) *types.Var {
	var found *types.Var
	visit := func(fl *ast.FieldList) {
		if fl == nil {
			return
		}
		for _, f := range fl.List {
			t := a.inf.Types[f.Type].Type
			if t == nil {
				continue
			}
			if types.Identical(t, a.bundleT) {
				failf(f.Pos(), "%s takes a Bundle by value (copies the token-list header, shares the mutex): not understood", decl.Name.Name)
			}
			if !a.isBundlePtr(t) {
				if containsBundle(t, a.bundleT, 0) {
					failf(f.Pos(), "%s has a parameter whose type contains Bundle: not understood", decl.Name.Name)
				}
				continue
			}
			if len(f.Names) == 0 {
				continue // unnamed: cannot be used
			}
			for _, n := range f.Names {
				if n.Name == "_" {
					continue
				}
				if found != nil {
					failf(n.Pos(), "%s has more than one *Bundle parameter: not understood", decl.Name.Name)
				}
				found, _ = a.inf.Defs[n].(*types.Var)
			}
		}
	}
	visit(decl.Recv)
	visit(decl.Type.Params)
	return found
}

func containsBundle(t types.Type, b *types.Named, depth int) bool {
	if depth > 4 {
		return false
	}
	switch t := t.(type) {
	case *types.Pointer:
		return types.Identical(t.Elem(), b) || containsBundle(t.Elem(), b, depth+1)
	case *types.Slice:
		return containsBundle(t.Elem(), b, depth+1)
	case *types.Array:
		return containsBundle(t.Elem(), b, depth+1)
	case *types.Map:
		return containsBundle(t.Key(), b, depth+1) || containsBundle(t.Elem(), b, depth+1)
	case *types.Chan:
		return containsBundle(t.Elem(), b, depth+1)
	case *types.Named:
		return types.Identical(t, b)
	}
	return false
}

// checkFieldSelections fails closed if Bundle.m / Bundle.ts are selected from
// anything but a receiver/parameter identifier of type *Bundle: such accesses
// would be invisible to the per-function analysis.
func (a *analyzer) checkFieldSelections() {
	params := map[types.Object]bool{}
	for _, d := range a.p.funcDecls {
		if v := a.bundleParam(d); v != nil {
			params[v] = true
		}
	}
	type item struct {
		sel *ast.SelectorExpr
		s   *types.Selection
	}
	var items []item
	for sel, s := range a.inf.Selections {
		if s.Kind() == types.FieldVal && (s.Obj() == types.Object(a.mField) || s.Obj() == types.Object(a.tsField)) {
			items = append(items, item{sel, s})
		}
	}
	sort.Slice(items, func(i, j int) bool { return items[i].sel.Pos() < items[j].sel.Pos() })
	for _, it := range items {
		id, ok := it.sel.X.(*ast.Ident)
		if !ok || !params[a.inf.Uses[id]] {
			failf(it.sel.Pos(), "Bundle.%s is accessed through something other than a *Bundle receiver/parameter", it.sel.Sel.Name)
		}
	}
}

// ---------------------------------------------------------------------------
// output

type lockEntry struct {
	name  string
	trace []Ev
}

func genBundleLocks(ld *loader) []byte {
	a := newAnalyzer(ld)

	// Entry points: exported functions/methods with a *Bundle receiver or parameter.
	type entry struct {
		name string
		decl *ast.FuncDecl
	}
	var entries []entry
	for _, f := range a.p.Files {
		for _, d := range f.Decls {
			fd, ok := d.(*ast.FuncDecl)
			if !ok || fd.Body == nil || !fd.Name.IsExported() {
				continue
			}
			if a.bundleParam(fd) == nil {
				continue
			}
			name := fd.Name.Name
			if fd.Recv != nil {
				rt := a.inf.Types[fd.Recv.List[0].Type].Type
				if !a.isBundlePtr(rt) {
					// a method of another type that takes a *Bundle
					name = recvTypeName(fd) + "." + name
				} else {
					name = "Bundle." + name
				}
			}
			entries = append(entries, entry{name, fd})
		}
	}
	sort.Slice(entries, func(i, j int) bool { return entries[i].name < entries[j].name })
	if len(entries) == 0 {
		failPath(a.p.Dir, "no exported function with a *Bundle receiver or parameter found")
	}

	var out []lockEntry
	var deferred []kvb
	var notes []string
	for i, e := range entries {
		if i > 0 && entries[i-1].name == e.name {
			failf(e.decl.Pos(), "duplicate entry name %s", e.name)
		}
		a.curRoot = e.name
		raw := a.funcTraces(e.decl, nil, nil)
		traces := dedupAlts(raw)
		// Paths with an empty trace (early returns before anything is touched) are
		// dropped when the function also has a non-empty path.
		var nonEmpty alts
		for _, t := range traces {
			if len(t) > 0 {
				nonEmpty = append(nonEmpty, t)
			}
		}
		if len(nonEmpty) > 0 {
			traces = nonEmpty
		}
		notes = append(notes, fmt.Sprintf("--   %s: %d path(s) before merging, %d reported", e.name, a.rawCnt[e.decl], len(traces)))
		for j, t := range traces {
			n := e.name
			if len(traces) > 1 {
				n = fmt.Sprintf("%s#%d", e.name, j+1)
			}
			out = append(out, lockEntry{n, t})
		}
		safe := true
		for _, t := range raw {
			safe = safe && calloutsUnderDeferredUnlock(t)
		}
		deferred = append(deferred, kvb{e.name, safe})
	}

	sharesM, sharesT := a.bundleLiterals()

	var sb strings.Builder
	sb.WriteString("-- GENERATED by /verif/extract from " + a.p.Dir + " — do not edit\n")
	sb.WriteString("import Macaroon.Conc.Events\n")
	sb.WriteString("namespace Macaroon.Generated\n")
	sb.WriteString("open Macaroon.Conc Macaroon.Conc.Ev\n")
	sb.WriteString("-- classification of the methods on `" + a.tokensT.Obj().Name() + "` (reader = read, writer = read … write):\n")
	var mnames []string
	for n := range a.tokClass {
		mnames = append(mnames, n)
	}
	sort.Strings(mnames)
	for _, n := range mnames {
		c := a.tokClass[n]
		kind := "reader"
		if c.writer {
			kind = "writer"
		}
		sb.WriteString(fmt.Sprintf("--   %s: %s (%s)\n", n, kind, c.why))
	}
	sb.WriteString("-- paths per entry point (identical traces are merged, empty traces dropped if another path exists):\n")
	for _, n := range notes {
		sb.WriteString(n + "\n")
	}
	items := make([]string, len(out))
	for i, e := range out {
		items[i] = fmt.Sprintf("{ name := %s, trace := %s }", leanString(token.NoPos, e.name), evString(e.trace))
	}
	leanList(&sb, "bundleLocks", "List Entry", items)
	pairs := func(l []kvb) []string {
		it := make([]string, len(l))
		for i, e := range l {
			it[i] = "(" + leanString(token.NoPos, e.k) + ", " + leanBool(e.v) + ")"
		}
		return it
	}
	leanList(&sb, "bundleSharesMutex", "List (String × Bool)", pairs(sharesM))
	leanList(&sb, "bundleSharesTokens", "List (String × Bool)", pairs(sharesT))
	sb.WriteString("-- per entry point: every critical section that calls user code (callout) is released by a deferred unlock\n")
	leanList(&sb, "bundleCalloutsUnderDeferredUnlock", "List (String × Bool)", pairs(deferred))
	sb.WriteString("end Macaroon.Generated\n")
	return []byte(sb.String())
}

func recvTypeName(fd *ast.FuncDecl) string {
	t := fd.Recv.List[0].Type
	for {
		switch x := t.(type) {
		case *ast.StarExpr:
			t = x.X
		case *ast.IndexExpr:
			t = x.X
		case *ast.IndexListExpr:
			t = x.X
		case *ast.ParenExpr:
			t = x.X
		case *ast.Ident:
			return x.Name
		default:
			failf(fd.Pos(), "receiver type not understood")
		}
	}
}

type kvb struct {
	k string
	v bool
}

// bundleLiterals finds every Bundle composite literal in the package and
// reports whether it shares the mutex / token list of the function's *Bundle.
func (a *analyzer) bundleLiterals() (sharesM, sharesT []kvb) {
	for _, f := range a.p.Files {
		for _, d := range f.Decls {
			fd, ok := d.(*ast.FuncDecl)
			if !ok || fd.Body == nil {
				// package-level var initialisers with Bundle literals are not expected
				if gd, ok := d.(*ast.GenDecl); ok {
					ast.Inspect(gd, func(n ast.Node) bool {
						if cl, ok := n.(*ast.CompositeLit); ok && a.isBundleLit(cl) {
							failf(cl.Pos(), "Bundle literal outside a function is not understood")
						}
						return true
					})
				}
				continue
			}
			bv := a.bundleParam(fd)
			name := fd.Name.Name
			if fd.Recv != nil {
				name = recvTypeName(fd) + "." + name
			}
			var lits []*ast.CompositeLit
			ast.Inspect(fd.Body, func(n ast.Node) bool {
				switch n := n.(type) {
				case *ast.CompositeLit:
					if a.isBundleLit(n) {
						lits = append(lits, n)
					}
				case *ast.CallExpr:
					if id, ok := n.Fun.(*ast.Ident); ok && id.Name == "new" && len(n.Args) == 1 {
						if _, isB := a.inf.Uses[id].(*types.Builtin); isB {
							if t := a.inf.Types[n.Args[0]].Type; t != nil && types.Identical(t, a.bundleT) {
								failf(n.Pos(), "new(Bundle) (nil mutex) is not understood")
							}
						}
					}
				}
				return true
			})
			if len(lits) == 0 {
				continue
			}
			if len(lits) > 1 {
				failf(lits[1].Pos(), "%s contains more than one Bundle literal: not understood", name)
			}
			lit := lits[0]
			var mExpr, tsExpr ast.Expr
			for _, el := range lit.Elts {
				kvx, ok := el.(*ast.KeyValueExpr)
				if !ok {
					failf(el.Pos(), "unkeyed Bundle literal is not understood")
				}
				key, _ := kvx.Key.(*ast.Ident)
				if key == nil {
					failf(kvx.Pos(), "Bundle literal key is not a field name")
				}
				switch key.Name {
				case a.mField.Name():
					mExpr = kvx.Value
				case a.tsField.Name():
					tsExpr = kvx.Value
				}
			}
			if mExpr == nil {
				failf(lit.Pos(), "Bundle literal without a %s: field (nil mutex) is not understood", a.mField.Name())
			}
			switch {
			case bv != nil && a.isBundleField(mExpr, bv, a.mField):
				sharesM = append(sharesM, kvb{name, true})
			case isFreshMutex(mExpr):
				sharesM = append(sharesM, kvb{name, false})
			default:
				failf(mExpr.Pos(), "mutex of the new Bundle is neither the receiver's mutex nor new(sync.RWMutex)")
			}
			shared := false
			if tsExpr != nil && bv != nil {
				ast.Inspect(tsExpr, func(n ast.Node) bool {
					if e, ok := n.(ast.Expr); ok {
						// token identity cannot flow through a string (parseToks(b.ts.Header())
						// builds fresh tokens): do not look inside string-typed sub-expressions
						if tv, ok := a.inf.Types[e]; ok && tv.Type != nil {
							if bt, ok := tv.Type.Underlying().(*types.Basic); ok && bt.Info()&types.IsString != 0 {
								return false
							}
						}
						if a.isBundleField(e, bv, a.tsField) {
							shared = true
						}
					}
					return true
				})
			}
			sharesT = append(sharesT, kvb{name, shared})
		}
	}
	sort.Slice(sharesM, func(i, j int) bool { return sharesM[i].k < sharesM[j].k })
	sort.Slice(sharesT, func(i, j int) bool { return sharesT[i].k < sharesT[j].k })
	return
}

func (a *analyzer) isBundleLit(cl *ast.CompositeLit) bool {
	if cl.Type == nil {
		t := a.inf.Types[cl].Type
		return t != nil && (types.Identical(t, a.bundleT) || a.isBundlePtr(t))
	}
	t := a.inf.Types[cl.Type].Type
	return t != nil && types.Identical(t, a.bundleT)
}

// isBundleField reports whether e is `<bv>.<field>`.
func (a *analyzer) isBundleField(e ast.Expr, bv *types.Var, field *types.Var) bool {
	sel, ok := e.(*ast.SelectorExpr)
	if !ok || sel.Sel.Name != field.Name() {
		return false
	}
	id, ok := sel.X.(*ast.Ident)
	return ok && a.inf.Uses[id] == types.Object(bv)
}

func isFreshMutex(e ast.Expr) bool {
	isRW := func(t ast.Expr) bool {
		sel, ok := t.(*ast.SelectorExpr)
		return ok && sel.Sel.Name == "RWMutex" && isIdentNamed(sel.X, "sync")
	}
	switch x := e.(type) {
	case *ast.CallExpr: // new(sync.RWMutex)
		return isIdentNamed(x.Fun, "new") && len(x.Args) == 1 && isRW(x.Args[0])
	case *ast.UnaryExpr: // &sync.RWMutex{}
		cl, ok := x.X.(*ast.CompositeLit)
		return ok && x.Op == token.AND && len(cl.Elts) == 0 && isRW(cl.Type)
	}
	return false
}
