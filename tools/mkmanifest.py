#!/usr/bin/env python3
"""regenerate MANIFEST.json from checks_config.py"""
import json, os, sys
ROOT = os.path.dirname(os.path.dirname(os.path.abspath(__file__)))
sys.path.insert(0, ROOT)
from checks_config import CHECKS, TRUSTED_BASE, PENDING

props = [json.loads(l)["id"] for l in open(os.path.join(ROOT, "properties.jsonl"))]
checks = []
for pid in props:
    if pid not in CHECKS or pid in PENDING: continue
    c = CHECKS[pid]
    checks.append({
        "property_id": pid,
        "quick_cmd": f"./check {pid} --tier quick",
        "thorough_cmd": f"./check {pid} --tier thorough",
        "evidence_file": f"/verif/evidence/{pid}.json",
        "replay_cmd_template": f"./check {pid} --replay {{path}}",
        "engine": "lean-model+go-harness",
        "level_claimed": {"category": "proof", "text": c["text"], "design_ref": c["design_ref"]},
        "level_note": c["note"] + " Trusted base: " + "; ".join(TRUSTED_BASE),
        "technique": c["technique"],
    })
na = [{"property_id": pid, "reason": PENDING.get(pid, "check not built yet in this round (planned: DESIGN.md section 3)")}
      for pid in props if pid not in CHECKS or pid in PENDING]
m = {
    "version": 1,
    "setup_cmd": "./setup.sh",
    "hooks": {"guard": "verif", "enable": "go build -tags verif (no hook commits exist; the harness uses exported API only)",
              "baseline_off_cmd": "cd /repo && go test -vet=off -count=1 ./...", "source_commits": [], "add_only": True},
    "engines": [
        {"name": "lean-model+go-harness", "path": "/verif/lean, /verif/harness, /verif/check",
         "serves_properties": [c["property_id"] for c in checks],
         "kind_free_text": "Lean 4 model + theorems (lake project), compiled model driver, Go differential harness calling /repo in-process, Python orchestrator"},
        {"name": "extractor", "path": "/verif/extract", "serves_properties": ["C15"],
         "kind_free_text": "go/ast + go/types fact extractor regenerating Lean tables (lock traces, caveat registry, constants) from /repo on every run"},
    ],
    "checks": checks,
    "not_applicable": na,
    "notes": "All checks share one entry point ./check <id>. Technique: machine-checked proof in Lean 4 over a hand-written executable model, tied to /repo by differential correspondence and regenerated facts. See DESIGN.md.",
}
json.dump(m, open(os.path.join(ROOT, "MANIFEST.json"), "w"), indent=1)
print("MANIFEST.json:", len(checks), "checks,", len(na), "not claimed")
