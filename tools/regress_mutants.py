#!/usr/bin/env python3
"""tools/regress_mutants.py [name-prefix ...]
Re-run every kept seeded change (seeded/<name>/patch.diff) against the checks recorded as catching it
(meta.json: caught_by) and write seeded/REGRESSION.json: which are still caught, which no longer apply to the
current /repo (the code they touch was repaired or moved), which are missed now."""
import json, os, subprocess, sys
ROOT = os.path.dirname(os.path.dirname(os.path.abspath(__file__)))
sel = sys.argv[1:]
out = {}
rj = os.path.join(ROOT, "seeded", "REGRESSION.json")
if sel and os.path.exists(rj): out = json.load(open(rj))   # partial run: merge into the last full result
import concurrent.futures, threading
J = int(os.environ.get("REGRESS_JOBS", "4"))   # every run works in its own copy of /verif and of /repo (try_mutant.py)
lock = threading.Lock()
def one(name):
    d = os.path.join(ROOT, "seeded", name)
    meta = json.load(open(os.path.join(d, "meta.json")))
    ids = meta.get("caught_by") or [meta["breaks_property"]]
    p = subprocess.run([sys.executable, os.path.join(ROOT, "tools", "try_mutant.py"), os.path.join(d, "patch.diff")] + ids,
                       stdout=subprocess.PIPE, stderr=subprocess.STDOUT, text=True, cwd=ROOT)
    lines = p.stdout.splitlines()
    if any("patch does not apply" in l for l in lines):
        r = {"status": "patch no longer applies to /repo HEAD"}
    else:
        import re
        res, cnt = {}, {}
        for l in lines:
            for cid in ids:
                if l.startswith(cid + ": "):
                    res[cid] = "caught" if "CAUGHT" in l else "missed"
                    m = re.search(r"(\d+) disagreements", l)
                    if m: cnt[cid] = int(m.group(1))   # how many lines of the run disagreed: a thin catch (1-3 lines) depends on the seed
        r = {"status": "caught" if res and all(v == "caught" for v in res.values()) else ("partly" if "caught" in res.values() else "MISSED"), "checks": res, "lines": cnt}
    with lock:
        out[name] = r
        print(name, r, flush=True)
        json.dump(dict(sorted(out.items())), open(rj, "w"), indent=1)
names = [n for n in sorted(os.listdir(os.path.join(ROOT, "seeded")))
         if os.path.isdir(os.path.join(ROOT, "seeded", n)) and (not sel or any(n.startswith(s) for s in sel))]
with concurrent.futures.ThreadPoolExecutor(max_workers=J) as ex:
    list(ex.map(one, names))
