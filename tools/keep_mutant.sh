#!/bin/bash
# tools/keep_mutant.sh <worktree> <seed-name> <property> <caught-by...>
# confirm the demonstration in the scratch worktree (fails with the change, passes without), then keep it under seeded/
set -u
export GOFLAGS=-mod=mod GOPROXY=off GOSUMDB=off GOTOOLCHAIN=local
wt=$1; name=$2; prop=$3; shift 3; caught="$*"
demo=$(cd $wt && git status --porcelain | grep zz_mutant_demo_test.go | awk '{print $2}')
dir=$(dirname $demo)
cd $wt
with=$(go test -vet=off -count=1 -run 'TestMutantDemo$' ./$dir/ 2>&1 | tail -1)
git apply -R MUTANT.diff || { echo "cannot revert"; exit 1; }
without=$(go test -vet=off -count=1 -run 'TestMutantDemo$' ./$dir/ 2>&1 | tail -1)
suite_without=$(go test -vet=off -count=1 ./... 2>&1 | grep -c '^FAIL')
git apply MUTANT.diff
suite_with=$(go test -vet=off -count=1 -skip 'TestMutantDemo$' ./... 2>&1 | grep -c '^FAIL')
echo "demo with change: $with"; echo "demo without: $without"; echo "suite FAIL lines with=$suite_with without=$suite_without"
case "$with" in FAIL*) ;; *) echo "NOT CONFIRMED (demo does not fail with change)"; exit 1;; esac
case "$without" in ok*) ;; *) echo "NOT CONFIRMED (demo does not pass without change)"; exit 1;; esac
mkdir -p /verif/seeded/$name
cp MUTANT.diff /verif/seeded/$name/patch.diff
cp $demo /verif/seeded/$name/demo_test.go.txt
cp MUTANT.md /verif/seeded/$name/notes.md 2>/dev/null
python3 - "$name" "$prop" "$dir" "$with" "$without" "$suite_with" "$caught" <<'PY'
import json,sys
name,prop,d,w,wo,sw,caught=sys.argv[1:8]
json.dump({"breaks_property":prop,"demo_package_dir":d,"demo_file":"demo_test.go.txt (place as <dir>/zz_mutant_demo_test.go)",
 "needs_to_manifest":"see notes.md","confirmed":{"demo_with_change":w,"demo_without_change":wo,"existing_suite_fail_lines_with_change":int(sw),
 "how":"tools/keep_mutant.sh in a scratch worktree of /repo; tools/try_mutant.py applied patch.diff to /repo, ran the checks, reverted"},
 "caught_by":caught.split()},open(f"/verif/seeded/{name}/meta.json","w"),indent=1)
PY
echo kept $name
