#!/usr/bin/env python3
"""tools/try_mutant.py <patch.diff> <check-id> [<check-id>...] [--tier quick|thorough]
Apply a seeded change to /repo, confirm it builds and the existing tests pass, run the given checks,
undo the change. Prints one line per check: caught / missed."""
import subprocess, sys, os, json
args = sys.argv[1:]
tier = "quick"
if "--keep" in args: args.remove("--keep")
if "--tier" in args:
    i = args.index("--tier"); tier = args[i+1]; del args[i:i+2]
patch, ids = os.path.abspath(args[0]), args[1:]
env = dict(os.environ, GOFLAGS="-mod=mod", GOPROXY="off", GOSUMDB="off", GOTOOLCHAIN="local")
def sh(cmd, cwd=None):
    p = subprocess.run(cmd, cwd=cwd, env=env, stdout=subprocess.PIPE, stderr=subprocess.STDOUT, text=True, shell=isinstance(cmd, str))
    return p.returncode, p.stdout
# work on a scratch copy of /repo's HEAD unless --in-place (agents may be reading /repo concurrently)
inplace = "--in-place" in ids
if inplace: ids.remove("--in-place")
import tempfile, shutil
if inplace:
    R = "/repo"
    st = sh("git -C /repo status --porcelain")[1].strip()
    if st: sys.exit("refusing: /repo has uncommitted changes:\n" + st)
else:
    R = tempfile.mkdtemp(prefix="mutrepo_", dir="/tmp")
    sh(f"git -C /repo archive HEAD | tar -x -C {R}")
    sh(f"cd {R} && git init -q && git add -A && git -c user.email=a@b -c user.name=x commit -qm base")
    env["VERIF_REPO"] = R
# the checks run from a private copy of /verif (its own Generated/*.lean, work/ and evidence/), so that several of
# these runs - and the committed evidence in /verif - do not disturb each other;  --in-verif runs them in place
V = "/verif"
if "--in-verif" in ids:
    ids.remove("--in-verif")
else:
    V = tempfile.mkdtemp(prefix="verif_iso_", dir="/tmp")
    sh(f"rsync -a --exclude .git --exclude work --exclude seeded /verif/ {V}/")
rc, out = sh(["git", "-C", R, "apply", patch])
if rc: sys.exit("patch does not apply: " + out)
res = {}
try:
    rc, out = sh("go build ./... && go test -vet=off -count=1 ./... 2>&1 | grep -v 'no test files' | grep -v '^ok' ; exit ${PIPESTATUS[0]}", cwd=R)
    rc2, out2 = sh("go test -vet=off -count=1 ./...", cwd=R)
    for _ in range(3):
        # /repo's own Test3pe2e is flaky (it zeroes one ticket byte and expects the ticket to stop opening: about one
        # run in 128 the byte already is zero): a failure of that test alone is re-run
        fails = [l for l in out2.splitlines() if l.startswith("--- FAIL")]
        if rc2 != 0 and fails and all("Test3pe2e" in l for l in fails):
            rc2, out2 = sh("go test -vet=off -count=1 ./...", cwd=R)
        else:
            break
    print("build+tests:", "pass" if rc2 == 0 else "FAIL\n" + out2[-1500:])
    for cid in ids:
        rc, out = sh(["./check", cid, "--tier", tier], cwd=V)
        v = [l for l in out.splitlines() if l.startswith("VIOLATION")]
        res[cid] = {"exit": rc, "violation": v[:1], "tail": out.splitlines()[-1:]}
        print(f"{cid}: {'CAUGHT' if rc == 1 and v else 'missed'}  {v[0] if v else ''}  {out.splitlines()[-1] if out.splitlines() else ''}")
finally:
    if inplace:
        sh("git -C /repo checkout -- .")
        st = sh("git -C /repo status --porcelain")[1].strip()
        if st: print("WARNING: /repo not clean after revert:", st)
    else:
        shutil.rmtree(R, ignore_errors=True)
    if V != "/verif":
        if "--keep" in sys.argv: print("kept", V)
        else: shutil.rmtree(V, ignore_errors=True)
print(json.dumps(res))
