#!/usr/bin/env python3
"""tools/try_mutant.py <patch.diff> <check-id> [<check-id>...] [--tier quick|thorough]
Apply a seeded change to /repo, confirm it builds and the existing tests pass, run the given checks,
undo the change. Prints one line per check: caught / missed."""
import subprocess, sys, os, json
args = sys.argv[1:]
tier = "quick"
if "--tier" in args:
    i = args.index("--tier"); tier = args[i+1]; del args[i:i+2]
patch, ids = os.path.abspath(args[0]), args[1:]
env = dict(os.environ, GOFLAGS="-mod=mod", GOPROXY="off", GOSUMDB="off", GOTOOLCHAIN="local")
def sh(cmd, cwd=None):
    p = subprocess.run(cmd, cwd=cwd, env=env, stdout=subprocess.PIPE, stderr=subprocess.STDOUT, text=True, shell=isinstance(cmd, str))
    return p.returncode, p.stdout
st = sh("git -C /repo status --porcelain")[1].strip()
if st: sys.exit("refusing: /repo has uncommitted changes:\n" + st)
rc, out = sh(["git", "-C", "/repo", "apply", patch])
if rc: sys.exit("patch does not apply: " + out)
res = {}
try:
    rc, out = sh("go build ./... && go test -vet=off -count=1 ./... 2>&1 | grep -v 'no test files' | grep -v '^ok' ; exit ${PIPESTATUS[0]}", cwd="/repo")
    rc2, out2 = sh("go test -vet=off -count=1 ./...", cwd="/repo")
    print("build+tests:", "pass" if rc2 == 0 else "FAIL\n" + out2[-1500:])
    for cid in ids:
        rc, out = sh(["./check", cid, "--tier", tier], cwd="/verif")
        v = [l for l in out.splitlines() if l.startswith("VIOLATION")]
        res[cid] = {"exit": rc, "violation": v[:1], "tail": out.splitlines()[-1:]}
        print(f"{cid}: {'CAUGHT' if rc == 1 and v else 'missed'}  {v[0] if v else ''}  {out.splitlines()[-1] if out.splitlines() else ''}")
finally:
    sh("git -C /repo checkout -- .")
    st = sh("git -C /repo status --porcelain")[1].strip()
    if st: print("WARNING: /repo not clean after revert:", st)
print(json.dumps(res))
