/-
Scope helpers of package flyio (`flyio/caveat_set.go`) and token expiry
(`macaroon.go: (*Macaroon).Expiration`, `bundle/token.go: (*VerifiedMacaroon).Expiration`).

One model function per Go function, following its control flow.  The helpers re-validate
candidate ids against the caveats of one kind (found with `GetCaveats`, which descends into
wrappers) using the clearing model of `Caveat/Prohibits.lean` unchanged.

Go maps have no order: where the Go code collects map keys and sorts them, the model collects
the keys of the association lists and sorts them explicitly by Go's order (`<` on `uint64`,
bytewise on strings), dropping duplicates (a map holds a key once).
Core Lean only.
-/
import Macaroon.Caveat.Prohibits

namespace Macaroon.Flyio
variable {B : Type}

/-! ### "sorted by Go's order" -/

/-- insert into a strictly ascending list; a key that is already there is not added again -/
def insertSorted {K} [BEq K] (lt : K → K → Bool) (x : K) : List K → List K
  | [] => [x]
  | y :: ys => if x == y then y :: ys else if lt x y then x :: y :: ys else y :: insertSorted lt x ys

/-- the distinct elements of `l` in ascending order: `maps.Keys` of the set built from `l`,
then `slices.Sort` -/
def sortDedup {K} [BEq K] (lt : K → K → Bool) (l : List K) : List K :=
  l.foldr (insertSorted lt) []

/-- Go's `<` on `uint64` -/
def ltU64 (a b : UInt64) : Bool := decide (a < b)

/-! ### the caveat kinds the helpers look for (`GetCaveats[*T]`) -/

def isOrg : Cav B → Bool | .organization .. => true | _ => false
def isApps : Cav B → Bool | .apps .. => true | _ => false
def isClusters : Cav B → Bool | .clusters .. => true | _ => false
def isWindow : Cav B → Bool | .validityWindow .. => true | _ => false

/-- `cav.ID` of an `*Organization` -/
def orgIdOf : Cav B → UInt64 | .organization id _ => id | _ => 0

/-- every key of every `Apps` map, in the order met -/
def appKeys : List (Cav B) → List UInt64
  | [] => []
  | .apps rs :: cs => rs.map (·.1) ++ appKeys cs
  | _ :: cs => appKeys cs

/-- every key of every `Clusters` map -/
def clusterKeys : List (Cav B) → List Bytes
  | [] => []
  | .clusters rs :: cs => rs.map (·.1) ++ clusterKeys cs
  | _ :: cs => clusterKeys cs

/-! ### the requests the helpers build -/

/-- `&Access{OrgID: &o, Action: resset.ActionNone}` -/
def orgReq (o : UInt64) : Req := { Req.zero with org := some o }
/-- `&Access{OrgID: ptr(999), Action: resset.ActionNone, AppID: &id}` -/
def appReq (id : UInt64) : Req := { Req.zero with org := some 999, app := some id }
/-- `&Access{OrgID: ptr(999), Action: resset.ActionNone, Feature: ptr(FeatureLFSC), Cluster: &id}` -/
def clusterReq (id : Bytes) : Req :=
  { Req.zero with org := some 999, feature := some featureLFSC, cluster := some id }
/-- `&Access{OrgID: &o, AppID: &id, Action: action}` -/
def allowReq (o id : UInt64) (act : Action) : Req :=
  { Req.zero with action := act, org := some o, app := some id }

/-- `cs.Validate(&Access{…}) == nil`.  `flyio.Access.Now()` is the wall clock `(sec, nsec)`. -/
def clears (cs : List (Cav B)) (f : Req) (sec : Int) (nsec : Nat) : Bool :=
  (Macaroon.validate cs [f.toAccess sec nsec]).isEmpty

/-! ### the helpers -/

/-- `flyio.OrganizationScope`.  Only the organization caveats are validated; none of them looks
at the clock, so the instant given to the request is immaterial (0 is used). -/
def organizationScope (cs : List (Cav B)) : Except Errs UInt64 :=
  match getCaveats isOrg cs with
  | [] => .error [.unauthorized]
  | c :: rest =>
    let e := Macaroon.validate (c :: rest) [(orgReq (orgIdOf c)).toAccess 0 0]
    if e.isEmpty then .ok (orgIdOf c) else .error e

/-- `flyio.AppScope`; `none` = the nil slice ("unrestricted"), `some []` = the empty slice -/
def appScope (cs : List (Cav B)) : Option (List UInt64) :=
  let cavs := getCaveats isApps cs
  if cavs.isEmpty then none else
  -- gather any app id mentioned in any caveat; remove the ids that do not validate
  let possible := (sortDedup ltU64 (appKeys cavs)).filter fun id => clears cavs (appReq id) 0 0
  -- do we allow id=0 (aka id=*)?
  if possible.contains 0 then none else some possible

/-- `flyio.ClusterScope` (after the repair of F11 it has `AppScope`'s wildcard case) -/
def clusterScope (cs : List (Cav B)) : Option (List Bytes) :=
  let cavs := getCaveats isClusters cs
  if cavs.isEmpty then none else
  -- gather any cluster id mentioned in any caveat; remove the ids that do not validate
  let possible := (sortDedup Bytes.lt (clusterKeys cavs)).filter fun id => clears cavs (clusterReq id) 0 0
  -- do we allow id="" (aka id=*)?
  if possible.contains [] then none else some possible

/-- `flyio.AppsAllowing`; here the whole caveat set is validated, validity windows included, so
the wall clock `(sec, nsec)` read by `flyio.Access.Now()` is an input.  On error the Go function
returns `(0, []uint64{}, err)`. -/
def appsAllowing (cs : List (Cav B)) (act : Action) (sec : Int) (nsec : Nat) :
    Except Errs (UInt64 × Option (List UInt64)) :=
  match organizationScope cs with
  | .error e => .error e
  | .ok o =>
    match appScope cs with
    | none =>
      -- no app restrictions, check that action is allowed on apps in general
      let e := Macaroon.validate cs [(allowReq o 0 act).toAccess sec nsec]
      if e.isEmpty then .ok (o, none) else .error e
    | some [] => .error [.forResource]          -- no apps in scope
    | some scope =>
      -- filter scope to those allowing action
      let ret := scope.filter fun id => clears cs (allowReq o id act) sec nsec
      if ret.isEmpty then .error [.forAction] else .ok (o, some (sortDedup ltU64 ret))

/-! ### expiry -/

/-- `maxTime = time.Unix(1<<63-62135596801, 999999999)`, as unix seconds and nanoseconds:
the largest instant a `time.Time` can hold -/
def maxTimeSec : Int := 9223372036854775807 - 62135596800
def maxTimeNsec : Nat := 999999999

/-- one step of the loop of `Expiration` -/
def expirationStep (ret : Int × Nat) : Cav B → Int × Nat
  | .validityWindow _ na =>
    -- time.Unix wraps around beyond maxTime
    if na.toInt ≥ maxTimeSec then ret
    else if GoTime.before na.toInt 0 ret.1 ret.2 then (na.toInt, 0) else ret
  | _ => ret

/-- `Expiration()` over a caveat set: the earliest `NotAfter` of the windows found by
`GetCaveats` (nested ones included), `maxTime` when there is none (unix seconds, nanoseconds) -/
def expiration (cs : List (Cav B)) : Int × Nat :=
  (getCaveats isWindow cs).foldl expirationStep (maxTimeSec, maxTimeNsec)

/-- `(*macaroon.Macaroon).Expiration` : over `m.UnsafeCaveats` -/
abbrev tokenExpiration (unsafeCaveats : List (Cav B)) : Int × Nat := expiration unsafeCaveats
/-- `(*bundle.VerifiedMacaroon).Expiration` : over `t.Caveats` -/
abbrev verifiedExpiration (caveats : List (Cav B)) : Int × Nat := expiration caveats

end Macaroon.Flyio
