/-
The token logic of macaroon.go, written once, generically over a carrier `B` of cryptographic
byte strings with the interface `Crypto B`:  New / Add / dedup / Encode (finalisation) /
verify / Bind / DischargeTicket.  It is instantiated with real bytes and real primitives
(Token/Concrete.lean, compiled into the driver and compared with Go bit for bit) and with a
free term algebra (Crypto/Symbolic.lean, the Dolev–Yao model of the unforgeability theorems).
Core Lean only.
-/
import Macaroon.Caveat.Prohibits

namespace Macaroon

/-- `macaroon.Nonce` over `B` -/
structure GNonce (B : Type) where
  kid : B
  rnd : B
  version : Nat      -- 0: two fields (old), 1: three fields
  proof : Bool

/-- `macaroon.Macaroon` -/
structure Mac (B : Type) where
  nonce : GNonce B
  loc : Bytes
  cavs : List (Cav B)
  tail : B
  /-- unexported `newProof`: a proof that has not been finalised yet -/
  newProof : Bool

/-- result of opening a ticket with a third-party key: `unseal` then `msgpack.Unmarshal` -/
inductive TicketResult (B : Type)
  | cannotOpen                 -- AEAD open failed
  | badPlaintext               -- opened, but the plaintext is not a wireTicket
  | ok (dk : B) (cavs : List (Cav B))

class Crypto (B : Type) where
  /-- `sign(key, nonce.MustEncode())` -/
  macNonce : B → GNonce B → B
  /-- `sign(tail, NewCaveatSet(c).MarshalMsgpack())`; `none` if the caveat cannot be encoded -/
  macCav : B → Cav B → Option B
  /-- `finalizeSignature` -/
  finalize : B → B
  /-- `digest` (SHA-256) -/
  digest : B → B
  /-- `digest(tail)[0:bindingIdLength]` -/
  bindId : B → B
  /-- `bytes.HasPrefix(bindingId, caveat)` -/
  hasPrefix : B → B → Bool
  /-- `seal(EncryptionKey(tail), rn)` with the given 12-byte AEAD nonce -/
  sealKey : B → B → B → B
  /-- `unseal(EncryptionKey(tail), verifierKey)` -/
  unsealKey : B → B → Option B
  /-- `seal(ka, encode(wireTicket{dk, cavs}))` with the given AEAD nonce -/
  sealTicket : B → B → B → List (Cav B) → B
  /-- `unseal(ka, ticket)` + decode -/
  openTicket : B → B → TicketResult B
  /-- `subtle.ConstantTimeCompare(a, b) == 1` -/
  ctEq : B → B → Bool
  /-- equality of key-ids / tickets as Go map keys (`string(kid)`) -/
  kidEq : B → B → Bool
  /-- the canonical encodings of two caveats are equal (dedup) -/
  sameEnc : Cav B → Cav B → Bool
  /-- the empty byte string (VerifierKey of a 3P caveat that was not added yet) -/
  empty : B

/-- the algebraic laws of the interface that the generic theorems use, together with the domain
on which the sealing laws hold.  The laws are size-aware: `okKey` = usable as an AEAD key,
`okNonce` = usable as an AEAD nonce, `okTicketBody dk cs` = the ticket plaintext `{dk, cs}` is
within the encoder's domain and the decoder's nesting budget.  Every value of the MAC chain is a
key (`okKey_macNonce`, `okKey_macCav`, `okKey_finalize`), so the size hypotheses are dischargeable
wherever a tail is used as a sealing key.
Both instances are proved lawful: the symbolic one (Crypto/Symbolic.lean: all three predicates are
`True`) and the concrete one (Lemmas/ConcreteLawful.lean: 32-byte keys, 12-byte nonces, well-formed
caveat sets — from the AEAD round trip of Lemmas/ConcreteCrypto.lean and the codec round trip of
Lemmas/Codec.lean).  The class carries the three predicates, hence it is a `Type`, not a `Prop`. -/
class LawfulCrypto (B : Type) [Crypto B] where
  /-- usable as an AEAD key (concrete: exactly 32 bytes, `chacha20poly1305.New`) -/
  okKey : B → Prop
  /-- usable as an AEAD nonce (concrete: exactly 12 bytes, `NonceSize`) -/
  okNonce : B → Prop
  /-- the ticket plaintext `wireTicket{dk, cs}` encodes and decodes back (concrete: lengths within
  the 32-bit headers, well-formed caveats, nesting within the decoder's budget) -/
  okTicketBody : B → List (Cav B) → Prop
  okKey_macNonce : ∀ (k : B) (n : GNonce B), okKey (Crypto.macNonce k n)
  okKey_macCav : ∀ (t : B) (c : Cav B) (t' : B), Crypto.macCav t c = some t' → okKey t'
  okKey_finalize : ∀ t : B, okKey (Crypto.finalize t)
  ctEq_iff : ∀ a b : B, Crypto.ctEq a b = true ↔ a = b
  kidEq_iff : ∀ a b : B, Crypto.kidEq a b = true ↔ a = b
  unsealKey_sealKey : ∀ t n rn : B, okKey t → okNonce n →
    Crypto.unsealKey t (Crypto.sealKey t n rn) = some rn
  openTicket_sealTicket : ∀ (ka n dk : B) (cs : List (Cav B)), okKey ka → okNonce n → okTicketBody dk cs →
    Crypto.openTicket ka (Crypto.sealTicket ka n dk cs) = .ok dk cs
  hasPrefix_bindId : ∀ t : B, Crypto.hasPrefix (Crypto.digest t) (Crypto.bindId t) = true
  /-- equal encodings are MACed alike -/
  sameEnc_mac : ∀ (c d : Cav B) (t : B), Crypto.sameEnc c d = true → Crypto.macCav t c = Crypto.macCav t d
  /-- whether a caveat can be encoded does not depend on the key -/
  macCav_isSome : ∀ (c : Cav B) (t t' : B), (Crypto.macCav t c).isSome = (Crypto.macCav t' c).isSome

variable {B : Type} [Crypto B]
open Crypto

/-! ### verification -/

mutual
/-- the caveat is a wrapper that contains an attestation at some depth.  Such a caveat can never
clear a request (the inner attestation always prohibits), and verification refuses it so that an
attestation cannot be smuggled past the proof/trust checks inside a wrapper (repair of F1). -/
def Cav.wrapsAttestation : Cav B → Bool
  | .ifPresent _ ifs _ => anyAttestationL ifs
  | _ => false
def anyAttestationL : CavList B → Bool
  | .nil => false
  | .cons c cs => c.isAttestation || Cav.wrapsAttestation c || anyAttestationL cs
end

inductive VErr
  | unfinalized | noDischarge | unsealVK | boundElsewhere | attestationInNonProof
  | wrappedAttestation | encodeErr | dischargeFailed | invalid
  deriving DecidableEq, Repr, Inhabited

/-- a third-party caveat waiting for its discharge: candidates (caller's order) and the key `rn` -/
structure Pending (B : Type) where
  ds : List (Mac B)
  key : B

/-- `dmsByTicket[string(ticket)]`: candidates with that key-id in presentation order; `none` when there is none -/
def byTicket (dms : List (Mac B)) (ticket : B) : Option (List (Mac B)) :=
  let ds := dms.filter fun d => kidEq d.nonce.kid ticket
  if ds.isEmpty then none else some ds

structure WalkState (B : Type) where
  cur : B                      -- running MAC
  ids : List B                 -- thisTokenBindingIds
  ret : List (Cav B)           -- caveats to return
  pend : List (Pending B)      -- dischargesToVerify

/-- the first loop of `verify`: MAC every caveat, collect binding ids, queue third-party caveats -/
def walk (proof trustAtt : Bool) (lookup : B → Option (List (Mac B))) (parentIds : List B) :
    List (Cav B) → WalkState B → Except VErr (WalkState B)
  | [], s => .ok s
  | c :: cs, s =>
    let step : Except VErr (WalkState B) :=
      match c with
      | .tp _ vk ticket =>
        match lookup ticket with
        | none => .error .noDischarge
        | some ds =>
          match unsealKey s.cur vk with
          | none => .error .unsealVK
          | some dk => .ok { s with pend := s.pend ++ [⟨ds, dk⟩] }
      | .bind id =>
        if parentIds.any (fun bid => hasPrefix bid id) then .ok s else .error .boundElsewhere
      | c =>
        if c.isAttestation && !proof then .error .attestationInNonProof
        else if c.wrapsAttestation then .error .wrappedAttestation
        else if !c.isAttestation || trustAtt then .ok { s with ret := s.ret ++ [c] } else .ok s
    match step with
    | .error e => .error e
    | .ok s' =>
      match macCav s'.cur c with
      | none => .error .encodeErr
      | some cur' => walk proof trustAtt lookup parentIds cs { s' with cur := cur', ids := s'.ids ++ [digest cur'] }

/-- verification of a token presented without discharges (the role a discharge is verified in:
the Go code passes `nil` for nested discharges, so a third-party caveat in it always fails) -/
def verifyFlat (k : B) (m : Mac B) (parentIds : List B) (trustAtt : Bool) : Except VErr (List (Cav B)) :=
  if m.nonce.proof && m.newProof then .error .unfinalized else
  let cur0 := macNonce k m.nonce
  match walk m.nonce.proof trustAtt (fun _ => none) parentIds m.cavs ⟨cur0, [digest cur0], [], []⟩ with
  | .error e => .error e
  | .ok s =>
    let cur := if m.nonce.proof then finalize s.cur else s.cur
    if ctEq cur m.tail then .ok s.ret else .error .invalid

/-- the `trustLoop`: `none` = the candidate is rejected outright (bad ticket plaintext or key
mismatch), `some b` = verify it, trusting its attestations iff `b` -/
def trustOf (trustedKeys : List B) (kid : B) (vk : B) : Option Bool :=
  match trustedKeys with
  | [] => some false
  | ka :: rest =>
    match openTicket ka kid with
    | .cannotOpen => trustOf rest kid vk
    | .badPlaintext => none
    | .ok dk _ => if ctEq vk dk then some true else none

/-- the `dmLoop`: the first candidate that verifies wins -/
def firstDischarge (ids : List B) (trustAtt : Bool) (trusted : Bytes → List B) (key : B) :
    List (Mac B) → Option (List (Cav B))
  | [] => none
  | dm :: rest =>
    match trustOf (trusted dm.loc) dm.nonce.kid key with
    | none => firstDischarge ids trustAtt trusted key rest
    | some t =>
      match verifyFlat key dm ids (trustAtt && t) with
      | .ok cs => some cs
      | .error _ => firstDischarge ids trustAtt trusted key rest

/-- the second loop: every queued third-party caveat needs a discharge; results appended in caveat order -/
def dischargeAll (ids : List B) (trustAtt : Bool) (trusted : Bytes → List B) :
    List (Pending B) → List (Cav B) → Option (List (Cav B))
  | [], ret => some ret
  | p :: ps, ret =>
    match firstDischarge ids trustAtt trusted p.key p.ds with
    | none => none
    | some cs => dischargeAll ids trustAtt trusted ps (ret ++ cs)

/-- `(*Macaroon).verify` -/
def verifyWith (k : B) (m : Mac B) (dms : List (Mac B)) (parentIds : List B) (trustAtt : Bool)
    (trusted : Bytes → List B) : Except VErr (List (Cav B)) :=
  if m.nonce.proof && m.newProof then .error .unfinalized else
  let cur0 := macNonce k m.nonce
  match walk m.nonce.proof trustAtt (byTicket dms) parentIds m.cavs ⟨cur0, [digest cur0], [], []⟩ with
  | .error e => .error e
  | .ok s =>
    match dischargeAll s.ids trustAtt trusted s.pend s.ret with
    | none => .error .dischargeFailed
    | some ret =>
      let cur := if m.nonce.proof then finalize s.cur else s.cur
      if ctEq cur m.tail then .ok ret else .error .invalid

/-- `VerifyParsed` / `Verify`: top level — no parent binding ids, attestations trusted -/
def verify (k : B) (m : Mac B) (dms : List (Mac B)) (trusted : Bytes → List B) : Except VErr (List (Cav B)) :=
  verifyWith k m dms [] true trusted

/-! ### minting and attenuation -/

/-- `newMacaroon(kid, loc, key, isProof)` with the nonce randomness `rnd` -/
def mint (key kid : B) (loc : Bytes) (rnd : B) (isProof : Bool) : Mac B :=
  let n : GNonce B := { kid, rnd, version := 1, proof := isProof }
  { nonce := n, loc, cavs := [], tail := macNonce key n, newProof := isProof }

/-- an argument of `Add`: an ordinary caveat, or a `*Caveat3P` fresh from `NewCaveat3P`
(ticket already sealed for the third party, `rn` still attached, `nonce` = the AEAD nonce that
`Add` will draw for the VerifierKey) -/
inductive AddItem (B : Type)
  | plain (c : Cav B)
  | new3p (loc : Bytes) (ticket rn nonce : B)

/-- the caveat as `dedup` encodes it (a new 3P caveat has no VerifierKey yet) -/
def AddItem.asCav : AddItem B → Cav B
  | .plain c => c
  | .new3p loc ticket _ _ => .tp loc (Crypto.empty) ticket

inductive AErr
  | finalizedProof | encodeErr | attestationOnNonProof | wrappedAttestation | duplicate3P
  deriving DecidableEq, Repr, Inhabited

/-- `dedup`: drop items whose encoding is already in the token or earlier in the list -/
def dedup (existing : List (Cav B)) : List (AddItem B) → List (Cav B) → List (AddItem B)
  | [], _ => []
  | it :: rest, seen =>
    if (existing ++ seen).any (fun c => sameEnc c it.asCav) then dedup existing rest seen
    else it :: dedup existing rest (seen ++ [it.asCav])

def Cav.tpLoc? : Cav B → Option Bytes
  | .tp loc _ _ => some loc
  | _ => none

/-- locations of the 3P caveats already present (`GetCaveats[*Caveat3P]`, wrappers included) -/
def locs3P (cs : List (Cav B)) : List Bytes := (getCaveats Cav.is3P cs).filterMap Cav.tpLoc?

/-- the loop of `Add`: caveats are appended one by one; an error leaves the earlier ones in place -/
def addLoop : List (AddItem B) → Mac B → List Bytes → Mac B × Option AErr
  | [], m, _ => (m, none)
  | it :: rest, m, seen =>
    match it with
    | .plain c =>
      if c.isAttestation && !m.nonce.proof then (m, some .attestationOnNonProof) else
      if c.wrapsAttestation then (m, some .wrappedAttestation) else
      match macCav m.tail c with
      | none => ({ m with cavs := m.cavs ++ [c] }, some .encodeErr)
      | some t => addLoop rest { m with cavs := m.cavs ++ [c], tail := t } seen
    | .new3p loc ticket rn nonce =>
      let c : Cav B := .tp loc (sealKey m.tail nonce rn) ticket
      if seen.contains loc then (m, some .duplicate3P) else
      match macCav m.tail c with
      | none => ({ m with cavs := m.cavs ++ [c] }, some .encodeErr)
      | some t => addLoop rest { m with cavs := m.cavs ++ [c], tail := t } (seen ++ [loc])

/-- every caveat of the token and of the arguments can be encoded (`dedup` encodes them all first) -/
def allEncodable (m : Mac B) (items : List (AddItem B)) : Bool :=
  (m.cavs ++ items.map AddItem.asCav).all fun c => (macCav m.tail c).isSome

/-- `(*Macaroon).Add` : the token afterwards and the error, if any -/
def add (m : Mac B) (items : List (AddItem B)) : Mac B × Option AErr :=
  if m.nonce.proof && !m.newProof then (m, some .finalizedProof) else
  if !allEncodable m items then (m, some .encodeErr) else
  addLoop (dedup m.cavs items []) m (locs3P m.cavs)

/-- the state change of `Encode` (and of `String`, `Clone`, which encode): finalise once -/
def encodeState (m : Mac B) : Mac B :=
  if m.nonce.proof && m.newProof then { m with tail := finalize m.tail, newProof := false } else m

/-- `BindToParentMacaroon` -/
def bindTo (m parent : Mac B) : Mac B × Option AErr :=
  add m [.plain (.bind (bindId parent.tail))]

/-- `NewCaveat3P(ka, loc, cs...)` with the discharge key `rn` and the AEAD nonce for the ticket -/
def newCaveat3P (ka : B) (loc : Bytes) (cs : List (Cav B)) (rn ticketNonce vkNonce : B) : AddItem B :=
  .new3p loc (sealTicket ka ticketNonce rn cs) rn vkNonce

inductive DErr
  | cannotOpen | badPlaintext
  deriving DecidableEq, Repr, Inhabited

/-- `dischargeTicket(ka, location, ticket, issueProof)` with the nonce randomness -/
def dischargeTicket (ka : B) (loc : Bytes) (ticket rnd : B) (issueProof : Bool) :
    Except DErr (List (Cav B) × Mac B) :=
  match openTicket ka ticket with
  | .cannotOpen => .error .cannotOpen
  | .badPlaintext => .error .badPlaintext
  | .ok dk cs => .ok (cs, mint dk ticket loc rnd issueProof)

/-- tickets of the 3P caveats of a token (`AllThirdPartyTickets` without existing discharges) -/
def tickets3P (cs : List (Cav B)) : List (Bytes × B) :=
  (getCaveats Cav.is3P cs).filterMap fun
    | .tp loc _ t => some (loc, t)
    | _ => none

end Macaroon
