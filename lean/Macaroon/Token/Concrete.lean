/-
The concrete instance of the token logic: real bytes, HMAC-SHA256, SHA-256,
ChaCha20-Poly1305 and the msgpack codec, so that the model produces, reads and verifies the
same bytes as the Go code.  Compiled into the driver.
Core Lean only.
-/
import Macaroon.Token.Macaroon
import Macaroon.Caveat.Codec
import Macaroon.Crypto.Hmac
import Macaroon.Crypto.Aead

namespace Macaroon
namespace Concrete
open Macaroon.Crypto

def hmac (k msg : Bytes) : Bytes :=
  Bytes.ofByteArray (hmacSha256 (Bytes.toByteArray k) (Bytes.toByteArray msg))

def sha (msg : Bytes) : Bytes := Bytes.ofByteArray (sha256 (Bytes.toByteArray msg))

/-- `seal(key, buf)` with an explicit 12-byte nonce: nonce ++ ciphertext ++ tag -/
def box (key nonce buf : Bytes) : Bytes :=
  nonce ++ Bytes.ofByteArray (aeadSeal (Bytes.toByteArray key) (Bytes.toByteArray nonce) (Bytes.toByteArray buf) ByteArray.empty)

/-- `unseal(key, buf)`: malformed when shorter than 13 bytes; `chacha20poly1305.New` refuses keys
that are not 32 bytes -/
def unbox (key buf : Bytes) : Option Bytes :=
  if buf.length < 13 then none
  else if key.length != 32 then none
  else (aeadOpen (Bytes.toByteArray key) (Bytes.toByteArray (buf.take 12)) (Bytes.toByteArray (buf.drop 12)) ByteArray.empty).map Bytes.ofByteArray

def finalizationKey : Bytes := Bytes.ofString "proof-signature-finalization"

def toNonce (n : GNonce Bytes) : Nonce := { kid := n.kid, rnd := n.rnd, version := n.version, proof := n.proof }
def ofNonce (n : Nonce) : GNonce Bytes := { kid := n.kid, rnd := n.rnd, version := n.version, proof := n.proof }

instance : Crypto Bytes where
  macNonce k n := hmac k (encNonce (toNonce n))
  macCav k c := if encodable c then some (hmac k (encCav c)) else none
  finalize t := hmac finalizationKey t
  digest := sha
  bindId t := (sha t).take 16
  hasPrefix bid id := id.isPrefixOf bid
  sealKey tail nonce rn := box tail nonce rn
  unsealKey tail vk := unbox tail vk
  sealTicket ka nonce dk cs := box ka nonce (encTicket dk cs)
  openTicket ka ticket :=
    match unbox ka ticket with
    | none => .cannotOpen
    | some pt =>
      match decodeTicket defaultFuel pt with
      | none => .badPlaintext
      | some (dk, cs) => .ok dk cs
  ctEq a b := a == b
  kidEq a b := a == b
  sameEnc c d := encodable c && encodable d && encCav c == encCav d
  empty := []

/-- a decoded token as the token logic sees it (a decoded proof is never "new") -/
def ofWire (w : WireMac) : Mac Bytes :=
  { nonce := ofNonce w.nonce, loc := w.loc, cavs := w.cavs, tail := w.tail, newProof := false }

def toWire (m : Mac Bytes) : WireMac :=
  { nonce := toNonce m.nonce, loc := m.loc, cavs := m.cavs, tail := m.tail }

/-- `m.Encode()`: finalise if needed, then the bytes (none if a caveat cannot be encoded) -/
def encode (m : Mac Bytes) : Mac Bytes × Option Bytes :=
  let m' := encodeState m
  (m', if m'.cavs.all encodable then some (encMac (toWire m')) else none)

def decode (bs : Bytes) : Option (Mac Bytes) := (decodeMac defaultFuel bs).map ofWire

/-- `m.Verify(k, discharges, trusted)`: malformed discharges are ignored -/
def verifyBytes (k : Bytes) (m : Mac Bytes) (discharges : List Bytes) (trusted : Bytes → List Bytes) :
    Except VErr (List (Cav Bytes)) :=
  verify k m (discharges.filterMap decode) trusted

end Concrete
end Macaroon
