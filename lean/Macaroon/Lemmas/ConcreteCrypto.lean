/-
Functional correctness of the concrete primitives as far as the token logic relies on it
(`LawfulCrypto Bytes`, Lemmas/ConcreteLawful.lean):

* ChaCha20 encryption is a bytewise XOR with a key stream that depends on (key, counter, nonce,
  position) only, hence an involution;
* ChaCha20-Poly1305 `aeadOpen ∘ aeadSeal` is the identity — for ALL byte arrays: the model's
  primitives are total and read short keys / nonces as zero-extended, so no size condition is needed
  at this level;
* `Concrete.unbox ∘ Concrete.box` is the identity for 32-byte keys and 12-byte nonces — the sizes
  enter here: `unbox` refuses other key sizes (as `chacha20poly1305.New` does) and splits the nonce
  off at 12 bytes;
* SHA-256 / HMAC-SHA256 outputs are 32 bytes, Poly1305 tags 16 bytes.

Nothing here is about security (the primitives are modelled, not verified to be secure); these are
the round-trip and size facts only.  Core Lean only; proofs only, nothing here is compiled into
the driver.
-/
import Macaroon.Token.Concrete
import Macaroon.Lemmas.Codec

namespace Macaroon.Lemmas.ConcreteCrypto
open Macaroon Macaroon.Crypto

/-! ### byte arrays as lists; loops that push -/

theorem ba_ext_toList {a b : ByteArray} (h : a.data.toList = b.data.toList) : a = b :=
  ByteArray.ext (Array.ext' h)

/-- a loop that pushes `g 0, …, g (m-1)` appends exactly those bytes -/
theorem fold_push (g : Nat → UInt8) : ∀ (m : Nat) (acc : ByteArray),
    (Nat.fold m (fun i _ a => a.push (g i)) acc).data.toList = acc.data.toList ++ (List.range m).map g
  | 0, acc => by simp
  | m + 1, acc => by
    rw [Nat.fold_succ, ByteArray.data_push, Array.toList_push, fold_push g m acc, List.range_succ]
    simp

theorem size_eq_length (a : ByteArray) : a.size = a.data.toList.length := by
  rw [Array.length_toList, ByteArray.size_data]

/-- the total read in terms of the list view -/
theorem getB_eq_getD (a : ByteArray) (i : Nat) : getB a i = a.data.toList.getD i 0 := by
  unfold getB
  split
  · rename_i h
    have h' : i < a.data.size := by rw [ByteArray.size_data]; exact h
    rw [ByteArray.getElem_eq_getElem_data]
    simp only [List.getD_eq_getElem?_getD, Array.getElem?_toList, Array.getElem?_eq_getElem h', Option.getD_some]
  · rename_i h
    have : a.data.toList.length ≤ i := by rw [← size_eq_length]; omega
    simp [List.getD_eq_getElem?_getD, List.getElem?_eq_none this]

theorem range_map_getD (l : List UInt8) : (List.range l.length).map (fun i => l.getD i 0) = l := by
  apply List.ext_getElem
  · simp
  · intro i h1 h2
    simp [List.getD_eq_getElem?_getD, h2]

theorem range_map_getB (a : ByteArray) : (List.range a.size).map (getB a) = a.data.toList := by
  rw [size_eq_length]
  have : getB a = fun i => a.data.toList.getD i 0 := funext (getB_eq_getD a)
  rw [this, range_map_getD]

/-! ### ChaCha20: XOR with a key stream, an involution -/

/-- the key-stream byte at position `p` of the stream that starts at block `c` -/
def ksByte (key : ByteArray) (c : UInt32) (nonce : ByteArray) (p : Nat) : UInt8 :=
  getB (chacha20Block key (c + UInt32.ofNat (p / 64)) nonce) (p % 64)

/-- one block of the loop of `chacha20Xor` -/
theorem xor_block (key : ByteArray) (c : UInt32) (nonce data : ByteArray) (j m : Nat) (hm : m ≤ 64)
    (acc : ByteArray) :
    (Nat.fold m (fun i _ (a : ByteArray) =>
        a.push (getB data (64 * j + i) ^^^ getB (chacha20Block key (c + UInt32.ofNat j) nonce) i)) acc).data.toList
      = acc.data.toList ++ (List.range m).map (fun i => getB data (64 * j + i) ^^^ ksByte key c nonce (64 * j + i)) := by
  rw [fold_push (fun i => getB data (64 * j + i) ^^^ getB (chacha20Block key (c + UInt32.ofNat j) nonce) i)]
  refine congrArg (acc.data.toList ++ ·) (List.map_congr_left ?_)
  intro i hi
  have hi' : i < m := List.mem_range.mp hi
  have h1 : (64 * j + i) / 64 = j := by omega
  have h2 : (64 * j + i) % 64 = i := by omega
  simp only [ksByte, h1, h2]

theorem xor_blocks (key : ByteArray) (c : UInt32) (nonce data : ByteArray) (acc0 : ByteArray) :
    ∀ j, j ≤ (data.size + 63) / 64 →
    (Nat.fold j (fun j _ (acc : ByteArray) =>
        Nat.fold (min 64 (data.size - 64 * j)) (fun i _ (a : ByteArray) =>
          a.push (getB data (64 * j + i) ^^^ getB (chacha20Block key (c + UInt32.ofNat j) nonce) i)) acc) acc0).data.toList
      = acc0.data.toList ++ (List.range (min (64 * j) data.size)).map (fun p => getB data p ^^^ ksByte key c nonce p)
  | 0, _ => by simp
  | j + 1, hj => by
    rw [Nat.fold_succ, xor_block key c nonce data j _ (Nat.min_le_left _ _), xor_blocks key c nonce data acc0 j (by omega)]
    have e : min (64 * (j + 1)) data.size = min (64 * j) data.size + min 64 (data.size - 64 * j) := by omega
    have e0 : min (64 * j) data.size = 64 * j := by omega
    rw [e, List.range_add, List.map_append, List.map_map, List.append_assoc, e0]
    rfl

/-- `chacha20Xor` is the bytewise XOR of the data with the key stream -/
theorem chacha20Xor_toList (key : ByteArray) (c : UInt32) (nonce data : ByteArray) :
    (chacha20Xor key c nonce data).data.toList
      = (List.range data.size).map (fun p => getB data p ^^^ ksByte key c nonce p) := by
  have h := xor_blocks key c nonce data (ByteArray.emptyWithCapacity data.size) ((data.size + 63) / 64) (Nat.le_refl _)
  have e : min (64 * ((data.size + 63) / 64)) data.size = data.size := by omega
  rw [e] at h
  exact h

theorem chacha20Xor_size (key : ByteArray) (c : UInt32) (nonce data : ByteArray) :
    (chacha20Xor key c nonce data).size = data.size := by
  rw [size_eq_length, chacha20Xor_toList]
  simp

/-- encrypting twice with the same key, counter and nonce gives the data back — for all byte arrays -/
theorem chacha20Xor_involutive (key : ByteArray) (c : UInt32) (nonce data : ByteArray) :
    chacha20Xor key c nonce (chacha20Xor key c nonce data) = data := by
  apply ba_ext_toList
  rw [chacha20Xor_toList, chacha20Xor_size, ← range_map_getB data]
  apply List.map_congr_left
  intro p hp
  have hp' : p < data.size := List.mem_range.mp hp
  rw [getB_eq_getD (chacha20Xor key c nonce data), chacha20Xor_toList]
  simp only [List.getD_eq_getElem?_getD, List.getElem?_map, List.getElem?_range hp', Option.map_some,
    Option.getD_some, UInt8.xor_assoc, UInt8.xor_self, UInt8.xor_zero]

/-! ### sizes of tags and digests -/

theorem data_emptyWithCapacity (n : Nat) : (ByteArray.emptyWithCapacity n).data.toList = [] := rfl

/-- a Poly1305 tag is 16 bytes -/
theorem poly1305_size (key msg : ByteArray) : (poly1305 key msg).size = 16 := by
  unfold poly1305 Poly1305.toLE16
  rw [size_eq_length, fold_push]
  simp [data_emptyWithCapacity]

theorem tag_size (key nonce ct aad : ByteArray) : (Aead.tag key nonce ct aad).size = 16 :=
  poly1305_size _ _

theorem pushBE32_size (acc : ByteArray) (w : UInt32) : (pushBE32 acc w).size = acc.size + 4 := by
  simp [pushBE32, ByteArray.size_push]

/-- a SHA-256 digest is 32 bytes -/
theorem sha256_size (msg : ByteArray) : (sha256 msg).size = 32 := by
  unfold sha256 Sha256.digest
  simp only [List.foldl_cons, List.foldl_nil, pushBE32_size]
  rw [size_eq_length, data_emptyWithCapacity]
  rfl

/-- an HMAC-SHA256 tag is 32 bytes, whatever the key -/
theorem hmacSha256_size (key msg : ByteArray) : (hmacSha256 key msg).size = 32 :=
  sha256_size _

/-! ### the tag comparison -/

theorem tagEq_fold_self (a : ByteArray) : ∀ m : Nat,
    Nat.fold m (fun i _ (acc : UInt8) => acc ||| (getB a i ^^^ getB a i)) 0 = 0
  | 0 => rfl
  | m + 1 => by rw [Nat.fold_succ, tagEq_fold_self a m]; simp

theorem tagEq_self (a : ByteArray) : Aead.tagEq a a = true := by
  unfold Aead.tagEq
  rw [tagEq_fold_self]
  simp

/-! ### ChaCha20-Poly1305: open after seal -/

/-- `aeadOpen ∘ aeadSeal = id` for ALL keys, nonces, plaintexts and associated data: the model's
AEAD is total (short keys and nonces are read as zero-extended), so the round trip needs no size
condition.  The conditions of the real API (32-byte key, 12-byte nonce) are imposed one level up,
in `Concrete.unbox`. -/
theorem aeadOpen_aeadSeal (key nonce p ad : ByteArray) :
    aeadOpen key nonce (aeadSeal key nonce p ad) ad = some p := by
  unfold aeadOpen aeadSeal
  have hsz : (chacha20Xor key 1 nonce p ++ Aead.tag key nonce (chacha20Xor key 1 nonce p) ad).size
      = (chacha20Xor key 1 nonce p).size + 16 := by rw [ByteArray.size_append, tag_size]
  simp only [hsz]
  rw [if_neg (by omega), Nat.add_sub_cancel]
  rw [ByteArray.extract_append_eq_left rfl, ByteArray.extract_append_eq_right rfl (by rw [tag_size])]
  rw [if_pos (tagEq_self _), chacha20Xor_involutive]

/-! ### `Bytes` and `ByteArray` -/

theorem toByteArray_ofByteArray (b : ByteArray) : Bytes.toByteArray (Bytes.ofByteArray b) = b :=
  ba_ext_toList rfl

theorem ofByteArray_toByteArray (l : Bytes) : Bytes.ofByteArray (Bytes.toByteArray l) = l := rfl

theorem length_ofByteArray (b : ByteArray) : (Bytes.ofByteArray b).length = b.size :=
  (size_eq_length b).symm

/-- `sha` (SHA-256 on `Bytes`) yields 32 bytes -/
theorem sha_length (msg : Bytes) : (Concrete.sha msg).length = 32 := by
  rw [Concrete.sha, length_ofByteArray, sha256_size]

/-- `hmac` (HMAC-SHA256 on `Bytes`) yields 32 bytes, whatever the key -/
theorem hmac_length (k msg : Bytes) : (Concrete.hmac k msg).length = 32 := by
  rw [Concrete.hmac, length_ofByteArray, hmacSha256_size]

/-! ### `seal` / `unseal` of macaroon.go -/

theorem box_length (key nonce buf : Bytes) :
    (Concrete.box key nonce buf).length = nonce.length + buf.length + 16 := by
  rw [Concrete.box, List.length_append, length_ofByteArray, aeadSeal, ByteArray.size_append, tag_size,
    chacha20Xor_size, size_eq_length]
  simp [Bytes.toByteArray, Nat.add_assoc]

/-- `unseal(key, seal(key, buf)) = buf` for a 32-byte key and a 12-byte nonce.  Both size
conditions are needed: `unbox` refuses any other key size and takes the first 12 bytes as nonce. -/
theorem unbox_box (key nonce buf : Bytes) (hk : key.length = 32) (hn : nonce.length = 12) :
    Concrete.unbox key (Concrete.box key nonce buf) = some buf := by
  have hl := box_length key nonce buf
  unfold Concrete.unbox
  rw [if_neg (by omega), if_neg (by simp [hk])]
  have ht : (Concrete.box key nonce buf).take 12 = nonce := by
    rw [Concrete.box, List.take_append_of_le_length (by omega), List.take_of_length_le (by omega)]
  have hd : (Concrete.box key nonce buf).drop 12
      = Bytes.ofByteArray (aeadSeal (Bytes.toByteArray key) (Bytes.toByteArray nonce) (Bytes.toByteArray buf)
          ByteArray.empty) := by
    rw [Concrete.box, ← hn, List.drop_left]
  rw [ht, hd, toByteArray_ofByteArray, aeadOpen_aeadSeal]
  rfl

/-! ### the ticket plaintext -/

/-- the ticket plaintext `wireTicket{dk, cs}` is within the encoder's domain (the discharge key fits
a 32-bit bin header, every caveat is well formed, the pair count fits the array header) and within
the nesting budget of the model's decoder (`defaultFuel`; the Go decoder has no budget, see C12) -/
def TicketBodyOK (dk : Bytes) (cs : List (Cav Bytes)) : Prop :=
  dk.length < 2 ^ 32 ∧ WFCavs cs ∧ 1 + encDepth cs ≤ defaultFuel

instance (cs : List (Cav Bytes)) : Decidable (WFCavs cs) := by unfold WFCavs; infer_instance

instance (dk : Bytes) (cs : List (Cav Bytes)) : Decidable (TicketBodyOK dk cs) := by
  unfold TicketBodyOK; infer_instance

/-- the codec round trip of Lemmas/Codec.lean (C11 `decode_encode_ticket`) at the driver's budget -/
theorem decodeTicket_encTicket (dk : Bytes) (cs : List (Cav Bytes)) (h : TicketBodyOK dk cs) :
    decodeTicket defaultFuel (encTicket dk cs) = some (dk, cs) := by
  have := decode_encode_ticket dk cs defaultFuel [] h.1 h.2.1 h.2.2
  rwa [List.append_nil] at this

/-! ### the laws of `LawfulCrypto` for the concrete instance, one by one -/

theorem ctEq_iff (a b : Bytes) : Crypto.ctEq a b = true ↔ a = b := by
  simp [Crypto.ctEq]

theorem kidEq_iff (a b : Bytes) : Crypto.kidEq a b = true ↔ a = b := by
  simp [Crypto.kidEq]

/-- every MAC is a 32-byte string, hence usable as an AEAD key -/
theorem macNonce_length (k : Bytes) (n : GNonce Bytes) : (Crypto.macNonce k n).length = 32 :=
  hmac_length _ _

theorem macCav_length (t : Bytes) (c : Cav Bytes) (t' : Bytes) (h : Crypto.macCav t c = some t') :
    t'.length = 32 := by
  simp only [Crypto.macCav] at h
  split at h
  · rw [← Option.some.inj h]; exact hmac_length _ _
  · exact absurd h (by simp)

theorem finalize_length (t : Bytes) : (Crypto.finalize t).length = 32 :=
  hmac_length _ _

theorem digest_length (t : Bytes) : (Crypto.digest t).length = 32 :=
  sha_length _

theorem bindId_length (t : Bytes) : (Crypto.bindId t).length = 16 := by
  simp [Crypto.bindId, sha_length]

/-- the VerifierKey sealed under a 32-byte tail with a 12-byte nonce opens again under that tail -/
theorem unsealKey_sealKey (t n rn : Bytes) (ht : t.length = 32) (hn : n.length = 12) :
    Crypto.unsealKey t (Crypto.sealKey t n rn) = some rn :=
  unbox_box t n rn ht hn

/-- a ticket sealed under a 32-byte key with a 12-byte nonce opens under that key to the discharge
key and the caveats that went in -/
theorem openTicket_sealTicket (ka n dk : Bytes) (cs : List (Cav Bytes)) (hk : ka.length = 32)
    (hn : n.length = 12) (hb : TicketBodyOK dk cs) :
    Crypto.openTicket ka (Crypto.sealTicket ka n dk cs) = .ok dk cs := by
  simp only [Crypto.openTicket, Crypto.sealTicket, unbox_box ka n _ hk hn, decodeTicket_encTicket dk cs hb]

theorem hasPrefix_bindId (t : Bytes) : Crypto.hasPrefix (Crypto.digest t) (Crypto.bindId t) = true := by
  simp only [Crypto.hasPrefix, Crypto.digest, Crypto.bindId, List.isPrefixOf_iff_prefix]
  exact List.take_prefix _ _

theorem sameEnc_mac (c d : Cav Bytes) (t : Bytes) (h : Crypto.sameEnc c d = true) :
    Crypto.macCav t c = Crypto.macCav t d := by
  simp only [Crypto.sameEnc, Bool.and_eq_true, beq_iff_eq] at h
  obtain ⟨⟨hc, hd⟩, he⟩ := h
  simp [Crypto.macCav, hc, hd, he]

theorem macCav_isSome (c : Cav Bytes) (t t' : Bytes) :
    (Crypto.macCav t c).isSome = (Crypto.macCav t' c).isSome := by
  simp only [Crypto.macCav]
  by_cases h : encodable c = true <;> simp [h]

end Macaroon.Lemmas.ConcreteCrypto

#print axioms Macaroon.Lemmas.ConcreteCrypto.chacha20Xor_toList
#print axioms Macaroon.Lemmas.ConcreteCrypto.chacha20Xor_involutive
#print axioms Macaroon.Lemmas.ConcreteCrypto.aeadOpen_aeadSeal
#print axioms Macaroon.Lemmas.ConcreteCrypto.unbox_box
#print axioms Macaroon.Lemmas.ConcreteCrypto.sha256_size
#print axioms Macaroon.Lemmas.ConcreteCrypto.hmacSha256_size
#print axioms Macaroon.Lemmas.ConcreteCrypto.poly1305_size
#print axioms Macaroon.Lemmas.ConcreteCrypto.decodeTicket_encTicket
#print axioms Macaroon.Lemmas.ConcreteCrypto.unsealKey_sealKey
#print axioms Macaroon.Lemmas.ConcreteCrypto.openTicket_sealTicket
#print axioms Macaroon.Lemmas.ConcreteCrypto.hasPrefix_bindId
#print axioms Macaroon.Lemmas.ConcreteCrypto.sameEnc_mac
#print axioms Macaroon.Lemmas.ConcreteCrypto.macCav_isSome
