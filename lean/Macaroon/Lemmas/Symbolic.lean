/-
The Dolev–Yao attacker over `Symbolic.Term` and the unforgeability lemma with conditional exposure
(port of the checked spike, DESIGN Appendix D, to the real term type, extended by finalisation).

ASSUMPTION of everything in this file (not a Lean axiom): perfect cryptography, i.e. the
constructors of `Term` are free (see Crypto/Symbolic.lean).  The attacker's abilities are exactly
the constructors of `Der`.
Core Lean only.
-/
import Macaroon.Crypto.Symbolic

namespace Macaroon.Symbolic
open Term

/-- `Der H t`: an attacker holding the terms `H` can build `t`.  Held terms; public data; every
constructor applied to derivable arguments (MAC with a derivable key, finalisation, hash,
truncation, pairing, sealing); projections; `unbox` given the key; the AEAD nonce of a box (it
travels in clear).  There is NO inverse for
`mac`, `sha`, `fin`, `pre16`.  Atoms are derivable only if held (the attacker's own atoms are
members of `H`). -/
inductive Der (H : Term → Prop) : Term → Prop
  | held {t} : H t → Der H t
  | lit bs : Der H (lit bs)
  | nat n : Der H (nat n)
  | skel s : Der H (skel s)
  | mac {k m} : Der H k → Der H m → Der H (mac k m)
  | fin {t} : Der H t → Der H (fin t)
  | sha {t} : Der H t → Der H (sha t)
  | pre16 {t} : Der H t → Der H (pre16 t)
  | pair {a b} : Der H a → Der H b → Der H (pair a b)
  | fst {a b} : Der H (pair a b) → Der H a
  | snd {a b} : Der H (pair a b) → Der H b
  | box {k n p} : Der H k → Der H n → Der H p → Der H (box k n p)
  | unbox {k n p} : Der H (box k n p) → Der H k → Der H p
  | nonceOf {k n p} : Der H (box k n p) → Der H n          -- the AEAD nonce travels in clear

theorem Der.mono {H H' : Term → Prop} (hh : ∀ t, H t → H' t) {t} (d : Der H t) : Der H' t := by
  induction d with
  | held h => exact .held (hh _ h)
  | lit bs => exact .lit bs
  | nat n => exact .nat n
  | skel s => exact .skel s
  | mac _ _ a b => exact .mac a b
  | fin _ a => exact .fin a
  | sha _ a => exact .sha a
  | pre16 _ a => exact .pre16 a
  | pair _ _ a b => exact .pair a b
  | fst _ a => exact .fst a
  | snd _ a => exact .snd a
  | box _ _ _ a b c => exact .box a b c
  | unbox _ _ a b => exact .unbox a b
  | nonceOf _ a => exact .nonceOf a

/-- the MAC chain over a list of (encoded) caveats -/
def chain (t : Term) : List Term → Term
  | [] => t
  | c :: cs => chain (mac t c) cs

theorem chain_append (t : Term) (xs ys : List Term) : chain t (xs ++ ys) = chain (chain t xs) ys := by
  induction xs generalizing t with
  | nil => rfl
  | cons x xs ih => simp [chain, ih]

theorem chain_snoc (t : Term) (xs : List Term) (y : Term) : chain t (xs ++ [y]) = mac (chain t xs) y := by
  rw [chain_append]; rfl

def isMac : Term → Bool | mac _ _ => true | _ => false

theorem chain_isMac (r : Term) (cs : List Term) (h : isMac r = true) : isMac (chain r cs) = true := by
  induction cs generalizing r with
  | nil => exact h
  | cons c cs ih => exact ih _ rfl

/-- decomposition of a rooted chain is unique when roots are atoms -/
theorem chain_unique_len {a a' : Nat} {n n' : Term} : ∀ (k : Nat) (cs cs' : List Term), cs.length = k →
    chain (mac (atom a) n) cs = chain (mac (atom a') n') cs' → a = a' ∧ n = n' ∧ cs = cs'
  | 0, cs, cs', hk, h => by
    have : cs = [] := List.length_eq_zero_iff.mp hk
    subst this
    rcases List.eq_nil_or_concat cs' with rfl | ⟨l, c, rfl⟩
    · simp [chain] at h; exact ⟨h.1, h.2, rfl⟩
    · rw [List.concat_eq_append, chain_snoc] at h
      simp [chain] at h
      have := chain_isMac (mac (atom a') n') l rfl
      rw [← h.1] at this; cases this
  | k+1, cs, cs', hk, h => by
    rcases List.eq_nil_or_concat cs with rfl | ⟨l, c, rfl⟩
    · simp at hk
    rcases List.eq_nil_or_concat cs' with rfl | ⟨l', c', rfl⟩
    · rw [List.concat_eq_append, chain_snoc] at h
      simp [chain] at h
      have := chain_isMac (mac (atom a) n) l rfl
      rw [h.1] at this; cases this
    · rw [List.concat_eq_append, List.concat_eq_append, chain_snoc, chain_snoc] at h
      injection h with h1 h2
      have hl : l.length = k := by simp at hk; omega
      obtain ⟨ha, hn, hl⟩ := chain_unique_len k l l' hl h1
      exact ⟨ha, hn, by rw [List.concat_eq_append, List.concat_eq_append, hl, h2]⟩

theorem chain_unique {a a' : Nat} {n n' : Term} {cs cs' : List Term}
    (h : chain (mac (atom a) n) cs = chain (mac (atom a') n') cs') : a = a' ∧ n = n' ∧ cs = cs' :=
  chain_unique_len cs.length cs cs' rfl h

section attacker
variable (Sec : Nat → Prop)                      -- secret atoms (issuer keys, uncompromised 3P keys, protected rn's)
variable (Held : Nat → Term → List Term → Prop)  -- unfinalised chains (root atom, nonce, caveats) the attacker was given
variable (HeldFin : Nat → Term → List Term → Prop) -- chains the attacker was given in finalised form only

/-- secret terms: secret atoms; chains rooted at a secret atom with no held prefix; and the
finalisation of such a chain unless exactly that finalised chain was given out -/
def S (t : Term) : Prop :=
  (∃ a, Sec a ∧ t = atom a) ∨
  (∃ a n cs, Sec a ∧ t = chain (mac (atom a) n) cs ∧ ¬ ∃ cs0, Held a n cs0 ∧ cs0 <+: cs) ∨
  (∃ a n cs, Sec a ∧ t = fin (chain (mac (atom a) n) cs) ∧ (¬ ∃ cs0, Held a n cs0 ∧ cs0 <+: cs) ∧
    ¬ HeldFin a n cs)

/-- positions reachable by destructors; a box is transparent only if its key is not secret (its
AEAD nonce always is).  There is no exposure through `mac`, `fin`, `sha`, `pre16`: the attacker
learns the caveats of a token because tokens carry them in clear (they are held terms of their
own, see `tokT`), not by inverting a MAC. -/
inductive Exp : Term → Term → Prop
  | self t : Exp t t
  | pl {a b u} : Exp a u → Exp (pair a b) u
  | pr {a b u} : Exp b u → Exp (pair a b) u
  | bx {k n p u} : ¬ S Sec Held HeldFin k → Exp p u → Exp (box k n p) u
  | bn {k n p u} : Exp n u → Exp (box k n p) u

/-- `t` may be published: no secret term at an exposed position -/
def Safe (t : Term) : Prop := ∀ u, Exp Sec Held HeldFin t u → ¬ S Sec Held HeldFin u

def isFin : Term → Bool | fin _ => true | _ => false

theorem notS_of_other {t : Term} (h1 : ∀ a, t ≠ atom a) (h2 : isMac t = false) (h3 : isFin t = false) :
    ¬ S Sec Held HeldFin t := by
  rintro (⟨a, _, rfl⟩ | ⟨a, n, cs, _, rfl, _⟩ | ⟨a, n, cs, _, rfl, _⟩)
  · exact h1 a rfl
  · have := chain_isMac (mac (atom a) n) cs rfl; rw [h2] at this; cases this
  · cases h3

/-- a MAC is secret only if its key is: extending a known tail never yields a secret -/
theorem S_mac {k m : Term} (h : S Sec Held HeldFin (mac k m)) : S Sec Held HeldFin k := by
  rcases h with ⟨a, _, h⟩ | ⟨a, n, cs, hs, h, hno⟩ | ⟨a, n, cs, _, h, _⟩
  · cases h
  · rcases List.eq_nil_or_concat cs with rfl | ⟨l, c, rfl⟩
    · simp [chain] at h
      exact Or.inl ⟨a, hs, h.1⟩
    · rw [List.concat_eq_append, chain_snoc] at h
      injection h with hk hm
      refine Or.inr (Or.inl ⟨a, n, l, hs, hk, ?_⟩)
      rintro ⟨cs0, hh, hp⟩
      exact hno ⟨cs0, hh, by rw [List.concat_eq_append]; exact hp.trans (List.prefix_append _ _)⟩
  · cases h

theorem S_chain {t : Term} {cs : List Term} (h : S Sec Held HeldFin (chain t cs)) : S Sec Held HeldFin t := by
  induction cs generalizing t with
  | nil => exact h
  | cons c cs ih => exact S_mac Sec Held HeldFin (ih h)

/-- a finalised term is secret only if the unfinalised one is -/
theorem S_fin {t : Term} (h : S Sec Held HeldFin (fin t)) : S Sec Held HeldFin t := by
  rcases h with ⟨a, _, h⟩ | ⟨a, n, cs, _, h, _⟩ | ⟨a, n, cs, hs, h, hno, _⟩
  · cases h
  · have := chain_isMac (mac (atom a) n) cs rfl; rw [← h] at this; cases this
  · injection h with h
    exact Or.inr (Or.inl ⟨a, n, cs, hs, h, hno⟩)

theorem Safe_opaque {t : Term} (h : ∀ u, Exp Sec Held HeldFin t u → u = t) (hs : ¬ S Sec Held HeldFin t) :
    Safe Sec Held HeldFin t := by
  intro u e; rw [h u e]; exact hs

/-- THE ATTACKER LEMMA.  If no held term exposes a secret, no derivable term does. -/
theorem der_safe (H : Term → Prop) (hH : ∀ t, H t → Safe Sec Held HeldFin t) :
    ∀ t, Der H t → Safe Sec Held HeldFin t := by
  intro t d
  induction d with
  | held h => exact hH _ h
  | lit bs => intro u e; cases e; exact notS_of_other Sec Held HeldFin (by simp) rfl rfl
  | nat n => intro u e; cases e; exact notS_of_other Sec Held HeldFin (by simp) rfl rfl
  | skel s => intro u e; cases e; exact notS_of_other Sec Held HeldFin (by simp) rfl rfl
  | mac _ _ ihk _ =>
    intro u e; cases e
    exact fun h => ihk _ (Exp.self _) (S_mac Sec Held HeldFin h)
  | fin _ ih =>
    intro u e; cases e
    exact fun h => ih _ (Exp.self _) (S_fin Sec Held HeldFin h)
  | sha _ _ => intro u e; cases e; exact notS_of_other Sec Held HeldFin (by simp) rfl rfl
  | pre16 _ _ => intro u e; cases e; exact notS_of_other Sec Held HeldFin (by simp) rfl rfl
  | pair _ _ iha ihb =>
    intro u e
    cases e with
    | self => exact notS_of_other Sec Held HeldFin (by simp) rfl rfl
    | pl e => exact iha _ e
    | pr e => exact ihb _ e
  | fst _ ih => intro u e; exact ih _ (Exp.pl e)
  | snd _ ih => intro u e; exact ih _ (Exp.pr e)
  | box _ _ _ _ ihn ihp =>
    intro u e
    cases e with
    | self => exact notS_of_other Sec Held HeldFin (by simp) rfl rfl
    | bx _ e => exact ihp _ e
    | bn e => exact ihn _ e
  | unbox _ _ ihb ihk => intro u e; exact ihb _ (Exp.bx (ihk _ (Exp.self _)) e)
  | nonceOf _ ih => intro u e; exact ih _ (Exp.bn e)

/-- unforgeability for every secret root (issuer key or protected discharge key): a derivable
chain extends a chain that was given out -/
theorem no_forgery (H : Term → Prop) (hH : ∀ t, H t → Safe Sec Held HeldFin t)
    (a : Nat) (ha : Sec a) (n : Term) (cs : List Term) (d : Der H (chain (mac (atom a) n) cs)) :
    ∃ cs0, Held a n cs0 ∧ cs0 <+: cs := by
  have := der_safe Sec Held HeldFin H hH _ d _ (Exp.self _)
  apply Classical.byContradiction
  intro hno
  exact this (Or.inr (Or.inl ⟨a, n, cs, ha, rfl, hno⟩))

/-- the same for finalised chains: a derivable finalised chain extends an UNfinalised chain that
was given out, or is exactly a finalised chain that was given out (no extension of those) -/
theorem no_forgery_fin (H : Term → Prop) (hH : ∀ t, H t → Safe Sec Held HeldFin t)
    (a : Nat) (ha : Sec a) (n : Term) (cs : List Term) (d : Der H (fin (chain (mac (atom a) n) cs))) :
    (∃ cs0, Held a n cs0 ∧ cs0 <+: cs) ∨ HeldFin a n cs := by
  have := der_safe Sec Held HeldFin H hH _ d _ (Exp.self _)
  apply Classical.byContradiction
  intro hno
  exact this (Or.inr (Or.inr ⟨a, n, cs, ha, rfl, fun h => hno (Or.inl h), fun h => hno (Or.inr h)⟩))

theorem secrecy (H : Term → Prop) (hH : ∀ t, H t → Safe Sec Held HeldFin t)
    (a : Nat) (ha : Sec a) : ¬ Der H (atom a) :=
  fun d => der_safe Sec Held HeldFin H hH _ d _ (Exp.self _) (Or.inl ⟨a, ha, rfl⟩)

/-- secret tails stay underivable -/
theorem secrecy_chain (H : Term → Prop) (hH : ∀ t, H t → Safe Sec Held HeldFin t)
    (t : Term) (hs : S Sec Held HeldFin t) : ¬ Der H t :=
  fun d => der_safe Sec Held HeldFin H hH _ d _ (Exp.self _) hs

end attacker

/-! ### the generic walk of `verify` computes the MAC chain -/

section generic
variable {B : Type} [Crypto B]
open Crypto

/-- the running MAC over a caveat list (`none`: some caveat cannot be encoded) -/
def macChain (t : B) : List (Cav B) → Option B
  | [] => some t
  | c :: cs =>
    match macCav t c with
    | none => none
    | some t' => macChain t' cs

/-- the tails after every non-empty prefix of the caveat list -/
def macTails (t : B) : List (Cav B) → List B
  | [] => []
  | c :: cs =>
    match macCav t c with
    | none => []
    | some t' => t' :: macTails t' cs

/-- one step of the first loop of `verify`: whatever the caveat kind, the running MAC and the
binding ids are untouched by the kind-specific part and then the caveat is MACed -/
theorem walk_cons {proof ta : Bool} {lk : B → Option (List (Mac B))} {pids : List B}
    (c : Cav B) (cs : List (Cav B)) (s s' : WalkState B)
    (h : walk proof ta lk pids (c :: cs) s = .ok s') :
    ∃ (s1 : WalkState B) (cur' : B), s1.cur = s.cur ∧ s1.ids = s.ids ∧ macCav s.cur c = some cur' ∧
      walk proof ta lk pids cs { s1 with cur := cur', ids := s1.ids ++ [digest cur'] } = .ok s' := by
  unfold walk at h
  simp only [] at h
  split at h
  · cases h
  · rename_i s1 hs1
    have hc : s1.cur = s.cur ∧ s1.ids = s.ids := by
      split at hs1
      · repeat' split at hs1
        all_goals first | cases hs1 | skip
        exact ⟨rfl, rfl⟩
      · repeat' split at hs1
        all_goals first | cases hs1 | skip
        exact ⟨rfl, rfl⟩
      · repeat' split at hs1
        all_goals first | cases hs1 | skip
        all_goals exact ⟨rfl, rfl⟩
    split at h
    · cases h
    · rename_i cur' hm
      exact ⟨s1, cur', hc.1, hc.2, hc.1 ▸ hm, h⟩

/-- the first loop MACs every caveat, in order, and collects the digest of every intermediate tail -/
theorem walk_spec {proof ta : Bool} {lk : B → Option (List (Mac B))} {pids : List B} :
    ∀ (cs : List (Cav B)) (s s' : WalkState B), walk proof ta lk pids cs s = .ok s' →
      macChain s.cur cs = some s'.cur ∧ s'.ids = s.ids ++ (macTails s.cur cs).map digest
  | [], s, s', h => by
    simp only [walk] at h
    cases h
    simp [macChain, macTails]
  | c :: cs, s, s', h => by
    obtain ⟨s1, cur', h1, h2, h3, h4⟩ := walk_cons c cs s s' h
    obtain ⟨ih1, ih2⟩ := walk_spec cs _ s' h4
    simp only [macChain, macTails, h3]
    refine ⟨ih1, ?_⟩
    rw [ih2, h2]
    simp

/-- acceptance by `verify`: the walk succeeded and its (finalised, for proofs) result equals the tail -/
theorem verifyWith_ok {k : B} {m : Mac B} {dms : List (Mac B)} {pids : List B} {ta : Bool}
    {tr : Bytes → List B} {ret : List (Cav B)} (h : verifyWith k m dms pids ta tr = .ok ret) :
    (m.nonce.proof && m.newProof) = false ∧
    ∃ s, walk m.nonce.proof ta (byTicket dms) pids m.cavs
          ⟨macNonce k m.nonce, [digest (macNonce k m.nonce)], [], []⟩ = .ok s ∧
      dischargeAll s.ids ta tr s.pend s.ret = some ret ∧
      ctEq (if m.nonce.proof then finalize s.cur else s.cur) m.tail = true := by
  unfold verifyWith at h
  split at h
  · cases h
  · rename_i hnp
    simp only [] at h
    split at h
    · cases h
    · rename_i s hs
      split at h
      · cases h
      · rename_i ret' hd
        by_cases hct : ctEq (if m.nonce.proof then finalize s.cur else s.cur) m.tail = true
        · rw [if_pos hct] at h
          cases h
          exact ⟨by simpa using hnp, s, hs, hd, hct⟩
        · rw [if_neg hct] at h
          cases h

theorem verifyFlat_ok {k : B} {m : Mac B} {pids : List B} {ta : Bool}
    {ret : List (Cav B)} (h : verifyFlat k m pids ta = .ok ret) :
    (m.nonce.proof && m.newProof) = false ∧
    ∃ s, walk m.nonce.proof ta (fun _ => none) pids m.cavs
          ⟨macNonce k m.nonce, [digest (macNonce k m.nonce)], [], []⟩ = .ok s ∧
      s.ret = ret ∧
      ctEq (if m.nonce.proof then finalize s.cur else s.cur) m.tail = true := by
  unfold verifyFlat at h
  split at h
  · cases h
  · rename_i hnp
    simp only [] at h
    split at h
    · cases h
    · rename_i s hs
      by_cases hct : ctEq (if m.nonce.proof then finalize s.cur else s.cur) m.tail = true
      · rw [if_pos hct] at h
        cases h
        exact ⟨by simpa using hnp, s, hs, rfl, hct⟩
      · rw [if_neg hct] at h
        cases h

/-- the `dmLoop` accepts only a candidate that verifies (flat) under the unsealed key -/
theorem firstDischarge_some {ids : List B} {ta : Bool} {tr : Bytes → List B} {key : B} :
    ∀ (ds : List (Mac B)) (cs : List (Cav B)), firstDischarge ids ta tr key ds = some cs →
      ∃ dm ∈ ds, ∃ t : Bool, verifyFlat key dm ids (ta && t) = .ok cs
  | [], cs, h => by simp [firstDischarge] at h
  | dm :: rest, cs, h => by
    unfold firstDischarge at h
    split at h
    · obtain ⟨d, hd, t, ht⟩ := firstDischarge_some rest cs h
      exact ⟨d, List.mem_cons_of_mem _ hd, t, ht⟩
    · rename_i t _
      split at h
      · rename_i cs' hv
        cases h
        exact ⟨dm, List.mem_cons_self, t, hv⟩
      · obtain ⟨d, hd, t, ht⟩ := firstDischarge_some rest cs h
        exact ⟨d, List.mem_cons_of_mem _ hd, t, ht⟩

/-- a binding caveat passes the first loop only if some parent id matches it -/
theorem walk_bind {proof ta : Bool} {lk : B → Option (List (Mac B))} {pids : List B} {id : B} :
    ∀ (cs : List (Cav B)) (s s' : WalkState B), walk proof ta lk pids cs s = .ok s' → Cav.bind id ∈ cs →
      pids.any (fun bid => hasPrefix bid id) = true
  | [], _, _, _, hm => by cases hm
  | c :: cs, s, s', h, hm => by
    rcases List.mem_cons.mp hm with rfl | hm
    · unfold walk at h
      simp only [] at h
      split at h
      · cases h
      · rename_i s1 hs1
        split at hs1
        · rename_i hany; exact hany
        · cases hs1
    · obtain ⟨s1, cur', _, _, _, h4⟩ := walk_cons c cs s s' h
      exact walk_bind cs _ s' h4 hm

theorem walk_pend_step {proof ta : Bool} {lk : B → Option (List (Mac B))} {pids : List B}
    (c : Cav B) (cs : List (Cav B)) (s s' : WalkState B)
    (h : walk proof ta lk pids (c :: cs) s = .ok s') :
    ∃ (s1 : WalkState B) (cur' : B), (∀ p ∈ s.pend, p ∈ s1.pend) ∧
      walk proof ta lk pids cs { s1 with cur := cur', ids := s1.ids ++ [digest cur'] } = .ok s' := by
  unfold walk at h
  simp only [] at h
  split at h
  · cases h
  · rename_i s1 hs1
    have hc : ∀ p ∈ s.pend, p ∈ s1.pend := by
      split at hs1
      · repeat' split at hs1
        all_goals first | cases hs1 | skip
        intro p hp; exact List.mem_append_left _ hp
      · repeat' split at hs1
        all_goals first | cases hs1 | skip
        exact fun p hp => hp
      · repeat' split at hs1
        all_goals first | cases hs1 | skip
        all_goals exact fun p hp => hp
    split at h
    · cases h
    · rename_i cur' hm
      exact ⟨s1, cur', hc, h⟩

theorem walk_pend_mono {proof ta : Bool} {lk : B → Option (List (Mac B))} {pids : List B} :
    ∀ (cs : List (Cav B)) (s s' : WalkState B), walk proof ta lk pids cs s = .ok s' →
      ∀ p ∈ s.pend, p ∈ s'.pend
  | [], s, s', h => by simp only [walk] at h; cases h; exact fun p hp => hp
  | c :: cs, s, s', h => by
    obtain ⟨s1, cur', h1, h2⟩ := walk_pend_step c cs s s' h
    intro p hp
    exact walk_pend_mono cs _ s' h2 p (h1 p hp)

/-- the step for a third-party caveat: a candidate list exists for its ticket, the VerifierKey
opens under the CURRENT tail, and the pair is queued -/
theorem walk_tp {proof ta : Bool} {lk : B → Option (List (Mac B))} {pids : List B}
    (loc : Bytes) (vk ticket : B) (cs : List (Cav B)) (s s' : WalkState B)
    (h : walk proof ta lk pids (.tp loc vk ticket :: cs) s = .ok s') :
    ∃ ds dk cur', lk ticket = some ds ∧ unsealKey s.cur vk = some dk ∧
      macCav s.cur (.tp loc vk ticket) = some cur' ∧
      walk proof ta lk pids cs { s with pend := s.pend ++ [⟨ds, dk⟩], cur := cur', ids := s.ids ++ [digest cur'] } = .ok s' := by
  unfold walk at h
  simp only [] at h
  split at h
  · cases h
  · rename_i s1 hs1
    split at hs1
    · cases hs1
    · rename_i ds hds
      split at hs1
      · cases hs1
      · rename_i dk hdk
        cases hs1
        split at h
        · cases h
        · rename_i cur' hm
          exact ⟨ds, dk, cur', hds, hdk, hm, h⟩

theorem walk_tp_pend {proof ta : Bool} {lk : B → Option (List (Mac B))} {pids : List B}
    {loc : Bytes} {vk ticket : B} :
    ∀ (l1 l2 : List (Cav B)) (s s' : WalkState B),
      walk proof ta lk pids (l1 ++ .tp loc vk ticket :: l2) s = .ok s' →
      ∃ ds dk t, macChain s.cur l1 = some t ∧ lk ticket = some ds ∧ unsealKey t vk = some dk ∧
        (⟨ds, dk⟩ : Pending B) ∈ s'.pend
  | [], l2, s, s', h => by
    obtain ⟨ds, dk, cur', h1, h2, _, h4⟩ := walk_tp loc vk ticket l2 s s' h
    refine ⟨ds, dk, s.cur, rfl, h1, h2, ?_⟩
    exact walk_pend_mono l2 _ s' h4 _ (by simp)
  | c :: l1, l2, s, s', h => by
    obtain ⟨s1, cur', hc, _, hm, h4⟩ := walk_cons c (l1 ++ .tp loc vk ticket :: l2) s s' h
    obtain ⟨ds, dk, t, h1, h2, h3, h5⟩ := walk_tp_pend l1 l2 _ s' h4
    exact ⟨ds, dk, t, by simpa [macChain, hm] using h1, h2, h3, h5⟩

theorem dischargeAll_some {ids : List B} {ta : Bool} {tr : Bytes → List B} :
    ∀ (ps : List (Pending B)) (ret ret' : List (Cav B)), dischargeAll ids ta tr ps ret = some ret' →
      ∀ p ∈ ps, ∃ cs, firstDischarge ids ta tr p.key p.ds = some cs
  | [], _, _, _, p, hp => by cases hp
  | q :: ps, ret, ret', h, p, hp => by
    unfold dischargeAll at h
    split at h
    · cases h
    · rename_i cs hq
      rcases List.mem_cons.mp hp with rfl | hp
      · exact ⟨cs, hq⟩
      · exact dischargeAll_some ps _ ret' h p hp

theorem byTicket_some {dms ds : List (Mac B)} {ticket : B} (h : byTicket dms ticket = some ds) :
    ∀ d ∈ ds, d ∈ dms ∧ kidEq d.nonce.kid ticket = true := by
  unfold byTicket at h
  simp only [] at h
  split at h
  · cases h
  · cases h
    intro d hd
    exact List.mem_filter.mp hd

end generic

/-! ### specialisation to terms -/

open Crypto

/-- tails after every non-empty prefix -/
def tailsT (t : Term) : List Term → List Term
  | [] => []
  | c :: cs => mac t c :: tailsT (mac t c) cs

theorem macChain_term (t : Term) (cs : List (Cav Term)) :
    macChain t cs = some (chain t (cs.map encT)) := by
  induction cs generalizing t with
  | nil => rfl
  | cons c cs ih => simp [macChain, macCav, chain, ih]

theorem macTails_term (t : Term) (cs : List (Cav Term)) :
    macTails t cs = tailsT t (cs.map encT) := by
  induction cs generalizing t with
  | nil => rfl
  | cons c cs ih => simp [macTails, macCav, tailsT, ih]

theorem mem_tailsT {x t : Term} {cs : List Term} :
    x ∈ t :: tailsT t cs → ∃ cs0, cs0 <+: cs ∧ x = chain t cs0 := by
  induction cs generalizing t with
  | nil =>
    intro h
    simp [tailsT] at h
    exact ⟨[], List.prefix_refl _, h⟩
  | cons c cs ih =>
    intro h
    rcases List.mem_cons.mp h with rfl | h
    · exact ⟨[], List.nil_prefix, rfl⟩
    · obtain ⟨cs0, hp, rfl⟩ := ih h
      exact ⟨c :: cs0, by simpa using hp, rfl⟩

/-- what acceptance by `verify` means at `B = Term`: the tail is the (finalised) chain over nonce
and caveats, and the binding ids offered to discharges are the digests of all prefix tails -/
theorem verifyWith_term {k : Term} {m : Mac Term} {dms : List (Mac Term)} {pids : List Term} {ta : Bool}
    {tr : Bytes → List Term} {ret : List (Cav Term)} (h : verifyWith k m dms pids ta tr = .ok ret) :
    m.tail = (if m.nonce.proof then fin else id) (chain (mac k (encNonceT m.nonce)) (m.cavs.map encT)) ∧
    (m.nonce.proof && m.newProof) = false ∧
    ∃ s, walk m.nonce.proof ta (byTicket dms) pids m.cavs
          ⟨mac k (encNonceT m.nonce), [sha (mac k (encNonceT m.nonce))], [], []⟩ = .ok s ∧
      s.ids = (mac k (encNonceT m.nonce) :: tailsT (mac k (encNonceT m.nonce)) (m.cavs.map encT)).map sha ∧
      dischargeAll s.ids ta tr s.pend s.ret = some ret := by
  obtain ⟨hnp, s, hw, hd, hct⟩ := verifyWith_ok h
  obtain ⟨h1, h2⟩ := walk_spec _ _ _ hw
  simp only [macChain_term, Option.some.injEq] at h1
  simp only [macTails_term] at h2
  have hct' : (if m.nonce.proof then fin s.cur else s.cur) = m.tail := by
    simpa [ctEq, finalize] using hct
  refine ⟨?_, hnp, s, hw, ?_, hd⟩
  · rw [← hct', ← h1]
    cases m.nonce.proof <;> rfl
  · rw [h2]; rfl

theorem verifyFlat_term {k : Term} {m : Mac Term} {pids : List Term} {ta : Bool}
    {ret : List (Cav Term)} (h : verifyFlat k m pids ta = .ok ret) :
    m.tail = (if m.nonce.proof then fin else id) (chain (mac k (encNonceT m.nonce)) (m.cavs.map encT)) ∧
    (m.nonce.proof && m.newProof) = false := by
  obtain ⟨hnp, s, hw, _, hct⟩ := verifyFlat_ok h
  obtain ⟨h1, _⟩ := walk_spec _ _ _ hw
  simp only [macChain_term, Option.some.injEq] at h1
  have hct' : (if m.nonce.proof then fin s.cur else s.cur) = m.tail := by
    simpa [ctEq, finalize] using hct
  refine ⟨?_, hnp⟩
  rw [← hct', ← h1]
  cases m.nonce.proof <;> rfl

theorem map_encT_prefix {cs ds : List (Cav Term)} (h : cs.map encT <+: ds.map encT) : cs <+: ds := by
  have hlen : cs.length ≤ ds.length := by simpa using h.length_le
  have h2 : cs.map encT = (ds.take cs.length).map encT := by
    have := List.prefix_iff_eq_take.mp h
    rw [this, List.length_map, List.map_take]
  rw [map_encT_injective h2]
  exact List.take_prefix _ _

/-! ### publishable terms -/

section safe
variable (Sec : Nat → Prop) (Held HeldFin : Nat → Term → List Term → Prop)

theorem S_atom_iff (i : Nat) : S Sec Held HeldFin (atom i) ↔ Sec i := by
  constructor
  · rintro (⟨a, h, e⟩ | ⟨a, n, cs, _, e, _⟩ | ⟨a, n, cs, _, e, _⟩)
    · cases e; exact h
    · have := chain_isMac (mac (atom a) n) cs rfl; rw [← e] at this; cases this
    · cases e
  · intro h; exact Or.inl ⟨i, h, rfl⟩

theorem safe_atom {i : Nat} (h : ¬ Sec i) : Safe Sec Held HeldFin (atom i) := by
  intro u e; cases e; exact fun hs => h ((S_atom_iff Sec Held HeldFin i).mp hs)

theorem safe_lit (bs : List UInt8) : Safe Sec Held HeldFin (lit bs) := by
  intro u e; cases e; exact notS_of_other Sec Held HeldFin (by simp) rfl rfl

theorem safe_skel (s : CavList Unit) : Safe Sec Held HeldFin (skel s) := by
  intro u e; cases e; exact notS_of_other Sec Held HeldFin (by simp) rfl rfl

theorem safe_pre16 (t : Term) : Safe Sec Held HeldFin (pre16 t) := by
  intro u e; cases e; exact notS_of_other Sec Held HeldFin (by simp) rfl rfl

theorem safe_pair {a b : Term} (ha : Safe Sec Held HeldFin a) (hb : Safe Sec Held HeldFin b) :
    Safe Sec Held HeldFin (pair a b) := by
  intro u e
  cases e with
  | self => exact notS_of_other Sec Held HeldFin (by simp) rfl rfl
  | pl e => exact ha _ e
  | pr e => exact hb _ e

theorem safe_listT {l : List Term} (h : ∀ f ∈ l, Safe Sec Held HeldFin f) : Safe Sec Held HeldFin (listT l) := by
  induction l with
  | nil => exact safe_lit Sec Held HeldFin []
  | cons f fs ih =>
    exact safe_pair Sec Held HeldFin (h f List.mem_cons_self) (ih fun g hg => h g (List.mem_cons_of_mem _ hg))

theorem safe_box {k n p : Term} (hn : Safe Sec Held HeldFin n)
    (hp : ¬ S Sec Held HeldFin k → Safe Sec Held HeldFin p) : Safe Sec Held HeldFin (box k n p) := by
  intro u e
  cases e with
  | self => exact notS_of_other Sec Held HeldFin (by simp) rfl rfl
  | bx hk e => exact hp hk _ e
  | bn e => exact hn _ e

theorem safe_mac {k m : Term} (h : ¬ S Sec Held HeldFin (mac k m)) : Safe Sec Held HeldFin (mac k m) := by
  intro u e; cases e; exact h

theorem safe_fin {t : Term} (h : ¬ S Sec Held HeldFin (fin t)) : Safe Sec Held HeldFin (fin t) := by
  intro u e; cases e; exact h

theorem chain_mac_form (k m : Term) (cs : List Term) : ∃ k' m', chain (mac k m) cs = mac k' m' := by
  have := chain_isMac (mac k m) cs rfl
  cases h : chain (mac k m) cs <;> rw [h] at this <;> simp [isMac] at this
  exact ⟨_, _, rfl⟩

theorem safe_chain {k m : Term} {cs : List Term} (h : ¬ S Sec Held HeldFin (chain (mac k m) cs)) :
    Safe Sec Held HeldFin (chain (mac k m) cs) := by
  obtain ⟨k', m', e⟩ := chain_mac_form k m cs
  rw [e] at h ⊢
  exact safe_mac Sec Held HeldFin h

theorem safe_encT_tp {loc : Bytes} {vk t : Term} (hvk : Safe Sec Held HeldFin vk) (ht : Safe Sec Held HeldFin t) :
    Safe Sec Held HeldFin (encT (.tp loc vk t)) := by
  simp only [encT, encTL, fieldsL, fields, List.append_nil]
  refine safe_pair Sec Held HeldFin (safe_skel Sec Held HeldFin _) (safe_listT Sec Held HeldFin ?_)
  intro f hf
  simp at hf
  rcases hf with rfl | rfl <;> assumption

theorem safe_encT_bind {id : Term} (h : Safe Sec Held HeldFin id) :
    Safe Sec Held HeldFin (encT (.bind id)) := by
  simp only [encT, encTL, fieldsL, fields, List.append_nil]
  refine safe_pair Sec Held HeldFin (safe_skel Sec Held HeldFin _) (safe_listT Sec Held HeldFin ?_)
  intro f hf
  simp at hf
  rw [hf]; exact h

/-- a chain under a non-secret key, or one that extends a held chain, is not secret -/
theorem notS_chain {a : Nat} {n : Term} {cs : List Term}
    (h : Sec a → ∃ cs0, Held a n cs0 ∧ cs0 <+: cs) : ¬ S Sec Held HeldFin (chain (mac (atom a) n) cs) := by
  rintro (⟨a', _, e⟩ | ⟨a', n', cs', hs, e, hno⟩ | ⟨a', n', cs', _, e, _⟩)
  · have := chain_isMac (mac (atom a) n) cs rfl; rw [e] at this; cases this
  · obtain ⟨rfl, rfl, rfl⟩ := chain_unique e
    exact hno (h hs)
  · have := chain_isMac (mac (atom a) n) cs rfl; rw [e] at this; cases this

theorem notS_fin_chain {a : Nat} {n : Term} {cs : List Term}
    (h : Sec a → (∃ cs0, Held a n cs0 ∧ cs0 <+: cs) ∨ HeldFin a n cs) :
    ¬ S Sec Held HeldFin (fin (chain (mac (atom a) n) cs)) := by
  rintro (⟨a', _, e⟩ | ⟨a', n', cs', _, e, _⟩ | ⟨a', n', cs', hs, e, hno, hnf⟩)
  · cases e
  · have := chain_isMac (mac (atom a') n') cs' rfl; rw [← e] at this; cases this
  · injection e with e
    obtain ⟨rfl, rfl, rfl⟩ := chain_unique e
    rcases h hs with h | h
    · exact hno h
    · exact hnf h

end safe

/-! ### honest operations on terms -/

def finalised (m : Mac Term) : Bool := m.nonce.proof && !m.newProof

/-- the caveat that `Add` appends for an item when the current tail is `t` -/
def cavOf (t : Term) : AddItem Term → Cav Term
  | .plain c => c
  | .new3p loc ticket rn nonce => .tp loc (box t nonce rn) ticket

theorem add_single (m : Mac Term) (it : AddItem Term) :
    (add m [it]).1 = m ∨
    (finalised m = false ∧
      (add m [it]).1 = { m with cavs := m.cavs ++ [cavOf m.tail it], tail := mac m.tail (encT (cavOf m.tail it)) }) := by
  unfold add
  split
  · exact Or.inl rfl
  · rename_i hf
    split
    · exact Or.inl rfl
    · simp only [dedup]
      split
      · exact Or.inl rfl
      · cases it with
        | plain c =>
          simp only [addLoop, macCav]
          split
          · exact Or.inl rfl
          · split
            · exact Or.inl rfl
            · exact Or.inr ⟨by simpa [finalised] using hf, rfl⟩
        | new3p loc ticket rn nonce =>
          simp only [addLoop, macCav, sealKey]
          split
          · exact Or.inl rfl
          · exact Or.inr ⟨by simpa [finalised] using hf, rfl⟩

/-! ### honest runs -/

/-- the (unfinalised or finalised) tail an honest token under key `atom k` has -/
def WF (k : Nat) (m : Mac Term) : Prop :=
  m.tail = (if finalised m then fin else id) (chain (mac (atom k) (encNonceT m.nonce)) (m.cavs.map encT))

/-- what the network (the attacker) sees of a token: key-id, random part, tail, every caveat.
(Location, version and flags are public data, derivable anyway.) -/
def tokT (m : Mac Term) : List Term := m.nonce.kid :: m.nonce.rnd :: m.tail :: m.cavs.map encT

/-- the state of a run: what honest participants hold and what was published -/
structure St where
  /-- atoms `≥ next` have not been drawn yet -/
  next : Nat
  /-- token states in honest hands, with the atom of their root key -/
  toks : List (Nat × Mac Term)
  /-- third-party caveats created: third-party key atom, discharge key atom `rn`, ticket -/
  tickets : List (Nat × Nat × Term)
  /-- every term that was sent over the network -/
  pub : List Term
  /-- the tokens that were published -/
  published : List (Nat × Mac Term)
  /-- nonces of the mint events (`New` and `DischargeTicket`), latest first -/
  minted : List (GNonce Term)

section run
variable (Sec : Nat → Prop) (Held HeldFin : Nat → Term → List Term → Prop)

/-- Honest histories.  `Sec`, `Held`, `HeldFin` are fixed for the whole run ("prophecy"): the run
must respect them — a chain under a secret root is published only if it is declared in
`Held`/`HeldFin`, atoms that end up on the wire are not declared secret, and a discharge key `rn`
may be declared secret only if the third-party key is secret and NO state of the token preceding
the third-party caveat is ever declared held.  Everything else is unconstrained: any keys (secret
or compromised), any key-ids and plain caveats the attacker can supply at that moment, any
interleaving.  Operations are the model's own `mint`, `add`, `bindTo`, `newCaveat3P`,
`dischargeTicket`, `encodeState`.  Honest operations on tokens or tickets MADE by the attacker are
not events: with perfect cryptography he can only make them under keys he knows, and then he can
run the operation himself (`Der`), his own atoms being in `pub` by `learn`. -/
inductive Run : St → Prop
  | init (n0 : Nat) : Run ⟨n0, [], [], [], [], []⟩
  /-- the attacker's own atoms and compromised keys -/
  | learn {s} (i : Nat) : Run s → ¬ Sec i → Run { s with pub := atom i :: s.pub }
  /-- `New(kid, loc, key)` with fresh nonce randomness (`isProof = false` for `New`) -/
  | mint {s} (k : Nat) (kid : Term) (loc : Bytes) (isProof : Bool) : Run s →
      Der (· ∈ s.pub) kid → ¬ Sec s.next →
      Run { s with next := s.next + 1
                   toks := (k, Macaroon.mint (atom k) kid loc (atom s.next) isProof) :: s.toks
                   minted := (Macaroon.mint (atom k) kid loc (atom s.next) isProof).nonce :: s.minted }
  /-- `Add` of an ordinary caveat whose term-valued fields, if any, come from the network -/
  | addPlain {s} (k : Nat) (m : Mac Term) (c : Cav Term) : Run s → (k, m) ∈ s.toks →
      Der (· ∈ s.pub) (encT c) →
      Run { s with toks := (k, (add m [.plain c]).1) :: s.toks }
  /-- `BindToParentMacaroon` -/
  | bind {s} (k : Nat) (m : Mac Term) (k' : Nat) (parent : Mac Term) : Run s → (k, m) ∈ s.toks →
      (k', parent) ∈ s.toks →
      Run { s with toks := (k, (bindTo m parent).1) :: s.toks }
  /-- `NewCaveat3P` + `Add` under the third-party key `atom ka` with fresh `rn` and AEAD nonces -/
  | add3p {s} (k : Nat) (m : Mac Term) (ka : Nat) (loc : Bytes) (cs : List (Cav Term)) : Run s →
      (k, m) ∈ s.toks → Der (· ∈ s.pub) (encTL (CavList.ofList cs)) →
      ¬ Sec (s.next + 1) → ¬ Sec (s.next + 2) →
      (Sec s.next → Sec ka ∧ Sec k ∧ finalised m = false ∧
        ¬ ∃ cs0, Held k (encNonceT m.nonce) cs0 ∧ cs0 <+: m.cavs.map encT) →
      Run { s with next := s.next + 3
                   toks := (k, (add m [newCaveat3P (atom ka) loc cs (atom s.next) (atom (s.next + 1))
                                        (atom (s.next + 2))]).1) :: s.toks
                   tickets := (ka, s.next, sealTicket (atom ka) (atom (s.next + 1)) (atom s.next) cs) :: s.tickets }
  /-- the third party's `DischargeTicket` on a ticket made by `add3p` -/
  | discharge {s} (ka rn : Nat) (ticket : Term) (loc : Bytes) (isProof : Bool) (cs : List (Cav Term))
      (dm : Mac Term) : Run s → (ka, rn, ticket) ∈ s.tickets → ¬ Sec s.next →
      dischargeTicket (atom ka) loc ticket (atom s.next) isProof = .ok (cs, dm) →
      Run { s with next := s.next + 1, toks := (rn, dm) :: s.toks, minted := dm.nonce :: s.minted }
  /-- `Encode` (finalises a new proof) -/
  | encode {s} (k : Nat) (m : Mac Term) : Run s → (k, m) ∈ s.toks →
      Run { s with toks := (k, encodeState m) :: s.toks }
  /-- a token goes over the network -/
  | publish {s} (k : Nat) (m : Mac Term) : Run s → (k, m) ∈ s.toks →
      (Sec k → if finalised m then HeldFin k (encNonceT m.nonce) (m.cavs.map encT)
               else Held k (encNonceT m.nonce) (m.cavs.map encT)) →
      Run { s with pub := tokT m ++ s.pub, published := (k, m) :: s.published }

/-- an honest token state: right tail, and nothing secret exposed in its public parts -/
def Good (k : Nat) (m : Mac Term) : Prop :=
  WF k m ∧ Safe Sec Held HeldFin m.nonce.kid ∧ Safe Sec Held HeldFin m.nonce.rnd ∧
  ∀ c ∈ m.cavs, Safe Sec Held HeldFin (encT c)

theorem good_mint {k : Nat} {kid : Term} {loc : Bytes} {r : Nat} {p : Bool}
    (hk : Safe Sec Held HeldFin kid) (hr : ¬ Sec r) :
    Good Sec Held HeldFin k (Macaroon.mint (atom k) kid loc (atom r) p) := by
  refine ⟨?_, hk, safe_atom Sec Held HeldFin hr, by simp [Macaroon.mint]⟩
  simp [WF, Macaroon.mint, finalised, chain, macNonce]

theorem good_add {k : Nat} {m : Mac Term} (it : AddItem Term) (hg : Good Sec Held HeldFin k m)
    (hc : Safe Sec Held HeldFin (encT (cavOf m.tail it))) : Good Sec Held HeldFin k (add m [it]).1 := by
  rcases add_single m it with h | ⟨hf, h⟩
  · rw [h]; exact hg
  · rw [h]
    obtain ⟨hw, h1, h2, h3⟩ := hg
    refine ⟨?_, h1, h2, ?_⟩
    · have hf' : finalised { m with cavs := m.cavs ++ [cavOf m.tail it], tail := mac m.tail (encT (cavOf m.tail it)) } = false := hf
      simp only [WF, hf', Bool.false_eq_true, if_false, id, List.map_append, List.map_cons, List.map_nil, chain_snoc]
      simp only [WF, hf, Bool.false_eq_true, if_false, id] at hw
      rw [← hw]
    · intro c hc'
      rcases List.mem_append.mp hc' with hc' | hc'
      · exact h3 c hc'
      · simp at hc'; rw [hc']; exact hc

theorem good_encode {k : Nat} {m : Mac Term} (hg : Good Sec Held HeldFin k m) :
    Good Sec Held HeldFin k (encodeState m) := by
  unfold encodeState
  split
  · rename_i hpn
    obtain ⟨hw, h1, h2, h3⟩ := hg
    simp only [Bool.and_eq_true] at hpn
    refine ⟨?_, h1, h2, h3⟩
    have hf : finalised m = false := by simp [finalised, hpn.2]
    have hf' : finalised { m with tail := finalize m.tail, newProof := false } = true := by
      simp [finalised, hpn.1]
    simp only [WF, hf, Bool.false_eq_true, if_false, id] at hw
    unfold WF
    rw [hf']
    simp only [if_true]
    show fin m.tail = fin _
    rw [← hw]
  · exact hg

/-- the tail of an honest token may be published when its chain is declared held -/
theorem good_tail_safe {k : Nat} {m : Mac Term} (hg : Good Sec Held HeldFin k m)
    (hp : Sec k → if finalised m then HeldFin k (encNonceT m.nonce) (m.cavs.map encT)
               else Held k (encNonceT m.nonce) (m.cavs.map encT)) :
    Safe Sec Held HeldFin m.tail := by
  have hw := hg.1
  unfold WF at hw
  cases hf : finalised m
  · rw [hf] at hw hp
    simp only [Bool.false_eq_true, if_false, id] at hw hp
    rw [hw]
    exact safe_chain Sec Held HeldFin (notS_chain Sec Held HeldFin fun hs => ⟨_, hp hs, List.prefix_refl _⟩)
  · rw [hf] at hw hp
    simp only [if_true] at hw hp
    rw [hw]
    exact safe_fin Sec Held HeldFin (notS_fin_chain Sec Held HeldFin fun hs => Or.inr (hp hs))

structure Inv (s : St) : Prop where
  pub : ∀ t ∈ s.pub, Safe Sec Held HeldFin t
  toks : ∀ k m, (k, m) ∈ s.toks → Good Sec Held HeldFin k m
  tickets : ∀ ka rn t, (ka, rn, t) ∈ s.tickets →
    Safe Sec Held HeldFin t ∧ ∃ tn cs, t = box (atom ka) tn (ticketT (atom rn) cs)
  minted_lt : ∀ n ∈ s.minted, ∃ i, i < s.next ∧ n.rnd = atom i
  minted_nodup : s.minted.Nodup

theorem run_inv {s : St} (r : Run Sec Held HeldFin s) : Inv Sec Held HeldFin s := by
  induction r with
  | init n0 => exact ⟨by simp, by simp, by simp, by simp, by simp⟩
  | learn i _ hi ih =>
    refine ⟨?_, ih.toks, ih.tickets, ih.minted_lt, ih.minted_nodup⟩
    intro t ht
    rcases List.mem_cons.mp ht with rfl | ht
    · exact safe_atom Sec Held HeldFin hi
    · exact ih.pub t ht
  | @mint s k kid loc p _ hkid hn ih =>
    have hk : Safe Sec Held HeldFin kid := der_safe Sec Held HeldFin _ ih.pub _ hkid
    refine ⟨ih.pub, ?_, ih.tickets, ?_, ?_⟩
    · intro k' m' hm
      rcases List.mem_cons.mp hm with h | h
      · cases h; exact good_mint Sec Held HeldFin hk hn
      · exact ih.toks _ _ h
    · intro n hn'
      rcases List.mem_cons.mp hn' with rfl | h
      · exact ⟨s.next, Nat.lt_succ_self _, rfl⟩
      · obtain ⟨i, hi, e⟩ := ih.minted_lt n h
        exact ⟨i, Nat.lt_succ_of_lt hi, e⟩
    · refine List.nodup_cons.mpr ⟨?_, ih.minted_nodup⟩
      intro hmem
      obtain ⟨i, hi, e⟩ := ih.minted_lt _ hmem
      simp [Macaroon.mint] at e
      omega
  | @addPlain s k m c _ hm hc ih =>
    refine ⟨ih.pub, ?_, ih.tickets, ih.minted_lt, ih.minted_nodup⟩
    intro k' m' hm'
    rcases List.mem_cons.mp hm' with h | h
    · cases h
      exact good_add Sec Held HeldFin _ (ih.toks _ _ hm) (der_safe Sec Held HeldFin _ ih.pub _ hc)
    · exact ih.toks _ _ h
  | @bind s k m k' parent _ hm _ ih =>
    refine ⟨ih.pub, ?_, ih.tickets, ih.minted_lt, ih.minted_nodup⟩
    intro k'' m' hm'
    rcases List.mem_cons.mp hm' with h | h
    · cases h
      exact good_add Sec Held HeldFin _ (ih.toks _ _ hm)
        (safe_encT_bind Sec Held HeldFin (safe_pre16 Sec Held HeldFin _))
    · exact ih.toks _ _ h
  | @add3p s k m ka loc cs _ hm hcs h1 h2 hsec ih =>
    have hg := ih.toks _ _ hm
    have hrn : ¬ S Sec Held HeldFin (atom ka) → ¬ Sec s.next := fun hka hs =>
      hka ((S_atom_iff Sec Held HeldFin ka).mpr (hsec hs).1)
    have hticket : Safe Sec Held HeldFin (sealTicket (atom ka) (atom (s.next + 1)) (atom s.next) cs) := by
      refine safe_box Sec Held HeldFin (safe_atom Sec Held HeldFin h1) fun hka => ?_
      exact safe_pair Sec Held HeldFin (safe_atom Sec Held HeldFin (hrn hka))
        (der_safe Sec Held HeldFin _ ih.pub _ hcs)
    refine ⟨ih.pub, ?_, ?_, ?_, ih.minted_nodup⟩
    · intro k' m' hm'
      rcases List.mem_cons.mp hm' with h | h
      · cases h
        refine good_add Sec Held HeldFin _ hg ?_
        refine safe_encT_tp Sec Held HeldFin ?_ hticket
        refine safe_box Sec Held HeldFin (safe_atom Sec Held HeldFin h2) fun ht => ?_
        refine safe_atom Sec Held HeldFin fun hs => ht ?_
        obtain ⟨_, hk, hf, hno⟩ := hsec hs
        have hw := hg.1
        simp only [WF, hf, Bool.false_eq_true, if_false, id] at hw
        rw [hw]
        exact Or.inr (Or.inl ⟨k, _, _, hk, rfl, hno⟩)
      · exact ih.toks _ _ h
    · intro ka' rn' t ht
      rcases List.mem_cons.mp ht with h | h
      · cases h
        exact ⟨hticket, _, _, rfl⟩
      · exact ih.tickets _ _ _ h
    · intro n hn
      obtain ⟨i, hi, e⟩ := ih.minted_lt n hn
      exact ⟨i, by simp only []; omega, e⟩
  | @discharge s ka rn ticket loc p cs dm _ ht hn hd ih =>
    obtain ⟨hts, tn, cs0, rfl⟩ := ih.tickets _ _ _ ht
    have ho : openTicket (atom ka) (box (atom ka) tn (ticketT (atom rn) cs0)) = .ok (atom rn) cs0 :=
      LawfulCrypto.openTicket_sealTicket (B := Term) (atom ka) tn (atom rn) cs0 trivial trivial trivial
    simp only [dischargeTicket, ho] at hd
    cases hd
    refine ⟨ih.pub, ?_, ih.tickets, ?_, ?_⟩
    · intro k' m' hm
      rcases List.mem_cons.mp hm with h | h
      · cases h; exact good_mint Sec Held HeldFin hts hn
      · exact ih.toks _ _ h
    · intro n hn'
      rcases List.mem_cons.mp hn' with rfl | h
      · exact ⟨s.next, Nat.lt_succ_self _, rfl⟩
      · obtain ⟨i, hi, e⟩ := ih.minted_lt n h
        exact ⟨i, Nat.lt_succ_of_lt hi, e⟩
    · refine List.nodup_cons.mpr ⟨?_, ih.minted_nodup⟩
      intro hmem
      obtain ⟨i, hi, e⟩ := ih.minted_lt _ hmem
      simp [Macaroon.mint] at e
      omega
  | @encode s k m _ hm ih =>
    refine ⟨ih.pub, ?_, ih.tickets, ih.minted_lt, ih.minted_nodup⟩
    intro k' m' hm'
    rcases List.mem_cons.mp hm' with h | h
    · cases h; exact good_encode Sec Held HeldFin (ih.toks _ _ hm)
    · exact ih.toks _ _ h
  | @publish s k m _ hm hp ih =>
    have hg := ih.toks _ _ hm
    refine ⟨?_, ih.toks, ih.tickets, ih.minted_lt, ih.minted_nodup⟩
    intro t ht
    rcases List.mem_append.mp ht with h | h
    · simp only [tokT, List.mem_cons, List.mem_map] at h
      rcases h with rfl | rfl | rfl | ⟨c, hc, rfl⟩
      · exact hg.2.1
      · exact hg.2.2.1
      · exact good_tail_safe Sec Held HeldFin hg hp
      · exact hg.2.2.2 c hc
    · exact ih.pub t h

end run

/-! ### the declared sets read off a run -/

/-- unfinalised published states -/
def HeldOf (P : List (Nat × Mac Term)) (a : Nat) (n : Term) (cs : List Term) : Prop :=
  ∃ m, (a, m) ∈ P ∧ finalised m = false ∧ n = encNonceT m.nonce ∧ cs = m.cavs.map encT

/-- finalised published states -/
def HeldFinOf (P : List (Nat × Mac Term)) (a : Nat) (n : Term) (cs : List Term) : Prop :=
  ∃ m, (a, m) ∈ P ∧ finalised m = true ∧ n = encNonceT m.nonce ∧ cs = m.cavs.map encT

end Macaroon.Symbolic
