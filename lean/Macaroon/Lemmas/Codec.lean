/-
The typed MessagePack codec (`Caveat/Codec.lean`): well-formed caveats, the value tree of the
canonical encoding, decode-after-encode, injectivity of the encoders, and the fixed-point property of
re-encoding whatever the lenient decoder accepts.
Core Lean only.
-/
import Macaroon.Lemmas.CodecFields

namespace Macaroon
open Msgpack Codec Dec

/-! ### induction over the mutual caveat type -/

section induction
variable {P : Cav Bytes → Prop} {Q : CavList Bytes → Prop}
  (leaf : ∀ c, c.isWrapper = false → P c)
  (wrap : ∀ n ifs els, Q ifs → P (.ifPresent n ifs els))
  (nil : Q .nil) (cons : ∀ c cs, P c → Q cs → Q (.cons c cs))
include leaf wrap nil cons
set_option linter.unusedSectionVars false

mutual
private theorem indC : (c : Cav Bytes) → P c
  | .ifPresent n ifs els => wrap n ifs els (indL ifs)
  | .organization .. => leaf _ rfl
  | .volumes .. => leaf _ rfl
  | .apps .. => leaf _ rfl
  | .validityWindow .. => leaf _ rfl
  | .featureSet .. => leaf _ rfl
  | .mutations .. => leaf _ rfl
  | .machines .. => leaf _ rfl
  | .confineUser .. => leaf _ rfl
  | .confineOrganization .. => leaf _ rfl
  | .isUser .. => leaf _ rfl
  | .tp .. => leaf _ rfl
  | .bind .. => leaf _ rfl
  | .machineFeatureSet .. => leaf _ rfl
  | .fromMachine .. => leaf _ rfl
  | .clusters .. => leaf _ rfl
  | .confineGoogleHD .. => leaf _ rfl
  | .confineGitHubOrg .. => leaf _ rfl
  | .maxValidity .. => leaf _ rfl
  | .isMember => leaf _ rfl
  | .flyioUserID .. => leaf _ rfl
  | .gitHubUserID .. => leaf _ rfl
  | .googleUserID .. => leaf _ rfl
  | .action .. => leaf _ rfl
  | .commands .. => leaf _ rfl
  | .appFeatureSet .. => leaf _ rfl
  | .storageObjects .. => leaf _ rfl
  | .allowedRoles .. => leaf _ rfl
  | .flySrc .. => leaf _ rfl
  | .unregistered .. => leaf _ rfl
private theorem indL : (cs : CavList Bytes) → Q cs
  | .nil => nil
  | .cons c cs => cons c cs (indC c) (indL cs)
end

/-- simultaneous induction on a caveat and on a caveat list: every caveat other than the wrapper
is a leaf -/
theorem cav_induction : (∀ c, P c) ∧ (∀ cs, Q cs) :=
  ⟨indC leaf wrap nil cons, indL leaf wrap nil cons⟩

end induction

/-! ### well-formed caveats: what the Go types can hold and the canonical encoder assumes -/

def lenOk (b : Bytes) : Bool := decide (b.length < 2 ^ 32)

def commandsOk : Option (List Command) → Bool
  | none => true
  | some cs => decide (cs.length < 2 ^ 32) && cs.all fun c => sliceOk c.args

/-- the type numbers of the registered caveat kinds -/
def registered (t : Nat) : Bool :=
  t == 0 || (decide (2 ≤ t) && decide (t ≤ 16)) || (decide (19 ≤ t) && decide (t ≤ 31))

/-- the value tree of a raw body (`.nil` if the bytes are not one MessagePack value) -/
def rawV (raw : Bytes) : V :=
  match dec raw.length raw with
  | some (v, _) => v
  | none => .nil

/-- a raw body an `UnregisteredCaveat` can hold after decoding: exactly one MessagePack value, not
nil, and acceptable to the untyped decoder -/
def rawOk (raw : Bytes) : Bool :=
  match dec raw.length raw with
  | some (v, []) => (match v with | .nil => false | _ => genericOk v)
  | _ => false

mutual
def WFCav : Cav Bytes → Bool
  | .volumes rs => strSetOk rs
  | .featureSet rs => strSetOk rs
  | .machines rs => strSetOk rs
  | .machineFeatureSet rs => strSetOk rs
  | .clusters rs => strSetOk rs
  | .appFeatureSet rs => strSetOk rs
  | .storageObjects rs => strSetOk rs
  | .apps rs => u64SetOk rs
  | .mutations ms => sliceOk ms
  | .tp loc vk ticket => lenOk loc && lenOk vk && lenOk ticket
  | .bind id => lenOk id
  | .ifPresent nilIfs ifs _ =>
    (if nilIfs then (match ifs with | .nil => true | _ => false) else true)
      && decide (2 * ifs.length < 2 ^ 32) && WFCavL ifs
  | .fromMachine id => lenOk id
  | .confineGoogleHD hd => lenOk hd
  | .googleUserID n => lenOk (natBytes n)
  | .commands cs => commandsOk cs
  | .flySrc o a i => lenOk o && lenOk a && lenOk i
  | .unregistered typ raw => !registered typ.toNat && rawOk raw
  | _ => true
def WFCavL : CavList Bytes → Bool
  | .nil => true
  | .cons c cs => WFCav c && WFCavL cs
end

mutual
/-- nesting of wrappers -/
def cavDepth : Cav Bytes → Nat
  | .ifPresent _ ifs _ => 1 + cavDepthL ifs
  | _ => 0
def cavDepthL : CavList Bytes → Nat
  | .nil => 0
  | .cons c cs => max (cavDepth c) (cavDepthL cs)
end

theorem wfCavL_ofList (cs : List (Cav Bytes)) :
    WFCavL (CavList.ofList cs) = true ↔ ∀ c ∈ cs, WFCav c = true := by
  induction cs with
  | nil => simp [CavList.ofList, WFCavL]
  | cons c cs ih => simp [CavList.ofList, WFCavL, ih]

theorem encodableL_ofList (cs : List (Cav Bytes)) :
    encodableL (CavList.ofList cs) = true ↔ ∀ c ∈ cs, encodable c = true := by
  induction cs with
  | nil => simp [CavList.ofList, encodableL]
  | cons c cs ih => simp [CavList.ofList, encodableL, ih]

theorem CavList.length_ofList (cs : List (Cav Bytes)) : (CavList.ofList cs).length = cs.length := by
  induction cs with
  | nil => rfl
  | cons c cs ih => simp [CavList.ofList, CavList.length, ih]

theorem CavList.length_toList : (cs : CavList Bytes) → cs.toList.length = cs.length
  | .nil => rfl
  | .cons _ cs => by simp [CavList.toList, CavList.length, CavList.length_toList cs]

/-! ### the value tree of the canonical encoding -/

mutual
/-- the tree whose exact encoding is `encBody c` -/
def bodyV : Cav Bytes → V
  | .organization id mask => V.ofArr [V.ofUint id.toNat, V.ofUint mask.toNat]
  | .volumes rs => strSetV rs
  | .apps rs => u64SetV rs
  | .validityWindow nb na => V.ofArr [V.ofInt nb.toInt, V.ofInt na.toInt]
  | .featureSet rs => strSetV rs
  | .mutations ms => V.ofArr [strSliceV ms]
  | .machines rs => strSetV rs
  | .confineUser id => V.ofArr [V.ofUint id.toNat]
  | .confineOrganization id => V.ofArr [V.ofUint id.toNat]
  | .isUser id => V.ofArr [V.ofUint id.toNat]
  | .tp loc vk ticket => V.ofArr [V.ofStr loc, V.ofBin vk, V.ofBin ticket]
  | .bind id => V.ofBin id
  | .ifPresent nilIfs ifs els =>
    .arr .fix (.cons (if nilIfs then .nil else .arr (arrFmt (2 * ifs.length)) (pairsVL ifs))
      (.cons (V.ofUint els.toNat) .nil))
  | .machineFeatureSet rs => strSetV rs
  | .fromMachine id => V.ofArr [V.ofStr id]
  | .clusters rs => strSetV rs
  | .confineGoogleHD hd => V.ofStr hd
  | .confineGitHubOrg id => V.ofUint id.toNat
  | .maxValidity s => V.ofUint s.toNat
  | .isMember => V.ofArr []
  | .flyioUserID id => V.ofUint id.toNat
  | .gitHubUserID id => V.ofUint id.toNat
  | .googleUserID n => V.ofBin (natBytes n)
  | .action m => V.ofUint m.toNat
  | .commands none => V.nil
  | .commands (some cs) => V.ofArr (cs.map commandV)
  | .appFeatureSet rs => strSetV rs
  | .storageObjects rs => strSetV rs
  | .allowedRoles m => V.ofUint m.toNat
  | .flySrc o a i => V.ofArr [V.ofStr o, V.ofStr a, V.ofStr i]
  | .unregistered _ raw => rawV raw
/-- type, body, type, body, … -/
def pairsVL : CavList Bytes → VL
  | .nil => .nil
  | .cons c cs => .cons (V.ofUint c.typ.toNat) (.cons (bodyV c) (pairsVL cs))
end

/-- the tree of an encoded caveat set -/
def cavsV (cs : CavList Bytes) : V := .arr (arrFmt (2 * cs.length)) (pairsVL cs)

theorem pairsVL_length : (cs : CavList Bytes) → (pairsVL cs).length = 2 * cs.length
  | .nil => rfl
  | .cons c cs => by simp only [pairsVL, VL.length, CavList.length, pairsVL_length cs]; omega

/-! ### raw bodies -/

theorem encLen_length_pos (a b c d : UInt8) (f : LenFmt) (n : Nat) : 0 < (encLen a b c d f n).length := by
  cases f <;> simp [encLen]

mutual
theorem depth_le_length : (v : V) → depth v ≤ (enc v).length
  | .nil => by simp [depth]
  | .bool _ => by simp [depth]
  | .int _ _ => by simp [depth]
  | .f32 _ => by simp [depth]
  | .f64 _ => by simp [depth]
  | .str _ _ => by simp [depth]
  | .bin _ _ => by simp [depth]
  | .ext _ _ _ => by simp [depth]
  | .arr f xs => by
    have := depthL_le_length xs
    have := encLen_length_pos 0x90 0xdc 0xdc 0xdd f xs.length
    simp only [depth, enc, List.length_append]; omega
  | .map f xs => by
    have := depthL_le_length xs
    have := encLen_length_pos 0x80 0xde 0xde 0xdf f (xs.length / 2)
    simp only [depth, enc, List.length_append]; omega
theorem depthL_le_length : (vs : VL) → depthL vs ≤ (encL vs).length
  | .nil => by simp [depthL]
  | .cons v vs => by
    have := depth_le_length v
    have := depthL_le_length vs
    simp only [depthL, encL, List.length_append]; omega
end

theorem rawOk_spec (raw : Bytes) (h : rawOk raw = true) :
    raw = enc (rawV raw) ∧ WF (rawV raw) = true ∧ rawV raw ≠ .nil ∧ genericOk (rawV raw) = true := by
  unfold rawOk at h
  unfold rawV
  cases hd : dec raw.length raw with
  | none => rw [hd] at h; cases h
  | some p =>
    obtain ⟨v, rest⟩ := p
    rw [hd] at h
    cases rest with
    | cons _ _ => cases h
    | nil =>
      obtain ⟨e, hw, _⟩ := enc_dec _ _ _ _ hd
      simp only [List.append_nil] at e
      refine ⟨e, hw, ?_, ?_⟩
      · intro hv; simp only at hv; subst hv; cases h
      · cases v <;> first | exact h | cases h

theorem rawOk_enc (v : V) (hw : WF v = true) (hn : v ≠ .nil) (hg : genericOk v = true) :
    rawOk (enc v) = true ∧ rawV (enc v) = v := by
  have hd := dec_enc v (enc v).length [] hw (depth_le_length v)
  simp only [List.append_nil] at hd
  unfold rawOk rawV
  rw [hd]
  refine ⟨?_, rfl⟩
  cases v <;> first | exact hg | exact absurd rfl hn

/-! ### big.Int magnitudes -/

theorem pow256_eq (k : Nat) : 256 ^ k = 2 ^ (8 * k) := by
  rw [Nat.pow_mul]

theorem beVal_natBytes (n : Nat) : beVal (natBytes n) = n := by
  unfold natBytes
  split
  · rename_i h; subst h; rfl
  · apply beVal_beBytes
    rw [pow256_eq]
    exact Nat.lt_of_lt_of_le Nat.lt_log2_self (Nat.pow_le_pow_right (by decide) (by omega))

theorem natBytes_beVal_length (bs : Bytes) : (natBytes (beVal bs)).length ≤ bs.length := by
  unfold natBytes
  split
  · simp
  · rename_i h
    simp only [beBytes_length]
    have hlt := beVal_lt bs
    rw [pow256_eq] at hlt
    have := (Nat.log2_lt h).mpr hlt
    omega

/-! ### the canonical trees are well formed -/

theorem wf_strSetV (rs : ResSet Bytes) (h : strSetOk rs = true) : WF (strSetV rs) = true := by
  simp only [strSetOk, Bool.and_eq_true, decide_eq_true_eq, List.all_eq_true] at h
  obtain ⟨⟨h1, h2⟩, h3⟩ := h
  unfold strSetV
  rw [h1]
  apply wf_ofArr _ (by simp)
  intro x hx
  simp only [List.mem_cons, List.not_mem_nil, or_false] at hx
  subst hx
  apply wf_ofMap _ (by simpa using h2)
  intro kv hkv
  obtain ⟨e, he, rfl⟩ := List.mem_map.mp hkv
  have := e.2.toNat_lt
  exact ⟨wf_ofStr _ (h3 e he), wf_ofUint _ (by omega)⟩

theorem wf_u64SetV (rs : ResSet UInt64) (h : u64SetOk rs = true) : WF (u64SetV rs) = true := by
  simp only [u64SetOk, Bool.and_eq_true, decide_eq_true_eq] at h
  obtain ⟨h1, h2⟩ := h
  unfold u64SetV
  rw [h1]
  apply wf_ofArr _ (by simp)
  intro x hx
  simp only [List.mem_cons, List.not_mem_nil, or_false] at hx
  subst hx
  apply wf_ofMap _ (by simpa using h2)
  intro kv hkv
  obtain ⟨e, he, rfl⟩ := List.mem_map.mp hkv
  have := e.2.toNat_lt
  exact ⟨wf_ofUint _ e.1.toNat_lt, wf_ofUint _ (by omega)⟩

theorem wf_strSliceV (ms : Option (List Bytes)) (h : sliceOk ms = true) : WF (strSliceV ms) = true := by
  cases ms with
  | none => rfl
  | some ss =>
    simp only [sliceOk, Bool.and_eq_true, decide_eq_true_eq, List.all_eq_true] at h
    unfold strSliceV
    apply wf_ofArr _ (by simpa using h.1)
    intro x hx
    obtain ⟨s, hs, rfl⟩ := List.mem_map.mp hx
    exact wf_ofStr _ (h.2 s hs)

theorem wf_commandV (c : Command) (h : sliceOk c.args = true) : WF (commandV c) = true := by
  unfold commandV
  apply wf_ofArr _ (by simp)
  intro x hx
  simp only [List.mem_cons, List.not_mem_nil, or_false] at hx
  rcases hx with rfl | rfl
  · exact wf_strSliceV _ h
  · rfl

theorem wf_ofArr1 (a : V) (ha : WF a = true) : WF (V.ofArr [a]) = true :=
  wf_ofArr _ (by simp) (by simpa using ha)

theorem wf_ofArr2 (a b : V) (ha : WF a = true) (hb : WF b = true) : WF (V.ofArr [a, b]) = true :=
  wf_ofArr _ (by simp) (by simp [ha, hb])

theorem wf_ofArr3 (a b c : V) (ha : WF a = true) (hb : WF b = true) (hc : WF c = true) :
    WF (V.ofArr [a, b, c]) = true :=
  wf_ofArr _ (by simp) (by simp [ha, hb, hc])

theorem wf_u64 (x : UInt64) : WF (V.ofUint x.toNat) = true := wf_ofUint _ x.toNat_lt
theorem wf_u32 (x : UInt32) : WF (V.ofUint x.toNat) = true :=
  wf_ofUint _ (by have := x.toNat_lt; omega)
theorem wf_u16 (x : UInt16) : WF (V.ofUint x.toNat) = true :=
  wf_ofUint _ (by have := x.toNat_lt; omega)
theorem wf_i64 (x : Int64) : WF (V.ofInt x.toInt) = true :=
  wf_ofInt _ x.le_toInt (by have := x.toInt_lt; omega)

theorem lenOk_lt {b : Bytes} (h : lenOk b = true) : b.length < 2 ^ 32 := by
  simpa [lenOk] using h

theorem cntFits_arrFmt' (n : Nat) (h : n < 2 ^ 32) : cntFits (arrFmt n) n = true :=
  cntFits_arrFmt n h

theorem wf_leaf (c : Cav Bytes) (hl : c.isWrapper = false) (h : WFCav c = true) :
    WF (bodyV c) = true := by
  cases c
  case ifPresent => simp [Cav.isWrapper] at hl
  case unregistered t raw =>
    simp only [WFCav, Bool.and_eq_true] at h
    exact (rawOk_spec raw h.2).2.1
  case commands cs =>
    cases cs with
    | none => rfl
    | some cs =>
      simp only [WFCav, commandsOk, Bool.and_eq_true, decide_eq_true_eq, List.all_eq_true] at h
      simp only [bodyV]
      apply wf_ofArr _ (by simpa using h.1)
      intro x hx
      obtain ⟨c, hc, rfl⟩ := List.mem_map.mp hx
      exact wf_commandV c (h.2 c hc)
  case tp loc vk t =>
    simp only [WFCav, Bool.and_eq_true] at h
    exact wf_ofArr3 _ _ _ (wf_ofStr _ (lenOk_lt h.1.1)) (wf_ofBin _ (lenOk_lt h.1.2)) (wf_ofBin _ (lenOk_lt h.2))
  case flySrc o a i =>
    simp only [WFCav, Bool.and_eq_true] at h
    exact wf_ofArr3 _ _ _ (wf_ofStr _ (lenOk_lt h.1.1)) (wf_ofStr _ (lenOk_lt h.1.2)) (wf_ofStr _ (lenOk_lt h.2))
  case organization id mask => exact wf_ofArr2 _ _ (wf_u64 id) (wf_u16 mask)
  case validityWindow nb na => exact wf_ofArr2 _ _ (wf_i64 nb) (wf_i64 na)
  case mutations ms => exact wf_ofArr1 _ (wf_strSliceV ms h)
  case volumes rs => exact wf_strSetV rs h
  case featureSet rs => exact wf_strSetV rs h
  case machines rs => exact wf_strSetV rs h
  case machineFeatureSet rs => exact wf_strSetV rs h
  case clusters rs => exact wf_strSetV rs h
  case appFeatureSet rs => exact wf_strSetV rs h
  case storageObjects rs => exact wf_strSetV rs h
  case apps rs => exact wf_u64SetV rs h
  case confineUser id => exact wf_ofArr1 _ (wf_u64 id)
  case confineOrganization id => exact wf_ofArr1 _ (wf_u64 id)
  case isUser id => exact wf_ofArr1 _ (wf_u64 id)
  case bind id => exact wf_ofBin _ (lenOk_lt h)
  case fromMachine id => exact wf_ofArr1 _ (wf_ofStr _ (lenOk_lt h))
  case confineGoogleHD hd => exact wf_ofStr _ (lenOk_lt h)
  case confineGitHubOrg id => exact wf_u64 id
  case maxValidity id => exact wf_u64 id
  case isMember => rfl
  case flyioUserID id => exact wf_u64 id
  case gitHubUserID id => exact wf_u64 id
  case googleUserID n => exact wf_ofBin _ (lenOk_lt h)
  case action m => exact wf_u16 m
  case allowedRoles m => exact wf_u32 m

theorem wf_tree : (∀ c : Cav Bytes, WFCav c = true → WF (bodyV c) = true) ∧
    (∀ cs : CavList Bytes, WFCavL cs = true → WFL (pairsVL cs) = true) := by
  apply cav_induction
  · exact wf_leaf
  · intro n ifs els ih h
    simp only [WFCav, Bool.and_eq_true, decide_eq_true_eq] at h
    obtain ⟨⟨h1, h2⟩, h3⟩ := h
    simp only [bodyV, WF, WFL, VL.length, cntFits, Bool.and_eq_true, Bool.and_true]
    refine ⟨by simp, ?_, wf_u16 els⟩
    cases n with
    | true => rfl
    | false =>
      simp only [Bool.false_eq_true, ↓reduceIte, WF, Bool.and_eq_true, pairsVL_length]
      exact ⟨cntFits_arrFmt _ h2, ih h3⟩
  · intro _; rfl
  · intro c cs ihc ihcs h
    simp only [WFCavL, Bool.and_eq_true] at h
    simp only [pairsVL, WFL, Bool.and_eq_true]
    exact ⟨wf_u64 _, ihc h.1, ihcs h.2⟩

theorem wf_bodyV (c : Cav Bytes) (h : WFCav c = true) : WF (bodyV c) = true := wf_tree.1 c h
theorem wf_pairsVL (cs : CavList Bytes) (h : WFCavL cs = true) : WFL (pairsVL cs) = true :=
  wf_tree.2 cs h

theorem wf_cavsV (cs : CavList Bytes) (h : WFCavL cs = true) (hl : 2 * cs.length < 2 ^ 32) :
    WF (cavsV cs) = true := by
  simp only [cavsV, WF, Bool.and_eq_true, pairsVL_length]
  exact ⟨cntFits_arrFmt _ hl, wf_pairsVL cs h⟩

/-! ### the encoders write exactly these trees -/

theorem arrHeader_eq (n : Nat) (xs : VL) (h : xs.length = n) :
    arrHeader n ++ encL xs = enc (.arr (arrFmt n) xs) := by
  simp [arrHeader, enc, h]

theorem enc_tree : (∀ c : Cav Bytes, WFCav c = true → encBody c = enc (bodyV c)) ∧
    (∀ cs : CavList Bytes, WFCavL cs = true → encPairs cs = encL (pairsVL cs)) := by
  apply cav_induction
  · intro c hl h
    cases c
    case ifPresent => simp [Cav.isWrapper] at hl
    case unregistered t raw =>
      simp only [WFCav, Bool.and_eq_true] at h
      exact (rawOk_spec raw h.2).1
    case commands cs => cases cs <;> rfl
    all_goals rfl
  · intro n ifs els ih h
    simp only [WFCav, Bool.and_eq_true, decide_eq_true_eq] at h
    simp only [encBody, bodyV]
    cases n with
    | true => simp [enc, encL, encLen, VL.length]
    | false =>
      simp only [Bool.false_eq_true, ↓reduceIte]
      rw [ih h.2, arrHeader_eq _ _ (pairsVL_length ifs)]
      simp [enc, encL, encLen, VL.length]
  · intro _; rfl
  · intro c cs ihc ihcs h
    simp only [WFCavL, Bool.and_eq_true] at h
    simp only [encPairs, pairsVL, encL, ihc h.1, ihcs h.2, List.append_assoc]

theorem encBody_eq (c : Cav Bytes) (h : WFCav c = true) : encBody c = enc (bodyV c) := enc_tree.1 c h
theorem encPairs_eq (cs : CavList Bytes) (h : WFCavL cs = true) : encPairs cs = encL (pairsVL cs) :=
  enc_tree.2 cs h

theorem encCavs_eq (cs : CavList Bytes) (h : WFCavL cs = true) : encCavs cs = enc (cavsV cs) := by
  rw [encCavs, encPairs_eq cs h, arrHeader_eq _ _ (pairsVL_length cs), cavsV]

/-! ### depth of the canonical trees -/

theorem depth_tree : (∀ c : Cav Bytes, WFCav c = true → cavDepth c ≤ depth (bodyV c)) ∧
    (∀ cs : CavList Bytes, WFCavL cs = true → cavDepthL cs ≤ depthL (pairsVL cs)) := by
  apply cav_induction
  · intro c hl _
    cases c
    case ifPresent => simp [Cav.isWrapper] at hl
    all_goals simp [cavDepth]
  · intro n ifs els ih h
    simp only [WFCav, Bool.and_eq_true, decide_eq_true_eq] at h
    obtain ⟨⟨h1, _⟩, h3⟩ := h
    have := ih h3
    simp only [cavDepth, bodyV, depth, depthL]
    cases n with
    | false => simp only [Bool.false_eq_true, ↓reduceIte, depth]; omega
    | true =>
      cases ifs with
      | nil => simp [cavDepthL, depth]
      | cons _ _ => simp at h1
  · intro _; simp [cavDepthL]
  · intro c cs ihc ihcs h
    simp only [WFCavL, Bool.and_eq_true] at h
    have := ihc h.1
    have := ihcs h.2
    simp only [cavDepthL, pairsVL, depthL]; omega

theorem cavDepthL_le (cs : CavList Bytes) (h : WFCavL cs = true) :
    cavDepthL cs ≤ depthL (pairsVL cs) := depth_tree.2 cs h

/-! ### decode after encode, kind by kind -/

namespace Dec

@[simp] theorem field_zero (a : Option V) (fs : List (Option V)) : field (a :: fs) 0 = a := by
  simp [field]
@[simp] theorem field_succ (a : Option V) (fs : List (Option V)) (i : Nat) :
    field (a :: fs) (i + 1) = field fs i := by
  simp [field]

theorem asU64 (x : UInt64) : asUint 64 (some (V.ofUint x.toNat)) = Except.ok x.toNat :=
  asUint_ofUint 64 _ (by decide) x.toNat_lt
theorem asU32 (x : UInt32) : asUint 32 (some (V.ofUint x.toNat)) = Except.ok x.toNat :=
  asUint_ofUint 32 _ (by decide) x.toNat_lt
theorem asU16 (x : UInt16) : asUint 16 (some (V.ofUint x.toNat)) = Except.ok x.toNat :=
  asUint_ofUint 16 _ (by decide) x.toNat_lt
theorem asI64 (x : Int64) : asInt64 (some (V.ofInt x.toInt)) = Except.ok x.toInt :=
  asInt64_ofInt _ x.le_toInt x.toInt_lt

theorem strSetCav_fwd (mk : ResSet Bytes → Cav Bytes) (name : String) (rs : ResSet Bytes)
    (h : strSetOk rs = true) : strSetCav mk name (strSetV rs) = Except.ok (mk rs) := by
  simp only [strSetOk, Bool.and_eq_true, decide_eq_true_eq] at h
  unfold strSetCav strSetV
  rw [fieldsOf_ofArr _ _ rfl (by simp)]
  simp only [bind_ok, List.map, field_zero]
  rw [h.1.1, asStrSet_strMap, h.1.1]; rfl

theorem u64Struct_fwd (mk : UInt64 → Cav Bytes) (name : String) (id : UInt64) :
    u64Struct mk name (V.ofArr [V.ofUint id.toNat]) = Except.ok (mk id) := by
  unfold u64Struct
  rw [fieldsOf_ofArr _ _ rfl (by simp)]
  simp [asU64]

theorem command_fwd (c : Command) : command (commandV c) = Except.ok c := by
  unfold command commandV
  rw [fieldsOf_ofArr _ _ rfl (by simp)]
  simp [asStrSlice_strSliceV]

theorem cavOfV_unregistered (fuel t : Nat) (v : V) (ht : registered t = false) (hn : v ≠ .nil)
    (hg : genericOk v = true) :
    cavOfV fuel t v = Except.ok (.unregistered (UInt64.ofNat t) (enc v)) := by
  rw [cavOfV.eq_def]
  dsimp only
  split
  all_goals try (exact absurd ht (by decide))
  split
  · exact absurd rfl hn
  · simp [hg]

theorem cavOfV_leaf (c : Cav Bytes) (hl : c.isWrapper = false) (fuel : Nat) (h : WFCav c = true) :
    cavOfV fuel c.typ.toNat (bodyV c) = Except.ok c := by
  cases c
  case ifPresent => simp [Cav.isWrapper] at hl
  case unregistered t raw =>
    simp only [WFCav, Bool.and_eq_true, Bool.not_eq_true'] at h
    obtain ⟨e, _, hn, hg⟩ := rawOk_spec raw h.2
    have := cavOfV_unregistered fuel t.toNat (rawV raw) h.1 hn hg
    rw [← e, u64_ofNat_toNat] at this
    exact this
  case organization id mask =>
    show cavOfV fuel 0 (V.ofArr [V.ofUint id.toNat, V.ofUint mask.toNat]) = _
    rw [cavOfV, fieldsOf_ofArr _ _ rfl (by simp)]
    simp [asU64, asU16]
  case volumes rs => show cavOfV fuel 2 _ = _; rw [cavOfV]; exact strSetCav_fwd _ _ rs h
  case featureSet rs => show cavOfV fuel 5 _ = _; rw [cavOfV]; exact strSetCav_fwd _ _ rs h
  case machines rs => show cavOfV fuel 7 _ = _; rw [cavOfV]; exact strSetCav_fwd _ _ rs h
  case machineFeatureSet rs => show cavOfV fuel 14 _ = _; rw [cavOfV]; exact strSetCav_fwd _ _ rs h
  case clusters rs => show cavOfV fuel 16 _ = _; rw [cavOfV]; exact strSetCav_fwd _ _ rs h
  case appFeatureSet rs => show cavOfV fuel 28 _ = _; rw [cavOfV]; exact strSetCav_fwd _ _ rs h
  case storageObjects rs => show cavOfV fuel 29 _ = _; rw [cavOfV]; exact strSetCav_fwd _ _ rs h
  case apps rs =>
    simp only [WFCav, u64SetOk, Bool.and_eq_true, decide_eq_true_eq] at h
    show cavOfV fuel 3 (u64SetV rs) = _
    unfold u64SetV
    rw [cavOfV, fieldsOf_ofArr _ _ rfl (by simp)]
    simp only [bind_ok, List.map, field_zero]
    rw [h.1, asU64Set_u64Map, h.1]; rfl
  case validityWindow nb na =>
    show cavOfV fuel 4 (V.ofArr [V.ofInt nb.toInt, V.ofInt na.toInt]) = _
    rw [cavOfV, fieldsOf_ofArr _ _ rfl (by simp)]
    simp [asI64]
  case mutations ms =>
    show cavOfV fuel 6 (V.ofArr [strSliceV ms]) = _
    rw [cavOfV, fieldsOf_ofArr _ _ rfl (by simp)]
    simp [asStrSlice_strSliceV]
  case confineUser id => show cavOfV fuel 8 _ = _; rw [cavOfV]; exact u64Struct_fwd _ _ id
  case confineOrganization id => show cavOfV fuel 9 _ = _; rw [cavOfV]; exact u64Struct_fwd _ _ id
  case isUser id => show cavOfV fuel 10 _ = _; rw [cavOfV]; exact u64Struct_fwd _ _ id
  case tp loc vk t =>
    show cavOfV fuel 11 (V.ofArr [V.ofStr loc, V.ofBin vk, V.ofBin t]) = _
    rw [cavOfV, fieldsOf_ofArr _ _ rfl (by simp)]
    simp
  case bind id => show cavOfV fuel 12 (V.ofBin id) = _; rw [cavOfV]; simp
  case fromMachine id =>
    show cavOfV fuel 15 (V.ofArr [V.ofStr id]) = _
    rw [cavOfV, fieldsOf_ofArr _ _ rfl (by simp)]
    simp
  case confineGoogleHD hd => show cavOfV fuel 19 (V.ofStr hd) = _; rw [cavOfV]; simp
  case confineGitHubOrg id => show cavOfV fuel 20 (V.ofUint id.toNat) = _; rw [cavOfV]; simp [asU64]
  case maxValidity id => show cavOfV fuel 21 (V.ofUint id.toNat) = _; rw [cavOfV]; simp [asU64]
  case isMember =>
    show cavOfV fuel 22 (V.ofArr []) = _
    rw [cavOfV, fieldsOf_empty]; rfl
  case flyioUserID id => show cavOfV fuel 23 (V.ofUint id.toNat) = _; rw [cavOfV]; simp [asU64]
  case gitHubUserID id => show cavOfV fuel 24 (V.ofUint id.toNat) = _; rw [cavOfV]; simp [asU64]
  case googleUserID n =>
    show cavOfV fuel 25 (V.ofBin (natBytes n)) = _
    rw [cavOfV]; simp [beVal_natBytes]
  case action m => show cavOfV fuel 26 (V.ofUint m.toNat) = _; rw [cavOfV]; simp [asU16]
  case commands cs =>
    cases cs with
    | none => show cavOfV fuel 27 V.nil = _; rw [cavOfV]; rfl
    | some cs =>
      show cavOfV fuel 27 (V.arr _ (VL.ofList (cs.map commandV))) = _
      rw [cavOfV]
      simp only [VL.toList_ofList]
      rw [List.mapM_map, mapM_ok (command ∘ commandV) id cs (fun c _ => command_fwd c)]
      simp
  case allowedRoles m => show cavOfV fuel 30 (V.ofUint m.toNat) = _; rw [cavOfV]; simp [asU32]
  case flySrc o a i =>
    show cavOfV fuel 31 (V.ofArr [V.ofStr o, V.ofStr a, V.ofStr i]) = _
    rw [cavOfV, fieldsOf_ofArr _ _ rfl (by simp)]
    simp

theorem fieldsOf_arr2 (n1 n2 : String) (f : LenFmt) (a b : V) :
    fieldsOf [n1, n2] (some (.arr f (.cons a (.cons b .nil)))) = Except.ok [some a, some b] := by
  simp [fieldsOf, VL.toList]

theorem decode_tree :
    (∀ c : Cav Bytes, ∀ fuel, WFCav c = true → cavDepth c ≤ fuel →
      cavOfV fuel c.typ.toNat (bodyV c) = Except.ok c) ∧
    (∀ cs : CavList Bytes, ∀ fuel, WFCavL cs = true → cavDepthL cs ≤ fuel →
      cavPairs fuel (pairsVL cs).toList = Except.ok cs.toList) := by
  apply cav_induction
  · intro c hl fuel h _; exact cavOfV_leaf c hl fuel h
  · intro n ifs els ih fuel h hd
    simp only [WFCav, Bool.and_eq_true, decide_eq_true_eq] at h
    obtain ⟨⟨h1, h2⟩, h3⟩ := h
    simp only [cavDepth] at hd
    obtain ⟨f, rfl⟩ : ∃ f, fuel = f + 1 := ⟨fuel - 1, by omega⟩
    show cavOfV (f + 1) 13 _ = _
    simp only [bodyV]
    rw [cavOfV, fieldsOf_arr2]
    simp only [bind_ok, field_succ, field_zero, asU16]
    cases n with
    | true =>
      cases ifs with
      | nil => simp
      | cons _ _ => simp at h1
    | false =>
      simp only [Bool.false_eq_true, if_false]
      rw [cavsOfV, ih f h3 (by omega)]
      simp
  · intro fuel _ _; simp only [pairsVL, VL.toList, CavList.toList]; rw [cavPairs]; rfl
  · intro c cs ihc ihcs fuel h hd
    simp only [WFCavL, Bool.and_eq_true] at h
    simp only [cavDepthL] at hd
    simp only [pairsVL, VL.toList, CavList.toList]
    rw [cavPairs, asU64, bind_ok, ihc fuel h.1 (by omega), bind_ok, ihcs fuel h.2 (by omega)]; rfl

/-- per kind: decoding the body tree of a well-formed caveat under its type number returns it -/
theorem cavOfV_bodyV (c : Cav Bytes) (fuel : Nat) (h : WFCav c = true) (hd : cavDepth c ≤ fuel) :
    cavOfV fuel c.typ.toNat (bodyV c) = Except.ok c := decode_tree.1 c fuel h hd

theorem cavPairs_pairsVL (cs : CavList Bytes) (fuel : Nat) (h : WFCavL cs = true)
    (hd : cavDepthL cs ≤ fuel) : cavPairs fuel (pairsVL cs).toList = Except.ok cs.toList :=
  decode_tree.2 cs fuel h hd

theorem cavsOfV_cavsV (cs : CavList Bytes) (fuel : Nat) (h : WFCavL cs = true)
    (hd : depth (cavsV cs) ≤ fuel) : cavsOfV fuel (cavsV cs) = Except.ok cs.toList := by
  have := cavDepthL_le cs h
  simp only [cavsV, depth] at hd
  rw [cavsV, cavsOfV]
  exact cavPairs_pairsVL cs fuel h (by omega)

end Dec
/-! ### caveat sets, tokens, tickets: decode after encode -/

/-- nesting depth of the encoding of a caveat set (`1 +` the deepest body) -/
def encDepth (cs : List (Cav Bytes)) : Nat := depth (cavsV (CavList.ofList cs))

/-- a caveat set the encoder can write: every member well formed and the pair count fits the
array header -/
def WFCavs (cs : List (Cav Bytes)) : Prop := (∀ c ∈ cs, WFCav c = true) ∧ 2 * cs.length < 2 ^ 32

theorem WFCavs.wfl {cs : List (Cav Bytes)} (h : WFCavs cs) : WFCavL (CavList.ofList cs) = true :=
  (wfCavL_ofList cs).mpr h.1

theorem wf_cavsV_ofList {cs : List (Cav Bytes)} (h : WFCavs cs) :
    WF (cavsV (CavList.ofList cs)) = true :=
  wf_cavsV _ h.wfl (by rw [CavList.length_ofList]; exact h.2)

theorem encCavSet_eq {cs : List (Cav Bytes)} (h : WFCavs cs) :
    encCavSet cs = enc (cavsV (CavList.ofList cs)) := encCavs_eq _ h.wfl

theorem cavsOfV_ofList {cs : List (Cav Bytes)} (h : WFCavs cs) (fuel : Nat) (hd : encDepth cs ≤ fuel) :
    cavsOfV fuel (cavsV (CavList.ofList cs)) = Except.ok cs := by
  have := cavsOfV_cavsV (CavList.ofList cs) fuel h.wfl hd
  rwa [CavList.toList_ofList] at this

theorem decode_encode_cavs (cs : List (Cav Bytes)) (fuel : Nat) (rest : Bytes) (h : WFCavs cs)
    (hd : encDepth cs ≤ fuel) : decodeCavs fuel (encCavSet cs ++ rest) = some cs := by
  unfold decodeCavs
  rw [encCavSet_eq h, dec_enc _ fuel rest (wf_cavsV_ofList h) hd]
  simp only [cavsOfV_ofList h fuel hd]
  rfl

/-! nonces -/

def WFNonce (n : Nonce) : Bool :=
  lenOk n.kid && lenOk n.rnd && (n.version == 1 || (n.version == 0 && !n.proof))

def nonceV (n : Nonce) : V :=
  if n.version = 0 then V.ofArr [V.ofBin n.kid, V.ofBin n.rnd]
  else V.ofArr [V.ofBin n.kid, V.ofBin n.rnd, .bool n.proof]

theorem encNonce_eq (n : Nonce) : encNonce n = enc (nonceV n) := by
  unfold encNonce nonceV; split <;> rfl

theorem wf_nonceV (n : Nonce) (h : WFNonce n = true) : WF (nonceV n) = true := by
  simp only [WFNonce, Bool.and_eq_true] at h
  unfold nonceV
  split
  · exact wf_ofArr2 _ _ (wf_ofBin _ (lenOk_lt h.1.1)) (wf_ofBin _ (lenOk_lt h.1.2))
  · exact wf_ofArr3 _ _ _ (wf_ofBin _ (lenOk_lt h.1.1)) (wf_ofBin _ (lenOk_lt h.1.2)) rfl

theorem depth_nonceV (n : Nonce) : depth (nonceV n) = 1 := by
  unfold nonceV; split <;> simp [depth_ofArr, VL.ofList, depthL, depth_ofBin, depth]

theorem nonceOfV_nonceV (n : Nonce) (h : WFNonce n = true) : nonceOfV (nonceV n) = Except.ok n := by
  obtain ⟨kid, rnd, version, proof⟩ := n
  simp only [WFNonce, Bool.and_eq_true, Bool.or_eq_true, beq_iff_eq, Bool.not_eq_true'] at h
  unfold nonceV
  rcases h.2 with hv | ⟨hv, hp⟩
  · subst hv
    simp [V.ofArr, nonceOfV, VL.toList_ofList]
  · subst hv; subst hp
    simp [V.ofArr, nonceOfV, VL.toList_ofList]

/-- kid, rnd, version and proof are all recoverable from the encoding -/
theorem encNonce_injective (n₁ n₂ : Nonce) (h₁ : WFNonce n₁ = true) (h₂ : WFNonce n₂ = true)
    (h : encNonce n₁ = encNonce n₂) : n₁ = n₂ := by
  rw [encNonce_eq, encNonce_eq] at h
  have hv := enc_injective _ _ (wf_nonceV n₁ h₁) (wf_nonceV n₂ h₂) h
  have e₁ := nonceOfV_nonceV n₁ h₁
  rw [hv, nonceOfV_nonceV n₂ h₂] at e₁
  exact (Except.ok.inj e₁).symm

/-! tokens -/

structure WFMac (m : WireMac) : Prop where
  nonce : WFNonce m.nonce = true
  loc : m.loc.length < 2 ^ 32
  cavs : WFCavs m.cavs
  tail : m.tail.length < 2 ^ 32

def macV (m : WireMac) : V :=
  .arr .fix (.cons (nonceV m.nonce) (.cons (V.ofStr m.loc)
    (.cons (cavsV (CavList.ofList m.cavs)) (.cons (V.ofBin m.tail) .nil))))

theorem encMac_eq (m : WireMac) (h : WFMac m) : encMac m = enc (macV m) := by
  simp [encMac, macV, enc, encL, encLen, VL.length, encNonce_eq, encCavSet_eq h.cavs]

theorem wf_macV (m : WireMac) (h : WFMac m) : WF (macV m) = true := by
  simp [macV, WF, WFL, VL.length, cntFits, wf_nonceV _ h.nonce, wf_ofStr _ h.loc,
    wf_cavsV_ofList h.cavs, wf_ofBin _ h.tail]

theorem fieldsOf_arr4 (n1 n2 n3 n4 : String) (f : LenFmt) (a b c d : V) :
    fieldsOf [n1, n2, n3, n4] (some (.arr f (.cons a (.cons b (.cons c (.cons d .nil))))))
      = Except.ok [some a, some b, some c, some d] := by
  simp [fieldsOf, VL.toList]

theorem nonceV_arr (n : Nonce) : ∃ f xs, nonceV n = .arr f xs := by
  unfold nonceV; split <;> exact ⟨_, _, rfl⟩

theorem macOfV_macV (m : WireMac) (h : WFMac m) (fuel : Nat) (hd : encDepth m.cavs ≤ fuel) :
    macOfV fuel (macV m) = Except.ok m := by
  obtain ⟨f, xs, hn⟩ := nonceV_arr m.nonce
  have h1 := nonceOfV_nonceV m.nonce h.nonce
  have h2 := cavsOfV_ofList h.cavs fuel hd
  rw [hn] at h1
  unfold cavsV at h2
  unfold macOfV macV
  rw [fieldsOf_arr4, hn]
  unfold cavsV
  simp only [bind_ok, field_succ, field_zero, h1, h2, asBytes_ofStr, asBytes_ofBin]
  rfl

theorem depth_macV (m : WireMac) : depth (macV m) = 1 + max 1 (encDepth m.cavs) := by
  simp only [macV, depth, depthL, depth_nonceV, depth_ofStr, depth_ofBin, encDepth, cavsV]
  omega

theorem decode_encode_mac (m : WireMac) (fuel : Nat) (rest : Bytes) (h : WFMac m)
    (hd : 1 + max 1 (encDepth m.cavs) ≤ fuel) : decodeMac fuel (encMac m ++ rest) = some m := by
  unfold decodeMac
  rw [encMac_eq m h, dec_enc _ fuel rest (wf_macV m h) (by rw [depth_macV]; exact hd)]
  simp only [macOfV_macV m h fuel (by omega)]
  rfl

/-! tickets -/

def ticketV (dk : Bytes) (cs : List (Cav Bytes)) : V :=
  .arr .fix (.cons (V.ofBin dk) (.cons (cavsV (CavList.ofList cs)) .nil))

theorem encTicket_eq (dk : Bytes) (cs : List (Cav Bytes)) (h : WFCavs cs) :
    encTicket dk cs = enc (ticketV dk cs) := by
  simp [encTicket, ticketV, enc, encL, encLen, VL.length, encCavSet_eq h]

theorem ticketOfV_ticketV (dk : Bytes) (cs : List (Cav Bytes)) (h : WFCavs cs) (fuel : Nat)
    (hd : encDepth cs ≤ fuel) : ticketOfV fuel (ticketV dk cs) = Except.ok (dk, cs) := by
  have h2 := cavsOfV_ofList h fuel hd
  unfold cavsV at h2
  unfold ticketOfV ticketV
  rw [fieldsOf_arr2]
  unfold cavsV
  simp only [bind_ok, field_succ, field_zero, h2, asBytes_ofBin]
  rfl

theorem decode_encode_ticket (dk : Bytes) (cs : List (Cav Bytes)) (fuel : Nat) (rest : Bytes)
    (hk : dk.length < 2 ^ 32) (h : WFCavs cs) (hd : 1 + encDepth cs ≤ fuel) :
    decodeTicket fuel (encTicket dk cs ++ rest) = some (dk, cs) := by
  have hw : WF (ticketV dk cs) = true := by
    simp [ticketV, WF, WFL, VL.length, cntFits, wf_ofBin _ hk, wf_cavsV_ofList h]
  have hdep : depth (ticketV dk cs) ≤ fuel := by
    simp only [ticketV, depth, depthL, depth_ofBin, encDepth] at hd ⊢
    omega
  unfold decodeTicket
  rw [encTicket_eq dk cs h, dec_enc _ fuel rest hw hdep]
  simp only [ticketOfV_ticketV dk cs h fuel (by omega)]
  rfl

/-! ### injectivity: a MAC over the encoding determines the caveat -/

theorem encCavSet_injective (cs₁ cs₂ : List (Cav Bytes)) (h₁ : WFCavs cs₁) (h₂ : WFCavs cs₂)
    (h : encCavSet cs₁ = encCavSet cs₂) : cs₁ = cs₂ := by
  have e₁ := decode_encode_cavs cs₁ (max (encDepth cs₁) (encDepth cs₂)) [] h₁ (by omega)
  have e₂ := decode_encode_cavs cs₂ (max (encDepth cs₁) (encDepth cs₂)) [] h₂ (by omega)
  rw [h, e₂] at e₁
  exact (Option.some.inj e₁).symm

theorem encCav_eq_set (c : Cav Bytes) : encCav c = encCavSet [c] := by
  simp [encCav, encCavSet, encCavs, CavList.ofList, CavList.length, encPairs, arrHeader, arrFmt, encLen]

theorem encCav_injective (c₁ c₂ : Cav Bytes) (h₁ : WFCav c₁ = true) (h₂ : WFCav c₂ = true)
    (h : encCav c₁ = encCav c₂) : c₁ = c₂ := by
  rw [encCav_eq_set, encCav_eq_set] at h
  have := encCavSet_injective [c₁] [c₂] ⟨by simpa using h₁, by simp⟩ ⟨by simpa using h₂, by simp⟩ h
  simpa using this

/-! ### whatever the decoder returns is well formed, and its canonical tree is at most two levels
deeper than the tree it was read from -/

namespace Dec

theorem depth_flat (kvs : List (V × V)) (h : ∀ kv ∈ kvs, depth kv.1 = 0 ∧ depth kv.2 = 0) :
    depth (V.ofMap kvs) ≤ 1 := by
  rw [depth_ofMap]
  have : depthL (VL.ofList (kvs.flatMap fun kv => [kv.1, kv.2])) ≤ 0 := by
    rw [depthL_ofList_le]
    intro x hx
    obtain ⟨kv, hkv, hx⟩ := List.mem_flatMap.mp hx
    have := h kv hkv
    simp only [List.mem_cons, List.not_mem_nil, or_false] at hx
    rcases hx with rfl | rfl <;> omega
  omega

theorem depth_strSetV (rs : ResSet Bytes) : depth (strSetV rs) ≤ 2 := by
  unfold strSetV
  have := depth_flat ((ofEntriesStr rs).map fun e => (V.ofStr e.1, V.ofUint e.2.toNat)) (by
    intro kv hkv
    obtain ⟨e, _, rfl⟩ := List.mem_map.mp hkv
    exact ⟨depth_ofStr _, depth_ofUint _⟩)
  simp only [depth_ofArr, VL.ofList, depthL]
  omega

theorem depth_u64SetV (rs : ResSet UInt64) : depth (u64SetV rs) ≤ 2 := by
  unfold u64SetV
  have := depth_flat ((ofEntriesU64 rs).map fun e => (V.ofUint e.1.toNat, V.ofUint e.2.toNat)) (by
    intro kv hkv
    obtain ⟨e, _, rfl⟩ := List.mem_map.mp hkv
    exact ⟨depth_ofUint _, depth_ofUint _⟩)
  simp only [depth_ofArr, VL.ofList, depthL]
  omega

theorem depth_strSliceV (ms : Option (List Bytes)) : depth (strSliceV ms) ≤ 1 := by
  cases ms with
  | none => simp [strSliceV, depth]
  | some ss =>
    simp only [strSliceV, depth_ofArr]
    have : depthL (VL.ofList (ss.map V.ofStr)) ≤ 0 := by
      rw [depthL_ofList_le]
      intro x hx
      obtain ⟨s, _, rfl⟩ := List.mem_map.mp hx
      simp [depth_ofStr]
    omega

theorem depth_commandV (c : Command) : depth (commandV c) ≤ 2 := by
  have := depth_strSliceV c.args
  simp only [commandV, depth_ofArr, VL.ofList, depthL, depth]
  omega

theorem depth_commands (cs : List Command) : depth (bodyV (.commands (some cs))) ≤ 3 := by
  simp only [bodyV, depth_ofArr]
  have : depthL (VL.ofList (cs.map commandV)) ≤ 2 := by
    rw [depthL_ofList_le]
    intro x hx
    obtain ⟨c, _, rfl⟩ := List.mem_map.mp hx
    exact depth_commandV c
  omega

/-- the kinds whose canonical body nests at most two levels -/
def smallKind : Cav Bytes → Bool
  | .ifPresent .. => false
  | .unregistered .. => false
  | .commands (some _) => false
  | _ => true

theorem depth_small (c : Cav Bytes) (h : smallKind c = true) : depth (bodyV c) ≤ 2 := by
  cases c
  case ifPresent => cases h
  case unregistered => cases h
  case commands cs =>
    cases cs with
    | none => simp [bodyV, depth]
    | some _ => cases h
  case volumes rs => exact depth_strSetV rs
  case featureSet rs => exact depth_strSetV rs
  case machines rs => exact depth_strSetV rs
  case machineFeatureSet rs => exact depth_strSetV rs
  case clusters rs => exact depth_strSetV rs
  case appFeatureSet rs => exact depth_strSetV rs
  case storageObjects rs => exact depth_strSetV rs
  case apps rs => exact depth_u64SetV rs
  case mutations ms =>
    have := depth_strSliceV ms
    simp only [bodyV, depth_ofArr, VL.ofList, depthL]; omega
  all_goals
    simp [bodyV, depth_ofArr, VL.ofList, depthL, depth_ofUint, depth_ofInt, depth_ofStr, depth_ofBin]

/-- what is shown of every decoded caveat `c` read from the body tree `b` -/
def Out (b : V) (c : Cav Bytes) : Prop := WFCav c = true ∧ depth (bodyV c) ≤ depth b + 2

theorem out_small (b : V) (c : Cav Bytes) (hw : WFCav c = true) (hs : smallKind c = true) :
    Out b c := ⟨hw, by have := depth_small c hs; omega⟩

theorem strSetCav_inv (mk : ResSet Bytes → Cav Bytes) (name : String) (b : V) (c : Cav Bytes)
    (hb : WF b = true) (h : strSetCav mk name b = Except.ok c) :
    ∃ rs, c = mk rs ∧ strSetOk rs = true := by
  unfold strSetCav at h
  obtain ⟨fs, hfs, h⟩ := bind_eq_ok.mp h
  obtain ⟨rs, hrs, h⟩ := bind_eq_ok.mp h
  simp only [pure_eq, Except.ok.injEq] at h
  exact ⟨rs, h.symm, asStrSet_inv _ _ (field_owf _ b fs hb hfs 0) hrs⟩

theorem u64Struct_inv (mk : UInt64 → Cav Bytes) (name : String) (b : V) (c : Cav Bytes)
    (h : u64Struct mk name b = Except.ok c) : ∃ id, c = mk id := by
  unfold u64Struct at h
  obtain ⟨fs, _, h⟩ := bind_eq_ok.mp h
  obtain ⟨n, _, h⟩ := bind_eq_ok.mp h
  simp only [pure_eq, Except.ok.injEq] at h
  exact ⟨_, h.symm⟩

theorem command_inv (x : V) (c : Command) (hx : WF x = true) (h : command x = Except.ok c) :
    sliceOk c.args = true := by
  unfold command at h
  obtain ⟨fs, hfs, h⟩ := bind_eq_ok.mp h
  obtain ⟨args, hargs, h⟩ := bind_eq_ok.mp h
  obtain ⟨ex, _, h⟩ := bind_eq_ok.mp h
  simp only [pure_eq, Except.ok.injEq] at h
  subst h
  exact asStrSlice_inv _ _ (field_owf _ x fs hx hfs 0) hargs

theorem registered_cases (t : Nat) (h : registered t = true) :
    t = 0 ∨ t = 2 ∨ t = 3 ∨ t = 4 ∨ t = 5 ∨ t = 6 ∨ t = 7 ∨ t = 8 ∨ t = 9 ∨ t = 10 ∨ t = 11 ∨ t = 12
    ∨ t = 13 ∨ t = 14 ∨ t = 15 ∨ t = 16 ∨ t = 19 ∨ t = 20 ∨ t = 21 ∨ t = 22 ∨ t = 23 ∨ t = 24
    ∨ t = 25 ∨ t = 26 ∨ t = 27 ∨ t = 28 ∨ t = 29 ∨ t = 30 ∨ t = 31 := by
  simp only [registered, Bool.or_eq_true, Bool.and_eq_true, beq_iff_eq, decide_eq_true_eq] at h
  omega

theorem cavOfV_default (fuel t : Nat) (v : V) (ht : registered t = false) :
    cavOfV fuel t v = match v with
      | .nil => pure (.unregistered 0 [])
      | _ => if genericOk v then pure (.unregistered (UInt64.ofNat t) (enc v)) else fail := by
  rw [cavOfV.eq_def]
  dsimp only
  split
  all_goals try (exact absurd ht (by decide))
  rfl

/-- decoding one body (type number below `2^64`) -/
def BodyInv (fuel : Nat) : Prop := ∀ (typ : Nat) (b : V) (c : Cav Bytes), typ < 2 ^ 64 → WF b = true →
  cavOfV fuel typ b = Except.ok c → encodable c = true → Out b c

/-- decoding a list of (type, body) pairs -/
def PairsInv (fuel : Nat) : Prop := ∀ (l : List V) (cs : List (Cav Bytes)) (n : Nat),
  (∀ x ∈ l, WF x = true ∧ depth x ≤ n) → cavPairs fuel l = Except.ok cs →
  (∀ c ∈ cs, encodable c = true) →
  (∀ c ∈ cs, WFCav c = true) ∧ depthL (pairsVL (CavList.ofList cs)) ≤ n + 2

theorem cavPairs_length (fuel : Nat) : ∀ (l : List V) (cs : List (Cav Bytes)),
    cavPairs fuel l = Except.ok cs → l.length = 2 * cs.length
  | [], cs, h => by
    rw [cavPairs] at h
    simp only [pure_eq, Except.ok.injEq] at h
    subst h; rfl
  | [_], cs, h => by rw [cavPairs] at h; cases h
  | t :: b :: rest, cs, h => by
    rw [cavPairs] at h
    obtain ⟨typ, _, h⟩ := bind_eq_ok.mp h
    obtain ⟨c, _, h⟩ := bind_eq_ok.mp h
    obtain ⟨cs', hcs', h⟩ := bind_eq_ok.mp h
    simp only [pure_eq, Except.ok.injEq] at h
    subst h
    have := cavPairs_length fuel rest cs' hcs'
    simp only [List.length_cons, this]; omega

theorem pairsInv_of_bodyInv (fuel : Nat) (hP : BodyInv fuel) : ∀ (l : List V) (cs : List (Cav Bytes)) (n : Nat),
    (∀ x ∈ l, WF x = true ∧ depth x ≤ n) → cavPairs fuel l = Except.ok cs →
    (∀ c ∈ cs, encodable c = true) →
    (∀ c ∈ cs, WFCav c = true) ∧ depthL (pairsVL (CavList.ofList cs)) ≤ n + 2
  | [], cs, n, _, h, _ => by
    rw [cavPairs] at h
    simp only [pure_eq, Except.ok.injEq] at h
    subst h
    simp [CavList.ofList, pairsVL, depthL]
  | [_], cs, n, _, h, _ => by rw [cavPairs] at h; cases h
  | t :: b :: rest, cs, n, hl, h, henc => by
    rw [cavPairs] at h
    obtain ⟨typ, htyp, h⟩ := bind_eq_ok.mp h
    obtain ⟨c, hc, h⟩ := bind_eq_ok.mp h
    obtain ⟨cs', hcs', h⟩ := bind_eq_ok.mp h
    simp only [pure_eq, Except.ok.injEq] at h
    subst h
    have hb := hl b (by simp)
    obtain ⟨hw, hdep⟩ := hP typ b c (asUint_inv 64 _ _ htyp) hb.1 hc (henc c List.mem_cons_self)
    obtain ⟨hws, hdeps⟩ := pairsInv_of_bodyInv fuel hP rest cs' n (fun x hx => hl x (by simp [hx])) hcs'
      (fun x hx => henc x (List.mem_cons_of_mem _ hx))
    refine ⟨?_, ?_⟩
    · intro x hx
      rcases List.mem_cons.mp hx with rfl | hx
      · exact hw
      · exact hws x hx
    · simp only [CavList.ofList, pairsVL, depthL, depth_ofUint]; omega

/-- a trivially well-formed small kind -/
theorem out_triv (b : V) (c : Cav Bytes) (hw : WFCav c = true := by rfl) (hs : smallKind c = true := by rfl) :
    Out b c := out_small b c hw hs

theorem bodyInv_step (fuel : Nat) (hQ : ∀ f, fuel = f + 1 → PairsInv f) : BodyInv fuel := by
  intro typ b c htyp hb h henc
  cases hreg : registered typ with
  | false =>
    rw [cavOfV_default fuel typ b hreg] at h
    split at h
    · simp only [pure_eq, Except.ok.injEq] at h
      subst h
      simp [encodable] at henc
    · split at h
      · rename_i hn hg
        simp only [pure_eq, Except.ok.injEq] at h
        subst h
        obtain ⟨h1, h2⟩ := rawOk_enc b hb (fun e => hn e) hg
        refine ⟨?_, ?_⟩
        · simp only [WFCav, u64_ofNat_toNat_of_lt typ htyp, hreg, h1]; rfl
        · simp only [bodyV, h2]; omega
      · cases h
  | true =>
    rcases registered_cases typ hreg with rfl | rfl | rfl | rfl | rfl | rfl | rfl | rfl | rfl | rfl | rfl
      | rfl | rfl | rfl | rfl | rfl | rfl | rfl | rfl | rfl | rfl | rfl | rfl | rfl | rfl | rfl | rfl
      | rfl | rfl
    · -- 0 organization
      rw [cavOfV] at h
      obtain ⟨fs, _, h⟩ := bind_eq_ok.mp h
      obtain ⟨a, _, h⟩ := bind_eq_ok.mp h
      obtain ⟨m, _, h⟩ := bind_eq_ok.mp h
      simp only [pure_eq, Except.ok.injEq] at h
      subst h
      exact out_triv b _
    · -- 2 volumes
      rw [cavOfV] at h
      obtain ⟨rs, rfl, hrs⟩ := strSetCav_inv _ _ b c hb h
      exact out_small b _ hrs rfl
    · -- 3 apps
      rw [cavOfV] at h
      obtain ⟨fs, hfs, h⟩ := bind_eq_ok.mp h
      obtain ⟨rs, hrs, h⟩ := bind_eq_ok.mp h
      simp only [pure_eq, Except.ok.injEq] at h
      subst h
      exact out_small b _ (asU64Set_inv _ _ (field_owf _ b fs hb hfs 0) hrs) rfl
    · -- 4 validityWindow
      rw [cavOfV] at h
      obtain ⟨fs, _, h⟩ := bind_eq_ok.mp h
      obtain ⟨a, _, h⟩ := bind_eq_ok.mp h
      obtain ⟨m, _, h⟩ := bind_eq_ok.mp h
      simp only [pure_eq, Except.ok.injEq] at h
      subst h
      exact out_triv b _
    · -- 5 featureSet
      rw [cavOfV] at h
      obtain ⟨rs, rfl, hrs⟩ := strSetCav_inv _ _ b c hb h
      exact out_small b _ hrs rfl
    · -- 6 mutations
      rw [cavOfV] at h
      obtain ⟨fs, hfs, h⟩ := bind_eq_ok.mp h
      obtain ⟨ms, hms, h⟩ := bind_eq_ok.mp h
      simp only [pure_eq, Except.ok.injEq] at h
      subst h
      exact out_small b _ (asStrSlice_inv _ _ (field_owf _ b fs hb hfs 0) hms) rfl
    · -- 7 machines
      rw [cavOfV] at h
      obtain ⟨rs, rfl, hrs⟩ := strSetCav_inv _ _ b c hb h
      exact out_small b _ hrs rfl
    · -- 8 confineUser
      rw [cavOfV] at h
      obtain ⟨id, rfl⟩ := u64Struct_inv _ _ b c h
      exact out_triv b _
    · -- 9 confineOrganization
      rw [cavOfV] at h
      obtain ⟨id, rfl⟩ := u64Struct_inv _ _ b c h
      exact out_triv b _
    · -- 10 isUser
      rw [cavOfV] at h
      obtain ⟨id, rfl⟩ := u64Struct_inv _ _ b c h
      exact out_triv b _
    · -- 11 third party
      rw [cavOfV] at h
      obtain ⟨fs, hfs, h⟩ := bind_eq_ok.mp h
      obtain ⟨x, hx, h⟩ := bind_eq_ok.mp h
      obtain ⟨y, hy, h⟩ := bind_eq_ok.mp h
      obtain ⟨z, hz, h⟩ := bind_eq_ok.mp h
      simp only [pure_eq, Except.ok.injEq] at h
      subst h
      refine out_small b _ ?_ rfl
      simp only [WFCav, lenOk, Bool.and_eq_true, decide_eq_true_eq]
      exact ⟨⟨asBytes_inv _ _ (field_owf _ b fs hb hfs 0) hx, asBytes_inv _ _ (field_owf _ b fs hb hfs 1) hy⟩,
        asBytes_inv _ _ (field_owf _ b fs hb hfs 2) hz⟩
    · -- 12 bind
      rw [cavOfV] at h
      obtain ⟨x, hx, h⟩ := bind_eq_ok.mp h
      simp only [pure_eq, Except.ok.injEq] at h
      subst h
      refine out_small b _ ?_ rfl
      simp only [WFCav, lenOk, decide_eq_true_eq]
      exact asBytes_inv _ _ (owf_some hb) hx
    · -- 13 ifPresent
      cases fuel with
      | zero => rw [cavOfV] at h; cases h
      | succ f =>
        rw [cavOfV] at h
        obtain ⟨fs, hfs, h⟩ := bind_eq_ok.mp h
        obtain ⟨els, _, h⟩ := bind_eq_ok.mp h
        split at h
        · simp only [pure_eq, Except.ok.injEq] at h
          subst h
          refine ⟨by simp [WFCav, WFCavL, CavList.length], ?_⟩
          simp [bodyV, depth, depthL, depth_ofUint]
        · simp only [pure_eq, Except.ok.injEq] at h
          subst h
          refine ⟨by simp [WFCav, WFCavL, CavList.length], ?_⟩
          simp [bodyV, depth, depthL, depth_ofUint]
        · rename_i sv hne hsv
          obtain ⟨cs, hcs, h⟩ := bind_eq_ok.mp h
          simp only [pure_eq, Except.ok.injEq] at h
          subst h
          obtain ⟨hwsv, hdsv⟩ := field_wf _ b fs hb hfs 0 sv hsv
          cases sv with
          | arr g xs =>
            rw [cavsOfV] at hcs
            simp only [WF, Bool.and_eq_true] at hwsv
            simp only [encodable] at henc
            have hlen := cavPairs_length f _ _ hcs
            rw [length_toList] at hlen
            have hx32 := cntFits_lt _ _ hwsv.1
            obtain ⟨hws, hdeps⟩ := hQ f rfl xs.toList cs (depthL xs)
              (fun x hx => ⟨mem_toList_wf xs x hwsv.2 hx, mem_toList_depth xs x hx⟩) hcs
              ((encodableL_ofList cs).mp henc)
            refine ⟨?_, ?_⟩
            · simp only [WFCav, Bool.false_eq_true, ↓reduceIte, Bool.true_and, Bool.and_eq_true,
                decide_eq_true_eq, CavList.length_ofList]
              exact ⟨by omega, (wfCavL_ofList cs).mpr hws⟩
            · simp only [depth] at hdsv
              simp only [bodyV, Bool.false_eq_true, ↓reduceIte, depth, depthL, depth_ofUint]
              omega
          | _ => simp [cavsOfV] at hcs
    · -- 14 machineFeatureSet
      rw [cavOfV] at h
      obtain ⟨rs, rfl, hrs⟩ := strSetCav_inv _ _ b c hb h
      exact out_small b _ hrs rfl
    · -- 15 fromMachine
      rw [cavOfV] at h
      obtain ⟨fs, hfs, h⟩ := bind_eq_ok.mp h
      obtain ⟨x, hx, h⟩ := bind_eq_ok.mp h
      simp only [pure_eq, Except.ok.injEq] at h
      subst h
      refine out_small b _ ?_ rfl
      simp only [WFCav, lenOk, decide_eq_true_eq]
      exact asBytes_inv _ _ (field_owf _ b fs hb hfs 0) hx
    · -- 16 clusters
      rw [cavOfV] at h
      obtain ⟨rs, rfl, hrs⟩ := strSetCav_inv _ _ b c hb h
      exact out_small b _ hrs rfl
    · -- 19 confineGoogleHD
      rw [cavOfV] at h
      obtain ⟨x, hx, h⟩ := bind_eq_ok.mp h
      simp only [pure_eq, Except.ok.injEq] at h
      subst h
      refine out_small b _ ?_ rfl
      simp only [WFCav, lenOk, decide_eq_true_eq]
      exact asBytes_inv _ _ (owf_some hb) hx
    · -- 20 confineGitHubOrg
      rw [cavOfV] at h
      obtain ⟨x, _, h⟩ := bind_eq_ok.mp h
      simp only [pure_eq, Except.ok.injEq] at h
      subst h
      exact out_triv b _
    · -- 21 maxValidity
      rw [cavOfV] at h
      obtain ⟨x, _, h⟩ := bind_eq_ok.mp h
      simp only [pure_eq, Except.ok.injEq] at h
      subst h
      exact out_triv b _
    · -- 22 isMember
      rw [cavOfV] at h
      obtain ⟨x, _, h⟩ := bind_eq_ok.mp h
      simp only [pure_eq, Except.ok.injEq] at h
      subst h
      exact out_triv b _
    · -- 23 flyioUserID
      rw [cavOfV] at h
      obtain ⟨x, _, h⟩ := bind_eq_ok.mp h
      simp only [pure_eq, Except.ok.injEq] at h
      subst h
      exact out_triv b _
    · -- 24 gitHubUserID
      rw [cavOfV] at h
      obtain ⟨x, _, h⟩ := bind_eq_ok.mp h
      simp only [pure_eq, Except.ok.injEq] at h
      subst h
      exact out_triv b _
    · -- 25 googleUserID
      rw [cavOfV] at h
      obtain ⟨x, hx, h⟩ := bind_eq_ok.mp h
      simp only [pure_eq, Except.ok.injEq] at h
      subst h
      refine out_small b _ ?_ rfl
      simp only [WFCav, lenOk, decide_eq_true_eq]
      have h1 := asBytes_inv _ _ (owf_some hb) hx
      have h2 := natBytes_beVal_length x
      omega
    · -- 26 action
      rw [cavOfV] at h
      obtain ⟨x, _, h⟩ := bind_eq_ok.mp h
      simp only [pure_eq, Except.ok.injEq] at h
      subst h
      exact out_triv b _
    · -- 27 commands
      cases b with
      | nil =>
        rw [cavOfV] at h
        simp only [pure_eq, Except.ok.injEq] at h
        subst h
        exact out_triv V.nil _
      | arr g xs =>
        rw [cavOfV] at h
        obtain ⟨cs, hcs, h⟩ := bind_eq_ok.mp h
        simp only [pure_eq, Except.ok.injEq] at h
        subst h
        simp only [WF, Bool.and_eq_true] at hb
        obtain ⟨hl, hm⟩ := mapM_inv _ _ _ hcs
        refine ⟨?_, ?_⟩
        · simp only [WFCav, commandsOk, Bool.and_eq_true, decide_eq_true_eq, List.all_eq_true]
          refine ⟨by rw [hl, length_toList]; exact cntFits_lt _ _ hb.1, ?_⟩
          intro c hc
          obtain ⟨x, hx, hf⟩ := hm c hc
          exact command_inv x c (mem_toList_wf xs x hb.2 hx) hf
        · have := depth_commands cs
          simp only [depth]; omega
      | _ => simp [cavOfV] at h
    · -- 28 appFeatureSet
      rw [cavOfV] at h
      obtain ⟨rs, rfl, hrs⟩ := strSetCav_inv _ _ b c hb h
      exact out_small b _ hrs rfl
    · -- 29 storageObjects
      rw [cavOfV] at h
      obtain ⟨rs, rfl, hrs⟩ := strSetCav_inv _ _ b c hb h
      exact out_small b _ hrs rfl
    · -- 30 allowedRoles
      rw [cavOfV] at h
      obtain ⟨x, _, h⟩ := bind_eq_ok.mp h
      simp only [pure_eq, Except.ok.injEq] at h
      subst h
      exact out_triv b _
    · -- 31 flySrc
      rw [cavOfV] at h
      obtain ⟨fs, hfs, h⟩ := bind_eq_ok.mp h
      obtain ⟨x, hx, h⟩ := bind_eq_ok.mp h
      obtain ⟨y, hy, h⟩ := bind_eq_ok.mp h
      obtain ⟨z, hz, h⟩ := bind_eq_ok.mp h
      simp only [pure_eq, Except.ok.injEq] at h
      subst h
      refine out_small b _ ?_ rfl
      simp only [WFCav, lenOk, Bool.and_eq_true, decide_eq_true_eq]
      exact ⟨⟨asBytes_inv _ _ (field_owf _ b fs hb hfs 0) hx, asBytes_inv _ _ (field_owf _ b fs hb hfs 1) hy⟩,
        asBytes_inv _ _ (field_owf _ b fs hb hfs 2) hz⟩

end Dec
namespace Dec

theorem inv_all : ∀ fuel, BodyInv fuel ∧ PairsInv fuel := by
  intro fuel
  induction fuel with
  | zero =>
    have p := bodyInv_step 0 (fun f hf => by omega)
    exact ⟨p, pairsInv_of_bodyInv 0 p⟩
  | succ n ih =>
    have p := bodyInv_step (n + 1) (fun f hf => by cases hf; exact ih.2)
    exact ⟨p, pairsInv_of_bodyInv _ p⟩

theorem toOption_eq_some {α} {x : D α} {a : α} : x.toOption = some a ↔ x = Except.ok a := by
  cases x <;> simp [Except.toOption]

end Dec

/-- whatever caveat set is read out of a well-formed tree: the tree was an array of exactly twice as
many elements; if every member can be encoded at all, the set is well formed and its canonical
encoding nests at most two levels deeper than the tree it came from -/
theorem cavsOfV_inv (fuel : Nat) (v : V) (cs : List (Cav Bytes)) (hv : WF v = true)
    (h : cavsOfV fuel v = Except.ok cs) :
    (∃ f xs, v = .arr f xs ∧ xs.length = 2 * cs.length) ∧
    ((∀ c ∈ cs, encodable c = true) → WFCavs cs ∧ encDepth cs ≤ depth v + 2) := by
  cases v with
  | arr f xs =>
    rw [cavsOfV] at h
    have hlen := cavPairs_length fuel _ _ h
    rw [length_toList] at hlen
    refine ⟨⟨f, xs, rfl, hlen⟩, ?_⟩
    intro henc
    simp only [WF, Bool.and_eq_true] at hv
    obtain ⟨hws, hdeps⟩ := (inv_all fuel).2 xs.toList cs (depthL xs)
      (fun x hx => ⟨mem_toList_wf xs x hv.2 hx, mem_toList_depth xs x hx⟩) h henc
    have := cntFits_lt _ _ hv.1
    refine ⟨⟨hws, by omega⟩, ?_⟩
    simp only [encDepth, cavsV, depth]
    omega
  | _ => simp [cavsOfV] at h

/-- `decodeCavs` spelled out -/
theorem decodeCavs_eq_some {fuel : Nat} {bs : Bytes} {cs : List (Cav Bytes)}
    (h : decodeCavs fuel bs = some cs) :
    ∃ v rest, dec fuel bs = some (v, rest) ∧ cavsOfV fuel v = Except.ok cs := by
  unfold decodeCavs at h
  cases hd : dec fuel bs with
  | none => rw [hd] at h; cases h
  | some p =>
    obtain ⟨v, rest⟩ := p
    rw [hd] at h
    exact ⟨v, rest, rfl, toOption_eq_some.mp h⟩

/-- one hop canonicalises, further hops are the identity: every accepted byte string decodes to a
well-formed set, and the canonical encoding of that set decodes to the same set.  The canonical
form can nest up to two levels deeper than the accepted bytes (a struct given as `nil` is written
as an array holding a map), hence `fuel + 2`. -/
theorem reencode (fuel : Nat) (bs : Bytes) (cs : List (Cav Bytes))
    (h : decodeCavs fuel bs = some cs) (henc : ∀ c ∈ cs, encodable c = true) :
    WFCavs cs ∧ encDepth cs ≤ fuel + 2 ∧
      ∀ fuel' rest, fuel + 2 ≤ fuel' → decodeCavs fuel' (encCavSet cs ++ rest) = some cs := by
  obtain ⟨v, rest, hd, hc⟩ := decodeCavs_eq_some h
  obtain ⟨_, hv, hdep⟩ := enc_dec fuel bs v rest hd
  obtain ⟨hw, hde⟩ := (cavsOfV_inv fuel v cs hv hc).2 henc
  refine ⟨hw, by omega, ?_⟩
  intro fuel' rest' hf
  exact decode_encode_cavs cs fuel' rest' hw (by omega)

/-- no caveat is dropped or invented: the array header of an accepted byte string declares exactly
two elements per returned caveat -/
theorem decodeCavs_header (fuel : Nat) (bs : Bytes) (cs : List (Cav Bytes))
    (h : decodeCavs fuel bs = some cs) :
    ∃ f xs rest, dec fuel bs = some (.arr f xs, rest) ∧ xs.length = 2 * cs.length ∧
      bs = encLen 0x90 0xdc 0xdc 0xdd f (2 * cs.length) ++ encL xs ++ rest := by
  obtain ⟨v, rest, hd, hc⟩ := decodeCavs_eq_some h
  obtain ⟨e, hv, _⟩ := enc_dec fuel bs v rest hd
  obtain ⟨⟨f, xs, rfl, hlen⟩, _⟩ := cavsOfV_inv fuel v cs hv hc
  refine ⟨f, xs, rest, hd, hlen, ?_⟩
  rw [e, enc, hlen]

/-! ### unregistered caveats pass through byte for byte -/

theorem encBody_unregistered (typ : UInt64) (raw : Bytes) : encBody (.unregistered typ raw) = raw := by
  rw [encBody]

theorem encCav_unregistered (typ : UInt64) (raw : Bytes) :
    encCav (.unregistered typ raw) = 0x92 :: (enc (V.ofUint typ.toNat) ++ raw) := by
  rw [encCav, encBody]; rfl

/-- a pair (any accepted encoding `tv` of an unregistered type number, any acceptable body `v`) at
the head of a pair list decodes to the unregistered caveat holding exactly the bytes of `v` -/
theorem cavPairs_unregistered (fuel t : Nat) (tv v : V) (rest : List V)
    (htv : asUint 64 (some tv) = Except.ok t) (ht : registered t = false)
    (hn : v ≠ .nil) (hg : genericOk v = true) :
    cavPairs fuel (tv :: v :: rest) =
      (cavPairs fuel rest >>= fun cs => pure (.unregistered (UInt64.ofNat t) (enc v) :: cs)) := by
  rw [cavPairs, htv, bind_ok, cavOfV_unregistered fuel t v ht hn hg, bind_ok]

namespace Dec

/-- an optional nonce field: absent and nil give the zero nonce -/
def optNonce : Option V → D Nonce
  | none => pure zeroNonce
  | some .nil => pure zeroNonce
  | some nv => nonceOfV nv

/-- an optional caveat-set field: absent and nil give the empty set -/
def optCavs (fuel : Nat) : Option V → D (List (Cav Bytes))
  | none => pure []
  | some .nil => pure []
  | some cv => cavsOfV fuel cv

theorem macOfV_eq (fuel : Nat) (v : V) : macOfV fuel v = (do
    let fs ← fieldsOf ["Nonce", "Location", "UnsafeCaveats", "Tail"] (some v)
    let nonce ← optNonce (field fs 0)
    let loc ← asBytes (field fs 1)
    let cavs ← optCavs fuel (field fs 2)
    let tail ← asBytes (field fs 3)
    pure { nonce, loc, cavs, tail }) := by
  unfold macOfV
  cases fieldsOf ["Nonce", "Location", "UnsafeCaveats", "Tail"] (some v) with
  | error e => rfl
  | ok fs =>
    simp only [bind_ok]
    cases field fs 2 with
    | none =>
      cases field fs 0 with
      | none => rfl
      | some nv => cases nv <;> rfl
    | some cv =>
      cases cv <;> (cases field fs 0 with
        | none => rfl
        | some nv => cases nv <;> rfl)

theorem ticketOfV_eq (fuel : Nat) (v : V) : ticketOfV fuel v = (do
    let fs ← fieldsOf ["DischargeKey", "Caveats"] (some v)
    let dk ← asBytes (field fs 0)
    let cavs ← optCavs fuel (field fs 1)
    pure (dk, cavs)) := by
  unfold ticketOfV
  cases fieldsOf ["DischargeKey", "Caveats"] (some v) with
  | error e => rfl
  | ok fs =>
    simp only [bind_ok]
    cases asBytes (field fs 0) with
    | error e => rfl
    | ok dk =>
      simp only [bind_ok]
      cases field fs 1 with
      | none => rfl
      | some cv => cases cv <;> rfl

theorem nonceOfV_inv (v : V) (n : Nonce) (hv : WF v = true) (h : nonceOfV v = Except.ok n) :
    WFNonce n = true := by
  cases v with
  | arr f xs =>
    simp only [WF, Bool.and_eq_true] at hv
    rw [nonceOfV] at h
    split at h
    · rename_i k r heq
      obtain ⟨kid, hk, h⟩ := bind_eq_ok.mp h
      obtain ⟨rnd, hr, h⟩ := bind_eq_ok.mp h
      simp only [pure_eq, Except.ok.injEq] at h
      subst h
      have wk := mem_toList_wf xs k hv.2 (by rw [heq]; simp)
      have wr := mem_toList_wf xs r hv.2 (by rw [heq]; simp)
      have := asBytes_inv _ _ (owf_some wk) hk
      have := asBytes_inv _ _ (owf_some wr) hr
      simp [WFNonce, lenOk, *]
    · rename_i k r p heq
      obtain ⟨kid, hk, h⟩ := bind_eq_ok.mp h
      obtain ⟨rnd, hr, h⟩ := bind_eq_ok.mp h
      obtain ⟨pr, _, h⟩ := bind_eq_ok.mp h
      simp only [pure_eq, Except.ok.injEq] at h
      subst h
      have wk := mem_toList_wf xs k hv.2 (by rw [heq]; simp)
      have wr := mem_toList_wf xs r hv.2 (by rw [heq]; simp)
      have := asBytes_inv _ _ (owf_some wk) hk
      have := asBytes_inv _ _ (owf_some wr) hr
      simp [WFNonce, lenOk, *]
    · cases h
  | _ => simp [nonceOfV] at h

theorem optNonce_inv (ov : Option V) (n : Nonce) (hv : OWF ov) (h : optNonce ov = Except.ok n) :
    WFNonce n = true := by
  unfold optNonce at h
  split at h
  · simp only [pure_eq, Except.ok.injEq] at h; subst h; decide
  · simp only [pure_eq, Except.ok.injEq] at h; subst h; decide
  · exact nonceOfV_inv _ n (hv _ rfl) h

end Dec

theorem optCavs_inv (fuel : Nat) (ov : Option V) (cs : List (Cav Bytes)) (n : Nat)
    (hv : ∀ v, ov = some v → WF v = true ∧ depth v < n)
    (h : optCavs fuel ov = Except.ok cs) (henc : ∀ c ∈ cs, encodable c = true) :
    WFCavs cs ∧ encDepth cs ≤ n + 1 := by
  have hnil : WFCavs [] ∧ encDepth [] ≤ n + 1 :=
    ⟨⟨by simp, by simp⟩, by simp [encDepth, cavsV, CavList.ofList, pairsVL, depth, depthL]⟩
  unfold optCavs at h
  split at h
  · simp only [pure_eq, Except.ok.injEq] at h; subst h; exact hnil
  · simp only [pure_eq, Except.ok.injEq] at h; subst h; exact hnil
  · rename_i cv _
    obtain ⟨hw, hd⟩ := hv cv rfl
    obtain ⟨h1, h2⟩ := (cavsOfV_inv fuel cv cs hw h).2 henc
    exact ⟨h1, by omega⟩

theorem macOfV_inv (fuel : Nat) (v : V) (m : WireMac) (hv : WF v = true)
    (h : macOfV fuel v = Except.ok m) (henc : ∀ c ∈ m.cavs, encodable c = true) :
    WFMac m ∧ encDepth m.cavs ≤ depth v + 1 := by
  rw [macOfV_eq] at h
  obtain ⟨fs, hfs, h⟩ := bind_eq_ok.mp h
  obtain ⟨nonce, hn, h⟩ := bind_eq_ok.mp h
  obtain ⟨loc, hl, h⟩ := bind_eq_ok.mp h
  obtain ⟨cavs, hc, h⟩ := bind_eq_ok.mp h
  obtain ⟨tail, ht, h⟩ := bind_eq_ok.mp h
  simp only [pure_eq, Except.ok.injEq] at h
  subst h
  have ho := field_owf _ v fs hv hfs
  obtain ⟨h1, h2⟩ := optCavs_inv fuel _ cavs (depth v) (fun w hw => field_wf _ v fs hv hfs 2 w hw) hc henc
  exact ⟨⟨optNonce_inv _ _ (ho 0) hn, asBytes_inv _ _ (ho 1) hl, h1, asBytes_inv _ _ (ho 3) ht⟩, h2⟩

theorem ticketOfV_inv (fuel : Nat) (v : V) (dk : Bytes) (cs : List (Cav Bytes)) (hv : WF v = true)
    (h : ticketOfV fuel v = Except.ok (dk, cs)) (henc : ∀ c ∈ cs, encodable c = true) :
    dk.length < 2 ^ 32 ∧ WFCavs cs ∧ encDepth cs ≤ depth v + 1 := by
  rw [ticketOfV_eq] at h
  obtain ⟨fs, hfs, h⟩ := bind_eq_ok.mp h
  obtain ⟨dk', hk, h⟩ := bind_eq_ok.mp h
  obtain ⟨cavs, hc, h⟩ := bind_eq_ok.mp h
  simp only [pure_eq, Except.ok.injEq, Prod.mk.injEq] at h
  obtain ⟨rfl, rfl⟩ := h
  have ho := field_owf _ v fs hv hfs
  obtain ⟨h1, h2⟩ := optCavs_inv fuel _ _ (depth v) (fun w hw => field_wf _ v fs hv hfs 1 w hw) hc henc
  exact ⟨asBytes_inv _ _ (ho 0) hk, h1, h2⟩

/-- the token-level fixed point: every accepted token re-encodes canonically to bytes that decode
to the same token -/
theorem reencode_mac (fuel : Nat) (bs : Bytes) (m : WireMac) (h : decodeMac fuel bs = some m)
    (henc : ∀ c ∈ m.cavs, encodable c = true) :
    WFMac m ∧ ∀ fuel' rest, fuel + 2 ≤ fuel' → decodeMac fuel' (encMac m ++ rest) = some m := by
  unfold decodeMac at h
  cases hd : dec fuel bs with
  | none => rw [hd] at h; cases h
  | some p =>
    obtain ⟨v, rest⟩ := p
    rw [hd] at h
    obtain ⟨_, hv, hdep⟩ := enc_dec fuel bs v rest hd
    obtain ⟨hw, hde⟩ := macOfV_inv fuel v m hv (toOption_eq_some.mp h) henc
    refine ⟨hw, ?_⟩
    intro fuel' rest' hf
    exact decode_encode_mac m fuel' rest' hw (by omega)

theorem reencode_ticket (fuel : Nat) (bs dk : Bytes) (cs : List (Cav Bytes))
    (h : decodeTicket fuel bs = some (dk, cs)) (henc : ∀ c ∈ cs, encodable c = true) :
    dk.length < 2 ^ 32 ∧ WFCavs cs ∧
      ∀ fuel' rest, fuel + 2 ≤ fuel' → decodeTicket fuel' (encTicket dk cs ++ rest) = some (dk, cs) := by
  unfold decodeTicket at h
  cases hd : dec fuel bs with
  | none => rw [hd] at h; cases h
  | some p =>
    obtain ⟨v, rest⟩ := p
    rw [hd] at h
    obtain ⟨_, hv, hdep⟩ := enc_dec fuel bs v rest hd
    obtain ⟨hk, hw, hde⟩ := ticketOfV_inv fuel v dk cs hv (toOption_eq_some.mp h) henc
    refine ⟨hk, hw, ?_⟩
    intro fuel' rest' hf
    exact decode_encode_ticket dk cs fuel' rest' hk hw (by omega)

/-! ### the well-formedness conditions, spelled out -/

/-- map-canonical form is: keys strictly increasing in the encoder's order (hence unique) -/
theorem strSetOk_iff (rs : ResSet Bytes) : strSetOk rs = true ↔
    Sorted Bytes.lt rs ∧ rs.length < 2 ^ 32 ∧ ∀ e ∈ rs, e.1.length < 2 ^ 32 := by
  simp only [strSetOk, Bool.and_eq_true, decide_eq_true_eq, List.all_eq_true, ofEntriesStr_fix_iff,
    and_assoc]

theorem u64SetOk_iff (rs : ResSet UInt64) : u64SetOk rs = true ↔
    Sorted (fun a b => decide (a < b)) rs ∧ rs.length < 2 ^ 32 := by
  simp only [u64SetOk, Bool.and_eq_true, decide_eq_true_eq, ofEntriesU64_fix_iff]

/-- an unregistered caveat is well formed iff its type number is not a registered one and its raw
body is the exact encoding of one well-formed, non-nil value the untyped decoder accepts -/
theorem wfCav_unregistered_iff (typ : UInt64) (raw : Bytes) :
    WFCav (.unregistered typ raw) = true ↔
      registered typ.toNat = false ∧
      ∃ v, raw = enc v ∧ WF v = true ∧ v ≠ .nil ∧ genericOk v = true := by
  simp only [WFCav, Bool.and_eq_true, Bool.not_eq_true']
  constructor
  · rintro ⟨h1, h2⟩
    exact ⟨h1, rawV raw, rawOk_spec raw h2⟩
  · rintro ⟨h1, v, rfl, hw, hn, hg⟩
    exact ⟨h1, (rawOk_enc v hw hn hg).1⟩

/-- a wrapper is well formed iff a nil `Ifs` holds nothing, the pair count fits the array header,
and every wrapped caveat is well formed -/
theorem wfCav_ifPresent_iff (n : Bool) (ifs : CavList Bytes) (els : Action) :
    WFCav (.ifPresent n ifs els) = true ↔
      (n = true → ifs = .nil) ∧ 2 * ifs.length < 2 ^ 32 ∧ ∀ c ∈ ifs.toList, WFCav c = true := by
  have : WFCavL ifs = true ↔ ∀ c ∈ ifs.toList, WFCav c = true := by
    rw [← wfCavL_ofList, CavList.ofList_toList]
  simp only [WFCav, Bool.and_eq_true, decide_eq_true_eq, this, and_assoc]
  constructor
  · rintro ⟨h1, h2, h3⟩
    refine ⟨?_, h2, h3⟩
    intro hn; subst hn
    cases ifs with
    | nil => rfl
    | cons _ _ => simp at h1
  · rintro ⟨h1, h2, h3⟩
    refine ⟨?_, h2, h3⟩
    cases n with
    | false => rfl
    | true => rw [h1 rfl]; rfl

/-! ### how deep the canonical encoding nests, in terms of the nesting of wrappers -/

mutual
/-- no unregistered caveat at any nesting level (their bodies nest arbitrarily) -/
def noUnreg : Cav Bytes → Bool
  | .unregistered .. => false
  | .ifPresent _ ifs _ => noUnregL ifs
  | _ => true
def noUnregL : CavList Bytes → Bool
  | .nil => true
  | .cons c cs => noUnreg c && noUnregL cs
end

theorem depth_upper : (∀ c : Cav Bytes, noUnreg c = true → depth (bodyV c) ≤ 2 * cavDepth c + 3) ∧
    (∀ cs : CavList Bytes, noUnregL cs = true → depthL (pairsVL cs) ≤ 2 * cavDepthL cs + 3) := by
  apply cav_induction
  · intro c hl h
    cases hs : smallKind c with
    | true => have := depth_small c hs; omega
    | false =>
      cases c
      case ifPresent => simp [Cav.isWrapper] at hl
      case unregistered => simp [noUnreg] at h
      case commands cs =>
        cases cs with
        | none => simp [smallKind] at hs
        | some cs => have := depth_commands cs; omega
      all_goals simp [smallKind] at hs
  · intro n ifs els ih h
    simp only [noUnreg] at h
    have := ih h
    simp only [bodyV, cavDepth, depth, depthL, depth_ofUint]
    cases n with
    | true => simp only [↓reduceIte, depth]; omega
    | false => simp only [Bool.false_eq_true, ↓reduceIte, depth]; omega
  · intro _; simp [pairsVL, depthL]
  · intro c cs ihc ihcs h
    simp only [noUnregL, Bool.and_eq_true] at h
    have := ihc h.1
    have := ihcs h.2
    simp only [pairsVL, depthL, cavDepthL, depth_ofUint]
    omega

/-- without unregistered caveats the encoding of a set nests at most `2·(wrapper nesting) + 4` deep -/
theorem encDepth_le (cs : List (Cav Bytes)) (h : noUnregL (CavList.ofList cs) = true) :
    encDepth cs ≤ 2 * cavDepthL (CavList.ofList cs) + 4 := by
  have := depth_upper.2 _ h
  simp only [encDepth, cavsV, depth]
  omega

/-- and always at least `1 +` the wrapper nesting -/
theorem cavDepthL_lt_encDepth (cs : List (Cav Bytes)) (h : WFCavs cs) :
    cavDepthL (CavList.ofList cs) < encDepth cs := by
  have := cavDepthL_le _ h.wfl
  simp only [encDepth, cavsV, depth]
  omega

/-- the whole round trip of one unregistered caveat, at the byte level -/
theorem decodeCavs_unregistered (typ : UInt64) (v : V) (fuel : Nat) (rest : Bytes)
    (ht : registered typ.toNat = false) (hw : WF v = true) (hn : v ≠ .nil) (hg : genericOk v = true)
    (hd : depth v < fuel) :
    decodeCavs fuel (encCav (.unregistered typ (enc v)) ++ rest) = some [.unregistered typ (enc v)] := by
  have hwf : WFCav (.unregistered typ (enc v)) = true :=
    (wfCav_unregistered_iff typ (enc v)).mpr ⟨ht, v, rfl, hw, hn, hg⟩
  rw [encCav_eq_set]
  apply decode_encode_cavs _ fuel rest ⟨by simpa using hwf, by simp⟩
  simp only [encDepth, CavList.ofList, cavsV, pairsVL, depth, depthL, bodyV, (rawOk_enc v hw hn hg).2,
    depth_ofUint]
  omega

end Macaroon
