/-
Composition of the codec with verification (C11: "what is signed is what is cleared"), and the
type numbers of decoded caveats.
-/
import Macaroon.Lemmas.Codec
import Macaroon.Lemmas.Token
import Macaroon.Token.Concrete

namespace Macaroon.Lemmas
open Macaroon Macaroon.Msgpack Macaroon.Codec Macaroon.Dec Macaroon.Concrete

/-- the MAC chain of the concrete instance, spelled out: HMAC-SHA256 keyed by the running tail over
the canonical encoding of each caveat in turn -/
def macChain (t : Bytes) (cs : List (Cav Bytes)) : Bytes := cs.foldl (fun t c => hmac t (encCav c)) t

theorem chain_concrete (t : Bytes) (cs : List (Cav Bytes)) (t' : Bytes) (h : chain t cs = some t') :
    (∀ c ∈ cs, encodable c = true) ∧ t' = macChain t cs := by
  induction cs generalizing t with
  | nil => simp only [chain, Option.some.injEq] at h; subst h; exact ⟨by simp, rfl⟩
  | cons c cs ih =>
    simp only [chain, Crypto.macCav] at h
    by_cases he : encodable c = true
    · simp only [he, if_true, Option.bind_some] at h
      obtain ⟨h1, h2⟩ := ih _ h
      refine ⟨?_, by simpa [macChain] using h2⟩
      intro x hx
      rcases List.mem_cons.mp hx with rfl | hx
      · exact he
      · exact h1 x hx
    · simp [he] at h

theorem toWire_ofWire (w : WireMac) : toWire (ofWire w) = w := rfl

/-- **what is signed is what is cleared**, on bytes.  For ANY byte string `bs` that `Decode` accepts
(canonical or not) and that verifies under `k` with any discharges:
1. every caveat of the decoded token is well formed, and the tail the verifier recomputed — and found
   equal to the presented one — is the HMAC chain over the CANONICAL encodings `encCav c` of exactly
   the decoded caveats, in order (finalised for a proof);
2. the caveats handed to clearing are those decoded caveats (third-party and binding caveats are
   checked, not returned) followed by caveats of presented discharges;
3. the canonical re-encoding of the token decodes to the very same token (budget `+2`, see
   `reencode_fixed_point`), so a holder who re-encodes MACs the same bytes as the verifier did. -/
theorem signed_is_cleared_bytes (k bs : Bytes) (ds : List Bytes) (tr : Bytes → List Bytes) (m : Mac Bytes)
    (cs : List (Cav Bytes)) (hd : Concrete.decode bs = some m) (hv : verifyBytes k m ds tr = .ok cs) :
    ((∀ c ∈ m.cavs, WFCav c = true) ∧
      finIf m.nonce.proof (macChain (hmac k (encNonce (toNonce m.nonce))) m.cavs) = m.tail) ∧
    (∃ dcs, cs = m.cavs.filter (kept true) ++ dcs ∧ ∀ c ∈ dcs, ∃ d ∈ ds.filterMap Concrete.decode, c ∈ d.cavs) ∧
    (WFMac (toWire m) ∧
      ∀ fuel' rest, defaultFuel + 2 ≤ fuel' → decodeMac fuel' (encMac (toWire m) ++ rest) = some (toWire m)) := by
  unfold verifyBytes verify at hv
  obtain ⟨_, _, t, hc, he, css, hm, rfl⟩ := (verifyWith_ok_iff k m _ [] true tr cs).mp hv
  obtain ⟨henc, ht⟩ := chain_concrete _ _ _ hc
  simp only [Concrete.decode, Option.map_eq_some_iff] at hd
  obtain ⟨w, hw, rfl⟩ := hd
  have hre := reencode_mac defaultFuel bs w hw henc
  have hteq : finIf (ofWire w).nonce.proof t = (ofWire w).tail := by
    have : (finIf (ofWire w).nonce.proof t == (ofWire w).tail) = true := he
    exact eq_of_beq this
  refine ⟨⟨hre.1.cavs.1, ?_⟩, ⟨css.flatten, rfl, ?_⟩, hre⟩
  · have ht' : t = macChain (hmac k (encNonce (toNonce (ofWire w).nonce))) (ofWire w).cavs := ht
    rw [← ht']; exact hteq
  · intro c hcm
    obtain ⟨r, hr, hcr⟩ := List.mem_flatten.mp hcm
    obtain ⟨p, hp, hf⟩ := mapM_mem_out _ _ css hm r hr
    obtain ⟨pre, d, post, hds, _, tt, _, hvf⟩ := (firstDischarge_some_iff _ _ _ _ _ _).mp hf
    obtain ⟨_, _, _, _, _, hrd⟩ := (verifyFlat_ok_iff _ _ _ _ _).mp hvf
    obtain ⟨loc, vk, ticket, hmem, hb⟩ := mem_pendOf _ _ _ p hp
    have hdm : d ∈ p.ds := by rw [hds]; simp
    obtain ⟨hdm', _⟩ := (mem_byTicket _ ticket p.ds hb).2 d hdm
    refine ⟨d, hdm', ?_⟩
    rw [hrd] at hcr
    exact (List.mem_filter.mp hcr).1


/-! ### type numbers survive decoding -/

def HasTyp (n : UInt64) (r : D (Cav Bytes)) : Prop := ∀ c, r = .ok c → c.typ = n
theorem hasTyp_pure {n : UInt64} {x : Cav Bytes} (h : x.typ = n) : HasTyp n (pure x) := by
  intro c hc; cases hc; exact h
theorem hasTyp_bind {α} {n : UInt64} (x : D α) (f : α → D (Cav Bytes)) (h : ∀ a, HasTyp n (f a)) : HasTyp n (x >>= f) := by
  intro c hc
  cases x with
  | error e => cases hc
  | ok a => exact h a c hc
theorem hasTyp_fail {n : UInt64} : HasTyp n (fail : D (Cav Bytes)) := by
  intro c hc; cases hc

theorem cavOfV_typ_reg (fuel t : Nat) (v : V) (ht : registered t = true) : HasTyp (UInt64.ofNat t) (cavOfV fuel t v) := by
  unfold cavOfV
  split
  all_goals try simp only [strSetCav, u64Struct]
  all_goals try (repeat (first | exact hasTyp_fail | (apply hasTyp_pure; rfl) | (apply hasTyp_bind; intro _)))
  · -- IfPresent
    split
    · exact hasTyp_fail
    · apply hasTyp_bind; intro fs
      apply hasTyp_bind; intro els
      split
      · apply hasTyp_pure; rfl
      · apply hasTyp_pure; rfl
      · apply hasTyp_bind; intro cs
        apply hasTyp_pure; rfl
  · -- Commands
    split
    · apply hasTyp_pure; rfl
    · apply hasTyp_bind; intro cs
      apply hasTyp_pure; rfl
    · exact hasTyp_fail
  · exfalso
    rename_i _ h0 h1 h2 h3 h4 h5 h6 h7 h8 h9 h10 h11 h12 h13 h14 h15 h16 h17 h18 h19 h20 h21 h22 h23 h24 h25 h26 h27 h28
    have g0 : ¬ _ := h0
    have g1 : ¬ _ := h1
    have g2 : ¬ _ := h2
    have g3 : ¬ _ := h3
    have g4 : ¬ _ := h4
    have g5 : ¬ _ := h5
    have g6 : ¬ _ := h6
    have g7 : ¬ _ := h7
    have g8 : ¬ _ := h8
    have g9 : ¬ _ := h9
    have g10 : ¬ _ := h10
    have g11 : ¬ _ := h11
    have g12 : ¬ _ := h12
    have g13 : ¬ _ := h13
    have g14 : ¬ _ := h14
    have g15 : ¬ _ := h15
    have g16 : ¬ _ := h16
    have g17 : ¬ _ := h17
    have g18 : ¬ _ := h18
    have g19 : ¬ _ := h19
    have g20 : ¬ _ := h20
    have g21 : ¬ _ := h21
    have g22 : ¬ _ := h22
    have g23 : ¬ _ := h23
    have g24 : ¬ _ := h24
    have g25 : ¬ _ := h25
    have g26 : ¬ _ := h26
    have g27 : ¬ _ := h27
    have g28 : ¬ _ := h28
    simp only [registered, Bool.or_eq_true, Bool.and_eq_true, beq_iff_eq, decide_eq_true_eq] at ht
    omega

/-- **the type number of a decoded caveat is the type number on the wire**: under a registered
number the caveat of that kind; under any other number the unregistered caveat carrying that number
and the body bytes — except that a `nil` body under an unregistered number zeroes the whole value
(the library's behaviour: type 0, no raw bytes), a value that can be neither encoded nor cleared -/
theorem cavOfV_typ (fuel t : Nat) (v : V) (c : Cav Bytes) (h : cavOfV fuel t v = .ok c) :
    (registered t = true ∧ c.typ = UInt64.ofNat t) ∨
    (registered t = false ∧ v ≠ .nil ∧ genericOk v = true ∧ c = .unregistered (UInt64.ofNat t) (enc v)) ∨
    (registered t = false ∧ v = .nil ∧ c = .unregistered 0 []) := by
  cases ht : registered t with
  | true => exact Or.inl ⟨rfl, cavOfV_typ_reg fuel t v ht c h⟩
  | false =>
    right
    by_cases hn : v = .nil
    · right
      subst hn
      refine ⟨rfl, rfl, ?_⟩
      rw [cavOfV.eq_def] at h
      dsimp only at h
      split at h
      all_goals try (exact absurd ht (by decide))
      simp only [pure, Except.pure, Except.ok.injEq] at h
      exact h.symm
    · left
      cases hg : genericOk v with
      | true =>
        rw [cavOfV_unregistered fuel t v ht hn hg] at h
        exact ⟨rfl, hn, rfl, (Except.ok.inj h).symm⟩
      | false =>
        exfalso
        rw [cavOfV.eq_def] at h
        dsimp only at h
        split at h
        all_goals try (exact absurd ht (by decide))
        split at h
        · exact hn rfl
        · simp [hg, fail] at h

/-- how one (type, body) pair of the wire relates to the caveat decoded from it -/
def TypKept (c : Cav Bytes) (tb : Nat × V) : Prop :=
  (registered tb.1 = true ∧ c.typ = UInt64.ofNat tb.1) ∨
  (registered tb.1 = false ∧ tb.2 ≠ .nil ∧ c = .unregistered (UInt64.ofNat tb.1) (enc tb.2)) ∨
  (registered tb.1 = false ∧ tb.2 = .nil ∧ c = .unregistered 0 [])

/-- the (type number, body) pairs of a caveat-set array: elements alternate, the type read as a
`uint64` from any integer encoding -/
def wirePairs : List V → Option (List (Nat × V))
  | [] => some []
  | [_] => none
  | t :: b :: rest =>
    match asUint 64 (some t), wirePairs rest with
    | .ok n, some ps => some ((n, b) :: ps)
    | _, _ => none

/-- pairwise `TypKept`, position by position -/
inductive AllKept : List (Cav Bytes) → List (Nat × V) → Prop
  | nil : AllKept [] []
  | cons {c p cs ps} : TypKept c p → AllKept cs ps → AllKept (c :: cs) (p :: ps)

theorem AllKept.length_eq {cs : List (Cav Bytes)} {ps : List (Nat × V)} (h : AllKept cs ps) : cs.length = ps.length := by
  induction h with
  | nil => rfl
  | cons _ _ ih => simp [ih]

theorem AllKept.get {cs : List (Cav Bytes)} {ps : List (Nat × V)} (h : AllKept cs ps) (i : Nat) (c : Cav Bytes)
    (hc : cs[i]? = some c) : ∃ p, ps[i]? = some p ∧ TypKept c p := by
  induction h generalizing i with
  | nil => simp at hc
  | cons hk _ ih =>
    cases i with
    | zero => simp only [List.getElem?_cons_zero, Option.some.injEq] at hc; subst hc; exact ⟨_, rfl, hk⟩
    | succ i => simpa using ih i (by simpa using hc)

theorem cavPairs_types (fuel : Nat) : ∀ (xs : List V) (cs : List (Cav Bytes)), cavPairs fuel xs = .ok cs →
    ∃ ps, wirePairs xs = some ps ∧ AllKept cs ps
  | [], cs, h => by
    simp only [cavPairs, pure, Except.pure, Except.ok.injEq] at h
    subst h
    exact ⟨[], rfl, .nil⟩
  | [_], cs, h => by simp [cavPairs, fail] at h
  | t :: b :: rest, cs, h => by
    rw [cavPairs] at h
    cases ht : asUint 64 (some t) with
    | error e => rw [ht] at h; cases h
    | ok n =>
      rw [ht, bind_ok] at h
      cases hc : cavOfV fuel n b with
      | error e => rw [hc] at h; cases h
      | ok c =>
        rw [hc, bind_ok] at h
        cases hr : cavPairs fuel rest with
        | error e => rw [hr] at h; cases h
        | ok cs' =>
          rw [hr, bind_ok] at h
          simp only [pure, Except.pure, Except.ok.injEq] at h
          subst h
          obtain ⟨ps, hps, hf⟩ := cavPairs_types fuel rest cs' hr
          refine ⟨(n, b) :: ps, by simp [wirePairs, ht, hps], .cons ?_ hf⟩
          rcases cavOfV_typ fuel n b c hc with h1 | ⟨h1, h2, _, h3⟩ | h1
          · exact Or.inl h1
          · exact Or.inr (Or.inl ⟨h1, h2, h3⟩)
          · exact Or.inr (Or.inr h1)

/-- **no caveat is dropped, invented or retyped**: an accepted byte string is an array whose
elements pair up as (type number, body), one pair per returned caveat, in order, and every returned
caveat has the type number of its pair (`TypKept`) -/
theorem decodeCavs_types (fuel : Nat) (bs : Bytes) (cs : List (Cav Bytes)) (h : decodeCavs fuel bs = some cs) :
    ∃ f xs rest ps, dec fuel bs = some (.arr f xs, rest) ∧ wirePairs xs.toList = some ps ∧
      AllKept cs ps := by
  obtain ⟨v, rest, hd, hc⟩ := decodeCavs_eq_some h
  cases v with
  | arr f xs =>
    rw [cavsOfV] at hc
    obtain ⟨ps, hps, hf⟩ := cavPairs_types fuel _ _ hc
    exact ⟨f, xs, rest, ps, hd, hps, hf⟩
  | _ => simp [cavsOfV, fail] at hc

end Macaroon.Lemmas
