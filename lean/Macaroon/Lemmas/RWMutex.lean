/-
Deadlock freedom and race freedom of flat lock programs over the `sync.RWMutex` model of
`Macaroon.Conc.RWMutex`, for any number of threads and any (unbounded) schedule.
-/
import Macaroon.Conc.RWMutex

namespace Macaroon.Conc

/-! ### List bookkeeping -/

theorem countP_set_add {α} (p : α → Bool) (l : List α) (i : Nat) (a b : α)
    (h : l[i]? = some a) :
    (l.set i b).countP p + (if p a then 1 else 0) = l.countP p + (if p b then 1 else 0) := by
  induction l generalizing i with
  | nil => simp at h
  | cons x xs ih =>
    cases i with
    | zero =>
      simp at h; subst h
      simp [List.countP_cons]; omega
    | succ i =>
      simp at h
      have := ih i h
      simp [List.countP_cons]; omega

theorem sum_set_add {α} (f : α → Nat) (l : List α) (i : Nat) (a b : α)
    (h : l[i]? = some a) :
    ((l.set i b).map f).sum + f a = (l.map f).sum + f b := by
  induction l generalizing i with
  | nil => simp at h
  | cons x xs ih =>
    cases i with
    | zero => simp at h; subst h; simp; omega
    | succ i =>
      simp at h; have := ih i h
      simp only [List.set_cons_succ, List.map_cons, List.sum_cons]; omega

theorem exists_of_countP_pos {α} (p : α → Bool) (l : List α) (h : 0 < l.countP p) :
    ∃ (i : Nat) (a : α), l[i]? = some a ∧ p a = true := by
  obtain ⟨a, ha, hp⟩ := List.countP_pos_iff.mp h
  obtain ⟨i, hi⟩ := List.mem_iff_getElem?.mp ha
  exact ⟨i, a, hi, hp⟩

theorem not_of_countP_zero {α} (p : α → Bool) (l : List α) (h : l.countP p = 0)
    (i : Nat) (a : α) (hi : l[i]? = some a) : p a = false := by
  have := List.countP_eq_zero.mp h a (List.mem_of_getElem? hi)
  simpa using this

/-- If at most one element satisfies `p`, and position `i` does, then no other position does
(`d` is any element not satisfying `p`). -/
theorem unique_of_countP_le_one {α} (p : α → Bool) (l : List α) (h : l.countP p ≤ 1)
    (d : α) (hd : p d = false)
    (i j : Nat) (a b : α) (hi : l[i]? = some a) (hj : l[j]? = some b) (hij : i ≠ j)
    (ha : p a = true) : p b = false := by
  have h1 := countP_set_add p l i a d hi
  simp [ha, hd] at h1
  have hj' : (l.set i d)[j]? = some b := by
    rw [List.getElem?_set_ne hij]; exact hj
  exact not_of_countP_zero p (l.set i d) (by omega) j b hj'

/-! ### Modes and the invariant -/

/-- The mode a thread is in, read off its remaining program: the first lock operation
decides (a pending `runlock` means "inside a read section", a pending `unlock` "inside a
write section"). -/
def modeOf : List Ev → Mode
  | [] => .idle
  | .rlock :: _ => .idle
  | .lock :: _ => .idle
  | .runlock :: _ => .rd
  | .unlock :: _ => .wr
  | .read :: r => modeOf r
  | .write :: r => modeOf r
  | .callout :: r => modeOf r

/-- A program is flat from at most one mode, namely `modeOf`. -/
theorem modeOf_of_flatFrom (m : Mode) (p : List Ev) (h : FlatFrom m p = true) :
    modeOf p = m := by
  induction p generalizing m with
  | nil => cases m <;> simp [FlatFrom, modeOf] at *
  | cons e r ih =>
    cases m <;> cases e <;> simp [FlatFrom, modeOf] at * <;> exact ih _ h

def Thread.inRd (t : Thread) : Bool := modeOf t.prog == .rd
def Thread.inWr (t : Thread) : Bool := modeOf t.prog == .wr

/-- Per-thread part of the invariant. -/
structure ThreadOK (t : Thread) : Prop where
  flat : FlatFrom (modeOf t.prog) t.prog = true
  ann : t.announced = true → ∃ r, t.prog = .lock :: r

/-- Invariant of all configurations reachable from flat programs. -/
structure Inv (c : Config) : Prop where
  ok : ∀ t ∈ c.threads, ThreadOK t
  rd : c.readers = c.threads.countP Thread.inRd
  wr : (if c.writer then 1 else 0) = c.threads.countP Thread.inWr
  excl : c.writer = true → c.readers = 0

theorem inv_init (progs : List (List Ev)) (h : ∀ p ∈ progs, Flat p = true) :
    Inv (init progs) := by
  have hm : ∀ p ∈ progs, modeOf p = .idle := fun p hp => modeOf_of_flatFrom _ _ (h p hp)
  refine ⟨?_, ?_, ?_, ?_⟩
  · intro t ht
    simp only [init, List.mem_map] at ht
    obtain ⟨p, hp, rfl⟩ := ht
    exact ⟨by simpa [hm p hp, Flat] using h p hp, by simp⟩
  · simp only [init]
    symm; apply List.countP_eq_zero.mpr
    intro t ht
    simp only [List.mem_map] at ht
    obtain ⟨p, hp, rfl⟩ := ht
    simp [Thread.inRd, hm p hp]
  · simp only [init]
    symm; apply List.countP_eq_zero.mpr
    intro t ht
    simp only [List.mem_map] at ht
    obtain ⟨p, hp, rfl⟩ := ht
    simp [Thread.inWr, hm p hp]
  · simp [init]

/-- Replacing thread `i` and the counters consistently preserves the invariant. -/
theorem inv_set (c : Config) (h : Inv c) (i : Nat) (t t' : Thread) (rd : Nat) (wr : Bool)
    (hi : c.threads[i]? = some t) (hok : ThreadOK t')
    (hrd : rd + (if t.inRd then 1 else 0) = c.readers + (if t'.inRd then 1 else 0))
    (hwr : (if wr then 1 else 0) + (if t.inWr then 1 else 0)
            = (if c.writer then 1 else 0) + (if t'.inWr then 1 else 0))
    (hex : wr = true → rd = 0) :
    Inv { threads := c.threads.set i t', readers := rd, writer := wr } := by
  refine ⟨?_, ?_, ?_, hex⟩
  · intro x hx
    rcases List.mem_or_eq_of_mem_set hx with hx | rfl
    · exact h.ok x hx
    · exact hok
  · have := countP_set_add Thread.inRd c.threads i t t' hi
    have := h.rd
    simp only; omega
  · have := countP_set_add Thread.inWr c.threads i t t' hi
    have := h.wr
    simp only; omega

/-- Threads inside a section exist only if the counters say so. -/
theorem Inv.inRd_pos {c : Config} (h : Inv c) {i : Nat} {t : Thread}
    (hi : c.threads[i]? = some t) (ht : t.inRd = true) : 0 < c.readers := by
  rw [h.rd]
  exact List.countP_pos_iff.mpr ⟨t, List.mem_of_getElem? hi, ht⟩

theorem Inv.inWr_writer {c : Config} (h : Inv c) {i : Nat} {t : Thread}
    (hi : c.threads[i]? = some t) (ht : t.inWr = true) : c.writer = true := by
  have : 0 < c.threads.countP Thread.inWr :=
    List.countP_pos_iff.mpr ⟨t, List.mem_of_getElem? hi, ht⟩
  have hwr := h.wr
  cases hw : c.writer with
  | true => rfl
  | false => rw [hw] at hwr; simp at hwr; omega

/-- One step preserves the invariant. -/
theorem inv_step (c : Config) (i : Nat) (h : Inv c) : Inv (step c i) := by
  unfold step
  split
  · exact h
  · rename_i t hi
    split
    · exact h
    · rename_i t' rd wr hn
      have hok := h.ok t (List.mem_of_getElem? hi)
      obtain ⟨ann, prog⟩ := t
      have hflat := hok.flat
      have hann := hok.ann
      simp only at hflat hann
      cases prog with
      | nil => simp [next] at hn
      | cons e r =>
        cases e with
        | rlock =>
          simp only [next] at hn
          split at hn
          · rename_i hcond
            simp only [Option.some.injEq, Prod.mk.injEq] at hn
            obtain ⟨rfl, rfl, rfl⟩ := hn
            simp only [modeOf, FlatFrom] at hflat
            have hm := modeOf_of_flatFrom _ _ hflat
            have hw : c.writer = false := by simp at hcond; exact hcond.1
            apply inv_set c h i _ _ _ _ hi
            · exact ⟨by simpa [hm] using hflat, by simp⟩
            · simp [Thread.inRd, modeOf, hm]
            · simp [Thread.inWr, modeOf, hm]
            · simp [hw]
          · simp at hn
        | runlock =>
          simp only [next, Option.some.injEq, Prod.mk.injEq] at hn
          obtain ⟨rfl, rfl, rfl⟩ := hn
          simp only [modeOf, FlatFrom] at hflat
          have hm := modeOf_of_flatFrom _ _ hflat
          have hpos := h.inRd_pos hi (by simp [Thread.inRd, modeOf])
          apply inv_set c h i _ _ _ _ hi
          · exact ⟨by simpa [hm] using hflat, by simp⟩
          · simp [Thread.inRd, modeOf, hm]; omega
          · simp [Thread.inWr, modeOf, hm]
          · intro hw; have := h.excl hw; omega
        | lock =>
          simp only [next] at hn
          simp only [modeOf, FlatFrom] at hflat
          have hm := modeOf_of_flatFrom _ _ hflat
          split at hn
          · split at hn
            · rename_i hcond
              simp only [Option.some.injEq, Prod.mk.injEq] at hn
              obtain ⟨rfl, rfl, rfl⟩ := hn
              simp at hcond
              apply inv_set c h i _ _ _ _ hi
              · exact ⟨by simpa [hm] using hflat, by simp⟩
              · simp [Thread.inRd, modeOf, hm]
              · simp [Thread.inWr, modeOf, hm, hcond.2]
              · intro _; exact hcond.1
            · simp at hn
          · simp only [Option.some.injEq, Prod.mk.injEq] at hn
            obtain ⟨rfl, rfl, rfl⟩ := hn
            apply inv_set c h i _ _ _ _ hi
            · exact ⟨by simpa [modeOf, FlatFrom] using hflat, fun _ => ⟨r, rfl⟩⟩
            · simp [Thread.inRd, modeOf]
            · simp [Thread.inWr, modeOf]
            · exact h.excl
        | unlock =>
          simp only [next, Option.some.injEq, Prod.mk.injEq] at hn
          obtain ⟨rfl, rfl, rfl⟩ := hn
          simp only [modeOf, FlatFrom] at hflat
          have hm := modeOf_of_flatFrom _ _ hflat
          have hw := h.inWr_writer hi (by simp [Thread.inWr, modeOf])
          apply inv_set c h i _ _ _ _ hi
          · exact ⟨by simpa [hm] using hflat, by simp⟩
          · simp [Thread.inRd, modeOf, hm]
          · simp [Thread.inWr, modeOf, hm, hw]
          · simp
        | read =>
          simp only [next, Option.some.injEq, Prod.mk.injEq] at hn
          obtain ⟨rfl, rfl, rfl⟩ := hn
          simp only [modeOf] at hflat
          have hflat' : FlatFrom (modeOf r) r = true := by
            generalize modeOf r = m at hflat
            cases m <;> simp [FlatFrom] at hflat ⊢ <;> exact hflat
          apply inv_set c h i _ _ _ _ hi
          · exact ⟨hflat', by simp⟩
          · simp [Thread.inRd, modeOf]
          · simp [Thread.inWr, modeOf]
          · exact h.excl
        | write =>
          simp only [next, Option.some.injEq, Prod.mk.injEq] at hn
          obtain ⟨rfl, rfl, rfl⟩ := hn
          simp only [modeOf] at hflat
          have hflat' : FlatFrom (modeOf r) r = true := by
            generalize modeOf r = m at hflat
            cases m <;> simp [FlatFrom] at hflat ⊢ <;> exact hflat
          apply inv_set c h i _ _ _ _ hi
          · exact ⟨hflat', by simp⟩
          · simp [Thread.inRd, modeOf]
          · simp [Thread.inWr, modeOf]
          · exact h.excl
        | callout =>
          simp only [next, Option.some.injEq, Prod.mk.injEq] at hn
          obtain ⟨rfl, rfl, rfl⟩ := hn
          simp only [modeOf] at hflat
          have hflat' : FlatFrom (modeOf r) r = true := by
            generalize modeOf r = m at hflat
            cases m <;> simp [FlatFrom] at hflat ⊢ <;> exact hflat
          apply inv_set c h i _ _ _ _ hi
          · exact ⟨hflat', by simp⟩
          · simp [Thread.inRd, modeOf]
          · simp [Thread.inWr, modeOf]
          · exact h.excl

theorem inv_run (c : Config) (h : Inv c) (sched : List Nat) : Inv (run c sched) := by
  induction sched generalizing c with
  | nil => exact h
  | cons i is ih => exact ih (step c i) (inv_step c i h)

/-! ### Progress -/

/-- A thread inside a write section is never blocked. -/
theorem next_isSome_of_inWr (c : Config) (t : Thread) (hok : ThreadOK t)
    (hm : t.inWr = true) : (next c t).isSome = true := by
  obtain ⟨ann, prog⟩ := t
  have hflat := hok.flat
  cases prog with
  | nil => simp [Thread.inWr, modeOf] at hm
  | cons e r => cases e <;> simp_all [Thread.inWr, modeOf, FlatFrom, next]

/-- A thread inside a read section is never blocked. -/
theorem next_isSome_of_inRd (c : Config) (t : Thread) (hok : ThreadOK t)
    (hm : t.inRd = true) : (next c t).isSome = true := by
  obtain ⟨ann, prog⟩ := t
  have hflat := hok.flat
  cases prog with
  | nil => simp [Thread.inRd, modeOf] at hm
  | cons e r => cases e <;> simp_all [Thread.inRd, modeOf, FlatFrom, next]

theorem enabled_of_next (c : Config) (i : Nat) (t : Thread) (hi : c.threads[i]? = some t)
    (hn : (next c t).isSome = true) : i < c.threads.length ∧ enabled c i = true := by
  refine ⟨(List.getElem?_eq_some_iff.mp hi).1, ?_⟩
  simp [enabled, hi, hn]

/-- In a configuration satisfying the invariant, if some thread is unfinished then some
thread is enabled. -/
theorem progress (c : Config) (h : Inv c) (hf : finished c = false) :
    ∃ i, i < c.threads.length ∧ enabled c i = true := by
  cases hw : c.writer with
  | true =>
    have hwr := h.wr
    rw [hw] at hwr
    obtain ⟨i, t, hi, ht⟩ := exists_of_countP_pos Thread.inWr c.threads (by simp at hwr; omega)
    exact ⟨i, enabled_of_next c i t hi
      (next_isSome_of_inWr c t (h.ok t (List.mem_of_getElem? hi)) ht)⟩
  | false =>
    have hwr := h.wr
    rw [hw] at hwr
    simp at hwr
    by_cases hr : 0 < c.readers
    · obtain ⟨i, t, hi, ht⟩ := exists_of_countP_pos Thread.inRd c.threads (by rw [← h.rd]; exact hr)
      exact ⟨i, enabled_of_next c i t hi
        (next_isSome_of_inRd c t (h.ok t (List.mem_of_getElem? hi)) ht)⟩
    · have hr0 : c.readers = 0 := by omega
      cases hp : c.pending with
      | true =>
        simp only [Config.pending, List.any_eq_true] at hp
        obtain ⟨t, ht, ha⟩ := hp
        obtain ⟨i, hi⟩ := List.mem_iff_getElem?.mp ht
        obtain ⟨r, hprog⟩ := (h.ok t ht).ann ha
        refine ⟨i, enabled_of_next c i t hi ?_⟩
        simp [next, hprog, ha, hr0, hw]
      | false =>
        simp only [finished, List.all_eq_false] at hf
        obtain ⟨t, ht, hne⟩ := hf
        obtain ⟨i, hi⟩ := List.mem_iff_getElem?.mp ht
        have hrd : t.inRd = false :=
          not_of_countP_zero Thread.inRd c.threads (by rw [← h.rd]; exact hr0) i t hi
        have hwr' : t.inWr = false :=
          not_of_countP_zero Thread.inWr c.threads hwr.symm i t hi
        have hna : t.announced = false := by
          simp only [Config.pending, List.any_eq_false] at hp
          simpa using hp t ht
        have hflat := (h.ok t ht).flat
        refine ⟨i, enabled_of_next c i t hi ?_⟩
        obtain ⟨ann, prog⟩ := t
        cases prog with
        | nil => simp at hne
        | cons e r =>
          cases e <;> simp_all [Thread.inRd, Thread.inWr, modeOf, FlatFrom, next]

/-- **Deadlock freedom**: flat programs never deadlock, for any number of threads and any
schedule. -/
theorem flat_deadlock_free (progs : List (List Ev)) (h : ∀ p ∈ progs, Flat p = true)
    (sched : List Nat) : deadlocked (run (init progs) sched) = false := by
  have hinv := inv_run _ (inv_init progs h) sched
  generalize run (init progs) sched = c at hinv
  cases hf : finished c with
  | true => simp [deadlocked, hf]
  | false =>
    obtain ⟨i, hlt, hen⟩ := progress c hinv hf
    have : (List.range c.threads.length).any (enabled c) = true :=
      List.any_eq_true.mpr ⟨i, List.mem_range.mpr hlt, hen⟩
    simp [deadlocked, this]

#print axioms flat_deadlock_free

/-! ### Race freedom -/

/-- A thread about to `write` is inside a write section. -/
theorem inWr_of_nextIsWrite (c : Config) (h : Inv c) (i : Nat) (hw : nextIsWrite c i = true) :
    ∃ t, c.threads[i]? = some t ∧ t.inWr = true := by
  unfold nextIsWrite at hw
  split at hw
  · rename_i ann r hi
    refine ⟨_, hi, ?_⟩
    have hflat := (h.ok _ (List.mem_of_getElem? hi)).flat
    simp only [modeOf] at hflat
    simp only [Thread.inWr, modeOf]
    generalize modeOf r = m at hflat
    cases m <;> simp [FlatFrom] at hflat ⊢
  · simp at hw

/-- A thread about to access the token list is inside a read or a write section. -/
theorem inSection_of_nextIsAccess (c : Config) (h : Inv c) (j : Nat)
    (ha : nextIsAccess c j = true) :
    ∃ t, c.threads[j]? = some t ∧ (t.inRd = true ∨ t.inWr = true) := by
  unfold nextIsAccess at ha
  split at ha
  · rename_i ann r hj
    refine ⟨_, hj, ?_⟩
    have hflat := (h.ok _ (List.mem_of_getElem? hj)).flat
    simp only [modeOf] at hflat
    simp only [Thread.inRd, Thread.inWr, modeOf]
    generalize modeOf r = m at hflat
    cases m <;> simp [FlatFrom] at hflat ⊢
  · rename_i ann r hj
    refine ⟨_, hj, ?_⟩
    have hflat := (h.ok _ (List.mem_of_getElem? hj)).flat
    simp only [modeOf] at hflat
    simp only [Thread.inRd, Thread.inWr, modeOf]
    generalize modeOf r = m at hflat
    cases m <;> simp [FlatFrom] at hflat ⊢
  · simp at ha

/-- A writer excludes every other access. -/
theorem no_race_pair (c : Config) (h : Inv c) (i j : Nat) (hij : i ≠ j)
    (hw : nextIsWrite c i = true) (ha : nextIsAccess c j = true) : False := by
  obtain ⟨t, hi, ht⟩ := inWr_of_nextIsWrite c h i hw
  obtain ⟨t', hj, ht'⟩ := inSection_of_nextIsAccess c h j ha
  have hwriter := h.inWr_writer hi ht
  rcases ht' with ht' | ht'
  · have := h.inRd_pos hj ht'
    have := h.excl hwriter
    omega
  · have hle : c.threads.countP Thread.inWr ≤ 1 := by
      rw [← h.wr]; split <;> omega
    have := unique_of_countP_le_one Thread.inWr c.threads hle ⟨false, []⟩
      (by simp [Thread.inWr, modeOf]) i j t t' hi hj hij ht
    simp [ht'] at this

theorem no_race (c : Config) (h : Inv c) : raceAt c = false := by
  cases hr : raceAt c with
  | false => rfl
  | true =>
    exfalso
    simp only [raceAt, List.any_eq_true, Bool.and_eq_true, Bool.or_eq_true, bne_iff_ne] at hr
    obtain ⟨i, _, j, _, ⟨⟨hij, hai⟩, haj⟩, hw⟩ := hr
    rcases hw with hw | hw
    · exact no_race_pair c h i j hij hw haj
    · exact no_race_pair c h j i (Ne.symm hij) hw hai

/-- **Race freedom**: in no reachable configuration of flat programs are two distinct
threads about to access the token list with at least one of them writing. -/
theorem flat_race_free (progs : List (List Ev)) (h : ∀ p ∈ progs, Flat p = true)
    (sched : List Nat) : raceAt (run (init progs) sched) = false :=
  no_race _ (inv_run _ (inv_init progs h) sched)

#print axioms flat_race_free

/-! ### Termination: every flat system can run to completion -/

/-- Work left for a thread: two units per event, minus one once a `Lock` is announced. -/
def Thread.weight (t : Thread) : Nat := 2 * t.prog.length + (if t.announced then 0 else 1)

def Config.weight (c : Config) : Nat := (c.threads.map Thread.weight).sum

theorem next_weight_lt (c : Config) (t t' : Thread) (rd : Nat) (wr : Bool)
    (hn : next c t = some (t', rd, wr)) : t'.weight < t.weight := by
  obtain ⟨ann, prog⟩ := t
  cases prog with
  | nil => simp [next] at hn
  | cons e r =>
    cases e <;> simp only [next] at hn <;> (try split at hn) <;> (try split at hn) <;>
      simp only [Option.some.injEq, Prod.mk.injEq, reduceCtorEq] at hn <;>
      (try obtain ⟨rfl, rfl, rfl⟩ := hn) <;>
      simp_all [Thread.weight] <;> (try split) <;> omega

theorem step_weight_lt (c : Config) (i : Nat) (he : enabled c i = true) :
    (step c i).weight < c.weight := by
  unfold enabled at he
  unfold step
  split at he
  · simp at he
  · rename_i t hi
    cases hn : next c t with
    | none => simp [hn] at he
    | some x =>
      obtain ⟨t', rd, wr⟩ := x
      have hlt := next_weight_lt c t t' rd wr hn
      have := sum_set_add Thread.weight c.threads i t t' hi
      simp only [Config.weight]
      omega

theorem finish_of_inv (n : Nat) (c : Config) (h : Inv c) (hn : c.weight ≤ n) :
    ∃ sched, finished (run c sched) = true := by
  induction n generalizing c with
  | zero =>
    cases hf : finished c with
    | true => exact ⟨[], hf⟩
    | false =>
      obtain ⟨i, _, hen⟩ := progress c h hf
      have := step_weight_lt c i hen
      omega
  | succ n ih =>
    cases hf : finished c with
    | true => exact ⟨[], hf⟩
    | false =>
      obtain ⟨i, _, hen⟩ := progress c h hf
      have := step_weight_lt c i hen
      obtain ⟨sched, hs⟩ := ih (step c i) (inv_step c i h) (by omega)
      exact ⟨i :: sched, hs⟩

/-- Every system of flat programs has a schedule on which all threads finish. -/
theorem flat_all_finish (progs : List (List Ev)) (h : ∀ p ∈ progs, Flat p = true) :
    ∃ sched, finished (run (init progs) sched) = true :=
  finish_of_inv _ _ (inv_init progs h) (Nat.le_refl _)

#print axioms flat_all_finish

/-! ### Non-vacuity -/

/-- Three readers/writers with callouts between and inside sections. -/
def sampleFlatProgs : List (List Ev) :=
  [ [.rlock, .read, .callout, .read, .runlock, .callout, .lock, .read, .write, .unlock],
    [.lock, .write, .callout, .write, .unlock, .rlock, .read, .runlock],
    [.callout, .rlock, .read, .runlock, .rlock, .callout, .runlock],
    [.lock, .unlock] ]

example : ∀ p ∈ sampleFlatProgs, Flat p = true := by decide

example : deadlocked (run (init sampleFlatProgs) [0, 1, 2, 3, 0, 0, 2, 1, 3]) = false :=
  flat_deadlock_free _ (by decide) _

/-- The hypothesis is needed: the nested-`RLock` programs are not flat, and do deadlock. -/
example : Flat [.rlock, .rlock, .runlock, .runlock] = false := by decide

end Macaroon.Conc
