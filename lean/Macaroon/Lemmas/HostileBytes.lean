/-
C12: payload bytes at the typed layer.  `cavBytes` counts every variable-size piece of a decoded
caveat (byte strings, strings, map keys with one unit per entry, slice elements with one unit each,
the raw body of an unregistered caveat) at every nesting depth; whatever the typed decoders return
carries at most three times as many such units as the input has bytes (three: a struct field is
bounded by the size of the body it was read from, and no registered struct has more than three
variable-size fields).
-/
import Macaroon.Lemmas.Hostile

namespace Macaroon.Lemmas
open Macaroon Macaroon.Msgpack Macaroon.Codec Macaroon.Dec

/-! ### the measure -/

def setBytes {K} (klen : K → Nat) (rs : ResSet K) : Nat := (rs.map fun e => klen e.1 + 1).sum
def sliceBytes : Option (List Bytes) → Nat
  | none => 0
  | some ss => (ss.map fun s => s.length + 1).sum
def cmdsBytes : Option (List Command) → Nat
  | none => 0
  | some cs => (cs.map fun c => sliceBytes c.args + 1).sum

mutual
def cavBytes : Cav Bytes → Nat
  | .volumes rs => setBytes List.length rs
  | .featureSet rs => setBytes List.length rs
  | .machines rs => setBytes List.length rs
  | .machineFeatureSet rs => setBytes List.length rs
  | .clusters rs => setBytes List.length rs
  | .appFeatureSet rs => setBytes List.length rs
  | .storageObjects rs => setBytes List.length rs
  | .apps rs => setBytes (fun _ => 0) rs
  | .mutations ms => sliceBytes ms
  | .tp loc vk ticket => loc.length + vk.length + ticket.length
  | .bind id => id.length
  | .fromMachine id => id.length
  | .confineGoogleHD hd => hd.length
  | .googleUserID n => (natBytes n).length
  | .commands cs => cmdsBytes cs
  | .flySrc o a i => o.length + a.length + i.length
  | .unregistered _ raw => raw.length
  | .ifPresent _ ifs _ => cavBytesL ifs
  | _ => 0
def cavBytesL : CavList Bytes → Nat
  | .nil => 0
  | .cons c cs => cavBytes c + cavBytesL cs
end

def cavBytesList (cs : List (Cav Bytes)) : Nat := cavBytesL (CavList.ofList cs)

theorem cavBytesList_cons (c : Cav Bytes) (cs : List (Cav Bytes)) :
    cavBytesList (c :: cs) = cavBytes c + cavBytesList cs := by
  simp [cavBytesList, CavList.ofList, cavBytesL]

/-! ### what each field reader returns is bounded by the tree it read -/

def osize : Option V → Nat
  | none => 0
  | some w => size w

theorem asBytes_le (ov : Option V) (s : Bytes) (h : asBytes ov = Except.ok s) : s.length + 1 ≤ osize ov + 1 := by
  unfold asBytes at h
  split at h <;> simp only [pure_eq, Except.ok.injEq, fail_eq, reduceCtorEq] at h
  all_goals (try subst h) <;> simp [osize, size]

theorem asBytes_some_le (w : V) (s : Bytes) (h : asBytes (some w) = Except.ok s) : s.length + 1 ≤ size w := by
  unfold asBytes at h
  split at h <;> simp only [pure_eq, Except.ok.injEq, fail_eq, reduceCtorEq] at h
  all_goals (try subst h)
  all_goals (rename_i heq; first | (cases heq; done) | (cases heq; simp [size]; done) | (cases heq; simp only [size, List.length_nil]; omega))

theorem mapM_asBytes_le : ∀ (l : List V) (ss : List Bytes), (l.mapM fun v => asBytes (some v)) = Except.ok ss →
    (ss.map fun s => s.length + 1).sum ≤ sizeList l
  | [], ss, h => by
    simp only [List.mapM_nil, pure_eq, Except.ok.injEq] at h
    subst h; simp [sizeList]
  | v :: l, ss, h => by
    rw [List.mapM_cons] at h
    obtain ⟨s, hs, h⟩ := bind_eq_ok.mp h
    obtain ⟨rest, hrest, h⟩ := bind_eq_ok.mp h
    simp only [pure_eq, Except.ok.injEq] at h
    subst h
    have h1 := asBytes_some_le v s hs
    have h2 := mapM_asBytes_le l rest hrest
    simp only [List.map_cons, List.sum_cons, sizeList]
    omega

theorem asStrSlice_le (ov : Option V) (o : Option (List Bytes)) (h : asStrSlice ov = Except.ok o) :
    sliceBytes o ≤ osize ov := by
  unfold asStrSlice at h
  split at h
  · simp only [pure_eq, Except.ok.injEq] at h; subst h; simp [sliceBytes]
  · simp only [pure_eq, Except.ok.injEq] at h; subst h; simp [sliceBytes]
  · obtain ⟨ss, hss, h⟩ := bind_eq_ok.mp h
    simp only [pure_eq, Except.ok.injEq] at h
    subst h
    have := mapM_asBytes_le _ ss hss
    rw [sizeList_toList] at this
    simp only [sliceBytes, osize, size]; omega
  · cases h

/-! ### resource sets: normalising (last write wins, sorting) never adds anything -/

theorem setBytes_assign {K} [BEq K] [LawfulBEq K] (klen : K → Nat) (k : K) (m : Action) :
    ∀ acc : ResSet K, setBytes klen (assign k m acc) ≤ setBytes klen acc + (klen k + 1)
  | [] => by simp [assign, setBytes]
  | (k', m') :: rest => by
    simp only [assign]
    split
    · rename_i he
      have : k' = k := by simpa using he
      subst this
      simp [setBytes]
    · have := setBytes_assign klen k m rest
      simp only [setBytes, List.map_cons, List.sum_cons] at this ⊢
      omega

theorem setBytes_build {K} [BEq K] [LawfulBEq K] (klen : K → Nat) :
    ∀ (es : List (K × Action)) (acc : ResSet K),
      setBytes klen (es.foldl (fun m e => assign e.1 e.2 m) acc) ≤ setBytes klen acc + setBytes klen es
  | [], acc => by simp [setBytes]
  | e :: es, acc => by
    simp only [List.foldl_cons]
    have h1 := setBytes_build klen es (assign e.1 e.2 acc)
    have h2 := setBytes_assign klen e.1 e.2 acc
    simp only [setBytes, List.map_cons, List.sum_cons] at h1 h2 ⊢
    omega

theorem setBytes_sortBy {K} (klen : K → Nat) (r : (K × Action) → (K × Action) → Bool) (l : ResSet K) :
    setBytes klen (sortBy r l) = setBytes klen l :=
  ((sortBy_perm r l).map _).sum_nat

theorem setBytes_ofEntriesStr (es : List (Bytes × Action)) :
    setBytes List.length (ofEntriesStr es) ≤ setBytes List.length es := by
  unfold ofEntriesStr
  rw [setBytes_sortBy]
  have := setBytes_build List.length es []
  simpa [setBytes] using this

theorem setBytes_ofEntriesU64 (es : List (UInt64 × Action)) :
    setBytes (fun _ => 0) (ofEntriesU64 es) ≤ setBytes (fun _ => 0) es := by
  unfold ofEntriesU64
  rw [setBytes_sortBy]
  have := setBytes_build (fun _ => 0) es []
  simpa [setBytes] using this

/-- the key/value pairs of a map cost no more than the elements of the map -/
theorem mapM_strPairs_le : ∀ (l : List V) (es : List (Bytes × Action)),
    ((mapPairs l).mapM fun kv => do
      let k ← asBytes (some kv.1)
      let m ← asUint 16 (some kv.2)
      pure (k, UInt16.ofNat m)) = Except.ok es → setBytes List.length es ≤ sizeList l
  | [], es, h => by
    simp only [mapPairs, List.mapM_nil, pure_eq, Except.ok.injEq] at h
    subst h; simp [setBytes]
  | [_], es, h => by
    simp only [mapPairs, List.mapM_nil, pure_eq, Except.ok.injEq] at h
    subst h; simp [setBytes]
  | k :: v :: rest, es, h => by
    simp only [mapPairs, List.mapM_cons] at h
    obtain ⟨e, he, h⟩ := bind_eq_ok.mp h
    obtain ⟨es', hes', h⟩ := bind_eq_ok.mp h
    simp only [pure_eq, Except.ok.injEq] at h
    subst h
    obtain ⟨kb, hkb, he⟩ := bind_eq_ok.mp he
    obtain ⟨m, _, he⟩ := bind_eq_ok.mp he
    simp only [pure_eq, Except.ok.injEq] at he
    subst he
    have h1 := asBytes_some_le k kb hkb
    have h2 := mapM_strPairs_le rest es' hes'
    have h3 := size_pos v
    simp only [setBytes, List.map_cons, List.sum_cons, sizeList] at h2 ⊢
    omega

theorem mapM_u64Pairs_le : ∀ (l : List V) (es : List (UInt64 × Action)),
    ((mapPairs l).mapM fun kv => do
      let k ← asUint 64 (some kv.1)
      let m ← asUint 16 (some kv.2)
      pure (UInt64.ofNat k, UInt16.ofNat m)) = Except.ok es → setBytes (fun _ => 0) es ≤ sizeList l
  | [], es, h => by
    simp only [mapPairs, List.mapM_nil, pure_eq, Except.ok.injEq] at h
    subst h; simp [setBytes]
  | [_], es, h => by
    simp only [mapPairs, List.mapM_nil, pure_eq, Except.ok.injEq] at h
    subst h; simp [setBytes]
  | k :: v :: rest, es, h => by
    simp only [mapPairs, List.mapM_cons] at h
    obtain ⟨e, he, h⟩ := bind_eq_ok.mp h
    obtain ⟨es', hes', h⟩ := bind_eq_ok.mp h
    simp only [pure_eq, Except.ok.injEq] at h
    subst h
    have h2 := mapM_u64Pairs_le rest es' hes'
    have h3 := size_pos v
    have h4 := size_pos k
    simp only [setBytes, List.map_cons, List.sum_cons, sizeList] at h2 ⊢
    omega

theorem asStrSet_le (ov : Option V) (rs : ResSet Bytes) (h : asStrSet ov = Except.ok rs) :
    setBytes List.length rs ≤ osize ov := by
  unfold asStrSet at h
  split at h
  · simp only [pure_eq, Except.ok.injEq] at h; subst h; simp [setBytes]
  · simp only [pure_eq, Except.ok.injEq] at h; subst h; simp [setBytes]
  · obtain ⟨es, hes, h⟩ := bind_eq_ok.mp h
    simp only [pure_eq, Except.ok.injEq] at h
    subst h
    have h1 := mapM_strPairs_le _ es hes
    have h2 := setBytes_ofEntriesStr es
    rw [sizeList_toList] at h1
    simp only [osize, size]; omega
  · cases h

theorem asU64Set_le (ov : Option V) (rs : ResSet UInt64) (h : asU64Set ov = Except.ok rs) :
    setBytes (fun _ => 0) rs ≤ osize ov := by
  unfold asU64Set at h
  split at h
  · simp only [pure_eq, Except.ok.injEq] at h; subst h; simp [setBytes]
  · simp only [pure_eq, Except.ok.injEq] at h; subst h; simp [setBytes]
  · obtain ⟨es, hes, h⟩ := bind_eq_ok.mp h
    simp only [pure_eq, Except.ok.injEq] at h
    subst h
    have h1 := mapM_u64Pairs_le _ es hes
    have h2 := setBytes_ofEntriesU64 es
    rw [sizeList_toList] at h1
    simp only [osize, size]; omega
  · cases h

/-- a field of a struct body is a child of the body (or absent) -/
theorem osize_field_le (names : List String) (b : V) (fs : List (Option V))
    (h : fieldsOf names (some b) = Except.ok fs) (i : Nat) : osize (field fs i) < size b := by
  cases hf : field fs i with
  | none => simp [osize, size_pos]
  | some w => exact children_size b w (fieldsOf_mem names b fs h w (field_mem fs i w hf))


theorem command_le (v : V) (c : Command) (h : command v = Except.ok c) : sliceBytes c.args + 1 ≤ size v := by
  unfold command at h
  obtain ⟨fs, hfs, h⟩ := bind_eq_ok.mp h
  obtain ⟨args, hargs, h⟩ := bind_eq_ok.mp h
  obtain ⟨ex, _, h⟩ := bind_eq_ok.mp h
  simp only [pure_eq, Except.ok.injEq] at h
  subst h
  have h1 := asStrSlice_le _ _ hargs
  have h2 := osize_field_le _ v fs hfs 0
  simp only; omega

theorem mapM_command_le : ∀ (l : List V) (cs : List Command), l.mapM command = Except.ok cs →
    (cs.map fun c => sliceBytes c.args + 1).sum ≤ sizeList l
  | [], cs, h => by
    simp only [List.mapM_nil, pure_eq, Except.ok.injEq] at h
    subst h; simp [sizeList]
  | v :: l, cs, h => by
    rw [List.mapM_cons] at h
    obtain ⟨c, hc, h⟩ := bind_eq_ok.mp h
    obtain ⟨rest, hrest, h⟩ := bind_eq_ok.mp h
    simp only [pure_eq, Except.ok.injEq] at h
    subst h
    have h1 := command_le v c hc
    have h2 := mapM_command_le l rest hrest
    simp only [List.map_cons, List.sum_cons, sizeList]
    omega

/-! ### one body -/

def BytesLe (n : Nat) (x : D (Cav Bytes)) : Prop := ∀ c, x = Except.ok c → cavBytes c ≤ n

theorem bytesLe_pure {n : Nat} {c : Cav Bytes} (h : cavBytes c ≤ n) : BytesLe n (pure c) := by
  intro c' hc; cases hc; exact h
theorem bytesLe_fail {n : Nat} : BytesLe n (fail : D (Cav Bytes)) := by
  intro c hc; cases hc
theorem bytesLe_bind {α} {n : Nat} (x : D α) (f : α → D (Cav Bytes)) (h : ∀ a, x = Except.ok a → BytesLe n (f a)) :
    BytesLe n (x >>= f) := by
  intro c hc
  obtain ⟨a, ha, hf⟩ := bind_eq_ok.mp hc
  exact h a ha c hf

theorem bytesLe_strSetCav (mk : ResSet Bytes → Cav Bytes) (name : String) (v : V)
    (hmk : ∀ rs, cavBytes (mk rs) = setBytes List.length rs) : BytesLe (size v) (strSetCav mk name v) := by
  unfold strSetCav
  refine bytesLe_bind _ _ fun fs hfs => bytesLe_bind _ _ fun rs hrs => bytesLe_pure ?_
  have h1 := asStrSet_le _ _ hrs
  have h2 := osize_field_le _ v fs hfs 0
  rw [hmk]; omega

/-- a body read under a registered leaf type: at most three times the size of the body -/
theorem cavOfV_leaf_bytes (fuel typ : Nat) (b : V) (hreg : registered typ = true) (hne : typ ≠ 13) :
    BytesLe (3 * size b) (cavOfV fuel typ b) := by
  have hb := size_pos b
  have weaken : ∀ x : D (Cav Bytes), BytesLe (size b) x → BytesLe (3 * size b) x :=
    fun x h c hc => Nat.le_trans (h c hc) (by omega)
  rcases registered_cases typ hreg with rfl | rfl | rfl | rfl | rfl | rfl | rfl | rfl | rfl | rfl | rfl
    | rfl | rfl | rfl | rfl | rfl | rfl | rfl | rfl | rfl | rfl | rfl | rfl | rfl | rfl | rfl | rfl
    | rfl | rfl
  case inr.inr.inr.inr.inr.inr.inr.inr.inr.inr.inr.inr.inl => exact absurd rfl hne
  -- 27 commands
  case inr.inr.inr.inr.inr.inr.inr.inr.inr.inr.inr.inr.inr.inr.inr.inr.inr.inr.inr.inr.inr.inr.inr.inr.inl =>
    cases b with
    | nil => rw [cavOfV]; exact bytesLe_pure (by simp [cavBytes, cmdsBytes])
    | arr f xs =>
      rw [cavOfV]
      refine weaken _ (bytesLe_bind _ _ fun cs hcs => bytesLe_pure ?_)
      have := mapM_command_le _ cs hcs
      rw [sizeList_toList] at this
      simp only [cavBytes, cmdsBytes, size]; omega
    | _ => intro c hc; simp [cavOfV] at hc
  all_goals rw [cavOfV]
  -- 0 organization
  · exact bytesLe_bind _ _ fun _ _ => bytesLe_bind _ _ fun _ _ => bytesLe_bind _ _ fun _ _ => bytesLe_pure (by simp [cavBytes])
  -- 2 volumes
  · exact weaken _ (bytesLe_strSetCav _ _ _ fun _ => rfl)
  -- 3 apps
  · refine weaken _ (bytesLe_bind _ _ fun fs hfs => bytesLe_bind _ _ fun rs hrs => bytesLe_pure ?_)
    have h1 := asU64Set_le _ _ hrs
    have h2 := osize_field_le _ b fs hfs 0
    simp only [cavBytes]; omega
  -- 4 validity window
  · exact bytesLe_bind _ _ fun _ _ => bytesLe_bind _ _ fun _ _ => bytesLe_bind _ _ fun _ _ => bytesLe_pure (by simp [cavBytes])
  -- 5 feature set
  · exact weaken _ (bytesLe_strSetCav _ _ _ fun _ => rfl)
  -- 6 mutations
  · refine weaken _ (bytesLe_bind _ _ fun fs hfs => bytesLe_bind _ _ fun ms hms => bytesLe_pure ?_)
    have h1 := asStrSlice_le _ _ hms
    have h2 := osize_field_le _ b fs hfs 0
    simp only [cavBytes]; omega
  -- 7 machines
  · exact weaken _ (bytesLe_strSetCav _ _ _ fun _ => rfl)
  -- 8, 9, 10: u64 structs
  · unfold u64Struct
    exact bytesLe_bind _ _ fun _ _ => bytesLe_bind _ _ fun _ _ => bytesLe_pure (by simp [cavBytes])
  · unfold u64Struct
    exact bytesLe_bind _ _ fun _ _ => bytesLe_bind _ _ fun _ _ => bytesLe_pure (by simp [cavBytes])
  · unfold u64Struct
    exact bytesLe_bind _ _ fun _ _ => bytesLe_bind _ _ fun _ _ => bytesLe_pure (by simp [cavBytes])
  -- 11 third-party caveat
  · refine bytesLe_bind _ _ fun fs hfs => bytesLe_bind _ _ fun l hl => bytesLe_bind _ _ fun vk hvk =>
      bytesLe_bind _ _ fun t ht => bytesLe_pure ?_
    have a1 := asBytes_le _ _ hl
    have a2 := asBytes_le _ _ hvk
    have a3 := asBytes_le _ _ ht
    have b1 := osize_field_le _ b fs hfs 0
    have b2 := osize_field_le _ b fs hfs 1
    have b3 := osize_field_le _ b fs hfs 2
    simp only [cavBytes]; omega
  -- 12 bind
  · refine weaken _ (bytesLe_bind _ _ fun id hid => bytesLe_pure ?_)
    have := asBytes_some_le _ _ hid
    simp only [cavBytes]; omega
  -- 14 machine feature set
  · exact weaken _ (bytesLe_strSetCav _ _ _ fun _ => rfl)
  -- 15 from machine
  · refine weaken _ (bytesLe_bind _ _ fun fs hfs => bytesLe_bind _ _ fun id hid => bytesLe_pure ?_)
    have a1 := asBytes_le _ _ hid
    have b1 := osize_field_le _ b fs hfs 0
    simp only [cavBytes]; omega
  -- 16 clusters
  · exact weaken _ (bytesLe_strSetCav _ _ _ fun _ => rfl)
  -- 19 google hosted domain
  · refine weaken _ (bytesLe_bind _ _ fun hd hhd => bytesLe_pure ?_)
    have := asBytes_some_le _ _ hhd
    simp only [cavBytes]; omega
  -- 20, 21
  · exact bytesLe_bind _ _ fun _ _ => bytesLe_pure (by simp [cavBytes])
  · exact bytesLe_bind _ _ fun _ _ => bytesLe_pure (by simp [cavBytes])
  -- 22 is member
  · exact bytesLe_bind _ _ fun _ _ => bytesLe_pure (by simp [cavBytes])
  -- 23, 24
  · exact bytesLe_bind _ _ fun _ _ => bytesLe_pure (by simp [cavBytes])
  · exact bytesLe_bind _ _ fun _ _ => bytesLe_pure (by simp [cavBytes])
  -- 25 google user id
  · refine weaken _ (bytesLe_bind _ _ fun s hs => bytesLe_pure ?_)
    have h1 := asBytes_some_le _ _ hs
    have h2 := natBytes_beVal_length s
    simp only [cavBytes]; omega
  -- 26 action
  · exact bytesLe_bind _ _ fun _ _ => bytesLe_pure (by simp [cavBytes])
  -- 28, 29
  · exact weaken _ (bytesLe_strSetCav _ _ _ fun _ => rfl)
  · exact weaken _ (bytesLe_strSetCav _ _ _ fun _ => rfl)
  -- 30 allowed roles
  · exact bytesLe_bind _ _ fun _ _ => bytesLe_pure (by simp [cavBytes])
  -- 31 fly src
  · refine bytesLe_bind _ _ fun fs hfs => bytesLe_bind _ _ fun o ho => bytesLe_bind _ _ fun a ha =>
      bytesLe_bind _ _ fun i hi => bytesLe_pure ?_
    have a1 := asBytes_le _ _ ho
    have a2 := asBytes_le _ _ ha
    have a3 := asBytes_le _ _ hi
    have b1 := osize_field_le _ b fs hfs 0
    have b2 := osize_field_le _ b fs hfs 1
    have b3 := osize_field_le _ b fs hfs 2
    simp only [cavBytes]; omega


/-! ### encoded length as the measure of a tree (the raw body of an unregistered caveat IS its encoding) -/

def elen (v : V) : Nat := (enc v).length
def elenList (l : List V) : Nat := (l.map elen).sum

theorem elenList_toList : ∀ xs : VL, elenList xs.toList = (encL xs).length
  | .nil => by simp [elenList, VL.toList, encL]
  | .cons x xs => by
    have := elenList_toList xs
    simp only [elenList] at this
    simp [elenList, VL.toList, encL, elen, this]

theorem elen_children_list (b : V) : elenList (children b) < elen b := by
  cases b with
  | arr f xs =>
    simp only [children, elenList_toList, elen, enc, List.length_append]
    have := encLen_length_pos' 0x90 0xdc 0xdc 0xdd f xs.length
    omega
  | map f xs =>
    simp only [children, elenList_toList, elen, enc, List.length_append]
    have := encLen_length_pos' 0x80 0xde 0xde 0xdf f (xs.length / 2)
    omega
  | _ => simp only [children, elenList, List.map_nil, List.sum_nil, elen]; exact Nat.lt_of_lt_of_le (size_pos _) (size_le_enc _)

theorem elen_mem_le (l : List V) (v : V) (h : v ∈ l) : elen v ≤ elenList l := by
  induction l with
  | nil => cases h
  | cons x xs ih =>
    simp only [elenList, List.map_cons, List.sum_cons]
    rcases List.mem_cons.mp h with rfl | h
    · omega
    · have := ih h; simp only [elenList] at this; omega

theorem elen_child_lt (b v : V) (h : v ∈ children b) : elen v < elen b :=
  Nat.lt_of_le_of_lt (elen_mem_le _ v h) (elen_children_list b)

def BodyBytes (fuel : Nat) : Prop := ∀ (typ : Nat) (b : V) (c : Cav Bytes),
  cavOfV fuel typ b = Except.ok c → cavBytes c ≤ 3 * elen b

def PairsBytes (fuel : Nat) : Prop := ∀ (l : List V) (cs : List (Cav Bytes)),
  cavPairs fuel l = Except.ok cs → cavBytesList cs ≤ 3 * elenList l

theorem pairsBytes_of_bodyBytes (fuel : Nat) (hP : BodyBytes fuel) : ∀ (l : List V) (cs : List (Cav Bytes)),
    cavPairs fuel l = Except.ok cs → cavBytesList cs ≤ 3 * elenList l
  | [], cs, h => by
    rw [cavPairs] at h
    simp only [pure_eq, Except.ok.injEq] at h
    subst h; simp [cavBytesList, CavList.ofList, cavBytesL]
  | [_], cs, h => by rw [cavPairs] at h; cases h
  | t :: b :: rest, cs, h => by
    rw [cavPairs] at h
    obtain ⟨typ, _, h⟩ := bind_eq_ok.mp h
    obtain ⟨c, hc, h⟩ := bind_eq_ok.mp h
    obtain ⟨cs', hcs', h⟩ := bind_eq_ok.mp h
    simp only [pure_eq, Except.ok.injEq] at h
    subst h
    have h1 := hP typ b c hc
    have h2 := pairsBytes_of_bodyBytes fuel hP rest cs' hcs'
    rw [cavBytesList_cons]
    simp only [elenList, List.map_cons, List.sum_cons] at h2 ⊢
    omega

theorem bodyBytes_step (fuel : Nat) (hQ : ∀ f, fuel = f + 1 → PairsBytes f) : BodyBytes fuel := by
  intro typ b c h
  by_cases h13 : typ = 13
  · subst h13
    cases fuel with
    | zero => rw [cavOfV] at h; cases h
    | succ f =>
      rw [cavOfV] at h
      obtain ⟨fs, hfs, h⟩ := bind_eq_ok.mp h
      obtain ⟨els, _, h⟩ := bind_eq_ok.mp h
      split at h
      · simp only [pure_eq, Except.ok.injEq] at h
        subst h
        simp [cavBytes, cavBytesL]
      · simp only [pure_eq, Except.ok.injEq] at h
        subst h
        simp [cavBytes, cavBytesL]
      · rename_i sv hne hsv
        obtain ⟨cs, hcs, h⟩ := bind_eq_ok.mp h
        simp only [pure_eq, Except.ok.injEq] at h
        subst h
        have hlt := elen_child_lt b sv (fieldsOf_mem _ b fs hfs sv (field_mem fs 0 sv hsv))
        cases sv with
        | arr g xs =>
          rw [cavsOfV] at hcs
          have h1 := hQ f rfl xs.toList cs hcs
          have h2 := elen_children_list (.arr g xs)
          simp only [children] at h2
          simp only [cavBytes]
          unfold cavBytesList at h1
          omega
        | _ => simp [cavsOfV] at hcs
  · cases hreg : registered typ with
    | true =>
      have := cavOfV_leaf_bytes fuel typ b hreg h13 c h
      have := size_le_enc b
      simp only [elen]; omega
    | false =>
      rw [cavOfV_default fuel typ b hreg] at h
      split at h
      · simp only [pure_eq, Except.ok.injEq] at h
        subst h; simp [cavBytes]
      · split at h
        · simp only [pure_eq, Except.ok.injEq] at h
          subst h; simp only [cavBytes, elen]; omega
        · cases h

theorem bytes_all : ∀ fuel, BodyBytes fuel ∧ PairsBytes fuel := by
  intro fuel
  induction fuel with
  | zero =>
    have p := bodyBytes_step 0 (fun f hf => by omega)
    exact ⟨p, pairsBytes_of_bodyBytes 0 p⟩
  | succ n ih =>
    have p := bodyBytes_step (n + 1) (fun f hf => by cases hf; exact ih.2)
    exact ⟨p, pairsBytes_of_bodyBytes _ p⟩

theorem cavsOfV_bytes (fuel : Nat) (v : V) (cs : List (Cav Bytes)) (h : cavsOfV fuel v = Except.ok cs) :
    cavBytesList cs ≤ 3 * elen v := by
  cases v with
  | arr f xs =>
    rw [cavsOfV] at h
    have h1 := (bytes_all fuel).2 xs.toList cs h
    have h2 := elen_children_list (.arr f xs)
    simp only [children] at h2
    omega
  | _ => simp [cavsOfV] at h

theorem optCavs_bytes (fuel : Nat) (ov : Option V) (cs : List (Cav Bytes)) (n : Nat)
    (hv : ∀ v, ov = some v → elen v ≤ n) (h : optCavs fuel ov = Except.ok cs) : cavBytesList cs ≤ 3 * n := by
  unfold optCavs at h
  split at h
  · simp only [pure_eq, Except.ok.injEq] at h; subst h; simp [cavBytesList, CavList.ofList, cavBytesL]
  · simp only [pure_eq, Except.ok.injEq] at h; subst h; simp [cavBytesList, CavList.ofList, cavBytesL]
  · rename_i cv _
    have := hv cv rfl
    have := cavsOfV_bytes fuel cv cs h
    omega

theorem macOfV_bytes (fuel : Nat) (v : V) (m : WireMac) (h : macOfV fuel v = Except.ok m) :
    cavBytesList m.cavs ≤ 3 * elen v := by
  rw [macOfV_eq] at h
  obtain ⟨fs, hfs, h⟩ := bind_eq_ok.mp h
  obtain ⟨nonce, _, h⟩ := bind_eq_ok.mp h
  obtain ⟨loc, _, h⟩ := bind_eq_ok.mp h
  obtain ⟨cavs, hc, h⟩ := bind_eq_ok.mp h
  obtain ⟨tail, _, h⟩ := bind_eq_ok.mp h
  simp only [pure_eq, Except.ok.injEq] at h
  subst h
  exact optCavs_bytes fuel _ cavs (elen v)
    (fun w hw => Nat.le_of_lt (elen_child_lt v w (fieldsOf_mem _ v fs hfs w (field_mem fs 2 w hw)))) hc

theorem ticketOfV_bytes (fuel : Nat) (v : V) (dk : Bytes) (cs : List (Cav Bytes))
    (h : ticketOfV fuel v = Except.ok (dk, cs)) : cavBytesList cs ≤ 3 * elen v := by
  rw [ticketOfV_eq] at h
  obtain ⟨fs, hfs, h⟩ := bind_eq_ok.mp h
  obtain ⟨dk', _, h⟩ := bind_eq_ok.mp h
  obtain ⟨cavs, hc, h⟩ := bind_eq_ok.mp h
  simp only [pure_eq, Except.ok.injEq, Prod.mk.injEq] at h
  obtain ⟨rfl, rfl⟩ := h
  exact optCavs_bytes fuel _ _ (elen v)
    (fun w hw => Nat.le_of_lt (elen_child_lt v w (fieldsOf_mem _ v fs hfs w (field_mem fs 1 w hw)))) hc

theorem elen_le_input (fuel : Nat) (bs : Bytes) (v : V) (rest : Bytes) (h : dec fuel bs = some (v, rest)) :
    elen v ≤ bs.length := by
  obtain ⟨e, _, _⟩ := enc_dec fuel bs v rest h
  rw [e]; simp [elen]

/-- **typed payload, no amplification**: the variable-size content of everything the typed decoders
return — at every nesting depth — is at most three times the input length -/
theorem decode_bytes :
    (∀ fuel bs cs, decodeCavs fuel bs = some cs → cavBytesList cs ≤ 3 * bs.length) ∧
    (∀ fuel bs m, decodeMac fuel bs = some m → cavBytesList m.cavs ≤ 3 * bs.length) ∧
    (∀ fuel bs dk cs, decodeTicket fuel bs = some (dk, cs) → cavBytesList cs ≤ 3 * bs.length) := by
  refine ⟨?_, ?_, ?_⟩
  · intro fuel bs cs h
    obtain ⟨v, rest, hd, hc⟩ := decodeCavs_eq_some h
    have h1 := elen_le_input fuel bs v rest hd
    have h2 := cavsOfV_bytes fuel v cs hc
    omega
  · intro fuel bs m h
    unfold decodeMac at h
    cases hd : dec fuel bs with
    | none => rw [hd] at h; cases h
    | some p =>
      obtain ⟨v, rest⟩ := p
      rw [hd] at h
      have h1 := elen_le_input fuel bs v rest hd
      have h2 := macOfV_bytes fuel v m (toOption_eq_some.mp h)
      omega
  · intro fuel bs dk cs h
    unfold decodeTicket at h
    cases hd : dec fuel bs with
    | none => rw [hd] at h; cases h
    | some p =>
      obtain ⟨v, rest⟩ := p
      rw [hd] at h
      have h1 := elen_le_input fuel bs v rest hd
      have h2 := ticketOfV_bytes fuel v dk cs (toOption_eq_some.mp h)
      omega


end Macaroon.Lemmas
