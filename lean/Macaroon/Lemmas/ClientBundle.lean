/-
C20 ↔ C13: `FetchDischargeTokens` over the bundle model.  The client's `fetch` takes the caller's
tokens (`kept`) and the effect of `AddTokens` (`toks`) as parameters; here they are instantiated with
`Bundle.parse` (default filter) and `Bundle.addTokens`, and the returned header is shown to be the
printed bundle after the collected discharges were added.
-/
import Macaroon.Lemmas.Client
import Macaroon.Lemmas.Bundle

namespace Macaroon.Lemmas.ClientBundle
open Macaroon Macaroon.TPClient Macaroon.Bundle Macaroon.Lemmas.BundleL

/-- `b.AddTokens(d)` as the client sees it: the token texts it appends, `none` when it fails -/
def addToks (d : (List Char)) : Option (List (List Char)) :=
  if hasError (Bundle.parseToks d) then none else some ((Bundle.parseToks d).map Tok.str)

/-- the discharge strings the flows collected, in flow order -/
def collected (flows : List FlowResult) : List (List Char) :=
  flows.filterMap fun f => match f.outcome with | .discharge d => some d | _ => none

/-- the caller's bundle after `AddTokens` of every collected discharge (a failing one changes nothing) -/
def addAll (b : Bundle) (ds : List (List Char)) : Bundle := ds.foldl (fun b d => (b.addTokens d).1) b

theorem tokensString_eq_joinWith : ∀ ts : List (List Char), tokensString ts = Header.joinWith ',' ts
  | [] => rfl
  | [_] => rfl
  | x :: y :: ts => by
    have := tokensString_eq_joinWith (y :: ts)
    simp only [tokensString, intercalateStr, Header.joinWith] at this ⊢
    rw [this]; simp

theorem addTokens_strs (b : Bundle) (d : (List Char)) :
    (b.addTokens d).1.permLoc = b.permLoc ∧
    (b.addTokens d).1.ts.map Tok.str = b.ts.map Tok.str ++ (addToks d).getD [] ∧
    ((b.addTokens d).2 = (addToks d).isNone) := by
  unfold Bundle.addTokens addToks
  cases h : hasError (Bundle.parseToks d) <;> simp [h]

theorem addAll_strs : ∀ (ds : List (List Char)) (b : Bundle),
    (addAll b ds).ts.map Tok.str = b.ts.map Tok.str ++ ds.flatMap fun d => (addToks d).getD []
  | [], b => by simp [addAll]
  | d :: ds, b => by
    have := addAll_strs ds (b.addTokens d).1
    simp only [addAll, List.foldl_cons] at this ⊢
    rw [this, (addTokens_strs b d).2.1]
    simp [List.append_assoc]

theorem addAll_prefix : ∀ (ds : List (List Char)) (b : Bundle), ∃ new, (addAll b ds).ts = b.ts ++ new
  | [], b => ⟨[], by simp [addAll]⟩
  | d :: ds, b => by
    obtain ⟨new, h⟩ := addAll_prefix ds (b.addTokens d).1
    simp only [addAll, List.foldl_cons] at h ⊢
    rw [h]
    unfold Bundle.addTokens
    cases he : hasError (Bundle.parseToks d)
    · exact ⟨Bundle.parseToks d ++ new, by simp [he, List.append_assoc]⟩
    · exact ⟨new, by simp [he]⟩

theorem discharges_eq (flows : List FlowResult) :
    ((flows.map fun f => match f.outcome with | .discharge d => addToks d | _ => none).flatMap fun a => a.getD [])
      = (collected flows).flatMap fun d => (addToks d).getD [] := by
  induction flows with
  | nil => rfl
  | cons f fs ih =>
    simp only [List.map_cons, List.flatMap_cons, collected, List.filterMap_cons] at ih ⊢
    cases f.outcome <;> simp [ih]

end Macaroon.Lemmas.ClientBundle
