/-
C19 ↔ C13: the permission/discharge split of `format.go` (`FindPermissionAndDischargeTokens`) and the
classification of the bundle tokeniser (`bundle/tokens.go`: `isPerm`, `dischargesByTicket`) agree,
with `macaroon.Decode` instantiated by the concrete codec.
-/
import Macaroon.Lemmas.Header
import Macaroon.Bundle.Model

namespace Macaroon.Lemmas
open Macaroon Macaroon.Header

/-- the oracle of `split_by_location`, instantiated: the location of `macaroon.Decode t` -/
def decLoc (t : Bytes) : Option Bytes := (Concrete.decode t).map (·.loc)

/-- one header token: the bundle's view of it agrees with the location test on its payload -/
theorem ofHeaderTok_class (pl : Bytes) (ht : Header.Tok) :
    (∀ raw, ht.raw? = some raw →
      (Bundle.isPermAt pl (Bundle.ofHeaderTok ht) = (decLoc raw == some pl)) ∧
      (Bundle.isDisAt pl (Bundle.ofHeaderTok ht) =
        (match decLoc raw with | some l => l != pl | none => false))) ∧
    (ht.raw? = none → Bundle.isPermAt pl (Bundle.ofHeaderTok ht) = false ∧
      Bundle.isDisAt pl (Bundle.ofHeaderTok ht) = false) := by
  cases ht with
  | nonMacaroon s =>
    simp [Header.Tok.raw?, Bundle.ofHeaderTok, Bundle.isPermAt, Bundle.isDisAt, Bundle.Tok.mac?, Bundle.Tok.isWellFormed]
  | malformedB64 s =>
    simp [Header.Tok.raw?, Bundle.ofHeaderTok, Bundle.isPermAt, Bundle.isDisAt, Bundle.Tok.mac?, Bundle.Tok.isWellFormed]
  | macaroonBytes s raw =>
    refine ⟨?_, by simp [Header.Tok.raw?]⟩
    intro raw' hr
    simp only [Header.Tok.raw?, Option.some.injEq] at hr
    subst hr
    simp only [Bundle.ofHeaderTok, decLoc]
    cases hd : Concrete.decode raw with
    | none =>
      simp [Bundle.isPermAt, Bundle.isDisAt, Bundle.Tok.mac?, Bundle.Tok.isWellFormed]
    | some m =>
      by_cases hl : m.loc = pl <;>
        simp [Bundle.isPermAt, Bundle.isDisAt, Bundle.Tok.mac?, Bundle.Tok.isWellFormed, hl]

theorem split_filterMap (pl : Bytes) : ∀ hts : List Header.Tok,
    ((hts.filterMap Header.Tok.raw?).filter fun t => decLoc t == some pl) =
      (hts.filter fun ht => Bundle.isPermAt pl (Bundle.ofHeaderTok ht)).filterMap Header.Tok.raw? ∧
    ((hts.filterMap Header.Tok.raw?).filter fun t => match decLoc t with | some l => l != pl | none => false) =
      (hts.filter fun ht => Bundle.isDisAt pl (Bundle.ofHeaderTok ht)).filterMap Header.Tok.raw?
  | [] => by simp
  | ht :: hts => by
    obtain ⟨ih1, ih2⟩ := split_filterMap pl hts
    obtain ⟨hs, hn⟩ := ofHeaderTok_class pl ht
    cases hr : ht.raw? with
    | none =>
      obtain ⟨h1, h2⟩ := hn hr
      simp [List.filterMap_cons, hr, List.filter_cons, h1, h2, ih1, ih2]
    | some raw =>
      obtain ⟨h1, h2⟩ := hs raw hr
      simp only [List.filterMap_cons, hr, List.filter_cons, h1, h2]
      constructor
      · cases hb : (decLoc raw == some pl) <;> simp [List.filterMap_cons, hr, ih1]
      · generalize (match decLoc raw with | some l => l != pl | none => false) = b
        cases b <;> simp [List.filterMap_cons, hr, ih2]

end Macaroon.Lemmas
