/-
Helper lemmas for C18 (auth caveats): the 64-bit arithmetic of `MaxValidity.duration()` and
`Time.Sub`, the running minimum of `GetMaxValidity`, and `GetCaveats` = "every caveat of the wanted
type at any nesting depth".  Core Lean only.
-/
import Macaroon.Auth.Discharge

namespace Macaroon.Lemmas
open Macaroon

theorem toInt64_toInt_cases (c : UInt64) :
    c.toInt64.toInt = if c.toNat < 2 ^ 63 then (c.toNat : Int) else (c.toNat : Int) - 2 ^ 64 := by
  have h := BitVec.toInt_eq_toNat_cond c.toBitVec
  have e1 : c.toInt64.toInt = c.toBitVec.toInt := rfl
  have e2 : c.toNat = c.toBitVec.toNat := rfl
  rw [e1, e2, h]
  split <;> split <;> first | rfl | omega

theorem durationOfSecs_bmod (c : UInt64) :
    GoTime.durationOfSecs c = Int.bmod (c.toInt64.toInt * 1000000000) (2 ^ 64) := by
  unfold GoTime.durationOfSecs
  rw [Int64.toInt_mul]
  rfl

/-- the wrapped duration is the true product reduced modulo 2^64 into the `int64` range -/
theorem durationOfSecs_spec (c : UInt64) :
    ∃ k : Int, GoTime.durationOfSecs c = (c.toNat : Int) * 1000000000 - k * 2 ^ 64 ∧
      -2 ^ 63 ≤ GoTime.durationOfSecs c ∧ GoTime.durationOfSecs c < 2 ^ 63 := by
  rw [durationOfSecs_bmod, toInt64_toInt_cases, Int.bmod_def]
  have hc := c.toNat_lt
  generalize c.toNat = x at *
  split <;> split
  · exact ⟨(x : Int) * 1000000000 / 2 ^ 64, by omega, by omega, by omega⟩
  · exact ⟨(x : Int) * 1000000000 / 2 ^ 64 + 1, by omega, by omega, by omega⟩
  · exact ⟨((x : Int) - 2 ^ 64) * 1000000000 / 2 ^ 64 + 1000000000, by omega, by omega, by omega⟩
  · exact ⟨((x : Int) - 2 ^ 64) * 1000000000 / 2 ^ 64 + 1000000001, by omega, by omega, by omega⟩


/-- a wrapped non-negative product never exceeds the true one -/
theorem durationOfSecs_le_true (c : UInt64) :
    GoTime.durationOfSecs c ≤ (c.toNat : Int) * 1000000000 := by
  obtain ⟨k, hk, hlo, hhi⟩ := durationOfSecs_spec c
  have hc := c.toNat_lt
  omega

/-- `10^9 = 2^9 · 5^9`, and reduction modulo `2^64` preserves divisibility by `2^9` -/
theorem durationOfSecs_mod512 (c : UInt64) : GoTime.durationOfSecs c % 512 = 0 := by
  obtain ⟨k, hk, _, _⟩ := durationOfSecs_spec c
  omega

theorem durationOfSecs_lt_max (c : UInt64) : GoTime.durationOfSecs c < GoTime.maxDuration := by
  obtain ⟨k, hk, hlo, hhi⟩ := durationOfSecs_spec c
  have := durationOfSecs_mod512 c
  unfold GoTime.maxDuration
  omega

theorem durationOfSecs_ne_max (c : UInt64) : GoTime.durationOfSecs c ≠ GoTime.maxDuration :=
  Int.ne_of_lt (durationOfSecs_lt_max c)

theorem durationOfSecs_ge_min (c : UInt64) : GoTime.minDuration ≤ GoTime.durationOfSecs c := by
  obtain ⟨k, hk, hlo, hhi⟩ := durationOfSecs_spec c
  unfold GoTime.minDuration
  omega

/-- the wrapped duration is the true one exactly when the true one is representable -/
theorem durationOfSecs_eq_true_iff (c : UInt64) :
    GoTime.durationOfSecs c = (c.toNat : Int) * 1000000000 ↔ c.toNat * 1000000000 < 2 ^ 63 := by
  obtain ⟨k, hk, hlo, hhi⟩ := durationOfSecs_spec c
  have hc := c.toNat_lt
  constructor
  · intro h; omega
  · intro h; omega

/-- the exact difference `t - u` in nanoseconds -/
def exactNanos (ts : Int) (tn : Nat) (us : Int) (un : Nat) : Int :=
  (ts - us) * 1000000000 + ((tn : Int) - (un : Int))

/-- a saturated difference that is `≤` a limit below the upper sentinel was not saturated upward,
and a difference saturated downward is below every representable limit -/
theorem sub_le_iff (ts : Int) (tn : Nat) (us : Int) (un : Nat) (L : Int)
    (hlo : GoTime.minDuration ≤ L) (hhi : L < GoTime.maxDuration) :
    GoTime.sub ts tn us un ≤ L ↔ exactNanos ts tn us un ≤ L := by
  unfold GoTime.sub exactNanos
  unfold GoTime.minDuration at hlo
  unfold GoTime.maxDuration at hhi
  simp only [GoTime.maxDuration, GoTime.minDuration]
  generalize (ts - us) * 1000000000 + ((tn : Int) - (un : Int)) = d
  by_cases h1 : d > 9223372036854775807
  · simp only [h1, ↓reduceIte]; omega
  · by_cases h2 : d < -9223372036854775808
    · simp only [h1, h2, ↓reduceIte]; omega
    · simp only [h1, h2, ↓reduceIte]

/-! ### the running minimum of `GetMaxValidity` -/

def minFold (l : List Int) (m0 : Int) : Int := l.foldl (fun mx d => if mx > d then d else mx) m0

theorem minFold_spec (l : List Int) (m0 : Int) :
    minFold l m0 ≤ m0 ∧ (∀ d ∈ l, minFold l m0 ≤ d) ∧ (minFold l m0 = m0 ∨ minFold l m0 ∈ l) := by
  induction l generalizing m0 with
  | nil => simp [minFold]
  | cons x xs ih =>
    by_cases hx : m0 > x
    · have e : minFold (x :: xs) m0 = minFold xs x := by simp [minFold, hx]
      rw [e]
      obtain ⟨h1, h2, h3⟩ := ih x
      refine ⟨by omega, ?_, ?_⟩
      · intro d hd
        rcases List.mem_cons.mp hd with rfl | hd
        · exact h1
        · exact h2 d hd
      · rcases h3 with h3 | h3
        · right; rw [h3]; exact List.mem_cons_self
        · right; exact List.mem_cons_of_mem _ h3
    · have e : minFold (x :: xs) m0 = minFold xs m0 := by simp [minFold, hx]
      rw [e]
      obtain ⟨h1, h2, h3⟩ := ih m0
      refine ⟨h1, ?_, ?_⟩
      · intro d hd
        rcases List.mem_cons.mp hd with rfl | hd
        · omega
        · exact h2 d hd
      · rcases h3 with h3 | h3
        · left; exact h3
        · right; exact List.mem_cons_of_mem _ h3

/-- a value that is a lower bound of `m0 :: l` and a member of it is the minimum: unique -/
theorem minFold_unique (l : List Int) (m0 m : Int)
    (h1 : m ≤ m0) (h2 : ∀ d ∈ l, m ≤ d) (h3 : m = m0 ∨ m ∈ l) : minFold l m0 = m := by
  obtain ⟨g1, g2, g3⟩ := minFold_spec l m0
  have a : minFold l m0 ≤ m := by
    rcases h3 with h3 | h3
    · omega
    · exact g2 m h3
  have b : m ≤ minFold l m0 := by
    rcases g3 with g3 | g3
    · omega
    · exact h2 _ g3
  omega

/-! ### `GetCaveats` finds exactly the caveats of the wanted type at any nesting depth -/

variable {B : Type}

/-- `c` occurs in `cs`, directly or inside (the `Ifs` of) an `IfPresent` wrapper at any depth -/
inductive NestedIn : Cav B → List (Cav B) → Prop
  | here {c : Cav B} {cs : List (Cav B)} : c ∈ cs → NestedIn c cs
  | inside {c : Cav B} {cs : List (Cav B)} {n : Bool} {ifs : CavList B} {e : Action} :
      Cav.ifPresent n ifs e ∈ cs → NestedIn c ifs.toList → NestedIn c cs

theorem nestedIn_nil (x : Cav B) : ¬ NestedIn x [] := by
  intro h
  cases h with
  | here h => cases h
  | inside h _ => cases h

theorem nestedIn_cons (x c : Cav B) (cs : List (Cav B)) :
    NestedIn x (c :: cs) ↔
      x = c ∨ (∃ n ifs e, c = Cav.ifPresent n ifs e ∧ NestedIn x ifs.toList) ∨ NestedIn x cs := by
  constructor
  · intro h
    cases h with
    | here h =>
      rcases List.mem_cons.mp h with h | h
      · exact Or.inl h
      · exact Or.inr (Or.inr (.here h))
    | inside h hn =>
      rcases List.mem_cons.mp h with h | h
      · exact Or.inr (Or.inl ⟨_, _, _, h.symm, hn⟩)
      · exact Or.inr (Or.inr (.inside h hn))
  · rintro (h | ⟨n, ifs, e, rfl, hn⟩ | h)
    · subst h; exact .here List.mem_cons_self
    · exact .inside List.mem_cons_self hn
    · cases h with
      | here h => exact .here (List.mem_cons_of_mem _ h)
      | inside h hn => exact .inside (List.mem_cons_of_mem _ h) hn

theorem NestedIn.perm {x : Cav B} {cs cs' : List (Cav B)} (hp : cs.Perm cs') (h : NestedIn x cs) : NestedIn x cs' := by
  cases h with
  | here h => exact .here (hp.mem_iff.mp h)
  | inside h hn => exact .inside (hp.mem_iff.mp h) hn

mutual
theorem authcav_mem_unwrapGet (p : Cav B → Bool) (x : Cav B) : (c : Cav B) →
    (x ∈ unwrapGet p c ↔ p x = true ∧ ∃ n ifs e, c = Cav.ifPresent n ifs e ∧ NestedIn x ifs.toList)
  | .ifPresent n ifs e => by
    have ih := authcav_mem_getCaveatsL p x ifs
    simp only [unwrapGet, ih]
    constructor
    · rintro ⟨hp, hn⟩; exact ⟨hp, n, ifs, e, rfl, hn⟩
    · rintro ⟨hp, n', ifs', e', heq, hn⟩
      cases heq
      exact ⟨hp, hn⟩
  | .organization .. | .volumes .. | .apps .. | .validityWindow .. | .featureSet .. | .mutations ..
  | .machines .. | .confineUser .. | .confineOrganization .. | .isUser .. | .tp .. | .bind ..
  | .machineFeatureSet .. | .fromMachine .. | .clusters .. | .confineGoogleHD .. | .confineGitHubOrg ..
  | .maxValidity .. | .isMember | .flyioUserID .. | .gitHubUserID .. | .googleUserID .. | .action ..
  | .commands .. | .appFeatureSet .. | .storageObjects .. | .allowedRoles .. | .flySrc ..
  | .unregistered .. => by
    simp [unwrapGet]
theorem authcav_mem_getCaveatsL (p : Cav B → Bool) (x : Cav B) : (l : CavList B) →
    (x ∈ getCaveatsL p l ↔ p x = true ∧ NestedIn x l.toList)
  | .nil => by simp [getCaveatsL, CavList.toList, nestedIn_nil]
  | .cons c cs => by
    have ih1 := authcav_mem_unwrapGet p x c
    have ih2 := authcav_mem_getCaveatsL p x cs
    simp only [getCaveatsL, CavList.toList, List.mem_append, ih1, ih2, nestedIn_cons]
    by_cases hpc : p c = true
    · simp only [hpc, ↓reduceIte, List.mem_singleton]
      constructor
      · rintro ((h | h) | h)
        · subst h; exact ⟨hpc, Or.inl rfl⟩
        · exact ⟨h.1, Or.inr (Or.inl h.2)⟩
        · exact ⟨h.1, Or.inr (Or.inr h.2)⟩
      · rintro ⟨hp, h | h | h⟩
        · exact Or.inl (Or.inl h)
        · exact Or.inl (Or.inr ⟨hp, h⟩)
        · exact Or.inr ⟨hp, h⟩
    · simp only [hpc, Bool.false_eq_true, ↓reduceIte, List.not_mem_nil, false_or]
      constructor
      · rintro (h | h)
        · exact ⟨h.1, Or.inr (Or.inl h.2)⟩
        · exact ⟨h.1, Or.inr (Or.inr h.2)⟩
      · rintro ⟨hp, h | h | h⟩
        · subst h; exact absurd hp hpc
        · exact Or.inl ⟨hp, h⟩
        · exact Or.inr ⟨hp, h⟩
end

/-- `GetCaveats[T]` returns exactly the caveats of type `T` occurring at any nesting depth -/
theorem authcav_mem_getCaveats (p : Cav B → Bool) (x : Cav B) (cs : List (Cav B)) :
    x ∈ getCaveats p cs ↔ p x = true ∧ NestedIn x cs := by
  induction cs with
  | nil => simp [getCaveats, nestedIn_nil]
  | cons c cs ih =>
    have ih1 := authcav_mem_unwrapGet p x c
    simp only [getCaveats, List.mem_append, ih1, ih, nestedIn_cons]
    by_cases hpc : p c = true
    · simp only [hpc, ↓reduceIte, List.mem_singleton]
      constructor
      · rintro ((h | h) | h)
        · subst h; exact ⟨hpc, Or.inl rfl⟩
        · exact ⟨h.1, Or.inr (Or.inl h.2)⟩
        · exact ⟨h.1, Or.inr (Or.inr h.2)⟩
      · rintro ⟨hp, h | h | h⟩
        · exact Or.inl (Or.inl h)
        · exact Or.inl (Or.inr ⟨hp, h⟩)
        · exact Or.inr ⟨hp, h⟩
    · simp only [hpc, Bool.false_eq_true, ↓reduceIte, List.not_mem_nil, false_or]
      constructor
      · rintro (h | h)
        · exact ⟨h.1, Or.inr (Or.inl h.2)⟩
        · exact ⟨h.1, Or.inr (Or.inr h.2)⟩
      · rintro ⟨hp, h | h | h⟩
        · subst h; exact absurd hp hpc
        · exact Or.inl ⟨hp, h⟩
        · exact Or.inr ⟨hp, h⟩

/-- the durations `GetMaxValidity` folds over: one per `MaxValidity` caveat at any depth -/
theorem authcav_mem_maxValidityDurations (cs : List (Cav B)) (d : Int) :
    d ∈ maxValidityDurations cs ↔ ∃ s, NestedIn (Cav.maxValidity s) cs ∧ d = GoTime.durationOfSecs s := by
  unfold maxValidityDurations
  simp only [List.mem_filterMap, authcav_mem_getCaveats]
  constructor
  · rintro ⟨c, ⟨hp, hn⟩, hc⟩
    cases c <;> simp [Cav.isMaxValidity] at hp hc
    exact ⟨_, hn, hc.symm⟩
  · rintro ⟨s, hn, rfl⟩
    exact ⟨Cav.maxValidity s, ⟨rfl, hn⟩, rfl⟩

theorem getMaxValidity_fst (cs : List (Cav B)) :
    (getMaxValidity cs).1 = minFold (maxValidityDurations cs) GoTime.maxDuration := rfl

theorem getMaxValidity_snd (cs : List (Cav B)) :
    (getMaxValidity cs).2 = ((getMaxValidity cs).1 != GoTime.maxDuration) := rfl

end Macaroon.Lemmas
