/-
Cost bounds and explicit partiality for untrusted input (C12).

* `size` of a value tree (one per node plus the payload bytes of strings, byte strings, floats and
  extensions) never exceeds the number of bytes the decoder consumed (`size_add_rest_le`): every
  node costs at least one input byte, every payload byte is an input byte.  Hence element counts,
  nesting and payload of whatever `dec` returns are bounded by the length of the input.
* nesting beyond the budget is refused (`deep_rejected`), nothing deeper than the budget is ever
  returned (`enc_dec`).
* the typed layer: the number of caveats at all depths of a decoded set is at most the size of the
  tree it was read from (`cavsOfV_count`), hence at most the input length.
* a body of unknown type is accepted only when `genericOk` holds: a map with an array, map or
  byte-string key is refused at any depth.
Core Lean only.
-/
import Macaroon.Lemmas.Codec

namespace Macaroon.Msgpack

/-! ### size of a value tree -/

mutual
/-- nodes plus payload bytes -/
def size : V → Nat
  | .nil => 1
  | .bool _ => 1
  | .int _ _ => 1
  | .f32 b => 1 + b.length
  | .f64 b => 1 + b.length
  | .str _ s => 1 + s.length
  | .bin _ b => 1 + b.length
  | .arr _ xs => 1 + sizeL xs
  | .map _ kvs => 1 + sizeL kvs
  | .ext _ _ d => 1 + d.length
def sizeL : VL → Nat
  | .nil => 0
  | .cons v vs => size v + sizeL vs
end

theorem size_pos (v : V) : 0 < size v := by
  cases v <;> simp only [size] <;> omega

theorem length_le_sizeL : (vs : VL) → vs.length ≤ sizeL vs
  | .nil => by simp [VL.length, sizeL]
  | .cons v vs => by
    have := length_le_sizeL vs
    have := size_pos v
    simp only [VL.length, sizeL]; omega

theorem encInt_length_pos (f : IntFmt) (v : Int) : 0 < (encInt f v).length := by
  cases f <;> simp [encInt]

theorem encLen_length_pos' (a b c d : UInt8) (f : LenFmt) (n : Nat) : 0 < (encLen a b c d f n).length := by
  cases f <;> simp [encLen]

mutual
/-- every node costs at least one encoded byte, every payload byte is an encoded byte -/
theorem size_le_enc : (v : V) → size v ≤ (enc v).length
  | .nil => by simp [size, enc]
  | .bool b => by cases b <;> simp [size, enc]
  | .int f v => by
    have := encInt_length_pos f v
    simp only [size, enc]; omega
  | .f32 b => by simp only [size, enc, List.length_cons]; omega
  | .f64 b => by simp only [size, enc, List.length_cons]; omega
  | .str f s => by
    have := encLen_length_pos' 0xa0 0xd9 0xda 0xdb f s.length
    simp only [size, enc, List.length_append]; omega
  | .bin f b => by
    have := encLen_length_pos' 0xc4 0xc4 0xc5 0xc6 f b.length
    simp only [size, enc, List.length_append]; omega
  | .ext code typ data => by
    simp only [size, enc]
    split
    · simp only [List.length_cons, List.length_append]; omega
    · split
      · simp only [List.length_cons, List.length_append]; omega
      · split
        · simp only [List.length_cons, List.length_append]; omega
        · simp only [List.length_cons]; omega
  | .arr f xs => by
    have := sizeL_le_encL xs
    have := encLen_length_pos' 0x90 0xdc 0xdc 0xdd f xs.length
    simp only [size, enc, List.length_append]; omega
  | .map f xs => by
    have := sizeL_le_encL xs
    have := encLen_length_pos' 0x80 0xde 0xde 0xdf f (xs.length / 2)
    simp only [size, enc, List.length_append]; omega
theorem sizeL_le_encL : (vs : VL) → sizeL vs ≤ (encL vs).length
  | .nil => by simp [sizeL]
  | .cons v vs => by
    have := size_le_enc v
    have := sizeL_le_encL vs
    simp only [sizeL, encL, List.length_append]; omega
end

/-- what the decoder returns is no larger than what it consumed -/
theorem size_add_rest_le (fuel : Nat) (bs : Bytes) (v : V) (rest : Bytes)
    (h : dec fuel bs = some (v, rest)) : size v + rest.length ≤ bs.length := by
  obtain ⟨rfl, _, _⟩ := enc_dec fuel bs v rest h
  have := size_le_enc v
  simp only [List.length_append]; omega

theorem mem_toList_size : ∀ (xs : VL) (v : V), v ∈ xs.toList → size v ≤ sizeL xs
  | .nil, _, h => by simp [VL.toList] at h
  | .cons x xs, v, h => by
    simp only [VL.toList, List.mem_cons] at h
    simp only [sizeL]
    rcases h with rfl | h
    · omega
    · have := mem_toList_size xs v h; omega

mutual
/-- nesting costs bytes too -/
theorem depth_le_size : (v : V) → depth v ≤ size v
  | .nil => by simp [depth]
  | .bool _ => by simp [depth]
  | .int _ _ => by simp [depth]
  | .f32 _ => by simp [depth]
  | .f64 _ => by simp [depth]
  | .str _ _ => by simp [depth]
  | .bin _ _ => by simp [depth]
  | .ext _ _ _ => by simp [depth]
  | .arr f xs => by
    have := depthL_le_sizeL xs
    simp only [depth, size]; omega
  | .map f xs => by
    have := depthL_le_sizeL xs
    simp only [depth, size]; omega
theorem depthL_le_sizeL : (vs : VL) → depthL vs ≤ sizeL vs
  | .nil => by simp [depthL]
  | .cons v vs => by
    have := depth_le_size v
    have := depthL_le_sizeL vs
    simp only [depthL, sizeL]; omega
end

/-! ### nesting beyond the budget is refused -/

/-- a well-formed tree nested deeper than the budget is not accepted, whatever follows it -/
theorem deep_rejected (fuel : Nat) (v : V) (rest : Bytes) (hw : WF v = true) (hd : fuel < depth v) :
    dec fuel (enc v ++ rest) = none := by
  cases h : dec fuel (enc v ++ rest) with
  | none => rfl
  | some p =>
    obtain ⟨w, r'⟩ := p
    obtain ⟨e, hww, hdw⟩ := enc_dec fuel _ w r' h
    have := enc_prefix_free v w rest r' hw hww e
    have hv : v = w := this.1
    subst hv
    omega

end Macaroon.Msgpack

namespace Macaroon
open Msgpack Codec Dec

/-! ### how many caveats a decoded set holds, wrappers included -/

mutual
/-- caveats at all depths -/
def cavCount : Cav Bytes → Nat
  | .ifPresent _ ifs _ => 1 + cavCountL ifs
  | _ => 1
def cavCountL : CavList Bytes → Nat
  | .nil => 0
  | .cons c cs => cavCount c + cavCountL cs
end

def cavCountList (cs : List (Cav Bytes)) : Nat := cavCountL (CavList.ofList cs)

theorem cavCountList_cons (c : Cav Bytes) (cs : List (Cav Bytes)) :
    cavCountList (c :: cs) = cavCount c + cavCountList cs := by
  simp [cavCountList, CavList.ofList, cavCountL]

theorem cavCountList_nil : cavCountList [] = 0 := by
  simp [cavCountList, CavList.ofList, cavCountL]

theorem length_le_cavCountList : (cs : List (Cav Bytes)) → cs.length ≤ cavCountList cs
  | [] => by simp
  | c :: cs => by
    have := length_le_cavCountList cs
    have hc : 1 ≤ cavCount c := by cases c <;> simp only [cavCount] <;> omega
    rw [cavCountList_cons]; simp only [List.length_cons]; omega

theorem cavCount_leaf (c : Cav Bytes) (h : c.isWrapper = false) : cavCount c = 1 := by
  cases c <;> first | rfl | simp [Cav.isWrapper] at h

def sizeList : List V → Nat
  | [] => 0
  | v :: vs => size v + sizeList vs

theorem sizeList_toList : (xs : VL) → sizeList xs.toList = sizeL xs
  | .nil => rfl
  | .cons x xs => by simp only [VL.toList, sizeList, sizeL, sizeList_toList xs]

namespace Dec

/-- the result of a decoding step is not a wrapper -/
def LeafRes (x : D (Cav Bytes)) : Prop := ∀ c, x = Except.ok c → c.isWrapper = false

theorem leafRes_pure (c : Cav Bytes) (h : c.isWrapper = false) : LeafRes (pure c) := by
  intro c' hc
  simp only [pure_eq, Except.ok.injEq] at hc
  subst hc; exact h

theorem leafRes_fail : LeafRes (fail : D (Cav Bytes)) := by
  intro c hc; cases hc

theorem leafRes_bind {α} (x : D α) (f : α → D (Cav Bytes)) (h : ∀ a, LeafRes (f a)) : LeafRes (x >>= f) := by
  intro c hc
  obtain ⟨a, _, ha⟩ := bind_eq_ok.mp hc
  exact h a c ha

theorem leafRes_strSetCav (mk : ResSet Bytes → Cav Bytes) (name : String) (v : V)
    (h : ∀ rs, (mk rs).isWrapper = false) : LeafRes (strSetCav mk name v) := by
  unfold strSetCav
  refine leafRes_bind _ _ fun fs => leafRes_bind _ _ fun rs => leafRes_pure _ (h rs)

theorem leafRes_u64Struct (mk : UInt64 → Cav Bytes) (name : String) (v : V)
    (h : ∀ x, (mk x).isWrapper = false) : LeafRes (u64Struct mk name v) := by
  unfold u64Struct
  refine leafRes_bind _ _ fun fs => leafRes_bind _ _ fun n => leafRes_pure _ (h _)

/-- only type 13 decodes to a wrapper -/
theorem cavOfV_leaf_of_ne (fuel typ : Nat) (b : V) (c : Cav Bytes) (hne : typ ≠ 13)
    (h : cavOfV fuel typ b = Except.ok c) : c.isWrapper = false := by
  cases hreg : registered typ with
  | false =>
    rw [cavOfV_default fuel typ b hreg] at h
    split at h
    · simp only [pure_eq, Except.ok.injEq] at h
      subst h; rfl
    · split at h
      · simp only [pure_eq, Except.ok.injEq] at h
        subst h; rfl
      · cases h
  | true =>
    have key : LeafRes (cavOfV fuel typ b) := by
      rcases registered_cases typ hreg with rfl | rfl | rfl | rfl | rfl | rfl | rfl | rfl | rfl | rfl | rfl
        | rfl | rfl | rfl | rfl | rfl | rfl | rfl | rfl | rfl | rfl | rfl | rfl | rfl | rfl | rfl | rfl
        | rfl | rfl
      case inr.inr.inr.inr.inr.inr.inr.inr.inr.inr.inr.inr.inl => exact absurd rfl hne
      case inr.inr.inr.inr.inr.inr.inr.inr.inr.inr.inr.inr.inr.inr.inr.inr.inr.inr.inr.inr.inr.inr.inr.inr.inl =>
        cases b <;> rw [cavOfV] <;> first
          | (intro hh; exact V.noConfusion hh)
          | (intro _ _ hh; exact V.noConfusion hh)
          | (repeat' (first
              | exact leafRes_pure _ rfl
              | exact leafRes_fail
              | (refine leafRes_bind _ _ fun _ => ?_)))
      all_goals
        rw [cavOfV]
        first
          | exact leafRes_strSetCav _ _ _ (fun _ => rfl)
          | exact leafRes_u64Struct _ _ _ (fun _ => rfl)
          | (repeat' (first
              | exact leafRes_pure _ rfl
              | exact leafRes_fail
              | (refine leafRes_bind _ _ fun _ => ?_)))
          | (split <;> repeat' (first
              | exact leafRes_pure _ rfl
              | exact leafRes_fail
              | (refine leafRes_bind _ _ fun _ => ?_)))
    exact key c h

/-! ### counting -/

theorem children_size (b v : V) (h : v ∈ children b) : size v < size b := by
  cases b with
  | arr f xs =>
    simp only [children] at h
    have := mem_toList_size xs v h
    simp only [size]; omega
  | map f xs =>
    simp only [children] at h
    have := mem_toList_size xs v h
    simp only [size]; omega
  | _ => simp [children] at h

/-- one (type, body) pair: the caveats it yields, at all depths, number at most the size of the body -/
def BodyCount (fuel : Nat) : Prop := ∀ (typ : Nat) (b : V) (c : Cav Bytes),
  cavOfV fuel typ b = Except.ok c → cavCount c ≤ size b

def PairsCount (fuel : Nat) : Prop := ∀ (l : List V) (cs : List (Cav Bytes)),
  cavPairs fuel l = Except.ok cs → cavCountList cs ≤ sizeList l

theorem pairsCount_of_bodyCount (fuel : Nat) (hP : BodyCount fuel) : ∀ (l : List V) (cs : List (Cav Bytes)),
    cavPairs fuel l = Except.ok cs → cavCountList cs ≤ sizeList l
  | [], cs, h => by
    rw [cavPairs] at h
    simp only [pure_eq, Except.ok.injEq] at h
    subst h; simp [cavCountList_nil]
  | [_], cs, h => by rw [cavPairs] at h; cases h
  | t :: b :: rest, cs, h => by
    rw [cavPairs] at h
    obtain ⟨typ, _, h⟩ := bind_eq_ok.mp h
    obtain ⟨c, hc, h⟩ := bind_eq_ok.mp h
    obtain ⟨cs', hcs', h⟩ := bind_eq_ok.mp h
    simp only [pure_eq, Except.ok.injEq] at h
    subst h
    have h1 := hP typ b c hc
    have h2 := pairsCount_of_bodyCount fuel hP rest cs' hcs'
    rw [cavCountList_cons]
    simp only [sizeList]; omega

theorem bodyCount_step (fuel : Nat) (hQ : ∀ f, fuel = f + 1 → PairsCount f) : BodyCount fuel := by
  intro typ b c h
  by_cases h13 : typ = 13
  · subst h13
    cases fuel with
    | zero => rw [cavOfV] at h; cases h
    | succ f =>
      rw [cavOfV] at h
      obtain ⟨fs, hfs, h⟩ := bind_eq_ok.mp h
      obtain ⟨els, _, h⟩ := bind_eq_ok.mp h
      have hb := size_pos b
      split at h
      · simp only [pure_eq, Except.ok.injEq] at h
        subst h
        simp only [cavCount, cavCountL]; omega
      · simp only [pure_eq, Except.ok.injEq] at h
        subst h
        simp only [cavCount, cavCountL]; omega
      · rename_i sv hne hsv
        obtain ⟨cs, hcs, h⟩ := bind_eq_ok.mp h
        simp only [pure_eq, Except.ok.injEq] at h
        subst h
        have hlt := children_size b sv (fieldsOf_mem _ b fs hfs sv (field_mem fs 0 sv hsv))
        cases sv with
        | arr g xs =>
          rw [cavsOfV] at hcs
          have := hQ f rfl xs.toList cs hcs
          rw [sizeList_toList] at this
          simp only [size] at hlt
          simp only [cavCount]
          unfold cavCountList at this
          omega
        | _ => simp [cavsOfV] at hcs
  · rw [cavCount_leaf c (cavOfV_leaf_of_ne fuel typ b c h13 h)]
    exact size_pos b

theorem count_all : ∀ fuel, BodyCount fuel ∧ PairsCount fuel := by
  intro fuel
  induction fuel with
  | zero =>
    have p := bodyCount_step 0 (fun f hf => by omega)
    exact ⟨p, pairsCount_of_bodyCount 0 p⟩
  | succ n ih =>
    have p := bodyCount_step (n + 1) (fun f hf => by cases hf; exact ih.2)
    exact ⟨p, pairsCount_of_bodyCount _ p⟩

/-- a decoded caveat set holds, wrappers included, fewer caveats than the tree it was read from has nodes -/
theorem cavsOfV_count (fuel : Nat) (v : V) (cs : List (Cav Bytes)) (h : cavsOfV fuel v = Except.ok cs) :
    cavCountList cs < size v := by
  cases v with
  | arr f xs =>
    rw [cavsOfV] at h
    have := (count_all fuel).2 xs.toList cs h
    rw [sizeList_toList] at this
    simp only [size]; omega
  | _ => simp [cavsOfV] at h

/-! ### bodies of unknown type: unhashable map keys are refused -/

/-- a map key that Go cannot hash: array, map or byte string -/
def unhashableKey : V → Bool
  | .arr .. => true
  | .map .. => true
  | .bin .. => true
  | _ => false

mutual
/-- somewhere in the tree a map has an unhashable key -/
def hasBadKey : V → Bool
  | .arr _ xs => hasBadKeyL xs
  | .map _ kvs => hasBadKeyKV kvs
  | _ => false
def hasBadKeyL : VL → Bool
  | .nil => false
  | .cons v vs => hasBadKey v || hasBadKeyL vs
def hasBadKeyKV : VL → Bool
  | .nil => false
  | .cons _ .nil => false
  | .cons k (.cons v rest) => unhashableKey k || hasBadKey k || hasBadKey v || hasBadKeyKV rest
end

mutual
theorem genericOk_noBadKey : (v : V) → genericOk v = true → hasBadKey v = false
  | .nil, _ => rfl
  | .bool _, _ => rfl
  | .int _ _, _ => rfl
  | .f32 _, _ => rfl
  | .f64 _, _ => rfl
  | .str _ _, _ => rfl
  | .bin _ _, _ => rfl
  | .ext _ _ _, _ => rfl
  | .arr _ xs, h => by
    simp only [genericOk] at h
    simp only [hasBadKey]; exact genericOkL_noBadKey xs h
  | .map _ kvs, h => by
    simp only [genericOk] at h
    simp only [hasBadKey]; exact genericOkKV_noBadKey kvs h
theorem genericOkL_noBadKey : (vs : VL) → genericOkL vs = true → hasBadKeyL vs = false
  | .nil, _ => rfl
  | .cons v vs, h => by
    simp only [genericOkL, Bool.and_eq_true] at h
    simp only [hasBadKeyL, genericOk_noBadKey v h.1, genericOkL_noBadKey vs h.2, Bool.or_self]
theorem genericOkKV_noBadKey : (kvs : VL) → genericOkKV kvs = true → hasBadKeyKV kvs = false
  | .nil, _ => rfl
  | .cons _ .nil, _ => rfl
  | .cons k (.cons v rest), h => by
    simp only [genericOkKV, Bool.and_eq_true] at h
    obtain ⟨⟨hk, hv⟩, hr⟩ := h
    have hk2 : unhashableKey k = false ∧ genericOk k = true := by
      cases k <;> simp_all [unhashableKey]
    simp only [hasBadKeyKV, hk2.1, genericOk_noBadKey k hk2.2, genericOk_noBadKey v hv,
      genericOkKV_noBadKey rest hr, Bool.or_self]
end

/-- an unregistered type number never accepts a body in which some map has an array, map or
byte-string key -/
theorem unregistered_badKey_rejected (fuel t : Nat) (v : V) (ht : registered t = false)
    (hb : hasBadKey v = true) : cavOfV fuel t v = Except.error () := by
  rw [cavOfV_default fuel t v ht]
  have hg : genericOk v = false := by
    cases hgo : genericOk v with
    | false => rfl
    | true => rw [genericOk_noBadKey v hgo] at hb; cases hb
  cases v with
  | nil => simp [hasBadKey] at hb
  | _ => simp only [hg]; rfl

end Dec

/-! ### the decoders on bytes -/

namespace Dec

theorem optCavs_count (fuel : Nat) (ov : Option V) (cs : List (Cav Bytes)) (n : Nat)
    (hv : ∀ v, ov = some v → size v < n) (h : optCavs fuel ov = Except.ok cs) : cavCountList cs < n + 1 := by
  unfold optCavs at h
  split at h
  · simp only [pure_eq, Except.ok.injEq] at h; subst h; rw [cavCountList_nil]; omega
  · simp only [pure_eq, Except.ok.injEq] at h; subst h; rw [cavCountList_nil]; omega
  · rename_i cv _
    have := hv cv rfl
    have := cavsOfV_count fuel cv cs h
    omega

theorem macOfV_count (fuel : Nat) (v : V) (m : WireMac) (h : macOfV fuel v = Except.ok m) :
    cavCountList m.cavs < size v + 1 := by
  rw [macOfV_eq] at h
  obtain ⟨fs, hfs, h⟩ := bind_eq_ok.mp h
  obtain ⟨nonce, _, h⟩ := bind_eq_ok.mp h
  obtain ⟨loc, _, h⟩ := bind_eq_ok.mp h
  obtain ⟨cavs, hc, h⟩ := bind_eq_ok.mp h
  obtain ⟨tail, _, h⟩ := bind_eq_ok.mp h
  simp only [pure_eq, Except.ok.injEq] at h
  subst h
  exact optCavs_count fuel _ cavs (size v)
    (fun w hw => children_size v w (fieldsOf_mem _ v fs hfs w (field_mem fs 2 w hw))) hc

theorem ticketOfV_count (fuel : Nat) (v : V) (dk : Bytes) (cs : List (Cav Bytes))
    (h : ticketOfV fuel v = Except.ok (dk, cs)) : cavCountList cs < size v + 1 := by
  rw [ticketOfV_eq] at h
  obtain ⟨fs, hfs, h⟩ := bind_eq_ok.mp h
  obtain ⟨dk', _, h⟩ := bind_eq_ok.mp h
  obtain ⟨cavs, hc, h⟩ := bind_eq_ok.mp h
  simp only [pure_eq, Except.ok.injEq, Prod.mk.injEq] at h
  obtain ⟨rfl, rfl⟩ := h
  exact optCavs_count fuel _ _ (size v)
    (fun w hw => children_size v w (fieldsOf_mem _ v fs hfs w (field_mem fs 1 w hw))) hc

end Dec

/-- `DecodeCaveats`: fewer caveats (at all depths) than input bytes -/
theorem decodeCavs_count (fuel : Nat) (bs : Bytes) (cs : List (Cav Bytes))
    (h : decodeCavs fuel bs = some cs) : cavCountList cs < bs.length := by
  obtain ⟨v, rest, hd, hc⟩ := decodeCavs_eq_some h
  have h1 := size_add_rest_le fuel bs v rest hd
  have h2 := cavsOfV_count fuel v cs hc
  omega

/-- `Decode`: no more caveats (at all depths) than input bytes -/
theorem decodeMac_count (fuel : Nat) (bs : Bytes) (m : WireMac)
    (h : decodeMac fuel bs = some m) : cavCountList m.cavs ≤ bs.length := by
  unfold decodeMac at h
  cases hd : dec fuel bs with
  | none => rw [hd] at h; cases h
  | some p =>
    obtain ⟨v, rest⟩ := p
    rw [hd] at h
    have h1 := size_add_rest_le fuel bs v rest hd
    have h2 := macOfV_count fuel v m (toOption_eq_some.mp h)
    omega

/-- ticket plaintexts -/
theorem decodeTicket_count (fuel : Nat) (bs dk : Bytes) (cs : List (Cav Bytes))
    (h : decodeTicket fuel bs = some (dk, cs)) : cavCountList cs ≤ bs.length := by
  unfold decodeTicket at h
  cases hd : dec fuel bs with
  | none => rw [hd] at h; cases h
  | some p =>
    obtain ⟨v, rest⟩ := p
    rw [hd] at h
    have h1 := size_add_rest_le fuel bs v rest hd
    have h2 := ticketOfV_count fuel v dk cs (toOption_eq_some.mp h)
    omega

end Macaroon
