/-
Helper lemmas for C16: well-formedness of the store, the history/trace vocabulary used by the
property statements, and the two invariants (handler-level histories, store-operation schedules).
-/
import Macaroon.TP.Server

namespace Macaroon.TP

/-! ### store well-formedness -/

/-- the two keys of the flow whose record is at address `a`: secrets are drawn in pairs -/
def flowKey (a : Nat) : Role → Key
  | .user => userKey (2 * a)
  | .poll => pollKey (2 * a + 1)

theorem flowKey_role (a : Nat) (r : Role) : (flowKey a r).role = r := by cases r <;> rfl

theorem flowKey_inj {a b : Nat} {r q : Role} (h : flowKey a r = flowKey b q) : a = b ∧ r = q := by
  cases r <;> cases q <;> simp [flowKey] at h ⊢ <;> omega

structure Store.WF (st : Store) : Prop where
  next_eq : st.next = 2 * st.heap.length
  heap_keys : ∀ a r, st.heap[a]? = some r → r.userKey = flowKey a .user ∧ r.pollKey = flowKey a .poll
  keys_wf : ∀ k a, (k, a) ∈ st.keys → a < st.heap.length ∧ k = flowKey a k.role

theorem Store.WF.empty : Store.empty.WF :=
  ⟨rfl, by simp [Store.empty], by simp [Store.empty]⟩

theorem lookup_mem {k : Key} {a : Nat} {l : List (Key × Nat)} (h : l.lookup k = some a) : (k, a) ∈ l := by
  induction l with
  | nil => simp at h
  | cons e l ih =>
    obtain ⟨k', a'⟩ := e
    rw [List.lookup_cons] at h
    by_cases hk : k = k'
    · subst hk; simp at h; simp [h]
    · have : (k == k') = false := by simpa using hk
      rw [this] at h
      exact List.mem_cons_of_mem _ (ih h)

theorem lookup_none {k : Key} {l : List (Key × Nat)} (h : l.lookup k = none) : ∀ a, (k, a) ∉ l := by
  induction l with
  | nil => simp
  | cons e l ih =>
    obtain ⟨k', a'⟩ := e
    rw [List.lookup_cons] at h
    by_cases hk : k = k'
    · subst hk; simp at h
    · have hb : (k == k') = false := by simpa using hk
      rw [hb] at h
      intro a hm
      rcases List.mem_cons.1 hm with he | hm
      · exact hk (by simpa using (congrArg Prod.fst he))
      · exact ih h a hm

theorem Store.addr_mem {st : Store} {k : Key} {a : Nat} (h : st.addr k = some a) : (k, a) ∈ st.keys :=
  lookup_mem h

theorem Store.WF.addr_flowKey {st : Store} (wf : st.WF) {k : Key} {a : Nat} (h : st.addr k = some a) :
    a < st.heap.length ∧ k = flowKey a k.role :=
  wf.keys_wf k a (Store.addr_mem h)

/-- a key that is present is found, at the address its name says -/
theorem Store.WF.mem_addr {st : Store} (wf : st.WF) {k : Key} {a : Nat} (h : (k, a) ∈ st.keys) :
    st.addr k = some a := by
  cases hl : st.addr k with
  | none => exact absurd h (lookup_none hl a)
  | some b =>
    have h1 := (wf.keys_wf k a h).2
    have h2 := (wf.addr_flowKey hl).2
    have := (flowKey_inj (h1.symm.trans h2)).1
    rw [this]

theorem Store.addr_none_iff {st : Store} {k : Key} : st.addr k = none ↔ ∀ a, (k, a) ∉ st.keys := by
  constructor
  · exact lookup_none
  · intro h
    cases hl : st.addr k with
    | none => rfl
    | some a => exact absurd (Store.addr_mem hl) (h a)

theorem Store.WF.get_some {st : Store} (wf : st.WF) {k : Key} {d : Data} (h : st.get k = some d) :
    ∃ a r, st.addr k = some a ∧ st.heap[a]? = some r ∧ r.data = d ∧ k = flowKey a k.role := by
  unfold Store.get at h
  cases ha : st.addr k with
  | none => simp [ha] at h
  | some a =>
    simp only [ha] at h
    cases hr : st.heap[a]? with
    | none => simp [hr] at h
    | some r =>
      simp [hr] at h
      exact ⟨a, r, rfl, hr, h, (wf.addr_flowKey ha).2⟩

theorem Store.get_none_of_addr {st : Store} {k : Key} (h : st.addr k = none) : st.get k = none := by
  simp [Store.get, h]

theorem Store.WF.get_of_addr {st : Store} (wf : st.WF) {k : Key} {a : Nat} (h : st.addr k = some a) :
    ∃ r, st.heap[a]? = some r ∧ st.get k = some r.data := by
  have hlt := (wf.addr_flowKey h).1
  have : st.heap[a]? = some st.heap[a] := List.getElem?_eq_getElem hlt
  exact ⟨st.heap[a], this, by simp [Store.get, h, this]⟩

/-! #### the store operations preserve well-formedness -/

theorem Store.WF.insert {st : Store} (wf : st.WF) (d : Data) : (st.insert d).1.WF := by
  refine ⟨?_, ?_, ?_⟩
  · simp [Store.insert, wf.next_eq]; omega
  · intro a r h
    simp only [Store.insert] at h
    rw [List.getElem?_append] at h
    split at h
    · exact wf.heap_keys a r h
    · rename_i hge
      have hge : st.heap.length ≤ a := Nat.le_of_not_lt hge
      cases hz : a - st.heap.length with
      | zero =>
        have : a = st.heap.length := by omega
        subst this
        simp at h
        subst h
        simp [flowKey, wf.next_eq]
      | succ n => simp [hz] at h
  · intro k a h
    simp only [Store.insert, List.mem_cons] at h
    rcases h with h | h | h
    · simp only [Prod.mk.injEq] at h
      obtain ⟨rfl, rfl⟩ := h
      simp [Store.insert, flowKey, wf.next_eq]
    · simp only [Prod.mk.injEq] at h
      obtain ⟨rfl, rfl⟩ := h
      simp [Store.insert, flowKey, wf.next_eq]
    · have := wf.keys_wf k a h
      simp only [Store.insert, List.length_append, List.length_cons, List.length_nil]
      exact ⟨by omega, this.2⟩

theorem Store.update_eq {st : Store} {k : Key} {d : Data} {st' : Store} (h : st.update k d = some st') :
    ∃ a, st.addr k = some a ∧
      st' = { st with heap := st.heap.modify a (fun r => { r with data := d }) } := by
  unfold Store.update at h
  cases ha : st.addr k with
  | none => simp [ha] at h
  | some a => simp [ha] at h; exact ⟨a, rfl, h.symm⟩

theorem Store.WF.modify {st : Store} (wf : st.WF) (a : Nat) (d : Data) :
    ({ st with heap := st.heap.modify a (fun r => { r with data := d }) } : Store).WF := by
  refine ⟨?_, ?_, ?_⟩
  · simp [wf.next_eq]
  · intro b r h
    simp only [List.getElem?_modify] at h
    cases hb : st.heap[b]? with
    | none => simp [hb] at h
    | some r0 =>
      simp [hb] at h
      have := wf.heap_keys b r0 hb
      by_cases hab : a = b
      · simp [hab] at h; subst h; exact this
      · simp [hab] at h; subst h; exact this
  · intro k b h
    simpa using wf.keys_wf k b h

theorem Store.WF.remove {st : Store} (wf : st.WF) (a : Nat) : (st.remove a).WF := by
  unfold Store.remove
  split
  · refine ⟨wf.next_eq, wf.heap_keys, ?_⟩
    intro k b h
    exact wf.keys_wf k b (List.mem_filter.1 h).1
  · exact wf

theorem Store.WF.evict {st : Store} (wf : st.WF) (k : Key) : (st.evict k).WF := by
  refine ⟨wf.next_eq, wf.heap_keys, ?_⟩
  intro k' b h
  exact wf.keys_wf k' b (List.mem_filter.1 h).1

/-- after `remove a` no key points to `a` any more -/
theorem Store.WF.remove_gone {st : Store} (wf : st.WF) {a : Nat} (ha : a < st.heap.length) :
    ∀ e ∈ (st.remove a).keys, e.2 ≠ a := by
  have hr : st.heap[a]? = some st.heap[a] := List.getElem?_eq_getElem ha
  intro e he
  simp only [Store.remove, hr] at he
  have := List.mem_filter.1 he
  obtain ⟨k, b⟩ := e
  have hk := (wf.keys_wf k b this.1).2
  have hh := wf.heap_keys a _ hr
  intro hba
  simp only at hba
  subst hba
  have h2 := this.2
  simp only [Bool.and_eq_true, bne_iff_ne, ne_eq] at h2
  rw [hh.1, hh.2] at h2
  cases hrole : k.role <;> rw [hrole] at hk <;> simp [hk] at h2

theorem Store.remove_keys_subset {st : Store} {a : Nat} : ∀ e ∈ (st.remove a).keys, e ∈ st.keys := by
  intro e he
  unfold Store.remove at he
  split at he
  · exact (List.mem_filter.1 he).1
  · exact he

/-- `remove a` keeps the keys of other flows -/
theorem Store.WF.remove_keeps {st : Store} (wf : st.WF) {a b : Nat} {k : Key} (h : (k, b) ∈ st.keys) (hab : b ≠ a) :
    (k, b) ∈ (st.remove a).keys := by
  unfold Store.remove
  split
  · rename_i r hr
    refine List.mem_filter.2 ⟨h, ?_⟩
    have hk := (wf.keys_wf k b h).2
    have hh := wf.heap_keys a r hr
    simp only [Bool.and_eq_true, bne_iff_ne, ne_eq]
    rw [hh.1, hh.2, hk]
    constructor <;> intro hc <;> exact hab (flowKey_inj hc).1
  · exact h

/-! ### vocabulary of the handler-level statements (histories are newest first) -/

/-- the response body is an answer stored by a decision -/
def Body.isAnswer : Body → Bool
  | .discharge _ => true
  | .error _ => true
  | _ => false

/-- a poll that handed out the stored answer (discharge or error) -/
def Out.delivers : Out → Bool
  | .http _ b _ => b.isAnswer
  | _ => false

/-- the event is an `init` with an opening ticket that answered with fresh secrets `ps`, `us` -/
def IssuingEv (e : Action × Out) (tid : Nat) (ps us : Secret) : Prop :=
  ∃ m b, e = (Action.init (sealer tid) (.good tid) m, Out.http 201 b true) ∧ (b = .pollUrl ps us ∨ b = .userUrls ps us)

/-- flow `(ps, us)` was started by an `init` on ticket `good tid` -/
def Issued (h : Hist) (tid : Nat) (ps us : Secret) : Prop := ∃ e ∈ h, IssuingEv e tid ps us

/-- the key was handed out by some `init`, in that role -/
def IssuedKey (h : Hist) (k : Key) : Prop :=
  ∃ tid ps us, Issued h tid ps us ∧ (k = pollKey ps ∨ k = userKey us)

/-- a successful decision of the application on the flow `(ps, us)` -/
def decisionOf (ps us : Secret) : Action × Out → Option Decision
  | (.decide _ .poll s d, .api true) => if s = ps then some d else none
  | (.decide _ .user s d, .api true) => if s = us then some d else none
  | _ => none

/-- the latest successful decision on the flow `(ps, us)` -/
def lastDecision (ps us : Secret) : Hist → Option Decision
  | [] => none
  | e :: h =>
    match decisionOf ps us e with
    | some d => some d
    | none => lastDecision ps us h

/-- what a decision stores for the poller -/
def respOf (tid : Nat) : Option Decision → Option Resp
  | none => none
  | some (.approve cs) => some ⟨200, .discharge (mkDischarge tid cs)⟩
  | some (.abort msg) => some ⟨200, .error msg⟩

/-- some poll with `ps` delivered -/
def Collected (h : Hist) (ps : Secret) : Prop := ∃ v o, (Action.poll v ps, o) ∈ h ∧ o.delivers = true

/-- the LRU dropped the key at some point -/
def Evicted (h : Hist) (k : Key) : Prop := ∃ o, (Action.evict k, o) ∈ h

/-- the decision is one the service can record: an abort, or an approval whose caveats `Add` accepts -/
def Decision.ok : Decision → Bool
  | .approve cs => !refuses cs
  | .abort _ => true

theorem opens_some {v : Nat} {t : Ticket} {tid : Nat} (h : opens v t = some tid) : t = .good tid ∧ sealer tid = v := by
  cases t with
  | bad n => simp [opens] at h
  | good id =>
    simp only [opens] at h
    split at h
    · cases h; exact ⟨rfl, by assumption⟩
    · cases h

theorem opens_good (tid : Nat) : opens (sealer tid) (.good tid) = some tid := by simp [opens]

theorem opens_none_of_ne {v tid : Nat} (h : sealer tid ≠ v) : opens v (.good tid) = none := by simp [opens, h]

/-- what a recorded decision looks like: the new data, that `Add` accepted it, and — for an approval —
that the deciding service's key opens the stored ticket -/
theorem decideData_some {v : Nat} {sd nd : Data} {d : Decision} {tid : Nat} (ht : sd.ticket = .good tid)
    (h : decideData v sd d = some nd) :
    nd = { sd with resp := respOf tid (some d) } ∧ d.ok = true ∧ (∀ cs, d = .approve cs → sealer tid = v) := by
  obtain ⟨tk, rs⟩ := sd
  simp only at ht
  subst ht
  cases d with
  | abort m =>
    simp only [decideData, Option.some.injEq] at h
    exact ⟨by rw [← h]; rfl, rfl, by intro cs hc; cases hc⟩
  | approve cs =>
    simp only [decideData] at h
    cases ho : opens v (.good tid) with
    | none => simp [ho] at h
    | some t' =>
      have := opens_some ho
      obtain ⟨ht', hv⟩ := this
      cases ht'
      simp only [ho] at h
      split at h
      · cases h
      · rename_i hr
        cases h
        exact ⟨by simp [respOf], by simpa [Decision.ok] using hr, fun _ _ => hv⟩

theorem decideData_some_ok {v : Nat} {sd nd : Data} {d : Decision} (h : decideData v sd d = some nd) : d.ok = true := by
  cases d with
  | abort m => rfl
  | approve cs =>
    simp only [decideData] at h
    split at h
    · split at h
      · cases h
      · simp_all [Decision.ok]
    · cases h

theorem decideData_refused (v : Nat) (sd : Data) {cs : List Nat} (h : refuses cs = true) :
    decideData v sd (.approve cs) = none := by
  simp only [decideData]
  split <;> simp [h]

/-- an approval at a service whose key does not open the stored ticket is refused -/
theorem decideData_foreign {v : Nat} {sd : Data} (cs : List Nat) (h : opens v sd.ticket = none) :
    decideData v sd (.approve cs) = none := by
  simp [decideData, h]

theorem respOf_isAnswer {tid : Nat} {dec : Option Decision} {r : Resp} (h : respOf tid dec = some r) :
    r.body.isAnswer = true ∧ r.status = 200 := by
  cases dec with
  | none => simp [respOf] at h
  | some d => cases d <;> simp [respOf] at h <;> subst h <;> simp [Body.isAnswer]

theorem respOf_discharge {tid : Nat} {dec : Option Decision} {st : Nat} {d : Discharge}
    (h : respOf tid dec = some ⟨st, .discharge d⟩) : ∃ cs, dec = some (.approve cs) ∧ d = mkDischarge tid cs := by
  cases dec with
  | none => simp [respOf] at h
  | some x =>
    cases x with
    | approve cs => simp [respOf] at h; exact ⟨cs, rfl, h.2.symm⟩
    | abort m => simp [respOf] at h

/-! ### the handler-level step, by cases -/

/-- an event that changes nothing the invariant talks about -/
def Quiet (a : Action) (o : Out) : Prop :=
  (∀ ps us, decisionOf ps us (a, o) = none) ∧ (∀ tid ps us, ¬ IssuingEv (a, o) tid ps us) ∧
  (∀ v s, a = .poll v s → o.delivers = false) ∧ (∀ k, a ≠ .evict k)

inductive StepCase (st : Store) : Action → Store → Out → Prop
  | quiet {a o} : Quiet a o → StepCase st a st o
  | insert {tid m b} : (b = .pollUrl (st.next + 1) st.next ∨ b = .userUrls (st.next + 1) st.next) →
      StepCase st (.init (sealer tid) (.good tid) m) (st.insert ⟨.good tid, none⟩).1 (.http 201 b true)
  | decide {v r s d a rc nd} : st.addr ⟨r, s⟩ = some a → st.heap[a]? = some rc → decideData v rc.data d = some nd →
      StepCase st (.decide v r s d) { st with heap := st.heap.modify a (fun x => { x with data := nd }) } (.api true)
  | deliver {v s a rc rsp} : st.addr (pollKey s) = some a → st.heap[a]? = some rc → rc.data.resp = some rsp →
      opens v rc.data.ticket ≠ none → StepCase st (.poll v s) (st.remove a) (deliver rsp)
  | evict {k} : StepCase st (.evict k) (st.evict k) .silent

macro "quiet_tac" : tactic =>
  `(tactic| (refine ⟨?_, ?_, ?_, ?_⟩ <;> intros <;>
      simp_all [decisionOf, IssuingEv, Out.delivers, Body.isAnswer, outNotFound, outInternal, outNotReady] <;>
      (try (intros; subst_vars; simp))))

theorem step_cases' {st : Store} (wf : st.WF) (a : Action) (st' : Store) (o : Out) (h : step st a = (st', o)) :
    StepCase st a st' o := by
  cases a with
  | init v t m =>
    cases ho : opens v t with
    | none => simp [step, ho] at h; obtain ⟨rfl, rfl⟩ := h; exact .quiet (by quiet_tac)
    | some tid =>
      obtain ⟨rfl, rfl⟩ := opens_some ho
      cases m with
      | immediate cs =>
        by_cases hr : refuses cs = true
        · simp [step, ho, initGood, hr] at h; obtain ⟨rfl, rfl⟩ := h; exact .quiet (by quiet_tac)
        · simp [step, ho, initGood, hr] at h; obtain ⟨rfl, rfl⟩ := h; exact .quiet (by quiet_tac)
      | poll => simp [step, ho, initGood] at h; obtain ⟨rfl, rfl⟩ := h; exact .insert (.inl rfl)
      | userInteractive => simp [step, ho, initGood] at h; obtain ⟨rfl, rfl⟩ := h; exact .insert (.inr rfl)
      | refuse s m => simp [step, ho, initGood] at h; obtain ⟨rfl, rfl⟩ := h; exact .quiet (by quiet_tac)
      | noResponse => simp [step, ho, initGood] at h; obtain ⟨rfl, rfl⟩ := h; exact .quiet (by quiet_tac)
  | poll v s =>
    simp only [step] at h
    cases hg : st.get (pollKey s) with
    | none => simp [hg] at h; obtain ⟨rfl, rfl⟩ := h; exact .quiet (by quiet_tac)
    | some sd =>
      obtain ⟨a, rc, ha, hr, hd, _⟩ := wf.get_some hg
      cases ht : opens v sd.ticket with
      | none => simp [hg, ht] at h; obtain ⟨rfl, rfl⟩ := h; exact .quiet (by quiet_tac)
      | some tid =>
        cases hrsp : sd.resp with
        | none => simp [hg, ht, hrsp] at h; obtain ⟨rfl, rfl⟩ := h; exact .quiet (by quiet_tac)
        | some rsp =>
          simp [hg, ht, hrsp, Store.delete, ha] at h
          obtain ⟨rfl, rfl⟩ := h
          exact .deliver ha hr (by rw [hd]; exact hrsp) (by rw [hd, ht]; simp)
  | userVisit v s =>
    simp only [step] at h
    cases hg : st.get (userKey s) with
    | none => simp [hg] at h; obtain ⟨rfl, rfl⟩ := h; exact .quiet (by quiet_tac)
    | some sd =>
      cases ht : opens v sd.ticket with
      | none => simp [hg, ht] at h; obtain ⟨rfl, rfl⟩ := h; exact .quiet (by quiet_tac)
      | some tid => simp [hg, ht] at h; obtain ⟨rfl, rfl⟩ := h; exact .quiet (by quiet_tac)
  | decide v r s d =>
    simp only [step] at h
    cases hg : st.get ⟨r, s⟩ with
    | none => simp [hg] at h; obtain ⟨rfl, rfl⟩ := h; exact .quiet (by quiet_tac)
    | some sd =>
      obtain ⟨a, rc, ha, hr, hd, _⟩ := wf.get_some hg
      cases hdd : decideData v sd d with
      | none => simp [hg, hdd] at h; obtain ⟨rfl, rfl⟩ := h; exact .quiet (by quiet_tac)
      | some nd =>
        simp [hg, hdd, Store.update, ha] at h
        obtain ⟨rfl, rfl⟩ := h
        exact .decide ha hr (by rw [hd]; exact hdd)
  | evict k => simp [step] at h; obtain ⟨rfl, rfl⟩ := h; exact .evict

theorem step_cases {st : Store} (wf : st.WF) (a : Action) : StepCase st a (step st a).1 (step st a).2 :=
  step_cases' wf a _ _ rfl

/-! ### the handler-level invariant -/

theorem Issued.mono {h : Hist} {tid ps us : Nat} (e : Action × Out) (hi : Issued h tid ps us) : Issued (e :: h) tid ps us := by
  obtain ⟨x, hx, hxe⟩ := hi
  exact ⟨x, List.mem_cons_of_mem _ hx, hxe⟩

theorem Issued_cons {h : Hist} {tid ps us : Nat} {e : Action × Out} (hi : Issued (e :: h) tid ps us) :
    IssuingEv e tid ps us ∨ Issued h tid ps us := by
  obtain ⟨x, hx, hxe⟩ := hi
  rcases List.mem_cons.1 hx with rfl | hx
  · exact .inl hxe
  · exact .inr ⟨x, hx, hxe⟩

theorem Collected.mono {h : Hist} {ps : Nat} (e : Action × Out) (hc : Collected h ps) : Collected (e :: h) ps := by
  obtain ⟨v, o, ho, hd⟩ := hc
  exact ⟨v, o, List.mem_cons_of_mem _ ho, hd⟩

theorem Collected_cons {h : Hist} {ps : Nat} {a : Action} {o : Out} (hc : Collected ((a, o) :: h) ps) :
    ((∃ v, a = .poll v ps) ∧ o.delivers = true) ∨ Collected h ps := by
  obtain ⟨v, o', ho, hd⟩ := hc
  rcases List.mem_cons.1 ho with he | ho
  · simp only [Prod.mk.injEq] at he
    exact .inl ⟨⟨v, he.1.symm⟩, he.2 ▸ hd⟩
  · exact .inr ⟨v, o', ho, hd⟩

theorem Evicted.mono {h : Hist} {k : Key} (e : Action × Out) (hc : Evicted h k) : Evicted (e :: h) k := by
  obtain ⟨o, ho⟩ := hc
  exact ⟨o, List.mem_cons_of_mem _ ho⟩

theorem lastDecision_cons_none {ps us : Nat} {e : Action × Out} {h : Hist} (hn : decisionOf ps us e = none) :
    lastDecision ps us (e :: h) = lastDecision ps us h := by
  simp [lastDecision, hn]

theorem lastDecision_cons_some {ps us : Nat} {e : Action × Out} {h : Hist} {d : Decision} (hn : decisionOf ps us e = some d) :
    lastDecision ps us (e :: h) = some d := by
  simp [lastDecision, hn]

/-- a successful decision through key `flowKey a r` is a decision on flow `a` and on no other -/
theorem decisionOf_flowKey (v a b : Nat) (r : Role) (s : Nat) (d : Decision) (hk : (⟨r, s⟩ : Key) = flowKey a r) :
    decisionOf (2 * b + 1) (2 * b) (.decide v r s d, .api true) = if a = b then some d else none := by
  cases r <;> simp [flowKey] at hk <;> subst hk <;> simp [decisionOf] <;> split <;> split <;> first | rfl | omega

structure Inv (st : Store) (h : Hist) : Prop where
  wf : st.WF
  flows : ∀ a r, st.heap[a]? = some r → ∃ tid, r.data.ticket = .good tid ∧ Issued h tid (2 * a + 1) (2 * a) ∧
    r.data.resp = respOf tid (lastDecision (2 * a + 1) (2 * a) h)
  fresh : ∀ a, st.heap.length ≤ a → lastDecision (2 * a + 1) (2 * a) h = none
  issued : ∀ tid ps us, Issued h tid ps us → ∃ a, a < st.heap.length ∧ ps = 2 * a + 1 ∧ us = 2 * a
  gone : ∀ a, Collected h (2 * a + 1) → a < st.heap.length ∧ ∀ e ∈ st.keys, e.2 ≠ a
  live : ∀ a r, a < st.heap.length → (flowKey a r, a) ∈ st.keys ∨ Evicted h (flowKey a r) ∨ Collected h (2 * a + 1)
  issued_ticket : ∀ tid a, Issued h tid (2 * a + 1) (2 * a) → ∃ r, st.heap[a]? = some r ∧ r.data.ticket = .good tid
  collected_decided : ∀ a, Collected h (2 * a + 1) → lastDecision (2 * a + 1) (2 * a) h ≠ none

theorem Inv.init : Inv Store.empty [] :=
  ⟨Store.WF.empty, by simp [Store.empty], by simp [lastDecision],
   by intro tid ps us ⟨e, he, _⟩; simp at he,
   by intro a ⟨v, o, ho, _⟩; simp at ho,
   by simp [Store.empty],
   by intro tid a ⟨e, he, _⟩; simp at he,
   by intro a ⟨v, o, ho, _⟩; simp at ho⟩

theorem Inv.next {st : Store} {h : Hist} (inv : Inv st h) {a : Action} {st' : Store} {o : Out}
    (sc : StepCase st a st' o) : Inv st' ((a, o) :: h) := by
  cases sc with
  | quiet hq =>
    obtain ⟨q1, q2, q3, q4⟩ := hq
    refine ⟨inv.wf, ?_, ?_, ?_, ?_, ?_, ?_, ?_⟩
    rotate_left 5
    · intro t c hi
      rcases Issued_cons hi with hi | hi
      · exact absurd hi (q2 _ _ _)
      · exact inv.issued_ticket _ _ hi
    · intro c hc
      rcases Collected_cons hc with ⟨⟨v, hp⟩, hd⟩ | hc
      · rw [q3 _ _ hp] at hd; exact absurd hd (by simp)
      · rw [lastDecision_cons_none (q1 _ _)]; exact inv.collected_decided c hc
    · intro b r hr
      obtain ⟨tid, h1, h2, h3⟩ := inv.flows b r hr
      exact ⟨tid, h1, h2.mono _, by rw [lastDecision_cons_none (q1 _ _)]; exact h3⟩
    · intro b hb; rw [lastDecision_cons_none (q1 _ _)]; exact inv.fresh b hb
    · intro tid ps us hi
      rcases Issued_cons hi with hi | hi
      · exact absurd hi (q2 _ _ _)
      · exact inv.issued _ _ _ hi
    · intro b hc
      rcases Collected_cons hc with ⟨⟨v, hp⟩, hd⟩ | hc
      · rw [q3 _ _ hp] at hd; exact absurd hd (by simp)
      · exact inv.gone b hc
    · intro b r hb
      rcases inv.live b r hb with hl | hl | hl
      · exact .inl hl
      · exact .inr (.inl (hl.mono _))
      · exact .inr (.inr (hl.mono _))
  | @insert tid m b hb =>
    have hdn : ∀ ps us, decisionOf ps us (Action.init (sealer tid) (.good tid) m, Out.http 201 b true) = none := by
      intro ps us; simp [decisionOf]
    have hlen : (st.insert ⟨.good tid, none⟩).1.heap.length = st.heap.length + 1 := by simp [Store.insert]
    have hnew : Issued ((Action.init (sealer tid) (.good tid) m, Out.http 201 b true) :: h) tid (2 * st.heap.length + 1) (2 * st.heap.length) := by
      refine ⟨_, List.mem_cons_self, m, b, rfl, ?_⟩
      rw [← inv.wf.next_eq]; exact hb
    refine ⟨inv.wf.insert _, ?_, ?_, ?_, ?_, ?_, ?_, ?_⟩
    rotate_left 5
    · intro t c hi
      rcases Issued_cons hi with hi | hi
      · obtain ⟨m', b', he, hb'⟩ := hi
        simp only [Prod.mk.injEq, Action.init.injEq, Out.http.injEq, Ticket.good.injEq] at he
        obtain ⟨⟨_, rfl, _⟩, _, rfl, _⟩ := he
        have hn := inv.wf.next_eq
        have : c = st.heap.length := by
          rcases hb with rfl | rfl <;> rcases hb' with hb' | hb' <;> simp at hb' <;> omega
        subst this
        exact ⟨⟨⟨.good tid, none⟩, userKey st.next, pollKey (st.next + 1)⟩, by simp [Store.insert], rfl⟩
      · obtain ⟨r, hr, ht⟩ := inv.issued_ticket _ _ hi
        have hlt : c < st.heap.length := by
          rcases Nat.lt_or_ge c st.heap.length with hlt | hge
          · exact hlt
          · rw [List.getElem?_eq_none hge] at hr; cases hr
        exact ⟨r, by simp only [Store.insert]; rw [List.getElem?_append_left hlt]; exact hr, ht⟩
    · intro c hc
      rcases Collected_cons hc with ⟨⟨v', hp⟩, _⟩ | hc
      · cases hp
      · rw [lastDecision_cons_none (hdn _ _)]; exact inv.collected_decided c hc
    · intro c r hr
      simp only [Store.insert] at hr
      rw [List.getElem?_append] at hr
      split at hr
      · obtain ⟨t, h1, h2, h3⟩ := inv.flows c r hr
        exact ⟨t, h1, h2.mono _, by rw [lastDecision_cons_none (hdn _ _)]; exact h3⟩
      · rename_i hge
        cases hz : c - st.heap.length with
        | zero =>
          have : c = st.heap.length := by omega
          subst this
          simp at hr
          subst hr
          refine ⟨tid, rfl, hnew, ?_⟩
          rw [lastDecision_cons_none (hdn _ _), inv.fresh _ (Nat.le_refl _)]
          rfl
        | succ n => simp [hz] at hr
    · intro c hc
      rw [lastDecision_cons_none (hdn _ _)]
      exact inv.fresh c (by omega)
    · intro t ps us hi
      rcases Issued_cons hi with hi | hi
      · obtain ⟨m', b', he, hb'⟩ := hi
        simp only [Prod.mk.injEq, Action.init.injEq, Out.http.injEq] at he
        obtain ⟨⟨_, _⟩, _, rfl, _⟩ := he
        refine ⟨st.heap.length, by omega, ?_⟩
        have hn := inv.wf.next_eq
        rcases hb with rfl | rfl <;> rcases hb' with hb' | hb' <;> simp at hb' <;> omega
      · obtain ⟨c, h1, h2⟩ := inv.issued _ _ _ hi
        exact ⟨c, by omega, h2⟩
    · intro c hc
      rcases Collected_cons hc with ⟨⟨v', hp⟩, _⟩ | hc
      · cases hp
      · obtain ⟨h1, h2⟩ := inv.gone c hc
        refine ⟨by omega, ?_⟩
        intro e he
        simp only [Store.insert, List.mem_cons] at he
        rcases he with rfl | rfl | he
        · simp; omega
        · simp; omega
        · exact h2 e he
    · intro c r hc
      by_cases hlt : c < st.heap.length
      · rcases inv.live c r hlt with hl | hl | hl
        · exact .inl (by simp only [Store.insert]; exact List.mem_cons_of_mem _ (List.mem_cons_of_mem _ hl))
        · exact .inr (.inl (hl.mono _))
        · exact .inr (.inr (hl.mono _))
      · have : c = st.heap.length := by omega
        subst this
        refine .inl ?_
        have hn := inv.wf.next_eq
        cases r <;> simp [Store.insert, flowKey, hn]
  | @decide v r s d a0 rc nd ha hr hdd =>
    obtain ⟨ha0, hk⟩ := inv.wf.addr_flowKey ha
    simp only at hk
    obtain ⟨tid0, ht0, hi0, hresp0⟩ := inv.flows a0 rc hr
    have hnd : nd = { rc.data with resp := respOf tid0 (some d) } := (decideData_some ht0 hdd).1
    have hni : ∀ t ps us, ¬ IssuingEv (Action.decide v r s d, Out.api true) t ps us := by
      intro t ps us ⟨m, b, he, _⟩; simp at he
    refine ⟨inv.wf.modify a0 nd, ?_, ?_, ?_, ?_, ?_, ?_, ?_⟩
    rotate_left 5
    · intro t c hi
      rcases Issued_cons hi with hi | hi
      · exact absurd hi (hni _ _ _)
      · obtain ⟨r0, hr0, ht⟩ := inv.issued_ticket _ _ hi
        simp only [List.getElem?_modify, hr0, Option.map_eq_map, Option.map_some]
        by_cases hac : a0 = c
        · subst hac
          rw [hr] at hr0; cases hr0
          exact ⟨{ rc with data := nd }, by simp, by simp [hnd, ht]⟩
        · exact ⟨r0, by simp [hac], ht⟩
    · intro c hc
      rcases Collected_cons hc with ⟨⟨v', hp⟩, _⟩ | hc
      · cases hp
      · have := inv.collected_decided c hc
        by_cases hac : a0 = c
        · rw [lastDecision_cons_some (d := d) (by rw [decisionOf_flowKey v a0 c r s d hk]; simp [hac])]
          simp
        · rw [lastDecision_cons_none (by rw [decisionOf_flowKey v a0 c r s d hk]; simp [hac])]
          exact this
    · intro c r' hr'
      simp only [List.getElem?_modify] at hr'
      cases hc : st.heap[c]? with
      | none => simp [hc] at hr'
      | some r0 =>
        simp only [hc, Option.map_eq_map, Option.map_some, Option.some.injEq] at hr'
        obtain ⟨t, h1, h2, h3⟩ := inv.flows c r0 hc
        by_cases hac : a0 = c
        · subst hac
          rw [hr] at hc
          cases hc
          simp only [if_true] at hr'
          subst hr'
          have : t = tid0 := by rw [h1] at ht0; exact Ticket.good.inj ht0
          subst this
          refine ⟨t, ?_, h2.mono _, ?_⟩
          · rw [hnd]; exact h1
          · rw [lastDecision_cons_some (d := d) (by rw [decisionOf_flowKey v a0 a0 r s d hk]; simp)]
            rw [hnd]
        · simp only [hac, if_false] at hr'
          subst hr'
          refine ⟨t, h1, h2.mono _, ?_⟩
          rw [lastDecision_cons_none (by rw [decisionOf_flowKey v a0 c r s d hk]; simp [hac])]
          exact h3
    · intro c hc
      simp only [List.length_modify] at hc
      rw [lastDecision_cons_none (by rw [decisionOf_flowKey v a0 c r s d hk]; simp; omega)]
      exact inv.fresh c hc
    · intro t ps us hi
      rcases Issued_cons hi with hi | hi
      · exact absurd hi (hni _ _ _)
      · simpa using inv.issued _ _ _ hi
    · intro c hc
      rcases Collected_cons hc with ⟨⟨v', hp⟩, _⟩ | hc
      · cases hp
      · simpa using inv.gone c hc
    · intro c r' hc
      simp only [List.length_modify] at hc
      rcases inv.live c r' hc with hl | hl | hl
      · exact .inl hl
      · exact .inr (.inl (hl.mono _))
      · exact .inr (.inr (hl.mono _))
  | @deliver v s a0 rc rsp ha hr hrsp hopen =>
    obtain ⟨ha0, hk⟩ := inv.wf.addr_flowKey ha
    simp only [flowKey] at hk
    have hs : s = 2 * a0 + 1 := by simpa using hk
    have hdn : ∀ ps us, decisionOf ps us (Action.poll v s, deliver rsp) = none := by
      intro ps us; simp [decisionOf]
    have hni : ∀ t ps us, ¬ IssuingEv (Action.poll v s, deliver rsp) t ps us := by
      intro t ps us ⟨m, b, he, _⟩; simp at he
    have hheap : (st.remove a0).heap = st.heap := by
      unfold Store.remove; split <;> rfl
    obtain ⟨tid0, _, _, hresp0⟩ := inv.flows a0 rc hr
    have hdel : (deliver rsp).delivers = true := by
      rw [hrsp] at hresp0
      exact (respOf_isAnswer hresp0.symm).1
    refine ⟨inv.wf.remove a0, ?_, ?_, ?_, ?_, ?_, ?_, ?_⟩
    rotate_left 5
    · intro t c hi
      rw [hheap]
      rcases Issued_cons hi with hi | hi
      · exact absurd hi (hni _ _ _)
      · exact inv.issued_ticket _ _ hi
    · intro c hc
      rw [lastDecision_cons_none (hdn _ _)]
      rcases Collected_cons hc with ⟨⟨v', hp⟩, _⟩ | hc
      · have : c = a0 := by
          have := (Action.poll.inj hp).2
          omega
        subst this
        intro hnone
        rw [hnone, hrsp] at hresp0
        simp [respOf] at hresp0
      · exact inv.collected_decided c hc
    · intro c r hr'
      rw [hheap] at hr'
      obtain ⟨t, h1, h2, h3⟩ := inv.flows c r hr'
      exact ⟨t, h1, h2.mono _, by rw [lastDecision_cons_none (hdn _ _)]; exact h3⟩
    · intro c hc
      rw [hheap] at hc
      rw [lastDecision_cons_none (hdn _ _)]
      exact inv.fresh c hc
    · intro t ps us hi
      rw [hheap]
      rcases Issued_cons hi with hi | hi
      · exact absurd hi (hni _ _ _)
      · exact inv.issued _ _ _ hi
    · intro c hc
      rw [hheap]
      rcases Collected_cons hc with ⟨⟨v', hp⟩, _⟩ | hc
      · have : c = a0 := by
          have := (Action.poll.inj hp).2
          omega
        subst this
        exact ⟨ha0, inv.wf.remove_gone ha0⟩
      · obtain ⟨h1, h2⟩ := inv.gone c hc
        exact ⟨h1, fun e he => h2 e (Store.remove_keys_subset e he)⟩
    · intro c r hc
      rw [hheap] at hc
      by_cases hca : c = a0
      · subst hca
        exact .inr (.inr ⟨v, deliver rsp, by rw [hs]; exact List.mem_cons_self, hdel⟩)
      · rcases inv.live c r hc with hl | hl | hl
        · exact .inl (inv.wf.remove_keeps hl hca)
        · exact .inr (.inl (hl.mono _))
        · exact .inr (.inr (hl.mono _))
  | @evict k =>
    have hdn : ∀ ps us, decisionOf ps us (Action.evict k, Out.silent) = none := by
      intro ps us; simp [decisionOf]
    have hni : ∀ t ps us, ¬ IssuingEv (Action.evict k, Out.silent) t ps us := by
      intro t ps us ⟨m, b, he, _⟩; simp at he
    refine ⟨inv.wf.evict k, ?_, ?_, ?_, ?_, ?_, ?_, ?_⟩
    rotate_left 5
    · intro t c hi
      rcases Issued_cons hi with hi | hi
      · exact absurd hi (hni _ _ _)
      · exact inv.issued_ticket _ _ hi
    · intro c hc
      rw [lastDecision_cons_none (hdn _ _)]
      rcases Collected_cons hc with ⟨⟨v', hp⟩, _⟩ | hc
      · cases hp
      · exact inv.collected_decided c hc
    · intro c r hr'
      obtain ⟨t, h1, h2, h3⟩ := inv.flows c r hr'
      exact ⟨t, h1, h2.mono _, by rw [lastDecision_cons_none (hdn _ _)]; exact h3⟩
    · intro c hc
      rw [lastDecision_cons_none (hdn _ _)]
      exact inv.fresh c hc
    · intro t ps us hi
      rcases Issued_cons hi with hi | hi
      · exact absurd hi (hni _ _ _)
      · exact inv.issued _ _ _ hi
    · intro c hc
      rcases Collected_cons hc with ⟨⟨v', hp⟩, _⟩ | hc
      · cases hp
      · obtain ⟨h1, h2⟩ := inv.gone c hc
        exact ⟨h1, fun e he => h2 e (List.mem_filter.1 he).1⟩
    · intro c r hc
      by_cases hkc : flowKey c r = k
      · exact .inr (.inl ⟨.silent, by rw [hkc]; exact List.mem_cons_self⟩)
      · rcases inv.live c r hc with hl | hl | hl
        · exact .inl (List.mem_filter.2 ⟨hl, by simpa using hkc⟩)
        · exact .inr (.inl (hl.mono _))
        · exact .inr (.inr (hl.mono _))

theorem inv_stepH {c : Store × Hist} (inv : Inv c.1 c.2) (a : Action) : Inv (stepH c a).1 (stepH c a).2 :=
  inv.next (step_cases inv.wf a)

theorem inv_foldl {c : Store × Hist} (inv : Inv c.1 c.2) (as : List Action) :
    Inv (as.foldl stepH c).1 (as.foldl stepH c).2 := by
  induction as generalizing c with
  | nil => exact inv
  | cons a as ih => exact ih (inv_stepH inv a)

/-- every reachable (store, history) pair satisfies the invariant -/
theorem exec_inv (as : List Action) : Inv (exec as).1 (exec as).2 := inv_foldl Inv.init as

/-! ### only decisions that `Add` accepts are ever recorded -/

/-- every successful decision of the history is an abort or an approval whose caveats `Add` accepts -/
def DecOK (h : Hist) : Prop := ∀ v r s d, (Action.decide v r s d, Out.api true) ∈ h → d.ok = true

theorem decisionOf_some {ps us : Nat} {e : Action × Out} {d : Decision} (h : decisionOf ps us e = some d) :
    ∃ v r s, e = (.decide v r s d, .api true) := by
  unfold decisionOf at h
  split at h
  · split at h
    · cases h; exact ⟨_, _, _, rfl⟩
    · cases h
  · split at h
    · cases h; exact ⟨_, _, _, rfl⟩
    · cases h
  · cases h

theorem lastDecision_mem {ps us : Nat} {h : Hist} {d : Decision} (hl : lastDecision ps us h = some d) :
    ∃ v r s, (Action.decide v r s d, Out.api true) ∈ h := by
  induction h with
  | nil => simp [lastDecision] at hl
  | cons e h ih =>
    simp only [lastDecision] at hl
    split at hl
    · rename_i d' hd'
      cases hl
      obtain ⟨v, r, s, rfl⟩ := decisionOf_some hd'
      exact ⟨v, r, s, List.mem_cons_self⟩
    · obtain ⟨v, r, s, hm⟩ := ih hl
      exact ⟨v, r, s, List.mem_cons_of_mem _ hm⟩

/-- in any store state: a decision that is answered `ok` was one `Add` accepts -/
theorem step_api_true_ok {st : Store} {v : Nat} {r : Role} {s : Nat} {d : Decision}
    (h : (step st (.decide v r s d)).2 = .api true) : d.ok = true := by
  simp only [step] at h
  split at h
  · simp at h
  · split at h
    · simp at h
    · rename_i hdd
      exact decideData_some_ok hdd

theorem decOK_foldl {c : Store × Hist} (hc : DecOK c.2) (as : List Action) : DecOK (as.foldl stepH c).2 := by
  induction as generalizing c with
  | nil => exact hc
  | cons a as ih =>
    apply ih
    intro v r s d hm
    simp only [stepH] at hm
    rcases List.mem_cons.1 hm with he | hm
    · simp only [Prod.mk.injEq] at he
      obtain ⟨rfl, he⟩ := he
      exact step_api_true_ok he.symm
    · exact hc v r s d hm

theorem exec_dec_ok (as : List Action) : DecOK (exec as).2 :=
  decOK_foldl (c := (Store.empty, [])) (by intro v r s d hm; simp at hm) as

/-- in any store state an approval whose caveats `Add` refuses returns an error and changes nothing -/
theorem step_refused_approval (st : Store) (v : Nat) (r : Role) (s : Nat) {cs : List Nat} (h : refuses cs = true) :
    step st (.decide v r s (.approve cs)) = (st, .api false) := by
  simp only [step]
  split
  · rfl
  · rw [decideData_refused _ _ h]

/-- … and an immediate answer with such caveats is a 500 without a discharge -/
theorem step_refused_immediate (st : Store) (tid : Nat) {cs : List Nat} (h : refuses cs = true) :
    step st (.init (sealer tid) (.good tid) (.immediate cs)) = (st, .http 500 .internal true) := by
  simp [step, opens_good, initGood, h]

/-! ### a service whose key does not open the stored ticket -/

/-- in any store state: a poll at a service that cannot open the flow's stored ticket answers 500,
whether the flow is decided or not, and changes nothing -/
theorem step_foreign_poll {st : Store} {v s : Nat} {sd : Data} (hg : st.get (pollKey s) = some sd)
    (ho : opens v sd.ticket = none) : step st (.poll v s) = (st, outInternal) := by
  simp [step, hg, ho]

theorem step_foreign_userVisit {st : Store} {v s : Nat} {sd : Data} (hg : st.get (userKey s) = some sd)
    (ho : opens v sd.ticket = none) : step st (.userVisit v s) = (st, outInternal) := by
  simp [step, hg, ho]

theorem step_foreign_approval {st : Store} {v : Nat} {r : Role} {s : Nat} {sd : Data} (cs : List Nat)
    (hg : st.get ⟨r, s⟩ = some sd) (ho : opens v sd.ticket = none) :
    step st (.decide v r s (.approve cs)) = (st, .api false) := by
  simp [step, hg, decideData_foreign cs ho]

theorem step_foreign_init (st : Store) {v : Nat} {t : Ticket} (m : Mode) (ho : opens v t = none) :
    step st (.init v t m) = (st, outInternal) := by
  simp [step, ho]

/-- the same for the poll handler's first store operation: it returns right after its `Get` -/
theorem micro_foreign_poll {st : Store} {v s : Nat} {sd : Data} (hg : st.get (pollKey s) = some sd)
    (ho : opens v sd.ticket = none) :
    micro st (.poll v s) .start = (st, .done outInternal, [.got (pollKey s) (some sd)]) := by
  simp [micro, hg, ho]

/-! ### consequences of the handler-level invariant -/

theorem step_not_found {st : Store} {a : Action} {k : Key} (hk : a.key? = some k) (hg : st.get k = none) :
    step st a = (st, a.notFoundOut) := by
  cases a with
  | init v t m => simp [Action.key?] at hk
  | evict k' => simp [Action.key?] at hk
  | poll v s => simp [Action.key?] at hk; subst hk; simp [step, hg, Action.notFoundOut]
  | userVisit v s => simp [Action.key?] at hk; subst hk; simp [step, hg, Action.notFoundOut]
  | decide v r s d => simp [Action.key?] at hk; subst hk; simp [step, hg, Action.notFoundOut]

theorem notFoundOut_silent (a : Action) : a.notFoundOut.appInvoked = false ∧ a.notFoundOut.discharge? = none := by
  cases a <;> simp [Action.notFoundOut, outNotFound, Out.appInvoked, Out.discharge?]

theorem Inv.unknown {st : Store} {h : Hist} (inv : Inv st h) {a : Action} {k : Key} (hk : a.key? = some k)
    (hn : ¬ IssuedKey h k) : step st a = (st, a.notFoundOut) := by
  cases hg : st.get k with
  | none => exact step_not_found hk hg
  | some d =>
    exfalso
    obtain ⟨a0, r, _, hr, _, hkf⟩ := inv.wf.get_some hg
    obtain ⟨tid, _, hi, _⟩ := inv.flows a0 r hr
    apply hn
    refine ⟨tid, _, _, hi, ?_⟩
    cases hrole : k.role <;> rw [hrole] at hkf
    · exact .inl hkf
    · exact .inr hkf

theorem Inv.cross {st : Store} {h : Hist} (inv : Inv st h) {tid ps us : Nat} (hi : Issued h tid ps us) :
    ¬ IssuedKey h (pollKey us) ∧ ¬ IssuedKey h (userKey ps) := by
  obtain ⟨a, _, rfl, rfl⟩ := inv.issued _ _ _ hi
  constructor
  · rintro ⟨t, ps', us', hi', hk⟩
    obtain ⟨b, _, rfl, rfl⟩ := inv.issued _ _ _ hi'
    simp at hk; omega
  · rintro ⟨t, ps', us', hi', hk⟩
    obtain ⟨b, _, rfl, rfl⟩ := inv.issued _ _ _ hi'
    simp at hk; omega

theorem Inv.gone_not_found {st : Store} {h : Hist} (inv : Inv st h) {tid ps us : Nat} (hi : Issued h tid ps us)
    (hc : Collected h ps) {a : Action} {k : Key} (hk : a.key? = some k) (hkk : k = pollKey ps ∨ k = userKey us) :
    step st a = (st, a.notFoundOut) := by
  obtain ⟨a0, _, rfl, rfl⟩ := inv.issued _ _ _ hi
  obtain ⟨_, hgone⟩ := inv.gone a0 hc
  cases hg : st.get k with
  | none => exact step_not_found hk hg
  | some d =>
    exfalso
    obtain ⟨b, r, hb, _, _, hkf⟩ := inv.wf.get_some hg
    have hm := Store.addr_mem hb
    have : b = a0 := by
      rcases hkk with rfl | rfl <;> simp [flowKey] at hkf <;> omega
    subst this
    exact hgone _ hm rfl

/-- the poll key of an issued flow that was neither evicted nor collected still leads to its record -/
theorem Inv.poll_live {st : Store} {h : Hist} (inv : Inv st h) {tid ps us : Nat} (hi : Issued h tid ps us)
    (hne : ¬ Evicted h (pollKey ps)) (hnc : ¬ Collected h ps) :
    ∃ a r, st.addr (pollKey ps) = some a ∧ st.heap[a]? = some r ∧ st.get (pollKey ps) = some r.data ∧
      r.data.ticket = .good tid ∧ r.data.resp = respOf tid (lastDecision ps us h) := by
  obtain ⟨a, ha, rfl, rfl⟩ := inv.issued _ _ _ hi
  rcases inv.live a .poll ha with hl | hl | hl
  · have haddr := inv.wf.mem_addr hl
    obtain ⟨r, hr, hg⟩ := inv.wf.get_of_addr haddr
    obtain ⟨r', hr', ht⟩ := inv.issued_ticket _ _ hi
    rw [hr] at hr'; cases hr'
    obtain ⟨t, ht', _, hresp⟩ := inv.flows a r hr
    have : t = tid := by rw [ht] at ht'; exact (Ticket.good.inj ht').symm
    subst this
    exact ⟨a, r, haddr, hr, hg, ht, hresp⟩
  · exact absurd hl hne
  · exact absurd hl hnc

theorem Inv.not_ready {st : Store} {h : Hist} (inv : Inv st h) {tid ps us : Nat} (hi : Issued h tid ps us)
    (hne : ¬ Evicted h (pollKey ps)) (hnd : lastDecision ps us h = none) :
    step st (.poll (sealer tid) ps) = (st, outNotReady) := by
  have hnc : ¬ Collected h ps := by
    intro hc
    obtain ⟨a, _, rfl, rfl⟩ := inv.issued _ _ _ hi
    exact inv.collected_decided a hc hnd
  obtain ⟨a, r, _, _, hg, ht, hresp⟩ := inv.poll_live hi hne hnc
  rw [hnd] at hresp
  simp [step, hg, ht, opens_good, hresp, respOf]

theorem Inv.poll_delivers {st : Store} {h : Hist} (inv : Inv st h) {tid ps us : Nat} (hi : Issued h tid ps us)
    (hne : ¬ Evicted h (pollKey ps)) (hnc : ¬ Collected h ps) {d : Decision} (hd : lastDecision ps us h = some d) :
    ∃ rsp, respOf tid (some d) = some rsp ∧ (step st (.poll (sealer tid) ps)).2 = deliver rsp := by
  obtain ⟨a, r, haddr, _, hg, ht, hresp⟩ := inv.poll_live hi hne hnc
  rw [hd] at hresp
  cases d with
  | approve cs => exact ⟨_, rfl, by simp [step, hg, ht, opens_good, hresp, respOf, Store.delete, haddr]⟩
  | abort m => exact ⟨_, rfl, by simp [step, hg, ht, opens_good, hresp, respOf, Store.delete, haddr]⟩

theorem Inv.discharge_justified {st : Store} {h : Hist} (inv : Inv st h) (hok : DecOK h) {a : Action} {d : Discharge}
    (hd : (step st a).2.discharge? = some d) :
    (∃ cs, a = .init (sealer d.ticket) (.good d.ticket) (.immediate cs) ∧ refuses cs = false ∧ d = mkDischarge d.ticket cs) ∨
    (∃ ps us cs, a = .poll (sealer d.ticket) ps ∧ Issued h d.ticket ps us ∧
      lastDecision ps us h = some (.approve cs) ∧ refuses cs = false ∧ d = mkDischarge d.ticket cs) := by
  cases a with
  | init v t m =>
    cases ho : opens v t with
    | none => simp [step, ho, outInternal, Out.discharge?] at hd
    | some tid =>
      obtain ⟨rfl, rfl⟩ := opens_some ho
      cases m with
      | immediate cs =>
        by_cases hr : refuses cs = true
        · simp [step, ho, initGood, Out.discharge?, hr] at hd
        · simp [step, ho, initGood, Out.discharge?, hr] at hd
          subst hd
          exact .inl ⟨cs, rfl, by simpa using hr, rfl⟩
      | poll => simp [step, ho, initGood, Out.discharge?] at hd
      | userInteractive => simp [step, ho, initGood, Out.discharge?] at hd
      | refuse s m => simp [step, ho, initGood, Out.discharge?] at hd
      | noResponse => simp [step, ho, initGood, Out.discharge?] at hd
  | poll v s =>
    right
    have sc := step_cases inv.wf (.poll v s)
    generalize (step st (.poll v s)).1 = st' at sc
    generalize (step st (.poll v s)).2 = o at sc hd
    cases sc with
    | quiet hq =>
      have := hq.2.2.1 v s rfl
      cases o with
      | http st b app =>
        cases b <;> simp [Out.discharge?] at hd
        simp [Out.delivers, Body.isAnswer] at this
      | api ok => simp [Out.discharge?] at hd
      | silent => simp [Out.discharge?] at hd
    | @deliver _ _ a0 rc rsp ha hr hrsp hopen =>
      obtain ⟨_, hk⟩ := inv.wf.addr_flowKey ha
      simp [flowKey] at hk
      subst hk
      obtain ⟨tid, htk, hi, hresp⟩ := inv.flows a0 rc hr
      have hv : sealer tid = v := by
        rw [htk] at hopen
        rcases Nat.decEq (sealer tid) v with hne | heq
        · exact absurd (opens_none_of_ne hne) hopen
        · exact heq
      rw [hrsp] at hresp
      obtain ⟨rst, rb⟩ := rsp
      simp [deliver, Out.discharge?] at hd
      cases rb <;> simp at hd
      rename_i d0
      obtain ⟨cs, hl, hdd⟩ := respOf_discharge hresp.symm
      have ht : d.ticket = tid := by rw [← hd, hdd]; rfl
      rw [ht]
      obtain ⟨v', r', s', hm⟩ := lastDecision_mem hl
      have hcs : refuses cs = false := by simpa [Decision.ok] using hok _ _ _ _ hm
      exact ⟨_, _, cs, by rw [hv], hi, hl, hcs, by rw [← hd]; exact hdd⟩
  | userVisit v s =>
    simp only [step] at hd
    split at hd
    · simp [outNotFound, Out.discharge?] at hd
    · split at hd <;> simp [outInternal, Out.discharge?] at hd
  | decide v r s dd =>
    simp only [step] at hd
    split at hd
    · simp [Out.discharge?] at hd
    · split at hd
      · simp [Out.discharge?] at hd
      · split at hd <;> simp [Out.discharge?] at hd
  | evict k => simp [step, Out.discharge?] at hd

/-! ### vocabulary of the store-operation statements (traces are newest first) -/

def Ev.thread? : Ev → Option Nat
  | .spawned i _ => some i
  | .op i _ _ => some i
  | .returned i _ _ => some i
  | .evicted _ => none

/-- some `init` handler on ticket `good tid` executed the `Insert` that drew `us`, `ps` -/
def InsertedT (tr : Trace) (tid ps us : Nat) : Prop :=
  ∃ i m, Ev.op i (.init (sealer tid) (.good tid) m) (.inserted (.good tid) us ps) ∈ tr

def InsertedKey (tr : Trace) (k : Key) : Prop :=
  ∃ tid ps us, InsertedT tr tid ps us ∧ (k = pollKey ps ∨ k = userKey us)

/-- a successful `Update` executed by a `Discharge*`/`Abort*` call on the flow `(ps, us)` -/
def decisionOfEv (ps us : Nat) : Ev → Option Decision
  | .op _ (.decide _ .poll s d) (.updated _ _ true) => if s = ps then some d else none
  | .op _ (.decide _ .user s d) (.updated _ _ true) => if s = us then some d else none
  | _ => none

/-- the decision whose `Update` on the flow `(ps, us)` was executed last -/
def lastDecisionT (ps us : Nat) : Trace → Option Decision
  | [] => none
  | e :: tr =>
    match decisionOfEv ps us e with
    | some d => some d
    | none => lastDecisionT ps us tr

/-- why handler `i` (running `act`) may hand out discharge `d`: it is the immediate answer of an
`init` on that very ticket, or a poll whose `Get` saw, as the latest decision on the flow that an
`init` on that ticket inserted, an approval with exactly these caveats -/
def DischargeJust (tr : Trace) (i : Nat) (act : Action) (d : Discharge) : Prop :=
  (∃ cs, act = .init (sealer d.ticket) (.good d.ticket) (.immediate cs) ∧ refuses cs = false ∧ d = mkDischarge d.ticket cs) ∨
  (∃ ps us cs pre data, act = .poll (sealer d.ticket) ps ∧
    (Ev.op i act (.got (pollKey ps) (some data)) :: pre) <:+ tr ∧
    InsertedT pre d.ticket ps us ∧ lastDecisionT ps us pre = some (.approve cs) ∧ refuses cs = false ∧
    d = mkDischarge d.ticket cs)

/-- events that neither insert, nor remove, nor successfully update -/
def Ev.neutral : Ev → Bool
  | .op _ _ (.inserted _ _ _) => false
  | .op _ _ (.removed _) => false
  | .op _ _ (.updated _ _ true) => false
  | _ => true

theorem InsertedT.mono {tr : Trace} {tid ps us : Nat} (evs : List Ev) (h : InsertedT tr tid ps us) :
    InsertedT (evs ++ tr) tid ps us := by
  obtain ⟨i, m, hm⟩ := h
  exact ⟨i, m, List.mem_append_right _ hm⟩

theorem InsertedKey.mono {tr : Trace} {k : Key} (evs : List Ev) (h : InsertedKey tr k) : InsertedKey (evs ++ tr) k := by
  obtain ⟨tid, ps, us, hi, hk⟩ := h
  exact ⟨tid, ps, us, hi.mono evs, hk⟩

theorem InsertedT_neutral {tr : Trace} {tid ps us : Nat} {evs : List Ev} (hn : ∀ e ∈ evs, e.neutral = true)
    (h : InsertedT (evs ++ tr) tid ps us) : InsertedT tr tid ps us := by
  obtain ⟨i, m, hm⟩ := h
  rcases List.mem_append.1 hm with hm | hm
  · have := hn _ hm; simp [Ev.neutral] at this
  · exact ⟨i, m, hm⟩

theorem lastDecisionT_neutral {ps us : Nat} {tr : Trace} {evs : List Ev} (hn : ∀ e ∈ evs, e.neutral = true) :
    lastDecisionT ps us (evs ++ tr) = lastDecisionT ps us tr := by
  induction evs with
  | nil => rfl
  | cons e evs ih =>
    have he : decisionOfEv ps us e = none := by
      have := hn e List.mem_cons_self
      unfold decisionOfEv
      split <;> first | rfl | (simp [Ev.neutral] at this)
    simp only [List.cons_append, lastDecisionT, he]
    exact ih (fun e he => hn e (List.mem_cons_of_mem _ he))

theorem DischargeJust.mono {tr : Trace} {i : Nat} {act : Action} {d : Discharge} (evs : List Ev)
    (h : DischargeJust tr i act d) : DischargeJust (evs ++ tr) i act d := by
  rcases h with h | ⟨ps, us, cs, pre, data, h1, h2, h3⟩
  · exact .inl h
  · exact .inr ⟨ps, us, cs, pre, data, h1, h2.trans (List.suffix_append _ _), h3⟩

/-! ### the store-operation invariant -/

/-- the part of the invariant that relates the store to the trace -/
structure SInv (st : Store) (tr : Trace) : Prop where
  wf : st.WF
  flows : ∀ a r, st.heap[a]? = some r → ∃ tid, r.data.ticket = .good tid ∧ InsertedT tr tid (2 * a + 1) (2 * a) ∧
    r.data.resp = respOf tid (lastDecisionT (2 * a + 1) (2 * a) tr)
  fresh : ∀ a, st.heap.length ≤ a → lastDecisionT (2 * a + 1) (2 * a) tr = none
  issued : ∀ tid ps us, InsertedT tr tid ps us → ∃ a, a < st.heap.length ∧ ps = 2 * a + 1 ∧ us = 2 * a
  gone : ∀ i act a, Ev.op i act (.removed a) ∈ tr → a < st.heap.length ∧ ∀ e ∈ st.keys, e.2 ≠ a
  upd_ok : ∀ i v r s d k nd, Ev.op i (.decide v r s d) (.updated k nd true) ∈ tr → d.ok = true

theorem SInv.init : SInv Store.empty [] :=
  ⟨Store.WF.empty, by simp [Store.empty], by simp [lastDecisionT],
   by intro tid ps us ⟨i, m, h⟩; simp at h, by intro i act a h; simp at h,
   by intro i v r s d k nd h; simp at h⟩

theorem decisionOfEv_some {ps us : Nat} {e : Ev} {d : Decision} (h : decisionOfEv ps us e = some d) :
    ∃ i v r s k nd, e = .op i (.decide v r s d) (.updated k nd true) := by
  unfold decisionOfEv at h
  split at h
  · split at h
    · cases h; exact ⟨_, _, _, _, _, _, rfl⟩
    · cases h
  · split at h
    · cases h; exact ⟨_, _, _, _, _, _, rfl⟩
    · cases h
  · cases h

theorem lastDecisionT_mem {ps us : Nat} {tr : Trace} {d : Decision} (hl : lastDecisionT ps us tr = some d) :
    ∃ i v r s k nd, Ev.op i (.decide v r s d) (.updated k nd true) ∈ tr := by
  induction tr with
  | nil => simp [lastDecisionT] at hl
  | cons e tr ih =>
    simp only [lastDecisionT] at hl
    split at hl
    · rename_i d' hd'
      cases hl
      obtain ⟨i, v, r, s, k, nd, rfl⟩ := decisionOfEv_some hd'
      exact ⟨i, v, r, s, k, nd, List.mem_cons_self⟩
    · obtain ⟨i, v, r, s, k, nd, hm⟩ := ih hl
      exact ⟨i, v, r, s, k, nd, List.mem_cons_of_mem _ hm⟩

/-- neutral events, store unchanged up to dropped keys -/
theorem SInv.quiet {st st' : Store} {tr : Trace} (inv : SInv st tr) (evs : List Ev)
    (hn : ∀ e ∈ evs, e.neutral = true) (hwf : st'.WF) (hheap : st'.heap = st.heap)
    (hkeys : ∀ e ∈ st'.keys, e ∈ st.keys) : SInv st' (evs ++ tr) := by
  refine ⟨hwf, ?_, ?_, ?_, ?_, ?_⟩
  rotate_left 4
  · intro i v r s d k nd hm
    rcases List.mem_append.1 hm with hm | hm
    · have := hn _ hm; simp [Ev.neutral] at this
    · exact inv.upd_ok i v r s d k nd hm
  · intro a r hr
    rw [hheap] at hr
    obtain ⟨tid, h1, h2, h3⟩ := inv.flows a r hr
    exact ⟨tid, h1, h2.mono evs, by rw [lastDecisionT_neutral hn]; exact h3⟩
  · intro a ha
    rw [hheap] at ha
    rw [lastDecisionT_neutral hn]; exact inv.fresh a ha
  · intro tid ps us hi
    rw [hheap]
    exact inv.issued _ _ _ (InsertedT_neutral hn hi)
  · intro i act a hm
    rw [hheap]
    rcases List.mem_append.1 hm with hm | hm
    · have := hn _ hm; simp [Ev.neutral] at this
    · obtain ⟨h1, h2⟩ := inv.gone i act a hm
      exact ⟨h1, fun e he => h2 e (hkeys e he)⟩

theorem SInv.insert {st : Store} {tr : Trace} (inv : SInv st tr) (i tid : Nat) (m : Mode) :
    SInv (st.insert ⟨.good tid, none⟩).1
      (Ev.op i (.init (sealer tid) (.good tid) m) (.inserted (.good tid) st.next (st.next + 1)) :: tr) := by
  have hdn : ∀ ps us, decisionOfEv ps us (Ev.op i (.init (sealer tid) (.good tid) m) (.inserted (.good tid) st.next (st.next + 1))) = none := by
    intro ps us; simp [decisionOfEv]
  have hn := inv.wf.next_eq
  refine ⟨inv.wf.insert _, ?_, ?_, ?_, ?_, ?_⟩
  rotate_left 4
  · intro j v r s d k nd hm
    rcases List.mem_cons.1 hm with he | hm
    · simp at he
    · exact inv.upd_ok j v r s d k nd hm
  · intro c r hr
    simp only [Store.insert] at hr
    rw [List.getElem?_append] at hr
    split at hr
    · obtain ⟨t, h1, h2, h3⟩ := inv.flows c r hr
      exact ⟨t, h1, h2.mono [_], by simp only [lastDecisionT, hdn]; exact h3⟩
    · cases hz : c - st.heap.length with
      | zero =>
        have : c = st.heap.length := by omega
        subst this
        simp at hr
        subst hr
        refine ⟨tid, rfl, ⟨i, m, ?_⟩, ?_⟩
        · rw [← hn]; exact List.mem_cons_self
        · simp only [lastDecisionT, hdn, inv.fresh _ (Nat.le_refl _)]; rfl
      | succ n => simp [hz] at hr
  · intro c hc
    simp only [Store.insert, List.length_append, List.length_cons, List.length_nil] at hc
    simp only [lastDecisionT, hdn]
    exact inv.fresh c (by omega)
  · intro t ps us ⟨j, m', hm⟩
    simp only [Store.insert, List.length_append, List.length_cons, List.length_nil]
    rcases List.mem_cons.1 hm with he | hm
    · simp only [Ev.op.injEq, OpEv.inserted.injEq] at he
      exact ⟨st.heap.length, by omega, by omega, by omega⟩
    · obtain ⟨c, h1, h2⟩ := inv.issued _ _ _ ⟨j, m', hm⟩
      exact ⟨c, by omega, h2⟩
  · intro j act a hm
    rcases List.mem_cons.1 hm with he | hm
    · simp at he
    · obtain ⟨h1, h2⟩ := inv.gone j act a hm
      refine ⟨by simp [Store.insert]; omega, ?_⟩
      intro e he
      simp only [Store.insert, List.mem_cons] at he
      rcases he with rfl | rfl | he
      · simp; omega
      · simp; omega
      · exact h2 e he

theorem decisionOfEv_flowKey (i v a b : Nat) (r : Role) (s : Nat) (d : Decision) (k : Key) (nd : Data)
    (hk : (⟨r, s⟩ : Key) = flowKey a r) :
    decisionOfEv (2 * b + 1) (2 * b) (.op i (.decide v r s d) (.updated k nd true)) = if a = b then some d else none := by
  cases r <;> simp [flowKey] at hk <;> subst hk <;> simp [decisionOfEv] <;> split <;> split <;> first | rfl | omega

theorem SInv.update {st : Store} {tr : Trace} (inv : SInv st tr) (i v : Nat) (r : Role) (s : Nat) (d : Decision)
    (a0 tid0 : Nat) (rc : Rec) (k : Key) (ha : st.addr k = some a0) (hk : k = ⟨r, s⟩)
    (hr : st.heap[a0]? = some rc) (ht0 : rc.data.ticket = .good tid0) (hok : d.ok = true) :
    SInv { st with heap := st.heap.modify a0 (fun x => { x with data := ⟨.good tid0, respOf tid0 (some d)⟩ }) }
      (Ev.op i (.decide v r s d) (.updated k ⟨.good tid0, respOf tid0 (some d)⟩ true) :: tr) := by
  subst hk
  obtain ⟨ha0, hkf⟩ := inv.wf.addr_flowKey ha
  simp only at hkf
  refine ⟨inv.wf.modify a0 _, ?_, ?_, ?_, ?_, ?_⟩
  rotate_left 4
  · intro j v' r' s' d' k' nd' hm
    rcases List.mem_cons.1 hm with he | hm
    · simp only [Ev.op.injEq, Action.decide.injEq] at he
      obtain ⟨_, ⟨_, _, _, rfl⟩, _⟩ := he
      exact hok
    · exact inv.upd_ok j v' r' s' d' k' nd' hm
  · intro c r' hr'
    simp only [List.getElem?_modify] at hr'
    cases hc : st.heap[c]? with
    | none => simp [hc] at hr'
    | some r0 =>
      simp only [hc, Option.map_eq_map, Option.map_some, Option.some.injEq] at hr'
      obtain ⟨t, h1, h2, h3⟩ := inv.flows c r0 hc
      by_cases hac : a0 = c
      · subst hac
        rw [hr] at hc
        cases hc
        simp only [if_true] at hr'
        subst hr'
        refine ⟨tid0, rfl, ?_, ?_⟩
        · have : t = tid0 := by rw [h1] at ht0; exact Ticket.good.inj ht0
          subst this
          exact h2.mono [_]
        · simp only [lastDecisionT, decisionOfEv_flowKey i v a0 a0 r s d _ _ hkf, if_true]
      · simp only [hac, if_false] at hr'
        subst hr'
        refine ⟨t, h1, h2.mono [_], ?_⟩
        simp only [lastDecisionT, decisionOfEv_flowKey i v a0 c r s d _ _ hkf, hac, if_false]
        exact h3
  · intro c hc
    simp only [List.length_modify] at hc
    have : a0 ≠ c := by omega
    simp only [lastDecisionT, decisionOfEv_flowKey i v a0 c r s d _ _ hkf, this, if_false]
    exact inv.fresh c hc
  · intro t ps us ⟨j, m', hm⟩
    simp only [List.length_modify]
    rcases List.mem_cons.1 hm with he | hm
    · simp at he
    · exact inv.issued _ _ _ ⟨j, m', hm⟩
  · intro j act a hm
    simp only [List.length_modify]
    rcases List.mem_cons.1 hm with he | hm
    · simp at he
    · exact inv.gone j act a hm

theorem SInv.remove {st : Store} {tr : Trace} (inv : SInv st tr) (i : Nat) (act : Action) (a0 : Nat)
    (ha0 : a0 < st.heap.length) : SInv (st.remove a0) (Ev.op i act (.removed a0) :: tr) := by
  have hdn : ∀ ps us, decisionOfEv ps us (Ev.op i act (.removed a0)) = none := by
    intro ps us; unfold decisionOfEv; split <;> first | rfl | (rename_i h; simp at h)
  have hheap : (st.remove a0).heap = st.heap := by
    unfold Store.remove; split <;> rfl
  refine ⟨inv.wf.remove a0, ?_, ?_, ?_, ?_, ?_⟩
  rotate_left 4
  · intro j v r s d k nd hm
    rcases List.mem_cons.1 hm with he | hm
    · simp at he
    · exact inv.upd_ok j v r s d k nd hm
  · intro c r hr
    rw [hheap] at hr
    obtain ⟨t, h1, h2, h3⟩ := inv.flows c r hr
    exact ⟨t, h1, h2.mono [_], by simp only [lastDecisionT, hdn]; exact h3⟩
  · intro c hc
    rw [hheap] at hc
    simp only [lastDecisionT, hdn]
    exact inv.fresh c hc
  · intro t ps us ⟨j, m', hm⟩
    rw [hheap]
    rcases List.mem_cons.1 hm with he | hm
    · simp at he
    · exact inv.issued _ _ _ ⟨j, m', hm⟩
  · intro j act' a hm
    rw [hheap]
    rcases List.mem_cons.1 hm with he | hm
    · simp only [Ev.op.injEq, OpEv.removed.injEq] at he
      obtain ⟨_, _, rfl⟩ := he
      exact ⟨ha0, inv.wf.remove_gone ha0⟩
    · obtain ⟨h1, h2⟩ := inv.gone j act' a hm
      exact ⟨h1, fun e he => h2 e (Store.remove_keys_subset e he)⟩

/-! #### the thread part -/

/-- what a poll handler knows about the response it copied from the store -/
def PollJust (tr : Trace) (i : Nat) (v s : Nat) (r : Resp) : Prop :=
  InsertedKey tr (pollKey s) ∧ ∀ d, r.body = .discharge d → DischargeJust tr i (.poll v s) d

/-- local variables of a pending handler are justified by the trace -/
def TInv (st : Store) (tr : Trace) (i : Nat) (th : Thread) : Prop :=
  match th.pc with
  | .start => True
  | .pollDelete s r => ∃ v, th.act = .poll v s ∧ PollJust tr i v s r
  | .pollRemove s a r => ∃ v, th.act = .poll v s ∧ PollJust tr i v s r ∧ s = 2 * a + 1 ∧ a < st.heap.length
  | .update k nd => ∃ v r s d a tid rc, th.act = .decide v r s d ∧ k = ⟨r, s⟩ ∧ k = flowKey a r ∧
      st.heap[a]? = some rc ∧ rc.data.ticket = .good tid ∧ nd = ⟨.good tid, respOf tid (some d)⟩ ∧ d.ok = true
  | .done _ => True

/-- what is known about a returned handler -/
def RetOK (tr : Trace) (i : Nat) (a : Action) (o : Out) : Prop :=
  (∀ d, o.discharge? = some d → DischargeJust tr i a d) ∧
  (∀ k, a.key? = some k → o = a.notFoundOut ∨ InsertedKey tr k) ∧
  (∀ v s, a = .poll v s → o.delivers = true → ∃ adr j act, s = 2 * adr + 1 ∧ Ev.op j act (.removed adr) ∈ tr) ∧
  (∀ v r s cs, a = .decide v r s (.approve cs) → refuses cs = true → o = .api false)

/-- records are never reclaimed and keep their ticket -/
def StoreLe (st st' : Store) : Prop :=
  st.heap.length ≤ st'.heap.length ∧
  ∀ (a : Nat) (rc : Rec) (tid : Nat), st.heap[a]? = some rc → rc.data.ticket = .good tid →
    ∃ rc' : Rec, st'.heap[a]? = some rc' ∧ rc'.data.ticket = .good tid

theorem StoreLe.of_heap_eq {st st' : Store} (h : st'.heap = st.heap) : StoreLe st st' :=
  ⟨by rw [h]; exact Nat.le_refl _, fun a rc tid hr ht => ⟨rc, by rw [h]; exact hr, ht⟩⟩

theorem PollJust.mono {tr : Trace} {i v s : Nat} {r : Resp} (evs : List Ev) (h : PollJust tr i v s r) :
    PollJust (evs ++ tr) i v s r :=
  ⟨h.1.mono evs, fun d hd => (h.2 d hd).mono evs⟩

theorem TInv.mono {st st' : Store} {tr : Trace} {i : Nat} {th : Thread} (evs : List Ev) (hle : StoreLe st st')
    (h : TInv st tr i th) : TInv st' (evs ++ tr) i th := by
  unfold TInv at h ⊢
  split
  · trivial
  · rename_i hpc; rw [hpc] at h
    obtain ⟨v, h1, h2⟩ := h
    exact ⟨v, h1, h2.mono evs⟩
  · rename_i hpc; rw [hpc] at h
    obtain ⟨v, h1, h2, h3, h4⟩ := h
    exact ⟨v, h1, h2.mono evs, h3, Nat.lt_of_lt_of_le h4 hle.1⟩
  · rename_i hpc; rw [hpc] at h
    obtain ⟨v, r, s, d, a, tid, rc, h1, h2, h3, h4, h5, h6⟩ := h
    obtain ⟨rc', h7, h8⟩ := hle.2 a rc tid h4 h5
    exact ⟨v, r, s, d, a, tid, rc', h1, h2, h3, h7, h8, h6⟩
  · trivial

theorem RetOK.mono {tr : Trace} {i : Nat} {a : Action} {o : Out} (evs : List Ev) (h : RetOK tr i a o) :
    RetOK (evs ++ tr) i a o := by
  refine ⟨fun d hd => (h.1 d hd).mono evs, fun k hk => ?_, fun v s hs hd => ?_, h.2.2.2⟩
  · rcases h.2.1 k hk with h | h
    · exact .inl h
    · exact .inr (h.mono evs)
  · obtain ⟨adr, j, act, h1, h2⟩ := h.2.2.1 v s hs hd
    exact ⟨adr, j, act, h1, List.mem_append_right _ h2⟩

structure TPart (S : Sys) (tr : Trace) : Prop where
  threads : ∀ i th, S.threads[i]? = some th → TInv S.store tr i th
  rets : ∀ i a o, Ev.returned i a o ∈ tr → RetOK tr i a o
  bound : ∀ e ∈ tr, ∀ i, e.thread? = some i → i < S.threads.length

theorem TPart.next {S S' : Sys} {tr : Trace} (inv : TPart S tr) (evs : List Ev) (hle : StoreLe S.store S'.store)
    (hthreads : ∀ j th, S'.threads[j]? = some th → S.threads[j]? = some th ∨ TInv S'.store (evs ++ tr) j th)
    (hlen : S.threads.length ≤ S'.threads.length)
    (hbound : ∀ e ∈ evs, ∀ i, e.thread? = some i → i < S'.threads.length)
    (hrets : ∀ i a o, Ev.returned i a o ∈ evs → RetOK (evs ++ tr) i a o) : TPart S' (evs ++ tr) := by
  refine ⟨?_, ?_, ?_⟩
  · intro j th hj
    rcases hthreads j th hj with h | h
    · exact (inv.threads j th h).mono evs hle
    · exact h
  · intro i a o hm
    rcases List.mem_append.1 hm with hm | hm
    · exact hrets i a o hm
    · exact (inv.rets i a o hm).mono evs
  · intro e he i hi
    rcases List.mem_append.1 he with he | he
    · exact hbound e he i hi
    · exact Nat.lt_of_lt_of_le (inv.bound e he i hi) hlen

/-- the invariant of the store-operation semantics -/
structure FInv (S : Sys) (tr : Trace) : Prop where
  s : SInv S.store tr
  t : TPart S tr

theorem FInv.init : FInv {} [] :=
  ⟨SInv.init, ⟨by intro i th h; simp at h, by intro i a o h; simp at h, by intro e h; simp at h⟩⟩

/-- one thread moves; everything else is inherited -/
theorem FInv.step_thread {S : Sys} {tr : Trace} (inv : FInv S tr) {i : Nat} {th : Thread}
    (hi : S.threads[i]? = some th) (st' : Store) (pc' : PC) (evs : List Ev)
    (hs : SInv st' (evs ++ tr)) (hle : StoreLe S.store st')
    (hb : ∀ e ∈ evs, e.thread? = some i ∨ e.thread? = none)
    (ht : TInv st' (evs ++ tr) i ⟨th.act, pc'⟩)
    (hr : ∀ j a o, Ev.returned j a o ∈ evs → RetOK (evs ++ tr) j a o) :
    FInv { store := st', threads := S.threads.set i ⟨th.act, pc'⟩ } (evs ++ tr) := by
  have hlt : i < S.threads.length := by
    rcases Nat.lt_or_ge i S.threads.length with h | h
    · exact h
    · rw [List.getElem?_eq_none h] at hi; cases hi
  refine ⟨hs, inv.t.next (S' := { store := st', threads := S.threads.set i ⟨th.act, pc'⟩ }) evs hle ?_ (by simp) ?_ hr⟩
  · intro j th' hj
    simp only [List.getElem?_set] at hj
    split at hj
    · rename_i hij
      subst hij
      simp only [Option.some.injEq] at hj
      subst hj
      exact .inr ht
    · exact .inl hj
  · intro e he j hj
    simp only [List.length_set]
    rcases hb e he with h | h
    · rw [h] at hj; cases hj; exact hlt
    · rw [h] at hj; cases hj

theorem retOK_simple {tr : Trace} {i : Nat} {a : Action} {o : Out} (hd : o.discharge? = none)
    (hk : ∀ k, a.key? = some k → o = a.notFoundOut ∨ InsertedKey tr k)
    (hp : ∀ v s, a = .poll v s → o.delivers = false)
    (hr : ∀ v r s cs, a = .decide v r s (.approve cs) → refuses cs = true → o = .api false := by simp) :
    RetOK tr i a o := by
  refine ⟨?_, hk, ?_, hr⟩
  · intro d h; rw [hd] at h; cases h
  · intro v s hs h; rw [hp v s hs] at h; cases h

/-- what a successful `Get` tells, by the invariant -/
theorem SInv.of_get {st : Store} {tr : Trace} (inv : SInv st tr) {k : Key} {sd : Data} (hg : st.get k = some sd) :
    ∃ a r tid, st.addr k = some a ∧ st.heap[a]? = some r ∧ r.data = sd ∧ k = flowKey a k.role ∧
      sd.ticket = .good tid ∧ InsertedT tr tid (2 * a + 1) (2 * a) ∧
      sd.resp = respOf tid (lastDecisionT (2 * a + 1) (2 * a) tr) ∧ InsertedKey tr k := by
  obtain ⟨a, r, ha, hr, hd, hk⟩ := inv.wf.get_some hg
  obtain ⟨tid, h1, h2, h3⟩ := inv.flows a r hr
  refine ⟨a, r, tid, ha, hr, hd, hk, hd ▸ h1, h2, hd ▸ h3, tid, _, _, h2, ?_⟩
  cases hrole : k.role <;> rw [hrole] at hk
  · exact .inl hk
  · exact .inr hk

theorem StoreLe.refl (st : Store) : StoreLe st st := StoreLe.of_heap_eq rfl

/-- a handler returns without changing the store -/
theorem FInv.quiet_return {S : Sys} {tr : Trace} (inv : FInv S tr) {i : Nat} {th : Thread}
    (hi : S.threads[i]? = some th) (o : Out) (ops : List OpEv)
    (hn : ∀ e ∈ ops, (Ev.op i th.act e).neutral = true)
    (hr : RetOK (retEvs i th.act (.done o) ++ (ops.map (Ev.op i th.act)).reverse ++ tr) i th.act o) :
    FInv { store := S.store, threads := S.threads.set i ⟨th.act, .done o⟩ }
      (retEvs i th.act (.done o) ++ (ops.map (Ev.op i th.act)).reverse ++ tr) := by
  refine inv.step_thread hi S.store _ _ (inv.s.quiet _ ?_ inv.s.wf rfl (fun _ h => h)) (StoreLe.refl _) ?_ trivial ?_
  · intro e he
    simp only [retEvs, List.mem_append, List.mem_singleton, List.mem_reverse, List.mem_map] at he
    rcases he with rfl | ⟨x, hx, rfl⟩
    · rfl
    · exact hn x hx
  · intro e he
    simp only [retEvs, List.mem_append, List.mem_singleton, List.mem_reverse, List.mem_map] at he
    rcases he with rfl | ⟨x, hx, rfl⟩ <;> exact .inl rfl
  · intro j a o' he
    simp only [retEvs, List.mem_append, List.mem_singleton, List.mem_reverse, List.mem_map] at he
    rcases he with he | ⟨x, hx, he⟩
    · cases he; exact hr
    · cases he

/-- a handler advances to a non-final program point without changing the store -/
theorem FInv.quiet_move {S : Sys} {tr : Trace} (inv : FInv S tr) {i : Nat} {th : Thread}
    (hi : S.threads[i]? = some th) (pc' : PC) (ops : List OpEv) (hpc : retEvs i th.act pc' = [])
    (hn : ∀ e ∈ ops, (Ev.op i th.act e).neutral = true)
    (ht : TInv S.store ((ops.map (Ev.op i th.act)).reverse ++ tr) i ⟨th.act, pc'⟩) :
    FInv { store := S.store, threads := S.threads.set i ⟨th.act, pc'⟩ }
      (retEvs i th.act pc' ++ (ops.map (Ev.op i th.act)).reverse ++ tr) := by
  rw [hpc, List.nil_append]
  refine inv.step_thread hi S.store _ _ (inv.s.quiet _ ?_ inv.s.wf rfl (fun _ h => h)) (StoreLe.refl _) ?_ ht ?_
  · intro e he
    simp only [List.mem_reverse, List.mem_map] at he
    obtain ⟨x, hx, rfl⟩ := he
    exact hn x hx
  · intro e he
    simp only [List.mem_reverse, List.mem_map] at he
    obtain ⟨x, hx, rfl⟩ := he
    exact .inl rfl
  · intro j a o' he
    simp only [List.mem_reverse, List.mem_map] at he
    obtain ⟨x, hx, he⟩ := he
    cases he

theorem StoreLe.insert (st : Store) (d : Data) : StoreLe st (st.insert d).1 := by
  refine ⟨by simp [Store.insert], ?_⟩
  intro a rc tid hr ht
  have hlt : a < st.heap.length := by
    rcases Nat.lt_or_ge a st.heap.length with h | h
    · exact h
    · rw [List.getElem?_eq_none h] at hr; cases hr
  exact ⟨rc, by simp only [Store.insert]; rw [List.getElem?_append_left hlt]; exact hr, ht⟩

theorem StoreLe.modify (st : Store) (a0 tid0 : Nat) (rc0 : Rec) (rsp : Option Resp)
    (hr0 : st.heap[a0]? = some rc0) (ht0 : rc0.data.ticket = .good tid0) :
    StoreLe st { st with heap := st.heap.modify a0 (fun x => { x with data := ⟨.good tid0, rsp⟩ }) } := by
  refine ⟨by simp, ?_⟩
  intro a rc tid hr ht
  simp only [List.getElem?_modify, hr, Option.map_eq_map, Option.map_some]
  by_cases hac : a0 = a
  · subst hac
    rw [hr0] at hr; cases hr
    rw [ht0] at ht
    exact ⟨{ rc0 with data := ⟨.good tid0, rsp⟩ }, by simp, by simpa using ht⟩
  · exact ⟨rc, by simp [hac], ht⟩

theorem StoreLe.remove (st : Store) (a : Nat) : StoreLe st (st.remove a) :=
  StoreLe.of_heap_eq (by unfold Store.remove; split <;> rfl)

theorem micro_inv {S : Sys} {tr : Trace} (inv : FInv S tr) {i : Nat} {act : Action} {pc : PC}
    (hi : S.threads[i]? = some ⟨act, pc⟩) (st' : Store) (pc' : PC) (ops : List OpEv)
    (hm : micro S.store act pc = (st', pc', ops)) (hnd : ∀ o, pc ≠ .done o) :
    FInv { store := st', threads := S.threads.set i ⟨act, pc'⟩ }
      (retEvs i act pc' ++ (ops.map (Ev.op i act)).reverse ++ tr) := by
  have hT := inv.t.threads i _ hi
  cases pc with
  | done o => exact absurd rfl (hnd o)
  | start =>
    cases act with
    | init v t m =>
      cases ho : opens v t with
      | none =>
        simp [micro, ho] at hm
        obtain ⟨rfl, rfl, rfl⟩ := hm
        exact inv.quiet_return hi _ [] (by simp) (retOK_simple rfl (by simp [Action.key?]) (by simp))
      | some tid =>
        obtain ⟨rfl, rfl⟩ := opens_some ho
        cases m with
        | immediate cs =>
          by_cases hrf : refuses cs = true
          · simp [micro, ho, initGood, hrf] at hm
            obtain ⟨rfl, rfl, rfl⟩ := hm
            exact inv.quiet_return hi _ [] (by simp) (retOK_simple rfl (by simp [Action.key?]) (by simp))
          · simp [micro, ho, initGood, hrf] at hm
            obtain ⟨rfl, rfl, rfl⟩ := hm
            refine inv.quiet_return hi _ [] (by simp) ⟨?_, by simp [Action.key?], by simp, by simp⟩
            intro d hd
            simp [Out.discharge?] at hd
            subst hd
            exact .inl ⟨cs, rfl, by simpa using hrf, rfl⟩
        | refuse st m =>
          simp [micro, ho, initGood] at hm
          obtain ⟨rfl, rfl, rfl⟩ := hm
          exact inv.quiet_return hi _ [] (by simp) (retOK_simple rfl (by simp [Action.key?]) (by simp))
        | noResponse =>
          simp [micro, ho, initGood] at hm
          obtain ⟨rfl, rfl, rfl⟩ := hm
          exact inv.quiet_return hi _ [] (by simp) (retOK_simple rfl (by simp [Action.key?]) (by simp))
        | poll =>
          simp [micro, ho] at hm
          obtain ⟨rfl, rfl, rfl⟩ := hm
          have hs1 := inv.s.insert i tid .poll
          have hs2 := hs1.quiet [.returned i (.init (sealer tid) (.good tid) .poll) (.http 201 (.pollUrl (S.store.next + 1) S.store.next) true)]
            (by simp [Ev.neutral]) hs1.wf rfl (fun _ h => h)
          exact inv.step_thread hi _ _ [_, _] hs2 (StoreLe.insert _ _) (by simp [Ev.thread?]) trivial
            (by
              intro j a o hmem
              simp at hmem
              obtain ⟨rfl, rfl, rfl⟩ := hmem
              exact retOK_simple rfl (by simp [Action.key?]) (by simp))
        | userInteractive =>
          simp [micro, ho] at hm
          obtain ⟨rfl, rfl, rfl⟩ := hm
          have hs1 := inv.s.insert i tid .userInteractive
          have hs2 := hs1.quiet [.returned i (.init (sealer tid) (.good tid) .userInteractive) (.http 201 (.userUrls (S.store.next + 1) S.store.next) true)]
            (by simp [Ev.neutral]) hs1.wf rfl (fun _ h => h)
          exact inv.step_thread hi _ _ [_, _] hs2 (StoreLe.insert _ _) (by simp [Ev.thread?]) trivial
            (by
              intro j a o hmem
              simp at hmem
              obtain ⟨rfl, rfl, rfl⟩ := hmem
              exact retOK_simple rfl (by simp [Action.key?]) (by simp))
    | evict k =>
      simp [micro] at hm
      obtain ⟨rfl, rfl, rfl⟩ := hm
      exact inv.quiet_return hi _ [] (by simp) (retOK_simple rfl (by simp [Action.key?]) (by simp))
    | poll v s =>
      simp only [micro] at hm
      cases hg : S.store.get (pollKey s) with
      | none =>
        simp [hg] at hm
        obtain ⟨rfl, rfl, rfl⟩ := hm
        exact inv.quiet_return hi _ [_] (by simp [Ev.neutral])
          (retOK_simple rfl (by simp [Action.key?, Action.notFoundOut]) (by simp [outNotFound, Out.delivers, Body.isAnswer]))
      | some sd =>
        obtain ⟨a, r, tid, ha, hr, hd, hk, ht, hins, hresp, hik⟩ := inv.s.of_get hg
        cases hop : opens v sd.ticket with
        | none =>
          simp [hg, hop] at hm
          obtain ⟨rfl, rfl, rfl⟩ := hm
          exact inv.quiet_return hi _ [_] (by simp [Ev.neutral])
            (retOK_simple rfl (by simp [Action.key?]; exact .inr (hik.mono [_, _]))
              (by simp [outInternal, Out.delivers, Body.isAnswer]))
        | some t' =>
          have hv : sealer tid = v := by
            rw [ht] at hop
            obtain ⟨h1, h2⟩ := opens_some hop
            cases h1; exact h2
          cases hrsp : sd.resp with
          | none =>
            simp [hg, hop, hrsp] at hm
            obtain ⟨rfl, rfl, rfl⟩ := hm
            exact inv.quiet_return hi _ [_] (by simp [Ev.neutral])
              (retOK_simple rfl (by simp [Action.key?]; exact .inr (hik.mono [_, _]))
                (by simp [outNotReady, Out.delivers, Body.isAnswer]))
          | some rsp =>
            simp [hg, hop, hrsp] at hm
            obtain ⟨rfl, rfl, rfl⟩ := hm
            refine inv.quiet_move hi _ [_] rfl (by simp [Ev.neutral]) ⟨v, rfl, hik.mono _, ?_⟩
            intro d hbd
            simp [flowKey] at hk
            subst hk
            rw [hrsp] at hresp
            obtain ⟨rst, rb⟩ := rsp
            simp only at hbd
            subst hbd
            obtain ⟨cs, hl, hdd⟩ := respOf_discharge hresp.symm
            have htk : d.ticket = tid := by rw [hdd]; rfl
            obtain ⟨i', v', r', s', k', nd', hmem⟩ := lastDecisionT_mem hl
            have hcs : refuses cs = false := by simpa [Decision.ok] using inv.s.upd_ok _ _ _ _ _ _ _ hmem
            refine .inr ⟨_, _, cs, tr, sd, by rw [htk, hv], ?_, ?_, hl, hcs, ?_⟩
            · simp
            · rw [htk]; exact hins
            · rw [htk]; exact hdd
    | userVisit v s =>
      simp only [micro] at hm
      cases hg : S.store.get (userKey s) with
      | none =>
        simp [hg] at hm
        obtain ⟨rfl, rfl, rfl⟩ := hm
        exact inv.quiet_return hi _ [_] (by simp [Ev.neutral])
          (retOK_simple rfl (by simp [Action.key?, Action.notFoundOut]) (by simp))
      | some sd =>
        obtain ⟨a, r, tid, ha, hr, hd, hk, ht, hins, hresp, hik⟩ := inv.s.of_get hg
        cases hop : opens v sd.ticket with
        | none =>
          simp [hg, hop] at hm
          obtain ⟨rfl, rfl, rfl⟩ := hm
          exact inv.quiet_return hi _ [_] (by simp [Ev.neutral])
            (retOK_simple rfl (by simp [Action.key?]; exact .inr (hik.mono [_, _])) (by simp))
        | some t' =>
          simp [hg, hop] at hm
          obtain ⟨rfl, rfl, rfl⟩ := hm
          exact inv.quiet_return hi _ [_] (by simp [Ev.neutral])
            (retOK_simple rfl (by simp [Action.key?]; exact .inr (hik.mono [_, _])) (by simp))
    | decide v r s d =>
      simp only [micro] at hm
      cases hg : S.store.get ⟨r, s⟩ with
      | none =>
        simp [hg] at hm
        obtain ⟨rfl, rfl, rfl⟩ := hm
        exact inv.quiet_return hi _ [_] (by simp [Ev.neutral])
          (retOK_simple rfl (by simp [Action.key?, Action.notFoundOut]) (by simp))
      | some sd =>
        obtain ⟨a, rc, tid, ha, hr, hd, hk, ht, hins, hresp, hik⟩ := inv.s.of_get hg
        simp only [hg] at hm
        cases hdd : decideData v sd d with
        | none =>
          simp [hdd] at hm
          obtain ⟨rfl, rfl, rfl⟩ := hm
          exact inv.quiet_return hi _ [_] (by simp [Ev.neutral])
            (retOK_simple rfl (by simp [Action.key?, Action.notFoundOut]) (by simp))
        | some nd =>
          obtain ⟨hnd', hok, _⟩ := decideData_some ht hdd
          simp [hdd] at hm
          obtain ⟨rfl, rfl, rfl⟩ := hm
          refine inv.quiet_move hi _ [_] rfl (by simp [Ev.neutral]) ?_
          exact ⟨v, r, s, d, a, tid, rc, rfl, rfl, hk, hr, hd ▸ ht, by rw [hnd']; simp [ht], hok⟩
  | pollDelete s r =>
    obtain ⟨v, hact, hpj⟩ := hT
    simp only at hact
    subst hact
    simp only [micro] at hm
    cases ha : S.store.addr (pollKey s) with
    | none =>
      simp [ha] at hm
      obtain ⟨rfl, rfl, rfl⟩ := hm
      exact inv.quiet_return hi _ [_] (by simp [Ev.neutral])
        (retOK_simple rfl (by simp [Action.key?]; exact .inr (hpj.1.mono [_, _]))
          (by simp [outInternal, Out.delivers, Body.isAnswer]))
    | some a =>
      simp [ha] at hm
      obtain ⟨rfl, rfl, rfl⟩ := hm
      obtain ⟨ha0, hk⟩ := inv.s.wf.addr_flowKey ha
      simp [flowKey] at hk
      exact inv.quiet_move hi _ [_] rfl (by simp [Ev.neutral]) ⟨v, rfl, hpj.mono _, hk, ha0⟩
  | pollRemove s a r =>
    obtain ⟨v, hact, hpj, hs, ha0⟩ := hT
    simp only at hact
    subst hact
    simp [micro] at hm
    obtain ⟨rfl, rfl, rfl⟩ := hm
    have hs1 := inv.s.remove i (.poll v s) a ha0
    have hs2 := hs1.quiet [.returned i (.poll v s) (deliver r)] (by simp [Ev.neutral]) hs1.wf rfl (fun _ h => h)
    refine inv.step_thread hi _ _ [_, _] hs2 (StoreLe.remove _ _) (by simp [Ev.thread?]) trivial ?_
    intro j a' o hmem
    simp at hmem
    obtain ⟨rfl, rfl, rfl⟩ := hmem
    refine ⟨?_, ?_, ?_, by simp⟩
    · intro d hd
      obtain ⟨rst, rb⟩ := r
      simp [deliver, Out.discharge?] at hd
      cases rb <;> simp at hd
      subst hd
      exact (hpj.2 _ rfl).mono [_, _]
    · intro k hk
      simp [Action.key?] at hk
      subst hk
      exact .inr (hpj.1.mono [_, _])
    · intro v' s' hs' _
      cases hs'
      exact ⟨a, j, .poll v s, hs, by simp⟩
  | update k nd =>
    obtain ⟨v, r, s, d, a, tid, rc, hact, hk1, hk2, hr, ht, hnd', hok⟩ := hT
    simp only at hact
    subst hact
    simp only [micro] at hm
    cases hu : S.store.update k nd with
    | none =>
      simp [hu] at hm
      obtain ⟨rfl, rfl, rfl⟩ := hm
      exact inv.quiet_return hi _ [_] (by simp [Ev.neutral])
        (retOK_simple rfl (by simp [Action.key?, Action.notFoundOut]) (by simp))
    | some st'' =>
      simp [hu] at hm
      obtain ⟨rfl, rfl, rfl⟩ := hm
      obtain ⟨a', ha', rfl⟩ := Store.update_eq hu
      have haa : a' = a := by
        have := (inv.s.wf.addr_flowKey ha').2
        rw [hk2] at this
        exact ((flowKey_inj this).1).symm
      subst haa
      subst hnd'
      have hs1 := inv.s.update i v r s d a' tid rc k ha' hk1 hr ht hok
      have hs2 := hs1.quiet [.returned i (.decide v r s d) (.api true)] (by simp [Ev.neutral]) hs1.wf rfl (fun _ h => h)
      refine inv.step_thread hi _ _ [_, _] hs2 (StoreLe.modify _ _ _ _ _ hr ht) (by simp [Ev.thread?]) trivial ?_
      intro j a'' o hmem
      simp at hmem
      obtain ⟨rfl, rfl, rfl⟩ := hmem
      refine retOK_simple rfl ?_ (by simp) ?_
      rotate_left
      · intro v' r' s' cs hact hrf
        cases hact
        simp [Decision.ok, hrf] at hok
      intro k' hk'
      simp [Action.key?] at hk'
      subst hk'
      obtain ⟨t, _, hins, _⟩ := inv.s.flows a' rc hr
      refine .inr (InsertedKey.mono [_, _] ⟨t, _, _, hins, ?_⟩)
      rw [hk1] at hk2
      cases r
      · exact .inl hk2
      · exact .inr hk2

theorem FInv.sys_step {c : Sys × Trace} (inv : FInv c.1 c.2) (x : Sched) :
    FInv (Sys.step c x).1 (Sys.step c x).2 := by
  obtain ⟨S, tr⟩ := c
  simp only at inv
  cases x with
  | spawn a =>
    simp only [Sys.step]
    refine ⟨inv.s.quiet [.spawned S.threads.length a] (by simp [Ev.neutral]) inv.s.wf rfl (fun _ h => h), ?_⟩
    refine inv.t.next (S' := { S with threads := S.threads ++ [⟨a, .start⟩] }) [.spawned S.threads.length a]
      (StoreLe.refl _) ?_ (by simp) (by simp [Ev.thread?]) (by simp)
    intro j th hj
    simp only [List.getElem?_append] at hj
    split at hj
    · exact .inl hj
    · right
      cases hz : j - S.threads.length with
      | zero => simp [hz] at hj; subst hj; trivial
      | succ n => simp [hz] at hj
  | evict k =>
    simp only [Sys.step]
    refine ⟨inv.s.quiet [.evicted k] (by simp [Ev.neutral]) (inv.s.wf.evict k) rfl
      (fun e he => (List.mem_filter.1 he).1), ?_⟩
    exact inv.t.next (S' := { S with store := S.store.evict k }) [.evicted k] (StoreLe.of_heap_eq rfl)
      (fun j th hj => .inl hj) (Nat.le_refl _) (by simp [Ev.thread?]) (by simp)
  | step i =>
    simp only [Sys.step]
    cases hth : S.threads[i]? with
    | none => exact inv
    | some th =>
      obtain ⟨act, pc⟩ := th
      cases pc with
      | done o => exact inv
      | start => exact micro_inv inv hth _ _ _ rfl (by simp)
      | pollDelete s r => exact micro_inv inv hth _ _ _ rfl (by simp)
      | pollRemove s a r => exact micro_inv inv hth _ _ _ rfl (by simp)
      | update k d => exact micro_inv inv hth _ _ _ rfl (by simp)

theorem finv_foldl {c : Sys × Trace} (inv : FInv c.1 c.2) (sched : List Sched) :
    FInv (sched.foldl Sys.step c).1 (sched.foldl Sys.step c).2 := by
  induction sched generalizing c with
  | nil => exact inv
  | cons x xs ih => exact ih (inv.sys_step x)

/-- every reachable system state satisfies the invariant, whatever the schedule -/
theorem run_inv (sched : List Sched) : FInv (Sys.run sched).1 (Sys.run sched).2 :=
  finv_foldl FInv.init sched

/-! ### handlers that start after a delivering poll returned -/

/-- how a store operation of a handler can change the store -/
theorem micro_store (st : Store) (act : Action) (pc : PC) :
    (micro st act pc).1 = st ∨ (∃ d, (micro st act pc).1 = (st.insert d).1) ∨
    (∃ a d, (micro st act pc).1 = { st with heap := st.heap.modify a (fun x => { x with data := d }) }) ∨
    (∃ a, (micro st act pc).1 = st.remove a) := by
  cases pc with
  | start =>
    cases act with
    | init v t m =>
      simp only [micro]
      cases ho : opens v t with
      | none => exact .inl rfl
      | some tid =>
        cases m with
        | poll => exact .inr (.inl ⟨_, rfl⟩)
        | userInteractive => exact .inr (.inl ⟨_, rfl⟩)
        | immediate cs => exact .inl rfl
        | refuse s m => exact .inl rfl
        | noResponse => exact .inl rfl
    | poll v s =>
      left; simp only [micro]
      split
      · rfl
      · split
        · rfl
        · split <;> rfl
    | userVisit v s =>
      left; simp only [micro]
      split
      · rfl
      · split <;> rfl
    | decide v r s d =>
      left; simp only [micro]
      split
      · rfl
      · split <;> rfl
    | evict k => exact .inl rfl
  | pollDelete s r =>
    left; simp only [micro]
    split <;> rfl
  | pollRemove s a r => exact .inr (.inr (.inr ⟨a, rfl⟩))
  | update k d =>
    simp only [micro]
    cases hu : st.update k d with
    | none => exact .inl rfl
    | some st' =>
      obtain ⟨a, _, rfl⟩ := Store.update_eq hu
      exact .inr (.inr (.inl ⟨a, d, rfl⟩))
  | done o => exact .inl rfl

theorem micro_keys (st : Store) (act : Action) (pc : PC) :
    st.heap.length ≤ (micro st act pc).1.heap.length ∧
    ∀ e ∈ (micro st act pc).1.keys, e ∈ st.keys ∨ e.2 = st.heap.length := by
  rcases micro_store st act pc with h | ⟨d, h⟩ | ⟨a, d, h⟩ | ⟨a, h⟩ <;> rw [h]
  · exact ⟨Nat.le_refl _, fun e he => .inl he⟩
  · refine ⟨by simp [Store.insert], ?_⟩
    intro e he
    simp only [Store.insert, List.mem_cons] at he
    rcases he with rfl | rfl | he
    · exact .inr rfl
    · exact .inr rfl
    · exact .inl he
  · exact ⟨by simp, fun e he => .inl he⟩
  · refine ⟨?_, fun e he => .inl (Store.remove_keys_subset e he)⟩
    unfold Store.remove; split <;> exact Nat.le_refl _

theorem micro_start_not_found {st : Store} {a : Action} {k : Key} (hk : a.key? = some k) (hg : st.get k = none) :
    micro st a .start = (st, .done a.notFoundOut, [.got k none]) := by
  cases a with
  | init v t m => simp [Action.key?] at hk
  | evict k' => simp [Action.key?] at hk
  | poll v s => simp [Action.key?] at hk; subst hk; simp [micro, hg, Action.notFoundOut]
  | userVisit v s => simp [Action.key?] at hk; subst hk; simp [micro, hg, Action.notFoundOut]
  | decide v r s d => simp [Action.key?] at hk; subst hk; simp [micro, hg, Action.notFoundOut]

/-- the action presents one of the two keys of the flow at address `adr` -/
def OfFlow (a : Action) (adr : Nat) : Prop :=
  ∃ k, a.key? = some k ∧ (k = flowKey adr .poll ∨ k = flowKey adr .user)

/-- state of affairs after the keys of flow `adr` were removed, for handlers with index `≥ n0` -/
structure Late (n0 adr : Nat) (S : Sys) (tr : Trace) : Prop where
  lt : adr < S.store.heap.length
  nokeys : ∀ e ∈ S.store.keys, e.2 ≠ adr
  threads : ∀ j th, n0 ≤ j → S.threads[j]? = some th → OfFlow th.act adr →
    th.pc = .start ∨ th.pc = .done th.act.notFoundOut
  rets : ∀ j a o, n0 ≤ j → Ev.returned j a o ∈ tr → OfFlow a adr → o = a.notFoundOut

theorem get_none_of_nokeys {st : Store} (wf : st.WF) {adr : Nat} (hno : ∀ e ∈ st.keys, e.2 ≠ adr)
    {a : Action} (ho : OfFlow a adr) : ∃ k, a.key? = some k ∧ st.get k = none := by
  obtain ⟨k, hk, hkk⟩ := ho
  refine ⟨k, hk, ?_⟩
  cases hg : st.get k with
  | none => rfl
  | some d =>
    exfalso
    obtain ⟨b, r, hb, _, _, hkf⟩ := wf.get_some hg
    have : b = adr := by
      rcases hkk with h | h <;> rw [h] at hkf <;> simp only [flowKey_role] at hkf <;> exact ((flowKey_inj hkf).1).symm
    subst this
    exact hno _ (Store.addr_mem hb) rfl

theorem Late.sys_step {n0 adr : Nat} {c : Sys × Trace} (inv : FInv c.1 c.2) (l : Late n0 adr c.1 c.2) (x : Sched) :
    Late n0 adr (Sys.step c x).1 (Sys.step c x).2 := by
  obtain ⟨S, tr⟩ := c
  simp only at inv l
  cases x with
  | spawn a =>
    simp only [Sys.step]
    refine ⟨l.lt, l.nokeys, ?_, ?_⟩
    · intro j th hj hth ho
      simp only [List.getElem?_append] at hth
      split at hth
      · exact l.threads j th hj hth ho
      · cases hz : j - S.threads.length with
        | zero => simp [hz] at hth; subst hth; exact .inl rfl
        | succ n => simp [hz] at hth
    · intro j a' o hj hm ho
      rcases List.mem_cons.1 hm with he | hm
      · cases he
      · exact l.rets j a' o hj hm ho
  | evict k =>
    simp only [Sys.step]
    refine ⟨l.lt, fun e he => l.nokeys e (List.mem_filter.1 he).1, l.threads, ?_⟩
    intro j a' o hj hm ho
    rcases List.mem_cons.1 hm with he | hm
    · cases he
    · exact l.rets j a' o hj hm ho
  | step i =>
    simp only [Sys.step]
    cases hth : S.threads[i]? with
    | none => exact l
    | some th =>
      obtain ⟨act, pc⟩ := th
      have key : (∀ o, pc ≠ .done o) →
          Late n0 adr { store := (micro S.store act pc).1, threads := S.threads.set i ⟨act, (micro S.store act pc).2.1⟩ }
            (retEvs i act (micro S.store act pc).2.1 ++ ((micro S.store act pc).2.2.map (Ev.op i act)).reverse ++ tr) := by
        intro hnd
        obtain ⟨hlen, hkeys⟩ := micro_keys S.store act pc
        have hlt : i < S.threads.length := by
          rcases Nat.lt_or_ge i S.threads.length with h | h
          · exact h
          · rw [List.getElem?_eq_none h] at hth; cases hth
        -- a late handler on this flow is at its start and finds nothing
        have hlate : n0 ≤ i → OfFlow act adr →
            micro S.store act pc = (S.store, .done act.notFoundOut, [.got ((act.key?).getD default) none]) := by
          intro hn ho
          rcases l.threads i _ hn hth ho with hpc | hpc
          · simp only at hpc; subst hpc
            obtain ⟨k, hk, hg⟩ := get_none_of_nokeys inv.s.wf l.nokeys ho
            rw [micro_start_not_found hk hg, hk]; rfl
          · simp only at hpc; exact absurd hpc (hnd _)
        refine ⟨Nat.lt_of_lt_of_le l.lt hlen, ?_, ?_, ?_⟩
        · intro e he
          rcases hkeys e he with h | h
          · exact l.nokeys e h
          · have := l.lt; omega
        · intro j th' hj hth' ho
          simp only [List.getElem?_set] at hth'
          split at hth'
          · rename_i hij
            subst hij
            simp only [Option.some.injEq] at hth'
            subst hth'
            right
            simp only at ho ⊢
            rw [hlate hj ho]
          · exact l.threads j th' hj hth' ho
        · intro j a' o hj hm ho
          simp only [List.mem_append, List.mem_reverse, List.mem_map] at hm
          rcases hm with (hm | ⟨x, _, hx⟩) | hm
          · unfold retEvs at hm
            split at hm
            · rename_i o' hpc'
              simp only [List.mem_singleton, Ev.returned.injEq] at hm
              obtain ⟨rfl, rfl, rfl⟩ := hm
              rw [hlate hj ho] at hpc'
              simp only [PC.done.injEq] at hpc'
              exact hpc'.symm
            · simp at hm
          · cases hx
          · exact l.rets j a' o hj hm ho
      cases pc with
      | done o => exact l
      | start => exact key (by simp)
      | pollDelete s r => exact key (by simp)
      | pollRemove s a r => exact key (by simp)
      | update k d => exact key (by simp)

theorem late_foldl {n0 adr : Nat} {c : Sys × Trace} (inv : FInv c.1 c.2) (l : Late n0 adr c.1 c.2) (sched : List Sched) :
    Late n0 adr (sched.foldl Sys.step c).1 (sched.foldl Sys.step c).2 := by
  induction sched generalizing c with
  | nil => exact l
  | cons x xs ih => exact ih (inv.sys_step x) (l.sys_step inv x)


/-- happens-before form of "gone after collection", for every schedule `s0 ++ s1`: once a delivering
poll has returned (in `s0`), every handler spawned later that presents a key of that flow answers
not-found -/
theorem gone_hb (s0 s1 : List Sched) {i ps us tid : Nat} {o : Out}
    {v : Nat} (hret : Ev.returned i (.poll v ps) o ∈ (Sys.run s0).2) (hdel : o.delivers = true)
    (hins : InsertedT (Sys.run s0).2 tid ps us)
    {j : Nat} {a : Action} {o' : Out} (hj : (Sys.run s0).1.threads.length ≤ j)
    (hret' : Ev.returned j a o' ∈ (s1.foldl Sys.step (Sys.run s0)).2)
    {k : Key} (hk : a.key? = some k) (hkk : k = pollKey ps ∨ k = userKey us) : o' = a.notFoundOut := by
  have inv := run_inv s0
  obtain ⟨adr, j0, act0, hps, hrem⟩ := (inv.t.rets _ _ _ hret).2.2.1 v ps rfl hdel
  obtain ⟨hlt, hno⟩ := inv.s.gone _ _ _ hrem
  obtain ⟨a', _, hps', hus'⟩ := inv.s.issued _ _ _ hins
  have haa : a' = adr := by omega
  subst haa
  have l0 : Late (Sys.run s0).1.threads.length a' (Sys.run s0).1 (Sys.run s0).2 := by
    refine ⟨hlt, hno, ?_, ?_⟩
    · intro j' th hj' hth
      rw [List.getElem?_eq_none hj'] at hth; cases hth
    · intro j' a'' o'' hj' hm
      have := inv.t.bound _ hm j' rfl
      omega
  have l1 := late_foldl inv l0 s1
  refine l1.rets j a o' hj hret' ⟨k, hk, ?_⟩
  rcases hkk with h | h
  · exact .inl (by rw [h, hps']; rfl)
  · exact .inr (by rw [h, hus']; rfl)

/-! ### the handler-level step is the uninterrupted run of the handler program -/

/-- one store operation of a handler, on (store, program counter) -/
def microSt (act : Action) (c : Store × PC) : Store × PC :=
  ((micro c.1 act c.2).1, (micro c.1 act c.2).2.1)

theorem microSt_done (a : Action) (st : Store) (o : Out) : microSt a (st, .done o) = (st, .done o) := rfl

theorem micro3_eq_step (st : Store) (a : Action) (hne : ∀ k, a ≠ .evict k) :
    microSt a (microSt a (microSt a (st, .start))) = ((step st a).1, .done (step st a).2) := by
  cases a with
  | init v t m =>
    cases ho : opens v t with
    | none => simp [microSt, micro, step, ho]
    | some tid =>
      cases m with
      | immediate cs => by_cases hrf : refuses cs = true <;> simp [microSt, micro, step, ho, initGood, hrf]
      | poll => simp [microSt, micro, step, ho, initGood]
      | userInteractive => simp [microSt, micro, step, ho, initGood]
      | refuse s m => simp [microSt, micro, step, ho, initGood]
      | noResponse => simp [microSt, micro, step, ho, initGood]
  | evict k => exact absurd rfl (hne k)
  | poll v s =>
    cases hg : st.get (pollKey s) with
    | none =>
      have h1 : microSt (.poll v s) (st, .start) = (st, .done outNotFound) := by simp [microSt, micro, hg]
      rw [h1, microSt_done, microSt_done]; simp [step, hg]
    | some sd =>
      cases ht : opens v sd.ticket with
      | none =>
        have h1 : microSt (.poll v s) (st, .start) = (st, .done outInternal) := by simp [microSt, micro, hg, ht]
        rw [h1, microSt_done, microSt_done]; simp [step, hg, ht]
      | some tid =>
        cases hr : sd.resp with
        | none =>
          have h1 : microSt (.poll v s) (st, .start) = (st, .done outNotReady) := by simp [microSt, micro, hg, ht, hr]
          rw [h1, microSt_done, microSt_done]; simp [step, hg, ht, hr]
        | some r =>
          have h1 : microSt (.poll v s) (st, .start) = (st, .pollDelete s r) := by simp [microSt, micro, hg, ht, hr]
          rw [h1]
          cases ha : st.addr (pollKey s) with
          | none =>
            have h2 : microSt (.poll v s) (st, .pollDelete s r) = (st, .done outInternal) := by simp [microSt, micro, ha]
            rw [h2, microSt_done]; simp [step, hg, ht, hr, Store.delete, ha]
          | some a =>
            have h2 : microSt (.poll v s) (st, .pollDelete s r) = (st, .pollRemove s a r) := by simp [microSt, micro, ha]
            rw [h2]; simp [microSt, micro, step, hg, ht, hr, Store.delete, ha]
  | userVisit v s =>
    cases hg : st.get (userKey s) with
    | none =>
      have h1 : microSt (.userVisit v s) (st, .start) = (st, .done outNotFound) := by simp [microSt, micro, hg]
      rw [h1, microSt_done, microSt_done]; simp [step, hg]
    | some sd =>
      cases ht : opens v sd.ticket with
      | none =>
        have h1 : microSt (.userVisit v s) (st, .start) = (st, .done outInternal) := by simp [microSt, micro, hg, ht]
        rw [h1, microSt_done, microSt_done]; simp [step, hg, ht]
      | some tid =>
        have h1 : microSt (.userVisit v s) (st, .start) = (st, .done (.http 200 .page true)) := by simp [microSt, micro, hg, ht]
        rw [h1, microSt_done, microSt_done]; simp [step, hg, ht]
  | decide v r s d =>
    cases hg : st.get ⟨r, s⟩ with
    | none =>
      have h1 : microSt (.decide v r s d) (st, .start) = (st, .done (.api false)) := by simp [microSt, micro, hg]
      rw [h1, microSt_done, microSt_done]; simp [step, hg]
    | some sd =>
      cases hd : decideData v sd d with
      | none =>
        have h1 : microSt (.decide v r s d) (st, .start) = (st, .done (.api false)) := by simp [microSt, micro, hg, hd]
        rw [h1, microSt_done, microSt_done]; simp [step, hg, hd]
      | some nd =>
        have h1 : microSt (.decide v r s d) (st, .start) = (st, .update ⟨r, s⟩ nd) := by simp [microSt, micro, hg, hd]
        rw [h1]
        cases hu : st.update ⟨r, s⟩ nd with
        | none =>
          have h2 : microSt (.decide v r s d) (st, .update ⟨r, s⟩ nd) = (st, .done (.api false)) := by simp [microSt, micro, hu]
          rw [h2, microSt_done]; simp [step, hg, hd, hu]
        | some st' =>
          have h2 : microSt (.decide v r s d) (st, .update ⟨r, s⟩ nd) = (st', .done (.api true)) := by simp [microSt, micro, hu]
          rw [h2, microSt_done]; simp [step, hg, hd, hu]

/-- a scheduled step of the last thread, on the system state -/
theorem sys_step_last (T : List Thread) (st : Store) (a : Action) (pc : PC) (tr : Trace) :
    (Sys.step ({ store := st, threads := T ++ [⟨a, pc⟩] }, tr) (.step T.length)).1 =
      { store := (microSt a (st, pc)).1, threads := T ++ [⟨a, (microSt a (st, pc)).2⟩] } := by
  simp only [Sys.step, List.getElem?_concat_length]
  cases pc <;> simp [microSt, micro]

theorem seq_one (S : Sys) (tr : Trace) (a : Action) (hne : ∀ k, a ≠ .evict k) :
    ([Sched.spawn a, .step S.threads.length, .step S.threads.length, .step S.threads.length].foldl Sys.step (S, tr)).1 =
      { store := (step S.store a).1, threads := S.threads ++ [⟨a, .done (step S.store a).2⟩] } := by
  obtain ⟨st, T⟩ := S
  simp only [List.foldl]
  have h0 : (Sys.step ({ store := st, threads := T }, tr) (.spawn a)).1 = { store := st, threads := T ++ [⟨a, .start⟩] } := rfl
  generalize hc0 : Sys.step ({ store := st, threads := T }, tr) (.spawn a) = c0 at h0
  obtain ⟨S0, tr0⟩ := c0
  simp only at h0; subst h0
  have h1 := sys_step_last T st a .start tr0
  generalize hc1 : Sys.step ({ store := st, threads := T ++ [⟨a, .start⟩] }, tr0) (.step T.length) = c1 at h1
  obtain ⟨S1, tr1⟩ := c1
  simp only at h1; subst h1
  have h2 := sys_step_last T (microSt a (st, .start)).1 a (microSt a (st, .start)).2 tr1
  generalize hc2 : Sys.step _ (.step T.length) = c2 at h2
  obtain ⟨S2, tr2⟩ := c2
  simp only at h2; subst h2
  have h3 := sys_step_last T (microSt a (microSt a (st, .start))).1 a (microSt a (microSt a (st, .start))).2 tr2
  rw [h3, micro3_eq_step st a hne]

/-- the handlers of a sequential history, each finished with the answer of the handler-level step -/
def seqThreads (st : Store) : List Action → List Thread
  | [] => []
  | .evict k :: as => seqThreads (st.evict k) as
  | a :: as => ⟨a, .done (step st a).2⟩ :: seqThreads (step st a).1 as

theorem seq_refines_gen (as : List Action) (S : Sys) (tr : Trace) (h : Hist) :
    ((seqSched S.threads.length as).foldl Sys.step (S, tr)).1 =
      { store := (as.foldl stepH (S.store, h)).1, threads := S.threads ++ seqThreads S.store as } := by
  induction as generalizing S tr h with
  | nil => simp [seqSched, seqThreads]
  | cons a as ih =>
    have hne : (∀ k, a ≠ .evict k) →
        ((seqSched S.threads.length (a :: as)).foldl Sys.step (S, tr)).1 =
          { store := ((a :: as).foldl stepH (S.store, h)).1,
            threads := S.threads ++ (⟨a, .done (step S.store a).2⟩ :: seqThreads (step S.store a).1 as) } := by
      intro hne
      have hs : seqSched S.threads.length (a :: as) =
          [.spawn a, .step S.threads.length, .step S.threads.length, .step S.threads.length] ++
            seqSched (S.threads.length + 1) as := by
        cases a <;> first | rfl | exact absurd rfl (hne _)
      rw [hs, List.foldl_append]
      have h1 := seq_one S tr a hne
      generalize List.foldl Sys.step (S, tr) [.spawn a, .step S.threads.length, .step S.threads.length, .step S.threads.length] = c1 at h1
      obtain ⟨S1, tr1⟩ := c1
      simp only at h1
      subst h1
      have := ih { store := (step S.store a).1, threads := S.threads ++ [⟨a, .done (step S.store a).2⟩] } tr1
        ((a, (step S.store a).2) :: h)
      simp only [List.length_append, List.length_cons, List.length_nil, Nat.zero_add] at this
      rw [this]
      simp [stepH, List.append_assoc]
    cases a with
    | evict k =>
      simp only [seqSched, seqThreads, List.foldl_cons]
      exact ih { S with store := S.store.evict k } _ _
    | init v t m => simpa [seqThreads] using hne (by simp)
    | poll v s => simpa [seqThreads] using hne (by simp)
    | userVisit v s => simpa [seqThreads] using hne (by simp)
    | decide v r s d => simpa [seqThreads] using hne (by simp)

/-- a sequential schedule of the store-operation semantics computes exactly the handler-level run -/
theorem seq_refines (as : List Action) :
    (Sys.run (seqSched 0 as)).1 = { store := (exec as).1, threads := seqThreads Store.empty as } := by
  have := seq_refines_gen as {} [] []
  simpa [Sys.run, exec, Store.empty] using this


end Macaroon.TP
