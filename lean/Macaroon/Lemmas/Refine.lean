/-
Refinement of the value-level bundle / cache model by the object-level one (C13, C14).

`Bundle/Model.lean` has two layers: values (`Bundle`, on which the theorems of C13/C14 are proved) and
objects (`Heap`, `HBundle`, `Cache.HSys`: what the driver runs, with Go's pointer identities).  This
file proves that, as long as bundles do not share objects (no `Select`-derived bundles; the cache
stores and returns copies), the object level IS the value level seen through `view`:

* per operation (`hop_refines`): `view ∘ op = Bundle.op ∘ view`, the heap only grows or is written
  at the cells of the bundle operated on, and every reference list that does not touch these cells
  keeps its view;
* per history (`hrun_copy_refines`): `hrun .copy P hist (hinit pl hdrs) = run P hist (init pl hdrs)`.

Core Lean only.
-/
import Macaroon.Lemmas.Bundle

namespace Macaroon.Lemmas.Refine
open Macaroon Macaroon.Bundle Macaroon.Bundle.Cache Macaroon.Lemmas.BundleL

/-! ### cells -/

/-- the `Caveats` cell of a `*VerifiedMacaroon` wrapper -/
def v? : Ref → Option Nat
  | .ver v _ => some v
  | _ => none

/-- the reference points into the heap -/
def RefIn (h : Heap) (r : Ref) : Prop :=
  (∀ u, r.u? = some u → u < h.us.length) ∧ (∀ v, v? r = some v → v < h.vs.length)

/-- `h'` is `h` with further objects allocated behind it -/
def Ext (h h' : Heap) : Prop := ∃ us' vs', h'.us = h.us ++ us' ∧ h'.vs = h.vs ++ vs'

theorem Ext.refl (h : Heap) : Ext h h := ⟨[], [], by simp, by simp⟩

theorem Ext.trans {a b c : Heap} (h1 : Ext a b) (h2 : Ext b c) : Ext a c := by
  obtain ⟨u1, v1, e1, e2⟩ := h1
  obtain ⟨u2, v2, e3, e4⟩ := h2
  exact ⟨u1 ++ u2, v1 ++ v2, by rw [e3, e1, List.append_assoc], by rw [e4, e2, List.append_assoc]⟩

theorem Ext.us_le {h h' : Heap} (e : Ext h h') : h.us.length ≤ h'.us.length := by
  obtain ⟨u, v, e1, _⟩ := e; rw [e1]; simp
theorem Ext.vs_le {h h' : Heap} (e : Ext h h') : h.vs.length ≤ h'.vs.length := by
  obtain ⟨u, v, _, e2⟩ := e; rw [e2]; simp

theorem getD_append_left' {α : Type} (l l' : List α) (i : Nat) (d : α) (h : i < l.length) :
    (l ++ l').getD i d = l.getD i d := by
  simp only [List.getD_eq_getElem?_getD, List.getElem?_append_left h]

theorem Ext.u_eq {h h' : Heap} (e : Ext h h') {i : Nat} (hi : i < h.us.length) : h'.u i = h.u i := by
  obtain ⟨u, v, e1, _⟩ := e
  simp only [Heap.u, e1, getD_append_left' _ _ _ _ hi]
theorem Ext.v_eq {h h' : Heap} (e : Ext h h') {i : Nat} (hi : i < h.vs.length) : h'.v i = h.v i := by
  obtain ⟨u, v, _, e2⟩ := e
  simp only [Heap.v, e2, getD_append_left' _ _ _ _ hi]

theorem RefIn.mono {h h' : Heap} (e : Ext h h') {r : Ref} (hr : RefIn h r) : RefIn h' r :=
  ⟨fun u hu => Nat.lt_of_lt_of_le (hr.1 u hu) e.us_le, fun v hv => Nat.lt_of_lt_of_le (hr.2 v hv) e.vs_le⟩

/-- allocation behind a reference does not change what it denotes -/
theorem tok_ext {h h' : Heap} (e : Ext h h') {r : Ref} (hr : RefIn h r) : h'.tok r = h.tok r := by
  cases r with
  | nonMac s => rfl
  | malformed s => rfl
  | unv u => simp only [Heap.tok, e.u_eq (hr.1 u rfl)]
  | ver v u => simp only [Heap.tok, e.u_eq (hr.1 u rfl), e.v_eq (hr.2 v rfl)]
  | fail u => simp only [Heap.tok, e.u_eq (hr.1 u rfl)]

theorem view_ext {h h' : Heap} (e : Ext h h') {rs : List Ref} (hr : ∀ r ∈ rs, RefIn h r) : h'.view rs = h.view rs := by
  simp only [Heap.view]
  exact List.map_congr_left fun r hm => tok_ext e (hr r hm)

/-! ### `alloc` -/

/-- the reference is fresh with respect to `h`: its cells lie behind everything `h` holds -/
def Fresh (h : Heap) (r : Ref) : Prop :=
  (∀ u, r.u? = some u → h.us.length ≤ u) ∧ (∀ v, v? r = some v → h.vs.length ≤ v)

theorem alloc_spec : ∀ (ts : List Tok) (h : Heap),
    Ext h (h.alloc ts).1 ∧ (h.alloc ts).1.view (h.alloc ts).2 = ts ∧
    (∀ r ∈ (h.alloc ts).2, RefIn (h.alloc ts).1 r ∧ Fresh h r) ∧
    ((h.alloc ts).2.filterMap Ref.u?).Nodup ∧ ((h.alloc ts).2.filterMap v?).Nodup
  | [], h => by
    refine ⟨Ext.refl h, rfl, ?_, ?_, ?_⟩
    · intro r hr; simp [Heap.alloc] at hr
    · simp [Heap.alloc]
    · simp [Heap.alloc]
  | t :: ts, h => by
    -- the first cell
    obtain ⟨h1, r, hdef, e1, hin1, hfr1, htok1, _⟩ : ∃ h1 r, (h.alloc (t :: ts)) = ((h1.alloc ts).1, r :: (h1.alloc ts).2) ∧
        Ext h h1 ∧ RefIn h1 r ∧ Fresh h r ∧ h1.tok r = t ∧
        True := by
      cases t with
      | nonMac s => exact ⟨h, .nonMac s, rfl, Ext.refl h, ⟨by simp [Ref.u?], by simp [v?]⟩, ⟨by simp [Ref.u?], by simp [v?]⟩, rfl, trivial⟩
      | malformed s => exact ⟨h, .malformed s, rfl, Ext.refl h, ⟨by simp [Ref.u?], by simp [v?]⟩, ⟨by simp [Ref.u?], by simp [v?]⟩, rfl, trivial⟩
      | unverified s m =>
        refine ⟨{ h with us := h.us ++ [⟨s, m⟩] }, .unv h.us.length, rfl, ⟨[⟨s, m⟩], [], rfl, by simp⟩, ?_, ?_, ?_, trivial⟩
        · exact ⟨by simp [Ref.u?], by simp [v?]⟩
        · exact ⟨by simp [Ref.u?], by simp [v?]⟩
        · simp [Heap.tok, Heap.u, List.getD_eq_getElem?_getD]
      | verified s m cs =>
        refine ⟨{ us := h.us ++ [⟨s, m⟩], vs := h.vs ++ [cs] }, .ver h.vs.length h.us.length, rfl, ⟨[⟨s, m⟩], [cs], rfl, rfl⟩, ?_, ?_, ?_, trivial⟩
        · exact ⟨by simp [Ref.u?], by simp [v?]⟩
        · exact ⟨by simp [Ref.u?], by simp [v?]⟩
        · simp [Heap.tok, Heap.u, Heap.v, List.getD_eq_getElem?_getD]
      | failed s m =>
        refine ⟨{ h with us := h.us ++ [⟨s, m⟩] }, .fail h.us.length, rfl, ⟨[⟨s, m⟩], [], rfl, by simp⟩, ?_, ?_, ?_, trivial⟩
        · exact ⟨by simp [Ref.u?], by simp [v?]⟩
        · exact ⟨by simp [Ref.u?], by simp [v?]⟩
        · simp [Heap.tok, Heap.u, List.getD_eq_getElem?_getD]
    obtain ⟨e2, hview, hrefs, hnu, hnv⟩ := alloc_spec ts h1
    rw [hdef]
    refine ⟨e1.trans e2, ?_, ?_, ?_, ?_⟩
    · simp only [Heap.view, List.map_cons]
      rw [tok_ext e2 hin1, htok1]
      exact congrArg _ hview
    · intro r' hr'
      rcases List.mem_cons.mp hr' with rfl | hr'
      · exact ⟨hin1.mono e2, hfr1⟩
      · obtain ⟨a, b⟩ := hrefs r' hr'
        exact ⟨a, fun u hu => Nat.le_trans e1.us_le (b.1 u hu), fun v hv => Nat.le_trans e1.vs_le (b.2 v hv)⟩
    · simp only [List.filterMap_cons]
      cases hu : r.u? with
      | none => exact hnu
      | some u =>
        simp only
        refine List.nodup_cons.mpr ⟨?_, hnu⟩
        intro hm
        obtain ⟨r', hr', hu'⟩ := List.mem_filterMap.mp hm
        have := ((hrefs r' hr').2.1 u hu')
        have := hin1.1 u hu
        omega
    · simp only [List.filterMap_cons]
      cases hv : v? r with
      | none => exact hnv
      | some v =>
        simp only
        refine List.nodup_cons.mpr ⟨?_, hnv⟩
        intro hm
        obtain ⟨r', hr', hv'⟩ := List.mem_filterMap.mp hm
        have := ((hrefs r' hr').2.2 v hv')
        have := hin1.2 v hv
        omega


/-! ### `store` / `storeAll` -/

/-- `r'` shares no cell with `r` -/
def Apart (r r' : Ref) : Prop :=
  (∀ u, r.u? = some u → r'.u? ≠ some u) ∧ (∀ v, v? r = some v → v? r' ≠ some v)

/-- the token has the shape of the slot it is written to -/
def Compat : Ref → Tok → Prop
  | .nonMac s, .nonMac s' => s = s'
  | .malformed s, .malformed s' => s = s'
  | .unv _, .unverified .. => True
  | .ver .., .verified .. => True
  | .fail _, .failed .. => True
  | _, _ => False

theorem compat_tok (h : Heap) (r : Ref) : Compat r (h.tok r) := by
  cases r <;> simp [Heap.tok, Compat]

theorem getD_set_eq {α : Type} (l : List α) (i : Nat) (a d : α) (h : i < l.length) : (l.set i a).getD i d = a := by
  simp [List.getD_eq_getElem?_getD, List.getElem?_set, h]

theorem getD_set_ne {α : Type} (l : List α) (i j : Nat) (a d : α) (h : i ≠ j) : (l.set i a).getD j d = l.getD j d := by
  simp [List.getD_eq_getElem?_getD, List.getElem?_set_ne h]

theorem store_lengths (h : Heap) (r : Ref) (t : Tok) :
    (h.store r t).us.length = h.us.length ∧ (h.store r t).vs.length = h.vs.length := by
  cases r <;> cases t <;> simp [Heap.store]

theorem RefIn.store {h : Heap} {r' : Ref} (hr : RefIn h r') (r : Ref) (t : Tok) : RefIn (h.store r t) r' := by
  obtain ⟨e1, e2⟩ := store_lengths h r t
  exact ⟨fun u hu => e1 ▸ hr.1 u hu, fun v hv => e2 ▸ hr.2 v hv⟩

theorem store_u (h : Heap) (r : Ref) (t : Tok) (j : Nat) (hj : r.u? ≠ some j) : (h.store r t).u j = h.u j := by
  cases r with
  | nonMac s => cases t <;> rfl
  | malformed s => cases t <;> rfl
  | unv u =>
    have hne : u ≠ j := fun e => hj (by simp [Ref.u?, e])
    cases t <;> first | rfl | simp only [Heap.store, Heap.u, getD_set_ne _ _ _ _ _ hne]
  | ver v u =>
    have hne : u ≠ j := fun e => hj (by simp [Ref.u?, e])
    cases t <;> first | rfl | simp only [Heap.store, Heap.u, getD_set_ne _ _ _ _ _ hne]
  | fail u =>
    have hne : u ≠ j := fun e => hj (by simp [Ref.u?, e])
    cases t <;> first | rfl | simp only [Heap.store, Heap.u, getD_set_ne _ _ _ _ _ hne]

theorem store_v (h : Heap) (r : Ref) (t : Tok) (j : Nat) (hj : v? r ≠ some j) : (h.store r t).v j = h.v j := by
  cases r with
  | nonMac s => cases t <;> rfl
  | malformed s => cases t <;> rfl
  | unv u => cases t <;> rfl
  | fail u => cases t <;> rfl
  | ver v u =>
    have hne : v ≠ j := fun e => hj (by simp [v?, e])
    cases t <;> first | rfl | simp only [Heap.store, Heap.v, getD_set_ne _ _ _ _ _ hne]

theorem store_tok_apart (h : Heap) (r : Ref) (t : Tok) (r' : Ref) (hap : Apart r r') : (h.store r t).tok r' = h.tok r' := by
  have hu : ∀ j, r'.u? = some j → r.u? ≠ some j := fun j hj e => hap.1 j e hj
  have hv : ∀ j, v? r' = some j → v? r ≠ some j := fun j hj e => hap.2 j e hj
  cases r' with
  | nonMac s => rfl
  | malformed s => rfl
  | unv u => simp only [Heap.tok, store_u h r t u (hu u rfl)]
  | ver v u => simp only [Heap.tok, store_u h r t u (hu u rfl), store_v h r t v (hv v rfl)]
  | fail u => simp only [Heap.tok, store_u h r t u (hu u rfl)]

theorem store_tok_self (h : Heap) (r : Ref) (t : Tok) (hin : RefIn h r) (hc : Compat r t) : (h.store r t).tok r = t := by
  cases r with
  | nonMac s => cases t <;> simp only [Compat] at hc; subst hc; rfl
  | malformed s => cases t <;> simp only [Compat] at hc; subst hc; rfl
  | unv u =>
    have hu := hin.1 u rfl
    cases t <;> simp only [Compat] at hc
    simp only [Heap.store, Heap.tok, Heap.u, getD_set_eq _ _ _ _ hu]
  | ver v u =>
    have hu := hin.1 u rfl
    have hv := hin.2 v rfl
    cases t <;> simp only [Compat] at hc
    simp only [Heap.store, Heap.tok, Heap.u, Heap.v, getD_set_eq _ _ _ _ hu, getD_set_eq _ _ _ _ hv]
  | fail u =>
    have hu := hin.1 u rfl
    cases t <;> simp only [Compat] at hc
    simp only [Heap.store, Heap.tok, Heap.u, getD_set_eq _ _ _ _ hu]

theorem storeAll_spec : ∀ (rs : List Ref) (ts : List Tok) (h : Heap), rs.length = ts.length →
    (∀ r ∈ rs, RefIn h r) → (∀ p ∈ rs.zip ts, Compat p.1 p.2) →
    (rs.filterMap Ref.u?).Nodup → (rs.filterMap v?).Nodup →
    (h.storeAll rs ts).view rs = ts ∧
    (h.storeAll rs ts).us.length = h.us.length ∧ (h.storeAll rs ts).vs.length = h.vs.length ∧
    (∀ r', (∀ r ∈ rs, Apart r r') → (h.storeAll rs ts).tok r' = h.tok r') ∧
    (∀ j, (∀ r ∈ rs, v? r ≠ some j) → (h.storeAll rs ts).v j = h.v j)
  | [], [], h, _, _, _, _, _ => ⟨rfl, rfl, rfl, fun _ _ => rfl, fun _ _ => rfl⟩
  | [], _ :: _, _, hl, _, _, _, _ => by simp at hl
  | _ :: _, [], _, hl, _, _, _, _ => by simp at hl
  | r :: rs, t :: ts, h, hl, hin, hc, hnu, hnv => by
    simp only [Heap.storeAll]
    have hin' : ∀ r' ∈ rs, RefIn (h.store r t) r' := fun r' hr' => (hin r' (List.mem_cons_of_mem _ hr')).store r t
    have hnu' : (rs.filterMap Ref.u?).Nodup := by
      simp only [List.filterMap_cons] at hnu
      cases hu : r.u? <;> simp only [hu] at hnu
      · exact hnu
      · exact (List.nodup_cons.mp hnu).2
    have hnv' : (rs.filterMap v?).Nodup := by
      simp only [List.filterMap_cons] at hnv
      cases hv : v? r <;> simp only [hv] at hnv
      · exact hnv
      · exact (List.nodup_cons.mp hnv).2
    -- the rest of the list is apart from `r`
    have hap : ∀ r' ∈ rs, Apart r' r := by
      intro r' hr'
      constructor
      · intro u hu' hu
        simp only [List.filterMap_cons, hu] at hnu
        exact (List.nodup_cons.mp hnu).1 (List.mem_filterMap.mpr ⟨r', hr', hu'⟩)
      · intro v hv' hv
        simp only [List.filterMap_cons, hv] at hnv
        exact (List.nodup_cons.mp hnv).1 (List.mem_filterMap.mpr ⟨r', hr', hv'⟩)
    obtain ⟨ih1, ih2, ih3, ih4, ih5⟩ := storeAll_spec rs ts (h.store r t) (by simpa using hl) hin'
      (fun p hp => hc p (by simp only [List.zip_cons_cons]; exact List.mem_cons_of_mem _ hp)) hnu' hnv'
    obtain ⟨l1, l2⟩ := store_lengths h r t
    refine ⟨?_, by rw [ih2, l1], by rw [ih3, l2], ?_, ?_⟩
    · simp only [Heap.view, List.map_cons]
      rw [ih4 r hap, store_tok_self h r t (hin r (by simp)) (hc (r, t) (by simp))]
      exact congrArg _ ih1
    · intro r' hr'
      rw [ih4 r' (fun x hx => hr' x (List.mem_cons_of_mem _ hx)),
        store_tok_apart h r t r' (hr' r (by simp))]
    · intro j hj
      rw [ih5 j (fun x hx => hj x (List.mem_cons_of_mem _ hx)), store_v h r t j (hj r (by simp))]


/-! ### `verifyBy`: the fold over the slots -/

/-- the loop body of `HBundle.verifyBy` -/
def vstep (pl : Bytes) (ts : List Tok) (o : Bundle.Oracle) (acc : Heap × List Ref × List (Ref × Ref)) (rt : Ref × Tok) :
    Heap × List Ref × List (Ref × Ref) :=
  if isPermAt pl rt.2 then
    match acc.2.2.lookup rt.1 with
    | some r' => (acc.1, acc.2.1 ++ [r'], acc.2.2)
    | none =>
      let (h', r') := HBundle.verifySlot acc.1 rt.1 (o rt.2 (dischargesOf pl ts rt.2))
      (h', acc.2.1 ++ [r'], acc.2.2 ++ [(rt.1, r')])
  else (acc.1, acc.2.1 ++ [rt.1], acc.2.2)

theorem verifyBy_eq (h : Heap) (b : HBundle) (o : Bundle.Oracle) :
    HBundle.verifyBy h b o =
      (((b.rs.zip (h.view b.rs)).foldl (vstep b.permLoc (h.view b.rs) o) (h, [], [])).1,
       { b with rs := ((b.rs.zip (h.view b.rs)).foldl (vstep b.permLoc (h.view b.rs) o) (h, [], [])).2.1 }) := rfl

/-- what `tokens.Verify` makes of one token -/
def vd (pl : Bytes) (ts : List Tok) (o : Bundle.Oracle) (t : Tok) : Tok :=
  if isPermAt pl t then Bundle.verdict t (o t (dischargesOf pl ts t)) else t

theorem verifyTs_eq_map (pl : Bytes) (o : Bundle.Oracle) (ts : List Tok) : Bundle.verifyTs pl o ts = ts.map (vd pl ts o) := rfl

theorem lookup_none_of_forall {l : List (Ref × Ref)} {r : Ref} (h : ∀ kr ∈ l, kr.1 ≠ r) : l.lookup r = none := by
  induction l with
  | nil => rfl
  | cons a as ih =>
    have h1 : (r == a.1) = false := by
      have := h a (by simp)
      simp only [beq_eq_false_iff_ne, ne_eq]
      exact fun e => this e.symm
    simp only [List.lookup, h1]
    exact ih fun kr hkr => h kr (List.mem_cons_of_mem _ hkr)

/-- a macaroon token comes from a macaroon slot -/
theorem u_of_mac {h : Heap} {r : Ref} {m : M} (hm : (h.tok r).mac? = some m) : ∃ u, r.u? = some u := by
  cases r <;> simp [Heap.tok, Tok.mac?, Ref.u?] at hm ⊢

theorem u_of_perm {h : Heap} {r : Ref} {pl : Bytes} (hp : isPermAt pl (h.tok r) = true) : ∃ u, r.u? = some u := by
  obtain ⟨m, hm, _⟩ := (isPermAt_iff _ _).mp hp
  exact u_of_mac hm

theorem view_cons (h : Heap) (r : Ref) (rs : List Ref) : h.view (r :: rs) = h.tok r :: h.view rs := rfl

theorem nodup_tail_filterMap {α β : Type} (f : α → Option β) (a : α) (l : List α) (h : ((a :: l).filterMap f).Nodup) :
    (l.filterMap f).Nodup := by
  simp only [List.filterMap_cons] at h
  cases hf : f a <;> simp only [hf] at h
  · exact h
  · exact (List.nodup_cons.mp h).2

theorem not_mem_tail_filterMap {α β : Type} (f : α → Option β) (a : α) (l : List α) (b : β) (hf : f a = some b)
    (h : ((a :: l).filterMap f).Nodup) : ∀ x ∈ l, f x ≠ some b := by
  intro x hx e
  simp only [List.filterMap_cons, hf] at h
  exact (List.nodup_cons.mp h).1 (List.mem_filterMap.mpr ⟨x, hx, e⟩)

theorem vfold_spec (pl : Bytes) (ts : List Tok) (o : Bundle.Oracle) : ∀ (l : List (Ref × Tok)) (ha : Heap) (ra : List Ref)
    (memo : List (Ref × Ref)),
    (∀ p ∈ l, RefIn ha p.1) → (∀ p ∈ l, ha.tok p.1 = p.2) → ((l.map (·.1)).filterMap Ref.u?).Nodup →
    ((l.map (·.1)).filterMap v?).Nodup →
    (∀ kr ∈ memo, ∃ u, kr.1.u? = some u ∧ ∀ p ∈ l, p.1.u? ≠ some u) →
    ∃ vs' rsNew, ((l.foldl (vstep pl ts o) (ha, ra, memo)).1).us = ha.us ∧
      ((l.foldl (vstep pl ts o) (ha, ra, memo)).1).vs = ha.vs ++ vs' ∧
      (l.foldl (vstep pl ts o) (ha, ra, memo)).2.1 = ra ++ rsNew ∧
      rsNew.map Ref.u? = l.map (fun p => p.1.u?) ∧
      (∀ r ∈ rsNew, ∀ v, v? r = some v → v < ha.vs.length + vs'.length ∧
        (v < ha.vs.length → ∃ q ∈ l, v? q.1 = some v)) ∧
      (rsNew.filterMap v?).Nodup ∧
      ((l.foldl (vstep pl ts o) (ha, ra, memo)).1).view rsNew = l.map (fun p => vd pl ts o p.2)
  | [], ha, ra, memo, _, _, _, _, _ => ⟨[], [], rfl, by simp, by simp, rfl, by simp, by simp, rfl⟩
  | p :: l, ha, ra, memo, hin, htok, hnd, hndv, hmemo => by
    simp only [List.foldl_cons]
    have hnd' : ((l.map (·.1)).filterMap Ref.u?).Nodup := nodup_tail_filterMap _ p.1 _ (by simpa using hnd)
    have hndv' : ((l.map (·.1)).filterMap v?).Nodup := nodup_tail_filterMap _ p.1 _ (by simpa using hndv)
    have hin' : ∀ q ∈ l, RefIn ha q.1 := fun q hq => hin q (List.mem_cons_of_mem _ hq)
    have htok' : ∀ q ∈ l, ha.tok q.1 = q.2 := fun q hq => htok q (List.mem_cons_of_mem _ hq)
    have hp2 := htok p (by simp)
    have hmemo' : ∀ kr ∈ memo, ∃ u, kr.1.u? = some u ∧ ∀ q ∈ l, q.1.u? ≠ some u := by
      intro kr hkr
      obtain ⟨u', hu', hno⟩ := hmemo kr hkr
      exact ⟨u', hu', fun q hq => hno q (List.mem_cons_of_mem _ hq)⟩
    by_cases hperm : isPermAt pl p.2 = true
    · -- a permission token: a macaroon slot, never seen before
      obtain ⟨u, hu⟩ := u_of_perm (h := ha) (r := p.1) (by rw [hp2]; exact hperm)
      have hlook : memo.lookup p.1 = none := by
        apply lookup_none_of_forall
        intro kr hkr e
        obtain ⟨u', hu', hno⟩ := hmemo kr hkr
        rw [e, hu] at hu'
        exact hno p (by simp) (by rw [hu, hu'])
      have hfresh : ∀ q ∈ l, q.1.u? ≠ some u := by
        intro q hq
        exact not_mem_tail_filterMap Ref.u? p.1 (l.map (·.1)) u hu (by simpa using hnd) q.1 (List.mem_map_of_mem hq)
      have hmemo2 : ∀ r', ∀ kr ∈ memo ++ [(p.1, r')], ∃ u, kr.1.u? = some u ∧ ∀ q ∈ l, q.1.u? ≠ some u := by
        intro r' kr hkr
        rcases List.mem_append.mp hkr with h1 | h1
        · exact hmemo' kr h1
        · simp at h1; subst h1; exact ⟨u, hu, hfresh⟩
      have husz : u < ha.us.length := (hin p (by simp)).1 u hu
      -- the token in the slot
      have hslot : ∃ s m, (ha.u u).s = s ∧ (ha.u u).m = m ∧ p.2.str = s ∧ p.2.mac? = some m := by
        refine ⟨(ha.u u).s, (ha.u u).m, rfl, rfl, ?_, ?_⟩ <;> rw [← hp2] <;>
          (cases hp1 : p.1 <;> rw [hp1] at hu <;> simp [Ref.u?] at hu <;> subst hu <;> simp [Heap.tok, Tok.str, Tok.mac?])
      obtain ⟨s0, m0, hs0, hm0, hstr, hmac⟩ := hslot
      cases hres : o p.2 (dischargesOf pl ts p.2) with
      | none =>
        have hstep : vstep pl ts o (ha, ra, memo) p = (ha, ra ++ [.fail u], memo ++ [(p.1, .fail u)]) := by
          simp only [vstep, hperm, if_true, hlook, HBundle.verifySlot, hu, hres]
        rw [hstep]
        obtain ⟨vs', rsNew, e1, e2, e3, e4, e5, e6, e7⟩ := vfold_spec pl ts o l ha (ra ++ [.fail u]) (memo ++ [(p.1, .fail u)])
          hin' htok' hnd' hndv' (hmemo2 _)
        refine ⟨vs', .fail u :: rsNew, e1, e2, by rw [e3]; simp, by rw [List.map_cons, List.map_cons, e4, hu]; rfl, ?_, ?_, ?_⟩
        · intro r hr v hv
          rcases List.mem_cons.mp hr with rfl | hr
          · simp [v?] at hv
          · obtain ⟨a, b⟩ := e5 r hr v hv
            exact ⟨a, fun hlt => by obtain ⟨q, hq, hqv⟩ := b hlt; exact ⟨q, List.mem_cons_of_mem _ hq, hqv⟩⟩
        · simpa [List.filterMap_cons, v?] using e6
        · rw [view_cons, e7, List.map_cons]
          congr 1
          have hext : Ext ha (l.foldl (vstep pl ts o) (ha, ra ++ [.fail u], memo ++ [(p.1, .fail u)])).1 := ⟨[], vs', by simp [e1], e2⟩
          have hinu : RefIn ha (.fail u) := ⟨fun u' hu' => by simp [Ref.u?] at hu'; subst hu'; exact husz, by simp [v?]⟩
          rw [tok_ext hext hinu]
          simp only [vd, hperm, if_true, hres, Bundle.verdict, hmac, Heap.tok, hs0, hm0, hstr]
      | some cs =>
        have hstep : vstep pl ts o (ha, ra, memo) p =
            ({ ha with vs := ha.vs ++ [cs] }, ra ++ [.ver ha.vs.length u], memo ++ [(p.1, .ver ha.vs.length u)]) := by
          simp only [vstep, hperm, if_true, hlook, HBundle.verifySlot, hu, hres]
        rw [hstep]
        have hext1 : Ext ha { ha with vs := ha.vs ++ [cs] } := ⟨[], [cs], by simp, rfl⟩
        obtain ⟨vs', rsNew, e1, e2, e3, e4, e5, e6, e7⟩ := vfold_spec pl ts o l { ha with vs := ha.vs ++ [cs] }
          (ra ++ [.ver ha.vs.length u]) (memo ++ [(p.1, .ver ha.vs.length u)])
          (fun q hq => (hin' q hq).mono hext1) (fun q hq => by rw [tok_ext hext1 (hin' q hq)]; exact htok' q hq) hnd' hndv' (hmemo2 _)
        simp only [List.length_append, List.length_singleton] at e5
        refine ⟨cs :: vs', .ver ha.vs.length u :: rsNew, e1, by rw [e2]; simp, by rw [e3]; simp,
          by rw [List.map_cons, List.map_cons, e4, hu]; rfl, ?_, ?_, ?_⟩
        · intro r hr v hv
          rcases List.mem_cons.mp hr with rfl | hr
          · simp only [v?, Option.some.injEq] at hv
            subst hv
            exact ⟨by simp, fun hlt => absurd hlt (Nat.lt_irrefl _)⟩
          · obtain ⟨a, b⟩ := e5 r hr v hv
            refine ⟨by simp only [List.length_cons]; omega, fun hlt => ?_⟩
            obtain ⟨q, hq, hqv⟩ := b (by omega)
            exact ⟨q, List.mem_cons_of_mem _ hq, hqv⟩
        · simp only [List.filterMap_cons, v?]
          refine List.nodup_cons.mpr ⟨?_, e6⟩
          intro hm
          obtain ⟨r, hr, hv⟩ := List.mem_filterMap.mp hm
          obtain ⟨_, b⟩ := e5 r hr _ hv
          obtain ⟨q, hq, hqv⟩ := b (by omega)
          have := ((hin' q hq).2 _ hqv)
          omega
        · rw [view_cons, e7, List.map_cons]
          congr 1
          have hext : Ext { ha with vs := ha.vs ++ [cs] } (l.foldl (vstep pl ts o) ({ ha with vs := ha.vs ++ [cs] }, ra ++ [.ver ha.vs.length u], memo ++ [(p.1, .ver ha.vs.length u)])).1 :=
            ⟨[], vs', by simp [e1], e2⟩
          have hinu : RefIn { ha with vs := ha.vs ++ [cs] } (.ver ha.vs.length u) :=
            ⟨fun u' hu' => by simp [Ref.u?] at hu'; subst hu'; exact husz,
             fun v hv => by simp [v?] at hv; subst hv; simp⟩
          rw [tok_ext hext hinu]
          have hv0 : ({ ha with vs := ha.vs ++ [cs] } : Heap).v ha.vs.length = cs := by
            simp [Heap.v, List.getD_eq_getElem?_getD]
          have hu0 : ({ ha with vs := ha.vs ++ [cs] } : Heap).u u = ha.u u := rfl
          simp only [vd, hperm, if_true, hres, Bundle.verdict, hmac, Heap.tok, hv0, hu0, hs0, hm0, hstr]
    · -- not a permission token: the slot is kept
      have hstep : vstep pl ts o (ha, ra, memo) p = (ha, ra ++ [p.1], memo) := by
        simp only [vstep, hperm]
        rfl
      rw [hstep]
      obtain ⟨vs', rsNew, e1, e2, e3, e4, e5, e6, e7⟩ := vfold_spec pl ts o l ha (ra ++ [p.1]) memo hin' htok' hnd' hndv' hmemo'
      refine ⟨vs', p.1 :: rsNew, e1, e2, by rw [e3]; simp, by simp only [List.map_cons, e4], ?_, ?_, ?_⟩
      · intro r hr v hv
        rcases List.mem_cons.mp hr with rfl | hr
        · have := (hin p (by simp)).2 v hv
          exact ⟨by omega, fun _ => ⟨p, by simp, hv⟩⟩
        · obtain ⟨a, b⟩ := e5 r hr v hv
          exact ⟨a, fun hlt => by obtain ⟨q, hq, hqv⟩ := b hlt; exact ⟨q, List.mem_cons_of_mem _ hq, hqv⟩⟩
      · simp only [List.filterMap_cons]
        cases hv : v? p.1 with
        | none => exact e6
        | some v =>
          simp only
          refine List.nodup_cons.mpr ⟨?_, e6⟩
          intro hm
          obtain ⟨r, hr, hrv⟩ := List.mem_filterMap.mp hm
          obtain ⟨_, b⟩ := e5 r hr v hrv
          have hlt := (hin p (by simp)).2 v hv
          obtain ⟨q, hq, hqv⟩ := b hlt
          exact not_mem_tail_filterMap v? p.1 (l.map (·.1)) v hv (by simpa using hndv) q.1 (List.mem_map_of_mem hq) hqv
      · rw [view_cons, e7, List.map_cons]
        congr 1
        have hext : Ext ha (l.foldl (vstep pl ts o) (ha, ra ++ [p.1], memo)).1 := ⟨[], vs', by simp [e1], e2⟩
        rw [tok_ext hext (hin p (by simp)), hp2]
        simp [vd, hperm]

/-! ### well-formed bundles, and what an operation may do to the heap -/

/-- a bundle that owns its objects: every reference points into the heap, and no object is referenced
twice (no two slots share a `*UnverifiedMacaroon` or a `Caveats` cell) -/
structure BOK (h : Heap) (b : HBundle) : Prop where
  inr : ∀ r ∈ b.rs, RefIn h r
  nu : (b.rs.filterMap Ref.u?).Nodup
  nv : (b.rs.filterMap v?).Nodup

theorem Apart.symm {r r' : Ref} (h : Apart r r') : Apart r' r :=
  ⟨fun u hu hu' => h.1 u hu' hu, fun v hv hv' => h.2 v hv' hv⟩

/-- the footprint of an operation on bundle `b`: the heap grows, changes only at cells of `b`, and the
resulting bundle `b'` is well formed and made of cells of `b` and fresh cells -/
structure Upd (h : Heap) (b : HBundle) (h' : Heap) (b' : HBundle) : Prop where
  us_le : h.us.length ≤ h'.us.length
  vs_le : h.vs.length ≤ h'.vs.length
  frame : ∀ r, RefIn h r → (∀ r0 ∈ b.rs, Apart r0 r) → h'.tok r = h.tok r
  framev : ∀ j, j < h.vs.length → (∀ r0 ∈ b.rs, v? r0 ≠ some j) → h'.v j = h.v j
  ok : BOK h' b'
  fromu : ∀ r' ∈ b'.rs, ∀ u, r'.u? = some u → (∃ r0 ∈ b.rs, r0.u? = some u) ∨ h.us.length ≤ u
  fromv : ∀ r' ∈ b'.rs, ∀ v, v? r' = some v → (∃ r0 ∈ b.rs, v? r0 = some v) ∨ h.vs.length ≤ v

theorem Upd.of_ext {h h' : Heap} {b b' : HBundle} (e : Ext h h') (ok : BOK h' b')
    (fromu : ∀ r' ∈ b'.rs, ∀ u, r'.u? = some u → (∃ r0 ∈ b.rs, r0.u? = some u) ∨ h.us.length ≤ u)
    (fromv : ∀ r' ∈ b'.rs, ∀ v, v? r' = some v → (∃ r0 ∈ b.rs, v? r0 = some v) ∨ h.vs.length ≤ v) : Upd h b h' b' :=
  ⟨e.us_le, e.vs_le, fun _ hr _ => tok_ext e hr, fun _ hj _ => e.v_eq hj, ok, fromu, fromv⟩

/-- **frame**: a slice of references into the old heap that shares no object with the bundle operated on
denotes the same tokens afterwards -/
theorem Upd.frame_view {h h' : Heap} {b b' : HBundle} (up : Upd h b h' b') (c : HBundle) (hc : ∀ r ∈ c.rs, RefIn h r)
    (hap : ∀ r0 ∈ b.rs, ∀ r ∈ c.rs, Apart r0 r) : c.view h' = c.view h := by
  simp only [HBundle.view, Heap.view]
  congr 1
  exact List.map_congr_left fun r hr => up.frame r (hc r hr) (fun r0 hr0 => hap r0 hr0 r hr)

/-- … and shares no object with the resulting bundle either -/
theorem Upd.keeps_apart {h h' : Heap} {b b' : HBundle} (up : Upd h b h' b') (c : HBundle) (hc : ∀ r ∈ c.rs, RefIn h r)
    (hap : ∀ r0 ∈ b.rs, ∀ r ∈ c.rs, Apart r0 r) : ∀ r' ∈ b'.rs, ∀ r ∈ c.rs, Apart r' r := by
  intro r' hr' r hr
  constructor
  · intro u hu hu'
    rcases up.fromu r' hr' u hu with ⟨r0, hr0, h0⟩ | hge
    · exact (hap r0 hr0 r hr).1 u h0 hu'
    · have := (hc r hr).1 u hu'; omega
  · intro v hv hv'
    rcases up.fromv r' hr' v hv with ⟨r0, hr0, h0⟩ | hge
    · exact (hap r0 hr0 r hr).2 v h0 hv'
    · have := (hc r hr).2 v hv'; omega

theorem BOK.mono {h h' : Heap} {b : HBundle} (e : Ext h h') (ok : BOK h b) : BOK h' b :=
  ⟨fun r hr => (ok.inr r hr).mono e, ok.nu, ok.nv⟩

/-! #### zip with the view -/

theorem zip_map_fst {α β : Type} (f : α → β) : ∀ (l : List α), (l.zip (l.map f)).map (·.1) = l
  | [] => rfl
  | a :: l => by simp only [List.map_cons, List.zip_cons_cons, zip_map_fst f l]

theorem zip_map_snd {α β γ : Type} (f : α → β) (g : β → γ) : ∀ (l : List α), (l.zip (l.map f)).map (fun p => g p.2) = l.map (fun a => g (f a))
  | [] => rfl
  | a :: l => by simp only [List.map_cons, List.zip_cons_cons, zip_map_snd f g l]

theorem zip_map_fst' {α β γ : Type} (f : α → β) (g : α → γ) : ∀ (l : List α), (l.zip (l.map f)).map (fun p => g p.1) = l.map g
  | [] => rfl
  | a :: l => by simp only [List.map_cons, List.zip_cons_cons, zip_map_fst' f g l]

theorem mem_zip_map {α β : Type} (f : α → β) : ∀ (l : List α) (p : α × β), p ∈ l.zip (l.map f) → p.1 ∈ l ∧ p.2 = f p.1
  | [], p, h => by simp at h
  | a :: l, p, h => by
    simp only [List.map_cons, List.zip_cons_cons, List.mem_cons] at h
    rcases h with rfl | h
    · exact ⟨by simp, rfl⟩
    · obtain ⟨h1, h2⟩ := mem_zip_map f l p h
      exact ⟨List.mem_cons_of_mem _ h1, h2⟩

theorem filterMap_eq_of_map_eq {α β γ : Type} (f : α → Option γ) (g : β → Option γ) : ∀ (l : List α) (l' : List β),
    l.map f = l'.map g → l.filterMap f = l'.filterMap g
  | [], [], _ => rfl
  | [], _ :: _, h => by simp at h
  | _ :: _, [], h => by simp at h
  | a :: l, b :: l', h => by
    simp only [List.map_cons, List.cons.injEq] at h
    simp only [List.filterMap_cons, h.1, filterMap_eq_of_map_eq f g l l' h.2]

/-! #### `verifyBy` -/

/-- **`HBundle.verifyBy` refines `Bundle.verifyBy`** on a bundle that owns its objects: the view of the
result is the value-level result, the heap only grows, the result owns its objects, keeps the
`*UnverifiedMacaroon`s and takes fresh `Caveats` cells for its new verdicts. -/
theorem verifyBy_refines (h : Heap) (b : HBundle) (o : Bundle.Oracle) (ok : BOK h b) :
    (HBundle.verifyBy h b o).2.view (HBundle.verifyBy h b o).1 = (b.view h).verifyBy o ∧
    Ext h (HBundle.verifyBy h b o).1 ∧ Upd h b (HBundle.verifyBy h b o).1 (HBundle.verifyBy h b o).2 := by
  rw [verifyBy_eq]
  obtain ⟨vs', rsNew, e1, e2, e3, e4, e5, e6, e7⟩ := vfold_spec b.permLoc (h.view b.rs) o (b.rs.zip (h.view b.rs)) h [] []
    (fun p hp => ok.inr _ (mem_zip_map h.tok b.rs p hp).1)
    (fun p hp => (mem_zip_map h.tok b.rs p hp).2.symm)
    (by rw [show h.view b.rs = b.rs.map h.tok from rfl, zip_map_fst]; exact ok.nu)
    (by rw [show h.view b.rs = b.rs.map h.tok from rfl, zip_map_fst]; exact ok.nv)
    (by intro kr hkr; simp at hkr)
  simp only [List.nil_append] at e3
  have hext : Ext h ((b.rs.zip (h.view b.rs)).foldl (vstep b.permLoc (h.view b.rs) o) (h, [], [])).1 :=
    ⟨[], vs', by simp [e1], e2⟩
  have e4' : rsNew.map Ref.u? = b.rs.map Ref.u? := by
    rw [e4]; exact zip_map_fst' h.tok Ref.u? b.rs
  have hlen : (((b.rs.zip (h.view b.rs)).foldl (vstep b.permLoc (h.view b.rs) o) (h, [], [])).1).vs.length = h.vs.length + vs'.length := by
    rw [e2]; simp
  have hfromu : ∀ r' ∈ rsNew, ∀ u, r'.u? = some u → ∃ r0 ∈ b.rs, r0.u? = some u := by
    intro r' hr' u hu
    have : some u ∈ rsNew.map Ref.u? := hu ▸ List.mem_map_of_mem hr'
    rw [e4'] at this
    obtain ⟨r0, h0, h1⟩ := List.mem_map.mp this
    exact ⟨r0, h0, h1⟩
  refine ⟨?_, hext, Upd.of_ext hext ⟨?_, ?_, ?_⟩ ?_ ?_⟩
  · simp only [HBundle.view, Bundle.verifyBy, e3, e7, verifyTs_eq_map]
    congr 1
    rw [show h.view b.rs = b.rs.map h.tok from rfl, List.map_map]
    exact zip_map_snd h.tok (vd b.permLoc (b.rs.map h.tok) o) b.rs
  · intro r hr
    simp only [e3] at hr
    refine ⟨fun u hu => ?_, fun v hv => ?_⟩
    · obtain ⟨r0, h0, h1⟩ := hfromu r hr u hu
      rw [e1]; exact (ok.inr r0 h0).1 u h1
    · rw [hlen]; exact (e5 r hr v hv).1
  · simp only [e3]
    rw [filterMap_eq_of_map_eq Ref.u? Ref.u? rsNew b.rs e4']; exact ok.nu
  · simp only [e3]; exact e6
  · intro r' hr' u hu
    simp only [e3] at hr'
    exact Or.inl (hfromu r' hr' u hu)
  · intro r' hr' v hv
    simp only [e3] at hr'
    obtain ⟨_, b2⟩ := e5 r' hr' v hv
    by_cases hlt : v < h.vs.length
    · obtain ⟨q, hq, hqv⟩ := b2 hlt
      exact Or.inl ⟨q.1, (mem_zip_map h.tok b.rs q hq).1, hqv⟩
    · exact Or.inr (by omega)

/-! #### `attenuate` -/

theorem compat_attTok (h : Heap) (items : List (AddItem Bytes)) (r : Ref) (t' : Tok)
    (e : Bundle.attTok items (h.tok r) = some t') : Compat r t' := by
  cases r with
  | nonMac s => simp only [Heap.tok, Bundle.attTok, Option.some.injEq] at e; subst e; simp [Compat]
  | malformed s => simp only [Heap.tok, Bundle.attTok, Option.some.injEq] at e; subst e; simp [Compat]
  | unv u =>
    simp only [Heap.tok, Bundle.attTok, Option.map_eq_some_iff] at e
    obtain ⟨x, _, rfl⟩ := e; trivial
  | ver v u =>
    simp only [Heap.tok, Bundle.attTok, Option.map_eq_some_iff] at e
    obtain ⟨x, _, rfl⟩ := e; trivial
  | fail u =>
    simp only [Heap.tok, Bundle.attTok, Option.map_eq_some_iff] at e
    obtain ⟨x, _, rfl⟩ := e; trivial

theorem compat_of_map (h : Heap) (g : Tok → Option Tok) (hg : ∀ r t', g (h.tok r) = some t' → Compat r t') :
    ∀ (rs : List Ref) (ts' : List Tok), rs.map (fun r => g (h.tok r)) = ts'.map some → ∀ p ∈ rs.zip ts', Compat p.1 p.2
  | [], _, _, p, hp => by simp at hp
  | _ :: _, [], _, p, hp => by simp at hp
  | r :: rs, t :: ts, e, p, hp => by
    simp only [List.map_cons, List.cons.injEq] at e
    simp only [List.zip_cons_cons, List.mem_cons] at hp
    rcases hp with rfl | hp
    · exact hg r t e.1
    · exact compat_of_map h g hg rs ts e.2 p hp

/-- **`HBundle.attenuate` refines `Bundle.attenuate`**: it writes exactly the cells of its own bundle. -/
theorem attenuate_refines (h : Heap) (b : HBundle) (items : List (AddItem Bytes)) (ok : BOK h b) :
    (b.view (HBundle.attenuate h b items).1, (HBundle.attenuate h b items).2) = (b.view h).attenuate items ∧
    Upd h b (HBundle.attenuate h b items).1 b := by
  have hupd0 : Upd h b h b := Upd.of_ext (Ext.refl h) ok (fun r' hr' u hu => Or.inl ⟨r', hr', hu⟩)
    (fun r' hr' v hv => Or.inl ⟨r', hr', hv⟩)
  simp only [HBundle.attenuate, Bundle.attenuate, HBundle.view]
  cases hts : Bundle.attenuateTs b.permLoc items (h.view b.rs) with
  | none => exact ⟨rfl, hupd0⟩
  | some ts =>
    have hmap := (mapM_some_iff _ _ _).mp hts
    have hlen : b.rs.length = ts.length := by
      have := congrArg List.length hmap
      simpa [Heap.view] using this
    have hc : ∀ p ∈ b.rs.zip ts, Compat p.1 p.2 := by
      apply compat_of_map h (fun t => if isPermAt b.permLoc t then Bundle.attTok items t else some t)
      · intro r t' e
        by_cases hp : isPermAt b.permLoc (h.tok r) = true
        · simp only [hp, if_true] at e; exact compat_attTok h items r t' e
        · simp only [hp] at e
          simp only [Bool.false_eq_true, if_false, Option.some.injEq] at e
          subst e; exact compat_tok h r
      · rw [← hmap]; simp only [Heap.view, List.map_map]; rfl
    obtain ⟨s1, s2, s3, s4, s5⟩ := storeAll_spec b.rs ts h hlen ok.inr hc ok.nu ok.nv
    refine ⟨by simp only [s1], ?_⟩
    exact ⟨by rw [s2]; exact Nat.le_refl _, by rw [s3]; exact Nat.le_refl _, fun r _ hap => s4 r hap, fun j _ hj => s5 j hj,
      ⟨fun r hr => ⟨fun u hu => s2 ▸ (ok.inr r hr).1 u hu, fun v hv => s3 ▸ (ok.inr r hr).2 v hv⟩, ok.nu, ok.nv⟩,
      fun r' hr' u hu => Or.inl ⟨r', hr', hu⟩, fun r' hr' v hv => Or.inl ⟨r', hr', hv⟩⟩

/-! #### operations that allocate: `dischargeWith`, `addTokens`, `clone`, `parseWith` -/

theorem nodup_append_of {α : Type} {l1 l2 : List α} (h1 : l1.Nodup) (h2 : l2.Nodup) (h : ∀ a ∈ l1, a ∉ l2) : (l1 ++ l2).Nodup := by
  induction l1 with
  | nil => simpa using h2
  | cons a l ih =>
    have ⟨ha, hl⟩ := List.nodup_cons.mp h1
    simp only [List.cons_append]
    refine List.nodup_cons.mpr ⟨?_, ih hl fun x hx => h x (List.mem_cons_of_mem _ hx)⟩
    intro hm
    rcases List.mem_append.mp hm with hm | hm
    · exact ha hm
    · exact h a (by simp) hm

/-- appending freshly allocated tokens to a bundle -/
theorem append_alloc (h : Heap) (b : HBundle) (ts : List Tok) (ok : BOK h b) :
    (h.alloc ts).1.view (b.rs ++ (h.alloc ts).2) = h.view b.rs ++ ts ∧ Ext h (h.alloc ts).1 ∧
    Upd h b (h.alloc ts).1 { b with rs := b.rs ++ (h.alloc ts).2 } := by
  obtain ⟨e, hv, hrefs, hnu, hnv⟩ := alloc_spec ts h
  refine ⟨?_, e, Upd.of_ext e ⟨?_, ?_, ?_⟩ ?_ ?_⟩
  · simp only [Heap.view, List.map_append]
    rw [show List.map (h.alloc ts).1.tok (h.alloc ts).2 = ts from hv]
    congr 1
    exact view_ext e ok.inr
  · intro r hr
    rcases List.mem_append.mp hr with hr | hr
    · exact (ok.inr r hr).mono e
    · exact (hrefs r hr).1
  · simp only [List.filterMap_append]
    refine nodup_append_of ok.nu hnu ?_
    intro u hu hu'
    obtain ⟨r, hr, hru⟩ := List.mem_filterMap.mp hu
    obtain ⟨r', hr', hru'⟩ := List.mem_filterMap.mp hu'
    have := (ok.inr r hr).1 u hru
    have := (hrefs r' hr').2.1 u hru'
    omega
  · simp only [List.filterMap_append]
    refine nodup_append_of ok.nv hnv ?_
    intro v hv hv'
    obtain ⟨r, hr, hrv⟩ := List.mem_filterMap.mp hv
    obtain ⟨r', hr', hrv'⟩ := List.mem_filterMap.mp hv'
    have := (ok.inr r hr).2 v hrv
    have := (hrefs r' hr').2.2 v hrv'
    omega
  · intro r' hr' u hu
    rcases List.mem_append.mp hr' with hr' | hr'
    · exact Or.inl ⟨r', hr', hu⟩
    · exact Or.inr ((hrefs r' hr').2.1 u hu)
  · intro r' hr' v hv
    rcases List.mem_append.mp hr' with hr' | hr'
    · exact Or.inl ⟨r', hr', hv⟩
    · exact Or.inr ((hrefs r' hr').2.2 v hv)

theorem Upd.id {h : Heap} {b : HBundle} (ok : BOK h b) : Upd h b h b :=
  Upd.of_ext (Ext.refl h) ok (fun r' hr' u hu => Or.inl ⟨r', hr', hu⟩) (fun r' hr' v hv => Or.inl ⟨r', hr', hv⟩)

/-- **`HBundle.dischargeWith` refines `Bundle.dischargeWith`**: the new discharges are fresh objects. -/
theorem dischargeWith_refines (sc : Bundle.DischargeScope) (h : Heap) (b : HBundle) (loc ka : Bytes) (cb : Bundle.Discharger)
    (rnds : List Bytes) (ok : BOK h b) :
    ((HBundle.dischargeWith sc h b loc ka cb rnds).2.1.view (HBundle.dischargeWith sc h b loc ka cb rnds).1,
      (HBundle.dischargeWith sc h b loc ka cb rnds).2.2) = Bundle.dischargeWith sc (b.view h) loc ka cb rnds ∧
    Ext h (HBundle.dischargeWith sc h b loc ka cb rnds).1 ∧
    Upd h b (HBundle.dischargeWith sc h b loc ka cb rnds).1 (HBundle.dischargeWith sc h b loc ka cb rnds).2.1 := by
  simp only [HBundle.dischargeWith, Bundle.dischargeWith, HBundle.view]
  cases hds : Bundle.newDischarges sc b.permLoc (h.view b.rs) loc ka cb rnds with
  | none => exact ⟨rfl, Ext.refl h, Upd.id ok⟩
  | some ds =>
    obtain ⟨a1, a2, a3⟩ := append_alloc h b ds ok
    exact ⟨by simp only [a1], a2, a3⟩

/-- **`HBundle.addTokens` refines `Bundle.addTokens`**. -/
theorem addTokens_refines (h : Heap) (b : HBundle) (hdr : Str) (ok : BOK h b) :
    ((HBundle.addTokens h b hdr).2.1.view (HBundle.addTokens h b hdr).1, (HBundle.addTokens h b hdr).2.2)
      = Bundle.addTokens (b.view h) hdr ∧
    Ext h (HBundle.addTokens h b hdr).1 ∧
    Upd h b (HBundle.addTokens h b hdr).1 (HBundle.addTokens h b hdr).2.1 := by
  simp only [HBundle.addTokens, Bundle.addTokens, HBundle.view]
  by_cases he : hasError (parseToks hdr) = true
  · rw [if_pos he, if_pos he]; exact ⟨rfl, Ext.refl h, Upd.id ok⟩
  · rw [if_neg he, if_neg he]
    obtain ⟨a1, a2, a3⟩ := append_alloc h b (parseToks hdr) ok
    exact ⟨by simp only [a1], a2, a3⟩

/-- a bundle of freshly allocated tokens: well formed, fresh, and the heap only grows -/
theorem fresh_bundle (h : Heap) (pl : Bytes) (ts : List Tok) (ks : List Bool) :
    (h.alloc ts).1.view (applyMask ks (h.alloc ts).2) = applyMask ks ts ∧ Ext h (h.alloc ts).1 ∧
    BOK (h.alloc ts).1 ⟨pl, applyMask ks (h.alloc ts).2⟩ ∧ ∀ r ∈ applyMask ks (h.alloc ts).2, Fresh h r := by
  obtain ⟨e, hv, hrefs, hnu, hnv⟩ := alloc_spec ts h
  refine ⟨?_, e, ⟨fun r hr => (hrefs r (applyMask_mem hr)).1, ?_, ?_⟩, fun r hr => (hrefs r (applyMask_mem hr)).2⟩
  · have := (applyMask_map_comm (h.alloc ts).1.tok ks (h.alloc ts).2).symm
    simp only [Heap.view] at hv ⊢
    rw [this, hv]
  · exact ((applyMask_sublist ks _).filterMap _).nodup hnu
  · exact ((applyMask_sublist ks _).filterMap _).nodup hnv

/-- **`HBundle.clone` refines `Bundle.clone`**: the clone is made of fresh objects only (it shares
nothing with its original) and the original is untouched. -/
theorem clone_refines (h : Heap) (b : HBundle) :
    (HBundle.clone h b).2.view (HBundle.clone h b).1 = (b.view h).clone ∧ Ext h (HBundle.clone h b).1 ∧
    BOK (HBundle.clone h b).1 (HBundle.clone h b).2 ∧ ∀ r ∈ (HBundle.clone h b).2.rs, Fresh h r := by
  obtain ⟨e, hv, hrefs, hnu, hnv⟩ := alloc_spec (parseToks (b.view h).header) h
  exact ⟨by simp only [HBundle.clone, Bundle.clone]; exact congrArg (Bundle.mk b.permLoc) hv, e, ⟨fun r hr => (hrefs r hr).1, hnu, hnv⟩, fun r hr => (hrefs r hr).2⟩

/-- **`HBundle.parseWith` refines `Bundle.parseWith`**. -/
theorem parseWith_refines (h : Heap) (pl : Bytes) (hdr : Str) (f : Filter) :
    ((HBundle.parseWith h pl hdr f).2.1.view (HBundle.parseWith h pl hdr f).1, (HBundle.parseWith h pl hdr f).2.2)
      = Bundle.parseWith pl hdr f ∧ Ext h (HBundle.parseWith h pl hdr f).1 ∧
    BOK (HBundle.parseWith h pl hdr f).1 (HBundle.parseWith h pl hdr f).2.1 ∧
    ∀ r ∈ (HBundle.parseWith h pl hdr f).2.1.rs, Fresh h r := by
  obtain ⟨a1, a2, a3, a4⟩ := fresh_bundle h pl (parseToks hdr) (f.mask pl (parseToks hdr))
  exact ⟨by simp only [HBundle.parseWith, Bundle.parseWith, HBundle.view, a1, Filter.apply], a2, a3, a4⟩

/-! #### `filter` / `select` -/

/-- **`HBundle.filter` refines `Bundle.filter`**: no object is touched, the result is a sub-slice. -/
theorem filter_refines (h : Heap) (b : HBundle) (f : Filter) (ok : BOK h b) :
    (HBundle.filter h b f).view h = (b.view h).filter f ∧ Upd h b h (HBundle.filter h b f) := by
  have hsub := applyMask_sublist (f.mask b.permLoc (h.view b.rs)) b.rs
  refine ⟨?_, Upd.of_ext (Ext.refl h) ⟨fun r hr => ok.inr r (hsub.subset hr), ?_, ?_⟩ ?_ ?_⟩
  · simp only [HBundle.filter, HBundle.select, HBundle.view, Bundle.filter, Filter.apply, Heap.view]
    congr 1
    exact (applyMask_map_comm _ _ _).symm
  · exact (hsub.filterMap _).nodup ok.nu
  · exact (hsub.filterMap _).nodup ok.nv
  · intro r' hr' u hu; exact Or.inl ⟨r', hsub.subset hr', hu⟩
  · intro r' hr' v hv; exact Or.inl ⟨r', hsub.subset hr', hv⟩

/-! ### the caching verifier on objects (`.copy`) -/

/-- one permission slot of `hverifyCached .copy` -/
def cslot (ko : KeyOrder) (V : Bundle.Oracle) (now ttl : Int) (st : List HEntry) (pl : Bytes) (ts : List Tok)
    (acc : SlotAcc) (rt : Ref × Tok) (u : Nat) : SlotAcc × Ref :=
  let ds := dischargesOf pl ts rt.2
  let k := keyOf ko rt.2 ds
  match hget st now k with
  | some e =>
    ({ acc with heap := { acc.heap with vs := acc.heap.vs ++ [acc.heap.v e.v] },
                rs := acc.rs ++ [Ref.ver acc.heap.vs.length u] }, Ref.ver acc.heap.vs.length u)
  | none =>
    match V rt.2 (sortToks ko ds) with
    | none => ({ acc with rs := acc.rs ++ [Ref.fail u] }, Ref.fail u)
    | some cs =>
      let v := acc.heap.vs.length
      ({ acc with heap := { acc.heap with vs := acc.heap.vs ++ [cs, cs] }, rs := acc.rs ++ [Ref.ver v u],
                  ins := acc.ins ++ [HEntry.mk k (v + 1) u (now + ttl)] }, Ref.ver v u)

/-- the loop body of `hverifyCached .copy` -/
def cstep (ko : KeyOrder) (V : Bundle.Oracle) (now ttl : Int) (st : List HEntry) (pl : Bytes) (ts : List Tok)
    (acc : SlotAcc) (rt : Ref × Tok) : SlotAcc :=
  if isPermAt pl rt.2 then
    match rt.1.u? with
    | none => { acc with rs := acc.rs ++ [rt.1] }
    | some u =>
      match acc.memo.lookup rt.1 with
      | some r' => { acc with rs := acc.rs ++ [r'] }
      | none =>
        let (acc', r') := cslot ko V now ttl st pl ts acc rt u
        { acc' with memo := acc'.memo ++ [(rt.1, r')] }
  else { acc with rs := acc.rs ++ [rt.1] }

theorem hverifyCached_eq (ko : KeyOrder) (V : Bundle.Oracle) (now ttl : Int) (s : HSys) (i : Nat) :
    hverifyCached .copy ko V now ttl s i =
      let acc := ((s.get i).rs.zip (s.heap.view (s.get i).rs)).foldl
        (cstep ko V now ttl s.store (s.get i).permLoc (s.heap.view (s.get i).rs)) ⟨s.heap, [], [], []⟩
      { heap := acc.heap, bundles := s.bundles.set i { s.get i with rs := acc.rs }, store := acc.ins.foldl hadd s.store } := rfl

/-- the value-level entry a stored object denotes (`cell e` = the caveats in its `Caveats` cell) -/
def absE (cell : HEntry → CS) (e : HEntry) : Entry := ⟨e.key, cell e, e.expiry⟩

theorem hget_mem {st : List HEntry} {now : Int} {k : Str} {e : HEntry} (h : hget st now k = some e) : e ∈ st := by
  simp only [hget] at h
  cases hf : st.find? (fun e => decide (e.key = k)) with
  | none => simp [hf] at h
  | some e' =>
    simp only [hf] at h
    by_cases hlt : now < e'.expiry
    · simp only [hlt, if_true, Option.some.injEq] at h; subst h; exact List.mem_of_find?_eq_some hf
    · simp [hlt] at h

theorem hit_abs (cell : HEntry → CS) (st : List HEntry) (now : Int) (k : Str) :
    Store.hit (st.map (absE cell)) now k = (hget st now k).map cell := by
  simp only [Store.hit, Store.get, hget, List.find?_map]
  have : ((fun e : Entry => decide (e.key = k)) ∘ absE cell) = fun e : HEntry => decide (e.key = k) := rfl
  rw [this]
  cases st.find? (fun e : HEntry => decide (e.key = k)) with
  | none => rfl
  | some e =>
    simp only [Option.map_some, absE]
    by_cases hlt : now < e.expiry <;> simp [hlt]

/-- the fold of `hverifyCached .copy` -/
def cfold (ko : KeyOrder) (V : Bundle.Oracle) (now ttl : Int) (st : List HEntry) (pl : Bytes) (ts : List Tok)
    (l : List (Ref × Tok)) (acc : SlotAcc) : SlotAcc := l.foldl (cstep ko V now ttl st pl ts) acc

theorem cfold_cons (ko : KeyOrder) (V : Bundle.Oracle) (now ttl : Int) (st : List HEntry) (pl : Bytes) (ts : List Tok)
    (p : Ref × Tok) (l : List (Ref × Tok)) (acc : SlotAcc) :
    cfold ko V now ttl st pl ts (p :: l) acc = cfold ko V now ttl st pl ts l (cstep ko V now ttl st pl ts acc p) := rfl

/-- the queries a list of slots gives rise to -/
def qsOf (pl : Bytes) (ts : List Tok) (l : List (Ref × Tok)) : List (Tok × List Tok) :=
  (l.filter fun p => isPermAt pl p.2).map fun p => (p.2, dischargesOf pl ts p.2)

theorem cfold_spec (ko : KeyOrder) (V : Bundle.Oracle) (now ttl : Int) (st : List HEntry) (cell : HEntry → CS) (pl : Bytes)
    (ts : List Tok) : ∀ (l : List (Ref × Tok)) (ha : Heap) (ra : List Ref) (ia : List HEntry) (memo : List (Ref × Ref)),
    (∀ p ∈ l, RefIn ha p.1) → (∀ p ∈ l, ha.tok p.1 = p.2) → ((l.map (·.1)).filterMap Ref.u?).Nodup →
    ((l.map (·.1)).filterMap v?).Nodup →
    (∀ kr ∈ memo, ∃ u, kr.1.u? = some u ∧ ∀ p ∈ l, p.1.u? ≠ some u) →
    (∀ e ∈ st, e.v < ha.vs.length ∧ ha.v e.v = cell e) →
    ∃ vs' rsNew insNew,
      (cfold ko V now ttl st pl ts l ⟨ha, ra, ia, memo⟩).heap.us = ha.us ∧
      (cfold ko V now ttl st pl ts l ⟨ha, ra, ia, memo⟩).heap.vs = ha.vs ++ vs' ∧
      (cfold ko V now ttl st pl ts l ⟨ha, ra, ia, memo⟩).rs = ra ++ rsNew ∧
      (cfold ko V now ttl st pl ts l ⟨ha, ra, ia, memo⟩).ins = ia ++ insNew ∧
      rsNew.map Ref.u? = l.map (fun p => p.1.u?) ∧
      (∀ r ∈ rsNew, ∀ v, v? r = some v → v < ha.vs.length + vs'.length ∧
        (v < ha.vs.length → ∃ q ∈ l, v? q.1 = some v)) ∧
      (rsNew.filterMap v?).Nodup ∧
      (cfold ko V now ttl st pl ts l ⟨ha, ra, ia, memo⟩).heap.view rsNew =
        l.map (fun p => vd pl ts (cachedOracle ko V (st.map (absE cell)) now) p.2) ∧
      insNew.map (fun e => (⟨e.key, (cfold ko V now ttl st pl ts l ⟨ha, ra, ia, memo⟩).heap.v e.v, e.expiry⟩ : Entry)) =
        newEntries ko V (st.map (absE cell)) now ttl (qsOf pl ts l) ∧
      (∀ e ∈ insNew, ha.vs.length ≤ e.v ∧ e.v < ha.vs.length + vs'.length ∧ ∀ r ∈ rsNew, v? r ≠ some e.v)
  | [], ha, ra, ia, memo, _, _, _, _, _, _ =>
    ⟨[], [], [], rfl, by simp [cfold], by simp [cfold], by simp [cfold], rfl, by simp, by simp, rfl, rfl, by simp⟩
  | p :: l, ha, ra, ia, memo, hin, htok, hnd, hndv, hmemo, hst => by
    rw [cfold_cons]
    have hnd' : ((l.map (·.1)).filterMap Ref.u?).Nodup := nodup_tail_filterMap _ p.1 _ (by simpa using hnd)
    have hndv' : ((l.map (·.1)).filterMap v?).Nodup := nodup_tail_filterMap _ p.1 _ (by simpa using hndv)
    have hin' : ∀ q ∈ l, RefIn ha q.1 := fun q hq => hin q (List.mem_cons_of_mem _ hq)
    have htok' : ∀ q ∈ l, ha.tok q.1 = q.2 := fun q hq => htok q (List.mem_cons_of_mem _ hq)
    have hp2 := htok p (by simp)
    have hmemo' : ∀ kr ∈ memo, ∃ u, kr.1.u? = some u ∧ ∀ q ∈ l, q.1.u? ≠ some u := by
      intro kr hkr
      obtain ⟨u', hu', hno⟩ := hmemo kr hkr
      exact ⟨u', hu', fun q hq => hno q (List.mem_cons_of_mem _ hq)⟩
    by_cases hperm : isPermAt pl p.2 = true
    · obtain ⟨u, hu⟩ := u_of_perm (h := ha) (r := p.1) (by rw [hp2]; exact hperm)
      have hlook : memo.lookup p.1 = none := by
        apply lookup_none_of_forall
        intro kr hkr e
        obtain ⟨u', hu', hno⟩ := hmemo kr hkr
        rw [e, hu] at hu'
        exact hno p (by simp) (by rw [hu, hu'])
      have hfresh : ∀ q ∈ l, q.1.u? ≠ some u := by
        intro q hq
        exact not_mem_tail_filterMap Ref.u? p.1 (l.map (·.1)) u hu (by simpa using hnd) q.1 (List.mem_map_of_mem hq)
      have hmemo2 : ∀ r', ∀ kr ∈ memo ++ [(p.1, r')], ∃ u, kr.1.u? = some u ∧ ∀ q ∈ l, q.1.u? ≠ some u := by
        intro r' kr hkr
        rcases List.mem_append.mp hkr with h1 | h1
        · exact hmemo' kr h1
        · simp at h1; subst h1; exact ⟨u, hu, hfresh⟩
      have husz : u < ha.us.length := (hin p (by simp)).1 u hu
      have hslot : ∃ s m, (ha.u u).s = s ∧ (ha.u u).m = m ∧ p.2.str = s ∧ p.2.mac? = some m := by
        refine ⟨(ha.u u).s, (ha.u u).m, rfl, rfl, ?_, ?_⟩ <;> rw [← hp2] <;>
          (cases hp1 : p.1 <;> rw [hp1] at hu <;> simp [Ref.u?] at hu <;> subst hu <;> simp [Heap.tok, Tok.str, Tok.mac?])
      obtain ⟨s0, m0, hs0, hm0, hstr, hmac⟩ := hslot
      have hqs : qsOf pl ts (p :: l) = (p.2, dischargesOf pl ts p.2) :: qsOf pl ts l := by
        simp only [qsOf, List.filter_cons, hperm, if_true, List.map_cons]
      have hhit := hit_abs cell st now (keyOf ko p.2 (dischargesOf pl ts p.2))
      -- a slot that becomes `ver |vs| u`, with cells `c :: extra` allocated
      have hver : ∀ (c : CS) (extra : List CS) (insHd : List HEntry),
          cstep ko V now ttl st pl ts ⟨ha, ra, ia, memo⟩ p =
            ⟨{ ha with vs := ha.vs ++ (c :: extra) }, ra ++ [.ver ha.vs.length u], ia ++ insHd, memo ++ [(p.1, .ver ha.vs.length u)]⟩ →
          cachedOracle ko V (st.map (absE cell)) now p.2 (dischargesOf pl ts p.2) = some c →
          (∀ e ∈ insHd, e.v = ha.vs.length + 1 ∧ extra = [c]) →
          insHd.map (fun e => (⟨e.key, c, e.expiry⟩ : Entry)) ++ newEntries ko V (st.map (absE cell)) now ttl (qsOf pl ts l)
            = newEntries ko V (st.map (absE cell)) now ttl (qsOf pl ts (p :: l)) →
          ∃ vs' rsNew insNew,
      (cfold ko V now ttl st pl ts l (cstep ko V now ttl st pl ts ⟨ha, ra, ia, memo⟩ p)).heap.us = ha.us ∧
      (cfold ko V now ttl st pl ts l (cstep ko V now ttl st pl ts ⟨ha, ra, ia, memo⟩ p)).heap.vs = ha.vs ++ vs' ∧
      (cfold ko V now ttl st pl ts l (cstep ko V now ttl st pl ts ⟨ha, ra, ia, memo⟩ p)).rs = ra ++ rsNew ∧
      (cfold ko V now ttl st pl ts l (cstep ko V now ttl st pl ts ⟨ha, ra, ia, memo⟩ p)).ins = ia ++ insNew ∧
      rsNew.map Ref.u? = (p :: l).map (fun p => p.1.u?) ∧
      (∀ r ∈ rsNew, ∀ v, v? r = some v → v < ha.vs.length + vs'.length ∧
        (v < ha.vs.length → ∃ q ∈ p :: l, v? q.1 = some v)) ∧
      (rsNew.filterMap v?).Nodup ∧
      (cfold ko V now ttl st pl ts l (cstep ko V now ttl st pl ts ⟨ha, ra, ia, memo⟩ p)).heap.view rsNew =
        (p :: l).map (fun p => vd pl ts (cachedOracle ko V (st.map (absE cell)) now) p.2) ∧
      insNew.map (fun e => (⟨e.key, (cfold ko V now ttl st pl ts l (cstep ko V now ttl st pl ts ⟨ha, ra, ia, memo⟩ p)).heap.v e.v, e.expiry⟩ : Entry)) =
        newEntries ko V (st.map (absE cell)) now ttl (qsOf pl ts (p :: l)) ∧
      (∀ e ∈ insNew, ha.vs.length ≤ e.v ∧ e.v < ha.vs.length + vs'.length ∧ ∀ r ∈ rsNew, v? r ≠ some e.v) := by
        intro c extra insHd hstep hres hins hne
        rw [hstep]
        have hext1 : Ext ha { ha with vs := ha.vs ++ (c :: extra) } := ⟨[], c :: extra, by simp, rfl⟩
        obtain ⟨vs', rsNew, insNew, e1, e2, e3, e3', e4, e5, e6, e7, e8, e9⟩ := cfold_spec ko V now ttl st cell pl ts l
          { ha with vs := ha.vs ++ (c :: extra) } (ra ++ [.ver ha.vs.length u]) (ia ++ insHd) (memo ++ [(p.1, .ver ha.vs.length u)])
          (fun q hq => (hin' q hq).mono hext1) (fun q hq => by rw [tok_ext hext1 (hin' q hq)]; exact htok' q hq) hnd' hndv' (hmemo2 _)
          (fun e he => ⟨Nat.lt_of_lt_of_le (hst e he).1 hext1.vs_le, by rw [hext1.v_eq (hst e he).1]; exact (hst e he).2⟩)
        simp only [List.length_append, List.length_cons] at e5 e9
        have hext : Ext { ha with vs := ha.vs ++ (c :: extra) }
            (cfold ko V now ttl st pl ts l ⟨{ ha with vs := ha.vs ++ (c :: extra) }, ra ++ [.ver ha.vs.length u], ia ++ insHd, memo ++ [(p.1, .ver ha.vs.length u)]⟩).heap :=
          ⟨[], vs', by simp [e1], e2⟩
        have hv0 : ({ ha with vs := ha.vs ++ (c :: extra) } : Heap).v ha.vs.length = c := by
          simp [Heap.v, List.getD_eq_getElem?_getD]
        refine ⟨(c :: extra) ++ vs', .ver ha.vs.length u :: rsNew, insHd ++ insNew, e1, by rw [e2]; simp, by rw [e3]; simp,
          by rw [e3']; simp, by rw [List.map_cons, List.map_cons, e4, hu]; rfl, ?_, ?_, ?_, ?_, ?_⟩
        · intro r hr v hv
          rcases List.mem_cons.mp hr with rfl | hr
          · simp only [v?, Option.some.injEq] at hv
            subst hv
            exact ⟨by simp, fun hlt => absurd hlt (Nat.lt_irrefl _)⟩
          · obtain ⟨a, b⟩ := e5 r hr v hv
            refine ⟨by simp only [List.length_append, List.length_cons]; omega, fun hlt => ?_⟩
            obtain ⟨q, hq, hqv⟩ := b (by omega)
            exact ⟨q, List.mem_cons_of_mem _ hq, hqv⟩
        · simp only [List.filterMap_cons, v?]
          refine List.nodup_cons.mpr ⟨?_, e6⟩
          intro hm
          obtain ⟨r, hr, hv⟩ := List.mem_filterMap.mp hm
          obtain ⟨_, b⟩ := e5 r hr _ hv
          obtain ⟨q, hq, hqv⟩ := b (by omega)
          have := ((hin' q hq).2 _ hqv)
          omega
        · rw [view_cons, e7, List.map_cons]
          congr 1
          have hinu : RefIn { ha with vs := ha.vs ++ (c :: extra) } (.ver ha.vs.length u) :=
            ⟨fun u' hu' => by simp [Ref.u?] at hu'; subst hu'; exact husz,
             fun v hv => by simp [v?] at hv; subst hv; simp⟩
          rw [tok_ext hext hinu]
          have hu0 : ({ ha with vs := ha.vs ++ (c :: extra) } : Heap).u u = ha.u u := rfl
          simp only [vd, hperm, if_true, hres, Bundle.verdict, hmac, Heap.tok, hv0, hu0, hs0, hm0, hstr]
        · rw [List.map_append, e8, ← hne]
          congr 1
          apply List.map_congr_left
          intro e he
          obtain ⟨hev, hex⟩ := hins e he
          have hlt : e.v < ({ ha with vs := ha.vs ++ (c :: extra) } : Heap).vs.length := by
            simp only [hev, hex, List.length_append, List.length_cons, List.length_nil]; omega
          rw [hext.v_eq hlt]
          have : ({ ha with vs := ha.vs ++ (c :: extra) } : Heap).v e.v = c := by
            simp [Heap.v, hev, hex, List.getD_eq_getElem?_getD]
          rw [this]
        · intro e he
          rcases List.mem_append.mp he with he | he
          · obtain ⟨hev, hex⟩ := hins e he
            refine ⟨by omega, by simp [hev, hex], ?_⟩
            intro r hr hv
            rcases List.mem_cons.mp hr with rfl | hr
            · simp only [v?, Option.some.injEq] at hv; omega
            · obtain ⟨a, b⟩ := e5 r hr _ hv
              have hlt : e.v < ha.vs.length + (extra.length + 1) := by simp [hev, hex]
              obtain ⟨q, hq, hqv⟩ := b hlt
              have := ((hin' q hq).2 _ hqv)
              omega
          · obtain ⟨a, b, c'⟩ := e9 e he
            refine ⟨by omega, by simp only [List.length_append, List.length_cons]; omega, ?_⟩
            intro r hr hv
            rcases List.mem_cons.mp hr with rfl | hr
            · simp only [v?, Option.some.injEq] at hv; omega
            · exact c' r hr hv
      cases hg : hget st now (keyOf ko p.2 (dischargesOf pl ts p.2)) with
      | some e =>
        have hem := hget_mem hg
        rw [hg] at hhit
        apply hver (cell e) [] []
        · simp only [cstep, hperm, if_true, hu, hlook, cslot, hg, (hst e hem).2, List.append_nil]
        · simp only [cachedOracle, hhit, Option.map_some]
        · intro e he; simp at he
        · rw [hqs]; simp only [newEntries, List.filterMap_cons, hhit, Option.map_some, List.map_nil, List.nil_append]
      | none =>
        rw [hg] at hhit
        cases hV : V p.2 (sortToks ko (dischargesOf pl ts p.2)) with
        | some cs =>
          apply hver cs [cs] [HEntry.mk (keyOf ko p.2 (dischargesOf pl ts p.2)) (ha.vs.length + 1) u (now + ttl)]
          · simp only [cstep, hperm, if_true, hu, hlook, cslot, hg, hV]
          · simp only [cachedOracle, hhit, Option.map_none, hV]
          · intro e he; simp at he; subst he; exact ⟨rfl, rfl⟩
          · rw [hqs]; simp only [newEntries, List.filterMap_cons, hhit, Option.map_none, hV, List.map_cons, List.map_nil,
              List.cons_append, List.nil_append]
        | none =>
          have hres : cachedOracle ko V (st.map (absE cell)) now p.2 (dischargesOf pl ts p.2) = none := by
            simp only [cachedOracle, hhit, Option.map_none, hV]
          have hstep : cstep ko V now ttl st pl ts ⟨ha, ra, ia, memo⟩ p = ⟨ha, ra ++ [.fail u], ia, memo ++ [(p.1, .fail u)]⟩ := by
            simp only [cstep, hperm, if_true, hu, hlook, cslot, hg, hV]
          rw [hstep]
          obtain ⟨vs', rsNew, insNew, e1, e2, e3, e3', e4, e5, e6, e7, e8, e9⟩ := cfold_spec ko V now ttl st cell pl ts l ha
            (ra ++ [.fail u]) ia (memo ++ [(p.1, .fail u)]) hin' htok' hnd' hndv' (hmemo2 _) hst
          refine ⟨vs', .fail u :: rsNew, insNew, e1, e2, by rw [e3]; simp, e3', by rw [List.map_cons, List.map_cons, e4, hu]; rfl, ?_, ?_, ?_, ?_, ?_⟩
          · intro r hr v hv
            rcases List.mem_cons.mp hr with rfl | hr
            · simp [v?] at hv
            · obtain ⟨a, b⟩ := e5 r hr v hv
              exact ⟨a, fun hlt => by obtain ⟨q, hq, hqv⟩ := b hlt; exact ⟨q, List.mem_cons_of_mem _ hq, hqv⟩⟩
          · simpa [List.filterMap_cons, v?] using e6
          · rw [view_cons, e7, List.map_cons]
            congr 1
            have hext : Ext ha (cfold ko V now ttl st pl ts l ⟨ha, ra ++ [.fail u], ia, memo ++ [(p.1, .fail u)]⟩).heap := ⟨[], vs', by simp [e1], e2⟩
            have hinu : RefIn ha (.fail u) := ⟨fun u' hu' => by simp [Ref.u?] at hu'; subst hu'; exact husz, by simp [v?]⟩
            rw [tok_ext hext hinu]
            simp only [vd, hperm, if_true, hres, Bundle.verdict, hmac, Heap.tok, hs0, hm0, hstr]
          · rw [e8, hqs]; simp only [newEntries, List.filterMap_cons, hhit, Option.map_none, hV]
          · intro e he
            obtain ⟨a, b, c'⟩ := e9 e he
            refine ⟨a, b, ?_⟩
            intro r hr hv
            rcases List.mem_cons.mp hr with rfl | hr
            · simp [v?] at hv
            · exact c' r hr hv
    · have hstep : cstep ko V now ttl st pl ts ⟨ha, ra, ia, memo⟩ p = ⟨ha, ra ++ [p.1], ia, memo⟩ := by
        simp only [cstep, hperm]
        rfl
      rw [hstep]
      have hqs : qsOf pl ts (p :: l) = qsOf pl ts l := by
        simp only [qsOf, List.filter_cons, hperm]
        rfl
      obtain ⟨vs', rsNew, insNew, e1, e2, e3, e3', e4, e5, e6, e7, e8, e9⟩ := cfold_spec ko V now ttl st cell pl ts l ha
        (ra ++ [p.1]) ia memo hin' htok' hnd' hndv' hmemo' hst
      refine ⟨vs', p.1 :: rsNew, insNew, e1, e2, by rw [e3]; simp, e3', by simp only [List.map_cons, e4], ?_, ?_, ?_, ?_, ?_⟩
      · intro r hr v hv
        rcases List.mem_cons.mp hr with rfl | hr
        · have := (hin p (by simp)).2 v hv
          exact ⟨by omega, fun _ => ⟨p, by simp, hv⟩⟩
        · obtain ⟨a, b⟩ := e5 r hr v hv
          exact ⟨a, fun hlt => by obtain ⟨q, hq, hqv⟩ := b hlt; exact ⟨q, List.mem_cons_of_mem _ hq, hqv⟩⟩
      · simp only [List.filterMap_cons]
        cases hv : v? p.1 with
        | none => exact e6
        | some v =>
          simp only
          refine List.nodup_cons.mpr ⟨?_, e6⟩
          intro hm
          obtain ⟨r, hr, hrv⟩ := List.mem_filterMap.mp hm
          obtain ⟨_, b⟩ := e5 r hr v hrv
          have hlt := (hin p (by simp)).2 v hv
          obtain ⟨q, hq, hqv⟩ := b hlt
          exact not_mem_tail_filterMap v? p.1 (l.map (·.1)) v hv (by simpa using hndv) q.1 (List.mem_map_of_mem hq) hqv
      · rw [view_cons, e7, List.map_cons]
        congr 1
        have hext : Ext ha (cfold ko V now ttl st pl ts l ⟨ha, ra ++ [p.1], ia, memo⟩).heap := ⟨[], vs', by simp [e1], e2⟩
        rw [tok_ext hext (hin p (by simp)), hp2]
        simp [vd, hperm]
      · rw [e8, hqs]
      · intro e he
        obtain ⟨a, b, c'⟩ := e9 e he
        refine ⟨a, b, ?_⟩
        intro r hr hv
        rcases List.mem_cons.mp hr with rfl | hr
        · have := (hin p (by simp)).2 _ hv
          omega
        · exact c' r hr hv

/-! ### systems of bundles that share nothing -/

/-- the heap well-formedness invariant of a system: every bundle owns its objects, no two bundles
share an object, and the `Caveats` cells of the cache entries belong to no bundle -/
structure SOK (s : HSys) : Prop where
  bok : ∀ b ∈ s.bundles, BOK s.heap b
  apart : ∀ (i j : Nat) (bi bj : HBundle), i ≠ j → s.bundles[i]? = some bi → s.bundles[j]? = some bj →
    ∀ r ∈ bi.rs, ∀ r' ∈ bj.rs, Apart r r'
  cells : ∀ e ∈ s.store, e.v < s.heap.vs.length ∧ ∀ b ∈ s.bundles, ∀ r ∈ b.rs, v? r ≠ some e.v

/-- the value-level store an object-level store denotes -/
def absStore (h : Heap) (st : List HEntry) : Store := st.map (absE fun e => h.v e.v)

/-- the value-level system an object-level system denotes -/
def abs (s : HSys) : Sys := ⟨s.views, absStore s.heap s.store⟩

theorem get_cases (s : HSys) (i : Nat) :
    (i < s.bundles.length ∧ s.bundles[i]? = some (s.get i)) ∨ (s.bundles.length ≤ i ∧ s.get i = emptyHBundle) := by
  by_cases hi : i < s.bundles.length
  · exact Or.inl ⟨hi, by simp [HSys.get, List.getD_eq_getElem?_getD, List.getElem?_eq_getElem hi]⟩
  · exact Or.inr ⟨Nat.le_of_not_lt hi, by simp [HSys.get, List.getD_eq_getElem?_getD, List.getElem?_eq_none (Nat.le_of_not_lt hi)]⟩

theorem abs_get (s : HSys) (i : Nat) : (abs s).get i = (s.get i).view s.heap := by
  simp only [Sys.get, abs, HSys.views, HSys.get, List.getD_eq_getElem?_getD, List.getElem?_map]
  cases s.bundles[i]? <;> rfl

theorem SOK.update {s : HSys} (ok : SOK s) (i : Nat) {h' : Heap} {b' : HBundle} (up : Upd s.heap (s.get i) h' b')
    (st' : List HEntry)
    (hst : ∀ e ∈ st', e ∈ s.store ∨ (s.heap.vs.length ≤ e.v ∧ e.v < h'.vs.length ∧ ∀ r ∈ b'.rs, v? r ≠ some e.v)) :
    (HSys.mk h' (s.bundles.set i b') st').views = s.views.set i (b'.view h') ∧
    (∀ e ∈ s.store, h'.v e.v = s.heap.v e.v) ∧ SOK ⟨h', s.bundles.set i b', st'⟩ := by
  -- the other bundles are apart from bundle `i`
  have hother : ∀ j bj, i ≠ j → s.bundles[j]? = some bj → ∀ r ∈ bj.rs, ∀ r0 ∈ (s.get i).rs, Apart r0 r := by
    intro j bj hij hj r hr r0 hr0
    rcases get_cases s i with ⟨_, hi⟩ | ⟨_, hi⟩
    · exact ok.apart i j _ bj hij hi hj r0 hr0 r hr
    · rw [hi] at hr0; simp [emptyHBundle] at hr0
  have hcell : ∀ e ∈ s.store, ∀ r0 ∈ (s.get i).rs, v? r0 ≠ some e.v := by
    intro e he r0 hr0
    rcases get_cases s i with ⟨_, hi⟩ | ⟨_, hi⟩
    · exact (ok.cells e he).2 _ (List.mem_of_getElem? hi) r0 hr0
    · rw [hi] at hr0; simp [emptyHBundle] at hr0
  have hmono : ∀ b ∈ s.bundles, BOK h' b := fun b hb =>
    ⟨fun r hr => ⟨fun u hu => Nat.lt_of_lt_of_le (((ok.bok b hb).inr r hr).1 u hu) up.us_le,
                  fun v hv => Nat.lt_of_lt_of_le (((ok.bok b hb).inr r hr).2 v hv) up.vs_le⟩, (ok.bok b hb).nu, (ok.bok b hb).nv⟩
  refine ⟨?_, fun e he => up.framev e.v (ok.cells e he).1 (hcell e he), ⟨?_, ?_, ?_⟩⟩
  · simp only [HSys.views]
    apply List.ext_getElem?
    intro j
    simp only [List.getElem?_map, List.getElem?_set, List.length_map]
    by_cases hij : i = j
    · subst hij
      by_cases hi : i < s.bundles.length <;> simp [hi]
    · simp only [hij, if_false]
      cases hj : s.bundles[j]? with
      | none => rfl
      | some bj =>
        simp only [Option.map_some, Option.some.injEq, HBundle.view, Heap.view]
        congr 1
        apply List.map_congr_left
        intro r hr
        exact up.frame r ((ok.bok bj (List.mem_of_getElem? hj)).inr r hr) (fun r0 hr0 => hother j bj hij hj r hr r0 hr0)
  · intro b hb
    rcases List.mem_or_eq_of_mem_set hb with hb | rfl
    · exact hmono b hb
    · exact up.ok
  · -- pairwise apart
    have key : ∀ j bj, i ≠ j → s.bundles[j]? = some bj → ∀ r ∈ b'.rs, ∀ r' ∈ bj.rs, Apart r r' := by
      intro j bj hij hj r hr r' hr'
      have hin' := (ok.bok bj (List.mem_of_getElem? hj)).inr r' hr'
      constructor
      · intro u hu hu'
        rcases up.fromu r hr u hu with ⟨r0, hr0, h0⟩ | hge
        · exact (hother j bj hij hj r' hr' r0 hr0).1 u h0 hu'
        · have := hin'.1 u hu'; omega
      · intro v hv hv'
        rcases up.fromv r hr v hv with ⟨r0, hr0, h0⟩ | hge
        · exact (hother j bj hij hj r' hr' r0 hr0).2 v h0 hv'
        · have := hin'.2 v hv'; omega
    intro a c ba bc hac ha hc r hr r' hr'
    simp only [List.getElem?_set] at ha hc
    by_cases hia : i = a
    · subst hia
      have hic : i ≠ c := hac
      simp only [if_true] at ha
      simp only [hic, if_false] at hc
      by_cases hi : i < s.bundles.length
      · simp only [hi, if_true, Option.some.injEq] at ha; subst ha
        exact key c bc hic hc r hr r' hr'
      · simp [hi] at ha
    · simp only [hia, if_false] at ha
      by_cases hic : i = c
      · subst hic
        simp only [if_true] at hc
        by_cases hi : i < s.bundles.length
        · simp only [hi, if_true, Option.some.injEq] at hc; subst hc
          exact (key a ba hia ha r' hr' r hr).symm
        · simp [hi] at hc
      · simp only [hic, if_false] at hc
        exact ok.apart a c ba bc hac ha hc r hr r' hr'
  · intro e he
    rcases hst e he with hold | ⟨hge, hlt, hnew⟩
    · refine ⟨Nat.lt_of_lt_of_le (ok.cells e hold).1 up.vs_le, ?_⟩
      intro b hb r hr hv
      rcases List.mem_or_eq_of_mem_set hb with hb | rfl
      · exact (ok.cells e hold).2 b hb r hr hv
      · rcases up.fromv r hr _ hv with ⟨r0, hr0, h0⟩ | hge
        · exact hcell e hold r0 hr0 h0
        · have := (ok.cells e hold).1; omega
    · refine ⟨hlt, ?_⟩
      intro b hb r hr hv
      rcases List.mem_or_eq_of_mem_set hb with hb | rfl
      · have := ((ok.bok b hb).inr r hr).2 _ hv; omega
      · exact hnew r hr hv

theorem bok_empty (h : Heap) : BOK h emptyHBundle := ⟨by simp [emptyHBundle], by simp [emptyHBundle], by simp [emptyHBundle]⟩

theorem SOK.bok_get {s : HSys} (ok : SOK s) (i : Nat) : BOK s.heap (s.get i) := by
  rcases get_cases s i with ⟨_, hi⟩ | ⟨_, hi⟩
  · exact ok.bok _ (List.mem_of_getElem? hi)
  · rw [hi]; exact bok_empty _

theorem set_get (s : HSys) (i : Nat) : s.bundles.set i (s.get i) = s.bundles := by
  apply List.ext_getElem?
  intro j
  simp only [List.getElem?_set]
  by_cases hij : i = j
  · subst hij
    rcases get_cases s i with ⟨hi, hg⟩ | ⟨hi, _⟩
    · simp only [hi, if_true]; exact hg.symm
    · simp [Nat.not_lt.mpr hi]
  · simp [hij]

/-- an operation with footprint `Upd` on bundle `i` that leaves the store alone: the denoted system
changes at bundle `i` only, and the invariant is kept -/
theorem SOK.update_abs {s : HSys} (ok : SOK s) (i : Nat) {h' : Heap} {b' : HBundle} (up : Upd s.heap (s.get i) h' b') :
    abs ⟨h', s.bundles.set i b', s.store⟩ = (abs s).set i (b'.view h') ∧ SOK ⟨h', s.bundles.set i b', s.store⟩ := by
  obtain ⟨a1, a2, a3⟩ := ok.update i up s.store (fun e he => Or.inl he)
  refine ⟨?_, a3⟩
  simp only [abs, Sys.set, a1]
  congr 1
  simp only [absStore]
  apply List.map_congr_left
  intro e he
  simp only [absE, a2 e he]

theorem sys_set_get (s : Sys) (i : Nat) (B : Bundle) (h : s.bundles.length ≤ i → B = emptyBundle) : (s.set i B).get i = B := by
  simp only [Sys.set, Sys.get, List.getD_eq_getElem?_getD, List.getElem?_set]
  by_cases hi : i < s.bundles.length
  · simp [hi]
  · simp [hi, h (Nat.le_of_not_lt hi)]

theorem abs_get_empty {s : HSys} {i : Nat} (hi : (abs s).bundles.length ≤ i) : (abs s).get i = emptyBundle := by
  simp [Sys.get, List.getD_eq_getElem?_getD, List.getElem?_eq_none hi]

/-! #### the store -/

theorem absStore_hadd (cell : HEntry → CS) (st : List HEntry) (e : HEntry) :
    (hadd st e).map (absE cell) = Store.add (st.map (absE cell)) (absE cell e) := by
  simp only [hadd, Store.add, List.map_append, List.map_cons, List.map_nil, List.filter_map]
  rfl

theorem absStore_foldl (cell : HEntry → CS) : ∀ (ins st : List HEntry),
    (ins.foldl hadd st).map (absE cell) = (ins.map (absE cell)).foldl Store.add (st.map (absE cell))
  | [], _ => rfl
  | e :: ins, st => by
    simp only [List.foldl_cons, List.map_cons]
    rw [absStore_foldl cell ins (hadd st e), absStore_hadd]

theorem mem_hadd {st : List HEntry} {e x : HEntry} (h : x ∈ hadd st e) : x ∈ st ∨ x = e := by
  simp only [hadd, List.mem_append, List.mem_filter, List.mem_singleton] at h
  rcases h with h | h
  · exact Or.inl h.1
  · exact Or.inr h

theorem mem_foldl_hadd : ∀ (ins st : List HEntry) (x : HEntry), x ∈ ins.foldl hadd st → x ∈ st ∨ x ∈ ins
  | [], _, _, h => Or.inl h
  | e :: ins, st, x, h => by
    simp only [List.foldl_cons] at h
    rcases mem_foldl_hadd ins (hadd st e) x h with h | h
    · rcases mem_hadd h with h | h
      · exact Or.inl h
      · exact Or.inr (by simp [h])
    · exact Or.inr (List.mem_cons_of_mem _ h)

theorem qsOf_zip (pl : Bytes) (ts : List Tok) (f : Ref → Tok) : ∀ (rs : List Ref),
    qsOf pl ts (rs.zip (rs.map f)) = ((rs.map f).filter (isPermAt pl)).map (fun p => (p, dischargesOf pl ts p))
  | [] => rfl
  | r :: rs => by
    have ih := qsOf_zip pl ts f rs
    simp only [qsOf] at ih ⊢
    simp only [List.map_cons, List.zip_cons_cons, List.filter_cons]
    by_cases hp : isPermAt pl (f r) = true
    · simp only [hp, if_true, List.map_cons, ih]
    · have hp' : isPermAt pl (f r) = false := by simpa using hp
      simp only [hp', Bool.false_eq_true, if_false, ih]

/-! ### one step -/

theorem verdict_empty (o : Bundle.Oracle) : emptyBundle.verifyBy o = emptyBundle := rfl

theorem hstep_verify_direct (P : Params) (now : Int) (s : HSys) (i : Nat) (ok : SOK s) :
    abs (hstep .copy P now s (.verify i .direct)).1 = (step P now (abs s) (.verify i .direct)).1 ∧
    (hstep .copy P now s (.verify i .direct)).2 = (step P now (abs s) (.verify i .direct)).2 ∧
    SOK (hstep .copy P now s (.verify i .direct)).1 := by
  obtain ⟨a1, _, a3⟩ := verifyBy_refines s.heap (s.get i) P.V (ok.bok_get i)
  obtain ⟨b1, b2⟩ := ok.update_abs i a3
  have e1 : hstep .copy P now s (.verify i .direct) =
      (⟨(HBundle.verifyBy s.heap (s.get i) P.V).1, s.bundles.set i (HBundle.verifyBy s.heap (s.get i) P.V).2, s.store⟩,
       .sets ((HBundle.verifyBy s.heap (s.get i) P.V).2.view (HBundle.verifyBy s.heap (s.get i) P.V).1).verifiedSets) := rfl
  have e2 : step P now (abs s) (.verify i .direct) =
      ((abs s).set i (((abs s).get i).verifyBy P.V), .sets (((abs s).get i).verifyBy P.V).verifiedSets) := rfl
  rw [e1, e2, abs_get]
  exact ⟨by rw [b1, a1], by rw [a1], b2⟩

theorem hstep_attenuate (P : Params) (now : Int) (s : HSys) (i : Nat) (items : List (AddItem Bytes)) (ok : SOK s) :
    abs (hstep .copy P now s (.attenuate i items)).1 = (step P now (abs s) (.attenuate i items)).1 ∧
    (hstep .copy P now s (.attenuate i items)).2 = (step P now (abs s) (.attenuate i items)).2 ∧
    SOK (hstep .copy P now s (.attenuate i items)).1 := by
  obtain ⟨a1, a3⟩ := attenuate_refines s.heap (s.get i) items (ok.bok_get i)
  obtain ⟨b1, b2⟩ := ok.update_abs i a3
  rw [set_get] at b1 b2
  have e1 : hstep .copy P now s (.attenuate i items) =
      (⟨(HBundle.attenuate s.heap (s.get i) items).1, s.bundles, s.store⟩, .flag (HBundle.attenuate s.heap (s.get i) items).2) := rfl
  have e2 : step P now (abs s) (.attenuate i items) =
      ((abs s).set i (((abs s).get i).attenuate items).1, .flag (((abs s).get i).attenuate items).2) := rfl
  rw [e1, e2, abs_get, ← a1]
  exact ⟨b1, rfl, b2⟩

theorem hstep_discharge (P : Params) (now : Int) (s : HSys) (i : Nat) (loc ka : Bytes) (cb : Bundle.Discharger)
    (rnds : List Bytes) (ok : SOK s) :
    abs (hstep .copy P now s (.discharge i loc ka cb rnds)).1 = (step P now (abs s) (.discharge i loc ka cb rnds)).1 ∧
    (hstep .copy P now s (.discharge i loc ka cb rnds)).2 = (step P now (abs s) (.discharge i loc ka cb rnds)).2 ∧
    SOK (hstep .copy P now s (.discharge i loc ka cb rnds)).1 := by
  obtain ⟨a1, _, a3⟩ := dischargeWith_refines P.scope s.heap (s.get i) loc ka cb rnds (ok.bok_get i)
  obtain ⟨b1, b2⟩ := ok.update_abs i a3
  have e1 : hstep .copy P now s (.discharge i loc ka cb rnds) =
      (⟨(HBundle.dischargeWith P.scope s.heap (s.get i) loc ka cb rnds).1,
        s.bundles.set i (HBundle.dischargeWith P.scope s.heap (s.get i) loc ka cb rnds).2.1, s.store⟩,
       .flag (HBundle.dischargeWith P.scope s.heap (s.get i) loc ka cb rnds).2.2) := rfl
  have e2 : step P now (abs s) (.discharge i loc ka cb rnds) =
      ((abs s).set i (Bundle.dischargeWith P.scope ((abs s).get i) loc ka cb rnds).1,
       .flag (Bundle.dischargeWith P.scope ((abs s).get i) loc ka cb rnds).2) := rfl
  rw [e1, e2, abs_get, ← a1]
  exact ⟨b1, rfl, b2⟩

theorem hstep_filter (P : Params) (now : Int) (s : HSys) (i : Nat) (f : Filter) (ok : SOK s) :
    abs (hstep .copy P now s (.filter i f)).1 = (step P now (abs s) (.filter i f)).1 ∧
    (hstep .copy P now s (.filter i f)).2 = (step P now (abs s) (.filter i f)).2 ∧
    SOK (hstep .copy P now s (.filter i f)).1 := by
  obtain ⟨a1, a3⟩ := filter_refines s.heap (s.get i) f (ok.bok_get i)
  obtain ⟨b1, b2⟩ := ok.update_abs i a3
  have e1 : hstep .copy P now s (.filter i f) = (⟨s.heap, s.bundles.set i (HBundle.filter s.heap (s.get i) f), s.store⟩, .none) := rfl
  have e2 : step P now (abs s) (.filter i f) = ((abs s).set i (((abs s).get i).filter f), .none) := rfl
  rw [e1, e2, abs_get, ← a1]
  exact ⟨b1, rfl, b2⟩

theorem hstep_evict (P : Params) (now : Int) (s : HSys) (k : Str) (ok : SOK s) :
    abs (hstep .copy P now s (.evict k)).1 = (step P now (abs s) (.evict k)).1 ∧
    (hstep .copy P now s (.evict k)).2 = (step P now (abs s) (.evict k)).2 ∧
    SOK (hstep .copy P now s (.evict k)).1 := by
  have e1 : hstep .copy P now s (.evict k) = (⟨s.heap, s.bundles, s.store.filter fun x => !decide (x.key = k)⟩, .none) := rfl
  have e2 : step P now (abs s) (.evict k) = ({ abs s with store := (abs s).store.evict k }, .none) := rfl
  rw [e1, e2]
  refine ⟨?_, rfl, ⟨ok.bok, ok.apart, fun e he => ok.cells e (List.mem_filter.mp he).1⟩⟩
  simp only [abs, absStore, Store.evict, HSys.views, List.filter_map]
  rfl

theorem hstep_verify_cached (P : Params) (now : Int) (s : HSys) (i : Nat) (ok : SOK s) :
    abs (hstep .copy P now s (.verify i .cached)).1 = (step P now (abs s) (.verify i .cached)).1 ∧
    (hstep .copy P now s (.verify i .cached)).2 = (step P now (abs s) (.verify i .cached)).2 ∧
    SOK (hstep .copy P now s (.verify i .cached)).1 := by
  have bok := ok.bok_get i
  obtain ⟨vs', rsNew, insNew, e1, e2, e3, e3', e4, e5, e6, e7, e8, e9⟩ :=
    cfold_spec P.order P.V now P.ttl s.store (fun e => s.heap.v e.v) (s.get i).permLoc (s.heap.view (s.get i).rs)
      ((s.get i).rs.zip (s.heap.view (s.get i).rs)) s.heap [] [] []
      (fun p hp => bok.inr _ (mem_zip_map s.heap.tok (s.get i).rs p hp).1)
      (fun p hp => (mem_zip_map s.heap.tok (s.get i).rs p hp).2.symm)
      (by rw [show s.heap.view (s.get i).rs = (s.get i).rs.map s.heap.tok from rfl, zip_map_fst]; exact bok.nu)
      (by rw [show s.heap.view (s.get i).rs = (s.get i).rs.map s.heap.tok from rfl, zip_map_fst]; exact bok.nv)
      (by intro kr hkr; simp at hkr)
      (fun e he => ⟨(ok.cells e he).1, rfl⟩)
  -- name the accumulator
  generalize hacc : cfold P.order P.V now P.ttl s.store (s.get i).permLoc (s.heap.view (s.get i).rs)
      ((s.get i).rs.zip (s.heap.view (s.get i).rs)) ⟨s.heap, [], [], []⟩ = acc at e1 e2 e3 e3' e7 e8
  simp only [List.nil_append] at e3 e3'
  have he1 : hstep .copy P now s (.verify i .cached) =
      (⟨acc.heap, s.bundles.set i { s.get i with rs := acc.rs }, acc.ins.foldl hadd s.store⟩,
       .sets (((HSys.mk acc.heap (s.bundles.set i { s.get i with rs := acc.rs }) (acc.ins.foldl hadd s.store)).get i).view acc.heap).verifiedSets) := by
    rw [← hacc]; rfl
  have he2 : step P now (abs s) (.verify i .cached) =
      ({ (abs s).set i (((abs s).get i).verifyBy (cachedOracle P.order P.V (abs s).store now)) with
          store := (newEntries P.order P.V (abs s).store now P.ttl (queries ((abs s).get i))).foldl Store.add (abs s).store },
       .sets (((abs s).get i).verifyBy (cachedOracle P.order P.V (abs s).store now)).verifiedSets) := rfl
  have hext : Ext s.heap acc.heap := ⟨[], vs', by simp [e1], e2⟩
  have e4' : rsNew.map Ref.u? = (s.get i).rs.map Ref.u? := by
    rw [e4]; exact zip_map_fst' s.heap.tok Ref.u? (s.get i).rs
  have hlen : acc.heap.vs.length = s.heap.vs.length + vs'.length := by rw [e2]; simp
  have hfromu : ∀ r' ∈ rsNew, ∀ u, r'.u? = some u → ∃ r0 ∈ (s.get i).rs, r0.u? = some u := by
    intro r' hr' u hu
    have : some u ∈ rsNew.map Ref.u? := hu ▸ List.mem_map_of_mem hr'
    rw [e4'] at this
    obtain ⟨r0, h0, h1⟩ := List.mem_map.mp this
    exact ⟨r0, h0, h1⟩
  have up : Upd s.heap (s.get i) acc.heap { s.get i with rs := acc.rs } := by
    refine Upd.of_ext hext ⟨?_, ?_, ?_⟩ ?_ ?_
    · intro r hr
      simp only [e3] at hr
      refine ⟨fun u hu => ?_, fun v hv => ?_⟩
      · obtain ⟨r0, h0, h1⟩ := hfromu r hr u hu
        rw [e1]; exact (bok.inr r0 h0).1 u h1
      · rw [hlen]; exact (e5 r hr v hv).1
    · simp only [e3]
      rw [filterMap_eq_of_map_eq Ref.u? Ref.u? rsNew (s.get i).rs e4']; exact bok.nu
    · simp only [e3]; exact e6
    · intro r' hr' u hu
      simp only [e3] at hr'
      exact Or.inl (hfromu r' hr' u hu)
    · intro r' hr' v hv
      simp only [e3] at hr'
      obtain ⟨_, b2⟩ := e5 r' hr' v hv
      by_cases hlt : v < s.heap.vs.length
      · obtain ⟨q, hq, hqv⟩ := b2 hlt
        exact Or.inl ⟨q.1, (mem_zip_map s.heap.tok (s.get i).rs q hq).1, hqv⟩
      · exact Or.inr (by omega)
  obtain ⟨u1, u2, u3⟩ := ok.update i up (acc.ins.foldl hadd s.store) (by
    intro e he
    rcases mem_foldl_hadd _ _ _ he with he | he
    · exact Or.inl he
    · rw [e3'] at he
      obtain ⟨a, b, c⟩ := e9 e he
      exact Or.inr ⟨a, by rw [hlen]; exact b, by simp only [e3]; exact c⟩)
  -- the new bundle, seen as a value
  have hB : HBundle.view acc.heap { s.get i with rs := acc.rs } =
      ((abs s).get i).verifyBy (cachedOracle P.order P.V (abs s).store now) := by
    rw [abs_get]
    simp only [HBundle.view, Bundle.verifyBy, e3, e7, verifyTs_eq_map]
    congr 1
    rw [show s.heap.view (s.get i).rs = (s.get i).rs.map s.heap.tok from rfl, List.map_map]
    exact zip_map_snd s.heap.tok _ (s.get i).rs
  -- the new store, seen as a value
  have hC : absStore acc.heap (acc.ins.foldl hadd s.store) =
      (newEntries P.order P.V (abs s).store now P.ttl (queries ((abs s).get i))).foldl Store.add (abs s).store := by
    simp only [absStore]
    rw [absStore_foldl, e3']
    have hold : s.store.map (absE fun e => acc.heap.v e.v) = (abs s).store := by
      simp only [abs, absStore]
      apply List.map_congr_left
      intro e he
      simp only [absE, u2 e he]
    rw [hold]
    congr 1
    rw [show insNew.map (absE fun e => acc.heap.v e.v) = insNew.map (fun e => (⟨e.key, acc.heap.v e.v, e.expiry⟩ : Entry)) from rfl, e8,
      show s.heap.view (s.get i).rs = (s.get i).rs.map s.heap.tok from rfl, qsOf_zip, abs_get]
    rfl
  have habs : abs ⟨acc.heap, s.bundles.set i { s.get i with rs := acc.rs }, acc.ins.foldl hadd s.store⟩ =
      { (abs s).set i (((abs s).get i).verifyBy (cachedOracle P.order P.V (abs s).store now)) with
          store := (newEntries P.order P.V (abs s).store now P.ttl (queries ((abs s).get i))).foldl Store.add (abs s).store } := by
    simp only [abs, u1, hC, hB, Sys.set]
  rw [he1, he2]
  refine ⟨habs, ?_, u3⟩
  have : ((HSys.mk acc.heap (s.bundles.set i { s.get i with rs := acc.rs }) (acc.ins.foldl hadd s.store)).get i).view acc.heap =
      ((abs s).get i).verifyBy (cachedOracle P.order P.V (abs s).store now) := by
    rw [← abs_get ⟨acc.heap, s.bundles.set i { s.get i with rs := acc.rs }, acc.ins.foldl hadd s.store⟩, habs]
    exact sys_set_get (abs s) i _ (fun hi => by rw [abs_get_empty hi]; rfl)
  simp only [this]

/-- **one step of the object-level system (`.copy`) is one step of the value-level system**, on every
state that satisfies the heap invariant `SOK`; the invariant is kept. -/
theorem hstep_refines (P : Params) (now : Int) (s : HSys) (op : Op) (ok : SOK s) :
    abs (hstep .copy P now s op).1 = (step P now (abs s) op).1 ∧
    (hstep .copy P now s op).2 = (step P now (abs s) op).2 ∧ SOK (hstep .copy P now s op).1 := by
  cases op with
  | verify i mode =>
    cases mode with
    | cached => exact hstep_verify_cached P now s i ok
    | direct => exact hstep_verify_direct P now s i ok
  | validate i rs =>
    refine ⟨rfl, ?_, ok⟩
    show Out.flag (!((s.get i).view s.heap).validate rs) = Out.flag (!((abs s).get i).validate rs)
    rw [abs_get]
  | attenuate i items => exact hstep_attenuate P now s i items ok
  | discharge i loc ka cb rnds => exact hstep_discharge P now s i loc ka cb rnds ok
  | filter i f => exact hstep_filter P now s i f ok
  | header i =>
    refine ⟨rfl, ?_, ok⟩
    show Out.text ((s.get i).view s.heap).header = Out.text ((abs s).get i).header
    rw [abs_get]
  | tick => exact ⟨rfl, rfl, ok⟩
  | evict k => exact hstep_evict P now s k ok

/-- **histories**: from a state that satisfies the heap invariant, the object-level run with the
repaired (copying) cache IS the value-level run of the state it denotes — same outputs, same bundle
states after every step. -/
theorem hrun_refines (P : Params) : ∀ (hist : List (Int × Op)) (s : HSys), SOK s →
    hrun .copy P hist s = run P hist (abs s)
  | [], _, _ => rfl
  | (now, op) :: rest, s, ok => by
    obtain ⟨a1, a2, a3⟩ := hstep_refines P now s op ok
    simp only [hrun, run]
    rw [hrun_refines P rest _ a3, a1, a2]
    congr 2
    rw [← a1]; rfl

/-! ### the initial state -/

theorem SOK.push {s : HSys} (ok : SOK s) (hst : s.store = []) {h : Heap} {b : HBundle} (e : Ext s.heap h) (bok : BOK h b)
    (fr : ∀ r ∈ b.rs, Fresh s.heap r) :
    SOK ⟨h, s.bundles ++ [b], []⟩ ∧ (HSys.mk h (s.bundles ++ [b]) []).views = s.views ++ [b.view h] := by
  have hap : ∀ b0 ∈ s.bundles, ∀ r0 ∈ b0.rs, ∀ r ∈ b.rs, Apart r0 r := by
    intro b0 hb0 r0 hr0 r hr
    have hin := (ok.bok b0 hb0).inr r0 hr0
    constructor
    · intro u hu hu'
      have := hin.1 u hu; have := (fr r hr).1 u hu'; omega
    · intro v hv hv'
      have := hin.2 v hv; have := (fr r hr).2 v hv'; omega
  have hlast : ∀ (k : Nat) (x : HBundle), s.bundles.length ≤ k → (s.bundles ++ [b])[k]? = some x → k = s.bundles.length ∧ x = b := by
    intro k x hk hx
    rw [List.getElem?_append_right hk] at hx
    cases hd : k - s.bundles.length with
    | zero => rw [hd] at hx; simp at hx; exact ⟨by omega, hx.symm⟩
    | succ n => rw [hd] at hx; simp at hx
  refine ⟨⟨?_, ?_, ?_⟩, ?_⟩
  · intro b0 hb0
    rcases List.mem_append.mp hb0 with hb0 | hb0
    · exact (ok.bok b0 hb0).mono e
    · simp at hb0; subst hb0; exact bok
  · intro i j bi bj hij hi hj r hr r' hr'
    by_cases hil : i < s.bundles.length
    · rw [List.getElem?_append_left hil] at hi
      by_cases hjl : j < s.bundles.length
      · rw [List.getElem?_append_left hjl] at hj
        exact ok.apart i j bi bj hij hi hj r hr r' hr'
      · obtain ⟨_, rfl⟩ := hlast j bj (Nat.le_of_not_lt hjl) hj
        exact hap bi (List.mem_of_getElem? hi) r hr r' hr'
    · obtain ⟨hi', rfl⟩ := hlast i bi (Nat.le_of_not_lt hil) hi
      by_cases hjl : j < s.bundles.length
      · rw [List.getElem?_append_left hjl] at hj
        exact (hap bj (List.mem_of_getElem? hj) r' hr' r hr).symm
      · obtain ⟨hj', _⟩ := hlast j bj (Nat.le_of_not_lt hjl) hj
        omega
  · intro e' he'; simp at he'
  · simp only [HSys.views, List.map_append, List.map_cons, List.map_nil]
    congr 1
    apply List.map_congr_left
    intro b0 hb0
    simp only [HBundle.view]
    congr 1
    exact view_ext e (ok.bok b0 hb0).inr

/-- the loop body of `hinit` -/
def hinitStep (pl : Bytes) (s : HSys) (hdr : Str) : HSys :=
  let (h, b, _) := HBundle.parseWith s.heap pl hdr .default
  { s with heap := h, bundles := s.bundles ++ [b] }

theorem hinit_eq (pl : Bytes) (hdrs : List Str) : hinit pl hdrs = hdrs.foldl (hinitStep pl) ⟨Heap.empty, [], []⟩ := rfl

theorem hinitStep_eq (pl : Bytes) (s : HSys) (hdr : Str) (hst : s.store = []) :
    hinitStep pl s hdr =
      ⟨(HBundle.parseWith s.heap pl hdr .default).1, s.bundles ++ [(HBundle.parseWith s.heap pl hdr .default).2.1], []⟩ := by
  rw [← hst]; rfl

theorem hinit_fold (pl : Bytes) : ∀ (hdrs : List Str) (s : HSys), SOK s → s.store = [] →
    SOK (hdrs.foldl (hinitStep pl) s) ∧
    abs (hdrs.foldl (hinitStep pl) s) = ⟨s.views ++ hdrs.map (fun hdr => (Bundle.parse pl hdr).1), []⟩
  | [], s, ok, hst => ⟨ok, by simp [abs, absStore, hst]⟩
  | hdr :: hdrs, s, ok, hst => by
    obtain ⟨a1, a2, a3, a4⟩ := parseWith_refines s.heap pl hdr .default
    obtain ⟨b1, b2⟩ := ok.push hst a2 a3 a4
    rw [List.foldl_cons, hinitStep_eq pl s hdr hst]
    obtain ⟨c1, c2⟩ := hinit_fold pl hdrs _ b1 rfl
    refine ⟨c1, ?_⟩
    rw [c2, b2]
    have : (HBundle.parseWith s.heap pl hdr .default).2.1.view (HBundle.parseWith s.heap pl hdr .default).1 = (Bundle.parse pl hdr).1 :=
      congrArg Prod.fst a1
    simp only [this, List.map_cons, List.append_assoc, List.cons_append, List.nil_append]

theorem sok_empty : SOK ⟨Heap.empty, [], []⟩ :=
  ⟨by simp, by intro i j bi bj _ hi; simp at hi, by simp⟩

/-- what parsing the headers gives satisfies the heap invariant … -/
theorem hinit_sok (pl : Bytes) (hdrs : List Str) : SOK (hinit pl hdrs) := by
  rw [hinit_eq]; exact (hinit_fold pl hdrs _ sok_empty rfl).1

/-- … and denotes the value-level initial state -/
theorem hinit_abs (pl : Bytes) (hdrs : List Str) : abs (hinit pl hdrs) = init pl hdrs := by
  rw [hinit_eq, (hinit_fold pl hdrs _ sok_empty rfl).2]
  simp [init, HSys.views]

/-- **hrun_copy_refines.**  Any history, any headers: running the object-level model (Go's pointer
structure: `*UnverifiedMacaroon`s, `Caveats` cells, the cache's entries) with the repaired, copying
cache gives exactly the trace of the value-level model on which C13/C14 are proved. -/
theorem hrun_copy_refines (P : Params) (hist : List (Int × Op)) (pl : Bytes) (hdrs : List Str) :
    hrun .copy P hist (hinit pl hdrs) = run P hist (init pl hdrs) := by
  rw [hrun_refines P hist _ (hinit_sok pl hdrs), hinit_abs]

/-! ### isolation, on objects -/

/-- **bundles_isolated at object level**: in a system that satisfies the heap invariant, an operation
that names bundle `i` leaves every other bundle `j` as it was — the same slice of the same pointers,
and every object they point to unchanged (so: the same view). -/
theorem hstep_isolated (P : Params) (now : Int) (s : HSys) (op : Op) (j : Nat) (ok : SOK s) (h : opTarget op ≠ some j) :
    ((hstep .copy P now s op).1.get j).view (hstep .copy P now s op).1.heap = (s.get j).view s.heap := by
  rw [← abs_get, (hstep_refines P now s op ok).1, step_isolated P now (abs s) op j h, abs_get]

/-! ### F7 on objects: sharing is not a refinement -/

theorem f7Init_sok (pl : Bytes) (s : Str) (m : M) : SOK (f7Init pl s m) := by
  refine ⟨?_, ?_, by simp [f7Init]⟩
  · intro b hb
    simp only [f7Init, List.mem_cons, List.mem_nil_iff, or_false] at hb
    rcases hb with rfl | rfl <;>
      exact ⟨by intro r hr; simp at hr; subst hr; exact ⟨by simp [Ref.u?, f7Init], by simp [v?]⟩, by simp [List.filterMap, Ref.u?], by simp [List.filterMap, v?]⟩
  · intro i j bi bj hij hi hj r hr r' hr'
    match i, j with
    | 0, 0 => exact absurd rfl hij
    | 0, 1 =>
      simp [f7Init] at hi hj; subst hi; subst hj
      simp at hr hr'; subst hr; subst hr'
      exact ⟨by simp [Ref.u?], by simp [v?]⟩
    | 1, 0 =>
      simp [f7Init] at hi hj; subst hi; subst hj
      simp at hr hr'; subst hr; subst hr'
      exact ⟨by simp [Ref.u?], by simp [v?]⟩
    | 1, 1 => exact absurd rfl hij
    | _ + 2, _ => simp [f7Init] at hi
    | 0, _ + 2 => simp [f7Init] at hj
    | 1, _ + 2 => simp [f7Init] at hj

/-- **F7, negative witness at object level.**  With the cache as found (`.share`: the stored
`*VerifiedMacaroon` itself is handed to every later bundle) the object-level run is NOT the
value-level run: from a state that satisfies the heap invariant (two bundles parsed separately), the
history verify 0, verify 1, attenuate 0, header 1 gives a trace the value-level model does not
have.  The same history with the copying cache does refine (`hrun_refines`). -/
theorem f7_share_not_refinement (P : Params) (pl : Bytes) (s : Str) (m : M) (cs : CS) (items : List (AddItem Bytes))
    (s' : Str) (m' : M) (added : CS)
    (hloc : m.loc = pl) (hnt : ticketsOf m = []) (hV : P.V (.unverified s m) [] = some cs)
    (hatt : Bundle.attMac items m = some (s', m', added)) (hne : s' ≠ s) (httl : 1 < P.ttl) :
    SOK (f7Init pl s m) ∧
    hrun .share P (f7History items) (f7Init pl s m) ≠ run P (f7History items) (abs (f7Init pl s m)) ∧
    hrun .copy P (f7History items) (f7Init pl s m) = run P (f7History items) (abs (f7Init pl s m)) := by
  refine ⟨f7Init_sok pl s m, ?_, hrun_refines P _ _ (f7Init_sok pl s m)⟩
  intro h
  rw [← hrun_refines P _ _ (f7Init_sok pl s m)] at h
  have h1 := f7_share P pl s m cs items s' m' added hloc hnt hV hatt httl
  have h2 := f7_copy P pl s m cs items s' m' added hloc hnt hV hatt httl
  rw [h, h2] at h1
  simp only [Option.some.injEq, Out.text.injEq] at h1
  exact hne (headerOf_single_inj h1).symm

end Macaroon.Lemmas.Refine
