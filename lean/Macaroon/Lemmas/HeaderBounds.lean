/-
C12, header strings: what `Parse` and the bundle tokeniser build from an Authorization header is
no larger than the header.  Base64 decoding never lengthens, scheme stripping and trimming only
remove, splitting at commas partitions the text.
-/
import Macaroon.Lemmas.Header

namespace Macaroon
namespace Base64

theorem decodeGroups_length_le : ∀ (s : List Char) (bs : Bytes), decodeGroups s = some bs → bs.length ≤ s.length
  | [], bs, h => by simp only [decodeGroups, Option.some.injEq] at h; subst h; simp
  | [_], _, h => by simp [decodeGroups] at h
  | [_, _], _, h => by simp [decodeGroups] at h
  | [_, _, _], _, h => by simp [decodeGroups] at h
  | a :: b :: c :: d :: rest, bs, h => by
    rw [decodeGroups] at h
    split at h
    · split at h
      · simp only [Option.some.injEq] at h; subst h; simp
      · split at h
        · cases h
        · split at h
          · simp only [Option.some.injEq] at h; subst h; simp
          · split at h
            · cases h
            · split at h
              · cases h
              · rename_i bs' hr
                simp only [Option.some.injEq] at h; subst h
                have := decodeGroups_length_le rest bs' hr
                simp only [List.length_cons]; omega
    · cases h

/-- decoding never lengthens (in fact it yields at most 3 bytes per 4 characters) -/
theorem decode_length_le (s : List Char) (bs : Bytes) (h : decode s = some bs) : bs.length ≤ s.length := by
  unfold decode at h
  exact Nat.le_trans (decodeGroups_length_le _ bs h) (List.length_filter_le _ _)

end Base64

namespace Header

theorem stripScheme_length_le : ∀ (n : Nat) (h : List Char), h.length ≤ n → (stripScheme h).1.length ≤ h.length := by
  intro n
  induction n with
  | zero =>
    intro h hn
    have : h = [] := List.eq_nil_of_length_eq_zero (by omega)
    subst this
    rw [stripScheme_eq]; simp [trim_nil, cut]
  | succ n ih =>
    intro h hn
    rw [stripScheme_eq]
    have htl := trim_length_le h
    cases hc : cut ' ' (trim h) with
    | none => simpa using htl
    | some p =>
      obtain ⟨pfx, rest⟩ := p
      simp only
      have hlen := congrArg List.length (cut_some ' ' _ _ _ hc).1
      simp only [List.length_append, List.length_cons] at hlen
      split
      · have := ih rest (by omega)
        simp only; omega
      · simpa using htl

/-- splitting at a separator partitions the text: the parts and the separators between them -/
theorem splitOn_lengths (c : Char) : ∀ s : List Char,
    ((splitOn c s).map List.length).sum + (splitOn c s).length = s.length + 1
  | [] => by simp [splitOn]
  | x :: xs => by
    have ih := splitOn_lengths c xs
    rw [splitOn]
    split
    · simp only [List.map_cons, List.sum_cons, List.length_cons, List.length_nil] at ih ⊢; omega
    · cases hs : splitOn c xs with
      | nil => rw [hs] at ih; simp at ih
      | cons p ps =>
        rw [hs] at ih
        simp only [List.map_cons, List.sum_cons, List.length_cons] at ih ⊢; omega

theorem parts_lengths (h : List Char) :
    ((parts h).map List.length).sum + (parts h).length ≤ h.length + 1 := by
  have h1 := splitOn_lengths ',' (stripScheme h).1
  have h2 := stripScheme_length_le h.length h (Nat.le_refl _)
  unfold parts; omega

theorem parseEntry_length_le (e : List Char) (raw : Bytes) (h : parseEntry e = .ok (some raw)) :
    raw.length ≤ e.length := by
  unfold parseEntry at h
  split at h
  · cases h
  · rename_i pfx b64 hc
    have hlen := congrArg List.length (cut_some '_' _ _ _ hc).1
    simp only [List.length_append, List.length_cons] at hlen
    split at h
    · split at h
      · cases h
      · cases h
      · rename_i b bs hd
        simp only [Except.ok.injEq, Option.some.injEq] at h
        subst h
        have := Base64.decode_length_le _ _ hd
        omega
    · split at h <;> cases h

theorem parseEntries_length_le : ∀ (es : List (List Char)) (toks : List Bytes), parseEntries es = .ok toks →
    (toks.map List.length).sum ≤ (es.map List.length).sum
  | [], toks, h => by simp only [parseEntries, Except.ok.injEq] at h; subst h; simp
  | e :: es, toks, h => by
    rw [parseEntries] at h
    split at h
    · cases h
    · have := parseEntries_length_le es toks h
      simp only [List.map_cons, List.sum_cons]; omega
    · rename_i raw he
      split at h
      · cases h
      · rename_i toks' hes
        simp only [Except.ok.injEq] at h
        subst h
        have h1 := parseEntry_length_le e raw he
        have h2 := parseEntries_length_le es toks' hes
        simp only [List.map_cons, List.sum_cons]; omega

/-- `Parse`: the tokens returned are, together, no longer than the header -/
theorem parse_length_le (h : List Char) (toks : List Bytes) (hp : parse h = .ok toks) :
    (toks.map List.length).sum ≤ h.length := by
  unfold parse at hp
  split at hp
  · cases hp
  · cases hp
  · rename_i t ts he
    simp only [Except.ok.injEq] at hp
    subst hp
    have h1 := parseEntries_length_le _ _ he
    have h2 := parts_lengths h
    have h3 : 0 < (parts h).length := List.length_pos_iff.mpr (parts_ne_nil h)
    omega

theorem classifyPart_bounds (p : List Char) :
    (classifyPart p).str = p ∧ ∀ raw, (classifyPart p).raw? = some raw → raw.length ≤ p.length := by
  unfold classifyPart
  split
  · exact ⟨rfl, by simp [Tok.raw?]⟩
  · rename_i pfx b64 hc
    have hlen := congrArg List.length (cut_some '_' _ _ _ hc).1
    simp only [List.length_append, List.length_cons] at hlen
    split
    · split
      · exact ⟨rfl, by simp [Tok.raw?]⟩
      · rename_i raw hd
        refine ⟨rfl, ?_⟩
        intro r hr
        simp only [Tok.raw?, Option.some.injEq] at hr
        subst hr
        have := Base64.decode_length_le _ _ hd
        omega
    · exact ⟨rfl, by simp [Tok.raw?]⟩

/-- the bundle tokeniser: at most one token per comma (plus one), and the token texts and the decoded
payloads are, together, no longer than the header -/
theorem parseToks_bounds (h : List Char) :
    (parseToks h).length ≤ h.length + 1 ∧
    ((parseToks h).map fun t => t.str.length).sum + (parseToks h).length ≤ h.length + 1 ∧
    (((parseToks h).filterMap Tok.raw?).map List.length).sum + (parseToks h).length ≤ h.length + 1 := by
  have hp := parts_lengths h
  have key : ∀ ps : List (List Char),
      ((ps.map parseTok).map fun t => t.str.length).sum ≤ (ps.map List.length).sum ∧
      (((ps.map parseTok).filterMap Tok.raw?).map List.length).sum ≤ (ps.map List.length).sum := by
    intro ps
    induction ps with
    | nil => simp
    | cons p ps ih =>
      obtain ⟨h1, h2⟩ := classifyPart_bounds (trim p)
      have ht := trim_length_le p
      simp only [List.map_cons, List.sum_cons, parseTok]
      refine ⟨by rw [h1]; omega, ?_⟩
      cases hr : (classifyPart (trim p)).raw? with
      | none => simp only [List.filterMap_cons, hr]; omega
      | some raw =>
        have := h2 raw hr
        simp only [List.filterMap_cons, hr, List.map_cons, List.sum_cons]; omega
  have hl : (parseToks h).length = (parts h).length := by simp [parseToks]
  obtain ⟨k1, k2⟩ := key (parts h)
  unfold parseToks at *
  simp only [List.length_map] at hl ⊢
  omega

end Header
end Macaroon
