/-
C16, store-operation semantics: every answer of a poll handler is justified by what its own `Get`
returned, under every interleaving.  A thread-local invariant over `Sys.run`, independent of the
store invariant of `Lemmas/TPServer.lean`.
-/
import Macaroon.Lemmas.TPServer

namespace Macaroon.TP

/-- what `HandlePollRequest` at service `v` may answer, given what its `GetByPollSecret` returned:
nothing stored → 404; a ticket the service's key does not open → 500; no response stored yet → 202
"not ready"; a stored response `r` → exactly `r` (or 500 if the delete that precedes delivery fails) -/
def PollAns (v : Nat) (res : Option Data) (o : Out) : Prop :=
  match res with
  | none => o = outNotFound
  | some sd =>
    match opens v sd.ticket with
    | none => o = outInternal
    | some _ =>
      match sd.resp with
      | none => o = outNotReady
      | some r => o = deliver r ∨ o = outInternal

/-- a pending poll handler past its `Get` holds a response that this `Get` returned -/
def PollLocal (tr : Trace) (i : Nat) (th : Thread) : Prop :=
  ∀ v s, th.act = .poll v s →
    match th.pc with
    | .pollDelete _ r => ∃ sd, Ev.op i th.act (.got (pollKey s) (some sd)) ∈ tr ∧
        (opens v sd.ticket).isSome = true ∧ sd.resp = some r
    | .pollRemove _ _ r => ∃ sd, Ev.op i th.act (.got (pollKey s) (some sd)) ∈ tr ∧
        (opens v sd.ticket).isSome = true ∧ sd.resp = some r
    | .update _ _ => False
    | _ => True

structure PInv (S : Sys) (tr : Trace) : Prop where
  loc : ∀ i th, S.threads[i]? = some th → PollLocal tr i th
  ret : ∀ i v s o, Ev.returned i (.poll v s) o ∈ tr →
    ∃ res, Ev.op i (.poll v s) (.got (pollKey s) res) ∈ tr ∧ PollAns v res o

theorem PollLocal.mono {tr : Trace} {i : Nat} {th : Thread} (evs : List Ev) (h : PollLocal tr i th) :
    PollLocal (evs ++ tr) i th := by
  intro v s ha
  have := h v s ha
  cases hpc : th.pc <;> simp only [hpc] at this ⊢
  all_goals first
    | (obtain ⟨sd, h1, h2⟩ := this; exact ⟨sd, List.mem_append_right _ h1, h2⟩)
    | exact this

/-- one store operation of a poll handler: the local invariant is kept, and an answer is justified -/
theorem micro_poll (st : Store) (v s i : Nat) (pc : PC) (tr : Trace) (h : PollLocal tr i ⟨.poll v s, pc⟩) :
    PollLocal (retEvs i (.poll v s) (micro st (.poll v s) pc).2.1 ++
        ((micro st (.poll v s) pc).2.2.map (Ev.op i (.poll v s))).reverse ++ tr) i
        ⟨.poll v s, (micro st (.poll v s) pc).2.1⟩ ∧
    ((∀ o, pc ≠ .done o) → ∀ o, (micro st (.poll v s) pc).2.1 = .done o →
      ∃ res, Ev.op i (.poll v s) (.got (pollKey s) res) ∈
          (retEvs i (.poll v s) (micro st (.poll v s) pc).2.1 ++
            ((micro st (.poll v s) pc).2.2.map (Ev.op i (.poll v s))).reverse ++ tr) ∧ PollAns v res o) := by
  have h0 := h v s rfl
  cases pc with
  | start =>
    simp only [micro]
    cases hg : st.get (pollKey s) with
    | none =>
      refine ⟨fun _ _ _ => trivial, fun _ o ho => ?_⟩
      simp only [PC.done.injEq] at ho; subst ho
      exact ⟨none, by simp [retEvs], rfl⟩
    | some sd =>
      simp only
      cases ho : opens v sd.ticket with
      | none =>
        refine ⟨fun _ _ _ => trivial, fun _ o hd => ?_⟩
        simp only [PC.done.injEq] at hd; subst hd
        exact ⟨some sd, by simp [retEvs], by simp [PollAns, ho]⟩
      | some tid =>
        simp only
        cases hr : sd.resp with
        | none =>
          refine ⟨fun _ _ _ => trivial, fun _ o hd => ?_⟩
          simp only [PC.done.injEq] at hd; subst hd
          exact ⟨some sd, by simp [retEvs], by simp [PollAns, ho, hr]⟩
        | some r =>
          refine ⟨?_, fun _ o hd => by cases hd⟩
          intro v' s' ha
          simp only [Action.poll.injEq] at ha
          obtain ⟨rfl, rfl⟩ := ha
          exact ⟨sd, by simp [retEvs], by simp [ho], hr⟩
  | pollDelete s' r =>
    obtain ⟨sd, hm, hop, hr⟩ := h0
    simp only [micro]
    cases ha : st.addr (pollKey s') with
    | none =>
      refine ⟨fun _ _ _ => trivial, fun _ o hd => ?_⟩
      simp only [PC.done.injEq] at hd; subst hd
      refine ⟨some sd, List.mem_append_right _ hm, ?_⟩
      cases ho : opens v sd.ticket with
      | none => rw [ho] at hop; cases hop
      | some tid => simp [PollAns, ho, hr]
    | some a =>
      refine ⟨?_, fun _ o hd => by cases hd⟩
      intro v' s'' ha'
      simp only [Action.poll.injEq] at ha'
      obtain ⟨rfl, rfl⟩ := ha'
      exact ⟨sd, List.mem_append_right _ hm, hop, hr⟩
  | pollRemove s' a r =>
    obtain ⟨sd, hm, hop, hr⟩ := h0
    simp only [micro]
    refine ⟨fun _ _ _ => trivial, fun _ o hd => ?_⟩
    simp only [PC.done.injEq] at hd; subst hd
    refine ⟨some sd, List.mem_append_right _ hm, ?_⟩
    cases ho : opens v sd.ticket with
    | none => rw [ho] at hop; cases hop
    | some tid => simp [PollAns, ho, hr]
  | update k d => exact absurd h0 (by simp [PollLocal])
  | done o => exact ⟨by simpa [micro, retEvs] using PollLocal.mono [.returned i (.poll v s) o] h, fun hnd => absurd rfl (hnd o)⟩

/-- a handler of another kind never enters the poll-specific states with a poll action -/
theorem pollLocal_of_not_poll (tr : Trace) (i : Nat) (a : Action) (pc : PC) (h : ∀ v s, a ≠ .poll v s) :
    PollLocal tr i ⟨a, pc⟩ := fun v s ha => absurd ha (h v s)

theorem sys_step_eq (S : Sys) (tr : Trace) (i : Nat) (a : Action) (pc : PC) (hi : S.threads[i]? = some ⟨a, pc⟩)
    (hnd : ∀ o, pc ≠ .done o) :
    Sys.step (S, tr) (.step i) =
      ({ store := (micro S.store a pc).1, threads := S.threads.set i ⟨a, (micro S.store a pc).2.1⟩ },
        retEvs i a (micro S.store a pc).2.1 ++ ((micro S.store a pc).2.2.map (Ev.op i a)).reverse ++ tr) := by
  cases pc with
  | done o => exact absurd rfl (hnd o)
  | _ => simp [Sys.step, hi]

theorem pinv_step (S : Sys) (tr : Trace) (inv : PInv S tr) (sc : Sched) :
    PInv (Sys.step (S, tr) sc).1 (Sys.step (S, tr) sc).2 := by
  cases sc with
  | spawn a =>
    simp only [Sys.step]
    refine ⟨?_, ?_⟩
    · intro i th hi
      by_cases hlt : i < S.threads.length
      · rw [List.getElem?_append_left hlt] at hi
        exact (inv.loc i th hi).mono [_]
      · rw [List.getElem?_append_right (by omega)] at hi
        cases hk : i - S.threads.length with
        | zero =>
          rw [hk] at hi
          simp only [List.getElem?_cons_zero, Option.some.injEq] at hi
          subst hi
          intro v s _; trivial
        | succ n => rw [hk] at hi; simp at hi
    · intro i v s o hm
      simp only [List.mem_cons, reduceCtorEq, false_or] at hm
      obtain ⟨res, h1, h2⟩ := inv.ret i v s o hm
      exact ⟨res, List.mem_cons_of_mem _ h1, h2⟩
  | evict k =>
    simp only [Sys.step]
    refine ⟨fun i th hi => (inv.loc i th hi).mono [_], ?_⟩
    intro i v s o hm
    simp only [List.mem_cons, reduceCtorEq, false_or] at hm
    obtain ⟨res, h1, h2⟩ := inv.ret i v s o hm
    exact ⟨res, List.mem_cons_of_mem _ h1, h2⟩
  | step i =>
    cases hi : S.threads[i]? with
    | none => simpa [Sys.step, hi] using inv
    | some th =>
      obtain ⟨a, pc⟩ := th
      by_cases hd : ∃ o, pc = .done o
      · obtain ⟨o, rfl⟩ := hd
        simpa [Sys.step, hi] using inv
      · have hnd : ∀ o, pc ≠ .done o := fun o h => hd ⟨o, h⟩
        rw [sys_step_eq S tr i a pc hi hnd]
        have hloc := inv.loc i _ hi
        refine ⟨?_, ?_⟩
        · intro j th' hj
          by_cases hji : j = i
          · subst hji
            rw [List.getElem?_set_self (List.getElem?_eq_some_iff.mp hi).1] at hj
            simp only [Option.some.injEq] at hj
            subst hj
            by_cases hp : ∃ v s, a = .poll v s
            · obtain ⟨v, s, rfl⟩ := hp
              exact (micro_poll S.store v s j pc tr hloc).1
            · exact pollLocal_of_not_poll _ _ _ _ (fun v s h => hp ⟨v, s, h⟩)
          · rw [List.getElem?_set_ne (Ne.symm hji)] at hj
            have := (inv.loc j th' hj).mono
              (retEvs i a (micro S.store a pc).2.1 ++ ((micro S.store a pc).2.2.map (Ev.op i a)).reverse)
            simpa [List.append_assoc] using this
        · intro j v s o hm
          rcases List.mem_append.mp hm with hm | hm
          · rcases List.mem_append.mp hm with hm | hm
            · -- the handler returned in this step
              cases hpc' : (micro S.store a pc).2.1 with
              | done o' =>
                rw [hpc'] at hm
                simp only [retEvs, List.mem_singleton, Ev.returned.injEq] at hm
                obtain ⟨rfl, rfl, rfl⟩ := hm
                have := (micro_poll S.store v s j pc tr hloc).2 hnd o hpc'
                simpa [hpc', List.append_assoc] using this
              | _ => rw [hpc'] at hm; simp [retEvs] at hm
            · simp at hm
          · obtain ⟨res, h1, h2⟩ := inv.ret j v s o hm
            exact ⟨res, List.mem_append_right _ h1, h2⟩

theorem pinv_run (sched : List Sched) : PInv (Sys.run sched).1 (Sys.run sched).2 := by
  have : ∀ (l : List Sched) (c : Sys × Trace), PInv c.1 c.2 → PInv (l.foldl Sys.step c).1 (l.foldl Sys.step c).2 := by
    intro l
    induction l with
    | nil => intro c h; exact h
    | cons x xs ih => intro c h; exact ih _ (pinv_step c.1 c.2 h x)
  exact this sched ({}, []) ⟨by intro i th h; simp at h, by intro i v s o h; simp at h⟩

end Macaroon.TP
