/-
C16, store-operation semantics: every answer of a poll handler is justified by what its own `Get`
returned, under every interleaving.  A thread-local invariant over `Sys.run`, independent of the
store invariant of `Lemmas/TPServer.lean`.
-/
import Macaroon.Lemmas.TPServer

namespace Macaroon.TP

/-- what `HandlePollRequest` at service `v` may answer, given what its `GetByPollSecret` returned:
nothing stored → 404; a ticket the service's key does not open → 500; no response stored yet → 202
"not ready"; a stored response `r` → exactly `r` (or 500 if the delete that precedes delivery fails) -/
def PollAns (v : Nat) (res : Option Data) (o : Out) : Prop :=
  match res with
  | none => o = outNotFound
  | some sd =>
    match opens v sd.ticket with
    | none => o = outInternal
    | some _ =>
      match sd.resp with
      | none => o = outNotReady
      | some r => o = deliver r ∨ o = outInternal

/-- a pending poll handler past its `Get` holds a response that this `Get` returned -/
def PollLocal (tr : Trace) (i : Nat) (th : Thread) : Prop :=
  ∀ v s, th.act = .poll v s →
    match th.pc with
    | .pollDelete _ r => ∃ sd, Ev.op i th.act (.got (pollKey s) (some sd)) ∈ tr ∧
        (opens v sd.ticket).isSome = true ∧ sd.resp = some r
    | .pollRemove _ _ r => ∃ sd, Ev.op i th.act (.got (pollKey s) (some sd)) ∈ tr ∧
        (opens v sd.ticket).isSome = true ∧ sd.resp = some r
    | .update _ _ => False
    | _ => True

structure PInv (S : Sys) (tr : Trace) : Prop where
  loc : ∀ i th, S.threads[i]? = some th → PollLocal tr i th
  ret : ∀ i v s o, Ev.returned i (.poll v s) o ∈ tr →
    ∃ res, Ev.op i (.poll v s) (.got (pollKey s) res) ∈ tr ∧ PollAns v res o

theorem PollLocal.mono {tr : Trace} {i : Nat} {th : Thread} (evs : List Ev) (h : PollLocal tr i th) :
    PollLocal (evs ++ tr) i th := by
  intro v s ha
  have := h v s ha
  cases hpc : th.pc <;> simp only [hpc] at this ⊢
  all_goals first
    | (obtain ⟨sd, h1, h2⟩ := this; exact ⟨sd, List.mem_append_right _ h1, h2⟩)
    | exact this

/-- one store operation of a poll handler: the local invariant is kept, and an answer is justified -/
theorem micro_poll (st : Store) (v s i : Nat) (pc : PC) (tr : Trace) (h : PollLocal tr i ⟨.poll v s, pc⟩) :
    PollLocal (retEvs i (.poll v s) (micro st (.poll v s) pc).2.1 ++
        ((micro st (.poll v s) pc).2.2.map (Ev.op i (.poll v s))).reverse ++ tr) i
        ⟨.poll v s, (micro st (.poll v s) pc).2.1⟩ ∧
    ((∀ o, pc ≠ .done o) → ∀ o, (micro st (.poll v s) pc).2.1 = .done o →
      ∃ res, Ev.op i (.poll v s) (.got (pollKey s) res) ∈
          (retEvs i (.poll v s) (micro st (.poll v s) pc).2.1 ++
            ((micro st (.poll v s) pc).2.2.map (Ev.op i (.poll v s))).reverse ++ tr) ∧ PollAns v res o) := by
  have h0 := h v s rfl
  cases pc with
  | start =>
    simp only [micro]
    cases hg : st.get (pollKey s) with
    | none =>
      refine ⟨fun _ _ _ => trivial, fun _ o ho => ?_⟩
      simp only [PC.done.injEq] at ho; subst ho
      exact ⟨none, by simp [retEvs], rfl⟩
    | some sd =>
      simp only
      cases ho : opens v sd.ticket with
      | none =>
        refine ⟨fun _ _ _ => trivial, fun _ o hd => ?_⟩
        simp only [PC.done.injEq] at hd; subst hd
        exact ⟨some sd, by simp [retEvs], by simp [PollAns, ho]⟩
      | some tid =>
        simp only
        cases hr : sd.resp with
        | none =>
          refine ⟨fun _ _ _ => trivial, fun _ o hd => ?_⟩
          simp only [PC.done.injEq] at hd; subst hd
          exact ⟨some sd, by simp [retEvs], by simp [PollAns, ho, hr]⟩
        | some r =>
          refine ⟨?_, fun _ o hd => by cases hd⟩
          intro v' s' ha
          simp only [Action.poll.injEq] at ha
          obtain ⟨rfl, rfl⟩ := ha
          exact ⟨sd, by simp [retEvs], by simp [ho], hr⟩
  | pollDelete s' r =>
    obtain ⟨sd, hm, hop, hr⟩ := h0
    simp only [micro]
    cases ha : st.addr (pollKey s') with
    | none =>
      refine ⟨fun _ _ _ => trivial, fun _ o hd => ?_⟩
      simp only [PC.done.injEq] at hd; subst hd
      refine ⟨some sd, List.mem_append_right _ hm, ?_⟩
      cases ho : opens v sd.ticket with
      | none => rw [ho] at hop; cases hop
      | some tid => simp [PollAns, ho, hr]
    | some a =>
      refine ⟨?_, fun _ o hd => by cases hd⟩
      intro v' s'' ha'
      simp only [Action.poll.injEq] at ha'
      obtain ⟨rfl, rfl⟩ := ha'
      exact ⟨sd, List.mem_append_right _ hm, hop, hr⟩
  | pollRemove s' a r =>
    obtain ⟨sd, hm, hop, hr⟩ := h0
    simp only [micro]
    refine ⟨fun _ _ _ => trivial, fun _ o hd => ?_⟩
    simp only [PC.done.injEq] at hd; subst hd
    refine ⟨some sd, List.mem_append_right _ hm, ?_⟩
    cases ho : opens v sd.ticket with
    | none => rw [ho] at hop; cases hop
    | some tid => simp [PollAns, ho, hr]
  | update k d => exact absurd h0 (by simp [PollLocal])
  | done o => exact ⟨by simpa [micro, retEvs] using PollLocal.mono [.returned i (.poll v s) o] h, fun hnd => absurd rfl (hnd o)⟩

/-- a handler of another kind never enters the poll-specific states with a poll action -/
theorem pollLocal_of_not_poll (tr : Trace) (i : Nat) (a : Action) (pc : PC) (h : ∀ v s, a ≠ .poll v s) :
    PollLocal tr i ⟨a, pc⟩ := fun v s ha => absurd ha (h v s)

theorem sys_step_eq (S : Sys) (tr : Trace) (i : Nat) (a : Action) (pc : PC) (hi : S.threads[i]? = some ⟨a, pc⟩)
    (hnd : ∀ o, pc ≠ .done o) :
    Sys.step (S, tr) (.step i) =
      ({ store := (micro S.store a pc).1, threads := S.threads.set i ⟨a, (micro S.store a pc).2.1⟩ },
        retEvs i a (micro S.store a pc).2.1 ++ ((micro S.store a pc).2.2.map (Ev.op i a)).reverse ++ tr) := by
  cases pc with
  | done o => exact absurd rfl (hnd o)
  | _ => simp [Sys.step, hi]

theorem pinv_step (S : Sys) (tr : Trace) (inv : PInv S tr) (sc : Sched) :
    PInv (Sys.step (S, tr) sc).1 (Sys.step (S, tr) sc).2 := by
  cases sc with
  | spawn a =>
    simp only [Sys.step]
    refine ⟨?_, ?_⟩
    · intro i th hi
      by_cases hlt : i < S.threads.length
      · rw [List.getElem?_append_left hlt] at hi
        exact (inv.loc i th hi).mono [_]
      · rw [List.getElem?_append_right (by omega)] at hi
        cases hk : i - S.threads.length with
        | zero =>
          rw [hk] at hi
          simp only [List.getElem?_cons_zero, Option.some.injEq] at hi
          subst hi
          intro v s _; trivial
        | succ n => rw [hk] at hi; simp at hi
    · intro i v s o hm
      simp only [List.mem_cons, reduceCtorEq, false_or] at hm
      obtain ⟨res, h1, h2⟩ := inv.ret i v s o hm
      exact ⟨res, List.mem_cons_of_mem _ h1, h2⟩
  | evict k =>
    simp only [Sys.step]
    refine ⟨fun i th hi => (inv.loc i th hi).mono [_], ?_⟩
    intro i v s o hm
    simp only [List.mem_cons, reduceCtorEq, false_or] at hm
    obtain ⟨res, h1, h2⟩ := inv.ret i v s o hm
    exact ⟨res, List.mem_cons_of_mem _ h1, h2⟩
  | step i =>
    cases hi : S.threads[i]? with
    | none => simpa [Sys.step, hi] using inv
    | some th =>
      obtain ⟨a, pc⟩ := th
      by_cases hd : ∃ o, pc = .done o
      · obtain ⟨o, rfl⟩ := hd
        simpa [Sys.step, hi] using inv
      · have hnd : ∀ o, pc ≠ .done o := fun o h => hd ⟨o, h⟩
        rw [sys_step_eq S tr i a pc hi hnd]
        have hloc := inv.loc i _ hi
        refine ⟨?_, ?_⟩
        · intro j th' hj
          by_cases hji : j = i
          · subst hji
            rw [List.getElem?_set_self (List.getElem?_eq_some_iff.mp hi).1] at hj
            simp only [Option.some.injEq] at hj
            subst hj
            by_cases hp : ∃ v s, a = .poll v s
            · obtain ⟨v, s, rfl⟩ := hp
              exact (micro_poll S.store v s j pc tr hloc).1
            · exact pollLocal_of_not_poll _ _ _ _ (fun v s h => hp ⟨v, s, h⟩)
          · rw [List.getElem?_set_ne (Ne.symm hji)] at hj
            have := (inv.loc j th' hj).mono
              (retEvs i a (micro S.store a pc).2.1 ++ ((micro S.store a pc).2.2.map (Ev.op i a)).reverse)
            simpa [List.append_assoc] using this
        · intro j v s o hm
          rcases List.mem_append.mp hm with hm | hm
          · rcases List.mem_append.mp hm with hm | hm
            · -- the handler returned in this step
              cases hpc' : (micro S.store a pc).2.1 with
              | done o' =>
                rw [hpc'] at hm
                simp only [retEvs, List.mem_singleton, Ev.returned.injEq] at hm
                obtain ⟨rfl, rfl, rfl⟩ := hm
                have := (micro_poll S.store v s j pc tr hloc).2 hnd o hpc'
                simpa [hpc', List.append_assoc] using this
              | _ => rw [hpc'] at hm; simp [retEvs] at hm
            · simp at hm
          · obtain ⟨res, h1, h2⟩ := inv.ret j v s o hm
            exact ⟨res, List.mem_append_right _ h1, h2⟩

/-! ### linking the answers to the trace: what a `Get` returned, and why -/

/-- how one store operation changes the store, with the event that records a removal -/
theorem micro_store' (st : Store) (act : Action) (pc : PC) :
    (∃ s a r, pc = .pollRemove s a r ∧ (micro st act pc).1 = st.remove a ∧ (micro st act pc).2.2 = [.removed a]) ∨
    ((micro st act pc).1 = st ∨ (∃ d, (micro st act pc).1 = (st.insert d).1) ∨
      (∃ a d, (micro st act pc).1 = { st with heap := st.heap.modify a (fun x => { x with data := d }) })) := by
  cases pc with
  | pollRemove s a r => exact .inl ⟨s, a, r, rfl, rfl, rfl⟩
  | start =>
    right
    cases act with
    | init v t m =>
      simp only [micro]
      cases ho : opens v t with
      | none => exact .inl rfl
      | some tid =>
        cases m with
        | poll => exact .inr (.inl ⟨_, rfl⟩)
        | userInteractive => exact .inr (.inl ⟨_, rfl⟩)
        | immediate cs => exact .inl rfl
        | refuse s m => exact .inl rfl
        | noResponse => exact .inl rfl
    | poll v s =>
      left; simp only [micro]
      split
      · rfl
      · split
        · rfl
        · split <;> rfl
    | userVisit v s =>
      left; simp only [micro]
      split
      · rfl
      · split <;> rfl
    | decide v r s d =>
      left; simp only [micro]
      split
      · rfl
      · split <;> rfl
    | evict k => exact .inl rfl
  | pollDelete s r =>
    right; left; simp only [micro]
    split <;> rfl
  | update k d =>
    right
    simp only [micro]
    cases hu : st.update k d with
    | none => exact .inl rfl
    | some st' =>
      obtain ⟨a, _, rfl⟩ := Store.update_eq hu
      exact .inr (.inr ⟨a, d, rfl⟩)
  | done o => exact .inr (.inl rfl)

/-- a `Get` is the only operation of its step, returns what the store holds, and changes nothing -/
theorem micro_got (st : Store) (act : Action) (pc : PC) (k : Key) (res : Option Data)
    (h : OpEv.got k res ∈ (micro st act pc).2.2) :
    (micro st act pc).2.2 = [.got k res] ∧ res = st.get k ∧ (micro st act pc).1 = st := by
  cases pc with
  | start =>
    cases act with
    | init v t m =>
      simp only [micro] at h ⊢
      cases ho : opens v t with
      | none => simp [ho] at h
      | some tid => cases m <;> simp [ho] at h
    | poll v s =>
      simp only [micro] at h ⊢
      cases hg : st.get (pollKey s) with
      | none => (simp [hg] at h; obtain ⟨rfl, rfl⟩ := h; simp [hg])
      | some sd =>
        simp only [hg] at h ⊢
        cases ho : opens v sd.ticket with
        | none => (simp [ho] at h; obtain ⟨rfl, rfl⟩ := h; simp [hg, ho])
        | some tid =>
          simp only [ho] at h ⊢
          cases hr : sd.resp <;> (simp [hr] at h; obtain ⟨rfl, rfl⟩ := h; simp [hg, ho, hr])
    | userVisit v s =>
      simp only [micro] at h ⊢
      cases hg : st.get (userKey s) with
      | none => (simp [hg] at h; obtain ⟨rfl, rfl⟩ := h; simp [hg])
      | some sd =>
        simp only [hg] at h ⊢
        cases ho : opens v sd.ticket <;> (simp [ho] at h; obtain ⟨rfl, rfl⟩ := h; simp [hg, ho])
    | decide v r s d =>
      simp only [micro] at h ⊢
      cases hg : st.get ⟨r, s⟩ with
      | none => (simp [hg] at h; obtain ⟨rfl, rfl⟩ := h; simp [hg])
      | some sd =>
        simp only [hg] at h ⊢
        cases hd : decideData v sd d <;> (simp [hd] at h; obtain ⟨rfl, rfl⟩ := h; simp [hg, hd])
    | evict k' => simp [micro] at h
  | pollDelete s r =>
    simp only [micro] at h
    split at h <;> simp at h
  | pollRemove s a r => simp [micro] at h
  | update k' d =>
    simp only [micro] at h
    split at h <;> simp at h
  | done o => simp [micro] at h


/-- the poll key of every flow ever inserted is still filed, unless the LRU dropped it or a delivering
poll removed the flow — and the trace says which -/
def KInv (st : Store) (tr : Trace) : Prop :=
  ∀ a, a < st.heap.length →
    (pollKey (2 * a + 1), a) ∈ st.keys ∨ Ev.evicted (pollKey (2 * a + 1)) ∈ tr ∨ ∃ j act, Ev.op j act (.removed a) ∈ tr

theorem KInv.mono {st : Store} {tr : Trace} (h : KInv st tr) (evs : List Ev) : KInv st (evs ++ tr) := by
  intro a ha
  rcases h a ha with h | h | ⟨j, act, h⟩
  · exact .inl h
  · exact .inr (.inl (List.mem_append_right _ h))
  · exact .inr (.inr ⟨j, act, List.mem_append_right _ h⟩)

theorem remove_heap (st : Store) (a : Nat) : (st.remove a).heap = st.heap := by
  unfold Store.remove; split <;> rfl

theorem kinv_micro {st : Store} {tr : Trace} (h : KInv st tr) (wf : st.WF) (i : Nat) (act : Action) (pc : PC)
    (evs : List Ev) (hevs : ∀ e ∈ (micro st act pc).2.2, Ev.op i act e ∈ evs) :
    KInv (micro st act pc).1 (evs ++ tr) := by
  rcases micro_store' st act pc with ⟨s, a0, r, rfl, hst, hev⟩ | hst | ⟨d, hst⟩ | ⟨a0, d, hst⟩
  · rw [hst]
    intro a ha
    rw [remove_heap] at ha
    by_cases haa : a = a0
    · subst haa
      exact .inr (.inr ⟨i, act, List.mem_append_left _ (hevs _ (by rw [hev]; simp))⟩)
    · rcases h a ha with hm | hm | ⟨j, act', hm⟩
      · left
        unfold Store.remove
        split
        · rename_i rc hrc
          obtain ⟨hu, hp⟩ := wf.heap_keys a0 rc hrc
          refine List.mem_filter.mpr ⟨hm, ?_⟩
          simp only [hu, hp, flowKey, Bool.and_eq_true, bne_iff_ne, ne_eq, Key.mk.injEq, not_and, reduceCtorEq,
            false_implies, implies_true, and_true, true_implies]
          omega
        · exact hm
      · exact .inr (.inl (List.mem_append_right _ hm))
      · exact .inr (.inr ⟨j, act', List.mem_append_right _ hm⟩)
  · rw [hst]; exact h.mono evs
  · rw [hst]
    intro a ha
    simp only [Store.insert, List.length_append, List.length_cons, List.length_nil] at ha
    by_cases hlt : a < st.heap.length
    · rcases h a hlt with hm | hm | ⟨j, act', hm⟩
      · exact .inl (by simp only [Store.insert]; exact List.mem_cons_of_mem _ (List.mem_cons_of_mem _ hm))
      · exact .inr (.inl (List.mem_append_right _ hm))
      · exact .inr (.inr ⟨j, act', List.mem_append_right _ hm⟩)
    · have : a = st.heap.length := by omega
      subst this
      left
      simp only [Store.insert, wf.next_eq]
      exact List.mem_cons_self
  · rw [hst]
    intro a ha
    simp only [List.length_modify] at ha
    rcases h a ha with hm | hm | ⟨j, act', hm⟩
    · exact .inl hm
    · exact .inr (.inl (List.mem_append_right _ hm))
    · exact .inr (.inr ⟨j, act', List.mem_append_right _ hm⟩)

theorem kinv_evict {st : Store} {tr : Trace} (h : KInv st tr) (k : Key) : KInv (st.evict k) (Ev.evicted k :: tr) := by
  intro a ha
  simp only [Store.evict] at ha
  by_cases hk : pollKey (2 * a + 1) = k
  · exact .inr (.inl (by rw [hk]; exact List.mem_cons_self))
  · rcases h a ha with hm | hm | ⟨j, act', hm⟩
    · left
      simp only [Store.evict]
      exact List.mem_filter.mpr ⟨hm, by simpa using hk⟩
    · exact .inr (.inl (List.mem_cons_of_mem _ hm))
    · exact .inr (.inr ⟨j, act', List.mem_cons_of_mem _ hm⟩)


/-- what a `Get` that returned `res`, executed when the trace was `pre`, tells about `pre`:
a record found belongs to a flow `a` that an `init` on its ticket inserted, and holds exactly the
response of the LAST successful decision on that flow in `pre` (none if there was none); a poll key
of an inserted flow that is NOT found was dropped by the LRU or removed by a delivering poll -/
def GotFacts (k : Key) (res : Option Data) (pre : Trace) : Prop :=
  (∀ sd, res = some sd → ∃ a tid, k = flowKey a k.role ∧ sd.ticket = .good tid ∧
      InsertedT pre tid (2 * a + 1) (2 * a) ∧ sd.resp = respOf tid (lastDecisionT (2 * a + 1) (2 * a) pre) ∧
      ∀ t u, InsertedT pre t (2 * a + 1) u → u = 2 * a) ∧
  (res = none → ∀ a tid us, k = pollKey (2 * a + 1) → InsertedT pre tid (2 * a + 1) us →
      Ev.evicted k ∈ pre ∨ ∃ j act, Ev.op j act (.removed a) ∈ pre)

theorem gotFacts_of_inv {st : Store} {pre : Trace} (inv : SInv st pre) (kinv : KInv st pre) (k : Key) :
    GotFacts k (st.get k) pre := by
  constructor
  · intro sd hsd
    unfold Store.get at hsd
    cases ha : st.addr k with
    | none => simp [ha] at hsd
    | some a =>
      simp only [ha] at hsd
      cases hr : st.heap[a]? with
      | none => simp [hr] at hsd
      | some r =>
        simp only [hr, Option.map_some, Option.some.injEq] at hsd
        subst hsd
        obtain ⟨tid, h1, h2, h3⟩ := inv.flows a r hr
        refine ⟨a, tid, (inv.wf.addr_flowKey ha).2, h1, h2, h3, ?_⟩
        intro t u hi
        obtain ⟨a', _, hps, hus⟩ := inv.issued _ _ _ hi
        omega
  · intro hnone a tid us hk hins
    obtain ⟨a', ha', hps, _⟩ := inv.issued _ _ _ hins
    have : a' = a := by omega
    subst this
    rcases kinv a' ha' with hm | hm | hm
    · exfalso
      unfold Store.get at hnone
      cases haddr : st.addr k with
      | none => exact lookup_none haddr a' (hk ▸ hm)
      | some b =>
        have hb := (inv.wf.keys_wf k b (Store.addr_mem haddr)).1
        simp only [haddr] at hnone
        have : st.heap[b]? = some st.heap[b] := List.getElem?_eq_getElem hb
        simp [this] at hnone
    · exact .inl (hk ▸ hm)
    · exact .inr hm

/-- every `Get` recorded in the trace is justified by the trace before it -/
def GotsJust (tr : Trace) : Prop :=
  ∀ i act k res pre, (Ev.op i act (.got k res) :: pre) <:+ tr → GotFacts k res pre

structure HInv (S : Sys) (tr : Trace) : Prop where
  f : FInv S tr
  k : KInv S.store tr
  g : GotsJust tr

theorem gotsJust_cons_other {tr : Trace} (h : GotsJust tr) (e : Ev) (he : ∀ i act k res, e ≠ .op i act (.got k res)) :
    GotsJust (e :: tr) := by
  intro i act k res pre hs
  rcases List.suffix_cons_iff.mp hs with heq | hs
  · exact absurd (List.cons.inj heq).1.symm (he i act k res)
  · exact h i act k res pre hs

theorem gotsJust_append_other {tr : Trace} (h : GotsJust tr) : ∀ (evs : List Ev),
    (∀ e ∈ evs, ∀ i act k res, e ≠ .op i act (.got k res)) → GotsJust (evs ++ tr)
  | [], _ => h
  | e :: evs, he => by
    exact gotsJust_cons_other (gotsJust_append_other h evs fun x hx => he x (List.mem_cons_of_mem _ hx)) e
      (he e List.mem_cons_self)

theorem hinv_step (S : Sys) (tr : Trace) (inv : HInv S tr) (sc : Sched) :
    HInv (Sys.step (S, tr) sc).1 (Sys.step (S, tr) sc).2 := by
  have hf := inv.f.sys_step (c := (S, tr)) sc
  refine ⟨hf, ?_, ?_⟩
  · cases sc with
    | spawn a => simpa [Sys.step] using inv.k.mono [_]
    | evict k => simpa [Sys.step] using kinv_evict inv.k k
    | step i =>
      cases hi : S.threads[i]? with
      | none => simpa [Sys.step, hi] using inv.k
      | some th =>
        obtain ⟨a, pc⟩ := th
        by_cases hd : ∃ o, pc = .done o
        · obtain ⟨o, rfl⟩ := hd
          simpa [Sys.step, hi] using inv.k
        · rw [sys_step_eq S tr i a pc hi (fun o h => hd ⟨o, h⟩)]
          have := kinv_micro inv.k inv.f.s.wf i a pc
            (retEvs i a (micro S.store a pc).2.1 ++ ((micro S.store a pc).2.2.map (Ev.op i a)).reverse)
            (fun e he => List.mem_append_right _ (List.mem_reverse.mpr (List.mem_map_of_mem he)))
          simpa [List.append_assoc] using this
  · cases sc with
    | spawn a => simpa [Sys.step] using gotsJust_cons_other inv.g _ (by intro i act k res h; cases h)
    | evict k => simpa [Sys.step] using gotsJust_cons_other inv.g _ (by intro i act k res h; cases h)
    | step i =>
      cases hi : S.threads[i]? with
      | none => simpa [Sys.step, hi] using inv.g
      | some th =>
        obtain ⟨a, pc⟩ := th
        by_cases hd : ∃ o, pc = .done o
        · obtain ⟨o, rfl⟩ := hd
          simpa [Sys.step, hi] using inv.g
        · rw [sys_step_eq S tr i a pc hi (fun o h => hd ⟨o, h⟩)]
          simp only
          -- is the operation of this step a `Get`?
          by_cases hg : ∃ k res, OpEv.got k res ∈ (micro S.store a pc).2.2
          · obtain ⟨k, res, hm⟩ := hg
            obtain ⟨hops, hres, _⟩ := micro_got S.store a pc k res hm
            rw [hops]
            simp only [List.map_cons, List.map_nil, List.reverse_cons, List.reverse_nil, List.nil_append]
            have base : GotsJust (Ev.op i a (.got k res) :: tr) := by
              intro i' act' k' res' pre hs
              rcases List.suffix_cons_iff.mp hs with heq | hs
              · obtain ⟨h1, h2⟩ := List.cons.inj heq
                simp only [Ev.op.injEq, OpEv.got.injEq] at h1
                obtain ⟨_, _, rfl, rfl⟩ := h1
                subst h2
                rw [hres]
                exact gotFacts_of_inv inv.f.s inv.k k'
              · exact inv.g i' act' k' res' pre hs
            have := gotsJust_append_other base (retEvs i a (micro S.store a pc).2.1) (by
              intro e he i' act' k' res' heq
              subst heq
              cases hpc : (micro S.store a pc).2.1 <;> simp [retEvs, hpc] at he)
            simpa [List.append_assoc] using this
          · have := gotsJust_append_other inv.g
              (retEvs i a (micro S.store a pc).2.1 ++ ((micro S.store a pc).2.2.map (Ev.op i a)).reverse) (by
              intro e he i' act' k' res' heq
              subst heq
              rcases List.mem_append.mp he with he | he
              · cases hpc : (micro S.store a pc).2.1 <;> simp [retEvs, hpc] at he
              · rw [List.mem_reverse, List.mem_map] at he
                obtain ⟨x, hx, hxe⟩ := he
                simp only [Ev.op.injEq] at hxe
                exact hg ⟨k', res', hxe.2.2 ▸ hx⟩)
            simpa [List.append_assoc] using this

theorem hinv_run (sched : List Sched) : HInv (Sys.run sched).1 (Sys.run sched).2 := by
  have : ∀ (l : List Sched) (c : Sys × Trace), HInv c.1 c.2 → HInv (l.foldl Sys.step c).1 (l.foldl Sys.step c).2 := by
    intro l
    induction l with
    | nil => intro c h; exact h
    | cons x xs ih => intro c h; exact ih _ (hinv_step c.1 c.2 h x)
  exact this sched ({}, []) ⟨FInv.init, by intro a ha; simp at ha, by
    intro i act k res pre hs
    have := List.eq_nil_of_suffix_nil hs
    cases this⟩


theorem pinv_run (sched : List Sched) : PInv (Sys.run sched).1 (Sys.run sched).2 := by
  have : ∀ (l : List Sched) (c : Sys × Trace), PInv c.1 c.2 → PInv (l.foldl Sys.step c).1 (l.foldl Sys.step c).2 := by
    intro l
    induction l with
    | nil => intro c h; exact h
    | cons x xs ih => intro c h; exact ih _ (pinv_step c.1 c.2 h x)
  exact this sched ({}, []) ⟨by intro i th h; simp at h, by intro i v s o h; simp at h⟩

/-- **every poll answer, linked to the trace**: under every schedule, a returned poll handler
performed a `Get` on its key at some point `pre` of the trace, its answer is the one `PollAns` allows
for what that `Get` returned, and what the `Get` returned is justified by `pre` (`GotFacts`) -/
theorem poll_answer_linked (sched : List Sched) (i v s : Nat) (o : Out)
    (hret : Ev.returned i (.poll v s) o ∈ (Sys.run sched).2) :
    ∃ res pre, (Ev.op i (.poll v s) (.got (pollKey s) res) :: pre) <:+ (Sys.run sched).2 ∧
      PollAns v res o ∧ GotFacts (pollKey s) res pre := by
  obtain ⟨res, hm, hans⟩ := (pinv_run sched).ret i v s o hret
  obtain ⟨s1, t, hst⟩ := List.append_of_mem hm
  have hs : (Ev.op i (.poll v s) (.got (pollKey s) res) :: t) <:+ (Sys.run sched).2 := by
    rw [hst]; exact List.suffix_append _ _
  exact ⟨res, t, hs, hans, (hinv_run sched).g _ _ _ _ _ hs⟩

/-- the answer of a poll at service `v` whose `Get` found a record of flow `a` on ticket `tid`, by the
last successful decision on that flow before the `Get` -/
def AnswerFor (v tid : Nat) (dec : Option Decision) (o : Out) : Prop :=
  (v ≠ sealer tid ∧ o = .http 500 .internal false) ∨
  (v = sealer tid ∧
    match dec with
    | none => o = .http 202 .notReady false
    | some (.approve cs) => o = .http 200 (.discharge (mkDischarge tid cs)) false ∨ o = .http 500 .internal false
    | some (.abort msg) => o = .http 200 (.error msg) false ∨ o = .http 500 .internal false)

theorem poll_answer_cases (sched : List Sched) (i v ps : Nat) (o : Out)
    (hret : Ev.returned i (.poll v ps) o ∈ (Sys.run sched).2) :
    ∃ res pre, (Ev.op i (.poll v ps) (.got (pollKey ps) res) :: pre) <:+ (Sys.run sched).2 ∧
      ((res = none ∧ o = .http 404 .notFound false ∧
          ∀ a tid us, ps = 2 * a + 1 → InsertedT pre tid ps us →
            Ev.evicted (pollKey ps) ∈ pre ∨ ∃ j act, Ev.op j act (.removed a) ∈ pre) ∨
       (∃ sd a tid, res = some sd ∧ ps = 2 * a + 1 ∧ sd.ticket = .good tid ∧ InsertedT pre tid ps (2 * a) ∧
          (∀ t u, InsertedT pre t ps u → u = 2 * a) ∧ AnswerFor v tid (lastDecisionT ps (2 * a) pre) o)) := by
  obtain ⟨res, pre, hs, hans, hsome, hnone⟩ := poll_answer_linked sched i v ps o hret
  refine ⟨res, pre, hs, ?_⟩
  cases res with
  | none =>
    left
    refine ⟨rfl, hans, ?_⟩
    intro a tid us hps hins
    subst hps
    exact hnone rfl a tid us rfl hins
  | some sd =>
    right
    obtain ⟨a, tid, hk, hticket, hins, hresp, huniq⟩ := hsome sd rfl
    have hps : ps = 2 * a + 1 := by simpa [flowKey] using hk
    subst hps
    refine ⟨sd, a, tid, rfl, rfl, hticket, hins, huniq, ?_⟩
    simp only [PollAns, hticket, opens] at hans
    by_cases hv : sealer tid = v
    · right
      refine ⟨hv.symm, ?_⟩
      simp only [hv, if_true] at hans
      rw [hresp] at hans
      cases hd : lastDecisionT (2 * a + 1) (2 * a) pre with
      | none => simpa [hd, respOf, outNotReady] using hans
      | some d =>
        cases d with
        | approve cs => simpa [hd, respOf, deliver, outInternal] using hans
        | abort msg => simpa [hd, respOf, deliver, outInternal] using hans
    · left
      simp only [hv, if_false] at hans
      exact ⟨fun h => hv h.symm, hans⟩

end Macaroon.TP
