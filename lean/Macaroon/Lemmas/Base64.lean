/-
Proofs about the base64 model (`Macaroon.Wire.Base64`): decoding inverts
encoding, the encoder's output alphabet, and injectivity of the encoder.
Core Lean only.
-/
import Macaroon.Wire.Base64

namespace Macaroon
namespace Base64

/-! ### Sextet tables -/

theorem dec6_enc6 : ∀ n, n < 64 → dec6 (enc6 n) = some n := by decide

theorem enc6_ne_pad : ∀ n, n < 64 → (enc6 n == '=') = false := by decide

theorem enc6_not_newline : ∀ n, n < 64 → isNewline (enc6 n) = false := by decide

theorem enc6_alphabet : ∀ n, n < 64 →
    enc6 n ≠ ',' ∧ enc6 n ≠ '_' ∧ enc6 n ≠ ' ' ∧ enc6 n ≠ '\r' ∧ enc6 n ≠ '\n' ∧ enc6 n ≠ '\t' := by
  decide

theorem dec6_pad : dec6 '=' = none := by decide

/-! ### Byte arithmetic -/

theorem toNat_lt (x : UInt8) : x.toNat < 256 := x.toNat_lt

theorem ofNat_toNat_eq (x : UInt8) (n : Nat) (h : n = x.toNat) : UInt8.ofNat n = x := by
  subst h; exact UInt8.ofNat_toNat

theorem byte1_eq (a b : UInt8) :
    byte1 (a.toNat / 4) (a.toNat % 4 * 16 + b.toNat / 16) = a := by
  have := toNat_lt a; have := toNat_lt b
  exact ofNat_toNat_eq a _ (by omega)

theorem byte1_eq' (a : UInt8) : byte1 (a.toNat / 4) (a.toNat % 4 * 16) = a := by
  have := toNat_lt a
  exact ofNat_toNat_eq a _ (by omega)

theorem byte2_eq (a b c : UInt8) :
    byte2 (a.toNat % 4 * 16 + b.toNat / 16) (b.toNat % 16 * 4 + c.toNat / 64) = b := by
  have := toNat_lt a; have := toNat_lt b; have := toNat_lt c
  exact ofNat_toNat_eq b _ (by omega)

theorem byte2_eq' (a b : UInt8) :
    byte2 (a.toNat % 4 * 16 + b.toNat / 16) (b.toNat % 16 * 4) = b := by
  have := toNat_lt a; have := toNat_lt b
  exact ofNat_toNat_eq b _ (by omega)

theorem byte3_eq (b c : UInt8) :
    byte3 (b.toNat % 16 * 4 + c.toNat / 64) (c.toNat % 64) = c := by
  have := toNat_lt b; have := toNat_lt c
  exact ofNat_toNat_eq c _ (by omega)

/-! ### Induction over a byte list three at a time -/

theorem triple_induction {P : Bytes → Prop}
    (h0 : P []) (h1 : ∀ a, P [a]) (h2 : ∀ a b, P [a, b])
    (h3 : ∀ a b c rest, P rest → P (a :: b :: c :: rest)) : ∀ bs, P bs
  | [] => h0
  | [a] => h1 a
  | [a, b] => h2 a b
  | a :: b :: c :: rest => h3 a b c rest (triple_induction h0 h1 h2 h3 rest)

/-! ### The encoder's output -/

/-- Every output character is `'='` or an alphabet character. -/
theorem encode_chars (bs : Bytes) : ∀ c ∈ encode bs, c = '=' ∨ ∃ n, n < 64 ∧ c = enc6 n := by
  induction bs using triple_induction with
  | h0 => intro c h; simp [encode] at h
  | h1 a =>
    intro c h
    have := toNat_lt a
    simp only [encode, List.mem_cons, List.not_mem_nil, or_false] at h
    rcases h with h | h | h | h
    · exact .inr ⟨_, by omega, h⟩
    · exact .inr ⟨_, by omega, h⟩
    · exact .inl h
    · exact .inl h
  | h2 a b =>
    intro c h
    have := toNat_lt a; have := toNat_lt b
    simp only [encode, List.mem_cons, List.not_mem_nil, or_false] at h
    rcases h with h | h | h | h
    · exact .inr ⟨_, by omega, h⟩
    · exact .inr ⟨_, by omega, h⟩
    · exact .inr ⟨_, by omega, h⟩
    · exact .inl h
  | h3 a b c rest ih =>
    intro x h
    have := toNat_lt a; have := toNat_lt b; have := toNat_lt c
    simp only [encode, List.mem_cons] at h
    rcases h with h | h | h | h | h
    · exact .inr ⟨_, by omega, h⟩
    · exact .inr ⟨_, by omega, h⟩
    · exact .inr ⟨_, by omega, h⟩
    · exact .inr ⟨_, by omega, h⟩
    · exact ih x h

theorem encode_alphabet (bs : Bytes) :
    ∀ c ∈ encode bs, c ≠ ',' ∧ c ≠ '_' ∧ c ≠ ' ' ∧ c ≠ '\r' ∧ c ≠ '\n' ∧ c ≠ '\t' := by
  intro c h
  rcases encode_chars bs c h with rfl | ⟨n, hn, rfl⟩
  · decide
  · exact enc6_alphabet n hn

#print axioms encode_alphabet

/-- The decoder's newline filter leaves encoder output unchanged. -/
theorem filter_encode (bs : Bytes) :
    (encode bs).filter (fun c => !isNewline c) = encode bs := by
  apply List.filter_eq_self.mpr
  intro c h
  rcases encode_chars bs c h with rfl | ⟨n, hn, rfl⟩
  · decide
  · simp [enc6_not_newline n hn]

theorem encode_nonempty (bs : Bytes) : bs ≠ [] → encode bs ≠ [] := by
  intro h
  match bs, h with
  | [_], _ => simp [encode]
  | [_, _], _ => simp [encode]
  | _ :: _ :: _ :: _, _ => simp [encode]

#print axioms encode_nonempty

/-! ### Round trip -/

theorem decodeGroups_encode (bs : Bytes) : decodeGroups (encode bs) = some bs := by
  induction bs using triple_induction with
  | h0 => simp [encode, decodeGroups]
  | h1 a =>
    have := toNat_lt a
    simp [encode, decodeGroups, dec6_enc6 (a.toNat / 4) (by omega),
      dec6_enc6 (a.toNat % 4 * 16) (by omega), byte1_eq']
  | h2 a b =>
    have := toNat_lt a; have := toNat_lt b
    simp [encode, decodeGroups, dec6_enc6 (a.toNat / 4) (by omega),
      dec6_enc6 (a.toNat % 4 * 16 + b.toNat / 16) (by omega),
      dec6_enc6 (b.toNat % 16 * 4) (by omega),
      enc6_ne_pad (b.toNat % 16 * 4) (by omega), byte1_eq, byte2_eq']
  | h3 a b c rest ih =>
    have := toNat_lt a; have := toNat_lt b; have := toNat_lt c
    simp [encode, decodeGroups, ih, dec6_enc6 (a.toNat / 4) (by omega),
      dec6_enc6 (a.toNat % 4 * 16 + b.toNat / 16) (by omega),
      dec6_enc6 (b.toNat % 16 * 4 + c.toNat / 64) (by omega),
      dec6_enc6 (c.toNat % 64) (by omega),
      enc6_ne_pad (b.toNat % 16 * 4 + c.toNat / 64) (by omega),
      enc6_ne_pad (c.toNat % 64) (by omega), byte1_eq, byte2_eq, byte3_eq]

theorem decode_encode (bs : Bytes) : decode (encode bs) = some bs := by
  unfold decode
  rw [filter_encode, decodeGroups_encode]

#print axioms decode_encode

theorem encode_injective {a b : Bytes} : encode a = encode b → a = b := by
  intro h
  have h' := congrArg decode h
  rw [decode_encode, decode_encode] at h'
  exact Option.some.inj h'

#print axioms encode_injective

end Base64
end Macaroon

