/-
Helper proofs about the discharge-client model (`TP/Client.lean`): what a list of options
amounts to, independence of option order, the flow invariants.
-/
import Macaroon.TP.Client

set_option linter.unusedSimpArgs false

namespace Macaroon.Lemmas.Client
open Macaroon.TPClient

/-! ### what an option list amounts to -/

def httpOf : Opt → Option HttpClient
  | .withHTTP h => some h
  | _ => none

def authOf : Opt → Option (Str × Cred)
  | .withAuth k c => some (k, c)
  | _ => none

def ignoredOf : Opt → List Str
  | .withIgnored ls => ls
  | _ => []

def callbackOf : Opt → Option Bool
  | .withCallback b => some b
  | _ => none

/-- the `WithHTTP` options in application order -/
def https (opts : List Opt) : List HttpClient := opts.filterMap httpOf
/-- the (key, credential) pairs of the `WithAuthentication` options in application order -/
def auths (opts : List Opt) : List (Str × Cred) := opts.filterMap authOf
def callbacks (opts : List Opt) : List Bool := opts.filterMap callbackOf

/-- Go map read as an option -/
def lookup? (k : Str) : List (Str × Cred) → Option Cred
  | [] => none
  | (k', v) :: m => if k' = k then some v else lookup? k m

theorem lookup_eq (k : Str) (m : List (Str × Cred)) : lookup k m = (lookup? k m).getD [] := by
  induction m with
  | nil => rfl
  | cons x m ih =>
    obtain ⟨k', v⟩ := x
    by_cases h : k' = k <;> simp [lookup, lookup?, h, ih]

theorem lookup?_append (k : Str) (a b : List (Str × Cred)) :
    lookup? k (a ++ b) = (lookup? k a).or (lookup? k b) := by
  induction a with
  | nil => simp [lookup?]
  | cons x a ih =>
    obtain ⟨k', v⟩ := x
    by_cases h : k' = k <;> simp [lookup?, h, ih]

theorem lookup?_none_iff (k : Str) (m : List (Str × Cred)) :
    lookup? k m = none ↔ ∀ v, (k, v) ∉ m := by
  induction m with
  | nil => simp [lookup?]
  | cons x m ih =>
    obtain ⟨k', v'⟩ := x
    by_cases h : k' = k
    · subst h
      simp only [lookup?, if_true]
      constructor
      · intro h; cases h
      · intro h; exact absurd (List.mem_cons_self) (h v')
    · simp only [lookup?, h, if_false, ih]
      constructor
      · intro hm v hv
        rcases List.mem_cons.mp hv with e | e
        · exact h (by cases e; rfl)
        · exact hm v e
      · intro hm v hv
        exact hm v (List.mem_cons_of_mem _ hv)

/-- the binding in force for `k` after inserting `l` left to right: the last one for `k` -/
theorem lookup?_reverse_iff (k : Str) (l : List (Str × Cred)) (v : Cred) :
    lookup? k l.reverse = some v ↔ ∃ pre post, l = pre ++ (k, v) :: post ∧ ∀ v', (k, v') ∉ post := by
  induction l with
  | nil => simp [lookup?]
  | cons x l ih =>
    obtain ⟨k', v'⟩ := x
    rw [List.reverse_cons, lookup?_append]
    constructor
    · intro h
      cases hl : lookup? k l.reverse with
      | some w =>
        rw [hl] at h
        simp at h
        subst h
        obtain ⟨pre, post, e, hp⟩ := ih.mp hl
        exact ⟨(k', v') :: pre, post, by simp [e], hp⟩
      | none =>
        rw [hl] at h
        by_cases hk : k' = k
        · simp [lookup?, hk] at h
          subst hk; subst h
          refine ⟨[], l, rfl, ?_⟩
          intro w hw
          exact (lookup?_none_iff k' l.reverse).mp hl w (List.mem_reverse.mpr hw)
        · simp [lookup?, hk] at h
    · rintro ⟨pre, post, e, hp⟩
      cases pre with
      | nil =>
        simp at e
        obtain ⟨⟨hk, hv⟩, hl⟩ := e
        subst hk; subst hv; subst hl
        have : lookup? k' l.reverse = none :=
          (lookup?_none_iff k' l.reverse).mpr fun w hw => hp w (List.mem_reverse.mp hw)
        simp [this, lookup?]
      | cons y pre =>
        simp at e
        obtain ⟨_, hl⟩ := e
        have := ih.mpr ⟨pre, post, hl, hp⟩
        simp [this]

/-- the last `WithHTTP` option -/
def lastHTTP (opts : List Opt) : Option HttpClient := (https opts).getLast?

/-- the client state after the options (before `NewClient` fills in defaults) in closed form -/
def Closed (opts : List Opt) (c : Cfg) : Prop :=
  c.fields = (match lastHTTP opts with
    | some h => some (.user h.id)
    | none => if auths opts = [] then none else some .cleanhttp) ∧
  c.inner = (match lastHTTP opts with
    | some h => .ofField h.transport
    | none => if auths opts = [] then .nil else .cleanhttp) ∧
  c.auth = (if auths opts = [] then none else some (auths opts).reverse) ∧
  c.ignored = opts.flatMap ignoredOf ∧
  c.callback = (callbacks opts).getLast?

theorem https_snoc (os : List Opt) (o : Opt) : https (os ++ [o]) = https os ++ (httpOf o).toList := by
  cases h : httpOf o <;> simp [https, List.filterMap_append, h]
theorem auths_snoc (os : List Opt) (o : Opt) : auths (os ++ [o]) = auths os ++ (authOf o).toList := by
  cases h : authOf o <;> simp [auths, List.filterMap_append, h]
theorem callbacks_snoc (os : List Opt) (o : Opt) : callbacks (os ++ [o]) = callbacks os ++ (callbackOf o).toList := by
  cases h : callbackOf o <;> simp [callbacks, List.filterMap_append, h]

theorem lastHTTP_snoc (os : List Opt) (o : Opt) : lastHTTP (os ++ [o]) = (httpOf o).or (lastHTTP os) := by
  cases h : httpOf o <;> simp [lastHTTP, https_snoc, h]

theorem char_snoc (os : List Opt) (o : Opt) (c : Cfg) (h : Closed os c) : Closed (os ++ [o]) (step c o) := by
  obtain ⟨fields, auth, inner, ignored, callback⟩ := c
  obtain ⟨hf, hi, ha, hg, hc⟩ := h
  simp only at hf hi ha hg hc
  subst hf hi ha hg hc
  unfold Closed
  rw [lastHTTP_snoc, auths_snoc, callbacks_snoc]
  generalize lastHTTP os = H
  generalize auths os = A
  cases o <;> cases H <;> cases A <;>
    simp [step, httpOf, authOf, callbackOf, ignoredOf, List.flatMap_append, List.getLast?_append]

theorem char_foldl (opts : List Opt) : Closed opts (opts.foldl step {}) := by
  suffices h : ∀ l : List Opt, Closed l.reverse (l.reverse.foldl step {}) by
    simpa using h opts.reverse
  intro l
  induction l with
  | nil => simp [Closed, lastHTTP, https, auths, callbacks]
  | cons o l ih =>
    rw [List.reverse_cons, List.foldl_append]
    exact char_snoc _ _ _ ih

/-- closed form of `applyOptions` -/
theorem applyOptions_eq (opts : List Opt) :
    applyOptions opts =
      { fields := some (match lastHTTP opts with | some h => .user h.id | none => .cleanhttp)
        inner := (match lastHTTP opts with | some h => .ofField h.transport | none => .cleanhttp)
        auth := if auths opts = [] then none else some (auths opts).reverse
        ignored := opts.flatMap ignoredOf
        callback := (callbacks opts).getLast? } := by
  obtain ⟨hf, hi, ha, hg, hc⟩ := char_foldl opts
  unfold applyOptions
  generalize opts.foldl step {} = c at *
  obtain ⟨fields, auth, inner, ignored, callback⟩ := c
  simp only at hf hi ha hg hc
  subst hf hi ha hg hc
  cases lastHTTP opts <;> by_cases hA : auths opts = [] <;> simp [finalize, hA]

theorem attachHost_applyOptions (opts : List Opt) (host : Str) :
    attachHost (applyOptions opts) host =
      (match lookup? host (auths opts).reverse with
       | some v => if v = [] then none else some v
       | none => none) := by
  rw [applyOptions_eq]
  by_cases hA : auths opts = []
  · simp [attachHost, hA, lookup?]
  · simp only [attachHost, hA, if_false, lookup_eq]
    cases lookup? host (auths opts).reverse <;> simp

/-- decompositions of the option list and of its `withAuth` sub-list correspond -/
theorem auths_split_iff (opts : List Opt) (k : Str) (v : Cred) :
    (∃ pre post, auths opts = pre ++ (k, v) :: post ∧ ∀ v', (k, v') ∉ post) ↔
      ∃ pre post, opts = pre ++ .withAuth k v :: post ∧ ∀ v', Opt.withAuth k v' ∉ post := by
  constructor
  · rintro ⟨pre, post, e, hp⟩
    unfold auths at e
    rw [List.filterMap_eq_append_iff] at e
    obtain ⟨l₁, l₂, rfl, h₁, h₂⟩ := e
    rw [List.filterMap_eq_cons_iff] at h₂
    obtain ⟨m₁, a, m₂, rfl, hm₁, ha, hm₂⟩ := h₂
    cases a <;> simp [authOf] at ha
    obtain ⟨rfl, rfl⟩ := ha
    refine ⟨l₁ ++ m₁, m₂, by simp, ?_⟩
    intro v' hv'
    apply hp v'
    rw [← hm₂]
    exact List.mem_filterMap.mpr ⟨_, hv', rfl⟩
  · rintro ⟨pre, post, rfl, hp⟩
    refine ⟨auths pre, auths post, by simp [auths, List.filterMap_append, authOf], ?_⟩
    intro v' hv'
    obtain ⟨o, ho, e⟩ := List.mem_filterMap.mp hv'
    cases o <;> simp [authOf] at e
    obtain ⟨rfl, rfl⟩ := e
    exact hp _ ho

theorem attach_iff (opts : List Opt) (u : Url) (c : Cred) :
    attach (applyOptions opts) u = some c ↔
      c ≠ [] ∧ ∃ pre post, opts = pre ++ .withAuth u.host c :: post ∧ ∀ c', Opt.withAuth u.host c' ∉ post := by
  unfold attach
  rw [attachHost_applyOptions, ← auths_split_iff, ← lookup?_reverse_iff]
  cases h : lookup? u.host (auths opts).reverse with
  | none => simp
  | some v =>
    by_cases hv : v = []
    · subst hv
      constructor
      · intro h'; simp at h'
      · rintro ⟨hc, e⟩; exact absurd (Option.some.inj e).symm hc
    · constructor
      · intro h'
        simp [hv] at h'
        subst h'
        exact ⟨hv, rfl⟩
      · rintro ⟨_, e⟩
        cases e
        simp [hv]

/-! ### option order -/

def isHTTP : Opt → Bool
  | .withHTTP _ => true
  | _ => false

/-- a `WithAuthentication` option whose key is `k` -/
def isAuthFor (k : Str) : Opt → Bool
  | .withAuth k' _ => k' = k
  | _ => false

theorem https_filter (opts : List Opt) : https (opts.filter isHTTP) = https opts := by
  induction opts with
  | nil => rfl
  | cons o os ih => cases o <;> simp_all [https, isHTTP, httpOf, List.filter_cons, List.filterMap_cons]

theorem auths_filter (k : Str) (opts : List Opt) :
    auths (opts.filter (isAuthFor k)) = (auths opts).filter (fun p => p.1 = k) := by
  induction opts with
  | nil => rfl
  | cons o os ih =>
    cases o with
    | withAuth k' c =>
      by_cases h : k' = k <;> simp_all [auths, isAuthFor, authOf, List.filter_cons, List.filterMap_cons]
    | _ => simp_all [auths, isAuthFor, authOf, List.filter_cons, List.filterMap_cons]

theorem lookup?_filter (k : Str) (m : List (Str × Cred)) :
    lookup? k (m.filter (fun p => p.1 = k)) = lookup? k m := by
  induction m with
  | nil => rfl
  | cons x m ih =>
    obtain ⟨k', v⟩ := x
    by_cases h : k' = k <;> simp [List.filter_cons, lookup?, h, ih]

theorem lookup?_congr (k : Str) (a b : List (Str × Cred))
    (h : a.filter (fun p => p.1 = k) = b.filter (fun p => p.1 = k)) :
    lookup? k a.reverse = lookup? k b.reverse := by
  rw [← lookup?_filter k a.reverse, ← lookup?_filter k b.reverse, List.filter_reverse, List.filter_reverse, h]

/-- two option lists with the same `WithHTTP` subsequence and, per host key, the same
`WithAuthentication` subsequence configure the same transport -/
theorem order_irrelevant (o₁ o₂ : List Opt)
    (hH : o₁.filter isHTTP = o₂.filter isHTTP)
    (hA : ∀ k, o₁.filter (isAuthFor k) = o₂.filter (isAuthFor k)) :
    (∀ host, attachHost (applyOptions o₁) host = attachHost (applyOptions o₂) host) ∧
    innerUsed (applyOptions o₁) = innerUsed (applyOptions o₂) ∧
    (applyOptions o₁).fields = (applyOptions o₂).fields := by
  have hL : lastHTTP o₁ = lastHTTP o₂ := by
    unfold lastHTTP
    rw [← https_filter o₁, ← https_filter o₂, hH]
  refine ⟨?_, ?_, ?_⟩
  · intro host
    rw [attachHost_applyOptions, attachHost_applyOptions]
    rw [lookup?_congr host (auths o₁) (auths o₂)]
    rw [← auths_filter, ← auths_filter, hA]
  · simp [applyOptions_eq, innerUsed, hL]
  · simp [applyOptions_eq, hL]

theorem ignored_perm (o₁ o₂ : List Opt) (h : o₁.Perm o₂) (l : Str) :
    l ∈ (applyOptions o₁).ignored ↔ l ∈ (applyOptions o₂).ignored := by
  simp only [applyOptions_eq, List.mem_flatMap]
  constructor
  · rintro ⟨o, ho, hl⟩; exact ⟨o, h.mem_iff.mp ho, hl⟩
  · rintro ⟨o, ho, hl⟩; exact ⟨o, h.mem_iff.mpr ho, hl⟩

/-! ### flows -/

/-- nothing carried over in the caller's request object -/
def Clean (st : St) : Prop := st.hdr = none ∧ st.snap = none

theorem send_clean (cfg : Cfg) (st : St) (h : Clean st) :
    (send false cfg st).1.auth = attach cfg st.u ∧ (send false cfg st).1.url = st.u ∧
    (send false cfg st).2 = none ∧
    ((send false cfg st).1.basic = true → attach cfg st.u = none ∧ st.u.hasUser = true) := by
  obtain ⟨h1, h2⟩ := h
  have hb : (if st.hop = 0 then st.hdr else if st.strip then none else st.snap) = none := by
    rw [h1, h2]; split <;> simp
  simp only [send]
  rw [hb]
  cases attach cfg st.u <;> simp [h1]

theorem clean_startDo (k : Kind) (p : Option Url) (u : Url) : Clean (startDo k p u none) := ⟨rfl, rfl⟩

/-- with a `RoundTrip` that leaves the caller's request alone, every request of a flow carries
exactly what `attach` says for its own URL -/
theorem run_through_attach (cfg : Cfg) (script : List Resp) :
    ∀ st, Clean st → ∀ s ∈ (run false cfg st script).1,
      s.auth = attach cfg s.url ∧ (s.basic = true → attach cfg s.url = none ∧ s.url.hasUser = true) := by
  induction script with
  | nil =>
    intro st hc s hs
    simp only [run, List.mem_singleton] at hs
    subst hs
    obtain ⟨a, b, _, d⟩ := send_clean cfg st hc
    exact ⟨by rw [a, b], by rw [b]; exact d⟩
  | cons r rs ih =>
    intro st hc s hs
    obtain ⟨a, b, c, d⟩ := send_clean cfg st hc
    have hhead : ∀ s, s = (send false cfg st).1 →
        s.auth = attach cfg s.url ∧ (s.basic = true → attach cfg s.url = none ∧ s.url.hasUser = true) := by
      intro s e; subst e; exact ⟨by rw [a, b], by rw [b]; exact d⟩
    simp only [run] at hs
    split at hs
    · exact hhead s (by simpa using hs)
    · split at hs
      · exact hhead s (by simpa using hs)
      · split at hs
        · exact hhead s (by simpa using hs)
        · exact hhead s (by simpa using hs)
        · split at hs
          · exact hhead s (by simpa using hs)
          · rcases List.mem_cons.mp hs with e | e
            · exact hhead s e
            · refine ih _ ?_ s e
              exact ⟨by simpa using c, hc.2⟩
    · split at hs
      · rcases List.mem_cons.mp hs with e | e
        · exact hhead s e
        · refine ih _ ?_ s e
          rw [c]; exact clean_startDo _ _ _
      · exact hhead s (by simpa using hs)
    · split at hs
      · exact hhead s (by simpa using hs)
      · split at hs
        · exact hhead s (by simpa using hs)
        · split at hs
          · exact hhead s (by simpa using hs)
          · exact hhead s (by simpa using hs)
          · rcases List.mem_cons.mp hs with e | e
            · exact hhead s e
            · exact ih _ (clean_startDo _ _ _) s e

theorem flow_through_attach (cfg : Cfg) (loc : Str) (script : List Resp) :
    ∀ s ∈ (flow false cfg loc script).1,
      s.auth = attach cfg s.url ∧ (s.basic = true → attach cfg s.url = none ∧ s.url.hasUser = true) := by
  intro s hs
  unfold flow at hs
  split at hs
  · simp at hs
  · simp at hs
  · exact run_through_attach cfg script _ (clean_startDo _ _ _) s hs

/-! ### where request URLs come from -/

/-- the URLs a scripted response hands to the client: Location, poll_url, user_interactive.poll_url -/
def mentionedOf : Resp → List Str
  | .redirect loc => [loc]
  | .json b => b.pollUrl :: (match b.ui with | some (p, _) => [p] | none => [])
  | _ => []

def mentioned (script : List Resp) : List Str := script.flatMap mentionedOf

theorem Url.parse_raw {s : Str} {u : Url} (h : Url.parse s = .ok u) : u.raw = s := by
  unfold Url.parse at h
  split at h <;> simp at h
  subst h; rfl

theorem afterInit_poll {cfg : Cfg} {b : Body} {p : Str} (h : afterInit cfg b = .poll p) :
    p ∈ mentionedOf (.json b) := by
  unfold afterInit at h
  simp only [mentionedOf]
  split at h
  · cases h
  · split at h
    · cases h
    · split at h
      · cases h; simp
      · split at h
        · cases h
        · rename_i p' uu hui
          split at h
          · cases h
          · split at h
            · cases h; simp [hui]
            · cases h

theorem send_url (mu : Bool) (cfg : Cfg) (st : St) : (send mu cfg st).1.url = st.u := rfl

def Prov (S : Str → Prop) (st : St) : Prop := S st.u.raw ∧ ∀ p, st.pollUrl = some p → S p.raw

theorem run_provenance (mu : Bool) (cfg : Cfg) (S : Str → Prop) (script : List Resp) :
    (∀ x ∈ mentioned script, S x) → ∀ st, Prov S st → ∀ s ∈ (run mu cfg st script).1, S s.url.raw := by
  induction script with
  | nil =>
    intro _ st hp s hs
    simp only [run, List.mem_singleton] at hs
    subst hs
    rw [send_url]; exact hp.1
  | cons r rs ih =>
    intro hS st hp s hs
    have hS' : ∀ x ∈ mentioned rs, S x := fun x hx => hS x (by simp [mentioned] at hx ⊢; exact Or.inr hx)
    have hr : ∀ x ∈ mentionedOf r, S x := fun x hx => hS x (by simp [mentioned]; exact Or.inl hx)
    have hhead : ∀ s, s = (send mu cfg st).1 → S s.url.raw := by
      intro s e; subst e; rw [send_url]; exact hp.1
    simp only [run] at hs
    split at hs
    · exact hhead s (by simpa using hs)
    · rename_i loc
      split at hs
      · exact hhead s (by simpa using hs)
      · split at hs
        · exact hhead s (by simpa using hs)
        · exact hhead s (by simpa using hs)
        · rename_i u' hu'
          split at hs
          · exact hhead s (by simpa using hs)
          · rcases List.mem_cons.mp hs with e | e
            · exact hhead s e
            · refine ih hS' _ ?_ s e
              refine ⟨?_, hp.2⟩
              show S u'.raw
              rw [Url.parse_raw hu']
              exact hr loc (by simp [mentionedOf])
    · split at hs
      · rename_i p hk hpu
        rcases List.mem_cons.mp hs with e | e
        · exact hhead s e
        · refine ih hS' _ ?_ s e
          have := hp.2 p hpu
          exact ⟨this, fun q hq => by cases hq; exact this⟩
      · exact hhead s (by simpa using hs)
    · rename_i b
      split at hs
      · exact hhead s (by simpa using hs)
      · split at hs
        · exact hhead s (by simpa using hs)
        · rename_i p hai
          split at hs
          · exact hhead s (by simpa using hs)
          · exact hhead s (by simpa using hs)
          · rename_i pu hpu
            rcases List.mem_cons.mp hs with e | e
            · exact hhead s e
            · refine ih hS' _ ?_ s e
              have : S pu.raw := by
                rw [Url.parse_raw hpu]
                exact hr p (afterInit_poll hai)
              exact ⟨this, fun q hq => by cases hq; exact this⟩

theorem flow_provenance (mu : Bool) (cfg : Cfg) (loc : Str) (script : List Resp) :
    ∀ s ∈ (flow mu cfg loc script).1, s.url.raw = initURL loc ∨ s.url.raw ∈ mentioned script := by
  intro s hs
  unfold flow at hs
  split at hs
  · simp at hs
  · simp at hs
  · rename_i u hu
    refine run_provenance mu cfg (fun x => x = initURL loc ∨ x ∈ mentioned script) script
      (fun x hx => Or.inr hx) _ ?_ s hs
    exact ⟨Or.inl (Url.parse_raw hu), fun p hp => by cases hp⟩

/-! ### `FetchDischargeTokens` -/

theorem fetch_flows_mem {mu : Bool} {cfg : Cfg} {stripped : Bool} {kept : List Str} {tickets : List (Str × List Nat)}
    {toks : Str → Option (List Str)} {script : Str → Nat → List Resp} {f : FlowResult}
    (hf : f ∈ (fetch mu cfg stripped kept tickets toks script).flows) :
    (∃ ts, (f.loc, ts) ∈ tickets ∧ f.ticket ∈ ts) ∧ f.loc ∉ cfg.ignored ∧
      f.sent = (flow mu cfg f.loc (script f.loc f.ticket)).1 ∧
      f.outcome = (flow mu cfg f.loc (script f.loc f.ticket)).2 := by
  simp only [fetch, List.mem_map] at hf
  obtain ⟨lt, hlt, rfl⟩ := hf
  simp only [flowsOf, undischargedTickets, List.mem_flatMap, List.mem_filter, List.mem_map] at hlt
  obtain ⟨e, ⟨he, hign⟩, t, ht, rfl⟩ := hlt
  refine ⟨⟨e.2, he, ht⟩, ?_, rfl, rfl⟩
  simpa using hign

/-- `Bundle.Header()` vs `Bundle.String()`: the scheme is written iff asked for and there is a token -/
theorem header_eq (stripped : Bool) (all : List Str) :
    (if stripped then tokensHeader all else tokensString all) =
      (if stripped && !all.isEmpty then flyV1Prefix else []) ++ tokensString all := by
  cases stripped
  · simp
  · cases all with
    | nil => simp [tokensHeader, tokensString, intercalateStr]
    | cons x xs => simp [tokensHeader]

/-! ### `net/url`: the host of a URL assembled from components -/

theorem cut_spec (d : Char) (s : Str) :
    (∀ a b, cut d s = (a, some b) → s = a ++ d :: b ∧ d ∉ a) ∧ (∀ a, cut d s = (a, none) → s = a ∧ d ∉ a) := by
  induction s with
  | nil => simp [cut]
  | cons c cs ih =>
    by_cases h : c = d
    · subst h
      simp [cut]
    · simp only [cut, h, if_false]
      constructor
      · intro a b e
        cases hc : cut d cs with
        | mk x y =>
          rw [hc] at e
          simp at e
          obtain ⟨rfl, rfl⟩ := e
          obtain ⟨e1, e2⟩ := ih.1 x b hc
          exact ⟨by simp [e1], by simp [e2, Ne.symm h]⟩
      · intro a e
        cases hc : cut d cs with
        | mk x y =>
          rw [hc] at e
          simp at e
          obtain ⟨rfl, rfl⟩ := e
          obtain ⟨e1, e2⟩ := ih.2 x hc
          exact ⟨by simp [← e1], by simp [e2, Ne.symm h]⟩

theorem cut_not_mem {d : Char} {a : Str} (h : d ∉ a) : cut d a = (a, none) := by
  induction a with
  | nil => rfl
  | cons c cs ih =>
    have hc : c ≠ d := fun e => h (by simp [e])
    have : d ∉ cs := fun e => h (List.mem_cons_of_mem _ e)
    simp [cut, hc, ih this]

theorem cut_append {d : Char} {a : Str} (b : Str) (h : d ∉ a) : cut d (a ++ d :: b) = (a, some b) := by
  induction a with
  | nil => simp [cut]
  | cons c cs ih =>
    have hc : c ≠ d := fun e => h (by simp [e])
    have : d ∉ cs := fun e => h (List.mem_cons_of_mem _ e)
    simp [cut, hc, ih this]

theorem cutLast_not_mem {d : Char} {a : Str} (h : d ∉ a) : cutLast d a = none := by
  unfold cutLast
  rw [cut_not_mem (by simpa using h)]

theorem cutLast_append {d : Char} (a : Str) {b : Str} (h : d ∉ b) : cutLast d (a ++ d :: b) = some (a, b) := by
  unfold cutLast
  rw [List.reverse_append, List.reverse_cons, List.append_assoc, List.singleton_append,
    cut_append _ (by simpa using h)]
  simp

theorem cutLast_some {d : Char} {s b a : Str} (h : cutLast d s = some (b, a)) : s = b ++ d :: a ∧ d ∉ a := by
  unfold cutLast at h
  cases hc : cut d s.reverse with
  | mk x y =>
    rw [hc] at h
    cases y with
    | none => simp at h
    | some y =>
      simp at h
      obtain ⟨rfl, rfl⟩ := h
      obtain ⟨e1, e2⟩ := (cut_spec d s.reverse).1 x y hc
      have := congrArg List.reverse e1
      simp at this
      exact ⟨this, by simpa using e2⟩

theorem all_not_mem {cls : Char → Bool} {l : Str} {d : Char} (h : l.all cls = true) (hd : cls d = false) : d ∉ l := by
  intro hm
  have := List.all_eq_true.mp h d hm
  rw [hd] at this
  cases this

/-- the host component: a registered name / IPv4 address, or a bracketed IP literal -/
inductive HostC
  | reg (h : Str)
  | ip6 (addr : Str)

def HostC.text : HostC → Str
  | .reg h => h
  | .ip6 a => '[' :: a ++ [']']

/-- what `Hostname()` is expected to return -/
def HostC.name : HostC → Str
  | .reg h => h
  | .ip6 a => a

def HostC.WF : HostC → Prop
  | .reg h => h.all hostCharOK = true ∧ ':' ∉ h ∧ h.head? ≠ some '['
  | .ip6 a => a.all hostCharOK = true ∧ ']' ∉ a

/-- `scheme://[userinfo@]host[:port][/path][?query][#fragment]` -/
structure Parts where
  scheme : Str
  user : Option Str
  host : HostC
  port : Option Str
  path : Str
  query : Option Str
  frag : Option Str

namespace Parts

def portText (p : Parts) : Str := match p.port with | some d => ':' :: d | none => []
def hostPort (p : Parts) : Str := p.host.text ++ p.portText
def userText (p : Parts) : Str := match p.user with | some u => u ++ ['@'] | none => []
def auth (p : Parts) : Str := p.userText ++ p.hostPort
def qtext (p : Parts) : Str := match p.query with | some q => '?' :: q | none => []
def ftext (p : Parts) : Str := match p.frag with | some f => '#' :: f | none => []
def noFrag (p : Parts) : Str := p.scheme ++ ':' :: '/' :: '/' :: (p.auth ++ p.path ++ p.qtext)
def build (p : Parts) : Str := p.noFrag ++ p.ftext

/-- the component alphabets `net/url` accepts -/
structure WF (p : Parts) : Prop where
  scheme : ∃ c cs, p.scheme = c :: cs ∧ isAlpha c = true ∧ cs.all isSchemeChar = true
  user : ∀ u, p.user = some u → userinfoOK u = true
  host : p.host.WF
  port : ∀ d, p.port = some d → d.all isDigit = true
  path : (p.path = [] ∨ ∃ t, p.path = '/' :: t) ∧ '?' ∉ p.path ∧ '#' ∉ p.path ∧ pctOK p.path = true
  query : ∀ q, p.query = some q → '#' ∉ q
  frag : ∀ f, p.frag = some f → pctOK f = true
  noCTL : p.noFrag.any isCTL = false

end Parts

theorem schemeLoop_false (cs rest : Str) (h : cs.all isSchemeChar = true) :
    schemeLoop false (cs ++ ':' :: rest) = some (some (cs, rest)) := by
  induction cs with
  | nil => simp [schemeLoop, isAlpha]; decide
  | cons c cs ih =>
    simp only [List.all_cons, Bool.and_eq_true] at h
    obtain ⟨hc, hcs⟩ := h
    simp only [List.cons_append, schemeLoop, ih hcs]
    by_cases ha : isAlpha c = true
    · simp [ha]
    · have : (isDigit c || c == '+' || c == '-' || c == '.') = true := by
        simp only [isSchemeChar, Bool.or_assoc] at hc
        simp only [Bool.not_eq_true] at ha
        simpa [ha, Bool.or_assoc] using hc
      simp [ha, this]

theorem schemeLoop_true (c : Char) (cs rest : Str) (hc : isAlpha c = true) (h : cs.all isSchemeChar = true) :
    schemeLoop true (c :: cs ++ ':' :: rest) = some (some (c :: cs, rest)) := by
  simp [schemeLoop, hc, schemeLoop_false cs rest h]

theorem all_digit_hostOK {d : Str} (h : d.all isDigit = true) : d.all hostCharOK = true := by
  rw [List.all_eq_true] at *
  exact fun c hc => by simp [hostCharOK, h c hc]

namespace Parts

theorem portText_all {p : Parts} (hw : p.WF) : p.portText.all hostCharOK = true := by
  unfold portText
  cases hp : p.port with
  | none => rfl
  | some d =>
    simp only [List.all_cons, all_digit_hostOK (hw.port d hp), Bool.and_true]
    decide

theorem portText_valid {p : Parts} (hw : p.WF) : validOptionalPort p.portText = true := by
  unfold portText
  cases hp : p.port with
  | none => rfl
  | some d => simp [validOptionalPort, hw.port d hp]

theorem hostText_all {p : Parts} (hw : p.WF) : p.host.text.all hostCharOK = true := by
  have := hw.host
  cases hh : p.host with
  | reg h => rw [hh] at this; exact this.1
  | ip6 a =>
    rw [hh] at this
    simp only [HostC.text, List.all_cons, List.all_append, this.1, List.all_nil, Bool.and_true, Bool.true_and]
    decide

theorem hostPort_all {p : Parts} (hw : p.WF) : p.hostPort.all hostCharOK = true := by
  simp [hostPort, List.all_append, hostText_all hw, portText_all hw]

theorem colon_not_mem_port {p : Parts} (hw : p.WF) (d : Str) (hp : p.port = some d) : ':' ∉ d :=
  all_not_mem (hw.port d hp) (by decide)

theorem portText_head {p : Parts} : p.portText.head? ≠ some '[' := by
  unfold portText
  cases p.port <;> simp

/-- a registered name followed by the port text does not start with a bracket -/
theorem reg_head {h : Str} (hbr : h.head? ≠ some '[') {p : Parts} : (h ++ p.portText).head? ≠ some '[' := by
  cases h with
  | nil => simpa using portText_head
  | cons c cs => simpa using hbr

theorem hostPortOK_hostPort {p : Parts} (hw : p.WF) : hostPortOK p.hostPort = true := by
  unfold hostPortOK
  have hh := hw.host
  unfold hostPort
  cases hhost : p.host with
  | reg h =>
    rw [hhost] at hh
    obtain ⟨_, hcolon, hbr⟩ := hh
    simp only [HostC.text, reg_head hbr, if_false]
    cases hp : p.port with
    | none =>
      simp only [portText, hp, List.append_nil, cutLast_not_mem hcolon]
    | some d =>
      simp only [portText, hp, cutLast_append h (colon_not_mem_port hw d hp)]
      simp [validOptionalPort, hw.port d hp]
  | ip6 a =>
    rw [hhost] at hh
    obtain ⟨_, hbr⟩ := hh
    have hnp : ']' ∉ p.portText := all_not_mem (cls := fun c => c == ':' || isDigit c) (by
      unfold portText
      cases hp : p.port with
      | none => rfl
      | some d =>
        simp only [List.all_cons, beq_self_eq_true, Bool.true_or, Bool.true_and]
        rw [List.all_eq_true] at *
        intro c hc
        simp [(List.all_eq_true.mp (hw.port d hp)) c hc]) (by decide)
    have e : HostC.text (.ip6 a) ++ p.portText = ('[' :: a) ++ ']' :: p.portText := by simp [HostC.text]
    have hhead : (HostC.text (.ip6 a) ++ p.portText).head? = some '[' := by simp [HostC.text]
    simp only [hhead, if_true]
    rw [e, cutLast_append _ hnp]
    simp [portText_valid hw]

theorem parseHost_hostPort {p : Parts} (hw : p.WF) : parseHost p.hostPort = .ok p.hostPort := by
  have hall := hostPort_all hw
  have hpct : '%' ∉ p.hostPort := all_not_mem hall (by decide)
  simp [parseHost, hpct, hall, hostPortOK_hostPort hw]

end Parts

namespace Parts

theorem hostnameOfHost_hostPort {p : Parts} (hw : p.WF) : hostnameOfHost p.hostPort = p.host.name := by
  have hh := hw.host
  unfold hostnameOfHost hostPort
  cases hhost : p.host with
  | reg h =>
    rw [hhost] at hh
    obtain ⟨_, hcolon, hbr⟩ := hh
    simp only [HostC.text, HostC.name]
    cases hp : p.port with
    | none =>
      simp only [portText, hp, List.append_nil, cutLast_not_mem hcolon]
      simp [hbr]
    | some d =>
      simp only [portText, hp, cutLast_append h (colon_not_mem_port hw d hp), hw.port d hp, if_true]
      simp [hbr]
  | ip6 a =>
    rw [hhost] at hh
    obtain ⟨_, hbr⟩ := hh
    simp only [HostC.text, HostC.name]
    have hstrip : (if (('[' :: a ++ [']'] : Str).head? = some '[' && ('[' :: a ++ [']'] : Str).getLast? = some ']') = true
        then (('[' :: a ++ [']'] : Str).drop 1).dropLast else ('[' :: a ++ [']'] : Str)) = a := by
      have e : ('[' :: a ++ [']'] : Str) = ('[' :: a) ++ [']'] := rfl
      have h1 : ('[' :: a ++ [']'] : Str).getLast? = some ']' := by rw [e, List.getLast?_append]; simp
      have h2 : ('[' :: a ++ [']'] : Str).head? = some '[' := rfl
      rw [h1, h2]
      simp
    cases hp : p.port with
    | none =>
      simp only [portText, hp, List.append_nil]
      cases hc : cutLast ':' ('[' :: a ++ [']']) with
      | none => exact hstrip
      | some ba =>
        obtain ⟨b, af⟩ := ba
        obtain ⟨e, _⟩ := cutLast_some hc
        have hnd : af.all isDigit = false := by
          have e' := congrArg List.reverse e
          simp only [List.reverse_cons, List.reverse_append, List.reverse_nil, List.nil_append,
            List.singleton_append, List.cons_append, List.append_assoc] at e'
          cases har : af.reverse with
          | nil => rw [har] at e'; simp at e'
          | cons x xs =>
            rw [har] at e'
            simp at e'
            have : ']' ∈ af := by
              rw [← List.mem_reverse, har, ← e'.1]; simp
            apply Bool.eq_false_iff.mpr
            intro hall
            have := List.all_eq_true.mp hall ']' this
            revert this; decide
        simp only [hnd, Bool.false_eq_true, if_false]
        exact hstrip
    | some d =>
      have e2 : ('[' :: a ++ [']'] ++ ':' :: d : Str) = ('[' :: a ++ [']']) ++ ':' :: d := by simp
      simp only [portText, hp]
      rw [e2, cutLast_append _ (colon_not_mem_port hw d hp)]
      simp only [hw.port d hp, if_true]
      exact hstrip

theorem at_not_mem_hostPort {p : Parts} (hw : p.WF) : '@' ∉ p.hostPort := all_not_mem (hostPort_all hw) (by decide)

theorem parseAuthority_auth {p : Parts} (hw : p.WF) :
    parseAuthority p.scheme p.auth = .ok ⟨p.scheme, p.user, p.hostPort⟩ := by
  unfold parseAuthority auth userText
  cases hu : p.user with
  | none =>
    simp only [List.nil_append, cutLast_not_mem (at_not_mem_hostPort hw), parseHost_hostPort hw]
  | some u =>
    have e : u ++ ['@'] ++ p.hostPort = u ++ '@' :: p.hostPort := by simp
    rw [e, cutLast_append u (at_not_mem_hostPort hw)]
    simp only [parseHost_hostPort hw, hw.user u hu, if_true]

end Parts

namespace Parts

theorem userinfo_all {p : Parts} (hw : p.WF) (u : Str) (hu : p.user = some u) : u.all userinfoCharOK = true := by
  have := hw.user u hu
  unfold userinfoOK at this
  simp only [Bool.and_eq_true] at this
  exact this.1

/-- a character that neither the userinfo nor the host alphabet contains is not in the authority -/
theorem not_mem_auth {p : Parts} (hw : p.WF) (d : Char) (h1 : userinfoCharOK d = false) (h2 : hostCharOK d = false) :
    d ∉ p.auth := by
  unfold auth userText
  have hhp : d ∉ p.hostPort := all_not_mem (hostPort_all hw) h2
  cases hu : p.user with
  | none => simpa using hhp
  | some u =>
    have : d ∉ u := all_not_mem (userinfo_all hw u hu) h1
    have hd : d ≠ '@' := by
      intro e; subst e; revert h1; decide
    simp [this, hhp, hd]

theorem cut_query {p : Parts} (hw : p.WF) :
    (cut '?' ('/' :: '/' :: (p.auth ++ p.path ++ p.qtext))).1 = '/' :: '/' :: (p.auth ++ p.path) := by
  have hq : '?' ∉ ('/' :: '/' :: (p.auth ++ p.path) : Str) := by
    have h1 := not_mem_auth hw '?' (by decide) (by decide)
    have h2 := hw.path.2.1
    simp [h1, h2]
  unfold qtext
  cases p.query with
  | none => simp only [List.append_nil]; rw [cut_not_mem hq]
  | some q =>
    have e : ('/' :: '/' :: (p.auth ++ p.path ++ '?' :: q) : Str) = ('/' :: '/' :: (p.auth ++ p.path)) ++ '?' :: q := by simp
    rw [e, cut_append q hq]

theorem cut_path {p : Parts} (hw : p.WF) :
    (cut '/' (p.auth ++ p.path) = (p.auth, none) ∧ p.path = []) ∨
    ∃ t, cut '/' (p.auth ++ p.path) = (p.auth, some t) ∧ p.path = '/' :: t := by
  have hs : '/' ∉ p.auth := not_mem_auth hw '/' (by decide) (by decide)
  rcases hw.path.1 with e | ⟨t, e⟩
  · left; rw [e, List.append_nil, cut_not_mem hs]; exact ⟨rfl, rfl⟩
  · right; exact ⟨t, by rw [e, cut_append t hs], e⟩

theorem parseNoFrag_noFrag {p : Parts} (hw : p.WF) : parseNoFrag p.noFrag = .ok ⟨p.scheme, p.user, p.hostPort⟩ := by
  obtain ⟨c, cs, hs, hc, hcs⟩ := hw.scheme
  have hne : p.scheme ≠ [] := by rw [hs]; simp
  have hstar : p.noFrag ≠ ['*'] := by
    unfold noFrag; rw [hs]; simp
  have hloop : schemeLoop true p.noFrag = some (some (p.scheme, '/' :: '/' :: (p.auth ++ p.path ++ p.qtext))) := by
    unfold noFrag
    rw [hs]
    exact schemeLoop_true c cs _ hc hcs
  unfold parseNoFrag
  simp only [hw.noCTL, Bool.false_eq_true, if_false, hstar, hloop, cut_query hw]
  have h1 : (('/' :: '/' :: (p.auth ++ p.path) : Str).head? != some '/') = false := by simp
  have h2 : startsWith2 ('/' :: '/' :: (p.auth ++ p.path)) = true := by simp [startsWith2, List.isPrefixOf]
  simp only [h1, Bool.false_and, Bool.false_eq_true, if_false, h2, Bool.and_true, hne, ne_eq, not_false_eq_true,
    decide_true, Bool.true_or, if_true, List.drop_succ_cons, List.drop_zero]
  have hp := hw.path.2.2.2
  rcases cut_path hw with ⟨e1, e2⟩ | ⟨t, e1, e2⟩
  · rw [e1]; simp only [parseAuthority_auth hw]; simp [pctOK]
  · rw [e1]; simp only [parseAuthority_auth hw]; rw [e2] at hp; simp [hp]

theorem parse_build {p : Parts} (hw : p.WF) : parse p.build = .ok ⟨p.scheme, p.user, p.hostPort⟩ := by
  have hh : '#' ∉ p.noFrag := by
    obtain ⟨c, cs, hs, hc, hcs⟩ := hw.scheme
    have h0 : '#' ∉ p.scheme := by
      rw [hs]
      have : (c :: cs).all isSchemeChar = true := by
        simp only [List.all_cons, hcs, Bool.and_true]
        simp [isSchemeChar, hc]
      exact all_not_mem this (by decide)
    have h1 := not_mem_auth hw '#' (by decide) (by decide)
    have h2 := hw.path.2.2.1
    have h3 : '#' ∉ p.qtext := by
      unfold qtext
      cases hq : p.query with
      | none => simp
      | some q => simp [hw.query q hq]
    unfold noFrag
    simp [h0, h1, h2, h3]
  unfold parse build ftext
  cases hf : p.frag with
  | none =>
    simp only [List.append_nil, cut_not_mem hh, parseNoFrag_noFrag hw]
  | some f =>
    simp only [cut_append f hh, parseNoFrag_noFrag hw, hw.frag f hf, if_true]

end Parts

/-- `url.Parse(s).Hostname()` of an assembled URL is the host component, verbatim -/
theorem hostname_build (p : Parts) (hw : p.WF) : hostname p.build = .host p.host.name := by
  simp [hostname, Parts.parse_build hw, Parts.hostnameOfHost_hostPort hw]

theorem Url.parse_build (p : Parts) (hw : p.WF) :
    Url.parse p.build = .ok ⟨p.build, p.host.name, p.user.isSome, true⟩ := by
  have hne : p.scheme ≠ [] := by
    obtain ⟨c, cs, hs, _, _⟩ := hw.scheme
    rw [hs]; simp
  simp [Url.parse, Parts.parse_build hw, Parts.hostnameOfHost_hostPort hw, hne]

theorem hostOf_build (p : Parts) (hw : p.WF) : hostOf p.build = some p.host.name := by
  have hne : p.scheme ≠ [] := by
    obtain ⟨c, cs, hs, _, _⟩ := hw.scheme
    rw [hs]; simp
  simp [hostOf, Parts.parse_build hw, Parts.hostnameOfHost_hostPort hw, hne]

theorem pctOK_cons_ne (c : Char) (rest : Str) (hc : c ≠ '%') : pctOK (c :: rest) = pctOK rest := by
  conv => lhs; unfold pctOK
  simp [hc]

theorem pctOK_pct3 (x y : Char) (r : Str) : pctOK ('%' :: x :: y :: r) = (isHexC x && isHexC y && pctOK r) := rfl
theorem pctOK_pct1 : pctOK ['%'] = false := rfl
theorem pctOK_pct2 (x : Char) : pctOK ['%', x] = false := rfl

theorem pctOK_append_aux (b : Str) (hb : pctOK b = true) :
    ∀ n (a : Str), a.length ≤ n → pctOK a = true → pctOK (a ++ b) = true := by
  intro n
  induction n with
  | zero =>
    intro a hl _
    have : a = [] := List.eq_nil_of_length_eq_zero (by omega)
    subst this; simpa using hb
  | succ n ih =>
    intro a hl ha
    cases a with
    | nil => simpa using hb
    | cons c rest =>
      by_cases hc : c = '%'
      · subst hc
        cases rest with
        | nil => rw [pctOK_pct1] at ha; cases ha
        | cons x r1 =>
          cases r1 with
          | nil => rw [pctOK_pct2] at ha; cases ha
          | cons y r2 =>
            rw [pctOK_pct3] at ha
            simp only [Bool.and_eq_true] at ha
            rw [List.cons_append, List.cons_append, List.cons_append, pctOK_pct3, ha.1.1, ha.1.2,
              ih r2 (by simp at hl; omega) ha.2]
            rfl
      · rw [pctOK_cons_ne c rest hc] at ha
        rw [List.cons_append, pctOK_cons_ne c _ hc]
        exact ih rest (by simp at hl; omega) ha

theorem pctOK_append (a b : Str) (ha : pctOK a = true) (hb : pctOK b = true) : pctOK (a ++ b) = true :=
  pctOK_append_aux b hb a.length a (Nat.le_refl _) ha


/-! ### the init URL of an assembled location -/

namespace Parts

/-- what `initURL` appends: `InitPath`, without its leading slash when the location ends in one -/
def initSuffix (p : Parts) : Str := if p.path.getLast? = some '/' then initPath.drop 1 else initPath

def withInit (p : Parts) : Parts := { p with path := p.path ++ p.initSuffix }

theorem build_split (p : Parts) (hq : p.query = none) (hf : p.frag = none) :
    p.build = (p.scheme ++ ':' :: '/' :: '/' :: p.userText) ++ p.hostPort ++ p.path := by
  simp [build, noFrag, auth, qtext, ftext, hq, hf]

theorem build_getLast (p : Parts) (hw : p.WF) (hq : p.query = none) (hf : p.frag = none) (hne : p.hostPort ≠ []) :
    (p.build.getLast? = some '/') ↔ (p.path.getLast? = some '/') := by
  rw [build_split p hq hf, List.getLast?_append]
  cases hp : p.path.getLast? with
  | some c => simp
  | none =>
    have hpe : p.path = [] := by simpa using hp
    simp only [Option.none_or]
    rw [List.getLast?_append]
    cases hl : p.hostPort.getLast? with
    | none => exact absurd (by simpa using hl) hne
    | some c =>
      have hc : c ∈ p.hostPort := List.mem_of_getLast? hl
      have : c ≠ '/' := by
        intro e; subst e
        exact all_not_mem (hostPort_all hw) (by decide) hc
      simp [this]

theorem initURL_build (p : Parts) (hw : p.WF) (hq : p.query = none) (hf : p.frag = none) (hne : p.hostPort ≠ []) :
    initURL p.build = p.withInit.build := by
  have e1 : p.withInit.build = p.build ++ p.initSuffix := by
    simp [withInit, build, noFrag, auth, userText, hostPort, portText, qtext, ftext, hq, hf]
  rw [e1]
  unfold initURL initSuffix
  by_cases h : p.path.getLast? = some '/'
  · simp [h, (build_getLast p hw hq hf hne).mpr h]
  · have : ¬ p.build.getLast? = some '/' := fun h' => h ((build_getLast p hw hq hf hne).mp h')
    simp [h, this]

theorem withInit_wf (p : Parts) (hw : p.WF) (hq : p.query = none) (hf : p.frag = none) : p.withInit.WF := by
  have hsfx : p.initSuffix = initPath ∨ p.initSuffix = initPath.drop 1 := by
    unfold initSuffix; split <;> simp
  have hq' : '?' ∉ p.initSuffix := by rcases hsfx with e | e <;> rw [e] <;> decide
  have hh' : '#' ∉ p.initSuffix := by rcases hsfx with e | e <;> rw [e] <;> decide
  have hp' : pctOK p.initSuffix = true := by rcases hsfx with e | e <;> rw [e] <;> decide
  have hc' : p.initSuffix.any isCTL = false := by rcases hsfx with e | e <;> rw [e] <;> decide
  refine ⟨hw.scheme, hw.user, hw.host, hw.port, ⟨?_, ?_, ?_, ?_⟩, ?_, ?_, ?_⟩
  · -- the path still starts with a slash
    right
    show ∃ t, p.path ++ p.initSuffix = '/' :: t
    rcases hw.path.1 with e | ⟨t, e⟩
    · have : p.initSuffix = initPath := by simp [initSuffix, e]
      rw [e, this]; exact ⟨_, rfl⟩
    · rw [e]; exact ⟨_, rfl⟩
  · show '?' ∉ p.path ++ p.initSuffix
    simp [hw.path.2.1, hq']
  · show '#' ∉ p.path ++ p.initSuffix
    simp [hw.path.2.2.1, hh']
  · exact pctOK_append _ _ hw.path.2.2.2 hp'
  · intro q h; exact absurd (h.symm.trans hq) (by simp)
  · intro f h; exact absurd (h.symm.trans hf) (by simp)
  · have e : p.withInit.noFrag = p.noFrag ++ p.initSuffix := by
      simp [withInit, noFrag, auth, userText, hostPort, portText, qtext, hq]
    rw [e, List.any_append, hw.noCTL, hc']; rfl

end Parts

/-- The init request for a location `scheme://[userinfo@]host[:port][/path]` goes to the host the
credential for that location is stored under. -/
theorem init_request_host (p : Parts) (hw : p.WF) (hq : p.query = none) (hf : p.frag = none) (hne : p.hostPort ≠ []) :
    ∃ u, Url.parse (initURL p.build) = .ok u ∧ hostOf p.build = some u.host := by
  rw [Parts.initURL_build p hw hq hf hne, Url.parse_build _ (Parts.withInit_wf p hw hq hf)]
  exact ⟨_, rfl, hostOf_build p hw⟩

end Macaroon.Lemmas.Client
