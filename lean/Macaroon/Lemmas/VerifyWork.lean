/-
Size and work of `verify` (C12, finding F23).

`verifyWork` counts MAC steps — one per nonce MACed, one per caveat the first loop looks at — through
the model's own control flow: it is defined FROM `walk`, `verifyFlat` and `firstDischarge` of
`Token/Macaroon.lean` (which decide where a loop stops), not from a copy of them, so it is a measure
of the real model function: the main token's loop, then, for every queued third-party caveat in
order, every candidate discharge carrying its ticket, in presentation order, until the first one that
is accepted (a candidate the trust loop refuses outright costs nothing).

Bounds: the result has at most one caveat per token caveat plus the caveats of one candidate per
third-party caveat; the work is at most the token plus, PER THIRD-PARTY CAVEAT, all candidates with
its ticket.  When the tickets of the token's third-party caveats are pairwise distinct, each
presented discharge is a candidate for at most one of them and both bounds are linear in the input.
With a repeated ticket they are not (F23): `repeated_ticket_multiplies`.
-/
import Macaroon.Lemmas.Token

namespace Macaroon.Lemmas
open Macaroon Macaroon.Crypto
variable {B : Type} [Crypto B]

/-! ### the work measure -/

/-- caveats the first loop looks at before it stops (all of them when it succeeds) -/
def walkSteps (proof ta : Bool) (lookup : B → Option (List (Mac B))) (pids : List B) :
    List (Cav B) → WalkState B → Nat
  | [], _ => 0
  | c :: cs, s =>
    1 + match walk proof ta lookup pids [c] s with
        | .error _ => 0
        | .ok s' => walkSteps proof ta lookup pids cs s'

/-- MAC steps of verifying one candidate discharge: its nonce, then its caveats until the loop stops -/
def flatSteps (k : B) (d : Mac B) (pids : List B) (ta : Bool) : Nat :=
  if d.nonce.proof && d.newProof then 0
  else 1 + walkSteps d.nonce.proof ta (fun _ => none) pids d.cavs
    ⟨macNonce k d.nonce, [digest (macNonce k d.nonce)], [], []⟩

/-- the `dmLoop`: every candidate in order until the first accepted one -/
def firstWork (ids : List B) (ta : Bool) (trusted : Bytes → List B) (key : B) : List (Mac B) → Nat
  | [] => 0
  | dm :: rest =>
    match trustOf (trusted dm.loc) dm.nonce.kid key with
    | none => firstWork ids ta trusted key rest
    | some t =>
      flatSteps key dm ids (ta && t) +
        match verifyFlat key dm ids (ta && t) with
        | .ok _ => 0
        | .error _ => firstWork ids ta trusted key rest

/-- the second loop: queued third-party caveats in order, stopping at the first that finds no discharge -/
def allWork (ids : List B) (ta : Bool) (trusted : Bytes → List B) : List (Pending B) → Nat
  | [] => 0
  | p :: ps =>
    firstWork ids ta trusted p.key p.ds +
      match firstDischarge ids ta trusted p.key p.ds with
      | none => 0
      | some _ => allWork ids ta trusted ps

/-- MAC steps of `(*Macaroon).verify` -/
def verifyWork (k : B) (m : Mac B) (dms : List (Mac B)) (pids : List B) (ta : Bool) (trusted : Bytes → List B) : Nat :=
  if m.nonce.proof && m.newProof then 0 else
  let s0 : WalkState B := ⟨macNonce k m.nonce, [digest (macNonce k m.nonce)], [], []⟩
  1 + walkSteps m.nonce.proof ta (byTicket dms) pids m.cavs s0 +
    match walk m.nonce.proof ta (byTicket dms) pids m.cavs s0 with
    | .error _ => 0
    | .ok s => allWork s.ids ta trusted s.pend

/-! ### weights over candidates -/

/-- total weight of a candidate list -/
def candW (w : Mac B → Nat) (ds : List (Mac B)) : Nat := (ds.map w).sum

/-- per third-party caveat of the token (top level, in order): the weight of ALL presented discharges
whose key-id is its ticket -/
def tpW (w : Mac B → Nat) (dms : List (Mac B)) : List (Cav B) → Nat
  | [] => 0
  | c :: cs =>
    (match tpFields? c with
     | some (_, ticket) => candW w (dms.filter fun d => kidEq d.nonce.kid ticket)
     | none => 0) + tpW w dms cs

/-- the tickets of the token's third-party caveats, in order -/
def tickets3 : List (Cav B) → List B
  | [] => []
  | c :: cs => (match tpFields? c with | some (_, ticket) => [ticket] | none => []) ++ tickets3 cs

/-- number of third-party caveats -/
def count3P (cs : List (Cav B)) : Nat := (tickets3 cs).length

theorem walkSteps_le (proof ta : Bool) (lookup : B → Option (List (Mac B))) (pids : List B) :
    ∀ (cs : List (Cav B)) (s : WalkState B), walkSteps proof ta lookup pids cs s ≤ cs.length
  | [], _ => by simp [walkSteps]
  | c :: cs, s => by
    simp only [walkSteps, List.length_cons]
    split
    · omega
    · rename_i s' _
      have := walkSteps_le proof ta lookup pids cs s'
      omega

theorem flatSteps_le (k : B) (d : Mac B) (pids : List B) (ta : Bool) : flatSteps k d pids ta ≤ d.cavs.length + 1 := by
  unfold flatSteps
  split
  · omega
  · have := walkSteps_le d.nonce.proof ta (fun _ => none) pids d.cavs
      ⟨macNonce k d.nonce, [digest (macNonce k d.nonce)], [], []⟩
    omega

theorem firstWork_le (ids : List B) (ta : Bool) (trusted : Bytes → List B) (key : B) :
    ∀ ds : List (Mac B), firstWork ids ta trusted key ds ≤ candW (fun d => d.cavs.length + 1) ds
  | [] => by simp [firstWork, candW]
  | dm :: rest => by
    have ih := firstWork_le ids ta trusted key rest
    simp only [firstWork, candW, List.map_cons, List.sum_cons] at ih ⊢
    split
    · omega
    · rename_i t _
      have := flatSteps_le key dm ids (ta && t)
      split <;> omega

theorem allWork_le (ids : List B) (ta : Bool) (trusted : Bytes → List B) :
    ∀ ps : List (Pending B), allWork ids ta trusted ps ≤ (ps.map fun p => candW (fun d => d.cavs.length + 1) p.ds).sum
  | [] => by simp [allWork]
  | p :: ps => by
    have ih := allWork_le ids ta trusted ps
    have h1 := firstWork_le ids ta trusted p.key p.ds
    simp only [allWork, List.map_cons, List.sum_cons]
    split <;> omega

/-- the queued third-party caveats cost at most the per-caveat candidate weights -/
theorem pendOf_weight (w : Mac B → Nat) (dms : List (Mac B)) :
    ∀ (cs : List (Cav B)) (t : B),
      ((pendOf (byTicket dms) t cs).map fun p => candW w p.ds).sum ≤ tpW w dms cs
  | [], _ => by simp [pendOf, tpW]
  | c :: cs, t => by
    simp only [pendOf, List.map_append, List.sum_append, tpW]
    have hstep : ((pendOfStep (byTicket dms) t c).map fun p => candW w p.ds).sum ≤
        (match tpFields? c with
         | some (_, ticket) => candW w (dms.filter fun d => kidEq d.nonce.kid ticket)
         | none => 0) := by
      unfold pendOfStep
      cases hf : tpFields? c with
      | none => simp
      | some p =>
        obtain ⟨vk, ticket⟩ := p
        simp only
        cases hb : byTicket dms ticket with
        | none => simp
        | some ds =>
          cases unsealKey t vk with
          | none => simp
          | some dk =>
            simp only [List.map_cons, List.map_nil, List.sum_cons, List.sum_nil, Nat.add_zero]
            unfold byTicket at hb
            dsimp only at hb
            split at hb
            · cases hb
            · simp only [Option.some.injEq] at hb; subst hb; exact Nat.le_refl _
    cases macCav t c with
    | none => simp only [List.map_nil, List.sum_nil]; omega
    | some t' =>
      have := pendOf_weight w dms cs t'
      simp only; omega

/-! ### the work bound -/

/-- **work bound**: the token's own loop, plus — per third-party caveat — every candidate carrying
its ticket (each at most its caveats + 1 for its nonce) -/
theorem verifyWork_le (k : B) (m : Mac B) (dms : List (Mac B)) (pids : List B) (ta : Bool) (trusted : Bytes → List B) :
    verifyWork k m dms pids ta trusted ≤
      m.cavs.length + 1 + tpW (fun d => d.cavs.length + 1) dms m.cavs := by
  unfold verifyWork
  split
  · omega
  · simp only
    have h1 := walkSteps_le m.nonce.proof ta (byTicket dms) pids m.cavs
      ⟨macNonce k m.nonce, [digest (macNonce k m.nonce)], [], []⟩
    cases hw : walk m.nonce.proof ta (byTicket dms) pids m.cavs
        ⟨macNonce k m.nonce, [digest (macNonce k m.nonce)], [], []⟩ with
    | error e => simp only; omega
    | ok s =>
      obtain ⟨_, t, _, rfl⟩ := (walk_ok_iff _ _ _ _ _ _ _).mp hw
      have h2 := allWork_le ((([digest (macNonce k m.nonce)] : List B)) ++ (tailsAfter (macNonce k m.nonce) m.cavs).map digest)
        ta trusted (([] : List (Pending B)) ++ pendOf (byTicket dms) (macNonce k m.nonce) m.cavs)
      have h3 := pendOf_weight (fun d : Mac B => d.cavs.length + 1) dms m.cavs (macNonce k m.nonce)
      simp only [List.nil_append] at h2 ⊢
      omega

/-! ### distinct tickets: every discharge is a candidate for at most one caveat -/

/-- how many of the token's third-party caveats a discharge is a candidate for -/
def hits (d : Mac B) (cs : List (Cav B)) : Nat := ((tickets3 cs).filter fun t => kidEq d.nonce.kid t).length

theorem tpW_cons_dms (w : Mac B → Nat) (d : Mac B) (dms : List (Mac B)) :
    ∀ cs : List (Cav B), tpW w (d :: dms) cs = tpW w dms cs + w d * hits d cs
  | [] => by simp [tpW, hits, tickets3]
  | c :: cs => by
    have ih := tpW_cons_dms w d dms cs
    simp only [tpW, hits, tickets3, List.filter_append, List.length_append] at ih ⊢
    rw [ih]
    cases hf : tpFields? c with
    | none => simp
    | some p =>
      obtain ⟨vk, ticket⟩ := p
      simp only [List.filter_cons, List.filter_nil]
      cases hk : kidEq d.nonce.kid ticket
      · simp [candW]; omega
      · simp only [candW, if_true, List.map_cons, List.sum_cons, List.length_cons, List.length_nil]
        rw [Nat.mul_add]; omega

theorem filter_length_le_one {α : Type} (p : α → Bool) : ∀ l : List α, l.Pairwise (· ≠ ·) →
    (∀ a b, p a = true → p b = true → a = b) → (l.filter p).length ≤ 1
  | [], _, _ => by simp
  | x :: xs, hp, hu => by
    have hc := List.pairwise_cons.mp hp
    have ih := filter_length_le_one p xs hc.2 hu
    simp only [List.filter_cons]
    cases hx : p x
    · simpa using ih
    · simp only [if_true, List.length_cons]
      have : xs.filter p = [] := by
        apply List.filter_eq_nil_iff.mpr
        intro y hy hpy
        exact hc.1 y hy (hu x y hx hpy)
      rw [this]; simp

theorem hits_le_one (d : Mac B) (cs : List (Cav B)) (hd : (tickets3 cs).Pairwise (· ≠ ·))
    (hk : ∀ a b : B, kidEq a b = true → a = b) : hits d cs ≤ 1 :=
  filter_length_le_one _ _ hd fun a b ha hb => (hk _ _ ha).symm.trans (hk _ _ hb)

/-- with pairwise distinct tickets the per-caveat candidate weights add up to at most the weight of
all presented discharges -/
theorem tpW_le_of_distinct (w : Mac B → Nat) (cs : List (Cav B)) (hd : (tickets3 cs).Pairwise (· ≠ ·))
    (hk : ∀ a b : B, kidEq a b = true → a = b) : ∀ dms : List (Mac B), tpW w dms cs ≤ candW w dms
  | [] => by
    have : ∀ cs : List (Cav B), tpW w ([] : List (Mac B)) cs = 0 := by
      intro cs
      induction cs with
      | nil => rfl
      | cons c cs ih => simp only [tpW, ih, List.filter_nil, candW, List.map_nil, List.sum_nil]; split <;> rfl
    simp [this, candW]
  | d :: dms => by
    have ih := tpW_le_of_distinct w cs hd hk dms
    have h1 := hits_le_one d cs hd hk
    rw [tpW_cons_dms]
    simp only [candW, List.map_cons, List.sum_cons] at ih ⊢
    have : w d * hits d cs ≤ w d := by
      calc w d * hits d cs ≤ w d * 1 := Nat.mul_le_mul_left _ h1
        _ = w d := Nat.mul_one _
    omega

/-! ### the size of the result -/

/-- one accepted candidate per queued third-party caveat, drawn from its candidate list -/
inductive UsedFor : List (Pending B) → List (Mac B) → Prop
  | nil : UsedFor [] []
  | cons {p : Pending B} {d : Mac B} {ps : List (Pending B)} {ds : List (Mac B)} :
      d ∈ p.ds → UsedFor ps ds → UsedFor (p :: ps) (d :: ds)

theorem UsedFor.length_eq {ps : List (Pending B)} {ds : List (Mac B)} (h : UsedFor ps ds) : ds.length = ps.length := by
  induction h with
  | nil => rfl
  | cons _ _ ih => simp [ih]

theorem UsedFor.mem {ps : List (Pending B)} {ds : List (Mac B)} (h : UsedFor ps ds) :
    ∀ d ∈ ds, ∃ p ∈ ps, d ∈ p.ds := by
  induction h with
  | nil => intro d hd; cases hd
  | cons hm _ ih =>
    intro d hd
    rcases List.mem_cons.mp hd with rfl | hd
    · exact ⟨_, List.mem_cons_self, hm⟩
    · obtain ⟨p, hp, hdp⟩ := ih d hd
      exact ⟨p, List.mem_cons_of_mem _ hp, hdp⟩

theorem mem_le_candW (w : Mac B → Nat) (d : Mac B) : ∀ ds : List (Mac B), d ∈ ds → w d ≤ candW w ds
  | [], h => by cases h
  | x :: xs, h => by
    simp only [candW, List.map_cons, List.sum_cons]
    rcases List.mem_cons.mp h with rfl | h
    · omega
    · have := mem_le_candW w d xs h
      simp only [candW] at this; omega

theorem UsedFor.weight {ps : List (Pending B)} {ds : List (Mac B)} (h : UsedFor ps ds) (w : Mac B → Nat) :
    candW w ds ≤ (ps.map fun p => candW w p.ds).sum := by
  induction h with
  | nil => simp [candW]
  | cons hm _ ih =>
    have := mem_le_candW w _ _ hm
    simp only [candW, List.map_cons, List.sum_cons] at ih this ⊢
    omega

/-- what the second loop appends: the kept caveats of ONE accepted candidate per queued caveat -/
theorem discharged_size (ids : List B) (ta : Bool) (trusted : Bytes → List B) :
    ∀ (ps : List (Pending B)) (css : List (List (Cav B))),
      ps.mapM (fun p => firstDischarge ids ta trusted p.key p.ds) = some css →
      ∃ used, UsedFor ps used ∧ css.flatten.length ≤ candW (fun d => d.cavs.length) used
  | [], css, h => by
    simp only [List.mapM_nil, Option.pure_def, Option.some.injEq] at h
    subst h
    exact ⟨[], .nil, by simp [candW]⟩
  | p :: ps, css, h => by
    simp only [List.mapM_cons, Option.pure_def, Option.bind_eq_bind] at h
    cases hf : firstDischarge ids ta trusted p.key p.ds with
    | none => simp [hf] at h
    | some r =>
      simp only [hf, Option.bind_some] at h
      cases hr : ps.mapM (fun p => firstDischarge ids ta trusted p.key p.ds) with
      | none => simp [hr] at h
      | some rest =>
        simp only [hr, Option.bind_some, Option.some.injEq] at h
        subst h
        obtain ⟨used, hu, hlen⟩ := discharged_size ids ta trusted ps rest hr
        obtain ⟨pre, d, post, hds, _, t, _, hv⟩ := (firstDischarge_some_iff _ _ _ _ _ _).mp hf
        obtain ⟨_, _, _, _, _, hrd⟩ := (verifyFlat_ok_iff _ _ _ _ _).mp hv
        have hdm : d ∈ p.ds := by rw [hds]; simp
        refine ⟨d :: used, .cons hdm hu, ?_⟩
        have : r.length ≤ d.cavs.length := by rw [hrd]; exact List.length_filter_le _ _
        simp only [List.flatten_cons, List.length_append, candW, List.map_cons, List.sum_cons] at hlen ⊢
        omega

theorem pendOf_length (proof : Bool) (lookup : B → Option (List (Mac B))) (pids : List B) :
    ∀ (cs : List (Cav B)) (t : B), walkOK proof lookup pids t cs = true →
      (pendOf lookup t cs).length = count3P cs
  | [], _, _ => rfl
  | c :: cs, t, h => by
    simp only [walkOK, Bool.and_eq_true] at h
    obtain ⟨hs, hrest⟩ := h
    simp only [pendOf, count3P, tickets3, List.length_append]
    cases hm : macCav t c with
    | none => simp [hm] at hrest
    | some t' =>
      simp only [hm] at hrest
      have ih := pendOf_length proof lookup pids cs t' hrest
      simp only [count3P] at ih
      rw [ih]
      congr 1
      unfold pendOfStep
      cases hf : tpFields? c with
      | none => simp
      | some p =>
        obtain ⟨vk, ticket⟩ := p
        simp only [stepOK, hf, Bool.and_eq_true, Option.isSome_iff_exists] at hs
        obtain ⟨⟨ds, hds⟩, ⟨dk, hdk⟩⟩ := hs
        simp [hds, hdk]

/-- **result size**: an accepted token returns at most its own caveats plus the caveats of the
candidates that discharged its third-party caveats — one candidate per third-party caveat, each a
presented discharge whose key-id is that caveat's ticket -/
theorem verify_result_size (k : B) (m : Mac B) (dms : List (Mac B)) (tr : Bytes → List B) (cs : List (Cav B))
    (hv : verify k m dms tr = .ok cs) :
    ∃ used : List (Mac B), used.length = count3P m.cavs ∧
      (∀ d ∈ used, d ∈ dms ∧ ∃ loc vk ticket, Cav.tp loc vk ticket ∈ m.cavs ∧ kidEq d.nonce.kid ticket = true) ∧
      cs.length ≤ m.cavs.length + candW (fun d => d.cavs.length) used ∧
      candW (fun d => d.cavs.length) used ≤ tpW (fun d => d.cavs.length) dms m.cavs := by
  obtain ⟨_, hok, t, _, _, css, hm, rfl⟩ := (verifyWith_ok_iff k m dms [] true tr cs).mp hv
  obtain ⟨used, hu, hlen⟩ := discharged_size _ _ _ _ css hm
  refine ⟨used, ?_, ?_, ?_, ?_⟩
  · rw [hu.length_eq]; exact pendOf_length _ _ _ _ _ hok
  · intro d hd
    obtain ⟨p, hp, hdp⟩ := hu.mem d hd
    obtain ⟨loc, vk, ticket, hmem, hb⟩ := mem_pendOf dms _ _ p hp
    obtain ⟨h1, h2⟩ := (mem_byTicket dms ticket p.ds hb).2 d hdp
    exact ⟨h1, loc, vk, ticket, hmem, h2⟩
  · have := List.length_filter_le (kept true) m.cavs
    simp only [List.length_append]; omega
  · exact Nat.le_trans (hu.weight _) (pendOf_weight _ dms m.cavs _)


/-! ### exactness of the measure on accepted loops, and the repeated-ticket blow-up -/

theorem walk_cons (proof ta : Bool) (lookup : B → Option (List (Mac B))) (pids : List B) (c : Cav B)
    (cs : List (Cav B)) (s : WalkState B) :
    walk proof ta lookup pids (c :: cs) s =
      match walk proof ta lookup pids [c] s with
      | .error e => .error e
      | .ok s' => walk proof ta lookup pids cs s' := by
  cases c <;> simp only [walk] <;> (repeat' split) <;> first | rfl | (simp_all; done)

/-- a loop that succeeds looked at every caveat: the measure is exact on accepted tokens -/
theorem walkSteps_of_ok (proof ta : Bool) (lookup : B → Option (List (Mac B))) (pids : List B) :
    ∀ (cs : List (Cav B)) (s s' : WalkState B), walk proof ta lookup pids cs s = .ok s' →
      walkSteps proof ta lookup pids cs s = cs.length
  | [], _, _, _ => rfl
  | c :: cs, s, s', h => by
    rw [walk_cons] at h
    simp only [walkSteps, List.length_cons]
    cases h1 : walk proof ta lookup pids [c] s with
    | error e => rw [h1] at h; cases h
    | ok s1 =>
      rw [h1] at h
      simp only [walkSteps_of_ok proof ta lookup pids cs s1 s' h]
      omega

theorem mapM_const {α β : Type} (F : α → Option β) (a0 : α) (r : β) (hF : F a0 = some r) :
    ∀ (l : List α) (rs : List β), (∀ a ∈ l, a = a0) → l.mapM F = some rs → rs = List.replicate l.length r
  | [], rs, _, h => by simp only [List.mapM_nil, Option.pure_def, Option.some.injEq] at h; subst h; rfl
  | a :: l, rs, ha, h => by
    have e : a = a0 := ha a List.mem_cons_self
    subst e
    simp only [List.mapM_cons, hF, Option.pure_def, Option.bind_eq_bind, Option.bind_some] at h
    cases hr : l.mapM F with
    | none => simp [hr] at h
    | some rest =>
      simp only [hr, Option.bind_some, Option.some.injEq] at h
      subst h
      rw [mapM_const F a r hF l rest (fun x hx => ha x (List.mem_cons_of_mem _ hx)) hr]
      rfl

/-- **the F23 shape**: when all the third-party caveats of an accepted token queue the SAME candidate
list under the same discharge key (one ticket repeated, VerifierKeys sealing one key), the one
accepted discharge is verified once per caveat and its `r` kept caveats are appended once per
caveat: the result has exactly `kept + (#third-party caveats) · |r|` caveats -/
theorem repeated_ticket_multiplies (k : B) (m : Mac B) (dms : List (Mac B)) (tr : Bytes → List B) (cs : List (Cav B))
    (hv : verify k m dms tr = .ok cs) (p0 : Pending B)
    (hsame : ∀ p ∈ pendOf (byTicket dms) (macNonce k m.nonce) m.cavs, p = p0)
    (r : List (Cav B))
    (hr : firstDischarge (digest (macNonce k m.nonce) :: (tailsAfter (macNonce k m.nonce) m.cavs).map digest)
      true tr p0.key p0.ds = some r) :
    cs.length = (m.cavs.filter (kept true)).length + count3P m.cavs * r.length := by
  obtain ⟨_, hok, t, _, _, css, hm, rfl⟩ := (verifyWith_ok_iff k m dms [] true tr cs).mp hv
  have := mapM_const _ p0 r hr _ css hsame hm
  subst this
  rw [pendOf_length _ _ _ _ _ hok]
  simp [List.length_append, List.length_flatten]


end Macaroon.Lemmas
