/-
Generic lemmas about the token logic (any `Crypto B`): the first loop of `verify` as a fold
(MAC chain, binding ids, returned caveats, queued third-party caveats), the discharge loops,
`add` as an extension of the chain.
-/
import Macaroon.Token.Macaroon

namespace Macaroon.Lemmas
open Macaroon Macaroon.Crypto
variable {B : Type} [Crypto B]

/-! ### the MAC chain -/

/-- fold `macCav` over the caveats; `none` if one of them cannot be encoded -/
def chain (t : B) : List (Cav B) → Option B
  | [] => some t
  | c :: cs => (macCav t c).bind fun t' => chain t' cs

/-- the tails after each caveat (not including the start) -/
def tailsAfter (t : B) : List (Cav B) → List B
  | [] => []
  | c :: cs =>
    match macCav t c with
    | none => []
    | some t' => t' :: tailsAfter t' cs

theorem chain_append (t : B) (xs ys : List (Cav B)) :
    chain t (xs ++ ys) = (chain t xs).bind fun t' => chain t' ys := by
  induction xs generalizing t with
  | nil => simp [chain]
  | cons x xs ih =>
    simp only [List.cons_append, chain]
    cases macCav t x with
    | none => simp
    | some t' => simp [ih]

theorem tailsAfter_append (t : B) (xs ys : List (Cav B)) (t' : B) (h : chain t xs = some t') :
    tailsAfter t (xs ++ ys) = tailsAfter t xs ++ tailsAfter t' ys := by
  induction xs generalizing t with
  | nil => simp [chain] at h; subst h; simp [tailsAfter]
  | cons x xs ih =>
    simp only [chain] at h
    cases hm : macCav t x with
    | none => simp [hm] at h
    | some t1 =>
      simp only [hm, Option.bind_some] at h
      simp [tailsAfter, hm, ih t1 h]

/-! ### the caveat classes `verify` distinguishes -/

def tpFields? : Cav B → Option (B × B)
  | .tp _ vk ticket => some (vk, ticket)
  | _ => none
def bindId? : Cav B → Option B
  | .bind id => some id
  | _ => none

/-- which caveats `verify` returns: not third-party, not binding, and attestations only when trusted -/
def kept (trustAtt : Bool) (c : Cav B) : Bool :=
  !c.is3P && !c.isBind && (!c.isAttestation || trustAtt)

/-- the per-caveat test of the first loop at running tail `t` -/
def stepOK (proof : Bool) (lookup : B → Option (List (Mac B))) (pids : List B) (t : B) (c : Cav B) : Bool :=
  match tpFields? c with
  | some (vk, ticket) => (lookup ticket).isSome && (unsealKey t vk).isSome
  | none =>
    match bindId? c with
    | some id => pids.any fun bid => hasPrefix bid id
    | none => !(c.isAttestation && !proof) && !c.wrapsAttestation

/-- the third-party caveat queued at running tail `t`, if `c` is one -/
def pendOfStep (lookup : B → Option (List (Mac B))) (t : B) (c : Cav B) : List (Pending B) :=
  match tpFields? c with
  | some (vk, ticket) =>
    match lookup ticket, unsealKey t vk with
    | some ds, some dk => [⟨ds, dk⟩]
    | _, _ => []
  | none => []

def walkOK (proof : Bool) (lookup : B → Option (List (Mac B))) (pids : List B) : B → List (Cav B) → Bool
  | _, [] => true
  | t, c :: cs =>
    stepOK proof lookup pids t c &&
      match macCav t c with
      | none => false
      | some t' => walkOK proof lookup pids t' cs

def pendOf (lookup : B → Option (List (Mac B))) : B → List (Cav B) → List (Pending B)
  | _, [] => []
  | t, c :: cs =>
    pendOfStep lookup t c ++
      match macCav t c with
      | none => []
      | some t' => pendOf lookup t' cs

/-- one iteration of `walk` when the per-caveat test passes -/
theorem walk_step_ok (proof trustAtt : Bool) (lookup : B → Option (List (Mac B))) (pids : List B)
    (c : Cav B) (cs : List (Cav B)) (s : WalkState B) (h : stepOK proof lookup pids s.cur c = true) :
    walk proof trustAtt lookup pids (c :: cs) s =
      match macCav s.cur c with
      | none => .error .encodeErr
      | some cur' =>
        walk proof trustAtt lookup pids cs
          { cur := cur', ids := s.ids ++ [digest cur'],
            ret := s.ret ++ (if kept trustAtt c then [c] else []),
            pend := s.pend ++ pendOfStep lookup s.cur c } := by
  cases c
  case tp loc vk ticket =>
    simp only [stepOK, tpFields?, Bool.and_eq_true, Option.isSome_iff_exists] at h
    obtain ⟨⟨ds, hds⟩, ⟨dk, hdk⟩⟩ := h
    simp only [walk, hds, hdk, pendOfStep, tpFields?, kept, Cav.is3P]
    split <;> split <;> simp_all
  case bind id =>
    simp only [stepOK, tpFields?, bindId?] at h
    simp only [walk, h, pendOfStep, tpFields?, kept, Cav.is3P, Cav.isBind]
    split <;> split <;> simp_all
  all_goals
    simp only [stepOK, tpFields?, bindId?, Bool.and_eq_true, Bool.not_eq_eq_eq_not, Bool.not_true,
      Bool.and_eq_false_iff] at h
    obtain ⟨h1, h2⟩ := h
    simp only [walk, pendOfStep, tpFields?, kept, Cav.is3P, Cav.isBind, h2, List.append_nil]
    rcases h1 with h1 | h1 <;> simp_all [Cav.isAttestation] <;>
      (first | rfl | (split <;> split <;> simp_all) | (cases trustAtt <;> simp <;> split <;> split <;> simp_all))

/-- … and when it fails -/
theorem walk_step_fail (proof trustAtt : Bool) (lookup : B → Option (List (Mac B))) (pids : List B)
    (c : Cav B) (cs : List (Cav B)) (s : WalkState B) (h : stepOK proof lookup pids s.cur c = false) :
    ∃ e, walk proof trustAtt lookup pids (c :: cs) s = .error e := by
  cases c
  case tp loc vk ticket =>
    simp only [stepOK, tpFields?, Bool.and_eq_false_iff] at h
    simp only [walk]
    cases hl : lookup ticket with
    | none => exact ⟨_, rfl⟩
    | some ds =>
      cases hu : unsealKey s.cur vk with
      | none => exact ⟨_, rfl⟩
      | some dk => simp [hl, hu] at h
  case bind id =>
    simp only [stepOK, tpFields?, bindId?] at h
    simp only [walk, h]
    exact ⟨_, rfl⟩
  all_goals
    simp only [stepOK, tpFields?, bindId?, Bool.and_eq_false_iff, Bool.not_eq_eq_eq_not, Bool.not_false,
      Bool.and_eq_true, Bool.not_true] at h
    simp only [walk]
    split
    · exact ⟨_, rfl⟩
    · rename_i s' hs
      exfalso
      rcases h with ⟨h1, h2⟩ | h
      · simp [h1, h2] at hs
      · split at hs
        · cases hs
        · simp [h] at hs

/-- the first loop of `verify` as a fold: it succeeds iff every per-caveat test passes and every
caveat can be MACed, and then the state is determined -/
theorem walk_ok_iff (proof trustAtt : Bool) (lookup : B → Option (List (Mac B))) (pids : List B)
    (cs : List (Cav B)) (s s' : WalkState B) :
    walk proof trustAtt lookup pids cs s = .ok s' ↔
      walkOK proof lookup pids s.cur cs = true ∧
      ∃ t, chain s.cur cs = some t ∧
        s' = { cur := t, ids := s.ids ++ (tailsAfter s.cur cs).map digest,
               ret := s.ret ++ cs.filter (kept trustAtt), pend := s.pend ++ pendOf lookup s.cur cs } := by
  induction cs generalizing s with
  | nil =>
    simp only [walk, walkOK, chain, tailsAfter, pendOf, List.map_nil, List.append_nil, List.filter_nil,
      Option.some.injEq, true_and, exists_eq_left', Except.ok.injEq]
    constructor
    · intro h; rw [← h]
    · intro h; rw [h]
  | cons c cs ih =>
    by_cases hs : stepOK proof lookup pids s.cur c = true
    · rw [walk_step_ok proof trustAtt lookup pids c cs s hs]
      cases hm : macCav s.cur c with
      | none => simp [walkOK, hm, chain]
      | some t1 =>
        simp only [ih, walkOK, hs, hm, Bool.true_and, chain, Option.bind_some, tailsAfter, pendOf,
          List.map_cons, List.filter_cons]
        constructor
        · rintro ⟨hw, t, hc, rfl⟩
          refine ⟨hw, t, hc, ?_⟩
          by_cases hk : kept trustAtt c = true <;> simp [hk, List.append_assoc]
        · rintro ⟨hw, t, hc, rfl⟩
          refine ⟨hw, t, hc, ?_⟩
          by_cases hk : kept trustAtt c = true <;> simp [hk, List.append_assoc]
    · simp only [Bool.not_eq_true] at hs
      obtain ⟨e, he⟩ := walk_step_fail proof trustAtt lookup pids c cs s hs
      simp [he, walkOK, hs]

/-! ### verification as a whole -/

/-- finalise iff the token is a proof -/
def finIf (proof : Bool) (t : B) : B := if proof then finalize t else t

theorem verifyFlat_ok_iff (k : B) (m : Mac B) (pids : List B) (trustAtt : Bool) (cs : List (Cav B)) :
    verifyFlat k m pids trustAtt = .ok cs ↔
      (m.nonce.proof && m.newProof) = false ∧
      walkOK m.nonce.proof (fun _ => none) pids (macNonce k m.nonce) m.cavs = true ∧
      ∃ t, chain (macNonce k m.nonce) m.cavs = some t ∧ ctEq (finIf m.nonce.proof t) m.tail = true ∧
        cs = m.cavs.filter (kept trustAtt) := by
  unfold verifyFlat
  by_cases hp : (m.nonce.proof && m.newProof) = true
  · simp [hp]
  · simp only [hp, Bool.false_eq_true, ↓reduceIte, Bool.not_eq_true] 
    simp only [Bool.not_eq_true] at hp
    simp only [hp, true_and]
    cases hw : walk m.nonce.proof trustAtt (fun _ => none) pids m.cavs
        ⟨macNonce k m.nonce, [digest (macNonce k m.nonce)], [], []⟩ with
    | error e =>
      simp only [reduceCtorEq, false_iff, not_and, not_exists]
      intro hok t hc _ _
      have := (walk_ok_iff m.nonce.proof trustAtt (fun _ => none) pids m.cavs
        ⟨macNonce k m.nonce, [digest (macNonce k m.nonce)], [], []⟩ _).mpr ⟨hok, t, hc, rfl⟩
      rw [hw] at this; cases this
    | ok s =>
      obtain ⟨hok, t, hc, rfl⟩ := (walk_ok_iff _ _ _ _ _ _ _).mp hw
      simp only [hok, hc, Option.some.injEq, List.nil_append, true_and, exists_eq_left', finIf]
      by_cases he : ctEq (if m.nonce.proof = true then finalize t else t) m.tail = true
      · simp only [he, ↓reduceIte, Except.ok.injEq, true_and]
        constructor <;> (intro h; rw [h])
      · simp [he]

/-- a candidate discharge is accepted with result `cs` -/
def Accepts (ids : List B) (trustAtt : Bool) (trusted : Bytes → List B) (key : B) (d : Mac B) (cs : List (Cav B)) : Prop :=
  ∃ t, trustOf (trusted d.loc) d.nonce.kid key = some t ∧ verifyFlat key d ids (trustAtt && t) = .ok cs

/-- the `dmLoop`: the FIRST candidate (in presentation order) that is accepted decides -/
theorem firstDischarge_some_iff (ids : List B) (trustAtt : Bool) (trusted : Bytes → List B) (key : B)
    (ds : List (Mac B)) (cs : List (Cav B)) :
    firstDischarge ids trustAtt trusted key ds = some cs ↔
      ∃ pre d post, ds = pre ++ d :: post ∧ (∀ x ∈ pre, ∀ xs, ¬ Accepts ids trustAtt trusted key x xs) ∧
        Accepts ids trustAtt trusted key d cs := by
  induction ds with
  | nil => simp [firstDischarge]
  | cons d rest ih =>
    unfold firstDischarge
    cases ht : trustOf (trusted d.loc) d.nonce.kid key with
    | none =>
      simp only [ih]
      constructor
      · rintro ⟨pre, x, post, rfl, hpre, hx⟩
        refine ⟨d :: pre, x, post, rfl, ?_, hx⟩
        intro y hy ys
        simp only [List.mem_cons] at hy
        rcases hy with rfl | hy
        · rintro ⟨t, h1, _⟩; rw [ht] at h1; cases h1
        · exact hpre y hy ys
      · rintro ⟨pre, x, post, heq, hpre, hx⟩
        cases pre with
        | nil =>
          simp only [List.nil_append, List.cons.injEq] at heq
          obtain ⟨rfl, rfl⟩ := heq
          obtain ⟨t, h1, _⟩ := hx; rw [ht] at h1; cases h1
        | cons p pre =>
          simp only [List.cons_append, List.cons.injEq] at heq
          obtain ⟨rfl, rfl⟩ := heq
          exact ⟨pre, x, post, rfl, fun y hy => hpre y (List.mem_cons_of_mem _ hy), hx⟩
    | some t =>
      simp only
      cases hv : verifyFlat key d ids (trustAtt && t) with
      | ok r =>
        simp only [Option.some.injEq]
        constructor
        · rintro rfl
          exact ⟨[], d, rest, rfl, by simp, t, ht, hv⟩
        · rintro ⟨pre, x, post, heq, hpre, hx⟩
          cases pre with
          | nil =>
            simp only [List.nil_append, List.cons.injEq] at heq
            obtain ⟨rfl, rfl⟩ := heq
            obtain ⟨t', h1, h2⟩ := hx
            rw [ht] at h1; cases h1; rw [hv] at h2; cases h2; rfl
          | cons p pre =>
            simp only [List.cons_append, List.cons.injEq] at heq
            obtain ⟨rfl, rfl⟩ := heq
            exact absurd ⟨t, ht, hv⟩ (hpre d (by simp) r)
      | error e =>
        simp only [ih]
        constructor
        · rintro ⟨pre, x, post, rfl, hpre, hx⟩
          refine ⟨d :: pre, x, post, rfl, ?_, hx⟩
          intro y hy ys
          simp only [List.mem_cons] at hy
          rcases hy with rfl | hy
          · rintro ⟨t', h1, h2⟩; rw [ht] at h1; cases h1; rw [hv] at h2; cases h2
          · exact hpre y hy ys
        · rintro ⟨pre, x, post, heq, hpre, hx⟩
          cases pre with
          | nil =>
            simp only [List.nil_append, List.cons.injEq] at heq
            obtain ⟨rfl, rfl⟩ := heq
            obtain ⟨t', h1, h2⟩ := hx; rw [ht] at h1; cases h1; rw [hv] at h2; cases h2
          | cons p pre =>
            simp only [List.cons_append, List.cons.injEq] at heq
            obtain ⟨rfl, rfl⟩ := heq
            exact ⟨pre, x, post, rfl, fun y hy => hpre y (List.mem_cons_of_mem _ hy), hx⟩

/-- the second loop: one accepted discharge per queued caveat, results appended in caveat order -/
theorem dischargeAll_some_iff (ids : List B) (trustAtt : Bool) (trusted : Bytes → List B)
    (pend : List (Pending B)) (ret r : List (Cav B)) :
    dischargeAll ids trustAtt trusted pend ret = some r ↔
      ∃ css, pend.mapM (fun p => firstDischarge ids trustAtt trusted p.key p.ds) = some css ∧
        r = ret ++ css.flatten := by
  induction pend generalizing ret with
  | nil => simp [dischargeAll]; constructor <;> (intro h; rw [h])
  | cons p ps ih =>
    unfold dischargeAll
    cases hf : firstDischarge ids trustAtt trusted p.key p.ds with
    | none => simp [hf]
    | some cs =>
      simp only [ih, List.mapM_cons, hf, Option.pure_def, Option.bind_eq_bind, Option.bind_some]
      constructor
      · rintro ⟨css, hm, rfl⟩
        exact ⟨cs :: css, by simp [hm], by simp [List.append_assoc]⟩
      · rintro ⟨css, hm, rfl⟩
        cases hps : ps.mapM (fun p => firstDischarge ids trustAtt trusted p.key p.ds) with
        | none => simp [hps] at hm
        | some css' =>
          simp [hps] at hm; subst hm
          exact ⟨css', rfl, by simp [List.append_assoc]⟩

/-- `verify` characterised: no early exit skips a MAC update; the returned caveats are the kept
ones of the token followed by those of the accepted discharges, in caveat order -/
theorem verifyWith_ok_iff (k : B) (m : Mac B) (dms : List (Mac B)) (pids : List B) (trustAtt : Bool)
    (trusted : Bytes → List B) (cs : List (Cav B)) :
    verifyWith k m dms pids trustAtt trusted = .ok cs ↔
      (m.nonce.proof && m.newProof) = false ∧
      walkOK m.nonce.proof (byTicket dms) pids (macNonce k m.nonce) m.cavs = true ∧
      ∃ t, chain (macNonce k m.nonce) m.cavs = some t ∧ ctEq (finIf m.nonce.proof t) m.tail = true ∧
        ∃ css, (pendOf (byTicket dms) (macNonce k m.nonce) m.cavs).mapM
                 (fun p => firstDischarge
                   (digest (macNonce k m.nonce) :: (tailsAfter (macNonce k m.nonce) m.cavs).map digest)
                   trustAtt trusted p.key p.ds) = some css ∧
          cs = m.cavs.filter (kept trustAtt) ++ css.flatten := by
  unfold verifyWith
  by_cases hp : (m.nonce.proof && m.newProof) = true
  · simp [hp]
  · simp only [hp, Bool.false_eq_true, ↓reduceIte]
    simp only [Bool.not_eq_true] at hp
    simp only [hp, true_and]
    cases hw : walk m.nonce.proof trustAtt (byTicket dms) pids m.cavs
        ⟨macNonce k m.nonce, [digest (macNonce k m.nonce)], [], []⟩ with
    | error e =>
      simp only [reduceCtorEq, false_iff, not_and, not_exists]
      intro hok t hc _ _ _
      have := (walk_ok_iff m.nonce.proof trustAtt (byTicket dms) pids m.cavs
        ⟨macNonce k m.nonce, [digest (macNonce k m.nonce)], [], []⟩ _).mpr ⟨hok, t, hc, rfl⟩
      rw [hw] at this; cases this
    | ok s =>
      obtain ⟨hok, t, hc, rfl⟩ := (walk_ok_iff _ _ _ _ _ _ _).mp hw
      simp only [hok, hc, Option.some.injEq, List.nil_append, true_and, exists_eq_left', finIf,
        List.singleton_append]
      cases hd : dischargeAll (digest (macNonce k m.nonce) :: (tailsAfter (macNonce k m.nonce) m.cavs).map digest)
          trustAtt trusted (pendOf (byTicket dms) (macNonce k m.nonce) m.cavs) (m.cavs.filter (kept trustAtt)) with
      | none =>
        simp only [reduceCtorEq, false_iff, not_and, not_exists]
        intro _ css hm hcs
        have := (dischargeAll_some_iff _ trustAtt trusted _ (m.cavs.filter (kept trustAtt)) _).mpr ⟨css, hm, rfl⟩
        rw [hd] at this; cases this
      | some r =>
        obtain ⟨css, hm, rfl⟩ := (dischargeAll_some_iff _ _ _ _ _ _).mp hd
        simp only [hm, Option.some.injEq, exists_eq_left']
        by_cases he : ctEq (if m.nonce.proof = true then finalize t else t) m.tail = true
        · simp only [he, ↓reduceIte, Except.ok.injEq, true_and]
          constructor <;> (intro h; rw [h])
        · simp [he]

theorem mapM_mem {α β : Type} (f : α → Option (List β)) (l : List α) (css : List (List β))
    (h : l.mapM f = some css) (a : α) (ha : a ∈ l) : ∃ r, f a = some r ∧ ∀ c ∈ r, c ∈ css.flatten := by
  induction l generalizing css with
  | nil => cases ha
  | cons x xs ih =>
    simp only [List.mapM_cons, Option.pure_def, Option.bind_eq_bind] at h
    cases hf : f x with
    | none => simp [hf] at h
    | some r =>
      cases hr : xs.mapM f with
      | none => simp [hf, hr] at h
      | some rs =>
        simp [hf, hr] at h; subst h
        simp only [List.mem_cons] at ha
        rcases ha with rfl | ha
        · exact ⟨r, hf, fun c hc => by simp [hc]⟩
        · obtain ⟨r', hr', hsub⟩ := ih rs hr ha
          exact ⟨r', hr', fun c hc => by simp [hsub c hc]⟩

theorem mapM_mem_out {α β : Type} (f : α → Option β) (l : List α) (rs : List β)
    (h : l.mapM f = some rs) : ∀ r ∈ rs, ∃ a ∈ l, f a = some r := by
  induction l generalizing rs with
  | nil => simp at h; subst h; simp
  | cons x xs ih =>
    simp only [List.mapM_cons, Option.pure_def, Option.bind_eq_bind] at h
    cases hf : f x with
    | none => simp [hf] at h
    | some r0 =>
      cases hr : xs.mapM f with
      | none => simp [hf, hr] at h
      | some rs' =>
        simp [hf, hr] at h; subst h
        intro r hr'
        simp only [List.mem_cons] at hr'
        rcases hr' with rfl | hr'
        · exact ⟨x, by simp, hf⟩
        · obtain ⟨a, ha, hfa⟩ := ih rs' hr r hr'
          exact ⟨a, List.mem_cons_of_mem _ ha, hfa⟩

/-! ### who can end up in the discharge queue -/

theorem mem_byTicket (dms : List (Mac B)) (ticket : B) (ds : List (Mac B)) (h : byTicket dms ticket = some ds) :
    ds ≠ [] ∧ ∀ d ∈ ds, d ∈ dms ∧ kidEq d.nonce.kid ticket = true := by
  unfold byTicket at h
  by_cases he : (dms.filter fun d => kidEq d.nonce.kid ticket).isEmpty = true
  · simp [he] at h
  · simp only [he, Bool.false_eq_true, ↓reduceIte, Option.some.injEq] at h
    subst h
    refine ⟨by intro h0; rw [h0] at he; simp at he, fun d hd => ?_⟩
    simpa using hd

theorem mem_pendOf (dms : List (Mac B)) (t : B) (cs : List (Cav B)) (p : Pending B)
    (hp : p ∈ pendOf (byTicket dms) t cs) :
    ∃ loc vk ticket, Cav.tp loc vk ticket ∈ cs ∧ byTicket dms ticket = some p.ds := by
  induction cs generalizing t with
  | nil => simp [pendOf] at hp
  | cons c cs ih =>
    simp only [pendOf, List.mem_append] at hp
    rcases hp with hp | hp
    · cases c <;> simp [pendOfStep, tpFields?] at hp
      case tp loc vk ticket =>
        cases hb : byTicket dms ticket with
        | none => simp [hb] at hp
        | some ds =>
          cases hu : unsealKey t vk with
          | none => simp [hb, hu] at hp
          | some dk =>
            simp [hb, hu] at hp
            subst hp
            exact ⟨loc, vk, ticket, by simp, hb⟩
    · cases hm : macCav t c with
      | none => simp [hm] at hp
      | some t' =>
        simp only [hm] at hp
        obtain ⟨loc, vk, ticket, hmem, hb⟩ := ih t' hp
        exact ⟨loc, vk, ticket, List.mem_cons_of_mem _ hmem, hb⟩

/-- lookups that agree on the tickets of the token give the same first loop -/
theorem walk_congr (proof trustAtt : Bool) (l1 l2 : B → Option (List (Mac B))) (pids : List B)
    (cs : List (Cav B)) (s : WalkState B)
    (h : ∀ loc vk ticket, Cav.tp loc vk ticket ∈ cs → l1 ticket = l2 ticket) :
    walk proof trustAtt l1 pids cs s = walk proof trustAtt l2 pids cs s := by
  induction cs generalizing s with
  | nil => rfl
  | cons c cs ih =>
    have ih' := fun s => ih s (fun loc vk ticket hm => h loc vk ticket (List.mem_cons_of_mem _ hm))
    cases c <;> simp only [walk, ih']
    case tp loc vk ticket => rw [h loc vk ticket (by simp)]

/-- wrappers that hold no attestation contribute none to typed lookup -/
theorem getCaveats_att_of_clean : (cs : List (Cav B)) →
    (∀ c ∈ cs, c.wrapsAttestation = false) →
    getCaveats Cav.isAttestation cs = cs.filter Cav.isAttestation
  | [], _ => by simp [getCaveats]
  | c :: cs, h => by
    have hc := h c (by simp)
    have ih := getCaveats_att_of_clean cs (fun x hx => h x (List.mem_cons_of_mem _ hx))
    have hu : unwrapGet Cav.isAttestation c = [] := by
      cases c <;> simp only [unwrapGet]
      case ifPresent n ifs e =>
        simp only [Cav.wrapsAttestation] at hc
        exact getCaveatsL_att_nil ifs hc
    simp only [getCaveats, hu, ih, List.append_nil, List.filter_cons]
    by_cases ha : c.isAttestation = true <;> simp [ha]
where
  getCaveatsL_att_nil : (l : CavList B) → anyAttestationL l = false → getCaveatsL Cav.isAttestation l = []
    | .nil, _ => by simp [getCaveatsL]
    | .cons c cs, h => by
      simp only [anyAttestationL, Bool.or_eq_false_iff] at h
      obtain ⟨⟨h1, h2⟩, h3⟩ := h
      have ih := getCaveatsL_att_nil cs h3
      have hu : unwrapGet Cav.isAttestation c = [] := by
        cases c <;> simp only [unwrapGet]
        case ifPresent n ifs e =>
          simp only [Cav.wrapsAttestation] at h2
          exact getCaveatsL_att_nil ifs h2
      simp [getCaveatsL, h1, hu, ih]

/-- what passes the first loop holds no wrapped attestation, and attestations only in proofs -/
theorem walkOK_clean (proof : Bool) (lookup : B → Option (List (Mac B))) (pids : List B) (t : B)
    (cs : List (Cav B)) (h : walkOK proof lookup pids t cs = true) :
    ∀ c ∈ cs, (c.is3P = false → c.isBind = false → c.wrapsAttestation = false ∧ (c.isAttestation = true → proof = true)) := by
  induction cs generalizing t with
  | nil => simp
  | cons c cs ih =>
    simp only [walkOK, Bool.and_eq_true] at h
    obtain ⟨hs, hrest⟩ := h
    intro x hx
    simp only [List.mem_cons] at hx
    rcases hx with rfl | hx
    · intro h3 hb
      cases x <;> simp_all [stepOK, tpFields?, bindId?, Cav.is3P, Cav.isBind, Cav.isAttestation, Cav.wrapsAttestation]
    · cases hm : macCav t c with
      | none => simp [hm] at hrest
      | some t' => simp only [hm] at hrest; exact ih t' hrest x hx

end Macaroon.Lemmas
