/-
When `Add` succeeds (liveness of attenuation): the conditions under which `(*Macaroon).Add` returns
nil, read off the code — the token is not a finalised proof, every caveat can be encoded, no argument
is (or wraps) an attestation unless the token is a proof, and the new third-party caveats name
pairwise different locations none of which the token already has a third-party caveat for.
Generic over `LawfulCrypto B`; the one instance-level fact used is that a third-party caveat can
always be encoded (`TpEncodable`: its three fields are byte strings), true of both instances.
Core Lean only.
-/
import Macaroon.Lemmas.Legit

namespace Macaroon.Lemmas
open Macaroon Macaroon.Crypto
variable {B : Type} [Crypto B]

/-- the location of a new third-party argument -/
def AddItem.newLoc? : AddItem B → Option Bytes
  | .new3p loc _ _ _ => some loc
  | .plain _ => none

/-- the locations of the new third-party caveats among the arguments, in order -/
def newLocs (its : List (AddItem B)) : List Bytes := its.filterMap AddItem.newLoc?

theorem newLocs_plain (c : Cav B) (rest : List (AddItem B)) : newLocs (.plain c :: rest) = newLocs rest := rfl
theorem newLocs_new3p (loc : Bytes) (ticket rn nonce : B) (rest : List (AddItem B)) :
    newLocs (.new3p loc ticket rn nonce :: rest) = loc :: newLocs rest := rfl

/-- a third-party caveat can be encoded whatever its fields (instance-level fact) -/
def TpEncodable (B : Type) [Crypto B] : Prop :=
  ∀ (t : B) (loc : Bytes) (vk ticket : B), (macCav t (.tp loc vk ticket)).isSome = true

theorem dedup_sublist (ex : List (Cav B)) : ∀ (its : List (AddItem B)) (seen : List (Cav B)),
    (dedup ex its seen).Sublist its
  | [], _ => by simp [dedup]
  | i :: rest, seen => by
    unfold dedup
    split
    · exact (dedup_sublist ex rest seen).cons _
    · exact (dedup_sublist ex rest _).cons₂ _

theorem newLocs_sublist {xs ys : List (AddItem B)} (h : xs.Sublist ys) : (newLocs xs).Sublist (newLocs ys) :=
  h.filterMap _

/-- what the loop of `Add` asks of one argument, for a token with proof flag `p` -/
def ItemAdmissible (p : Bool) : AddItem B → Prop
  | .plain c => (c.isAttestation && !p) = false ∧ c.wrapsAttestation = false ∧ ∀ t : B, (macCav t c).isSome = true
  | .new3p loc ticket _ _ => ∀ (t vk : B), (macCav t (.tp loc vk ticket)).isSome = true

/-- the loop of `Add` runs through: every argument admissible, new locations pairwise different and unseen -/
theorem addLoop_succeeds : ∀ (its : List (AddItem B)) (m : Mac B) (seen : List Bytes),
    (∀ it ∈ its, ItemAdmissible m.nonce.proof it) → (newLocs its).Nodup → (∀ l ∈ newLocs its, l ∉ seen) →
    (addLoop its m seen).2 = none
  | [], _, _, _, _, _ => rfl
  | it :: rest, m, seen, hadm, hnd, hfr => by
    have hrest : ∀ x ∈ rest, ItemAdmissible m.nonce.proof x := fun x hx => hadm x (List.mem_cons_of_mem _ hx)
    unfold addLoop
    cases it with
    | plain c =>
      obtain ⟨ha, hw, hs⟩ := hadm (.plain c) (by simp)
      have hnd' : (newLocs rest).Nodup := by rw [newLocs_plain] at hnd; exact hnd
      have hfr' : ∀ l ∈ newLocs rest, l ∉ seen := by rw [newLocs_plain] at hfr; exact hfr
      simp only [ha, Bool.false_eq_true, ↓reduceIte, hw]
      obtain ⟨t, ht⟩ := Option.isSome_iff_exists.mp (hs m.tail)
      simp only [ht]
      exact addLoop_succeeds rest { m with cavs := m.cavs ++ [c], tail := t } seen hrest hnd' hfr'
    | new3p loc ticket rn nonce =>
      have hs := hadm (.new3p loc ticket rn nonce) (by simp)
      have hnd0 : (loc :: newLocs rest).Nodup := by rw [newLocs_new3p] at hnd; exact hnd
      have hfr0 : ∀ l ∈ loc :: newLocs rest, l ∉ seen := by rw [newLocs_new3p] at hfr; exact hfr
      have hloc : seen.contains loc = false := by
        have := hfr0 loc (by simp)
        simpa using this
      obtain ⟨t, ht⟩ := Option.isSome_iff_exists.mp (hs m.tail (sealKey m.tail nonce rn))
      simp only [hloc, Bool.false_eq_true, ↓reduceIte, ht]
      refine addLoop_succeeds rest { m with cavs := m.cavs ++ [.tp loc (sealKey m.tail nonce rn) ticket], tail := t }
        (seen ++ [loc]) hrest (List.nodup_cons.mp hnd0).2 ?_
      intro l hl hmem
      rcases List.mem_append.mp hmem with h | h
      · exact hfr0 l (List.mem_cons_of_mem _ hl) h
      · simp only [List.mem_singleton] at h
        subst h
        exact (List.nodup_cons.mp hnd0).1 hl

/-- `add_succeeds` [lawful]: `Add` returns nil when the token is not a finalised proof, every caveat of
the token and of the arguments can be encoded (`allEncodable`: what `dedup` checks first), no plain
argument is an attestation (unless the token is a proof) or wraps one, and the locations of the new
third-party arguments are pairwise different and not among those the token already demands a
discharge for (`locs3P`, wrappers included, as `GetCaveats[*Caveat3P]` sees them). -/
theorem add_succeeds [LawfulCrypto B] (htp : TpEncodable B) (m : Mac B) (items : List (AddItem B))
    (hf : (m.nonce.proof && !m.newProof) = false) (he : allEncodable m items = true)
    (hp : ∀ c, AddItem.plain c ∈ items → (c.isAttestation && !m.nonce.proof) = false ∧ c.wrapsAttestation = false)
    (hnd : (newLocs items).Nodup) (hfr : ∀ l ∈ newLocs items, l ∉ locs3P m.cavs) :
    (add m items).2 = none := by
  unfold add
  rw [if_neg (by simp [hf]), if_neg (by simp [he])]
  have hsub := dedup_sublist m.cavs items []
  apply addLoop_succeeds
  · intro it hit
    have hmem : it ∈ items := hsub.subset hit
    cases it with
    | plain c =>
      obtain ⟨ha, hw⟩ := hp c hmem
      refine ⟨ha, hw, fun t => ?_⟩
      have h0 : (macCav m.tail c).isSome = true := by
        simp only [allEncodable, List.all_append, List.all_map, Bool.and_eq_true, List.all_eq_true] at he
        exact he.2 (.plain c) hmem
      rw [LawfulCrypto.macCav_isSome c t m.tail]; exact h0
    | new3p loc ticket rn nonce => exact fun t vk => htp t loc vk ticket
  · exact (newLocs_sublist hsub).nodup hnd
  · exact fun l hl => hfr l ((newLocs_sublist hsub).subset hl)

/-- every caveat of a chain that exists can be MACed, under any key -/
theorem chain_some_isSome [LawfulCrypto B] : ∀ (cs : List (Cav B)) (t r : B), chain t cs = some r →
    ∀ c ∈ cs, ∀ t' : B, (macCav t' c).isSome = true
  | [], _, _, _, c, hc, _ => by cases hc
  | x :: xs, t, r, h, c, hc, t' => by
    simp only [chain] at h
    cases hm : macCav t x with
    | none => simp [hm] at h
    | some t1 =>
      simp only [hm, Option.bind_some] at h
      rcases List.mem_cons.mp hc with rfl | hc
      · rw [LawfulCrypto.macCav_isSome c t' t, hm]; rfl
      · exact chain_some_isSome xs t1 r h c hc t'

/-- `legit_add_succeeds` [lawful]: on a legitimate token the success hypothesis of `Legit.added` is
dischargeable from conditions on the ARGUMENTS alone: legitimate items (ordinary caveats, fresh
third-party caveats), each plain one encodable, new locations pairwise different and not yet used.
The call succeeds and the result is legitimate. -/
theorem legit_add_succeeds [LawfulCrypto B] (htp : TpEncodable B) (k : B) (m : Mac B) (hL : Legit k m)
    (items : List (AddItem B)) (hit : ∀ it ∈ items, LegitItem it)
    (henc : ∀ c, AddItem.plain c ∈ items → ∀ t : B, (macCav t c).isSome = true)
    (hnd : (newLocs items).Nodup) (hfr : ∀ l ∈ newLocs items, l ∉ locs3P m.cavs) :
    (add m items).2 = none ∧ Legit k (add m items).1 := by
  have inv := legit_inv k m hL
  have hok : (add m items).2 = none := by
    apply add_succeeds htp m items (by simp [inv.notProof]) _ _ hnd hfr
    · simp only [allEncodable, List.all_append, List.all_map, Bool.and_eq_true, List.all_eq_true]
      constructor
      · intro c hc
        exact chain_some_isSome m.cavs _ _ inv.tail c hc m.tail
      · intro it hi
        cases it with
        | plain c => exact henc c hi m.tail
        | new3p loc ticket rn nonce => exact htp m.tail loc Crypto.empty ticket
    · intro c hc
      cases hit _ hc with
      | plain c ho =>
        have := (ordinary_iff c).mp ho
        exact ⟨by simp [this.2.2.1], this.2.2.2⟩
  exact ⟨hok, .added m items hL hit hok⟩

/-! ### whole histories of first-party attenuation: no success hypothesis left -/

/-- mint-side history given by its data alone: the argument lists of the successive `Add` calls -/
def addAll (m : Mac B) (calls : List (List (Cav B))) : Mac B :=
  calls.foldl (fun m cs => (add m (cs.map AddItem.plain)).1) m

theorem newLocs_map_plain (cs : List (Cav B)) : newLocs (cs.map (AddItem.plain (B := B))) = [] := by
  induction cs with
  | nil => rfl
  | cons c cs ih => rw [List.map_cons, newLocs_plain, ih]

/-- [lawful] every call of such a history succeeds when the arguments are ordinary and encodable —
whatever their kinds and field values — and the result is a `PlainHist` -/
theorem plainHist_addAll [LawfulCrypto B] (htp : TpEncodable B) (k : B) :
    ∀ (calls : List (List (Cav B))) (m : Mac B) (sofar : List (Cav B)), PlainHist k m sofar →
      (∀ cs ∈ calls, ∀ c ∈ cs, ordinary c = true ∧ ∀ t : B, (macCav t c).isSome = true) →
      PlainHist k (addAll m calls) (sofar ++ calls.flatten)
  | [], m, sofar, h, _ => by simpa [addAll] using h
  | cs :: rest, m, sofar, h, hall => by
    have hcs := hall cs (by simp)
    have hok := (legit_add_succeeds htp k m (plainHist_legit k m sofar h) (cs.map AddItem.plain)
      (by intro it hit; obtain ⟨c, hc, rfl⟩ := List.mem_map.mp hit; exact .plain c (hcs c hc).1)
      (by
        intro c hc t
        obtain ⟨c', hc', e⟩ := List.mem_map.mp hc
        cases e; exact (hcs c hc').2 t)
      (by rw [newLocs_map_plain]; exact List.nodup_nil)
      (by rw [newLocs_map_plain]; intro l hl; cases hl)).1
    have h1 := PlainHist.added m sofar cs h (fun c hc => (hcs c hc).1) hok
    have := plainHist_addAll htp k rest _ _ h1 (fun x hx => hall x (List.mem_cons_of_mem _ hx))
    simpa [addAll, List.append_assoc] using this

/-! ### whole histories with third-party caveats -/

theorem getCaveats_app (p : Cav B → Bool) (xs ys : List (Cav B)) :
    getCaveats p (xs ++ ys) = getCaveats p xs ++ getCaveats p ys := by
  induction xs with
  | nil => simp [getCaveats]
  | cons x xs ih => simp [getCaveats, ih, List.append_assoc]

theorem locs3P_app (xs ys : List (Cav B)) : locs3P (xs ++ ys) = locs3P xs ++ locs3P ys := by
  simp [locs3P, getCaveats_app]

theorem locs3P_cons (x : Cav B) (xs : List (Cav B)) : locs3P (x :: xs) = locs3P [x] ++ locs3P xs :=
  locs3P_app [x] xs

theorem locs3P_tp (loc : Bytes) (vk ticket : B) : locs3P [(.tp loc vk ticket : Cav B)] = [loc] := by
  simp [locs3P, getCaveats, unwrapGet, Cav.is3P, Cav.tpLoc?]

/-- a plain argument that holds no third-party caveat inside wrappers (every caveat that is not a
conditional; a conditional whose contents hold none) -/
def noInner3P (it : AddItem B) : Prop :=
  match it with
  | .plain c => locs3P [c] = []
  | .new3p .. => True

/-- the third-party locations a run of the `Add` loop contributes are those of its new third-party
arguments, in order (all of them unless the loop stops at a caveat that cannot be encoded) -/
theorem locs3P_realise : ∀ (its : List (AddItem B)) (t : B), (∀ it ∈ its, noInner3P it) →
    (locs3P (realise t its)).Sublist (newLocs its)
  | [], _, _ => by simp [realise, locs3P, getCaveats, newLocs]
  | it :: rest, t, hn => by
    simp only [realise]
    rw [locs3P_cons]
    have hrest : (locs3P (match macCav t (AddItem.cavAt t it) with
        | none => []
        | some t' => realise t' rest)).Sublist (newLocs rest) := by
      cases hm : macCav t (AddItem.cavAt t it) with
      | none => simp [locs3P, getCaveats]
      | some t' => exact locs3P_realise rest t' (fun x hx => hn x (List.mem_cons_of_mem _ hx))
    cases it with
    | plain c =>
      have := hn (.plain c) (by simp)
      simp only [noInner3P] at this
      simp only [AddItem.cavAt, this, List.nil_append, newLocs_plain]
      exact hrest
    | new3p loc ticket rn nonce =>
      simp only [AddItem.cavAt, locs3P_tp, newLocs_new3p, List.singleton_append]
      exact hrest.cons₂ _

/-- after a successful `Add` the token demands discharges for the locations it demanded before, followed
by (some of) the new third-party arguments' locations, nothing else -/
theorem locs3P_add (m : Mac B) (items : List (AddItem B)) (hok : (add m items).2 = none)
    (hn : ∀ it ∈ items, noInner3P it) :
    ∃ L, locs3P (add m items).1.cavs = locs3P m.cavs ++ L ∧ L.Sublist (newLocs items) := by
  have hadd : add m items = ((add m items).1, none) := by rw [← hok]
  obtain ⟨_, _, t', _, hm⟩ := add_shape m _ items hadd
  have hsub := dedup_sublist m.cavs items []
  refine ⟨locs3P (realise m.tail (dedup m.cavs items [])), ?_, ?_⟩
  · rw [hm]; exact locs3P_app _ _
  · exact (locs3P_realise _ m.tail (fun it hi => hn it (hsub.subset hi))).trans (newLocs_sublist hsub)

/-- a mint-side history given by its data: the argument lists of the successive `Add` calls -/
def addCalls (m : Mac B) (calls : List (List (AddItem B))) : Mac B :=
  calls.foldl (fun m its => (add m its).1) m

/-- [lawful] `legit_addCalls`: EVERY call of a history succeeds and the result is legitimate, from conditions
on the data alone: legitimate arguments (ordinary caveats of any kinds and values, fresh third-party
caveats), every plain argument encodable and holding no third-party caveat inside a wrapper, and
all third-party locations — those the starting token already has and those of all new third-party
arguments of all calls — pairwise different (one third-party caveat per location, as `Add` demands). -/
theorem legit_addCalls [LawfulCrypto B] (htp : TpEncodable B) (k : B) :
    ∀ (calls : List (List (AddItem B))) (m : Mac B), Legit k m →
      (∀ its ∈ calls, ∀ it ∈ its, LegitItem it ∧ noInner3P it) →
      (∀ its ∈ calls, ∀ c, AddItem.plain c ∈ its → ∀ t : B, (macCav t c).isSome = true) →
      (locs3P m.cavs ++ newLocs calls.flatten).Nodup →
      Legit k (addCalls m calls)
  | [], m, hL, _, _, _ => by simpa [addCalls] using hL
  | its :: rest, m, hL, hit, henc, hnd => by
    have hnl : newLocs (its :: rest).flatten = newLocs its ++ newLocs rest.flatten := by
      simp [newLocs, List.filterMap_append]
    rw [hnl] at hnd
    have hnd1 : (newLocs its).Nodup := ((List.nodup_append.mp hnd).2.1.sublist (List.sublist_append_left _ _))
    have hfr : ∀ l ∈ newLocs its, l ∉ locs3P m.cavs := by
      intro l hl hm
      exact (List.nodup_append.mp hnd).2.2 l hm l (List.mem_append_left _ hl) rfl
    obtain ⟨hok, hL'⟩ := legit_add_succeeds htp k m hL its (fun it hi => (hit its (by simp) it hi).1)
      (henc its (by simp)) hnd1 hfr
    obtain ⟨L, hL1, hL2⟩ := locs3P_add m its hok (fun it hi => (hit its (by simp) it hi).2)
    have hnd' : (locs3P (add m its).1.cavs ++ newLocs rest.flatten).Nodup := by
      rw [hL1, List.append_assoc]
      refine List.Nodup.sublist ?_ hnd
      exact List.Sublist.append (List.Sublist.refl _) (List.Sublist.append hL2 (List.Sublist.refl _))
    have := legit_addCalls htp k rest (add m its).1 hL'
      (fun x hx => hit x (List.mem_cons_of_mem _ hx)) (fun x hx => henc x (List.mem_cons_of_mem _ hx)) hnd'
    simpa [addCalls] using this

end Macaroon.Lemmas
